import Drpc.Manager.Proto
/-
  Atomic-step model of one drpcmanager.Manager (drpcmanager/manager.go, streambuf.go) with all of
  its goroutines: the reader (manageReader), the stream manager (manageStreams / manageStream) and
  any number of API callers (NewClientStream, NewServerStream, Close), interleaved arbitrarily.

  Granularity: one step = one access to shared memory (a signal, the semaphore, a channel
  operation, the stream pointer, a stream's term/fin flags), or one `drpcdebug.Event` report, or
  one `select`.  Everything thread-local in between is folded into the next step.  An unbuffered
  channel send inside a `select` is modelled as offer / take / retract: the sender publishes its
  value, a receiver takes it, the sender continues once it is taken, or withdraws it when another
  branch of its select is ready and the value is still there.  Where Go chooses among several ready
  branches, or a callee's outcome is not determined by the manager's state (HandlePacket,
  SendCancel, whether a Cancel finds the stream idle), the choice comes from the argument `ch`.

  What the manager sees of a stream is abstracted to `SS`: terminated, finished (fin signal set,
  after which exactly one token is sent on the shared `sfin` channel, by the thread that set it),
  and whether it is published.  The application / handler / peer side of a stream is the
  environment (`Env`): it may terminate a published stream, finish a terminated one, consume a
  message the reader is parked on, cancel a caller's context, and make packets or a read error
  arrive.

  Ghost state: `trace` collects the events in the order the real hooks report them.
-/
namespace Drpc.Manager.Sys
open Drpc.Manager

abbrev Tid := Nat
abbrev Sid := Nat

/-- packet classes the manager distinguishes -/
inductive PK where
  | invoke | metadata | other
deriving Repr, DecidableEq

structure Pkt where
  sid : Sid
  kind : PK
deriving Repr, DecidableEq

/-- a stream as far as the manager is concerned -/
structure SS where
  made : Bool := false      -- drpcstream.NewWithOptions has run for this id
  owner : Tid := 0          -- the call whose context the stream was created with
  pub : Bool := false       -- `sbuf.Set(stream)` was called: reachable by the reader, and soon by the application
  term : Bool := false      -- sigs.term
  fin : Bool := false       -- sigs.fin (IsFinished / Finished() closed)
deriving Repr, DecidableEq

inductive Call where
  | client | server | close
deriving Repr, DecidableEq

/-- where `terminate` returns to -/
inductive TK where
  | reader                  -- manageReader: return
  | mgrSoft (sid : Sid)     -- manageStream, soft cancel: go on with stream.Cancel
  | mgrHard (sid : Sid)     -- manageStream, hard cancel: go on with <-m.sfin
  | close                   -- Manager.Close: go on waiting
deriving Repr, DecidableEq

/-- where `stream.Cancel` returns to -/
inductive CK where
  | rdQueue (p : Pkt)            -- reader, before forwarding an invoke-type packet
  | rdWait (p : Pkt) (c : Sid)   -- reader, before waiting for a newer stream
  | mgrTerm (sid : Sid)          -- manageStream, term branch
  | mgrSoft (sid : Sid)          -- manageStream, soft cancel, after SendCancel
  | mgrHard (sid : Sid)          -- manageStream, hard cancel (result decides about terminate)
deriving Repr, DecidableEq

inductive PC where
  | idle                                   -- no goroutine yet
  | done (ok : Bool)                       -- the call returned (ok: without error) / the goroutine exited
  -- manageReader
  | rTop                                   -- `for !m.sigs.term.IsSet()`
  | rRead                                  -- in ReadPacketUsing
  | rGot (p : Pkt)                         -- `again:` load the current-stream pointer
  | rDisp (p : Pkt) (c : Sid)              -- dispatch on the loaded value; report the decision
  | rHandle (p : Pkt) (c : Sid)            -- curr.HandlePacket(pkt)
  | rPut (c : Sid)                         -- parked in packetBuffer.Put
  | rTok (err : Bool)                      -- HandlePacket finished the stream: sending its fin token (err: it also failed)
  | rCancelCurr (p : Pkt) (c : Sid)        -- `if curr != nil && !curr.IsTerminated() { curr.Cancel }`
  | rEvQueue (p : Pkt) | rQueue (p : Pkt) | rOffered (p : Pkt) | rPdone
  | rOrphan (p : Pkt) (c : Sid) | rEvOrphan (p : Pkt)
  | rEvWait (p : Pkt) (c : Sid) | rWait (p : Pkt) (c : Sid)
  | rExit                                  -- deferred `m.sigs.read.Set(nil)`
  -- terminate(err)
  | tSet (k : TK) | tEvTerm (k : TK) | tEvClose (k : TK) | tClose (k : TK) | tTport (k : TK) | tSbuf (k : TK)
  -- stream.Cancel(err)
  | xCancel (sid : Sid) (k : CK) | xTok (sid : Sid) (k : CK)
  -- manageStreams / manageStream
  | mTop | mStream (sid : Sid)
  | mRecv (sid : Sid) (rel : Bool)         -- `<-m.sfin`
  | mEvSfin (sid : Sid) (rel : Bool)       -- report sfin.recv
  | mEvRel | mRel                          -- report sem.rel; m.sem.Recv()
  | mSendCancel (sid : Sid) | mSendCancelTok (sid : Sid) (bad : Bool) | mSoftAfter (sid : Sid) (bad : Bool)
  | mExit
  -- acquireSemaphore / waitForPreviousStream
  | aStart (c : Call) | aSel (c : Call) | aEvAcq (c : Call) | aPrev (c : Call) | aEvPrevNone (c : Call)
  | aPrevChk (c : Call) (p : Sid) | aPrevSel (c : Call) (p : Sid) | aEvPrevDone (c : Call) (p : Sid)
  | aFailEvRel | aFailRel
  | aGot (c : Call)
  -- NewServerStream's packet loop
  | sSel | sGot (p : Pkt) | sFailEvRel | sFailRel
  -- newStream
  | nNew (c : Call) (sid : Sid) | nEvOffer (c : Call) (sid : Sid) | nOffer (c : Call) (sid : Sid) | nOffered (c : Call) (sid : Sid)
  | nEvRetract (c : Call) (sid : Sid)
  | nEvBegin (c : Call) (sid : Sid) | nSet (c : Call) (sid : Sid) | nEvEnd (c : Call) (sid : Sid)
  -- Close
  | cWaitStream | cWaitRead | cWaitTport
deriving Repr, DecidableEq

structure Sh where
  soft : Bool := false                 -- Options.SoftCancel
  term : Bool := false                 -- sigs.term
  closes : Nat := 0                    -- calls of tr.Close()
  tportSet : Bool := false             -- sigs.tport
  readDone : Bool := false             -- sigs.read
  streamDone : Bool := false           -- sigs.stream
  sbufCur : Sid := 0                   -- streamBuffer.stream (0: nil)
  sbufClosed : Bool := false
  invoked : Sid := 0                   -- manageReader's local `invoked`
  sem : Bool := false                  -- m.sem holds a value
  pkts : Option Pkt := none            -- a value offered on m.pkts
  pdone : Bool := false                -- m.pdone (capacity 1) holds a value
  sfin : Bool := false                 -- m.sfin (capacity 1) holds a token
  streamsCh : Option Sid := none       -- a value offered on m.streams
  strm : Sid → SS := fun _ => {}
  ctx : Tid → Bool := fun _ => false   -- the caller's context is done
  envTok : Nat := 0                    -- streams finished by the environment whose token is not sent yet
  trace : List Ev := []                -- ghost: events reported so far

structure St where
  sh : Sh := {}
  pc : Tid → PC := fun t => if t = 0 then .rTop else if t = 1 then .mTop else .idle

def readerTid : Tid := 0
def mgrTid : Tid := 1

def St.setPc (s : St) (t : Tid) (p : PC) : St := { s with pc := fun u => if u = t then p else s.pc u }
def St.upd (s : St) (t : Tid) (sh : Sh) (p : PC) : St := { sh := sh, pc := fun u => if u = t then p else s.pc u }
def Sh.emit (sh : Sh) (e : Ev) : Sh := { sh with trace := sh.trace ++ [e] }
def Sh.setStrm (sh : Sh) (sid : Sid) (x : SS) : Sh := { sh with strm := fun i => if i = sid then x else sh.strm i }

/-- continuation of `terminate` -/
def afterTerminate : TK → PC
  | .reader => .rExit
  | .mgrSoft sid => .xCancel sid (.mgrSoft sid)
  | .mgrHard sid => .mRecv sid true
  | .close => .cWaitStream

/-- continuation of `stream.Cancel`; `res` = the stream was already finished -/
def afterCancel (res : Bool) : CK → PC
  | .rdQueue p => .rEvQueue p
  | .rdWait p c => .rOrphan p c
  | .mgrTerm sid => .mRecv sid true
  | .mgrSoft sid => .mRecv sid true
  | .mgrHard sid => if res then .mRecv sid true else .tSet (.mgrHard sid)

/-- the failure exit of a call that holds the semaphore (deferred release in NewServerStream) -/
def failHolding : Call → PC
  | .server => .sFailEvRel
  | _ => .done false

/-- pick the `ch`-th of the ready branches of a select (none ready: blocked) -/
def pick {α} (ready : List α) (ch : Nat) : Option α :=
  if ready.isEmpty then none else ready[ch % ready.length]?

def stepPC (s : St) (t : Tid) (ch : Nat) : PC → Option St
  | .idle => none
  | .done _ => none
  /- ---------------- manageReader ---------------- -/
  | .rTop => some (s.setPc t (if s.sh.term then .rExit else .rRead))
  | .rRead => none                                           -- the environment makes a packet or an error arrive
  | .rGot p => some (s.setPc t (.rDisp p s.sh.sbufCur))
  | .rDisp p c =>
    if c ≠ 0 ∧ p.sid = c then some (s.upd t (s.sh.emit (.deliver p.sid)) (.rHandle p c))
    else if c ≠ 0 ∧ p.sid < c then some (s.upd t (s.sh.emit (.drop p.sid)) .rTop)
    else some (s.setPc t (.rCancelCurr p c))
  | .rHandle _ c =>
    -- HandlePacket: ignored when the stream is terminated; otherwise, as the packet and the stream's
    -- state decide: accepted (0); parked in Put until consumed or closed (1); terminates the stream
    -- (2: operations still in flight, 3: finished at once); a protocol error, which also terminates
    -- the stream (4 / 5 likewise)
    let x := s.sh.strm c
    if x.term then some (s.setPc t .rTop)
    else match ch % 6 with
      | 0 => some (s.setPc t .rTop)
      | 1 => some (s.setPc t (.rPut c))
      | 2 => some (s.upd t (s.sh.setStrm c { x with term := true }) .rTop)
      | 3 => some (s.upd t (s.sh.setStrm c { x with term := true, fin := true }) (.rTok false))
      | 4 => some (s.upd t (s.sh.setStrm c { x with term := true }) (.tSet .reader))
      | _ => some (s.upd t (s.sh.setStrm c { x with term := true, fin := true }) (.rTok true))
  | .rPut c => if (s.sh.strm c).term then some (s.setPc t .rTop) else none
  | .rTok err => if s.sh.sfin then none else some (s.upd t { s.sh with sfin := true } (if err then .tSet .reader else .rTop))
  | .rCancelCurr p c =>
    let k : CK := if p.kind = .other then .rdWait p c else .rdQueue p
    if c ≠ 0 ∧ !(s.sh.strm c).term then some (s.setPc t (.xCancel c k))
    else some (s.setPc t (afterCancel false k))
  | .rEvQueue p =>
    -- `invoked` is local to the reader: the id of the newest stream an invoke was forwarded for
    let sh := if p.kind = .invoke then { s.sh with invoked := p.sid } else s.sh
    some (s.upd t (sh.emit (.queue p.sid)) (.rQueue p))
  | .rQueue p =>
    -- select { case m.pkts <- pkt ; case <-term }
    if s.sh.pkts.isNone then
      if s.sh.term ∧ ch % 2 = 1 then some (s.setPc t .rExit)
      else some (s.upd t { s.sh with pkts := some p } (.rOffered p))
    else if s.sh.term then some (s.setPc t .rExit) else none
  | .rOffered p =>
    if s.sh.pkts = some p then
      if s.sh.term then some (s.upd t { s.sh with pkts := none } .rExit) else none
    else some (s.setPc t .rPdone)
  | .rPdone => if s.sh.pdone then some (s.upd t { s.sh with pdone := false } .rTop) else none
  | .rOrphan p c => some (s.setPc t (if p.sid ≠ s.sh.invoked then .rEvOrphan p else .rEvWait p c))
  | .rEvOrphan p => some (s.upd t (s.sh.emit (.orphan p.sid)) .rTop)
  | .rEvWait p c => some (s.upd t (s.sh.emit (.wait p.sid)) (.rWait p c))
  | .rWait p c =>
    if s.sh.sbufClosed then some (s.setPc t .rExit)
    else if s.sh.sbufCur ≠ c then some (s.setPc t (.rGot p))
    else none
  | .rExit => some (s.upd t { s.sh with readDone := true } (.done true))
  /- ---------------- terminate ---------------- -/
  | .tSet k =>
    if s.sh.term then some (s.setPc t (afterTerminate k))
    else some (s.upd t { s.sh with term := true } (.tEvTerm k))
  | .tEvTerm k => some (s.upd t (s.sh.emit .term) (.tEvClose k))
  | .tEvClose k => some (s.upd t (s.sh.emit .tportClose) (.tClose k))
  | .tClose k => some (s.upd t { s.sh with closes := s.sh.closes + 1 } (.tTport k))
  | .tTport k => some (s.upd t { s.sh with tportSet := true } (.tSbuf k))
  | .tSbuf k => some (s.upd t { s.sh with sbufClosed := true } (afterTerminate k))
  /- ---------------- stream.Cancel ---------------- -/
  | .xCancel sid k =>
    let x := s.sh.strm sid
    if x.fin then some (s.setPc t (afterCancel true k))
    else if ch % 2 = 1 then                                      -- nothing in flight: finished at once
      some (s.upd t (s.sh.setStrm sid { x with term := true, fin := true }) (.xTok sid k))
    else some (s.upd t (s.sh.setStrm sid { x with term := true }) (afterCancel false k))
  | .xTok _ k => if s.sh.sfin then none else some (s.upd t { s.sh with sfin := true } (afterCancel false k))
  /- ---------------- manageStreams / manageStream ---------------- -/
  | .mTop =>
    match s.sh.streamsCh with
    | some sid =>
      if s.sh.term ∧ ch % 2 = 1 then some (s.setPc t .mExit)
      else some (s.upd t { s.sh with streamsCh := none } (.mStream sid))
    | none => if s.sh.term then some (s.setPc t .mExit) else none
  | .mStream sid =>
    let ready : List Nat := (if s.sh.term then [0] else []) ++ (if s.sh.sfin then [1] else [])
      ++ (if s.sh.ctx (s.sh.strm sid).owner then [2] else [])
    match pick ready ch with
    | none => none
    | some 0 => some (s.setPc t (.xCancel sid (.mgrTerm sid)))
    | some 1 => some (s.upd t { s.sh with sfin := false } (.mEvSfin sid true))
    | some _ =>
      -- soft cancel: the semaphore stays held until the fin token has been received (fix 110f4d6)
      if s.sh.soft then some (s.setPc t (.mSendCancel sid))
      else some (s.setPc t (.xCancel sid (.mgrHard sid)))
  | .mRecv sid rel => if s.sh.sfin then some (s.upd t { s.sh with sfin := false } (.mEvSfin sid rel)) else none
  | .mEvSfin sid rel => some (s.upd t (s.sh.emit (.sfinRecv sid)) (if rel then .mEvRel else .mTop))
  | .mEvRel => some (s.upd t (s.sh.emit .semRel) .mRel)
  | .mRel => if s.sh.sem then some (s.upd t { s.sh with sem := false } .mTop) else none
  | .mSendCancel sid =>
    -- SendCancel: busy (0); not busy and: already terminated (nothing sent); else terminates the
    -- stream, writes the cancel packet (fails: 2 / 4) and may leave the stream finished (3 / 4)
    let x := s.sh.strm sid
    match ch % 5 with
    | 0 => some (s.setPc t (.mSoftAfter sid true))
    | 1 => some (s.upd t (s.sh.setStrm sid { x with term := true }) (.mSoftAfter sid false))
    | 2 => if x.term then some (s.setPc t (.mSoftAfter sid false))
           else some (s.upd t (s.sh.setStrm sid { x with term := true }) (.mSoftAfter sid true))
    | 3 => if x.fin then some (s.setPc t (.mSoftAfter sid false))
           else some (s.upd t (s.sh.setStrm sid { x with term := true, fin := true }) (.mSendCancelTok sid false))
    | _ => if x.term then some (s.setPc t (.mSoftAfter sid false))
           else some (s.upd t (s.sh.setStrm sid { x with term := true, fin := true }) (.mSendCancelTok sid true))
  | .mSendCancelTok sid bad => if s.sh.sfin then none else some (s.upd t { s.sh with sfin := true } (.mSoftAfter sid bad))
  | .mSoftAfter sid bad =>
    some (s.setPc t (if bad then .tSet (.mgrSoft sid) else .xCancel sid (.mgrSoft sid)))
  | .mExit => some (s.upd t { s.sh with streamDone := true } (.done true))
  /- ---------------- acquireSemaphore / waitForPreviousStream ---------------- -/
  | .aStart c => some (s.setPc t (if s.sh.term ∨ s.sh.ctx t then .done false else .aSel c))
  | .aSel c =>
    let ready : List Nat := (if s.sh.ctx t then [0] else []) ++ (if s.sh.term then [1] else [])
      ++ (if s.sh.sem then [] else [2])
    match pick ready ch with
    | none => none
    | some 2 => some (s.upd t { s.sh with sem := true } (.aEvAcq c))
    | some _ => some (s.setPc t (.done false))
  | .aEvAcq c => some (s.upd t (s.sh.emit .semAcq) (.aPrev c))
  | .aPrev c => some (s.setPc t (if s.sh.sbufCur = 0 then .aEvPrevNone c else .aPrevChk c s.sh.sbufCur))
  | .aEvPrevNone c => some (s.upd t (s.sh.emit .prevNone) (.aGot c))
  | .aPrevChk c p => some (s.setPc t (if (s.sh.strm p).fin then .aEvPrevDone c p else .aPrevSel c p))
  | .aPrevSel c p =>
    let ready : List Nat := (if s.sh.ctx t then [0] else []) ++ (if s.sh.term then [1] else [])
      ++ (if (s.sh.strm p).fin then [2] else [])
    match pick ready ch with
    | none => none
    | some 2 => some (s.setPc t (.aEvPrevDone c p))
    | some _ => some (s.setPc t .aFailEvRel)
  | .aEvPrevDone c p => some (s.upd t (s.sh.emit (.prevDone p)) (.aGot c))
  | .aFailEvRel => some (s.upd t (s.sh.emit .semRel) .aFailRel)
  | .aFailRel => if s.sh.sem then some (s.upd t { s.sh with sem := false } (.done false)) else none
  | .aGot c =>
    match c with
    | .client => some (s.setPc t (.nNew .client (s.sh.sbufCur + 1)))
    | .server => some (s.setPc t .sSel)
    | .close => some (s.setPc t (.done false))                  -- not a semaphore user
  /- ---------------- NewServerStream ---------------- -/
  | .sSel =>
    -- select { timeout ; ctx.Done ; term ; pkt := <-m.pkts }   (the inactivity timeout acts like the context)
    let ready : List Nat := (if s.sh.ctx t then [0] else []) ++ (if s.sh.term then [1] else [])
      ++ (if s.sh.pkts.isSome then [2] else [])
    match pick ready ch, s.sh.pkts with
    | none, _ => none
    | some 2, some p => some (s.upd t { s.sh with pkts := none } (.sGot p))
    | some _, _ => some (s.setPc t .sFailEvRel)
  | .sGot p =>
    -- m.pdone.Send() (capacity 1), then by kind: metadata (decodes: ch even) → loop; invoke → newStream
    if s.sh.pdone then none
    else match p.kind with
      | .metadata => some (s.upd t { s.sh with pdone := true } (if ch % 2 = 0 then .sSel else .sFailEvRel))
      | .invoke => some (s.upd t { s.sh with pdone := true } (.nNew .server p.sid))
      | .other => some (s.upd t { s.sh with pdone := true } .sSel)
  | .sFailEvRel => some (s.upd t (s.sh.emit .semRel) .sFailRel)
  | .sFailRel => if s.sh.sem then some (s.upd t { s.sh with sem := false } (.done false)) else none
  /- ---------------- newStream ---------------- -/
  | .nNew c sid =>
    some (s.upd t (s.sh.setStrm sid { made := true, owner := t }) (.nEvBegin c sid))
  -- the stream is published first (sbuf.Set) and handed to manageStreams second
  | .nEvBegin c sid => some (s.upd t (s.sh.emit (.newBegin sid)) (.nSet c sid))
  | .nSet c sid =>
    let sh := s.sh.setStrm sid { s.sh.strm sid with pub := true }
    some (s.upd t (if s.sh.sbufClosed then sh else { sh with sbufCur := sid }) (.nEvEnd c sid))
  | .nEvEnd c sid => some (s.upd t (s.sh.emit (.newEnd sid)) (.nEvOffer c sid))
  | .nEvOffer c sid => some (s.upd t (s.sh.emit (.newOffer sid)) (.nOffer c sid))
  | .nOffer c sid =>
    -- select { case m.streams <- si ; case <-term }
    if s.sh.streamsCh.isNone then
      if s.sh.term ∧ ch % 2 = 1 then some (s.setPc t (.nEvRetract c sid))
      else some (s.upd t { s.sh with streamsCh := some sid } (.nOffered c sid))
    else if s.sh.term then some (s.setPc t (.nEvRetract c sid)) else none
  | .nOffered c sid =>
    if s.sh.streamsCh = some sid then
      if s.sh.term then some (s.upd t { s.sh with streamsCh := none } (.nEvRetract c sid)) else none
    else some (s.setPc t (.done true))
  | .nEvRetract c sid => some (s.upd t (s.sh.emit (.newRetract sid)) (failHolding c))
  /- ---------------- Close ---------------- -/
  | .cWaitStream => if s.sh.streamDone then some (s.setPc t .cWaitRead) else none
  | .cWaitRead => if s.sh.readDone then some (s.setPc t .cWaitTport) else none
  | .cWaitTport => if s.sh.tportSet then some (s.setPc t (.done true)) else none

def step (s : St) (t : Tid) (ch : Nat) : Option St := stepPC s t ch (s.pc t)

/-- what the environment can do -/
inductive Env where
  | spawn (t : Tid) (c : Call)      -- a goroutine calls NewClientStream / NewServerStream / Close
  | ctxCancel (t : Tid)             -- the context passed by caller `t` is done
  | arrive (p : Pkt)                -- ReadPacketUsing returns a packet
  | readErr                         -- ReadPacketUsing returns an error
  | appTerm (sid : Sid)             -- a published stream is terminated by its user / handler
  | appFin (sid : Sid)              -- the last operation of a terminated stream returns: fin is set …
  | tokSend                         -- … and that thread sends the token
  | consume                         -- the message the reader is parked on is consumed
deriving Repr, DecidableEq

def envStep (s : St) : Env → Option St
  | .spawn t c =>
    if 2 ≤ t ∧ s.pc t = .idle then
      some (s.setPc t (match c with | .close => .tSet .close | c => .aStart c))
    else none
  | .ctxCancel t => some { s with sh := { s.sh with ctx := fun u => if u = t then true else s.sh.ctx u } }
  | .arrive p => if s.pc readerTid = .rRead then some (s.setPc readerTid (.rGot p)) else none
  | .readErr => if s.pc readerTid = .rRead then some (s.setPc readerTid (.tSet .reader)) else none
  | .appTerm sid =>
    let x := s.sh.strm sid
    if x.pub then some { s with sh := s.sh.setStrm sid { x with term := true } } else none
  | .appFin sid =>
    let x := s.sh.strm sid
    if x.pub ∧ x.term ∧ !x.fin then
      some { s with sh := { s.sh.setStrm sid { x with fin := true } with envTok := s.sh.envTok + 1 } }
    else none
  | .tokSend =>
    if 0 < s.sh.envTok ∧ !s.sh.sfin then some { s with sh := { s.sh with sfin := true, envTok := s.sh.envTok - 1 } }
    else none
  | .consume =>
    match s.pc readerTid with
    | .rPut _ => some (s.setPc readerTid .rTop)
    | _ => none

/-- reachable states of a manager created with the given cancel mode -/
inductive Reach (soft : Bool) : St → Prop
  | init : Reach soft { sh := { soft := soft } }
  | step {s s' : St} (t : Tid) (ch : Nat) : Reach soft s → step s t ch = some s' → Reach soft s'
  | env {s s' : St} (e : Env) : Reach soft s → envStep s e = some s' → Reach soft s'

end Drpc.Manager.Sys
