import Drpc.Stream.Conc
/-
  Model of the dispatch decision of drpcmanager.manageReader (manager.go, the `switch` after
  `again:`), of client stream-id allocation (`NewClientStream`: `m.sbuf.Get().ID()+1`) and of
  the server's adoption of the id carried by the invoke packet.
-/
namespace Drpc.Manager
open Drpc Drpc.Stream

inductive Decision where
  | deliver          -- curr.HandlePacket(pkt)
  | dropOld          -- an old message: ignored
  | toInvokeQueue    -- m.pkts <- pkt (after cancelling an unterminated current stream)
  | waitForStream    -- m.sbuf.Wait(curr.ID()) then dispatch again
deriving Repr, DecidableEq

def isInvokeKind (k : Byte) : Bool := k = kindInvoke || k = kindInvokeMetadata

/-- `curr = none` is the nil stream (whose `ID()` is 0). -/
def dispatch (curr : Option U64) (pktSid : U64) (kind : Byte) : Decision :=
  match curr with
  | some c =>
    if pktSid = c then .deliver
    else if pktSid.toNat < c.toNat then .dropOld
    else if isInvokeKind kind then .toInvokeQueue else .waitForStream
  | none => if isInvokeKind kind then .toInvokeQueue else .waitForStream

/-- the id `sbuf.Wait` waits to see replaced -/
def waitedId (curr : Option U64) : U64 := curr.getD 0

/-- client side: the id of the next stream -/
def nextClientId (curr : Option U64) : U64 := curr.getD 0 + 1

/-- The packet as the current stream's `HandlePacket` sees it: `sameSid` is computed by the stream
    from its own id, independently of the manager's decision. -/
def asCall (streamSid : U64) (pktSid : U64) (kind : Byte) (control : Bool) (data : Bytes) : Call :=
  .handle kind control (pktSid = streamSid) data

end Drpc.Manager
