import Drpc.Bytes
/-
  Protocol model of one drpcmanager.Manager as a CHECKER over its event trace.

  The verif-tagged `drpcdebug.Event(m, name, id)` calls in manager.go report, in a total order that
  is consistent with the real execution (release-type events are reported before the action,
  acquire-type events after it), what the manager does: semaphore acquire/release, the outcome of
  waitForPreviousStream, stream creation (begin/end around `sbuf.Set`), the reader's dispatch
  decisions, termination and the transport close.  `allowed` accepts exactly the traces that obey
  the manager's protocol; the theorems below hold for EVERY accepted trace; the e2e suite checks
  that every trace of the real manager is accepted (trace inclusion).
-/
namespace Drpc.Manager

inductive Ev where
  | semAcq | semRel
  | prevNone | prevDone (sid : Nat)
  | newBegin (sid : Nat) | newEnd (sid : Nat)
  | deliver (sid : Nat) | drop (sid : Nat) | queue (sid : Nat) | wait (sid : Nat)
  | term | tportClose
  | sfinRecv (sid : Nat)
deriving Repr, DecidableEq

structure PS where
  sem : Bool := false              -- the stream semaphore is held
  prevOk : Bool := false           -- since the semaphore was acquired, the previous stream was seen finished (or absent)
  curr : Nat := 0                  -- id of the newest stream whose `sbuf.Set` has completed (0: none)
  pending : Option Nat := none     -- a stream between `stream.new.begin` and `stream.new.end`
  created : List Nat := []         -- ids of all streams created, oldest first
  term : Bool := false
  closes : Nat := 0
  sfin : List Nat := []            -- streams whose fin token the manager consumed
  window : List Nat := [0]         -- values the "current stream" pointer has had since the reader's last event
deriving Repr, DecidableEq

/-- ids the reader may observe as "current" right now (the atomic pointer is swapped somewhere
    between the begin and end events) -/
def PS.currs (s : PS) : List Nat := s.curr :: (match s.pending with | some p => [p] | none => [])

/-- the reader loads the pointer some time after its previous event and before reporting this one:
    it saw one of the values in `window`; afterwards the window restarts from the present values -/
def PS.afterRead (s : PS) : PS := { s with window := s.currs }

def allowed (s : PS) : Ev → Option PS
  | .semAcq => if s.sem then none else some { s with sem := true, prevOk := false }
  | .semRel => if s.sem then some { s with sem := false } else none
  | .prevNone => if s.sem ∧ s.curr = 0 ∧ s.pending = none then some { s with prevOk := true } else none
  | .prevDone sid => if s.sem ∧ sid = s.curr ∧ sid ≠ 0 ∧ s.pending = none then some { s with prevOk := true } else none
  | .newBegin sid =>
    -- a stream is created only by the holder of the semaphore, only after the previous stream was
    -- seen finished, and with a larger id
    if s.sem ∧ s.prevOk ∧ s.pending = none ∧ s.curr < sid then
      some { s with pending := some sid, prevOk := false, created := s.created ++ [sid], window := s.window ++ [sid] } else none
  | .newEnd sid =>
    -- `sbuf.Set` has returned (it does not store once the buffer is closed by termination; the id is
    -- recorded all the same: no later stream exists on a terminated manager)
    if s.pending = some sid then some { s with pending := none, curr := sid } else none
  | .deliver sid => if sid ∈ s.window ∧ sid ≠ 0 then some s.afterRead else none
  | .drop sid => if ∃ c ∈ s.window, sid < c then some s.afterRead else none
  | .queue sid => if ∃ c ∈ s.window, c < sid then some s.afterRead else none
  | .wait sid => if ∃ c ∈ s.window, c < sid then some s.afterRead else none
  | .term => if s.term then none else some { s with term := true }
  | .tportClose => if s.term ∧ s.closes = 0 then some { s with closes := 1 } else none
  | .sfinRecv sid => if sid ∈ s.created ∧ sid ∉ s.sfin then some { s with sfin := s.sfin ++ [sid] } else none

/-- run a trace; `none` = rejected -/
def run : PS → List Ev → Option PS
  | s, [] => some s
  | s, e :: es => match allowed s e with
    | some s' => run s' es
    | none => none

/-- index of the first rejected event (for diagnostics) -/
def firstReject : PS → List Ev → Nat → Option Nat
  | _, [], _ => none
  | s, e :: es, i => match allowed s e with
    | some s' => firstReject s' es (i + 1)
    | none => some i

end Drpc.Manager
