import Drpc.Bytes
/-
  Protocol model of one drpcmanager.Manager as a CHECKER over its event trace.

  The verif-tagged `drpcdebug.Event(m, name, id)` calls in manager.go report, in a total order that
  is consistent with the real execution (release-type events are reported before the action,
  acquire-type events after it), what the manager does: semaphore acquire/release, the outcome of
  waitForPreviousStream, stream creation (begin / end around `sbuf.Set`, then offer / retract around the hand-off to manageStreams), the reader's dispatch
  decisions, termination and the transport close.  `allowed` accepts exactly the traces that obey
  the manager's protocol; the theorems below hold for EVERY accepted trace; the e2e suite checks
  that every trace of the real manager is accepted (trace inclusion).
-/
namespace Drpc.Manager

inductive Ev where
  | semAcq | semRel
  | prevNone | prevDone (sid : Nat)
  | newOffer (sid : Nat) | newRetract (sid : Nat) | newBegin (sid : Nat) | newEnd (sid : Nat)
  | deliver (sid : Nat) | drop (sid : Nat) | queue (sid : Nat) | wait (sid : Nat) | orphan (sid : Nat)
  | term | tportClose
  | sfinRecv (sid : Nat)
deriving Repr, DecidableEq

structure PS where
  sem : Bool := false              -- the stream semaphore is held
  prevOk : Bool := false           -- since the semaphore was acquired, the previous stream was seen finished (or absent)
  curr : Nat := 0                  -- id of the newest stream whose `sbuf.Set` has completed (0: none)
  pending : Option Nat := none     -- a stream between `stream.new.begin` and `stream.new.end`
  created : List Nat := []         -- ids of all streams created, oldest first
  offered : List Nat := []         -- streams offered to manageStreams (`stream.new.offer`), after they were published
  retracted : List Nat := []       -- offered streams that manageStreams did not take (the manager terminated)
  term : Bool := false
  closes : Nat := 0
  sfin : List Nat := []            -- streams whose fin token the manager consumed
  window : List Nat := [0]         -- values the "current stream" pointer has had since the reader's last event
deriving Repr, DecidableEq

/-- ids the reader may observe as "current" right now (the atomic pointer is swapped somewhere
    between the begin and end events) -/
def PS.currs (s : PS) : List Nat := s.curr :: (match s.pending with | some p => [p] | none => [])

/-- the reader loads the pointer some time after its previous event and before reporting this one:
    it saw one of the values `c` in `window`, and the dispatch decision it reports tells which ones are
    possible (`ok c`).  The pointer is only ever stored by `sbuf.Set`, by the holder of the stream
    semaphore, with increasing ids: it never decreases.  So afterwards the window restarts from those
    present values that are not below some value the reader can have seen. -/
def PS.afterRead (s : PS) (ok : Nat → Bool) : PS :=
  { s with window := s.currs.filter (fun v => s.window.any (fun c => ok c && decide (c ≤ v))) }

def allowed (s : PS) : Ev → Option PS
  | .semAcq => if s.sem then none else some { s with sem := true, prevOk := false }
  -- the semaphore is released by manageStream (it has the stream: after the offer) or by the creator
  -- on an error path (before any creation, or after the retraction): never while a stream is being
  -- published, and never while the newest published stream has not been offered yet
  | .semRel => if s.sem ∧ s.pending = none ∧ (s.curr = 0 ∨ s.curr ∈ s.offered) then some { s with sem := false } else none
  | .prevNone => if s.sem ∧ s.curr = 0 ∧ s.pending = none then some { s with prevOk := true } else none
  | .prevDone sid => if s.sem ∧ sid = s.curr ∧ sid ≠ 0 ∧ s.pending = none then some { s with prevOk := true } else none
  | .newBegin sid =>
    -- a stream is created and published only by the holder of the semaphore, only after the previous
    -- stream was seen finished, and with a larger id
    if s.sem ∧ s.prevOk ∧ s.pending = none ∧ s.curr < sid then
      some { s with pending := some sid, prevOk := false, created := s.created ++ [sid], window := s.window ++ [sid] } else none
  | .newEnd sid =>
    -- `sbuf.Set` has returned (it does not store once the buffer is closed by termination; the id is
    -- recorded all the same: no later stream exists on a terminated manager)
    if s.pending = some sid then some { s with pending := none, curr := sid } else none
  | .newOffer sid =>
    -- the published stream is offered to manageStreams, once, still under the semaphore
    if s.sem ∧ s.pending = none ∧ s.curr = sid ∧ sid ∈ s.created ∧ sid ∉ s.offered then
      some { s with offered := s.offered ++ [sid] } else none
  -- the manager terminated before manageStreams took the stream: nobody manages it (the creator still
  -- holds the semaphore, and its stream is still the newest one)
  | .newRetract sid => if s.sem ∧ s.pending = none ∧ s.curr = sid ∧ sid ∈ s.offered ∧ sid ∉ s.retracted ∧ sid ∉ s.sfin then
      some { s with retracted := s.retracted ++ [sid] } else none
  -- the reader saw exactly `sid` (`pkt.ID.Stream == curr.ID()`)
  | .deliver sid => if sid ∈ s.window ∧ sid ≠ 0 then some (s.afterRead (· == sid)) else none
  -- the reader saw a larger id (`pkt.ID.Stream < curr.ID()`)
  | .drop sid => if ∃ c ∈ s.window, sid < c then some (s.afterRead (sid < ·)) else none
  -- the reader saw no stream (0) or a smaller id
  | .queue sid => if ∃ c ∈ s.window, c < sid then some (s.afterRead (· < sid)) else none
  | .wait sid => if ∃ c ∈ s.window, c < sid then some (s.afterRead (· < sid)) else none
  -- a non-invoke packet of a stream whose invoke was never forwarded is dropped instead of waited for
  -- (same place in the reader's default case: it saw no stream or a smaller id)
  | .orphan sid => if ∃ c ∈ s.window, c < sid then some (s.afterRead (· < sid)) else none
  | .term => if s.term then none else some { s with term := true }
  | .tportClose => if s.term ∧ s.closes = 0 then some { s with closes := 1 } else none
  -- manageStream consumed the fin token of the stream it was handed
  | .sfinRecv sid => if sid ∈ s.offered ∧ sid ∉ s.retracted ∧ sid ∉ s.sfin then some { s with sfin := s.sfin ++ [sid] } else none

/-- run a trace; `none` = rejected -/
def run : PS → List Ev → Option PS
  | s, [] => some s
  | s, e :: es => match allowed s e with
    | some s' => run s' es
    | none => none

/-- index of the first rejected event (for diagnostics) -/
def firstReject : PS → List Ev → Nat → Option Nat
  | _, [], _ => none
  | s, e :: es, i => match allowed s e with
    | some s' => firstReject s' es (i + 1)
    | none => some i

end Drpc.Manager
