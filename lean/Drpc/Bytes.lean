/-
  Byte strings and the data types shared by every model file.
  Core Lean only (no Mathlib): everything here is also linked into the `drpcmodel` driver.
-/
namespace Drpc

abbrev U64 := BitVec 64
abbrev Byte := BitVec 8
abbrev Bytes := List Byte

def hexDigit (n : Nat) : Char :=
  if n < 10 then Char.ofNat (48 + n) else Char.ofNat (87 + n)

def Bytes.toHex (b : Bytes) : String :=
  if b.isEmpty then "-" else
  String.ofList (b.foldr (fun x acc => hexDigit (x.toNat / 16) :: hexDigit (x.toNat % 16) :: acc) [])

def hexVal (c : Char) : Option Nat :=
  if '0' ≤ c ∧ c ≤ '9' then some (c.toNat - 48)
  else if 'a' ≤ c ∧ c ≤ 'f' then some (c.toNat - 87)
  else if 'A' ≤ c ∧ c ≤ 'F' then some (c.toNat - 55)
  else none

def parseHexAux : List Char → Option Bytes
  | [] => some []
  | [_] => none
  | a :: b :: rest => do
    let x ← hexVal a
    let y ← hexVal b
    let r ← parseHexAux rest
    pure (BitVec.ofNat 8 (x * 16 + y) :: r)

/-- `-` is the empty string; otherwise lower/upper-case hex. -/
def Bytes.ofHex? (s : String) : Option Bytes :=
  if s = "-" then some [] else parseHexAux s.toList

def Bytes.ofString (s : String) : Bytes := s.toUTF8.toList.map (fun b => BitVec.ofNat 8 b.toNat)

end Drpc
