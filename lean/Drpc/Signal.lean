/-
  Atomic-step model of drpcsignal.Signal (signal.go) for an unbounded number of threads.

  One model step = one shared access of the Go code (DESIGN.md Appendix A.1): the atomic load of
  the status word on a fast path, the acquisition of `mu` (enabled only when free), the read of the
  status word under the lock, the write of the non-atomic field `err`, the write of the non-atomic
  field `ch`, the atomic store of the status word, `close(s.ch)`, `mu.Unlock()`, the non-atomic
  read of `s.ch` / `s.err` after a fast-path load, and the blocking receive of `Wait`.

  The status word is ONE atomic word holding two bits (statusErrorSet, statusChannelCreated; the
  tie checks that they are distinct single bits): it is loaded and stored as a whole, here as the
  pair `errSet`, `chCreated` that always changes in one step.

  Threads are `Nat`s.  A thread runs exactly one API call, from `PC.start c` to `PC.done… r`
  (a goroutine that performs several calls is a sequence of model threads); completed calls stay
  visible in the state, so statements about "all completed calls" are statements about one state.

  Channels: `Ch.none` is the nil channel, `Ch.sentinel` the package-level pre-closed channel
  `closed` of chan.go, `Ch.fresh i` the i-th channel made by `make`.  `closes i` counts the
  `close()` calls executed on `fresh i`, `sentCloses` those executed on the sentinel (which is
  closed from the start, so any of them panics).  A close of a closed or nil channel is an explicit
  `PC.panicked` outcome (the mutex stays held, as in Go: setSlow has no deferred unlock).
-/
namespace Drpc.Signal

abbrev Tid := Nat
/-- identity of the error value handed to `Set` (0 plays the role of a nil error) -/
abbrev Val := Nat

inductive Ch where
  | none | fresh (id : Nat) | sentinel
deriving Repr, DecidableEq

inductive Call where
  | set (e : Val) | signal | wait | get | err | isSet
deriving Repr, DecidableEq

/-- program counters.  `w = true` in the g… states: `Signal()` called from `Wait`. -/
inductive PC where
  | idle
  | start (c : Call)
  | panicked (c : Call)
  -- results (one constructor per call kind, so that no classifier needs a nested pattern)
  | doneSet (e : Val) (ok : Bool)              -- Set(e) returned ok
  | doneSignal (c : Ch)                        -- Signal() returned c
  | doneWait                                   -- Wait() returned
  | doneGet (x : Option Val) (ok : Bool)       -- Get() returned (x, ok); x = none: the nil of an unwritten field
  | doneErr (x : Option Val)                   -- Err() returned x
  | doneIsSet (b : Bool)                       -- IsSet() returned b
  -- setSlow
  | sLock (e : Val)                          -- ▸signal.setSlow.enter; mu.Lock()
  | sRead (e : Val)                          -- ▸signal.setSlow.locked; status := s.status
  | sWriteErr (e : Val) (cr : Bool)          -- s.err = err
  | sWriteCh (e : Val) (cr : Bool)           -- ▸signal.setSlow.err; if !cr { s.ch = closed }
  | sStore (e : Val) (cr : Bool)             -- ▸signal.setSlow.ch; atomic store ErrorSet|ChannelCreated
  | sClose (e : Val) (cr : Bool)             -- ▸signal.setSlow.stored; if cr { close(s.ch) }
  | sUnlock (e : Val) (ok : Bool)            -- ▸signal.setSlow.unlock; mu.Unlock(); return ok
  -- Signal / signalSlow
  | gFast (w : Bool)                         -- ▸signal.Signal.fast; return s.ch
  | gLock (w : Bool)                         -- ▸signal.signalSlow.enter; mu.Lock()
  | gRead (w : Bool)                         -- ▸signal.signalSlow.locked; set := s.status
  | gMake (w : Bool) (es : Bool)             -- s.ch = make(chan struct{})
  | gStore (w : Bool) (es : Bool)            -- ▸signal.signalSlow.made; atomic store set|ChannelCreated
  | gUnlock (w : Bool)                       -- ▸signal.signalSlow.unlock; mu.Unlock()
  | gSlowRead (w : Bool)                     -- return s.ch
  | wRecv (c : Ch)                           -- Wait: <-c
  -- Get / Err
  | getRead                                  -- ▸signal.Get.fast; return s.err, true
  | errRead                                  -- ▸signal.Err.fast; return s.err
deriving Repr, DecidableEq

structure State where
  errSet : Bool := false
  chCreated : Bool := false
  mu : Option Tid := none
  ch : Ch := .none
  err : Option Val := none
  nextCh : Nat := 0
  closes : Nat → Nat := fun _ => 0
  sentCloses : Nat := 0
  pc : Tid → PC := fun _ => .idle

def State.setPc (s : State) (t : Tid) (p : PC) : State :=
  { s with pc := fun u => if u = t then p else s.pc u }

/-- is the channel closed (a receive on it does not block)?  `closes` = close() calls per fresh channel -/
def chClosed (closes : Nat → Nat) : Ch → Bool
  | .none => false
  | .sentinel => true
  | .fresh c => decide (0 < closes c)

/-- the channel is a fresh one on which `close` has not been called -/
def chOpenFresh (closes : Nat → Nat) : Ch → Bool
  | .fresh c => closes c == 0
  | _ => false

def State.isClosed (s : State) (c : Ch) : Bool := chClosed s.closes c

/-- where `Signal()` continues once it has read the channel -/
def afterSignal (w : Bool) (c : Ch) : PC := if w then .wRecv c else .doneSignal c

/-- `close(s.ch)` executed by thread `t` inside `Set e` -/
def closeCh (s : State) (t : Tid) (e : Val) : State :=
  match s.ch with
  | .fresh c =>
    let s1 := { s with closes := fun d => if d = c then s.closes d + 1 else s.closes d }
    if s.closes c = 0 then s1.setPc t (.sUnlock e true) else s1.setPc t (.panicked (.set e))
  | .sentinel => { s with sentCloses := s.sentCloses + 1 }.setPc t (.panicked (.set e))
  | .none => s.setPc t (.panicked (.set e))

/-- One atomic step of thread `t`; `none` when the thread is idle, finished, or blocked. -/
def step (s : State) (t : Tid) : Option State :=
  match s.pc t with
  | .idle => none
  | .doneSet _ _ => none
  | .doneSignal _ => none
  | .doneWait => none
  | .doneGet _ _ => none
  | .doneErr _ => none
  | .doneIsSet _ => none
  | .panicked _ => none
  -- Set: atomic.LoadUint32(&s.status)&statusErrorSet != 0 → false
  | .start (.set e) =>
    if s.errSet then some (s.setPc t (.doneSet e false)) else some (s.setPc t (.sLock e))
  | .sLock e => if s.mu ≠ none then none else some ({ s with mu := some t }.setPc t (.sRead e))
  | .sRead e =>
    if s.errSet then some (s.setPc t (.sUnlock e false)) else some (s.setPc t (.sWriteErr e s.chCreated))
  | .sWriteErr e cr => some ({ s with err := some e }.setPc t (.sWriteCh e cr))
  | .sWriteCh e cr =>
    if cr then some (s.setPc t (.sStore e cr)) else some ({ s with ch := .sentinel }.setPc t (.sStore e cr))
  | .sStore e cr => some ({ s with errSet := true, chCreated := true }.setPc t (.sClose e cr))
  | .sClose e cr => if cr then some (closeCh s t e) else some (s.setPc t (.sUnlock e true))
  | .sUnlock e ok => some ({ s with mu := none }.setPc t (.doneSet e ok))
  -- Signal / Wait
  | .start .signal => if s.chCreated then some (s.setPc t (.gFast false)) else some (s.setPc t (.gLock false))
  | .start .wait => if s.chCreated then some (s.setPc t (.gFast true)) else some (s.setPc t (.gLock true))
  | .gFast w => some (s.setPc t (afterSignal w s.ch))
  | .gLock w => if s.mu ≠ none then none else some ({ s with mu := some t }.setPc t (.gRead w))
  | .gRead w => if s.chCreated then some (s.setPc t (.gUnlock w)) else some (s.setPc t (.gMake w s.errSet))
  | .gMake w es => some ({ s with ch := .fresh s.nextCh, nextCh := s.nextCh + 1 }.setPc t (.gStore w es))
  | .gStore w es => some ({ s with errSet := es, chCreated := true }.setPc t (.gUnlock w))
  | .gUnlock w => some ({ s with mu := none }.setPc t (.gSlowRead w))
  | .gSlowRead w => some (s.setPc t (afterSignal w s.ch))
  | .wRecv c => if s.isClosed c then some (s.setPc t .doneWait) else none
  -- Get / Err / IsSet
  | .start .get => if s.errSet then some (s.setPc t .getRead) else some (s.setPc t (.doneGet none false))
  | .getRead => some (s.setPc t (.doneGet s.err true))
  | .start .err => if s.errSet then some (s.setPc t .errRead) else some (s.setPc t (.doneErr none))
  | .errRead => some (s.setPc t (.doneErr s.err))
  | .start .isSet => some (s.setPc t (.doneIsSet s.errSet))

def init : State := {}

/-- Reachable states: any idle thread may start any call at any time; any thread may take its
    next atomic step whenever it is enabled.  (All interleavings, any number of threads.) -/
inductive Reach : State → Prop where
  | init : Reach init
  | call (s : State) (t : Tid) (c : Call) : Reach s → s.pc t = .idle → Reach (s.setPc t (.start c))
  | step (s s' : State) (t : Tid) : Reach s → step s t = some s' → Reach s'

/-- `s'` is reachable from `s` (calls started, steps taken) -/
inductive Steps : State → State → Prop where
  | refl (s : State) : Steps s s
  | call (s s' : State) (t : Tid) (c : Call) : Steps s s' → s'.pc t = .idle → Steps s (s'.setPc t (.start c))
  | step (s s' s'' : State) (t : Tid) : Steps s s' → step s' t = some s'' → Steps s s''

inductive Act where
  | call (t : Tid) (c : Call)
  | step (t : Tid)
deriving Repr, DecidableEq

/-- executable schedules: a call on a busy thread and a step of a blocked thread are skipped -/
def exec (s : State) : List Act → State
  | [] => s
  | .call t c :: as => if s.pc t = .idle then exec (s.setPc t (.start c)) as else exec s as
  | .step t :: as => match step s t with
    | some s' => exec s' as
    | none => exec s as

/-! ### classifiers of the program counter (Bool-valued, one equation per constructor; used by the invariants) -/

def Call.isSetCall : Call → Bool
  | .set _ => true
  | _ => false

/-- the thread owns `mu` -/
def holds : PC → Bool
  | .idle => false
  | .start _ => false
  | .panicked _ => true
  | .doneSet _ _ => false
  | .doneSignal _ => false
  | .doneWait => false
  | .doneGet _ _ => false
  | .doneErr _ => false
  | .doneIsSet _ => false
  | .sLock _ => false
  | .sRead _ => true
  | .sWriteErr _ _ => true
  | .sWriteCh _ _ => true
  | .sStore _ _ => true
  | .sClose _ _ => true
  | .sUnlock _ _ => true
  | .gFast _ => false
  | .gLock _ => false
  | .gRead _ => true
  | .gMake _ _ => true
  | .gStore _ _ => true
  | .gUnlock _ => true
  | .gSlowRead _ => false
  | .wRecv _ => false
  | .getRead => false
  | .errRead => false

/-- the thread is the Set call that found the signal unset under the lock -/
def won : PC → Bool
  | .idle => false
  | .start _ => false
  | .panicked _ => false
  | .doneSet _ ok => ok
  | .doneSignal _ => false
  | .doneWait => false
  | .doneGet _ _ => false
  | .doneErr _ => false
  | .doneIsSet _ => false
  | .sLock _ => false
  | .sRead _ => false
  | .sWriteErr _ _ => true
  | .sWriteCh _ _ => true
  | .sStore _ _ => true
  | .sClose _ _ => true
  | .sUnlock _ ok => ok
  | .gFast _ => false
  | .gLock _ => false
  | .gRead _ => false
  | .gMake _ _ => false
  | .gStore _ _ => false
  | .gUnlock _ => false
  | .gSlowRead _ => false
  | .wRecv _ => false
  | .getRead => false
  | .errRead => false

/-- winner, before its atomic store of the status word -/
def preStore : PC → Bool
  | .idle => false
  | .start _ => false
  | .panicked _ => false
  | .doneSet _ _ => false
  | .doneSignal _ => false
  | .doneWait => false
  | .doneGet _ _ => false
  | .doneErr _ => false
  | .doneIsSet _ => false
  | .sLock _ => false
  | .sRead _ => false
  | .sWriteErr _ _ => true
  | .sWriteCh _ _ => true
  | .sStore _ _ => true
  | .sClose _ _ => false
  | .sUnlock _ _ => false
  | .gFast _ => false
  | .gLock _ => false
  | .gRead _ => false
  | .gMake _ _ => false
  | .gStore _ _ => false
  | .gUnlock _ => false
  | .gSlowRead _ => false
  | .wRecv _ => false
  | .getRead => false
  | .errRead => false

/-- winner, after its atomic store of the status word -/
def pastStore : PC → Bool
  | .idle => false
  | .start _ => false
  | .panicked _ => false
  | .doneSet _ ok => ok
  | .doneSignal _ => false
  | .doneWait => false
  | .doneGet _ _ => false
  | .doneErr _ => false
  | .doneIsSet _ => false
  | .sLock _ => false
  | .sRead _ => false
  | .sWriteErr _ _ => false
  | .sWriteCh _ _ => false
  | .sStore _ _ => false
  | .sClose _ _ => true
  | .sUnlock _ ok => ok
  | .gFast _ => false
  | .gLock _ => false
  | .gRead _ => false
  | .gMake _ _ => false
  | .gStore _ _ => false
  | .gUnlock _ => false
  | .gSlowRead _ => false
  | .wRecv _ => false
  | .getRead => false
  | .errRead => false

/-- the error of the winner, once it has written it -/
def wErr : PC → Option Val
  | .idle => none
  | .start _ => none
  | .panicked _ => none
  | .doneSet e ok => if ok then some e else none
  | .doneSignal _ => none
  | .doneWait => none
  | .doneGet _ _ => none
  | .doneErr _ => none
  | .doneIsSet _ => none
  | .sLock _ => none
  | .sRead _ => none
  | .sWriteErr _ _ => none
  | .sWriteCh e _ => some e
  | .sStore e _ => some e
  | .sClose e _ => some e
  | .sUnlock e ok => if ok then some e else none
  | .gFast _ => none
  | .gLock _ => none
  | .gRead _ => none
  | .gMake _ _ => none
  | .gStore _ _ => none
  | .gUnlock _ => none
  | .gSlowRead _ => none
  | .wRecv _ => none
  | .getRead => none
  | .errRead => none

/-- a Set call in progress (between its fast-path load and its return) -/
def inSet : PC → Bool
  | .idle => false
  | .start c => Call.isSetCall c
  | .panicked _ => false
  | .doneSet _ _ => false
  | .doneSignal _ => false
  | .doneWait => false
  | .doneGet _ _ => false
  | .doneErr _ => false
  | .doneIsSet _ => false
  | .sLock _ => true
  | .sRead _ => true
  | .sWriteErr _ _ => true
  | .sWriteCh _ _ => true
  | .sStore _ _ => true
  | .sClose _ _ => true
  | .sUnlock _ _ => true
  | .gFast _ => false
  | .gLock _ => false
  | .gRead _ => false
  | .gMake _ _ => false
  | .gStore _ _ => false
  | .gUnlock _ => false
  | .gSlowRead _ => false
  | .wRecv _ => false
  | .getRead => false
  | .errRead => false

/-- the thread has learnt (from an atomic load, or under the lock) that the error is set -/
def knowsSet : PC → Bool
  | .idle => false
  | .start _ => false
  | .panicked _ => false
  | .doneSet _ _ => true
  | .doneSignal _ => false
  | .doneWait => false
  | .doneGet _ ok => ok
  | .doneErr x => Option.isSome x
  | .doneIsSet b => b
  | .sLock _ => false
  | .sRead _ => false
  | .sWriteErr _ _ => false
  | .sWriteCh _ _ => false
  | .sStore _ _ => false
  | .sClose _ _ => false
  | .sUnlock _ ok => ! ok
  | .gFast _ => false
  | .gLock _ => false
  | .gRead _ => false
  | .gMake _ _ => false
  | .gStore _ _ => false
  | .gUnlock _ => false
  | .gSlowRead _ => false
  | .wRecv _ => false
  | .getRead => true
  | .errRead => true

/-- the error value an observer returned as valid: `Get` with ok = true, `Err` with a non-nil result -/
def obsErr : PC → Option (Option Val)
  | .idle => none
  | .start _ => none
  | .panicked _ => none
  | .doneSet _ _ => none
  | .doneSignal _ => none
  | .doneWait => none
  | .doneGet x ok => if ok then some x else none
  | .doneErr x => if Option.isSome x then some x else none
  | .doneIsSet _ => none
  | .sLock _ => none
  | .sRead _ => none
  | .sWriteErr _ _ => none
  | .sWriteCh _ _ => none
  | .sStore _ _ => none
  | .sClose _ _ => none
  | .sUnlock _ _ => none
  | .gFast _ => none
  | .gLock _ => none
  | .gRead _ => none
  | .gMake _ _ => none
  | .gStore _ _ => none
  | .gUnlock _ => none
  | .gSlowRead _ => none
  | .wRecv _ => none
  | .getRead => none
  | .errRead => none

/-- the channel a `Signal()` call obtained -/
def chanOf : PC → Option Ch
  | .idle => none
  | .start _ => none
  | .panicked _ => none
  | .doneSet _ _ => none
  | .doneSignal c => some c
  | .doneWait => none
  | .doneGet _ _ => none
  | .doneErr _ => none
  | .doneIsSet _ => none
  | .sLock _ => none
  | .sRead _ => none
  | .sWriteErr _ _ => none
  | .sWriteCh _ _ => none
  | .sStore _ _ => none
  | .sClose _ _ => none
  | .sUnlock _ _ => none
  | .gFast _ => none
  | .gLock _ => none
  | .gRead _ => none
  | .gMake _ _ => none
  | .gStore _ _ => none
  | .gUnlock _ => none
  | .gSlowRead _ => none
  | .wRecv c => some c
  | .getRead => none
  | .errRead => none

/-- the thread has learnt that the channel is created -/
def knowsCh : PC → Bool
  | .idle => false
  | .start _ => false
  | .panicked _ => false
  | .doneSet _ _ => false
  | .doneSignal _ => false
  | .doneWait => false
  | .doneGet _ _ => false
  | .doneErr _ => false
  | .doneIsSet _ => false
  | .sLock _ => false
  | .sRead _ => false
  | .sWriteErr _ _ => false
  | .sWriteCh _ _ => false
  | .sStore _ _ => false
  | .sClose _ _ => false
  | .sUnlock _ _ => false
  | .gFast _ => true
  | .gLock _ => false
  | .gRead _ => false
  | .gMake _ _ => false
  | .gStore _ _ => false
  | .gUnlock _ => true
  | .gSlowRead _ => true
  | .wRecv _ => false
  | .getRead => false
  | .errRead => false

/-- the snapshot of `chCreated` a winner took under the lock (valid until its store) -/
def crOf : PC → Option Bool
  | .idle => none
  | .start _ => none
  | .panicked _ => none
  | .doneSet _ _ => none
  | .doneSignal _ => none
  | .doneWait => none
  | .doneGet _ _ => none
  | .doneErr _ => none
  | .doneIsSet _ => none
  | .sLock _ => none
  | .sRead _ => none
  | .sWriteErr _ cr => some cr
  | .sWriteCh _ cr => some cr
  | .sStore _ cr => some cr
  | .sClose _ _ => none
  | .sUnlock _ _ => none
  | .gFast _ => none
  | .gLock _ => none
  | .gRead _ => none
  | .gMake _ _ => none
  | .gStore _ _ => none
  | .gUnlock _ => none
  | .gSlowRead _ => none
  | .wRecv _ => none
  | .getRead => none
  | .errRead => none

/-- the snapshot of `errSet` that signalSlow took under the lock -/
def esOf : PC → Option Bool
  | .idle => none
  | .start _ => none
  | .panicked _ => none
  | .doneSet _ _ => none
  | .doneSignal _ => none
  | .doneWait => none
  | .doneGet _ _ => none
  | .doneErr _ => none
  | .doneIsSet _ => none
  | .sLock _ => none
  | .sRead _ => none
  | .sWriteErr _ _ => none
  | .sWriteCh _ _ => none
  | .sStore _ _ => none
  | .sClose _ _ => none
  | .sUnlock _ _ => none
  | .gFast _ => none
  | .gLock _ => none
  | .gRead _ => none
  | .gMake _ es => some es
  | .gStore _ es => some es
  | .gUnlock _ => none
  | .gSlowRead _ => none
  | .wRecv _ => none
  | .getRead => none
  | .errRead => none

/-- the winner has installed the sentinel and not yet stored the status -/
def sentSt : PC → Bool
  | .idle => false
  | .start _ => false
  | .panicked _ => false
  | .doneSet _ _ => false
  | .doneSignal _ => false
  | .doneWait => false
  | .doneGet _ _ => false
  | .doneErr _ => false
  | .doneIsSet _ => false
  | .sLock _ => false
  | .sRead _ => false
  | .sWriteErr _ _ => false
  | .sWriteCh _ _ => false
  | .sStore _ cr => ! cr
  | .sClose _ _ => false
  | .sUnlock _ _ => false
  | .gFast _ => false
  | .gLock _ => false
  | .gRead _ => false
  | .gMake _ _ => false
  | .gStore _ _ => false
  | .gUnlock _ => false
  | .gSlowRead _ => false
  | .wRecv _ => false
  | .getRead => false
  | .errRead => false

/-- the winner is about to close the fresh channel -/
def isClosing : PC → Bool
  | .idle => false
  | .start _ => false
  | .panicked _ => false
  | .doneSet _ _ => false
  | .doneSignal _ => false
  | .doneWait => false
  | .doneGet _ _ => false
  | .doneErr _ => false
  | .doneIsSet _ => false
  | .sLock _ => false
  | .sRead _ => false
  | .sWriteErr _ _ => false
  | .sWriteCh _ _ => false
  | .sStore _ _ => false
  | .sClose _ cr => cr
  | .sUnlock _ _ => false
  | .gFast _ => false
  | .gLock _ => false
  | .gRead _ => false
  | .gMake _ _ => false
  | .gStore _ _ => false
  | .gUnlock _ => false
  | .gSlowRead _ => false
  | .wRecv _ => false
  | .getRead => false
  | .errRead => false

/-- signalSlow has made the channel and not yet stored the status -/
def isGStore : PC → Bool
  | .idle => false
  | .start _ => false
  | .panicked _ => false
  | .doneSet _ _ => false
  | .doneSignal _ => false
  | .doneWait => false
  | .doneGet _ _ => false
  | .doneErr _ => false
  | .doneIsSet _ => false
  | .sLock _ => false
  | .sRead _ => false
  | .sWriteErr _ _ => false
  | .sWriteCh _ _ => false
  | .sStore _ _ => false
  | .sClose _ _ => false
  | .sUnlock _ _ => false
  | .gFast _ => false
  | .gLock _ => false
  | .gRead _ => false
  | .gMake _ _ => false
  | .gStore _ _ => true
  | .gUnlock _ => false
  | .gSlowRead _ => false
  | .wRecv _ => false
  | .getRead => false
  | .errRead => false

/-- the call panicked -/
def isPanic : PC → Bool
  | .idle => false
  | .start _ => false
  | .panicked _ => true
  | .doneSet _ _ => false
  | .doneSignal _ => false
  | .doneWait => false
  | .doneGet _ _ => false
  | .doneErr _ => false
  | .doneIsSet _ => false
  | .sLock _ => false
  | .sRead _ => false
  | .sWriteErr _ _ => false
  | .sWriteCh _ _ => false
  | .sStore _ _ => false
  | .sClose _ _ => false
  | .sUnlock _ _ => false
  | .gFast _ => false
  | .gLock _ => false
  | .gRead _ => false
  | .gMake _ _ => false
  | .gStore _ _ => false
  | .gUnlock _ => false
  | .gSlowRead _ => false
  | .wRecv _ => false
  | .getRead => false
  | .errRead => false

/-! ### non-atomic accesses (for data-race freedom): the access that the NEXT step of the thread performs -/

/-- next step reads the non-atomic field `err` -/
def readsErr : PC → Bool
  | .idle => false
  | .start _ => false
  | .panicked _ => false
  | .doneSet _ _ => false
  | .doneSignal _ => false
  | .doneWait => false
  | .doneGet _ _ => false
  | .doneErr _ => false
  | .doneIsSet _ => false
  | .sLock _ => false
  | .sRead _ => false
  | .sWriteErr _ _ => false
  | .sWriteCh _ _ => false
  | .sStore _ _ => false
  | .sClose _ _ => false
  | .sUnlock _ _ => false
  | .gFast _ => false
  | .gLock _ => false
  | .gRead _ => false
  | .gMake _ _ => false
  | .gStore _ _ => false
  | .gUnlock _ => false
  | .gSlowRead _ => false
  | .wRecv _ => false
  | .getRead => true
  | .errRead => true

/-- next step writes the non-atomic field `err` -/
def writesErr : PC → Bool
  | .idle => false
  | .start _ => false
  | .panicked _ => false
  | .doneSet _ _ => false
  | .doneSignal _ => false
  | .doneWait => false
  | .doneGet _ _ => false
  | .doneErr _ => false
  | .doneIsSet _ => false
  | .sLock _ => false
  | .sRead _ => false
  | .sWriteErr _ _ => true
  | .sWriteCh _ _ => false
  | .sStore _ _ => false
  | .sClose _ _ => false
  | .sUnlock _ _ => false
  | .gFast _ => false
  | .gLock _ => false
  | .gRead _ => false
  | .gMake _ _ => false
  | .gStore _ _ => false
  | .gUnlock _ => false
  | .gSlowRead _ => false
  | .wRecv _ => false
  | .getRead => false
  | .errRead => false

/-- next step reads the non-atomic field `ch` -/
def readsCh : PC → Bool
  | .idle => false
  | .start _ => false
  | .panicked _ => false
  | .doneSet _ _ => false
  | .doneSignal _ => false
  | .doneWait => false
  | .doneGet _ _ => false
  | .doneErr _ => false
  | .doneIsSet _ => false
  | .sLock _ => false
  | .sRead _ => false
  | .sWriteErr _ _ => false
  | .sWriteCh _ _ => false
  | .sStore _ _ => false
  | .sClose _ cr => cr
  | .sUnlock _ _ => false
  | .gFast _ => true
  | .gLock _ => false
  | .gRead _ => false
  | .gMake _ _ => false
  | .gStore _ _ => false
  | .gUnlock _ => false
  | .gSlowRead _ => true
  | .wRecv _ => false
  | .getRead => false
  | .errRead => false

/-- next step writes the non-atomic field `ch` -/
def writesCh : PC → Bool
  | .idle => false
  | .start _ => false
  | .panicked _ => false
  | .doneSet _ _ => false
  | .doneSignal _ => false
  | .doneWait => false
  | .doneGet _ _ => false
  | .doneErr _ => false
  | .doneIsSet _ => false
  | .sLock _ => false
  | .sRead _ => false
  | .sWriteErr _ _ => false
  | .sWriteCh _ cr => ! cr
  | .sStore _ _ => false
  | .sClose _ _ => false
  | .sUnlock _ _ => false
  | .gFast _ => false
  | .gLock _ => false
  | .gRead _ => false
  | .gMake _ _ => true
  | .gStore _ _ => false
  | .gUnlock _ => false
  | .gSlowRead _ => false
  | .wRecv _ => false
  | .getRead => false
  | .errRead => false

/-- next step reads the status word with a plain (non-atomic) load: `status := s.status` under the lock -/
def readsStatusPlain : PC → Bool
  | .idle => false
  | .start _ => false
  | .panicked _ => false
  | .doneSet _ _ => false
  | .doneSignal _ => false
  | .doneWait => false
  | .doneGet _ _ => false
  | .doneErr _ => false
  | .doneIsSet _ => false
  | .sLock _ => false
  | .sRead _ => true
  | .sWriteErr _ _ => false
  | .sWriteCh _ _ => false
  | .sStore _ _ => false
  | .sClose _ _ => false
  | .sUnlock _ _ => false
  | .gFast _ => false
  | .gLock _ => false
  | .gRead _ => true
  | .gMake _ _ => false
  | .gStore _ _ => false
  | .gUnlock _ => false
  | .gSlowRead _ => false
  | .wRecv _ => false
  | .getRead => false
  | .errRead => false

/-- next step stores the status word -/
def storesStatus : PC → Bool
  | .idle => false
  | .start _ => false
  | .panicked _ => false
  | .doneSet _ _ => false
  | .doneSignal _ => false
  | .doneWait => false
  | .doneGet _ _ => false
  | .doneErr _ => false
  | .doneIsSet _ => false
  | .sLock _ => false
  | .sRead _ => false
  | .sWriteErr _ _ => false
  | .sWriteCh _ _ => false
  | .sStore _ _ => true
  | .sClose _ _ => false
  | .sUnlock _ _ => false
  | .gFast _ => false
  | .gLock _ => false
  | .gRead _ => false
  | .gMake _ _ => false
  | .gStore _ _ => true
  | .gUnlock _ => false
  | .gSlowRead _ => false
  | .wRecv _ => false
  | .getRead => false
  | .errRead => false

end Drpc.Signal
