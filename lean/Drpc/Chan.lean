import Drpc.Signal
/-
  Atomic-step model of drpcsignal.Chan (chan.go) for an unbounded number of threads.

  `c.do(f)`: atomic load of `done` (1 → false) · mu.Lock() · read `done` under the lock (≠ 0 →
  unlock, false) · f() writes the non-atomic field `ch` · [deferred] atomic store `done := 1` ·
  [deferred] mu.Unlock() → true.  `Close` = do(setClosed); if it was not the first: close(c.ch).
  `Make n` = do(ch = make(chan, n)).  `Get/Send/Recv/Full` = do(setFresh) followed by the read of
  `c.ch` and the channel operation.

  Channel operations.  `close` of a closed or nil channel and a send on a closed channel are
  explicit `PC.panicked` outcomes.  A fresh channel `i` has a capacity `cap i`, `buf i` buffered
  items and `rwait i` receivers parked on it; a send completes when `buf < cap + rwait` (a parked
  receiver takes the item directly), a receive when an item is there or the channel is closed.
  (Which of several parked receivers gets an item, and `Full` racing a parked receiver, are not
  distinguished by the model; the suite does not generate those programs.)

  Threads run exactly one call, from `PC.start op` to one of the `done…` constructors, which
  record whether this call's `do` ran its function (`first`).
-/
namespace Drpc.Chan
open Drpc.Signal (Ch Tid chClosed)

inductive Op where
  | close | make (n : Nat) | get | send | recv | full
deriving Repr, DecidableEq

inductive PC where
  | idle
  | start (op : Op)                         -- atomic.LoadUint32(&c.done) == 0 ?
  | panicked (op : Op) (first : Bool)
  -- doSlow
  | dLock (op : Op)                         -- ▸chan.doSlow.enter; mu.Lock()
  | dRead (op : Op)                         -- ▸chan.doSlow.locked; c.done == 0 ?
  | dF (op : Op)                            -- f(): c.ch = …
  | dStore (op : Op)                        -- ▸chan.doSlow.store; [deferred] atomic store done := 1
  | dUnlock (op : Op) (first : Bool)        -- [deferred] mu.Unlock(); do returns `first`
  -- after do
  | cClose                                  -- ▸chan.Close.close; close(c.ch)   (do returned false)
  | cGet (first : Bool)                     -- ▸chan.Get.read; return c.ch
  | cSend (first : Bool)                    -- c.ch <- struct{}{}
  | cRecv (first : Bool)                    -- <-c.ch
  | cRecvW (first : Bool) (c : Ch)          -- parked in the receive on channel c
  | cFull (first : Bool)                    -- select { case c.ch <- struct{}{}: …; default: }
  | cFullRecv (first : Bool) (c : Ch)       -- the `<-c.ch` inside Full
  -- results
  | doneClose (first : Bool)
  | doneMake (first : Bool)
  | doneGet (first : Bool) (c : Ch)
  | doneSend (first : Bool)
  | doneRecv (first : Bool)
  | doneFull (first : Bool) (b : Bool)
deriving Repr, DecidableEq

structure State where
  done : Bool := false
  mu : Option Tid := none
  ch : Ch := .none
  nextCh : Nat := 0
  closes : Nat → Nat := fun _ => 0
  sentCloses : Nat := 0
  cap : Nat → Nat := fun _ => 0
  buf : Nat → Nat := fun _ => 0
  rwait : Nat → Nat := fun _ => 0
  pc : Tid → PC := fun _ => .idle

def State.setPc (s : State) (t : Tid) (p : PC) : State :=
  { s with pc := fun u => if u = t then p else s.pc u }

def State.isClosed (s : State) (c : Ch) : Bool := chClosed s.closes c

/-- where a call continues when its `do` has returned `first` -/
def afterDo (op : Op) (first : Bool) : PC :=
  match op with
  | .close => if first then .doneClose true else .cClose
  | .make _ => .doneMake first
  | .get => .cGet first
  | .send => .cSend first
  | .recv => .cRecv first
  | .full => .cFull first

def upd (f : Nat → Nat) (i v : Nat) : Nat → Nat := fun j => if j = i then v else f j

/-- f(): setClosed / make(chan, n) / setFresh -/
def runF (s : State) (op : Op) : State :=
  match op with
  | .close => { s with ch := .sentinel }
  | .make n => { s with ch := .fresh s.nextCh, nextCh := s.nextCh + 1, cap := upd s.cap s.nextCh n }
  | _ => { s with ch := .fresh s.nextCh, nextCh := s.nextCh + 1, cap := upd s.cap s.nextCh 0 }

/-- close(c.ch) in Close -/
def closeStep (s : State) (t : Tid) : State :=
  match s.ch with
  | .fresh c =>
    let s1 := { s with closes := upd s.closes c (s.closes c + 1) }
    if s.closes c = 0 then s1.setPc t (.doneClose false) else s1.setPc t (.panicked .close false)
  | .sentinel => { s with sentCloses := s.sentCloses + 1 }.setPc t (.panicked .close false)
  | .none => s.setPc t (.panicked .close false)

/-- the send of `Send` (blocking) -/
def sendStep (s : State) (t : Tid) (first : Bool) : Option State :=
  match s.ch with
  | .fresh c =>
    if 0 < s.closes c then some (s.setPc t (.panicked .send first))
    else if s.buf c < s.cap c + s.rwait c then some ({ s with buf := upd s.buf c (s.buf c + 1) }.setPc t (.doneSend first))
    else none
  | .sentinel => some (s.setPc t (.panicked .send first))
  | .none => none

/-- the non-blocking send of `Full` -/
def fullStep (s : State) (t : Tid) (first : Bool) : Option State :=
  match s.ch with
  | .fresh c =>
    if 0 < s.closes c then some (s.setPc t (.panicked .full first))
    else if s.buf c < s.cap c + s.rwait c then
      some ({ s with buf := upd s.buf c (s.buf c + 1) }.setPc t (.cFullRecv first (.fresh c)))
    else some (s.setPc t (.doneFull first true))
  | .sentinel => some (s.setPc t (.panicked .full first))
  | .none => some (s.setPc t (.doneFull first true))

/-- first attempt of a receive on the current channel: take an item, or see it closed, or park -/
def recvStep (s : State) (t : Tid) (first : Bool) : Option State :=
  match s.ch with
  | .fresh c =>
    if 0 < s.buf c then some ({ s with buf := upd s.buf c (s.buf c - 1) }.setPc t (.doneRecv first))
    else if 0 < s.closes c then some (s.setPc t (.doneRecv first))
    else some ({ s with rwait := upd s.rwait c (s.rwait c + 1) }.setPc t (.cRecvW first (.fresh c)))
  | .sentinel => some (s.setPc t (.doneRecv first))
  | .none => some (s.setPc t (.cRecvW first .none))

/-- a parked receiver is woken by an item or by close -/
def recvWake (s : State) (t : Tid) (c : Ch) (p : PC) : Option State :=
  match c with
  | .fresh c =>
    if 0 < s.buf c then
      some ({ s with buf := upd s.buf c (s.buf c - 1), rwait := upd s.rwait c (s.rwait c - 1) }.setPc t p)
    else if 0 < s.closes c then some ({ s with rwait := upd s.rwait c (s.rwait c - 1) }.setPc t p)
    else none
  | .sentinel => some (s.setPc t p)
  | .none => none

/-- the `<-c.ch` inside Full (does not register as a parked receiver in the model) -/
def fullRecv (s : State) (t : Tid) (c : Ch) (p : PC) : Option State :=
  match c with
  | .fresh c =>
    if 0 < s.buf c then some ({ s with buf := upd s.buf c (s.buf c - 1) }.setPc t p)
    else if 0 < s.closes c then some (s.setPc t p)
    else none
  | .sentinel => some (s.setPc t p)
  | .none => none

/-- One atomic step of thread `t`; `none` when the thread is idle, finished, or blocked. -/
def step (s : State) (t : Tid) : Option State :=
  match s.pc t with
  | .idle => none
  | .panicked _ _ => none
  | .doneClose _ => none
  | .doneMake _ => none
  | .doneGet _ _ => none
  | .doneSend _ => none
  | .doneRecv _ => none
  | .doneFull _ _ => none
  | .start op => if s.done then some (s.setPc t (afterDo op false)) else some (s.setPc t (.dLock op))
  | .dLock op => if s.mu ≠ none then none else some ({ s with mu := some t }.setPc t (.dRead op))
  | .dRead op => if s.done then some (s.setPc t (.dUnlock op false)) else some (s.setPc t (.dF op))
  | .dF op => some ((runF s op).setPc t (.dStore op))
  | .dStore op => some ({ s with done := true }.setPc t (.dUnlock op true))
  | .dUnlock op first => some ({ s with mu := none }.setPc t (afterDo op first))
  | .cClose => some (closeStep s t)
  | .cGet first => some (s.setPc t (.doneGet first s.ch))
  | .cSend first => sendStep s t first
  | .cRecv first => recvStep s t first
  | .cRecvW first c => recvWake s t c (.doneRecv first)
  | .cFull first => fullStep s t first
  | .cFullRecv first c => fullRecv s t c (.doneFull first false)

def init : State := {}

inductive Reach : State → Prop where
  | init : Reach init
  | call (s : State) (t : Tid) (op : Op) : Reach s → s.pc t = .idle → Reach (s.setPc t (.start op))
  | step (s s' : State) (t : Tid) : Reach s → step s t = some s' → Reach s'

inductive Act where
  | call (t : Tid) (op : Op)
  | step (t : Tid)
deriving Repr, DecidableEq

/-- executable schedules: a call on a busy thread and a step of a blocked thread are skipped -/
def exec (s : State) : List Act → State
  | [] => s
  | .call t op :: as => if s.pc t = .idle then exec (s.setPc t (.start op)) as else exec s as
  | .step t :: as => match step s t with
    | some s' => exec s' as
    | none => exec s as

/-! ### classifiers of the program counter (one equation per constructor; used by the invariants) -/

def Op.isClose : Op → Bool
  | .close => true
  | _ => false
def isFreshCh : Ch → Bool
  | .fresh _ => true
  | _ => false
def Op.isSend : Op → Bool
  | .send => true
  | .full => true
  | _ => false

/-- the thread owns `mu` -/
def holds : PC → Bool
  | .idle => false
  | .start _ => false
  | .panicked _ _ => false
  | .dLock _ => false
  | .dRead _ => true
  | .dF _ => true
  | .dStore _ => true
  | .dUnlock _ _ => true
  | .cClose => false
  | .cGet _ => false
  | .cSend _ => false
  | .cRecv _ => false
  | .cRecvW _ _ => false
  | .cFull _ => false
  | .cFullRecv _ _ => false
  | .doneClose _ => false
  | .doneMake _ => false
  | .doneGet _ _ => false
  | .doneSend _ => false
  | .doneRecv _ => false
  | .doneFull _ _ => false

/-- this call's `do` ran its function (it was the first) -/
def ranF : PC → Bool
  | .idle => false
  | .start _ => false
  | .panicked _ first => first
  | .dLock _ => false
  | .dRead _ => false
  | .dF _ => false
  | .dStore _ => true
  | .dUnlock _ first => first
  | .cClose => false
  | .cGet first => first
  | .cSend first => first
  | .cRecv first => first
  | .cRecvW first _ => first
  | .cFull first => first
  | .cFullRecv first _ => first
  | .doneClose first => first
  | .doneMake first => first
  | .doneGet first _ => first
  | .doneSend first => first
  | .doneRecv first => first
  | .doneFull first _ => first

/-- first caller, after its store of `done` -/
def pastStore : PC → Bool
  | .idle => false
  | .start _ => false
  | .panicked _ first => first
  | .dLock _ => false
  | .dRead _ => false
  | .dF _ => false
  | .dStore _ => false
  | .dUnlock _ first => first
  | .cClose => false
  | .cGet first => first
  | .cSend first => first
  | .cRecv first => first
  | .cRecvW first _ => first
  | .cFull first => first
  | .cFullRecv first _ => first
  | .doneClose first => first
  | .doneMake first => first
  | .doneGet first _ => first
  | .doneSend first => first
  | .doneRecv first => first
  | .doneFull first _ => first

/-- the thread has learnt that `done` is set (its `do` has returned, or found `done` under the lock) -/
def postDo : PC → Bool
  | .idle => false
  | .start _ => false
  | .panicked _ _ => true
  | .dLock _ => false
  | .dRead _ => false
  | .dF _ => false
  | .dStore _ => false
  | .dUnlock _ first => ! first
  | .cClose => true
  | .cGet _ => true
  | .cSend _ => true
  | .cRecv _ => true
  | .cRecvW _ _ => true
  | .cFull _ => true
  | .cFullRecv _ _ => true
  | .doneClose _ => true
  | .doneMake _ => true
  | .doneGet _ _ => true
  | .doneSend _ => true
  | .doneRecv _ => true
  | .doneFull _ _ => true

/-- the call's `do` has returned -/
def retDo : PC → Bool
  | .idle => false
  | .start _ => false
  | .panicked _ _ => true
  | .dLock _ => false
  | .dRead _ => false
  | .dF _ => false
  | .dStore _ => false
  | .dUnlock _ _ => false
  | .cClose => true
  | .cGet _ => true
  | .cSend _ => true
  | .cRecv _ => true
  | .cRecvW _ _ => true
  | .cFull _ => true
  | .cFullRecv _ _ => true
  | .doneClose _ => true
  | .doneMake _ => true
  | .doneGet _ _ => true
  | .doneSend _ => true
  | .doneRecv _ => true
  | .doneFull _ _ => true

/-- the thread runs (or ran) a Close call -/
def closer : PC → Bool
  | .idle => false
  | .start op => Op.isClose op
  | .panicked op _ => Op.isClose op
  | .dLock op => Op.isClose op
  | .dRead op => Op.isClose op
  | .dF op => Op.isClose op
  | .dStore op => Op.isClose op
  | .dUnlock op _ => Op.isClose op
  | .cClose => true
  | .cGet _ => false
  | .cSend _ => false
  | .cRecv _ => false
  | .cRecvW _ _ => false
  | .cFull _ => false
  | .cFullRecv _ _ => false
  | .doneClose _ => true
  | .doneMake _ => false
  | .doneGet _ _ => false
  | .doneSend _ => false
  | .doneRecv _ => false
  | .doneFull _ _ => false

/-- the thread runs (or ran) a Send or Full call -/
def sender : PC → Bool
  | .idle => false
  | .start op => Op.isSend op
  | .panicked op _ => Op.isSend op
  | .dLock op => Op.isSend op
  | .dRead op => Op.isSend op
  | .dF op => Op.isSend op
  | .dStore op => Op.isSend op
  | .dUnlock op _ => Op.isSend op
  | .cClose => false
  | .cGet _ => false
  | .cSend _ => true
  | .cRecv _ => false
  | .cRecvW _ _ => false
  | .cFull _ => true
  | .cFullRecv _ _ => true
  | .doneClose _ => false
  | .doneMake _ => false
  | .doneGet _ _ => false
  | .doneSend _ => true
  | .doneRecv _ => false
  | .doneFull _ _ => true

/-- the channel a `Get()` returned -/
def getOf : PC → Option Ch
  | .idle => none
  | .start _ => none
  | .panicked _ _ => none
  | .dLock _ => none
  | .dRead _ => none
  | .dF _ => none
  | .dStore _ => none
  | .dUnlock _ _ => none
  | .cClose => none
  | .cGet _ => none
  | .cSend _ => none
  | .cRecv _ => none
  | .cRecvW _ _ => none
  | .cFull _ => none
  | .cFullRecv _ _ => none
  | .doneClose _ => none
  | .doneMake _ => none
  | .doneGet _ c => some c
  | .doneSend _ => none
  | .doneRecv _ => none
  | .doneFull _ _ => none

/-- the channel the thread is receiving on -/
def waitsOn : PC → Option Ch
  | .idle => none
  | .start _ => none
  | .panicked _ _ => none
  | .dLock _ => none
  | .dRead _ => none
  | .dF _ => none
  | .dStore _ => none
  | .dUnlock _ _ => none
  | .cClose => none
  | .cGet _ => none
  | .cSend _ => none
  | .cRecv _ => none
  | .cRecvW _ c => some c
  | .cFull _ => none
  | .cFullRecv _ c => some c
  | .doneClose _ => none
  | .doneMake _ => none
  | .doneGet _ _ => none
  | .doneSend _ => none
  | .doneRecv _ => none
  | .doneFull _ _ => none

/-- the call panicked -/
def isPanic : PC → Bool
  | .idle => false
  | .start _ => false
  | .panicked _ _ => true
  | .dLock _ => false
  | .dRead _ => false
  | .dF _ => false
  | .dStore _ => false
  | .dUnlock _ _ => false
  | .cClose => false
  | .cGet _ => false
  | .cSend _ => false
  | .cRecv _ => false
  | .cRecvW _ _ => false
  | .cFull _ => false
  | .cFullRecv _ _ => false
  | .doneClose _ => false
  | .doneMake _ => false
  | .doneGet _ _ => false
  | .doneSend _ => false
  | .doneRecv _ => false
  | .doneFull _ _ => false

/-- a Close call that has made the channel closed (installed the sentinel, or closed the fresh channel) -/
def closedBy : PC → Bool
  | .idle => false
  | .start _ => false
  | .panicked _ _ => false
  | .dLock _ => false
  | .dRead _ => false
  | .dF _ => false
  | .dStore op => Op.isClose op
  | .dUnlock op first => first && Op.isClose op
  | .cClose => false
  | .cGet _ => false
  | .cSend _ => false
  | .cRecv _ => false
  | .cRecvW _ _ => false
  | .cFull _ => false
  | .cFullRecv _ _ => false
  | .doneClose _ => true
  | .doneMake _ => false
  | .doneGet _ _ => false
  | .doneSend _ => false
  | .doneRecv _ => false
  | .doneFull _ _ => false

/-- a Close call that has returned -/
def closeDone : PC → Bool
  | .idle => false
  | .start _ => false
  | .panicked _ _ => false
  | .dLock _ => false
  | .dRead _ => false
  | .dF _ => false
  | .dStore _ => false
  | .dUnlock _ _ => false
  | .cClose => false
  | .cGet _ => false
  | .cSend _ => false
  | .cRecv _ => false
  | .cRecvW _ _ => false
  | .cFull _ => false
  | .cFullRecv _ _ => false
  | .doneClose _ => true
  | .doneMake _ => false
  | .doneGet _ _ => false
  | .doneSend _ => false
  | .doneRecv _ => false
  | .doneFull _ _ => false

/-- first caller, before its store of `done` -/
def inF : PC → Bool
  | .idle => false
  | .start _ => false
  | .panicked _ _ => false
  | .dLock _ => false
  | .dRead _ => false
  | .dF _ => true
  | .dStore _ => true
  | .dUnlock _ _ => false
  | .cClose => false
  | .cGet _ => false
  | .cSend _ => false
  | .cRecv _ => false
  | .cRecvW _ _ => false
  | .cFull _ => false
  | .cFullRecv _ _ => false
  | .doneClose _ => false
  | .doneMake _ => false
  | .doneGet _ _ => false
  | .doneSend _ => false
  | .doneRecv _ => false
  | .doneFull _ _ => false

/-- f() has run, `done` not yet stored -/
def isDStore : PC → Bool
  | .idle => false
  | .start _ => false
  | .panicked _ _ => false
  | .dLock _ => false
  | .dRead _ => false
  | .dF _ => false
  | .dStore _ => true
  | .dUnlock _ _ => false
  | .cClose => false
  | .cGet _ => false
  | .cSend _ => false
  | .cRecv _ => false
  | .cRecvW _ _ => false
  | .cFull _ => false
  | .cFullRecv _ _ => false
  | .doneClose _ => false
  | .doneMake _ => false
  | .doneGet _ _ => false
  | .doneSend _ => false
  | .doneRecv _ => false
  | .doneFull _ _ => false

/-- a Close call that was the first `do`: it installed the sentinel -/
def closeFirst : PC → Bool
  | .idle => false
  | .start _ => false
  | .panicked _ _ => false
  | .dLock _ => false
  | .dRead _ => false
  | .dF _ => false
  | .dStore op => Op.isClose op
  | .dUnlock op first => first && Op.isClose op
  | .cClose => false
  | .cGet _ => false
  | .cSend _ => false
  | .cRecv _ => false
  | .cRecvW _ _ => false
  | .cFull _ => false
  | .cFullRecv _ _ => false
  | .doneClose first => first
  | .doneMake _ => false
  | .doneGet _ _ => false
  | .doneSend _ => false
  | .doneRecv _ => false
  | .doneFull _ _ => false

/-- a Close call that was not the first and has closed the fresh channel -/
def closeSecond : PC → Bool
  | .idle => false
  | .start _ => false
  | .panicked _ _ => false
  | .dLock _ => false
  | .dRead _ => false
  | .dF _ => false
  | .dStore _ => false
  | .dUnlock _ _ => false
  | .cClose => false
  | .cGet _ => false
  | .cSend _ => false
  | .cRecv _ => false
  | .cRecvW _ _ => false
  | .cFull _ => false
  | .cFullRecv _ _ => false
  | .doneClose first => ! first
  | .doneMake _ => false
  | .doneGet _ _ => false
  | .doneSend _ => false
  | .doneRecv _ => false
  | .doneFull _ _ => false

/-- a Make/Get/Send/Recv/Full call that was the first `do`: it installed a fresh channel -/
def freshFirst : PC → Bool
  | .idle => false
  | .start _ => false
  | .panicked op first => first && ! Op.isClose op
  | .dLock _ => false
  | .dRead _ => false
  | .dF _ => false
  | .dStore op => ! Op.isClose op
  | .dUnlock op first => first && ! Op.isClose op
  | .cClose => false
  | .cGet first => first
  | .cSend first => first
  | .cRecv first => first
  | .cRecvW first _ => first
  | .cFull first => first
  | .cFullRecv first _ => first
  | .doneClose _ => false
  | .doneMake first => first
  | .doneGet first _ => first
  | .doneSend first => first
  | .doneRecv first => first
  | .doneFull first _ => first

/-- next step reads the non-atomic field `ch` -/
def readsCh : PC → Bool
  | .idle => false
  | .start _ => false
  | .panicked _ _ => false
  | .dLock _ => false
  | .dRead _ => false
  | .dF _ => false
  | .dStore _ => false
  | .dUnlock _ _ => false
  | .cClose => true
  | .cGet _ => true
  | .cSend _ => true
  | .cRecv _ => true
  | .cRecvW _ _ => false
  | .cFull _ => true
  | .cFullRecv _ _ => false
  | .doneClose _ => false
  | .doneMake _ => false
  | .doneGet _ _ => false
  | .doneSend _ => false
  | .doneRecv _ => false
  | .doneFull _ _ => false

/-- next step writes the non-atomic field `ch` -/
def writesCh : PC → Bool
  | .idle => false
  | .start _ => false
  | .panicked _ _ => false
  | .dLock _ => false
  | .dRead _ => false
  | .dF _ => true
  | .dStore _ => false
  | .dUnlock _ _ => false
  | .cClose => false
  | .cGet _ => false
  | .cSend _ => false
  | .cRecv _ => false
  | .cRecvW _ _ => false
  | .cFull _ => false
  | .cFullRecv _ _ => false
  | .doneClose _ => false
  | .doneMake _ => false
  | .doneGet _ _ => false
  | .doneSend _ => false
  | .doneRecv _ => false
  | .doneFull _ _ => false

/-- next step reads `done` with a plain load (`c.done == 0` under the lock) -/
def readsDonePlain : PC → Bool
  | .idle => false
  | .start _ => false
  | .panicked _ _ => false
  | .dLock _ => false
  | .dRead _ => true
  | .dF _ => false
  | .dStore _ => false
  | .dUnlock _ _ => false
  | .cClose => false
  | .cGet _ => false
  | .cSend _ => false
  | .cRecv _ => false
  | .cRecvW _ _ => false
  | .cFull _ => false
  | .cFullRecv _ _ => false
  | .doneClose _ => false
  | .doneMake _ => false
  | .doneGet _ _ => false
  | .doneSend _ => false
  | .doneRecv _ => false
  | .doneFull _ _ => false

/-- next step stores `done` -/
def storesDone : PC → Bool
  | .idle => false
  | .start _ => false
  | .panicked _ _ => false
  | .dLock _ => false
  | .dRead _ => false
  | .dF _ => false
  | .dStore _ => true
  | .dUnlock _ _ => false
  | .cClose => false
  | .cGet _ => false
  | .cSend _ => false
  | .cRecv _ => false
  | .cRecvW _ _ => false
  | .cFull _ => false
  | .cFullRecv _ _ => false
  | .doneClose _ => false
  | .doneMake _ => false
  | .doneGet _ _ => false
  | .doneSend _ => false
  | .doneRecv _ => false
  | .doneFull _ _ => false

end Drpc.Chan
