import Drpc.Manager.Sys
import Drpc.Lemmas.ManagerProto
/-
  Basics for the proofs about the atomic-step manager model (`Drpc/Manager/Sys.lean`):

  * `Tr s t sh' p'` — the transition relation of one thread, one constructor per branch of `stepPC`,
    with the guards as hypotheses; `step_tr : step s t ch = some s' → ∃ sh' p', Tr … ∧ s' = s.upd t sh' p'`.
    Every preservation proof is a `cases` on it.
  * `ETr s s'`-style inversion of `envStep` (`env_cases`).
  * restricted reachability: `ReachF` (no stream id is used twice: the model identifies a stream, its
    offer on `m.streams` and its record by the id), and the inclusion `ReachF → Reach`.
-/
namespace Drpc.Manager.Sys
open Drpc.Manager

/-! ### state updates -/

@[simp] theorem upd_sh (s : St) (t : Tid) (sh : Sh) (p : PC) : (s.upd t sh p).sh = sh := rfl
theorem upd_pc (s : St) (t u : Tid) (sh : Sh) (p : PC) : (s.upd t sh p).pc u = if u = t then p else s.pc u := rfl
@[simp] theorem upd_pc_self (s : St) (t : Tid) (sh : Sh) (p : PC) : (s.upd t sh p).pc t = p := by simp [upd_pc]
theorem upd_pc_ne (s : St) {t u : Tid} (sh : Sh) (p : PC) (h : u ≠ t) : (s.upd t sh p).pc u = s.pc u := by
  simp [upd_pc, h]
theorem setPc_eq_upd (s : St) (t : Tid) (p : PC) : s.setPc t p = s.upd t s.sh p := rfl

@[simp] theorem emit_soft (sh : Sh) (e : Ev) : (sh.emit e).soft = sh.soft := rfl
@[simp] theorem emit_term (sh : Sh) (e : Ev) : (sh.emit e).term = sh.term := rfl
@[simp] theorem emit_closes (sh : Sh) (e : Ev) : (sh.emit e).closes = sh.closes := rfl
@[simp] theorem emit_tportSet (sh : Sh) (e : Ev) : (sh.emit e).tportSet = sh.tportSet := rfl
@[simp] theorem emit_readDone (sh : Sh) (e : Ev) : (sh.emit e).readDone = sh.readDone := rfl
@[simp] theorem emit_streamDone (sh : Sh) (e : Ev) : (sh.emit e).streamDone = sh.streamDone := rfl
@[simp] theorem emit_sbufCur (sh : Sh) (e : Ev) : (sh.emit e).sbufCur = sh.sbufCur := rfl
@[simp] theorem emit_sbufClosed (sh : Sh) (e : Ev) : (sh.emit e).sbufClosed = sh.sbufClosed := rfl
@[simp] theorem emit_invoked (sh : Sh) (e : Ev) : (sh.emit e).invoked = sh.invoked := rfl
@[simp] theorem emit_sem (sh : Sh) (e : Ev) : (sh.emit e).sem = sh.sem := rfl
@[simp] theorem emit_pkts (sh : Sh) (e : Ev) : (sh.emit e).pkts = sh.pkts := rfl
@[simp] theorem emit_pdone (sh : Sh) (e : Ev) : (sh.emit e).pdone = sh.pdone := rfl
@[simp] theorem emit_sfin (sh : Sh) (e : Ev) : (sh.emit e).sfin = sh.sfin := rfl
@[simp] theorem emit_streamsCh (sh : Sh) (e : Ev) : (sh.emit e).streamsCh = sh.streamsCh := rfl
@[simp] theorem emit_strm (sh : Sh) (e : Ev) : (sh.emit e).strm = sh.strm := rfl
@[simp] theorem emit_ctx (sh : Sh) (e : Ev) : (sh.emit e).ctx = sh.ctx := rfl
@[simp] theorem emit_envTok (sh : Sh) (e : Ev) : (sh.emit e).envTok = sh.envTok := rfl
@[simp] theorem emit_trace (sh : Sh) (e : Ev) : (sh.emit e).trace = sh.trace ++ [e] := rfl

@[simp] theorem setStrm_soft (sh : Sh) (i : Sid) (x : SS) : (sh.setStrm i x).soft = sh.soft := rfl
@[simp] theorem setStrm_term (sh : Sh) (i : Sid) (x : SS) : (sh.setStrm i x).term = sh.term := rfl
@[simp] theorem setStrm_closes (sh : Sh) (i : Sid) (x : SS) : (sh.setStrm i x).closes = sh.closes := rfl
@[simp] theorem setStrm_tportSet (sh : Sh) (i : Sid) (x : SS) : (sh.setStrm i x).tportSet = sh.tportSet := rfl
@[simp] theorem setStrm_readDone (sh : Sh) (i : Sid) (x : SS) : (sh.setStrm i x).readDone = sh.readDone := rfl
@[simp] theorem setStrm_streamDone (sh : Sh) (i : Sid) (x : SS) : (sh.setStrm i x).streamDone = sh.streamDone := rfl
@[simp] theorem setStrm_sbufCur (sh : Sh) (i : Sid) (x : SS) : (sh.setStrm i x).sbufCur = sh.sbufCur := rfl
@[simp] theorem setStrm_sbufClosed (sh : Sh) (i : Sid) (x : SS) : (sh.setStrm i x).sbufClosed = sh.sbufClosed := rfl
@[simp] theorem setStrm_invoked (sh : Sh) (i : Sid) (x : SS) : (sh.setStrm i x).invoked = sh.invoked := rfl
@[simp] theorem setStrm_sem (sh : Sh) (i : Sid) (x : SS) : (sh.setStrm i x).sem = sh.sem := rfl
@[simp] theorem setStrm_pkts (sh : Sh) (i : Sid) (x : SS) : (sh.setStrm i x).pkts = sh.pkts := rfl
@[simp] theorem setStrm_pdone (sh : Sh) (i : Sid) (x : SS) : (sh.setStrm i x).pdone = sh.pdone := rfl
@[simp] theorem setStrm_sfin (sh : Sh) (i : Sid) (x : SS) : (sh.setStrm i x).sfin = sh.sfin := rfl
@[simp] theorem setStrm_streamsCh (sh : Sh) (i : Sid) (x : SS) : (sh.setStrm i x).streamsCh = sh.streamsCh := rfl
@[simp] theorem setStrm_ctx (sh : Sh) (i : Sid) (x : SS) : (sh.setStrm i x).ctx = sh.ctx := rfl
@[simp] theorem setStrm_envTok (sh : Sh) (i : Sid) (x : SS) : (sh.setStrm i x).envTok = sh.envTok := rfl
@[simp] theorem setStrm_trace (sh : Sh) (i : Sid) (x : SS) : (sh.setStrm i x).trace = sh.trace := rfl
theorem setStrm_strm (sh : Sh) (i j : Sid) (x : SS) : (sh.setStrm i x).strm j = if j = i then x else sh.strm j := rfl
@[simp] theorem setStrm_strm_self (sh : Sh) (i : Sid) (x : SS) : (sh.setStrm i x).strm i = x := by simp [setStrm_strm]
theorem setStrm_strm_ne (sh : Sh) {i j : Sid} (x : SS) (h : j ≠ i) : (sh.setStrm i x).strm j = sh.strm j := by
  simp [setStrm_strm, h]

theorem pick_mem {α} {l : List α} {ch : Nat} {x : α} (h : pick l ch = some x) : x ∈ l := by
  unfold pick at h
  split at h
  · cases h
  · exact List.mem_of_getElem? h

/-! ### the transition relation of one thread -/

/-- `Tr s t p sh' p'`: thread `t`, being at `p`, can make a step from `s` that leaves the shared state
    `sh'` and the thread at `p'`.  (Choices are existential; guards are hypotheses.) -/
inductive Tr (s : St) (t : Tid) : PC → Sh → PC → Prop
  /- manageReader -/
  | rTopExit : s.sh.term = true → Tr s t .rTop s.sh .rExit
  | rTopGo : s.sh.term = false → Tr s t .rTop s.sh .rRead
  | rGot {p} : Tr s t (.rGot p) s.sh (.rDisp p s.sh.sbufCur)
  | rDeliver {p c} : c ≠ 0 → p.sid = c → Tr s t (.rDisp p c) (s.sh.emit (.deliver p.sid)) (.rHandle p c)
  | rDrop {p c} : c ≠ 0 → p.sid < c → Tr s t (.rDisp p c) (s.sh.emit (.drop p.sid)) .rTop
  | rNewer {p c} : (c = 0 ∨ c < p.sid) → Tr s t (.rDisp p c) s.sh (.rCancelCurr p c)
  | rHandleTerm {p c} : (s.sh.strm c).term = true → Tr s t (.rHandle p c) s.sh .rTop
  | rHandleOk {p c} : (s.sh.strm c).term = false → Tr s t (.rHandle p c) s.sh .rTop
  | rHandlePut {p c} : (s.sh.strm c).term = false → Tr s t (.rHandle p c) s.sh (.rPut c)
  | rHandleT {p c} : (s.sh.strm c).term = false →
      Tr s t (.rHandle p c) (s.sh.setStrm c { s.sh.strm c with term := true }) .rTop
  | rHandleF {p c} : (s.sh.strm c).term = false →
      Tr s t (.rHandle p c) (s.sh.setStrm c { s.sh.strm c with term := true, fin := true }) (.rTok false)
  | rHandleET {p c} : (s.sh.strm c).term = false →
      Tr s t (.rHandle p c) (s.sh.setStrm c { s.sh.strm c with term := true }) (.tSet .reader)
  | rHandleEF {p c} : (s.sh.strm c).term = false →
      Tr s t (.rHandle p c) (s.sh.setStrm c { s.sh.strm c with term := true, fin := true }) (.rTok true)
  | rPut {c} : (s.sh.strm c).term = true → Tr s t (.rPut c) s.sh .rTop
  | rTokErr : s.sh.sfin = false → Tr s t (.rTok true) { s.sh with sfin := true } (.tSet .reader)
  | rTokOk : s.sh.sfin = false → Tr s t (.rTok false) { s.sh with sfin := true } .rTop
  | rCancelYesW {p c} : c ≠ 0 → (s.sh.strm c).term = false → p.kind = .other →
      Tr s t (.rCancelCurr p c) s.sh (.xCancel c (.rdWait p c))
  | rCancelYesQ {p c} : c ≠ 0 → (s.sh.strm c).term = false → p.kind ≠ .other →
      Tr s t (.rCancelCurr p c) s.sh (.xCancel c (.rdQueue p))
  | rCancelNoW {p c} : (c = 0 ∨ (s.sh.strm c).term = true) → p.kind = .other →
      Tr s t (.rCancelCurr p c) s.sh (.rOrphan p c)
  | rCancelNoQ {p c} : (c = 0 ∨ (s.sh.strm c).term = true) → p.kind ≠ .other →
      Tr s t (.rCancelCurr p c) s.sh (.rEvQueue p)
  | rEvQueueInv {p} : p.kind = .invoke →
      Tr s t (.rEvQueue p) ({ s.sh with invoked := p.sid }.emit (.queue p.sid)) (.rQueue p)
  | rEvQueueMeta {p} : p.kind ≠ .invoke → Tr s t (.rEvQueue p) (s.sh.emit (.queue p.sid)) (.rQueue p)
  | rQueueExit {p} : s.sh.term = true → Tr s t (.rQueue p) s.sh .rExit
  | rQueueOffer {p} : s.sh.pkts = none → Tr s t (.rQueue p) { s.sh with pkts := some p } (.rOffered p)
  | rOfferedRetract {p} : s.sh.pkts = some p → s.sh.term = true →
      Tr s t (.rOffered p) { s.sh with pkts := none } .rExit
  | rOfferedTaken {p} : s.sh.pkts ≠ some p → Tr s t (.rOffered p) s.sh .rPdone
  | rPdone : s.sh.pdone = true → Tr s t .rPdone { s.sh with pdone := false } .rTop
  | rOrphanYes {p c} : p.sid ≠ s.sh.invoked → Tr s t (.rOrphan p c) s.sh (.rEvOrphan p)
  | rOrphanNo {p c} : p.sid = s.sh.invoked → Tr s t (.rOrphan p c) s.sh (.rEvWait p c)
  | rEvOrphan {p} : Tr s t (.rEvOrphan p) (s.sh.emit (.orphan p.sid)) .rTop
  | rEvWait {p c} : Tr s t (.rEvWait p c) (s.sh.emit (.wait p.sid)) (.rWait p c)
  | rWaitClosed {p c} : s.sh.sbufClosed = true → Tr s t (.rWait p c) s.sh .rExit
  | rWaitWoken {p c} : s.sh.sbufClosed = false → s.sh.sbufCur ≠ c → Tr s t (.rWait p c) s.sh (.rGot p)
  | rExit : Tr s t .rExit { s.sh with readDone := true } (.done true)
  /- terminate -/
  | tSetAlready {k} : s.sh.term = true → Tr s t (.tSet k) s.sh (afterTerminate k)
  | tSetFirst {k} : s.sh.term = false → Tr s t (.tSet k) { s.sh with term := true } (.tEvTerm k)
  | tEvTerm {k} : Tr s t (.tEvTerm k) (s.sh.emit .term) (.tEvClose k)
  | tEvClose {k} : Tr s t (.tEvClose k) (s.sh.emit .tportClose) (.tClose k)
  | tClose {k} : Tr s t (.tClose k) { s.sh with closes := s.sh.closes + 1 } (.tTport k)
  | tTport {k} : Tr s t (.tTport k) { s.sh with tportSet := true } (.tSbuf k)
  | tSbuf {k} : Tr s t (.tSbuf k) { s.sh with sbufClosed := true } (afterTerminate k)
  /- stream.Cancel -/
  | xCancelFin {sid k} : (s.sh.strm sid).fin = true → Tr s t (.xCancel sid k) s.sh (afterCancel true k)
  | xCancelNow {sid k} : (s.sh.strm sid).fin = false →
      Tr s t (.xCancel sid k) (s.sh.setStrm sid { s.sh.strm sid with term := true, fin := true }) (.xTok sid k)
  | xCancelLater {sid k} : (s.sh.strm sid).fin = false →
      Tr s t (.xCancel sid k) (s.sh.setStrm sid { s.sh.strm sid with term := true }) (afterCancel false k)
  | xTok {sid k} : s.sh.sfin = false → Tr s t (.xTok sid k) { s.sh with sfin := true } (afterCancel false k)
  /- manageStreams / manageStream -/
  | mTopExit : s.sh.term = true → Tr s t .mTop s.sh .mExit
  | mTopTake {sid} : s.sh.streamsCh = some sid → Tr s t .mTop { s.sh with streamsCh := none } (.mStream sid)
  | mStreamTerm {sid} : s.sh.term = true → Tr s t (.mStream sid) s.sh (.xCancel sid (.mgrTerm sid))
  | mStreamFin {sid} : s.sh.sfin = true → Tr s t (.mStream sid) { s.sh with sfin := false } (.mEvSfin sid true)
  | mStreamCtxSoft {sid} : s.sh.ctx (s.sh.strm sid).owner = true → s.sh.soft = true →
      Tr s t (.mStream sid) s.sh (.mSendCancel sid)
  | mStreamCtxHard {sid} : s.sh.ctx (s.sh.strm sid).owner = true → s.sh.soft = false →
      Tr s t (.mStream sid) s.sh (.xCancel sid (.mgrHard sid))
  | mRecv {sid rel} : s.sh.sfin = true → Tr s t (.mRecv sid rel) { s.sh with sfin := false } (.mEvSfin sid rel)
  | mEvSfinRel {sid} : Tr s t (.mEvSfin sid true) (s.sh.emit (.sfinRecv sid)) .mEvRel
  | mEvSfinTop {sid} : Tr s t (.mEvSfin sid false) (s.sh.emit (.sfinRecv sid)) .mTop
  | mEvRel : Tr s t .mEvRel (s.sh.emit .semRel) .mRel
  | mRel : s.sh.sem = true → Tr s t .mRel { s.sh with sem := false } .mTop
  | mSendBusy {sid} : Tr s t (.mSendCancel sid) s.sh (.mSoftAfter sid true)
  | mSendNoop {sid} : Tr s t (.mSendCancel sid) s.sh (.mSoftAfter sid false)
  | mSendT {sid bad} : Tr s t (.mSendCancel sid) (s.sh.setStrm sid { s.sh.strm sid with term := true }) (.mSoftAfter sid bad)
  | mSendF {sid bad} : ((s.sh.strm sid).fin = false ∨ (s.sh.strm sid).term = false) →
      Tr s t (.mSendCancel sid) (s.sh.setStrm sid { s.sh.strm sid with term := true, fin := true }) (.mSendCancelTok sid bad)
  | mSendCancelTok {sid bad} : s.sh.sfin = false →
      Tr s t (.mSendCancelTok sid bad) { s.sh with sfin := true } (.mSoftAfter sid bad)
  | mSoftAfterBad {sid} : Tr s t (.mSoftAfter sid true) s.sh (.tSet (.mgrSoft sid))
  | mSoftAfterOk {sid} : Tr s t (.mSoftAfter sid false) s.sh (.xCancel sid (.mgrSoft sid))
  | mExit : Tr s t .mExit { s.sh with streamDone := true } (.done true)
  /- acquireSemaphore / waitForPreviousStream -/
  | aStartFail {c} : (s.sh.term = true ∨ s.sh.ctx t = true) → Tr s t (.aStart c) s.sh (.done false)
  | aStartGo {c} : s.sh.term = false → s.sh.ctx t = false → Tr s t (.aStart c) s.sh (.aSel c)
  | aSelAcq {c} : s.sh.sem = false → Tr s t (.aSel c) { s.sh with sem := true } (.aEvAcq c)
  | aSelFail {c} : (s.sh.ctx t = true ∨ s.sh.term = true) → Tr s t (.aSel c) s.sh (.done false)
  | aEvAcq {c} : Tr s t (.aEvAcq c) (s.sh.emit .semAcq) (.aPrev c)
  | aPrevNone {c} : s.sh.sbufCur = 0 → Tr s t (.aPrev c) s.sh (.aEvPrevNone c)
  | aPrevSome {c} : s.sh.sbufCur ≠ 0 → Tr s t (.aPrev c) s.sh (.aPrevChk c s.sh.sbufCur)
  | aEvPrevNone {c} : Tr s t (.aEvPrevNone c) (s.sh.emit .prevNone) (.aGot c)
  | aPrevChkFin {c p} : (s.sh.strm p).fin = true → Tr s t (.aPrevChk c p) s.sh (.aEvPrevDone c p)
  | aPrevChkWait {c p} : (s.sh.strm p).fin = false → Tr s t (.aPrevChk c p) s.sh (.aPrevSel c p)
  | aPrevSelFin {c p} : (s.sh.strm p).fin = true → Tr s t (.aPrevSel c p) s.sh (.aEvPrevDone c p)
  | aPrevSelFail {c p} : (s.sh.ctx t = true ∨ s.sh.term = true) → Tr s t (.aPrevSel c p) s.sh .aFailEvRel
  | aEvPrevDone {c p} : Tr s t (.aEvPrevDone c p) (s.sh.emit (.prevDone p)) (.aGot c)
  | aFailEvRel : Tr s t .aFailEvRel (s.sh.emit .semRel) .aFailRel
  | aFailRel : s.sh.sem = true → Tr s t .aFailRel { s.sh with sem := false } (.done false)
  | aGotClient : Tr s t (.aGot .client) s.sh (.nNew .client (s.sh.sbufCur + 1))
  | aGotServer : Tr s t (.aGot .server) s.sh .sSel
  | aGotClose : Tr s t (.aGot .close) s.sh (.done false)
  /- NewServerStream -/
  | sSelTake {p} : s.sh.pkts = some p → Tr s t .sSel { s.sh with pkts := none } (.sGot p)
  | sSelFail : (s.sh.ctx t = true ∨ s.sh.term = true) → Tr s t .sSel s.sh .sFailEvRel
  | sGotMeta {p} : s.sh.pdone = false → p.kind = .metadata → Tr s t (.sGot p) { s.sh with pdone := true } .sSel
  | sGotMetaBad {p} : s.sh.pdone = false → p.kind = .metadata →
      Tr s t (.sGot p) { s.sh with pdone := true } .sFailEvRel
  | sGotInvoke {p} : s.sh.pdone = false → p.kind = .invoke →
      Tr s t (.sGot p) { s.sh with pdone := true } (.nNew .server p.sid)
  | sGotOther {p} : s.sh.pdone = false → p.kind = .other → Tr s t (.sGot p) { s.sh with pdone := true } .sSel
  | sFailEvRel : Tr s t .sFailEvRel (s.sh.emit .semRel) .sFailRel
  | sFailRel : s.sh.sem = true → Tr s t .sFailRel { s.sh with sem := false } (.done false)
  /- newStream -/
  | nNew {c sid} : Tr s t (.nNew c sid) (s.sh.setStrm sid { made := true, owner := t }) (.nEvBegin c sid)
  | nEvBegin {c sid} : Tr s t (.nEvBegin c sid) (s.sh.emit (.newBegin sid)) (.nSet c sid)
  | nSetClosed {c sid} : s.sh.sbufClosed = true →
      Tr s t (.nSet c sid) (s.sh.setStrm sid { s.sh.strm sid with pub := true }) (.nEvEnd c sid)
  | nSetStore {c sid} : s.sh.sbufClosed = false →
      Tr s t (.nSet c sid) { s.sh.setStrm sid { s.sh.strm sid with pub := true } with sbufCur := sid } (.nEvEnd c sid)
  | nEvEnd {c sid} : Tr s t (.nEvEnd c sid) (s.sh.emit (.newEnd sid)) (.nEvOffer c sid)
  | nEvOffer {c sid} : Tr s t (.nEvOffer c sid) (s.sh.emit (.newOffer sid)) (.nOffer c sid)
  | nOfferRetract {c sid} : s.sh.term = true → Tr s t (.nOffer c sid) s.sh (.nEvRetract c sid)
  | nOfferOffer {c sid} : s.sh.streamsCh = none →
      Tr s t (.nOffer c sid) { s.sh with streamsCh := some sid } (.nOffered c sid)
  | nOfferedRetract {c sid} : s.sh.streamsCh = some sid → s.sh.term = true →
      Tr s t (.nOffered c sid) { s.sh with streamsCh := none } (.nEvRetract c sid)
  | nOfferedTaken {c sid} : s.sh.streamsCh ≠ some sid → Tr s t (.nOffered c sid) s.sh (.done true)
  | nEvRetract {c sid} : Tr s t (.nEvRetract c sid) (s.sh.emit (.newRetract sid)) (failHolding c)
  /- Close -/
  | cWaitStream : s.sh.streamDone = true → Tr s t .cWaitStream s.sh .cWaitRead
  | cWaitRead : s.sh.readDone = true → Tr s t .cWaitRead s.sh .cWaitTport
  | cWaitTport : s.sh.tportSet = true → Tr s t .cWaitTport s.sh (.done true)

theorem mem_ite_single {c : Prop} [Decidable c] {v x : Nat} : v ∈ (if c then [x] else []) ↔ c ∧ v = x := by
  split <;> simp_all
theorem mem_ite_single' {c : Prop} [Decidable c] {v x : Nat} : v ∈ (if c then [] else [x]) ↔ ¬c ∧ v = x := by
  split <;> simp_all

theorem pick3 {l1 l2 l3 : List Nat} {ch v : Nat} (h : pick (l1 ++ l2 ++ l3) ch = some v) :
    v ∈ l1 ∨ v ∈ l2 ∨ v ∈ l3 := by
  have := pick_mem h
  simp only [List.mem_append] at this
  rcases this with (h|h)|h <;> simp [h]

/-- `omega` does not look through the abbreviations `Sid` / `Tid` -/
macro "somega" : tactic => `(tactic| ((try unfold Sid at *); (try unfold Tid at *); omega))

theorem step_tr {s s' : St} {t : Tid} {ch : Nat} (h : step s t ch = some s') :
    ∃ sh' p', Tr s t (s.pc t) sh' p' ∧ s' = s.upd t sh' p' := by
  unfold step at h
  cases hp : s.pc t <;> simp only [hp, stepPC] at h <;> (repeat' split at h) <;> (try (cases h; done)) <;> cases h
    <;> (try simp only [setPc_eq_upd]) <;> refine ⟨_, _, ?_, rfl⟩ <;> (try simp only [Bool.not_eq_true] at *)
    <;> (try subst_vars)
  all_goals (try (first | (constructor <;> assumption)))
  all_goals (try (have hm := pick3 ‹pick _ _ = some _›; simp only [mem_ite_single, mem_ite_single'] at hm))
  all_goals first
    | exact Tr.rDeliver (by simp_all) (by simp_all)
    | exact Tr.rDrop (by simp_all) (by simp_all)
    | exact Tr.rNewer (by somega)
    | exact Tr.rHandleOk (by assumption)
    | exact Tr.rPut (by assumption)
    | exact Tr.rCancelYesW (by simp_all) (by simp_all) (by assumption)
    | exact Tr.rCancelYesQ (by simp_all) (by simp_all) (by assumption)
    | exact Tr.rCancelNoW (Decidable.or_iff_not_imp_left.2 (by simp_all)) (by assumption)
    | exact Tr.rCancelNoQ (Decidable.or_iff_not_imp_left.2 (by simp_all)) (by assumption)
    | exact Tr.rQueueExit (by simp_all)
    | exact Tr.rQueueOffer (by simp_all)
    | exact Tr.rOrphanNo (by simp_all)
    | exact Tr.rWaitClosed (by assumption)
    | exact Tr.mTopExit (by simp_all)
    | exact Tr.mStreamTerm (by simp_all)
    | exact Tr.mStreamFin (by simp_all)
    | exact Tr.mStreamCtxSoft (by simp_all) (by assumption)
    | exact Tr.mStreamCtxHard (by simp_all) (by assumption)
    | exact Tr.mSendF (by simp_all)
    | exact Tr.aStartGo (by simp_all) (by simp_all)
    | exact Tr.aSelAcq (by simp_all)
    | exact Tr.aSelFail (by rcases hm with h1 | h1 | h1; exact Or.inl h1.1; exact Or.inr h1.1; exact absurd h1.2 (by assumption))
    | exact Tr.aPrevSelFin (by simp_all)
    | exact Tr.aPrevSelFail (by rcases hm with h1 | h1 | h1; exact Or.inl h1.1; exact Or.inr h1.1; exact absurd h1.2 (by assumption))
    | exact Tr.aGotClose
    | exact Tr.sSelFail (by
        rcases hm with ⟨h, -⟩ | ⟨h, -⟩ | ⟨h1, h2⟩
        · simp [h]
        · simp [h]
        · cases hpk : s.sh.pkts with
          | none => simp [hpk] at h1
          | some q => exact absurd h2 (by rename_i hx; exact hx q hpk))
    | exact Tr.sGotOther (by assumption) (by assumption)
    | exact Tr.sFailRel (by assumption)
    | exact Tr.nOfferRetract (by simp_all)
    | exact Tr.nOfferOffer (by simp_all)
    | exact Tr.cWaitTport (by assumption)
    | skip

/-! ### environment moves -/

theorem setSh_eq_upd (s : St) (sh : Sh) (t : Tid) : ({ s with sh := sh } : St) = s.upd t sh (s.pc t) := by
  unfold St.upd
  congr 1
  funext u
  split
  · subst_vars; rfl
  · rfl

/-- `ETr s t sh' p'`: the environment can turn `s` into `s.upd t sh' p'` -/
inductive ETr (s : St) : Tid → Sh → PC → Prop
  | spawnClose {t} : 2 ≤ t → s.pc t = .idle → ETr s t s.sh (.tSet .close)
  | spawnCall {t c} : 2 ≤ t → s.pc t = .idle → c ≠ .close → ETr s t s.sh (.aStart c)
  | ctxCancel (t) : ETr s readerTid { s.sh with ctx := fun u => if u = t then true else s.sh.ctx u } (s.pc readerTid)
  | arrive (p) : s.pc readerTid = .rRead → ETr s readerTid s.sh (.rGot p)
  | readErr : s.pc readerTid = .rRead → ETr s readerTid s.sh (.tSet .reader)
  | appTerm (sid) : (s.sh.strm sid).pub = true →
      ETr s readerTid (s.sh.setStrm sid { s.sh.strm sid with term := true }) (s.pc readerTid)
  | appFin (sid) : (s.sh.strm sid).pub = true → (s.sh.strm sid).term = true → (s.sh.strm sid).fin = false →
      ETr s readerTid { s.sh.setStrm sid { s.sh.strm sid with fin := true } with envTok := s.sh.envTok + 1 } (s.pc readerTid)
  | tokSend : 0 < s.sh.envTok → s.sh.sfin = false →
      ETr s readerTid { s.sh with sfin := true, envTok := s.sh.envTok - 1 } (s.pc readerTid)
  | consume {c} : s.pc readerTid = .rPut c → ETr s readerTid s.sh .rTop

theorem env_tr {s s' : St} {e : Env} (h : envStep s e = some s') :
    ∃ t sh' p', ETr s t sh' p' ∧ s' = s.upd t sh' p' := by
  cases e with
  | spawn t c =>
    simp only [envStep] at h
    split at h
    · cases h
      rename_i hg
      cases c
      · exact ⟨t, _, _, .spawnCall hg.1 hg.2 (by simp), rfl⟩
      · exact ⟨t, _, _, .spawnCall hg.1 hg.2 (by simp), rfl⟩
      · exact ⟨t, _, _, .spawnClose hg.1 hg.2, rfl⟩
    · cases h
  | ctxCancel t =>
    simp only [envStep] at h
    cases h
    exact ⟨_, _, _, .ctxCancel t, setSh_eq_upd ..⟩
  | arrive p =>
    simp only [envStep] at h
    split at h
    · cases h; exact ⟨_, _, _, .arrive p ‹_›, rfl⟩
    · cases h
  | readErr =>
    simp only [envStep] at h
    split at h
    · cases h; exact ⟨_, _, _, .readErr ‹_›, rfl⟩
    · cases h
  | appTerm sid =>
    simp only [envStep] at h
    split at h
    · cases h; exact ⟨_, _, _, .appTerm sid ‹_›, setSh_eq_upd ..⟩
    · cases h
  | appFin sid =>
    simp only [envStep] at h
    split at h
    · cases h
      rename_i hg
      exact ⟨_, _, _, .appFin sid hg.1 hg.2.1 (by simpa using hg.2.2), setSh_eq_upd ..⟩
    · cases h
  | tokSend =>
    simp only [envStep] at h
    split at h
    · cases h
      rename_i hg
      exact ⟨_, _, _, .tokSend hg.1 (by simpa using hg.2), setSh_eq_upd ..⟩
    · cases h
  | consume =>
    simp only [envStep] at h
    split at h
    · cases h; exact ⟨_, _, _, .consume ‹_›, rfl⟩
    · cases h

/-! ### executions in which no stream id is used twice -/

/-- the step creates a stream with an id for which no stream was created before.  (The model keys the
    stream record, the offer on `m.streams` and the packets by the id; the Go code uses pointers.) -/
def FreshStep (s : St) (t : Tid) : Prop := ∀ c sid, s.pc t = .nNew c sid → (s.sh.strm sid).made = false

/-- `drpcwire.Reader.ReadPacketUsing` never returns a packet with stream id 0 (its id check starts
    at stream 1, message 1 and ids never go back) -/
def EnvF (e : Env) : Prop := ∀ p, e = .arrive p → p.sid ≠ 0

inductive ReachF (soft : Bool) : St → Prop
  | init : ReachF soft { sh := { soft := soft } }
  | step {s s' : St} (t : Tid) (ch : Nat) : ReachF soft s → step s t ch = some s' → FreshStep s t → ReachF soft s'
  | env {s s' : St} (e : Env) : ReachF soft s → envStep s e = some s' → EnvF e → ReachF soft s'

theorem ReachF.reach {soft : Bool} {s : St} (h : ReachF soft s) : Reach soft s := by
  induction h with
  | init => exact .init
  | step t ch _ hs _ ih => exact .step t ch ih hs
  | env e _ hs _ ih => exact .env e ih hs

end Drpc.Manager.Sys
