import Lean
/-
  `gen_ctor_simp f` — for a function `f : T → β` defined by pattern matching on an inductive type
  `T`, add for every constructor `C` of `T` the simp lemma `f (C x…) = rhs`, where `rhs` is the
  matching alternative of the definition of `f`; each lemma is proved by `rfl` and checked by the
  kernel like any other theorem.

  Why: `simp [f]` / `@[simp] def f` unfold `f` on *every* argument, also on `f (s.pc u)` inside
  thread-quantified hypotheses, which turns each of them into a 40-way `match` and makes the
  invariant proofs of the concurrent models slow.  The generated lemmas only fire on constructor
  applications, and being ordinary `@[simp]` lemmas they cost nothing per `simp` call.
-/
namespace Drpc
open Lean Elab Command Meta

elab "gen_ctor_simp " f:ident : command => do
  let fn ← liftCoreM <| realizeGlobalConstNoOverloadWithInfo f
  let finfo ← getConstInfo fn
  let dom ← liftTermElabM <| forallBoundedTelescope finfo.type (some 1) fun xs _ => do
    let t ← whnf (← inferType xs[0]!)
    match t.getAppFn with
    | .const n _ => pure n
    | _ => throwError "gen_ctor_simp: the argument of {fn} is not an inductive type"
  let some (.inductInfo iv) := (← getEnv).find? dom
    | throwError "gen_ctor_simp: {dom} is not an inductive type"
  for ctor in iv.ctors do
    let (type, value) ← liftTermElabM do
      let cinfo ← getConstInfoCtor ctor
      forallTelescope cinfo.type fun xs _ => do
        let lhs := mkApp (mkConst fn) (mkAppN (mkConst ctor) xs)
        let some e ← unfoldDefinition? lhs | throwError "gen_ctor_simp: cannot unfold {lhs}"
        let e := e.headBeta
        let rhs ← match (← reduceMatcher? e) with
          | .reduced r => pure r.headBeta
          | _ => pure e
        let type ← mkForallFVars xs (← mkEq lhs rhs)
        let value ← mkLambdaFVars xs (← mkEqRefl lhs)
        pure (type, value)
    let name := fn ++ (`simp).appendAfter ("_" ++ ctor.getString!)
    liftCoreM <| addDecl (.thmDecl { name, levelParams := [], type, value })
    liftTermElabM <| addSimpTheorem simpExtension name (post := true) (inv := false) .global (eval_prio default)

end Drpc
