import Drpc.Http.Serve
import Drpc.Lemmas.HttpBase64
import Drpc.Lemmas.HttpGetCode
/- Lemmas about the grpc-web model: framing against the reference parser, trailer sanitisation
   against the (lenient) reference line splitter, the status value, and the closed form of the
   handler's send loop. -/
namespace Drpc.Http
open Drpc

/-! ### framing -/

theorem u32_be32 (n : Nat) (h : n < 4294967296) :
    u32 (BitVec.ofNat 8 (n / 16777216)) (BitVec.ofNat 8 (n / 65536)) (BitVec.ofNat 8 (n / 256)) (BitVec.ofNat 8 n) = n := by
  simp only [u32, BitVec.toNat_ofNat]
  omega

theorem frame_length (flag : Byte) (d : Bytes) : (frame flag d).length = 5 + d.length := by
  simp [frame, be32]; omega

open GrpcWebRef in
theorem parseAux_frame_cons (fuel : Nat) (flag : Byte) (d rest : Bytes) (h : d.length < 4294967296) :
    parseAux (fuel + 1) (frame flag d ++ rest) = (parseAux fuel rest).map (fun fs => (flag, d) :: fs) := by
  simp only [frame, be32, List.cons_append, List.nil_append, parseAux]
  rw [u32_be32 _ h]
  have hnot : ¬ ((d ++ rest).length < d.length) := by simp
  simp only [hnot, if_false, List.drop_left, List.take_left]

open GrpcWebRef in
theorem parseAux_frames : ∀ (frames : List (Byte × Bytes)) (fuel : Nat),
    (∀ fr ∈ frames, fr.2.length < 4294967296) →
    ((frames.map (fun fr => frame fr.1 fr.2)).flatten).length ≤ fuel →
    parseAux fuel ((frames.map (fun fr => frame fr.1 fr.2)).flatten) = some frames := by
  intro frames
  induction frames with
  | nil => intro fuel _ _; simp [parseAux]
  | cons fr frames ih =>
    intro fuel hlen hfuel
    have h1 : fr.2.length < 4294967296 := hlen fr (by simp)
    simp only [List.map_cons, List.flatten_cons, List.length_append, frame_length] at hfuel
    cases fuel with
    | zero => omega
    | succ fuel =>
      simp only [List.map_cons, List.flatten_cons]
      rw [parseAux_frame_cons fuel fr.1 fr.2 _ h1, ih fuel (fun x hx => hlen x (by simp [hx])) (by omega)]
      simp

/-- the reference frame parser recovers exactly the frames that were written -/
theorem parse_frames (frames : List (Byte × Bytes)) (h : ∀ fr ∈ frames, fr.2.length < 4294967296) :
    GrpcWebRef.parse ((frames.map (fun fr => frame fr.1 fr.2)).flatten) = some frames :=
  parseAux_frames frames _ h (Nat.le_refl _)

/-! ### trailer values -/

theorem replace_no_nl : ∀ b : Byte, replaceByte nlSpace b ≠ bCR ∧ replaceByte nlSpace b ≠ bLF := by decide

theorem replace_other : ∀ b : Byte, b ≠ bCR → b ≠ bLF → replaceByte nlSpace b = b := by decide

abbrev noNL (l : Bytes) : Prop := ∀ b ∈ l, b ≠ bCR ∧ b ≠ bLF

theorem nlReplace_noNL (v : Bytes) : noNL (nlReplace v) := by
  intro b hb
  simp only [nlReplace, List.mem_map] at hb
  obtain ⟨a, _, rfl⟩ := hb
  exact replace_no_nl a

theorem trimString_subset (s : Bytes) : ∀ b ∈ trimString s, b ∈ s := by
  intro b hb
  simp only [trimString, List.mem_reverse] at hb
  have h1 := (List.dropWhile_sublist isASCIISpace (l := (s.dropWhile isASCIISpace).reverse)).subset hb
  simp only [List.mem_reverse] at h1
  exact (List.dropWhile_sublist isASCIISpace (l := s)).subset h1

/-- no trailer value contains CR or LF, whatever the error text -/
theorem sanitize_noNL (v : Bytes) : noNL (sanitize v) := by
  intro b hb
  exact nlReplace_noNL v b (trimString_subset _ b hb)

theorem dropWhile_none {p : Byte → Bool} : ∀ (l : Bytes), (∀ b ∈ l, p b = false) → l.dropWhile p = l := by
  intro l h
  cases l with
  | nil => rfl
  | cons a t => simp [List.dropWhile, h a (by simp)]

theorem space_iff : ∀ b : Byte, isASCIISpace b = false ↔ (b ≠ 32#8 ∧ b ≠ 9#8 ∧ b ≠ bLF ∧ b ≠ bCR) := by decide

/-- text made of bytes that are neither blank nor line breaks is written unchanged -/
theorem sanitize_id (v : Bytes) (h : ∀ b ∈ v, isASCIISpace b = false) : sanitize v = v := by
  have h1 : nlReplace v = v := by
    simp only [nlReplace]
    conv => rhs; rw [← List.map_id v]
    apply List.map_congr_left
    intro b hb
    have := (space_iff b).1 (h b hb)
    simpa using replace_other b this.2.2.2 this.2.2.1
  simp only [sanitize, h1, trimString]
  rw [dropWhile_none v h, dropWhile_none v.reverse (by intro b hb; exact h b (by simpa using hb))]
  simp

open GrpcWebRef in
theorem lines_line : ∀ (l : Bytes) (cur rest : Bytes), noNL l →
    lines (l ++ bCR :: bLF :: rest) cur false = (cur ++ l) :: lines rest [] false := by
  intro l
  induction l with
  | nil =>
    intro cur rest _
    have h1 : ¬ bCR = bLF := by decide
    simp [lines, h1]
  | cons c l ih =>
    intro cur rest h
    have hc := h c (by simp)
    simp only [List.cons_append, lines, hc.1, hc.2, if_false]
    rw [ih _ _ (fun b hb => h b (by simp [hb]))]
    simp

theorem noNL_append {a b : Bytes} (ha : noNL a) (hb : noNL b) : noNL (a ++ b) := by
  intro x hx
  rcases List.mem_append.1 hx with h | h
  · exact ha x h
  · exact hb x h

theorem noNL_colonSpace : noNL colonSpace := by decide

def lineOf (kv : Bytes × Bytes) : Bytes := kv.1 ++ (colonSpace ++ sanitize kv.2)

open GrpcWebRef in
/-- a block of written trailer lines splits — even for a parser that accepts bare CR or bare LF as
    line ends — into exactly one line per key -/
theorem lines_block : ∀ (pairs : List (Bytes × Bytes)), (∀ kv ∈ pairs, noNL kv.1) →
    lines (trailerBlock pairs) [] false = pairs.map lineOf := by
  intro pairs
  induction pairs with
  | nil => intro _; simp [trailerBlock, lines]
  | cons kv pairs ih =>
    intro h
    have hk := h kv (by simp)
    have hl : noNL (lineOf kv) := noNL_append hk (noNL_append noNL_colonSpace (sanitize_noNL _))
    have e : trailerBlock (kv :: pairs) = lineOf kv ++ bCR :: bLF :: trailerBlock pairs := by
      simp [trailerBlock, trailerLine, lineOf]
    rw [e, lines_line _ _ _ hl, ih (fun x hx => h x (by simp [hx]))]
    simp

open GrpcWebRef in
theorem splitColon_key : ∀ (key acc v : Bytes), (∀ b ∈ key, b ≠ 58#8) →
    splitColon (key ++ (colonSpace ++ v)) acc = some (acc ++ key, v) := by
  intro key
  induction key with
  | nil => intro acc v _; simp [splitColon, colonSpace]
  | cons c key ih =>
    intro acc v h
    have hc := h c (by simp)
    simp only [List.cons_append, splitColon, hc, if_false]
    rw [ih _ _ (fun b hb => h b (by simp [hb]))]
    simp

theorem keys_ok : ∀ k ∈ [kStatus, kCode, kMessage], noNL k ∧ ∀ b ∈ k, b ≠ 58#8 := by decide

theorem trailerPairs_keys (e : Option Err) (code : Bytes) :
    ∀ kv ∈ trailerPairs e code, noNL kv.1 ∧ ∀ b ∈ kv.1, b ≠ 58#8 := by
  intro kv hkv
  cases e with
  | none =>
    simp [trailerPairs] at hkv; subst hkv
    exact keys_ok kStatus (by simp)
  | some err =>
    simp [trailerPairs] at hkv
    rcases hkv with rfl | rfl | rfl
    · exact keys_ok kStatus (by simp)
    · exact keys_ok kCode (by simp)
    · exact keys_ok kMessage (by simp)

open GrpcWebRef in
theorem parseTrailers_block (pairs : List (Bytes × Bytes))
    (h : ∀ kv ∈ pairs, noNL kv.1 ∧ ∀ b ∈ kv.1, b ≠ 58#8) :
    parseTrailers (trailerBlock pairs) = some (pairs.map (fun kv => (kv.1, sanitize kv.2))) := by
  unfold parseTrailers
  rw [lines_block pairs (fun kv hkv => (h kv hkv).1)]
  induction pairs with
  | nil => simp
  | cons kv pairs ih =>
    have := splitColon_key kv.1 [] (sanitize kv.2) (h kv (by simp)).2
    simp only [List.map_cons, List.mapM_cons, lineOf, this, List.nil_append]
    rw [ih (fun x hx => h x (by simp [hx]))]
    simp

/-! ### grpc-status -/

theorem asc0 : asc "0" = [48#8] := by decide
theorem asc2_ne : asc "2" ≠ asc "0" := by decide

theorem statusText_zero_iff (e : Option Err) : statusText e = asc "0" ↔ e = none := by
  unfold statusText
  cases e with
  | none =>
    have : toDec (drpcCode none).toNat = [48#8] := by
      rw [toDec_zero_iff]; simp [drpcCode, curOf, drpcCodeLoop]
    simp [this, asc0]
  | some err =>
    simp only [Option.isSome_some, Bool.true_and]
    by_cases h : (toDec (drpcCode (some err)).toNat == asc "0") = true
    · simp [h, asc2_ne]
    · simp only [h]
      have : ¬ toDec (drpcCode (some err)).toNat = asc "0" := by simpa using h
      simp [this]

theorem digits_not_space : ∀ b : Byte, 48 ≤ b.toNat ∧ b.toNat ≤ 57 → isASCIISpace b = false := by decide

theorem statusText_digits (e : Option Err) : ∀ b ∈ statusText e, isASCIISpace b = false := by
  intro b hb
  apply digits_not_space
  simp only [statusText] at hb
  split at hb
  · have : asc "2" = [50#8] := by decide
    rw [this] at hb; simp at hb; subst hb; decide
  · exact toDec_digits _ b hb

theorem sanitize_statusText (e : Option Err) : sanitize (statusText e) = statusText e :=
  sanitize_id _ (statusText_digits e)

/-! ### the handler's send loop over a grpc-web stream -/

def fits (p : Proto) (m : Bytes) : Bool := decide ((marshal p.json m).length < maxSize)

/-- the messages that reach the response: in stop mode those before the first oversize one, otherwise
    all that fit -/
def accepted (p : Proto) (stop : Bool) (msgs : List Bytes) : List Bytes :=
  if stop then msgs.takeWhile (fits p) else msgs.filter (fits p)

def gwStep (p : Proto) : Bytes → Bytes → SendR × Bytes :=
  fun acc m => let (r, w) := gwSend p m; (r, acc ++ w)

def msgFrame (p : Proto) (m : Bytes) : Bytes := frame 0#8 (marshal p.json m)

theorem gwStep_fit (p : Proto) (acc m : Bytes) (h : fits p m = true) :
    gwStep p acc m = (.ok, acc ++ writeOut p.text (msgFrame p m)) := by
  have h' : ¬ ((marshal p.json m).length ≥ maxSize) := by simp [fits] at h; omega
  simp [gwStep, gwSend, gwSendP, h', msgFrame]

theorem gwStep_nofit (p : Proto) (acc m : Bytes) (h : fits p m = false) :
    gwStep p acc m = (.tooLarge, acc) := by
  have h' : (marshal p.json m).length ≥ maxSize := by simp [fits] at h; omega
  simp [gwStep, gwSend, gwSendP, h']

theorem runSends_gw (p : Proto) (stop : Bool) : ∀ (msgs : List Bytes) (acc : Bytes),
    (runSends (gwStep p) stop acc msgs).2.1 =
      acc ++ ((accepted p stop msgs).map (fun m => writeOut p.text (msgFrame p m))).flatten ∧
    (runSends (gwStep p) stop acc msgs).2.2 =
      (if stop && msgs.any (fun m => !fits p m) then some SendR.tooLarge else none) := by
  intro msgs
  induction msgs with
  | nil => intro acc; simp [runSends, accepted]
  | cons m msgs ih =>
    intro acc
    by_cases hf : fits p m = true
    · have := ih (acc ++ writeOut p.text (msgFrame p m))
      simp only [runSends, gwStep_fit p acc m hf]
      constructor
      · rw [this.1]; cases stop <;> simp [accepted, hf]
      · rw [this.2]; simp [hf]
    · have hf' : fits p m = false := by simpa using hf
      simp only [runSends, gwStep_nofit p acc m hf']
      cases stop with
      | true => simp [accepted, hf']
      | false =>
        have := ih acc
        simp only [Bool.false_eq_true, if_false]
        constructor
        · rw [this.1]; simp [accepted, hf']
        · rw [this.2]; simp

def codeOf (e : Option Err) : Bytes :=
  match e with
  | none => []
  | some _ => match getCode e with | .ok c => c | .panic => []

/-- the error the stream is finished with -/
def gwFinal (p : Proto) (stop : Bool) (msgs : List Bytes) (result : Option Err) : Option Err :=
  if stop && msgs.any (fun m => !fits p m) then some errTooLarge else result

def trailerOf (e : Option Err) : Bytes := trailerBlock (trailerPairs e (codeOf e))

/-- every write of the exchange, before the protocol's write function is applied -/
def gwWrites (p : Proto) (stop : Bool) (msgs : List Bytes) (result : Option Err) : List Bytes :=
  (accepted p stop msgs).map (msgFrame p) ++ [frame 128#8 (trailerOf (gwFinal p stop msgs result))]

theorem gwFinish_eq (p : Proto) (e : Option Err) :
    gwFinish p e = some (writeOut p.text (frame 128#8 (trailerOf e))) := by
  unfold gwFinish trailerOf codeOf
  cases e with
  | none => simp
  | some err =>
    have := getCode_ne_panic (some err)
    cases h : getCode (some err) with
    | ok c => simp
    | panic => exact absurd h this

theorem serveSends_grpcweb (p : Proto) (hk : p.kind = .grpcWeb) (stop : Bool) (msgs : List Bytes)
    (result : Option Err) :
    (serveSends p stop msgs result).1 =
      some ⟨200, p.ct, .raw ((gwWrites p stop msgs result).map (writeOut p.text)).flatten⟩ := by
  have h := runSends_gw p stop msgs []
  unfold serveSends
  simp only [hk]
  change ((gwFinish p (match (runSends (gwStep p) stop [] msgs).2.2 with
      | some r => r.toErr | none => result)).map
        (fun t => (⟨200, p.ct, .raw ((runSends (gwStep p) stop [] msgs).2.1 ++ t)⟩ : Reply))) = _
  rw [h.1, h.2, gwFinish_eq]
  have hf : (match (if (stop && msgs.any fun m => !fits p m) = true then some SendR.tooLarge else none) with
      | some r => r.toErr | none => result) = gwFinal p stop msgs result := by
    unfold gwFinal
    by_cases hc : (stop && msgs.any fun m => !fits p m) = true
    · simp [hc, SendR.toErr]
    · simp [hc]
  rw [hf]
  simp [gwWrites, List.map_append, List.flatten_append, List.map_map, Function.comp_def]

end Drpc.Http
