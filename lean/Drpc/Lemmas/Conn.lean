import Drpc.Conn.Invoke
/-
  Invariant of the `Conn.Invoke` model (Drpc/Conn/Invoke.lean) and the helper lemmas the property
  theorems in Drpc/Props/Conn.lean are read off from.

  Structure: every thread step is summarised by five small lemmas (`step_pc_other`, `step_mu`,
  `step_wbuf`, `step_log`, `step_live`: what a step may do to the other threads, the mutex, the
  buffer, the wire log, the stream slot) plus `step_sent_self` (what the stepping thread has written
  so far); the invariant `Inv` is preserved by a purely logical argument from these.
-/
namespace Drpc.ConnInvoke
open Drpc

/-- thread ids of the log entries, in order -/
def tids (log : List Entry) : List Tid := log.map (·.1)

/-- what thread `t` put on the wire, in order -/
def mine (log : List Entry) (t : Tid) : List (Kind × Bytes) := (log.filter (fun e => e.1 == t)).map (·.2)

theorem tids_append (log : List Entry) (e : Entry) : tids (log ++ [e]) = tids log ++ [e.1] := by
  simp [tids]

theorem mine_append_self (log : List Entry) (t : Tid) (k : Kind) (b : Bytes) :
    mine (log ++ [(t, k, b)]) t = mine log t ++ [(k, b)] := by
  simp [mine, List.filter_append]

theorem mine_append_other (log : List Entry) (t u : Tid) (k : Kind) (b : Bytes) (h : u ≠ t) :
    mine (log ++ [(u, k, b)]) t = mine log t := by
  simp [mine, List.filter_append, h]

theorem mem_mine {log : List Entry} {t : Tid} {k : Kind} {b : Bytes} :
    (k, b) ∈ mine log t ↔ (t, k, b) ∈ log := by
  simp only [mine, List.mem_map, List.mem_filter]
  constructor
  · rintro ⟨⟨u, k', b'⟩, ⟨hm, hu⟩, he⟩
    simp at hu he; obtain ⟨rfl, rfl⟩ := he; subst hu; exact hm
  · intro h; exact ⟨(t, k, b), ⟨h, by simp⟩, rfl⟩

theorem not_mem_tids_of_mine_nil {log : List Entry} {t : Tid} (h : mine log t = []) : t ∉ tids log := by
  intro hm
  simp only [tids, List.mem_map] at hm
  obtain ⟨⟨u, k, b⟩, hm, rfl⟩ := hm
  have : (k, b) ∈ mine log u := mem_mine.mpr hm
  rw [h] at this; simp at this

/-- once a later call `b` has written, an earlier call `a` never writes again -/
def NoABA (l : List Tid) : Prop := ∀ p q r a b, l = p ++ a :: (q ++ b :: r) → b ≠ a → a ∉ r

/-- everything after an entry of `t` is an entry of `t` -/
def Tail (t : Tid) (l : List Tid) : Prop := ∀ p q, l = p ++ t :: q → ∀ x ∈ q, x = t

theorem Tail.of_not_mem {t : Tid} {l : List Tid} (h : t ∉ l) : Tail t l := by
  intro p q e; subst e; simp at h

theorem Tail.append {t : Tid} {l : List Tid} (h : Tail t l) : Tail t (l ++ [t]) := by
  intro p q e x hx
  rcases List.eq_nil_or_concat q with rfl | ⟨q', y, rfl⟩
  · simp at hx
  · have e' : l ++ [t] = (p ++ t :: q') ++ [y] := by simp [e]
    obtain ⟨e1, e2⟩ := List.append_inj' e' rfl
    simp at e2; subst e2
    simp at hx
    rcases hx with hx | hx
    · exact h p q' e1 x hx
    · exact hx

theorem NoABA.append {t : Tid} {l : List Tid} (h : NoABA l) (ht : Tail t l) : NoABA (l ++ [t]) := by
  intro p q r a b e hne
  rcases List.eq_nil_or_concat r with rfl | ⟨r', y, rfl⟩
  · simp
  · have e' : l ++ [t] = (p ++ a :: (q ++ b :: r')) ++ [y] := by simp [e]
    obtain ⟨e1, e2⟩ := List.append_inj' e' rfl
    simp at e2; subst e2
    have := h p q r' a b e1 hne
    simp only [List.concat_eq_append, List.mem_append, List.mem_singleton, not_or]
    refine ⟨this, ?_⟩
    intro hat; subst hat
    exact hne (ht p (q ++ b :: r') e1 b (by simp))

theorem NoABA.nil : NoABA [] := by
  intro p q r a b e; simp at e


def inCrit : PC → Bool
  | .statsUnlock | .mStart | .mFinish | .wMeta | .wInvoke | .wMsg | .closeSend | .recv | .unlock _ => true
  | _ => false
def marshalled : PC → Bool
  | .wMeta | .wInvoke | .wMsg => true
  | _ => false
def hasStream : PC → Bool
  | .statsLock | .statsUnlock | .lock | .mStart | .mFinish | .wMeta | .wInvoke | .wMsg | .closeSend | .recv
  | .unlock _ | .close _ => true
  | _ => false

theorem rawWrite_eq_some {cfg : Cfg} {sh sh' : Sh} {t : Tid} {k : Kind} {b : Bytes} :
    rawWrite cfg sh t k b = some sh' ↔
      (sh.live = some t ∨ cfg.finishedSilent = false) ∧ sh' = { sh with log := sh.log ++ [(t, k, b)] } := by
  unfold rawWrite; split
  · rename_i h; simp only [Option.some.injEq, h, true_and]; exact eq_comm
  · rename_i h; simp [h]

theorem rawWrite_eq_none {cfg : Cfg} {sh : Sh} {t : Tid} {k : Kind} {b : Bytes} :
    rawWrite cfg sh t k b = none ↔ ¬(sh.live = some t ∨ cfg.finishedSilent = false) := by
  unfold rawWrite; split <;> simp_all

-- case analysis of `hs : stepPC cfg s t ch (s.pc t) = some s'` after `cases hp : s.pc t`
set_option hygiene false in
macro "cstep" hp:ident hs:ident : tactic => `(tactic|
  (rw [$hp:ident] at $hs:ident
   simp only [stepPC] at $hs:ident
   repeat' split at $hs:ident
   all_goals (first | (simp only [Option.some.injEq] at $hs:ident; subst $hs:ident) | (simp at $hs:ident; done))
   all_goals (try (rename_i heq; first | (rw [rawWrite_eq_some] at heq; obtain ⟨hw, heq⟩ := heq; subst heq)
                                       | rw [rawWrite_eq_none] at heq))))

theorem step_pc_other {cfg : Cfg} {s s' : St} {t ch : Nat} (hs : step cfg s t ch = some s')
    (u : Tid) (hu : u ≠ t) : s'.pc u = s.pc u := by
  unfold step at hs
  cases hp : s.pc t <;> cstep hp hs <;> simp [St.upd, St.setPc, hu]

theorem step_mu {cfg : Cfg} {s s' : St} {t ch : Nat} (hmu : cfg.useMu = true) (hs : step cfg s t ch = some s') :
    (s'.sh.mu = s.sh.mu ∧ inCrit (s'.pc t) = inCrit (s.pc t)) ∨
    (inCrit (s.pc t) = false ∧ s.sh.mu = none ∧ s'.sh.mu = some t ∧ inCrit (s'.pc t) = true) ∨
    (inCrit (s.pc t) = true ∧ s'.sh.mu = none ∧ inCrit (s'.pc t) = false) := by
  unfold step at hs
  cases hp : s.pc t <;> cstep hp hs <;> simp_all [St.upd, St.setPc, inCrit, Sh.release]

theorem step_wbuf {cfg : Cfg} {s s' : St} {t ch : Nat} (hs : step cfg s t ch = some s') :
    (s'.sh.wbuf = s.sh.wbuf ∧ (marshalled (s'.pc t) = true → marshalled (s.pc t) = true)) ∨
    ((s.pc t = .mStart ∨ s.pc t = .mFinish) ∧ (marshalled (s'.pc t) = true → s'.sh.wbuf = cfg.req t)) := by
  unfold step at hs
  cases hp : s.pc t <;> cstep hp hs <;> simp_all [St.upd, St.setPc, marshalled, Sh.release]

theorem step_log {cfg : Cfg} {s s' : St} {t ch : Nat} (hs : step cfg s t ch = some s') :
    s'.sh.log = s.sh.log ∨
    ∃ k b, s'.sh.log = s.sh.log ++ [(t, k, b)] ∧ (s.sh.live = some t ∨ cfg.finishedSilent = false) := by
  unfold step at hs
  cases hp : s.pc t <;> cstep hp hs <;> simp_all [St.upd, St.setPc, Sh.release]

theorem step_live {cfg : Cfg} {s s' : St} {t ch : Nat} (hs : step cfg s t ch = some s') :
    ((s'.sh.live = s.sh.live ∧ (hasStream (s.pc t) = true → s'.sh.live = some t → hasStream (s'.pc t) = true)) ∨
     (s.pc t = .newStream ∧ s.sh.live = none ∧ s'.sh.live = some t ∧ s'.sh.log = s.sh.log ∧
        hasStream (s'.pc t) = true) ∨
     (s.sh.live = some t ∧ s'.sh.live = none)) := by
  unfold step at hs
  cases hp : s.pc t <;> cstep hp hs <;> by_cases hl : s.sh.live = some t <;>
    simp_all [St.upd, St.setPc, hasStream, Sh.release]


/-! what one call puts on the wire -/

/-- `if len(metadata) > 0 { RawWrite(KindInvokeMetadata, metadata) }` -/
def Cfg.metaBlock (cfg : Cfg) (t : Tid) : List (Kind × Bytes) :=
  if (cfg.md t).isEmpty = true then [] else [(.invokeMetadata, cfg.md t)]
/-- the request: [metadata,] invoke, message -/
def Cfg.request (cfg : Cfg) (t : Tid) : List (Kind × Bytes) :=
  cfg.metaBlock t ++ [(.invoke, cfg.rpc t), (.message, cfg.req t)]
/-- … followed by CloseSend -/
def Cfg.body (cfg : Cfg) (t : Tid) : List (Kind × Bytes) := cfg.request t ++ [(.closeSend, [])]

/-- what thread `t` at position `p` has written (`m`) -/
def Sent (cfg : Cfg) (m : List (Kind × Bytes)) (t : Tid) : PC → Prop
  | .idle | .encMeta | .newStream | .statsLock | .statsUnlock | .lock | .mStart | .mFinish | .wMeta => m = []
  | .wInvoke => m = cfg.metaBlock t
  | .wMsg => m = cfg.metaBlock t ++ [(.invoke, cfg.rpc t)]
  | .closeSend => m = cfg.request t
  | .recv => m = cfg.request t ∨ m = cfg.body t
  | .unlock ok | .close ok => m <+: cfg.body t ∧ (ok = true → cfg.request t <+: m)
  | .done ok => ∃ p c, m = p ++ c ∧ p <+: cfg.body t ∧ (c = [] ∨ c = [(.close, [])]) ∧
      (ok = true → cfg.request t <+: p)

theorem Cfg.body_eq (cfg : Cfg) (t : Tid) :
    cfg.body t = cfg.metaBlock t ++ [(.invoke, cfg.rpc t), (.message, cfg.req t), (.closeSend, [])] := by
  simp [Cfg.body, Cfg.request]

theorem Cfg.pre0 (cfg : Cfg) (t : Tid) : cfg.metaBlock t <+: cfg.body t := by
  rw [cfg.body_eq]; exact List.prefix_append _ _
theorem Cfg.pre1 (cfg : Cfg) (t : Tid) : cfg.metaBlock t ++ [(.invoke, cfg.rpc t)] <+: cfg.body t := by
  rw [cfg.body_eq]; exact ⟨[(.message, cfg.req t), (.closeSend, [])], by simp⟩
theorem Cfg.pre2 (cfg : Cfg) (t : Tid) : cfg.request t <+: cfg.body t := List.prefix_append _ _

theorem step_sent_self {cfg : Cfg} {s s' : St} {t ch : Nat} (hmu : cfg.useMu = true)
    (hs : step cfg s t ch = some s')
    (hsent : Sent cfg (mine s.sh.log t) t (s.pc t))
    (hbuf : marshalled (s.pc t) = true → s.sh.wbuf = cfg.req t) :
    Sent cfg (mine s'.sh.log t) t (s'.pc t) := by
  unfold step at hs
  cases hp : s.pc t <;> rw [hp] at hsent hbuf <;> cstep hp hs <;>
    simp only [St.upd, St.setPc, Sh.release, if_true, mine_append_self, Sent] at hsent ⊢
  all_goals (first
    | exact hsent
    | exact ⟨_, [(.close, [])], rfl, hsent.1, Or.inr rfl, hsent.2⟩
    | exact ⟨_, [], (List.append_nil _).symm, hsent.1, Or.inl rfl, hsent.2⟩
    | (rcases hsent with hsent | hsent <;> rw [hsent] <;>
        first | exact ⟨cfg.pre2 t, by simp⟩ | exact ⟨List.prefix_refl _, by simp⟩)
    | (rw [hsent] <;>
       first
        | rfl | exact Or.inl rfl | exact Or.inr rfl
        | exact ⟨List.nil_prefix, by simp⟩ | exact ⟨cfg.pre0 t, by simp⟩ | exact ⟨cfg.pre1 t, by simp⟩
        | simp_all [Cfg.metaBlock, Cfg.request, marshalled]))


/-! the invariant (of the model with the mutex) -/

structure Inv (cfg : Cfg) (s : St) : Prop where
  crit : ∀ t, inCrit (s.pc t) = true → s.sh.mu = some t
  holder : ∀ t, s.sh.mu = some t → inCrit (s.pc t) = true
  buf : ∀ t, marshalled (s.pc t) = true → s.sh.wbuf = cfg.req t
  owner : ∀ t, s.sh.live = some t → hasStream (s.pc t) = true
  sent : ∀ t, Sent cfg (mine s.sh.log t) t (s.pc t)
  tail : cfg.finishedSilent = true → ∀ t, s.sh.live = some t → Tail t (tids s.sh.log)
  noaba : cfg.finishedSilent = true → NoABA (tids s.sh.log)

theorem inv_init (cfg : Cfg) : Inv cfg {} := by
  refine ⟨?_, ?_, ?_, ?_, ?_, ?_, ?_⟩
  · intro t h; simp [inCrit] at h
  · intro t h; simp at h
  · intro t h; simp [marshalled] at h
  · intro t h; simp at h
  · intro t; simp [Sent, mine]
  · intro _ t h; simp at h
  · intro _; exact NoABA.nil

theorem step_inv {cfg : Cfg} {s s' : St} {t ch : Nat} (hmu : cfg.useMu = true) (h : Inv cfg s)
    (hs : step cfg s t ch = some s') : Inv cfg s' := by
  have hpc := step_pc_other hs
  refine ⟨?_, ?_, ?_, ?_, ?_, ?_, ?_⟩
  · -- crit
    intro u hu
    by_cases hut : u = t
    · subst hut
      rcases step_mu hmu hs with ⟨e, c⟩ | ⟨_, _, e, _⟩ | ⟨_, _, c⟩
      · rw [e]; exact h.crit u (by rw [← c]; exact hu)
      · exact e
      · rw [c] at hu; cases hu
    · rw [hpc u hut] at hu
      have hm := h.crit u hu
      rcases step_mu hmu hs with ⟨e, _⟩ | ⟨_, e, _, _⟩ | ⟨c, _, _⟩
      · rw [e]; exact hm
      · rw [e] at hm; cases hm
      · have := h.crit t c; rw [this] at hm; cases hm; exact absurd rfl hut
  · -- holder
    intro u hu
    by_cases hut : u = t
    · subst hut
      rcases step_mu hmu hs with ⟨e, c⟩ | ⟨_, _, _, c⟩ | ⟨_, e, _⟩
      · rw [c]; exact h.holder u (by rw [← e]; exact hu)
      · exact c
      · rw [e] at hu; cases hu
    · rw [hpc u hut]
      rcases step_mu hmu hs with ⟨e, _⟩ | ⟨_, _, e, _⟩ | ⟨_, e, _⟩
      · exact h.holder u (by rw [← e]; exact hu)
      · rw [e] at hu; cases hu; exact absurd rfl hut
      · rw [e] at hu; cases hu
  · -- buf
    intro u hu
    by_cases hut : u = t
    · subst hut
      rcases step_wbuf hs with ⟨e, c⟩ | ⟨_, c⟩
      · rw [e]; exact h.buf u (c hu)
      · exact c hu
    · rw [hpc u hut] at hu
      rcases step_wbuf hs with ⟨e, _⟩ | ⟨c, _⟩
      · rw [e]; exact h.buf u hu
      · -- `t` is marshalling, so it holds the mutex; `u` is inside the critical section too
        exfalso
        have hu' : inCrit (s.pc u) = true := by revert hu; cases s.pc u <;> simp [marshalled, inCrit]
        have ht' : inCrit (s.pc t) = true := by rcases c with c | c <;> rw [c] <;> rfl
        have := h.crit u hu'; rw [h.crit t ht'] at this; cases this; exact absurd rfl hut
  · -- owner
    intro u hu
    by_cases hut : u = t
    · subst hut
      rcases step_live hs with ⟨e, c⟩ | ⟨_, _, _, _, c⟩ | ⟨_, e⟩
      · exact c (h.owner u (by rw [← e]; exact hu)) hu
      · exact c
      · rw [e] at hu; cases hu
    · rw [hpc u hut]
      rcases step_live hs with ⟨e, _⟩ | ⟨_, _, e, _, _⟩ | ⟨_, e⟩
      · exact h.owner u (by rw [← e]; exact hu)
      · rw [e] at hu; cases hu; exact absurd rfl hut
      · rw [e] at hu; cases hu
  · -- sent
    intro u
    by_cases hut : u = t
    · subst hut; exact step_sent_self hmu hs (h.sent u) (h.buf u)
    · rw [hpc u hut]
      rcases step_log hs with e | ⟨k, b, e, _⟩
      · rw [e]; exact h.sent u
      · rw [e, mine_append_other _ _ _ _ _ (fun h' => hut h'.symm)]; exact h.sent u
  · -- tail
    intro hf u hu
    have hnew : ∀ k b, s.sh.live = some t → Tail u (tids (s.sh.log ++ [(t, k, b)])) := by
      intro k b hl
      rcases step_live hs with ⟨e, _⟩ | ⟨_, e, _⟩ | ⟨_, e⟩
      · rw [e, hl] at hu; cases hu; rw [tids_append]; exact (h.tail hf _ hl).append
      · rw [e] at hl; cases hl
      · rw [e] at hu; cases hu
    rcases step_log hs with e | ⟨k, b, e, hl⟩
    · rw [e]
      rcases step_live hs with ⟨e', _⟩ | ⟨hp, _, e', _, _⟩ | ⟨_, e'⟩
      · exact h.tail hf u (by rw [← e']; exact hu)
      · rw [e'] at hu; cases hu
        have := h.sent t; rw [hp] at this
        exact Tail.of_not_mem (not_mem_tids_of_mine_nil this)
      · rw [e'] at hu; cases hu
    · rw [e]
      rcases hl with hl | hl
      · exact hnew k b hl
      · rw [hf] at hl; cases hl
  · -- noaba
    intro hf
    rcases step_log hs with e | ⟨k, b, e, hl⟩
    · rw [e]; exact h.noaba hf
    · rw [e, tids_append]
      rcases hl with hl | hl
      · exact (h.noaba hf).append (h.tail hf t hl)
      · rw [hf] at hl; cases hl


/-- the environment touches neither the mutex, nor the buffer, nor the wire -/
theorem env_frame {s s' : St} {e : Env} (hs : envStep s e = some s') :
    s'.sh.mu = s.sh.mu ∧ s'.sh.wbuf = s.sh.wbuf ∧ s'.sh.log = s.sh.log ∧
    (s'.sh.live = s.sh.live ∨ s'.sh.live = none) := by
  cases e <;> simp only [envStep] at hs <;> split at hs <;>
    first | (simp only [Option.some.injEq] at hs; subst hs; simp [St.setPc]) | simp at hs

/-- … and moves at most one thread: idle → encMeta, newStream → done, recv → unlock -/
theorem env_pc {s s' : St} {e : Env} (hs : envStep s e = some s') (u : Tid) :
    s'.pc u = s.pc u ∨ (s.pc u = .idle ∧ s'.pc u = .encMeta) ∨
    (s.pc u = .newStream ∧ s'.pc u = .done false) ∨
    (s.pc u = .recv ∧ s.sh.live = some u ∧ s'.sh.live = some u ∧ s'.pc u = .unlock true) := by
  cases e with
  | endStream =>
    simp only [envStep] at hs; split at hs
    · simp only [Option.some.injEq] at hs; subst hs; exact Or.inl rfl
    · simp at hs
  | call t | newStreamFails t | reply t =>
    simp only [envStep] at hs; split at hs
    · simp only [Option.some.injEq] at hs; subst hs; simp only [St.setPc]
      by_cases hu : u = t
      · subst hu; simp_all
      · simp [hu]
    · simp at hs

theorem env_inv {cfg : Cfg} {s s' : St} {e : Env} (h : Inv cfg s) (hs : envStep s e = some s') : Inv cfg s' := by
  obtain ⟨emu, ebuf, elog, elive⟩ := env_frame hs
  have hpc := env_pc hs
  refine ⟨?_, ?_, ?_, ?_, ?_, ?_, ?_⟩
  · intro u hu; rw [emu]; apply h.crit
    rcases hpc u with e | ⟨_, e⟩ | ⟨_, e⟩ | ⟨e, _, _, _⟩
    · rw [← e]; exact hu
    · rw [e] at hu; cases hu
    · rw [e] at hu; cases hu
    · rw [e]; rfl
  · intro u hu; rw [emu] at hu
    have := h.holder u hu
    rcases hpc u with e | ⟨e, _⟩ | ⟨e, _⟩ | ⟨_, _, _, e⟩
    · rw [e]; exact this
    · rw [e] at this; cases this
    · rw [e] at this; cases this
    · rw [e]; rfl
  · intro u hu; rw [ebuf]; apply h.buf
    rcases hpc u with e | ⟨_, e⟩ | ⟨_, e⟩ | ⟨_, _, _, e⟩
    · rw [← e]; exact hu
    · rw [e] at hu; cases hu
    · rw [e] at hu; cases hu
    · rw [e] at hu; cases hu
  · intro u hu
    have hl : s.sh.live = some u := by
      rcases elive with e | e
      · rw [← e]; exact hu
      · rw [e] at hu; cases hu
    have := h.owner u hl
    rcases hpc u with e | ⟨e, _⟩ | ⟨e, _⟩ | ⟨_, _, _, e⟩
    · rw [e]; exact this
    · rw [e] at this; cases this
    · rw [e] at this; cases this
    · rw [e]; rfl
  · intro u; rw [elog]
    have := h.sent u
    rcases hpc u with e | ⟨e0, e⟩ | ⟨e0, e⟩ | ⟨e0, _, _, e⟩
    · rw [e]; exact this
    · rw [e0] at this; rw [e]; exact this
    · rw [e0] at this; rw [e]; simp only [Sent] at this ⊢
      exact ⟨[], [], by simp [this], List.nil_prefix, Or.inl rfl, by simp⟩
    · rw [e0] at this; rw [e]; simp only [Sent] at this ⊢
      rcases this with m | m <;> rw [m]
      · exact ⟨cfg.pre2 u, fun _ => List.prefix_refl _⟩
      · exact ⟨List.prefix_refl _, fun _ => cfg.pre2 u⟩
  · intro hf u hu; rw [elog]
    rcases elive with e | e
    · exact h.tail hf u (by rw [← e]; exact hu)
    · rw [e] at hu; cases hu
  · intro hf; rw [elog]; exact h.noaba hf

theorem reach_inv {cfg : Cfg} {s : St} (hmu : cfg.useMu = true) (h : Reach cfg s) : Inv cfg s := by
  induction h with
  | init => exact inv_init cfg
  | step t ch _ hs ih => exact step_inv hmu ih hs
  | env e _ hs ih => exact env_inv ih hs

/-! executable schedules -/

inductive Act where
  | step (t : Tid) (ch : Nat)
  | env (e : Env)
deriving Repr

def run (cfg : Cfg) (s : St) : List Act → Option St
  | [] => some s
  | .step t ch :: as => match step cfg s t ch with
    | some s' => run cfg s' as
    | none => none
  | .env e :: as => match envStep s e with
    | some s' => run cfg s' as
    | none => none

theorem reach_run {cfg : Cfg} {s s' : St} (as : List Act) (h : Reach cfg s) (hr : run cfg s as = some s') :
    Reach cfg s' := by
  induction as generalizing s with
  | nil => simp only [run, Option.some.injEq] at hr; subst hr; exact h
  | cons a as ih =>
    cases a with
    | step t ch =>
      simp only [run] at hr
      split at hr
      · rename_i s1 hs; exact ih (Reach.step t ch h hs) hr
      · simp at hr
    | env e =>
      simp only [run] at hr
      split at hr
      · rename_i s1 hs; exact ih (Reach.env e h hs) hr
      · simp at hr

/-! progress vocabulary -/

/-- thread `t` can take a step (for some choice) -/
def Enabled (cfg : Cfg) (s : St) (t : Tid) : Prop := ∃ ch, (step cfg s t ch).isSome = true
/-- no thread can take a step: every thread is blocked, not started or has returned -/
def Stuck (cfg : Cfg) (s : St) : Prop := ∀ t, ¬Enabled cfg s t


/-! consequences and progress helpers -/

/-- what a thread has written is a prefix of its block, possibly followed by the KindClose of its
    deferred `stream.Close()` -/
theorem Sent.shape {cfg : Cfg} {m : List (Kind × Bytes)} {t : Tid} {p : PC} (h : Sent cfg m t p) :
    ∃ q c, m = q ++ c ∧ q <+: cfg.body t ∧ (c = [] ∨ c = [(.close, [])]) := by
  have mk : ∀ {m : List (Kind × Bytes)}, m <+: cfg.body t →
      ∃ q c, m = q ++ c ∧ q <+: cfg.body t ∧ (c = [] ∨ c = [(.close, [])]) :=
    fun {m} hm => ⟨m, [], (List.append_nil _).symm, hm, Or.inl rfl⟩
  cases p <;> simp only [Sent] at h
  case done ok => obtain ⟨q, c, a, b, d, _⟩ := h; exact ⟨q, c, a, b, d⟩
  case unlock ok => exact mk h.1
  case close ok => exact mk h.1
  case recv => rcases h with h | h <;> rw [h]; exact mk (cfg.pre2 t); exact mk (List.prefix_refl _)
  case closeSend => rw [h]; exact mk (cfg.pre2 t)
  case wMsg => rw [h]; exact mk (cfg.pre1 t)
  case wInvoke => rw [h]; exact mk (cfg.pre0 t)
  all_goals (rw [h]; exact mk List.nil_prefix)

/-- positions at which a thread may have to wait (or has nothing to do) -/
def blocking : PC → Bool
  | .idle | .done _ | .newStream | .statsLock | .lock | .recv => true
  | _ => false

theorem enabled_of_not_blocking (cfg : Cfg) (s : St) (t : Tid) (h : blocking (s.pc t) = false) :
    (step cfg s t 0).isSome = true := by
  unfold step
  cases hp : s.pc t <;> rw [hp] at h <;> simp [blocking] at h <;> simp only [stepPC] <;>
    (repeat' split) <;> simp

theorem crit_enabled (cfg : Cfg) (s : St) (t : Tid) (hc : inCrit (s.pc t) = true) (hl : s.sh.live ≠ some t) :
    (step cfg s t 0).isSome = true := by
  cases hp : s.pc t with
  | recv => simp [step, stepPC, hp, hl]
  | idle | done ok | newStream | statsLock | lock | encMeta | close ok => rw [hp] at hc; simp [inCrit] at hc
  | statsUnlock | mStart | mFinish | wMeta | wInvoke | wMsg | closeSend | unlock ok =>
    exact enabled_of_not_blocking cfg s t (by rw [hp]; rfl)

/-- the buffer changes only in the two Marshal steps -/
theorem step_wbuf_changes {cfg : Cfg} {s s' : St} {t ch : Nat} (hs : step cfg s t ch = some s')
    (hne : s'.sh.wbuf ≠ s.sh.wbuf) :
    (s.pc t = .mStart ∧ s'.pc t = .mFinish) ∨
    (s.pc t = .mFinish ∧ (s'.pc t = .wMeta ∨ s'.pc t = .unlock false)) := by
  unfold step at hs
  cases hp : s.pc t <;> cstep hp hs <;> simp_all [St.upd, St.setPc, Sh.release]


/-! from "no ABA" to "concatenation of per-call blocks" -/

theorem NoABA.suffix {p0 l : List Tid} (h : NoABA (p0 ++ l)) : NoABA l := by
  intro p q r a b e hne
  exact h (p0 ++ p) q r a b (by rw [e]; simp) hne

theorem dropWhile_head_false {α : Type} (p : α → Bool) : ∀ (l : List α) (b : α) (r : List α),
    l.dropWhile p = b :: r → p b = false
  | [], b, r, h => by simp at h
  | x :: l, b, r, h => by
    rw [List.dropWhile_cons] at h
    split at h
    · exact dropWhile_head_false p l b r h
    · rename_i hx; cases h; simpa using hx

theorem mem_takeWhile_true {α : Type} (p : α → Bool) : ∀ (l : List α) (y : α), y ∈ l.takeWhile p → p y = true
  | [], y, h => by simp at h
  | x :: l, y, h => by
    rw [List.takeWhile_cons] at h
    split at h
    · rename_i hx
      simp only [List.mem_cons] at h
      rcases h with rfl | h
      · exact hx
      · exact mem_takeWhile_true p l y h
    · simp at h

theorem flatMap_congr_mem {α β : Type} (f g : α → List β) : ∀ (l : List α), (∀ a ∈ l, f a = g a) →
    l.flatMap f = l.flatMap g
  | [], _ => rfl
  | a :: l, h => by
    simp only [List.flatMap_cons]
    rw [h a (by simp), flatMap_congr_mem f g l (fun b hb => h b (by simp [hb]))]

/-- a log without ABA pattern is the concatenation, over distinct threads, of each thread's entries -/
theorem blocks_of_noABA {α : Type} : ∀ (n : Nat) (l : List (Tid × α)), l.length ≤ n → NoABA (l.map (·.1)) →
    ∃ order : List Tid, order.Nodup ∧ (∀ t ∈ order, t ∈ l.map (·.1)) ∧
      l = order.flatMap (fun t => l.filter (fun e => e.1 == t))
  | _, [], _, _ => ⟨[], List.nodup_nil, by simp, rfl⟩
  | 0, _ :: _, hl, _ => by simp at hl
  | n+1, (a, x) :: l', hl, h => by
    have e : l' = l'.takeWhile (fun y => y.1 == a) ++ l'.dropWhile (fun y => y.1 == a) :=
      List.takeWhile_append_dropWhile.symm
    generalize hrun : l'.takeWhile (fun y => y.1 == a) = run at e
    generalize hrest : l'.dropWhile (fun y => y.1 == a) = rest at e
    have hrunA : ∀ y ∈ run, (y.1 == a) = true := by
      intro y hy; rw [← hrun] at hy; exact mem_takeWhile_true _ l' y hy
    have hrestA : a ∉ rest.map (·.1) := by
      cases hr : rest with
      | nil => simp
      | cons by' r =>
        obtain ⟨b, y⟩ := by'
        have hb : (b == a) = false := dropWhile_head_false _ l' (b, y) r (by rw [hrest, hr])
        have hba : b ≠ a := by simpa using hb
        have := h [] (run.map (·.1)) (r.map (·.1)) a b (by simp [e, hr]) hba
        simp only [List.map_cons, List.mem_cons, not_or]
        exact ⟨fun e' => hba e'.symm, this⟩
    have hlen : rest.length ≤ n := by
      have : l'.length = run.length + rest.length := by rw [e]; simp
      simp at hl; omega
    have hno : NoABA (rest.map (·.1)) := by
      apply NoABA.suffix (p0 := a :: run.map (·.1))
      have : ((a, x) :: l').map (·.1) = (a :: run.map (·.1)) ++ rest.map (·.1) := by simp [e]
      rw [← this]; exact h
    obtain ⟨order, hnd, hmem, hflat⟩ := blocks_of_noABA n rest hlen hno
    have hao : a ∉ order := fun ha => hrestA (hmem a ha)
    refine ⟨a :: order, List.nodup_cons.mpr ⟨hao, hnd⟩, ?_, ?_⟩
    · intro t ht
      simp only [List.mem_cons] at ht
      rcases ht with rfl | ht
      · simp
      · have := hmem t ht
        simp only [List.map_cons, List.mem_cons, e, List.map_append, List.mem_append]
        exact Or.inr (Or.inr this)
    · have hA : ((a, x) :: l').filter (fun y => y.1 == a) = (a, x) :: run := by
        have h1 : run.filter (fun y => y.1 == a) = run := List.filter_eq_self.mpr hrunA
        have h2 : rest.filter (fun y => y.1 == a) = [] := by
          apply List.filter_eq_nil_iff.mpr
          intro y hy hya
          exact hrestA (by simp only [List.mem_map]; exact ⟨y, hy, by simpa using hya⟩)
        simp [e, h1, h2]
      have hO : ∀ t ∈ order, ((a, x) :: l').filter (fun y => y.1 == t) = rest.filter (fun y => y.1 == t) := by
        intro t ht
        have hta : t ≠ a := fun e' => hao (e' ▸ ht)
        have h1 : run.filter (fun y => y.1 == t) = [] := by
          apply List.filter_eq_nil_iff.mpr
          intro y hy hyt
          have := hrunA y hy
          simp at this hyt; exact hta (hyt.symm.trans this)
        have hat : (a == t) = false := by simpa using fun e' => hta e'.symm
        simp [e, h1, hat]
      simp only [List.flatMap_cons]
      rw [hA, flatMap_congr_mem _ _ order hO, ← hflat, e]; simp

theorem filter_eq_mine (log : List Entry) (t : Tid) :
    log.filter (fun e => e.1 == t) = (mine log t).map (fun e => (t, e)) := by
  simp only [mine, List.map_map]
  induction log with
  | nil => rfl
  | cons y l ih =>
    simp only [List.filter_cons]
    split
    · rename_i hy; simp only [List.map_cons, ← ih]
      have : y.1 = t := by simpa using hy
      rw [← this]; rfl
    · exact ih

end Drpc.ConnInvoke
