import Drpc.Lemmas.ManagerSysSimM
/-
  Simulation, part "semaphore": what the checker state looks like while a thread holds the stream
  semaphore (`SimS`): the events `sem.acq`, `prev.*`, `stream.new.*`, `sem.rel` lag or lead the actions.
-/
set_option linter.unusedSimpArgs false
set_option linter.unusedVariables false
namespace Drpc.Manager.Sys
open Drpc.Manager

theorem HF_congr {sh sh' : Sh} {ps : PS} (h1 : sh'.sbufCur = sh.sbufCur) (h2 : sh'.sbufClosed = sh.sbufClosed)
    (h3 : sh'.invoked = sh.invoked) (q : PC) : HF sh' ps q ↔ HF sh ps q := by
  cases q <;> simp only [HF, h1, h2, h3]

/-- a step that leaves the semaphore, `m.streams` and the holder status of the thread alone -/
theorem simS_step {s : St} {t : Tid} {sh' : Sh} {p' : PC} {ps ps' : PS} (hi : SimS s ps)
    (hch : sh'.streamsCh = s.sh.streamsCh) (hsem : sh'.sem = s.sh.sem) (hpsem : ps'.sem = ps.sem)
    (hq : ps.sem = false → QuietP ps → QuietP ps')
    (hh : holds s.sh p' = holds s.sh (s.pc t))
    (hstab : ∀ u, u ≠ t → holds s.sh (s.pc u) = true → HF s.sh ps (s.pc u) → HF sh' ps' (s.pc u))
    (hown : holds s.sh (s.pc t) = true → HF s.sh ps (s.pc t) → HF sh' ps' p') : SimS (s.upd t sh' p') ps' := by
  refine ⟨?_, ?_, ?_⟩
  · intro u hu
    simp only [upd_sh] at hu ⊢
    rw [holds_congr hch] at hu
    rw [upd_pc] at hu ⊢
    split
    · rename_i hut
      rw [if_pos hut] at hu
      rw [hh] at hu
      exact hown hu (hi.hf t hu)
    · rename_i hut
      rw [if_neg hut] at hu
      exact hstab u hut hu (hi.hf u hu)
  · intro h
    simp only [upd_sh]
    rw [hsem]; exact hi.h3 (hpsem ▸ h)
  · intro h
    rw [hpsem] at h
    exact hq h (hi.g3 h)

theorem holds_failHolding (sh : Sh) (c : Call) : holds sh (failHolding c) = (c == .server) := by cases c <;> rfl

theorem HF_mono {sh sh' : Sh} {ps : PS} (h1 : sh'.sbufCur = sh.sbufCur)
    (h2 : sh.sbufClosed = true → sh'.sbufClosed = true) (h3 : sh.invoked ≤ sh'.invoked) (q : PC) :
    HF sh ps q → HF sh' ps q := by
  cases q <;> simp only [HF, h1] <;> try exact id
  case sGot p => intro h; exact ⟨h.1, h.2.1, h.2.2.1, h.2.2.2.1, fun hk => ⟨(h.2.2.2.2 hk).1, Nat.le_trans (h.2.2.2.2 hk).2 h3⟩⟩
  case nNew c sid | nEvBegin c sid =>
    intro h; exact ⟨h.1, h.2.1, h.2.2.1, h.2.2.2.1, h.2.2.2.2.1, fun hk => Nat.le_trans (h.2.2.2.2.2 hk) h3⟩
  case nEvEnd c sid => intro h; exact ⟨h.1, h.2.1, h.2.2.imp id (fun h' => ⟨h2 h'.1, h'.2⟩)⟩

/-- the reader reports a dispatch decision: only the window changes -/
theorem HF_afterRead {sh sh' : Sh} {ps : PS} {ok : Nat → Bool} (hv : Inv ps)
    (hw : ∃ c ∈ ps.window, ok c = true ∧ c ≤ sh.sbufCur) (h1 : sh'.sbufCur = sh.sbufCur)
    (h2 : sh'.sbufClosed = sh.sbufClosed) (h3 : sh.invoked ≤ sh'.invoked) (q : PC) :
    HF sh ps q → HF sh' (ps.afterRead ok) q := by
  intro h
  have h' := HF_mono (ps := ps) h1 (fun x => h2 ▸ x) h3 q h
  cases q <;> try exact h'
  case nSet c sid =>
    simp only [HF] at h h' ⊢
    refine ⟨h.1, h.2.1, h'.2.2.1, ?_⟩
    rw [mem_afterRead_window]
    obtain ⟨c', hc1, hc2, hc3⟩ := hw
    refine ⟨mem_currs.2 (Or.inr h.2.1), c', hc1, hc2, ?_⟩
    have := (hv.pendIn sid h.2.1).2
    rw [h.2.2.1] at hc3
    omega

theorem others_false {s : St} {t : Tid} {sh' : Sh} (hs : Sem s) (hht : holds s.sh (s.pc t) = true)
    (hch : sh'.streamsCh = s.sh.streamsCh) : ∀ u, u ≠ t → holds sh' (s.pc u) = false := by
  intro u hu
  rw [holds_congr hch]
  cases hx : holds s.sh (s.pc u) with
  | false => rfl
  | true => exact absurd (hs.uniq u t hx hht) hu

theorem others_false' {s : St} {t : Tid} {sh' : Sh} {p' : PC} (hs' : Sem (s.upd t sh' p'))
    (ht' : holds sh' p' = true) : ∀ u, u ≠ t → holds sh' (s.pc u) = false := by
  intro u hu
  cases hx : holds sh' (s.pc u) with
  | false => rfl
  | true =>
    have h1 : holds (s.upd t sh' p').sh ((s.upd t sh' p').pc u) = true := by
      rw [upd_pc_ne _ _ _ hu]; exact hx
    have h2 : holds (s.upd t sh' p').sh ((s.upd t sh' p').pc t) = true := by
      rw [upd_pc_self]; exact ht'
    exact absurd (hs'.uniq u t h1 h2) hu

/-- a step of the holder of the semaphore -/
theorem simS_holder {s : St} {t : Tid} {sh' : Sh} {p' : PC} {ps' : PS}
    (hoth : ∀ u, u ≠ t → holds sh' (s.pc u) = false)
    (hnew : holds sh' p' = true → HF sh' ps' p') (h3 : ps'.sem = true → sh'.sem = true)
    (g3 : ps'.sem = false → QuietP ps') : SimS (s.upd t sh' p') ps' := by
  refine ⟨?_, h3, g3⟩
  intro u hu
  simp only [upd_sh] at hu ⊢
  rw [upd_pc] at hu ⊢
  split
  · rename_i hut; rw [if_pos hut] at hu; exact hnew hu
  · rename_i hut; rw [if_neg hut] at hu; rw [hoth u hut] at hu; cases hu

theorem HF_sfin {sh : Sh} {ps : PS} {sid : Sid} (q : PC) (hq : offSid q ≠ some sid) :
    HF sh ps q → HF sh { ps with sfin := ps.sfin ++ [sid] } q := by
  cases q <;> try exact id
  all_goals
    simp only [HF, List.mem_append, List.mem_singleton, not_or]
    simp only [offSid, ne_eq, Option.some.injEq] at hq
    intro h
    exact ⟨h.1, h.2.1, h.2.2.1, h.2.2.2.1, h.2.2.2.2.1, h.2.2.2.2.2, hq⟩

theorem simS_tr {s : St} {t : Tid} {p : PC} {sh' : Sh} {p' : PC} {ps ps' : PS} {role : Call}
    (hs : Safe s) (hs' : Sem (s.upd t sh' p')) (hv : Inv ps) (hi : SimS s ps) (hm : SimM s ps) (hr : SimR s ps)
    (hN : SimN role s ps) (hp : s.pc t = p) (hstep : ∀ c, p = .aSel c → p' = .aEvAcq c → ¬ stale s)
    (h : Tr s t p sh' p') (hn : psNext ps p = some ps') : SimS (s.upd t sh' p') ps' := by
  have hwf := (hs.typ t).2
  rw [hp] at hwf
  cases h
  case rDeliver pk c h1 h2 =>
    ps_cases_deliver hn h1 h2
    have hr1 := hr.r1 t pk c hp
    refine simS_step hi rfl rfl rfl (fun _ h => h) (by rw [hp]; rfl) ?_ (by rw [hp]; intro h; cases h)
    intro u _ _ h
    exact HF_afterRead hv ⟨c, hr1.1, by simp [h2], hr1.2⟩ rfl rfl (Nat.le_refl _) _ h
  case rDrop pk c h1 h2 =>
    ps_cases_drop hn h1 h2
    have hr1 := hr.r1 t pk c hp
    refine simS_step hi rfl rfl rfl (fun _ h => h) (by rw [hp]; rfl) ?_ (by rw [hp]; intro h; cases h)
    intro u _ _ h
    exact HF_afterRead hv ⟨c, hr1.1, by simpa using h2, hr1.2⟩ rfl rfl (Nat.le_refl _) _ h
  case rNewer h1 =>
    ps_cases_newer hn h1
    exact simS_step hi rfl rfl rfl (fun _ h => h) (by rw [hp]; rfl) (fun u _ _ h => h) (by rw [hp]; intro h; cases h)
  all_goals ps_cases hn
  all_goals
    first
    | exact simS_step hi rfl rfl rfl (fun _ h => h)
        (by rw [hp]; first | rfl | exact holds_afterTerminate _ _ | exact holds_afterCancel _ _ _)
        (fun u _ _ h => (HF_congr rfl rfl rfl _).2 h)
        (by rw [hp]; first | (intro h; cases h; done) | exact fun _ h => h)
    | skip
  case rEvQueueInv.isTrue.refl pk hk hg =>
    obtain ⟨c, hc1, hc2, hc3⟩ := hr.r2 t pk (by rw [hp]; rfl)
    have hinv := hN.n4 t pk (by rw [hp]; rfl) hk
    refine simS_step hi rfl rfl rfl (fun _ h => h) (by rw [hp]; rfl) ?_ (by rw [hp]; intro h; cases h)
    intro u _ _ h
    exact HF_afterRead (sh := s.sh) (ok := fun x => decide (x < pk.sid)) hv ⟨c, hc1, by simpa using hc2, hc3⟩ (by rfl) (by rfl)
      (by exact Nat.le_of_lt hinv) _ h
  case rEvQueueMeta.isTrue.refl pk hk hg | rEvOrphan.isTrue.refl pk hg | rEvWait.isTrue.refl pk c0 hg =>
    obtain ⟨c, hc1, hc2, hc3⟩ := hr.r2 t pk (by rw [hp]; rfl)
    refine simS_step hi rfl rfl rfl (fun _ h => h) (by rw [hp]; rfl) ?_ (by rw [hp]; intro h; cases h)
    intro u _ _ h
    exact HF_afterRead hv ⟨c, hc1, by simpa using hc2, hc3⟩ rfl rfl (Nat.le_refl _) _ h
  case tSetAlready.refl k _ =>
    refine simS_step hi rfl rfl rfl (fun _ h => h) (by rw [hp]; exact holds_afterTerminate _ _)
      (fun u _ _ h => h) ?_
    rw [hp]; cases k <;> first | (intro h; cases h; done) | exact fun _ h => h
  case tSbuf.refl k =>
    refine simS_step hi rfl rfl rfl (fun _ h => h) (by rw [hp]; exact holds_afterTerminate _ _) ?_ ?_
    · intro u _ _ h
      exact HF_mono (sh := s.sh) (by rfl) (fun _ => by rfl) (by exact Nat.le_refl _) _ h
    · rw [hp]; cases k <;> first | (intro h; cases h; done) | exact fun _ h => h
  case xCancelFin.refl sid k _ =>
    refine simS_step hi rfl rfl rfl (fun _ h => h) (by rw [hp]; exact holds_afterCancel _ _ _)
      (fun u _ _ h => h) ?_
    rw [hp]; cases k <;> first | (intro h; cases h; done) | exact fun _ h => h
  case xCancelLater.refl sid k _ =>
    refine simS_step hi rfl rfl rfl (fun _ h => h) (by rw [hp]; exact holds_afterCancel _ _ _)
      (fun u _ _ h => (HF_congr rfl rfl rfl _).2 h) ?_
    rw [hp]; cases k <;> first | (intro h; cases h; done) | exact fun _ h => h
  case xTok.refl sid k _ =>
    refine simS_step hi rfl rfl rfl (fun _ h => h) (by rw [hp]; exact holds_afterCancel _ _ _)
      (fun u _ _ h => (HF_congr rfl rfl rfl _).2 h) ?_
    rw [hp]; cases k <;> first | (intro h; cases h; done) | exact fun _ h => h
  case mTopTake.refl sid hsid =>
    obtain ⟨a, c, hc⟩ := hs.sem.chOffer sid hsid
    have hha : holds s.sh (s.pc a) = true := by rw [hc]; simp [holds, hsid]
    have hf := hi.hf a hha
    rw [hc] at hf
    refine simS_holder (others_false' hs' (by rfl)) ?_ (fun _ => hs.sem.held a hha) ?_
    · intro _; exact ⟨hf.1, hf.2.1, Or.inr (by rw [hf.2.2.1]; exact hf.2.2.2.1)⟩
    · intro h; rw [hf.1] at h; cases h
  case mEvSfinRel.isTrue.refl sid hg =>
    have hht : holds s.sh (s.pc t) = true := by rw [hp]; rfl
    have hf := hi.hf t hht
    rw [hp] at hf
    exact simS_holder (others_false hs.sem hht rfl) (fun _ => hf) (fun _ => hs.sem.held t hht)
      (by intro h; rw [hf.1] at h; cases h)
  case mEvSfinTop.isTrue.refl sid hg =>
    refine simS_step hi rfl rfl rfl (fun _ h => h) (by rw [hp]; rfl) ?_ (by rw [hp]; intro h; cases h)
    intro u _ hu h
    exact HF_sfin _ (hm.m3 t u sid (by rw [hp]; rfl) hu) h
  case mEvRel.isTrue.refl hg | aFailEvRel.isTrue.refl hg | sFailEvRel.isTrue.refl hg =>
    have hht : holds s.sh (s.pc t) = true := by rw [hp]; rfl
    exact simS_holder (others_false hs.sem hht rfl) (fun _ => rfl) (fun h => by cases h) (fun _ => ⟨hg.2.1, hg.2.2⟩)
  case mRel.refl _ | aFailRel.refl _ | sFailRel.refl _ =>
    have hht : holds s.sh (s.pc t) = true := by rw [hp]; rfl
    have hf := hi.hf t hht
    rw [hp] at hf
    exact simS_holder (others_false hs.sem hht rfl) (by intro h; cases h)
      (by intro h; rw [show ps.sem = false from hf] at h; cases h) hi.g3
  case aSelAcq.refl c hfree =>
    have hps : ps.sem = false := by
      cases hx : ps.sem with
      | false => rfl
      | true => have := hi.h3 hx; rw [hfree] at this; cases this
    have hq := hi.g3 hps
    refine simS_holder (others_false' hs' (by rfl)) ?_ (fun _ => rfl) (fun _ => hq)
    intro _
    refine ⟨hps, ?_⟩
    have hns := hstep c rfl rfl
    have hcur : ps.currs = [ps.curr] := by simp [PS.currs, hq.1]
    have hnew : ps.newest = ps.curr := by simp [PS.newest, hq.1]
    have h5 := hr.g5
    rw [hnew] at h5
    rcases hr.g4 with h4 | h4
    · rw [hcur] at h4; simpa using h4
    · by_cases heq : s.sh.sbufCur = ps.curr
      · exact heq
      · exfalso
        apply hns
        have hlt : s.sh.sbufCur < ps.curr := by somega
        exact ⟨ps.curr, hr.g2 (by somega), hlt⟩
  case aEvAcq.isFalse.refl c hg =>
    have hht : holds s.sh (s.pc t) = true := by rw [hp]; rfl
    have hf := hi.hf t hht
    rw [hp] at hf
    exact simS_holder (others_false hs.sem hht rfl) (fun _ => ⟨rfl, hi.g3 hf.1, hf.2⟩) (fun _ => hs.sem.held t hht)
      (by intro h; cases h)
  all_goals
    have hht : holds s.sh (s.pc t) = true ∨ True := Or.inr trivial
  case aPrevNone.refl c h0 =>
    have hht : holds s.sh (s.pc t) = true := by rw [hp]; rfl
    have hf := hi.hf t hht
    rw [hp] at hf
    exact simS_holder (others_false hs.sem hht rfl) (fun _ => ⟨hf.1, hf.2.1, hf.2.2, by rw [← hf.2.2]; exact h0⟩)
      hi.h3 hi.g3
  case aPrevSome.refl c h0 =>
    have hht : holds s.sh (s.pc t) = true := by rw [hp]; rfl
    have hf := hi.hf t hht
    rw [hp] at hf
    exact simS_holder (others_false hs.sem hht rfl) (fun _ => ⟨hf.1, hf.2.1, hf.2.2, hf.2.2, h0⟩) hi.h3 hi.g3
  case aEvPrevNone.isTrue.refl c hg =>
    have hht : holds s.sh (s.pc t) = true := by rw [hp]; rfl
    have hf := hi.hf t hht
    rw [hp] at hf
    exact simS_holder (others_false hs.sem hht rfl) (fun _ => ⟨hf.1, rfl, hf.2.1, hf.2.2.1⟩)
      (fun _ => hs.sem.held t hht) (by intro h; rw [show ps.sem = true from hf.1] at h; cases h)
  case aPrevSelFail.refl c q _ =>
    have hht : holds s.sh (s.pc t) = true := by rw [hp]; rfl
    have hf := hi.hf t hht
    rw [hp] at hf
    exact simS_holder (others_false hs.sem hht rfl) (fun _ => ⟨hf.1, hf.2.1⟩) hi.h3 hi.g3
  case aEvPrevDone.isTrue.refl c q hg =>
    have hht : holds s.sh (s.pc t) = true := by rw [hp]; rfl
    have hf := hi.hf t hht
    rw [hp] at hf
    exact simS_holder (others_false hs.sem hht rfl) (fun _ => ⟨hf.1, rfl, hf.2.1, hf.2.2.1⟩)
      (fun _ => hs.sem.held t hht) (by intro h; rw [show ps.sem = true from hf.1] at h; cases h)
  case aGotClient.refl =>
    have hht : holds s.sh (s.pc t) = true := by rw [hp]; rfl
    have hf := hi.hf t hht
    rw [hp] at hf
    exact simS_holder (others_false hs.sem hht rfl)
      (fun _ => ⟨hf.1, hf.2.1, hf.2.2.1.1, hf.2.2.2, by rw [hf.2.2.2]; exact Nat.lt_succ_self _, by intro h; cases h⟩)
      hi.h3 hi.g3
  case aGotClose.refl => exact absurd hwf (by simp [wfPC])
  case sSelTake.refl q hq =>
    have hht : holds s.sh (s.pc t) = true := by rw [hp]; rfl
    have hf := hi.hf t hht
    rw [hp] at hf
    have hrole := hN.callRole t .server (by rw [hp]; rfl)
    refine simS_holder (others_false hs.sem hht rfl) (fun _ => ⟨hf.1, hf.2.1, hf.2.2.1, hf.2.2.2, ?_⟩) hi.h3 hi.g3
    intro hk
    have := hN.n3 hrole.symm q (Or.inl hq) hk
    have hnew : ps.newest = ps.curr := by simp [PS.newest, hf.2.2.1.1]
    rw [hnew] at this
    exact ⟨this.2.1, Nat.le_of_eq this.1⟩
  case sSelFail.refl _ =>
    have hht : holds s.sh (s.pc t) = true := by rw [hp]; rfl
    have hf := hi.hf t hht
    rw [hp] at hf
    exact simS_holder (others_false hs.sem hht rfl) (fun _ => ⟨hf.1, hf.2.2.1⟩) hi.h3 hi.g3
  case sGotMeta.refl q _ _ | sGotOther.refl q _ _ =>
    have hht : holds s.sh (s.pc t) = true := by rw [hp]; rfl
    have hf := hi.hf t hht
    rw [hp] at hf
    exact simS_holder (others_false hs.sem hht rfl) (fun _ => ⟨hf.1, hf.2.1, hf.2.2.1, hf.2.2.2.1⟩) hi.h3 hi.g3
  case sGotMetaBad.refl q _ _ =>
    have hht : holds s.sh (s.pc t) = true := by rw [hp]; rfl
    have hf := hi.hf t hht
    rw [hp] at hf
    exact simS_holder (others_false hs.sem hht rfl) (fun _ => ⟨hf.1, hf.2.2.1⟩) hi.h3 hi.g3
  case sGotInvoke.refl q _ hk =>
    have hht : holds s.sh (s.pc t) = true := by rw [hp]; rfl
    have hf := hi.hf t hht
    rw [hp] at hf
    exact simS_holder (others_false hs.sem hht rfl)
      (fun _ => ⟨hf.1, hf.2.1, hf.2.2.1.1, hf.2.2.2.1, (hf.2.2.2.2 hk).1, fun _ => (hf.2.2.2.2 hk).2⟩) hi.h3 hi.g3
  case nEvBegin.isTrue.refl c sid hg =>
    have hht : holds s.sh (s.pc t) = true := by rw [hp]; rfl
    have hf := hi.hf t hht
    rw [hp] at hf
    exact simS_holder (others_false hs.sem hht rfl) (fun _ => ⟨hf.1, rfl, hf.2.2.2.1, by simp⟩)
      (fun _ => hs.sem.held t hht) (by intro h; rw [show ps.sem = true from hf.1] at h; cases h)
  case nSetClosed.refl c sid hcl =>
    have hht : holds s.sh (s.pc t) = true := by rw [hp]; rfl
    have hf := hi.hf t hht
    rw [hp] at hf
    exact simS_holder (others_false hs.sem hht rfl) (fun _ => ⟨hf.1, hf.2.1, Or.inr ⟨hcl, hf.2.2.1⟩⟩) hi.h3 hi.g3
  case nSetStore.refl c sid hcl =>
    have hht : holds s.sh (s.pc t) = true := by rw [hp]; rfl
    have hf := hi.hf t hht
    rw [hp] at hf
    exact simS_holder (others_false hs.sem hht rfl) (fun _ => ⟨hf.1, hf.2.1, Or.inl rfl⟩) hi.h3 hi.g3
  case nEvEnd.isTrue.refl c sid hg =>
    have hht : holds s.sh (s.pc t) = true := by rw [hp]; rfl
    have hf := hi.hf t hht
    rw [hp] at hf
    have hpi := hv.pendIn sid hg
    refine simS_holder (others_false hs.sem hht rfl) (fun _ => ⟨hf.1, rfl, rfl, hpi.1, ?_⟩)
      (fun _ => hs.sem.held t hht) (by intro h; rw [show ps.sem = true from hf.1] at h; cases h)
    intro hin
    have := (hv.offSub sid hin).2
    omega
  case nEvOffer.isTrue.refl c sid hg =>
    have hht : holds s.sh (s.pc t) = true := by rw [hp]; rfl
    have hf := hi.hf t hht
    rw [hp] at hf
    refine simS_holder (others_false hs.sem hht rfl) (fun _ => ⟨hf.1, hf.2.1, hf.2.2.1, by simp, ?_, ?_⟩)
      (fun _ => hs.sem.held t hht) (by intro h; rw [show ps.sem = true from hf.1] at h; cases h)
    · intro hin; exact hf.2.2.2.2 (hv.retrSub sid hin).1
    · intro hin; exact hf.2.2.2.2 (hv.sfinSub sid hin)
  case nOfferOffer.refl c sid hnone =>
    have hht : holds s.sh (s.pc t) = true := by rw [hp]; rfl
    have hf := hi.hf t hht
    rw [hp] at hf
    exact simS_holder (others_false' hs' (by simp [holds])) (fun _ => hf) hi.h3 hi.g3
  case nOfferedRetract.refl c sid hsome _ =>
    have hht : holds s.sh (s.pc t) = true := by rw [hp]; simp [holds, hsome]
    have hf := hi.hf t hht
    rw [hp] at hf
    exact simS_holder (others_false' hs' (by rfl)) (fun _ => hf) hi.h3 hi.g3
  case nOfferedTaken.refl c sid hne =>
    exact simS_step hi rfl rfl rfl (fun _ h => h) (by rw [hp]; simp [holds, hne]) (fun u _ _ h => h)
      (by rw [hp]; intro h; simp [holds, hne] at h)
  case nEvRetract.isTrue.refl c sid hg =>
    have hht : holds s.sh (s.pc t) = true := by rw [hp]; rfl
    have hf := hi.hf t hht
    rw [hp] at hf
    refine simS_holder (others_false hs.sem hht rfl) ?_ (fun _ => hs.sem.held t hht)
      (by intro h; rw [show ps.sem = true from hf.1] at h; cases h)
    intro hh
    cases c
    · cases hh
    · exact ⟨hf.1, hf.2.1, Or.inr (by rw [hf.2.2.1]; exact hf.2.2.2.1)⟩
    · cases hh

theorem simS_etr {s : St} {t : Tid} {sh' : Sh} {p' : PC} {ps : PS} (hi : SimS s ps) (h : ETr s t sh' p') :
    SimS (s.upd t sh' p') ps := by
  cases h
  all_goals
    first
    | exact simS_step hi rfl rfl rfl (fun _ h => h) rfl (fun u _ _ h => (HF_congr rfl rfl rfl _).2 h)
        (fun _ h => (HF_congr rfl rfl rfl _).2 h)
    | exact simS_step hi rfl rfl rfl (fun _ h => h) (by simp [*, holds, TK.hold]) (fun u _ _ h => h)
        (by simp [*, holds])
    | skip

end Drpc.Manager.Sys
