import Drpc.Pool
/-
  Helper lemmas for C15: the invariant of the pool model (`Inv`) and its preservation by every
  operation and event of `Drpc/Pool.lean`.  The property theorems are in `Drpc/Props/C15.lean`.
-/
namespace Drpc.Pool

theorem mem_filter_ne {l : List Nat} {e x : Nat} : x ∈ l.filter (fun y => y != e) ↔ x ∈ l ∧ x ≠ e := by
  simp [List.mem_filter]

theorem nodup_filter_ne {l : List Nat} (e : Nat) (h : l.Nodup) : (l.filter (fun y => y != e)).Nodup :=
  List.Pairwise.filter _ h

theorem length_filter_ne {l : List Nat} {e : Nat} (h : l.Nodup) (he : e ∈ l) :
    (l.filter (fun y => y != e)).length + 1 = l.length := by
  induction l with
  | nil => simp at he
  | cons a t ih =>
    rw [List.nodup_cons] at h
    by_cases hae : a = e
    · subst hae
      have : t.filter (fun y => y != a) = t := by
        apply List.filter_eq_self.mpr
        intro x hx
        have : x ≠ a := fun hxa => h.1 (hxa ▸ hx)
        simpa using this
      simp [this]
    · have het : e ∈ t := by
        rcases List.mem_cons.mp he with h1 | h1
        · exact absurd h1.symm hae
        · exact h1
      have := ih h.2 het
      simp [hae]
      omega

@[simp] theorem upd_upd_same {α : Type} (f : Nat → α) (i : Nat) (a b : α) : upd (upd f i a) i b = upd f i b := by
  funext j; simp only [upd]; split <;> rfl

@[simp] theorem mem_remove {l : KList} {e x : Nat} : x ∈ (l.remove e).items ↔ x ∈ l.items ∧ x ≠ e := by
  simp [KList.remove]

theorem upd_apply {α : Type} (f : Nat → α) (i j : Nat) (a : α) : upd f i a j = if j = i then a else f j := rfl

/-- the list structure: both lists duplicate-free with the same members, stored counts equal to the
    lengths, every linked entry in the list registered under its key, unlinked entries marked -/
structure Struct (s : State) : Prop where
  nodupG : s.order.items.Nodup
  nodupL : ∀ k l, s.locals k = some l → l.items.Nodup
  countG : s.order.count = s.order.items.length
  countL : ∀ k l, s.locals k = some l → l.count = l.items.length
  gl : ∀ e, e ∈ s.order.items → e < s.next ∧ (s.ents e).gRemoved = false ∧ (s.ents e).lRemoved = false ∧
         ∃ l, s.locals (s.ents e).key = some l ∧ e ∈ l.items
  lg : ∀ k l, s.locals k = some l → ∀ e, e ∈ l.items → (s.ents e).key = k ∧ e ∈ s.order.items
  unl : ∀ e, e < s.next → e ∉ s.order.items → (s.ents e).gRemoved = true ∧ (s.ents e).lRemoved = true

theorem unlink_linked {s : State} {e : Nat} (hs : Struct s) (he : e ∈ s.order.items) :
    ∃ l, s.locals (s.ents e).key = some l ∧ e ∈ l.items ∧
      unlink s (s.ents e).key e =
        { s with ents := upd s.ents e { s.ents e with lRemoved := true, gRemoved := true },
                 locals := upd s.locals (s.ents e).key (some (l.remove e)),
                 order := s.order.remove e } := by
  obtain ⟨_, hg, hl, l, hl1, hl2⟩ := hs.gl e he
  refine ⟨l, hl1, hl2, ?_⟩
  simp [unlink, removeLocal, removeGlobal, hl1, hl, hg]

theorem struct_after_unlink {s : State} {e : Nat} {l : KList} (hs : Struct s) (he : e ∈ s.order.items)
    (hl : s.locals (s.ents e).key = some l) (x' : Entry) (hk : x'.key = (s.ents e).key)
    (hg : x'.gRemoved = true) (hlr : x'.lRemoved = true) (c : Nat → Conn) (h : List Nat) (hd : Nat → Bool) :
    Struct { s with ents := upd s.ents e x', locals := upd s.locals (s.ents e).key (some (l.remove e)),
                    order := s.order.remove e, conns := c, handouts := h, held := hd } := by
  obtain ⟨_, _, _, l0, hl0, hel⟩ := hs.gl e he
  rw [hl] at hl0; cases hl0
  constructor
  · exact nodup_filter_ne e hs.nodupG
  · intro k' l' h'
    simp only [upd_apply] at h'
    split at h'
    · cases h'; exact nodup_filter_ne e (hs.nodupL _ _ hl)
    · exact hs.nodupL _ _ h'
  · have := length_filter_ne hs.nodupG he
    have := hs.countG
    simp only [KList.remove]
    omega
  · intro k' l' h'
    simp only [upd_apply] at h'
    split at h'
    · cases h'
      have := length_filter_ne (hs.nodupL _ _ hl) hel
      have := hs.countL _ _ hl
      simp only [KList.remove]
      omega
    · exact hs.countL _ _ h'
  · intro e' he'
    rw [mem_remove] at he'
    obtain ⟨he'1, hne⟩ := he'
    obtain ⟨h1, h2, h3, l1, h4, h5⟩ := hs.gl e' he'1
    simp only [upd_other _ _ hne]
    refine ⟨h1, h2, h3, ?_⟩
    simp only [upd_apply]
    split
    · next hkk => rw [hkk, hl] at h4; cases h4; exact ⟨_, rfl, mem_remove.mpr ⟨h5, hne⟩⟩
    · exact ⟨l1, h4, h5⟩
  · intro k' l' h' e' he'
    simp only [upd_apply] at h'
    split at h'
    · next hkk =>
      cases h'
      rw [mem_remove] at he'
      obtain ⟨h1, h2⟩ := hs.lg _ _ hl e' he'.1
      simp only [upd_other _ _ he'.2]
      exact ⟨by rw [h1, hkk], mem_remove.mpr ⟨h2, he'.2⟩⟩
    · next hkk =>
      obtain ⟨h1, h2⟩ := hs.lg _ _ h' e' he'
      have hne : e' ≠ e := by
        intro hee; subst hee; exact hkk h1.symm
      simp only [upd_other _ _ hne]
      exact ⟨h1, mem_remove.mpr ⟨h2, hne⟩⟩
  · intro e' hlt hnot
    by_cases hee : e' = e
    · subst hee; simp [hg, hlr]
    · simp only [upd_other _ _ hee]
      apply hs.unl e' hlt
      intro hin
      exact hnot (mem_remove.mpr ⟨hin, hee⟩)

/-! ### who owns an entry -/

/-- cached: linked, timer absent or armed -/
def CachedW (lk : Prop) (x : Entry) : Prop :=
  lk ∧ (x.exp = .none ∨ x.exp = .armed) ∧ x.handed = false ∧ x.poolClosed = false ∧ x.dropped = false
/-- handed out by `Take` -/
def HandedW (lk : Prop) (x : Entry) : Prop :=
  ¬ lk ∧ (x.exp = .none ∨ x.exp = .stopped) ∧ x.handed = true ∧ x.poolClosed = false ∧ x.dropped = false
/-- closed by `closeEntry` (eviction or `Close`) -/
def PoolClosedW (lk : Prop) (x : Entry) (c : Bool) : Prop :=
  ¬ lk ∧ (x.exp = .none ∨ x.exp = .stopped) ∧ x.handed = false ∧ x.poolClosed = true ∧ x.dropped = false ∧ c = true
/-- unlinked by `Take`, which found the connection already closed -/
def DroppedW (lk : Prop) (x : Entry) (c : Bool) : Prop :=
  ¬ lk ∧ (x.exp = .none ∨ x.exp = .stopped) ∧ x.handed = false ∧ x.poolClosed = false ∧ x.dropped = true ∧ c = true
/-- the timer fired: the callback closes the connection (has closed it once past `fired`) -/
def CallbackW (lk : Prop) (x : Entry) (c : Bool) : Prop :=
  (x.exp = .fired ∨ (x.exp = .cbClosed ∧ c = true) ∨ (x.exp = .cbDone ∧ ¬ lk ∧ c = true)) ∧
    x.handed = false ∧ x.poolClosed = false ∧ x.dropped = false

def OwnedW (lk : Prop) (x : Entry) (c : Bool) : Prop :=
  CachedW lk x ∨ HandedW lk x ∨ PoolClosedW lk x c ∨ DroppedW lk x c ∨ CallbackW lk x c

def Owned (s : State) (e : Nat) : Prop :=
  OwnedW (e ∈ s.order.items) (s.ents e) (s.conns (s.ents e).val).closed

theorem ownedW_mono {lk lk' : Prop} {x : Entry} {c c' : Bool} (h : OwnedW lk x c) (hlk : lk ↔ lk')
    (hc : c = true → c' = true) : OwnedW lk' x c' := by
  unfold OwnedW CachedW HandedW PoolClosedW DroppedW CallbackW at *
  rw [← hlk]
  rcases h with h | h | h | h | h
  · exact .inl h
  · exact .inr (.inl h)
  · exact .inr (.inr (.inl ⟨h.1, h.2.1, h.2.2.1, h.2.2.2.1, h.2.2.2.2.1, hc h.2.2.2.2.2⟩))
  · exact .inr (.inr (.inr (.inl ⟨h.1, h.2.1, h.2.2.1, h.2.2.2.1, h.2.2.2.2.1, hc h.2.2.2.2.2⟩)))
  · refine .inr (.inr (.inr (.inr ⟨?_, h.2⟩)))
    rcases h.1 with h1 | h1 | h1
    · exact .inl h1
    · exact .inr (.inl ⟨h1.1, hc h1.2⟩)
    · exact .inr (.inr ⟨h1.1, h1.2.1, hc h1.2.2⟩)

theorem owned_frame {s s' : State} {e : Nat} (h : Owned s e) (he : s'.ents e = s.ents e)
    (hlk : e ∈ s.order.items ↔ e ∈ s'.order.items)
    (hc : ∀ v, (s.conns v).closed = true → (s'.conns v).closed = true) : Owned s' e := by
  unfold Owned at *
  rw [he]
  exact ownedW_mono h hlk (hc _)

/-- a linked entry has not been handed out -/
theorem ownedW_linked_handed {x : Entry} {c : Bool} (h : OwnedW True x c) : x.handed = false := by
  unfold OwnedW CachedW HandedW PoolClosedW DroppedW CallbackW at h
  rcases h with h | h | h | h | h
  · exact h.2.2.1
  · exact absurd trivial h.1
  · exact absurd trivial h.1
  · exact absurd trivial h.1
  · exact h.2.1

/-! ### bounds and hand-outs -/

structure Bounded (cfg : Cfg) (s : State) : Prop where
  cap : cfg.capacity > 0 → s.order.count ≤ cfg.capacity
  kcap : cfg.keyCapacity > 0 → ∀ k l, s.locals k = some l → l.count ≤ cfg.keyCapacity
  neg : cfg.capacity < 0 ∨ cfg.keyCapacity < 0 → s.order.items = [] ∧ ∀ k, s.locals k = none

structure Hand (s : State) : Prop where
  nodup : s.handouts.Nodup
  handed : ∀ e, e ∈ s.handouts → e < s.next ∧ (s.ents e).handed = true

/-- the pool may still close the connection of this entry: it is linked (an eviction or `Close`
    would close it) or its timer fired and the callback has not closed it yet -/
def Live (s : State) (e : Nat) : Prop := e ∈ s.order.items ∨ (s.ents e).exp = .fired

/-- connection-level ownership, for callers that only put connections they hold -/
structure ConnInv (s : State) : Prop where
  heldFree : ∀ e, e < s.next → s.held (s.ents e).val = true → ¬ Live s e
  unique : ∀ e1 e2, e1 < s.next → e2 < s.next → (s.ents e1).val = (s.ents e2).val →
    Live s e1 → Live s e2 → e1 = e2

theorem connInv_mono {s s' : State} (h : ConnInv s) (hn : s'.next = s.next)
    (hval : ∀ e, e < s.next → (s'.ents e).val = (s.ents e).val)
    (hlive : ∀ e, e < s.next → Live s' e → Live s e)
    (hheld : ∀ v, s'.held v = true → s.held v = true) : ConnInv s' := by
  constructor
  · intro e hlt hh hl
    rw [hn] at hlt
    rw [hval e hlt] at hh
    exact h.heldFree e hlt (hheld _ hh) (hlive e hlt hl)
  · intro e1 e2 h1 h2 hv l1 l2
    rw [hn] at h1 h2
    rw [hval e1 h1, hval e2 h2] at hv
    exact h.unique e1 e2 h1 h2 hv (hlive e1 h1 l1) (hlive e2 h2 l2)

structure Inv (cfg : Cfg) (s : State) : Prop where
  struct : Struct s
  owned : ∀ e, e < s.next → Owned s e
  bounded : Bounded cfg s
  hand : Hand s
  conn : s.proper = true → ConnInv s

theorem Inv.linked_not_handed {cfg : Cfg} {s : State} (hi : Inv cfg s) {e : Nat} (he : e ∈ s.order.items) :
    (s.ents e).handed = false ∧ e ∉ s.handouts := by
  have hlt := (hi.struct.gl e he).1
  have ho := hi.owned e hlt
  unfold Owned at ho
  have h1 : (s.ents e).handed = false := ownedW_linked_handed (ownedW_mono ho (by simp [he]) id)
  refine ⟨h1, fun hin => ?_⟩
  have := (hi.hand.handed e hin).2
  rw [h1] at this; cases this

/-- Action: a linked entry is unlinked from both lists and its record replaced. -/
theorem inv_unlink {cfg : Cfg} {s : State} {e : Nat} {l : KList} (hi : Inv cfg s) (he : e ∈ s.order.items)
    (hl : s.locals (s.ents e).key = some l) (x' : Entry) (c' : Nat → Conn) (h' : List Nat)
    (hk : x'.key = (s.ents e).key) (hg : x'.gRemoved = true) (hlr : x'.lRemoved = true)
    (hc : ∀ v, (s.conns v).closed = true → (c' v).closed = true)
    (hown : OwnedW False x' (c' x'.val).closed)
    (hh : h' = s.handouts ∨ (h' = s.handouts ++ [e] ∧ x'.handed = true))
    (hd' : Nat → Bool) (hval : x'.val = (s.ents e).val) (hfire : x'.exp = .fired → (s.ents e).exp = .fired)
    (hhd : hd' = s.held ∨ (hd' = upd s.held x'.val true ∧ x'.exp ≠ .fired)) :
    Inv cfg { s with ents := upd s.ents e x', locals := upd s.locals (s.ents e).key (some (l.remove e)),
                     order := s.order.remove e, conns := c', handouts := h', held := hd' } := by
  have hlt := (hi.struct.gl e he).1
  obtain ⟨_, _, _, l0, hl0, hel⟩ := hi.struct.gl e he
  rw [hl] at hl0; cases hl0
  constructor
  · exact struct_after_unlink hi.struct he hl x' hk hg hlr c' h' hd'
  · intro e' hlt'
    by_cases hee : e' = e
    · subst hee
      unfold Owned
      simp only [upd_same]
      exact ownedW_mono hown (by simp) id
    · apply owned_frame (hi.owned e' hlt')
      · simp [upd_other _ _ hee]
      · simp [hee]
      · exact hc
  · constructor
    · intro h; have := hi.bounded.cap h; simp only [KList.remove]; omega
    · intro h k' l' h'
      simp only [upd_apply] at h'
      split at h'
      · cases h'; have := hi.bounded.kcap h _ _ hl; simp only [KList.remove]; omega
      · exact hi.bounded.kcap h _ _ h'
    · intro h
      have := (hi.bounded.neg h).1
      rw [this] at he; cases he
  · have hnh := hi.linked_not_handed he
    rcases hh with hh | ⟨hh, hx⟩
    · subst hh
      constructor
      · exact hi.hand.nodup
      · intro e' hin
        have hne : e' ≠ e := fun h => hnh.2 (h ▸ hin)
        simp only [upd_other _ _ hne]
        exact hi.hand.handed e' hin
    · subst hh
      constructor
      · show (s.handouts ++ [e]).Nodup
        rw [List.nodup_append]
        refine ⟨hi.hand.nodup, by simp, ?_⟩
        intro a ha b hb
        simp at hb; subst hb
        intro hab; subst hab; exact hnh.2 ha
      · intro e' hin
        by_cases hee : e' = e
        · subst hee; simp [hx]; exact hlt
        · simp only [upd_other _ _ hee]
          have hin' : e' ∈ s.handouts ++ [e] := hin
          simp [hee] at hin'
          exact hi.hand.handed e' hin'
  · intro hp
    have K := hi.conn hp
    -- liveness only shrinks
    have hlive : ∀ e', e' < s.next →
        Live { s with ents := upd s.ents e x', locals := upd s.locals (s.ents e).key (some (l.remove e)),
                      order := s.order.remove e, conns := c', handouts := h', held := hd' } e' → Live s e' := by
      intro e' _ hl'
      by_cases hee : e' = e
      · subst hee; exact .inl he
      · unfold Live at hl' ⊢
        simp only [upd_other _ _ hee, mem_remove] at hl'
        rcases hl' with hl' | hl'
        · exact .inl hl'.1
        · exact .inr hl'
    have hvals : ∀ e', e' < s.next → (upd s.ents e x' e').val = (s.ents e').val := by
      intro e' _
      by_cases hee : e' = e
      · subst hee; simp [hval]
      · simp [upd_other _ _ hee]
    rcases hhd with hhd | ⟨hhd, hnf⟩
    · subst hhd
      exact connInv_mono K rfl hvals hlive (fun _ h => h)
    · subst hhd
      constructor
      · intro e' hlt' hh' hl'
        have hl0 := hlive e' hlt' hl'
        have hv' := hvals e' hlt'
        simp only at hh' hv'
        rw [hv'] at hh'
        by_cases hvv : (s.ents e').val = x'.val
        · -- same connection as the entry just handed out: it would be a second live entry
          have : e' = e := K.unique e' e hlt' hlt (by rw [hvv, hval]) hl0 (.inl he)
          subst this
          unfold Live at hl'
          simp only [upd_same, mem_remove] at hl'
          rcases hl' with hl' | hl'
          · exact hl'.2 rfl
          · exact hnf hl'
        · rw [upd_other _ _ hvv] at hh'
          exact K.heldFree e' hlt' hh' hl0
      · intro e1 e2 h1 h2 hv l1 l2
        have v1 := hvals e1 h1
        have v2 := hvals e2 h2
        simp only at hv v1 v2
        rw [v1, v2] at hv
        exact K.unique e1 e2 h1 h2 hv (hlive e1 h1 l1) (hlive e2 h2 l2)

theorem struct_congr {s s' : State} (hs : Struct s) (hn : s'.next = s.next) (ho : s'.order = s.order)
    (hl : s'.locals = s.locals)
    (he : ∀ e, (s'.ents e).key = (s.ents e).key ∧ (s'.ents e).gRemoved = (s.ents e).gRemoved ∧
               (s'.ents e).lRemoved = (s.ents e).lRemoved) : Struct s' := by
  constructor
  · rw [ho]; exact hs.nodupG
  · rw [hl]; exact hs.nodupL
  · rw [ho]; exact hs.countG
  · rw [hl]; exact hs.countL
  · intro e hin
    rw [ho] at hin
    obtain ⟨h1, h2, h3, h4⟩ := hs.gl e hin
    obtain ⟨k1, k2, k3⟩ := he e
    rw [hn, k1, k2, k3, hl]
    exact ⟨h1, h2, h3, h4⟩
  · intro k l hkl e hin
    rw [hl] at hkl
    rw [(he e).1, ho]
    exact hs.lg k l hkl e hin
  · intro e hlt hnot
    rw [hn] at hlt; rw [ho] at hnot
    rw [(he e).2.1, (he e).2.2]
    exact hs.unl e hlt hnot

/-- Action: the record of one entry and the connections change, the lists do not. -/
theorem inv_local {cfg : Cfg} {s : State} (hi : Inv cfg s) (e : Nat) (x' : Entry) (c' : Nat → Conn)
    (hk : x'.key = (s.ents e).key) (hg : x'.gRemoved = (s.ents e).gRemoved)
    (hl : x'.lRemoved = (s.ents e).lRemoved) (hhd : (s.ents e).handed = true → x'.handed = true)
    (hc : ∀ v, (s.conns v).closed = true → (c' v).closed = true)
    (hown : e < s.next → OwnedW (e ∈ s.order.items) x' (c' x'.val).closed)
    (hval : x'.val = (s.ents e).val)
    (hfire : x'.exp = .fired → (s.ents e).exp = .fired ∨ e ∈ s.order.items) :
    Inv cfg { s with ents := upd s.ents e x', conns := c' } := by
  constructor
  · refine struct_congr hi.struct rfl rfl rfl ?_
    intro e'
    by_cases hee : e' = e
    · subst hee; simp [hk, hg, hl]
    · simp [upd_other _ _ hee]
  · intro e' hlt
    by_cases hee : e' = e
    · subst hee
      unfold Owned
      simp only [upd_same]
      exact hown hlt
    · apply owned_frame (hi.owned e' hlt)
      · simp [upd_other _ _ hee]
      · exact Iff.rfl
      · exact hc
  · exact ⟨hi.bounded.cap, hi.bounded.kcap, hi.bounded.neg⟩
  · constructor
    · exact hi.hand.nodup
    · intro e' hin
      obtain ⟨h1, h2⟩ := hi.hand.handed e' hin
      refine ⟨h1, ?_⟩
      by_cases hee : e' = e
      · subst hee; simp [hhd h2]
      · simp [upd_other _ _ hee, h2]
  · intro hp
    refine connInv_mono (hi.conn hp) rfl ?_ ?_ (fun _ h => h)
    · intro e' _
      by_cases hee : e' = e
      · subst hee; simp [hval]
      · simp [upd_other _ _ hee]
    · intro e' _ hl'
      unfold Live at hl' ⊢
      by_cases hee : e' = e
      · subst hee
        simp only [upd_same] at hl'
        rcases hl' with hl' | hl'
        · exact .inl hl'
        · rcases hfire hl' with h | h
          · exact .inr h
          · exact .inl h
      · simpa [upd_other _ _ hee] using hl'

/-- Action: only the connections and the caller-side ghosts change (closed only ever becomes true,
    the callers hold no more than before). -/
theorem inv_conns {cfg : Cfg} {s : State} (hi : Inv cfg s) (c' : Nat → Conn) (hd' : Nat → Bool) (pr' : Bool)
    (hc : ∀ v, (s.conns v).closed = true → (c' v).closed = true)
    (hhd : ∀ v, hd' v = true → s.held v = true) (hpr : pr' = true → s.proper = true) :
    Inv cfg { s with conns := c', held := hd', proper := pr' } := by
  constructor
  · exact struct_congr hi.struct rfl rfl rfl (fun _ => ⟨rfl, rfl, rfl⟩)
  · intro e' hlt
    exact owned_frame (hi.owned e' hlt) rfl Iff.rfl hc
  · exact ⟨hi.bounded.cap, hi.bounded.kcap, hi.bounded.neg⟩
  · exact ⟨hi.hand.nodup, hi.hand.handed⟩
  · intro hp
    exact connInv_mono (hi.conn (hpr hp)) rfl (fun _ _ => rfl) (fun _ _ h => h) hhd

/-- Action: an empty per-key list is dropped from the map. -/
theorem inv_delete {cfg : Cfg} {s : State} (hi : Inv cfg s) {k : Nat} {l : KList} (hl : s.locals k = some l)
    (h0 : l.count = 0) : Inv cfg { s with locals := upd s.locals k none } := by
  have hempty : l.items = [] := by
    have := hi.struct.countL k l hl
    rw [h0] at this
    exact List.length_eq_zero_iff.mp (by omega)
  constructor
  · constructor
    · exact hi.struct.nodupG
    · intro k' l' h'
      simp only [upd_apply] at h'
      split at h'
      · cases h'
      · exact hi.struct.nodupL _ _ h'
    · exact hi.struct.countG
    · intro k' l' h'
      simp only [upd_apply] at h'
      split at h'
      · cases h'
      · exact hi.struct.countL _ _ h'
    · intro e hin
      obtain ⟨h1, h2, h3, l1, h4, h5⟩ := hi.struct.gl e hin
      refine ⟨h1, h2, h3, l1, ?_, h5⟩
      simp only [upd_apply]
      split
      · next hkk => rw [hkk, hl] at h4; cases h4; rw [hempty] at h5; cases h5
      · exact h4
    · intro k' l' h' e hin
      simp only [upd_apply] at h'
      split at h'
      · cases h'
      · exact hi.struct.lg _ _ h' e hin
    · exact hi.struct.unl
  · intro e' hlt
    exact owned_frame (hi.owned e' hlt) rfl Iff.rfl (fun _ h => h)
  · refine ⟨hi.bounded.cap, ?_, ?_⟩
    · intro h k' l' h'
      simp only [upd_apply] at h'
      split at h'
      · cases h'
      · exact hi.bounded.kcap h _ _ h'
    · intro h
      refine ⟨(hi.bounded.neg h).1, ?_⟩
      intro k'
      simp only [upd_apply]
      split
      · rfl
      · exact (hi.bounded.neg h).2 k'
  · exact ⟨hi.hand.nodup, hi.hand.handed⟩
  · intro hp
    exact connInv_mono (hi.conn hp) rfl (fun _ _ => rfl) (fun _ _ h => h) (fun _ h => h)

/-- Action: an empty per-key list is registered (first half of `Put` when the key is new). -/
theorem inv_register {cfg : Cfg} {s : State} (hi : Inv cfg s) {k : Nat} (hl : s.locals k = none)
    (hcfg : ¬ (cfg.capacity < 0 ∨ cfg.keyCapacity < 0)) :
    Inv cfg { s with locals := upd s.locals k (some {}) } := by
  constructor
  · constructor
    · exact hi.struct.nodupG
    · intro k' l' h'
      simp only [upd_apply] at h'
      split at h'
      · cases h'; exact List.nodup_nil
      · exact hi.struct.nodupL _ _ h'
    · exact hi.struct.countG
    · intro k' l' h'
      simp only [upd_apply] at h'
      split at h'
      · cases h'; rfl
      · exact hi.struct.countL _ _ h'
    · intro e hin
      obtain ⟨h1, h2, h3, l1, h4, h5⟩ := hi.struct.gl e hin
      refine ⟨h1, h2, h3, l1, ?_, h5⟩
      simp only [upd_apply]
      split
      · next hkk => rw [hkk, hl] at h4; cases h4
      · exact h4
    · intro k' l' h' e hin
      simp only [upd_apply] at h'
      split at h'
      · cases h'; cases hin
      · exact hi.struct.lg _ _ h' e hin
    · exact hi.struct.unl
  · intro e' hlt
    exact owned_frame (hi.owned e' hlt) rfl Iff.rfl (fun _ h => h)
  · refine ⟨hi.bounded.cap, ?_, fun h => absurd h hcfg⟩
    intro h k' l' h'
    simp only [upd_apply] at h'
    split at h'
    · cases h'; show (0 : Int) ≤ _; omega
    · exact hi.bounded.kcap h _ _ h'
  · exact ⟨hi.hand.nodup, hi.hand.handed⟩
  · intro hp
    exact connInv_mono (hi.conn hp) rfl (fun _ _ => rfl) (fun _ _ h => h) (fun _ h => h)

theorem Struct.lt_of_mem {s : State} (hs : Struct s) {e : Nat} (h : e ∈ s.order.items) : e < s.next :=
  (hs.gl e h).1

theorem Struct.lt_of_mem_local {s : State} (hs : Struct s) {k : Nat} {l : KList} (hl : s.locals k = some l)
    {e : Nat} (h : e ∈ l.items) : e < s.next :=
  hs.lt_of_mem (hs.lg k l hl e h).2

/-- Action: a new entry is linked at the tail of both lists (second half of `Put`). -/
theorem inv_insert {cfg : Cfg} {s : State} (hi : Inv cfg s) {k : Nat} {l : KList} (hl : s.locals k = some l)
    (hcfg : ¬ (cfg.capacity < 0 ∨ cfg.keyCapacity < 0))
    (hcap : cfg.capacity > 0 → s.order.count < cfg.capacity)
    (hkcap : cfg.keyCapacity > 0 → l.count < cfg.keyCapacity)
    (x : Entry) (hx : x.key = k) (hg : x.gRemoved = false) (hlr : x.lRemoved = false)
    (hexp : x.exp = .none ∨ x.exp = .armed) (hh : x.handed = false) (hp : x.poolClosed = false)
    (hd : x.dropped = false) (hheld : s.proper = true → s.held x.val = true) :
    Inv cfg { s with ents := upd s.ents s.next x, next := s.next + 1,
                     locals := upd s.locals k (some (l.append s.next)),
                     order := s.order.append s.next,
                     held := upd s.held x.val false } := by
  have hs := hi.struct
  have hnG : s.next ∉ s.order.items := fun h => Nat.lt_irrefl _ (hs.lt_of_mem h)
  have hnL : s.next ∉ l.items := fun h => Nat.lt_irrefl _ (hs.lt_of_mem_local hl h)
  constructor
  · constructor
    · show (s.order.items ++ [s.next]).Nodup
      rw [List.nodup_append]
      refine ⟨hs.nodupG, by simp, ?_⟩
      intro a ha b hb
      simp at hb; subst hb
      intro hab; subst hab; exact hnG ha
    · intro k' l' h'
      simp only [upd_apply] at h'
      split at h'
      · cases h'
        show (l.items ++ [s.next]).Nodup
        rw [List.nodup_append]
        refine ⟨hs.nodupL _ _ hl, by simp, ?_⟩
        intro a ha b hb
        simp at hb; subst hb
        intro hab; subst hab; exact hnL ha
      · exact hs.nodupL _ _ h'
    · have := hs.countG
      simp only [KList.append, List.length_append, List.length_cons, List.length_nil]
      omega
    · intro k' l' h'
      simp only [upd_apply] at h'
      split at h'
      · cases h'
        have := hs.countL _ _ hl
        simp only [KList.append, List.length_append, List.length_cons, List.length_nil]
        omega
      · exact hs.countL _ _ h'
    · intro e hin
      have hin' : e ∈ s.order.items ++ [s.next] := hin
      rw [List.mem_append] at hin'
      rcases hin' with hin' | hin'
      · obtain ⟨h1, h2, h3, l1, h4, h5⟩ := hs.gl e hin'
        have hne : e ≠ s.next := Nat.ne_of_lt h1
        simp only [upd_other _ _ hne]
        refine ⟨Nat.lt_succ_of_lt h1, h2, h3, ?_⟩
        simp only [upd_apply]
        split
        · next hkk =>
          rw [hkk, hl] at h4; cases h4
          exact ⟨_, rfl, by simp [KList.append, h5]⟩
        · exact ⟨l1, h4, h5⟩
      · simp at hin'; subst hin'
        simp only [upd_same]
        refine ⟨Nat.lt_succ_self _, hg, hlr, ?_⟩
        simp only [upd_apply, hx, if_true]
        exact ⟨_, rfl, by simp [KList.append]⟩
    · intro k' l' h' e hin
      simp only [upd_apply] at h'
      split at h'
      · next hkk =>
        cases h'
        have hin' : e ∈ l.items ++ [s.next] := hin
        rw [List.mem_append] at hin'
        rcases hin' with hin' | hin'
        · have hne : e ≠ s.next := Nat.ne_of_lt (hs.lt_of_mem_local hl hin')
          obtain ⟨h1, h2⟩ := hs.lg _ _ hl e hin'
          simp only [upd_other _ _ hne]
          exact ⟨by rw [h1, hkk], by simp [KList.append, h2]⟩
        · simp at hin'; subst hin'
          simp only [upd_same]
          exact ⟨by rw [hx, hkk], by simp [KList.append]⟩
      · have hne : e ≠ s.next := Nat.ne_of_lt (hs.lt_of_mem_local h' hin)
        obtain ⟨h1, h2⟩ := hs.lg _ _ h' e hin
        simp only [upd_other _ _ hne]
        exact ⟨h1, by simp [KList.append, h2]⟩
    · intro e hlt hnot
      have hnot' : e ∉ s.order.items ++ [s.next] := hnot
      simp only [List.mem_append, List.mem_singleton, not_or] at hnot'
      have hlt' : e < s.next := by
        have : e < s.next + 1 := hlt
        omega
      simp only [upd_other _ _ hnot'.2]
      exact hs.unl e hlt' hnot'.1
  · intro e' hlt
    by_cases hee : e' = s.next
    · subst hee
      unfold Owned
      simp only [upd_same]
      refine .inl ⟨?_, hexp, hh, hp, hd⟩
      simp [KList.append]
    · have hlt' : e' < s.next := by
        have : e' < s.next + 1 := hlt
        omega
      apply owned_frame (hi.owned e' hlt')
      · simp [upd_other _ _ hee]
      · simp [KList.append, hee]
      · exact fun _ h => h
  · refine ⟨?_, ?_, fun h => absurd h hcfg⟩
    · intro h; have := hcap h; simp only [KList.append]; omega
    · intro h k' l' h'
      simp only [upd_apply] at h'
      split at h'
      · cases h'; have := hkcap h; simp only [KList.append]; omega
      · exact hi.bounded.kcap h _ _ h'
  · constructor
    · exact hi.hand.nodup
    · intro e' hin
      obtain ⟨h1, h2⟩ := hi.hand.handed e' hin
      have hne : e' ≠ s.next := Nat.ne_of_lt h1
      simp only [upd_other _ _ hne]
      exact ⟨Nat.lt_succ_of_lt h1, h2⟩
  · intro hpr
    have K := hi.conn hpr
    have hfree := hheld hpr
    -- for old entries nothing changed
    have hold : ∀ e', e' < s.next →
        (Live { s with ents := upd s.ents s.next x, next := s.next + 1,
                       locals := upd s.locals k (some (l.append s.next)),
                       order := s.order.append s.next, held := upd s.held x.val false } e' ↔ Live s e') ∧
        (upd s.ents s.next x e').val = (s.ents e').val := by
      intro e' hlt'
      have hne : e' ≠ s.next := Nat.ne_of_lt hlt'
      unfold Live
      simp [upd_other _ _ hne, KList.append, hne]
    have hnew : ∀ e', e' < s.next + 1 → ¬ e' < s.next → e' = s.next := by intro e' h1 h2; omega
    constructor
    · intro e' hlt' hh' hl'
      simp only at hlt' hh'
      by_cases hlt0 : e' < s.next
      · obtain ⟨h1, h2⟩ := hold e' hlt0
        rw [h2] at hh'
        by_cases hvv : (s.ents e').val = x.val
        · rw [hvv, upd_same] at hh'; cases hh'
        · rw [upd_other _ _ hvv] at hh'
          exact K.heldFree e' hlt0 hh' (h1.mp hl')
      · have := hnew e' hlt' hlt0
        subst this
        simp only [upd_same] at hh'
        cases hh'
    · intro e1 e2 h1 h2 hv l1 l2
      simp only at h1 h2 hv
      by_cases a1 : e1 < s.next <;> by_cases a2 : e2 < s.next
      · rw [(hold e1 a1).2, (hold e2 a2).2] at hv
        exact K.unique e1 e2 a1 a2 hv ((hold e1 a1).1.mp l1) ((hold e2 a2).1.mp l2)
      · have := hnew e2 h2 a2
        subst this
        rw [(hold e1 a1).2, upd_same] at hv
        exact absurd ((hold e1 a1).1.mp l1) (K.heldFree e1 a1 (by rw [hv]; exact hfree))
      · have := hnew e1 h1 a1
        subst this
        rw [(hold e2 a2).2, upd_same] at hv
        exact absurd ((hold e2 a2).1.mp l2) (K.heldFree e2 a2 (by rw [← hv]; exact hfree))
      · rw [hnew e1 h1 a1, hnew e2 h2 a2]

def closeEnt (x : Entry) : Entry :=
  match x.exp with
  | .none => { x with poolClosed := true }
  | .armed => { x with exp := .stopped, poolClosed := true }
  | _ => x

theorem upd_self {α : Type} (f : Nat → α) (i : Nat) : upd f i (f i) = f := by
  funext j; simp only [upd]; split
  · next h => rw [h]
  · rfl

theorem closeEntry_spec (s : State) (e : Nat) :
    ∃ c', closeEntry s e = { s with ents := upd s.ents e (closeEnt (s.ents e)), conns := c' } ∧
      (∀ v, (s.conns v).closed = true → (c' v).closed = true) ∧
      ((s.ents e).exp = .none ∨ (s.ents e).exp = .armed → (c' (s.ents e).val).closed = true) := by
  cases h : (s.ents e).exp
  case none =>
    refine ⟨upd s.conns (s.ents e).val { s.conns (s.ents e).val with closed := true, poolCloses := (s.conns (s.ents e).val).poolCloses + 1 }, ?_, ?_, ?_⟩
    · simp only [closeEntry, closeEnt, h, poolCloseConn]
    · intro v hv; simp only [upd_apply]; split <;> simp_all
    · intro _; simp
  case armed =>
    refine ⟨upd s.conns (s.ents e).val { s.conns (s.ents e).val with closed := true, poolCloses := (s.conns (s.ents e).val).poolCloses + 1 }, ?_, ?_, ?_⟩
    · simp only [closeEntry, closeEnt, h, poolCloseConn]
    · intro v hv; simp only [upd_apply]; split <;> simp_all
    · intro _; simp
  all_goals
    refine ⟨s.conns, ?_, fun _ h => h, ?_⟩
    · simp only [closeEntry, closeEnt, h, upd_self]
    · intro h'; simp at h'

theorem evict_owned {x : Entry} {c c' : Bool} (h : OwnedW True x c) (hc : c = true → c' = true)
    (hx : x.exp = .none ∨ x.exp = .armed → c' = true) :
    OwnedW False { closeEnt x with lRemoved := true, gRemoved := true } c' := by
  unfold OwnedW CachedW HandedW PoolClosedW DroppedW CallbackW closeEnt at *
  cases hexp : x.exp <;> simp_all

theorem struct_closeEntry {s : State} (hs : Struct s) (e : Nat) : Struct (closeEntry s e) := by
  obtain ⟨c', heq, _, _⟩ := closeEntry_spec s e
  rw [heq]
  refine struct_congr hs rfl rfl rfl ?_
  intro e'
  by_cases hee : e' = e
  · subst hee
    simp only [upd_same]
    unfold closeEnt
    split <;> simp
  · simp [upd_other _ _ hee]

/-- eviction of a linked entry (`closeEntry` + both `removeEntry` calls) -/
theorem inv_evict {cfg : Cfg} {s : State} {e : Nat} (hi : Inv cfg s) (he : e ∈ s.order.items) :
    ∃ l, s.locals (s.ents e).key = some l ∧ e ∈ l.items ∧
      Inv cfg (unlink (closeEntry s e) (s.ents e).key e) ∧
      (unlink (closeEntry s e) (s.ents e).key e).next = s.next ∧
      (unlink (closeEntry s e) (s.ents e).key e).order = s.order.remove e ∧
      (unlink (closeEntry s e) (s.ents e).key e).locals = upd s.locals (s.ents e).key (some (l.remove e)) ∧
      (unlink (closeEntry s e) (s.ents e).key e).held = s.held ∧
      (unlink (closeEntry s e) (s.ents e).key e).proper = s.proper := by
  obtain ⟨hlt, _, _, l, hl, hel⟩ := hi.struct.gl e he
  obtain ⟨c', heq, hc1, hc2⟩ := closeEntry_spec s e
  have hkey : (closeEnt (s.ents e)).key = (s.ents e).key := by unfold closeEnt; split <;> rfl
  have hval : (closeEnt (s.ents e)).val = (s.ents e).val := by unfold closeEnt; split <;> rfl
  have hs1 : Struct (closeEntry s e) := struct_closeEntry hi.struct e
  have he1 : e ∈ (closeEntry s e).order.items := by rw [heq]; exact he
  have hk1 : ((closeEntry s e).ents e).key = (s.ents e).key := by rw [heq]; simp [hkey]
  obtain ⟨l1, hl1, _, hun⟩ := unlink_linked hs1 he1
  rw [hk1] at hl1 hun
  have hl1' : l1 = l := by
    rw [heq] at hl1
    have : s.locals (s.ents e).key = some l1 := hl1
    rw [hl] at this; cases this; rfl
  subst hl1'
  have hfire : (closeEnt (s.ents e)).exp = .fired → (s.ents e).exp = .fired := by
    unfold closeEnt; split <;> simp_all
  refine ⟨l1, hl, hel, ?_, ?_, ?_, ?_, ?_, ?_⟩
  · rw [hun, heq]
    simp only [upd_upd_same, upd_same]
    have ho := hi.owned e hlt
    unfold Owned at ho
    have ho' : OwnedW True (s.ents e) (s.conns (s.ents e).val).closed := ownedW_mono ho (by simp [he]) id
    exact inv_unlink hi he hl { closeEnt (s.ents e) with lRemoved := true, gRemoved := true } c' s.handouts
      hkey rfl rfl hc1 (by simp only [hval]; exact evict_owned ho' (hc1 _) hc2) (.inl rfl) s.held hval hfire
      (.inl rfl)
  · rw [hun, heq]
  · rw [hun, heq]
  · rw [hun, heq]
  · rw [hun, heq]
  · rw [hun, heq]

theorem head?_of_pos {l : List Nat} (h : 0 < l.length) : ∃ e, l.head? = some e ∧ e ∈ l := by
  cases l with
  | nil => simp at h
  | cons a t => exact ⟨a, rfl, by simp⟩

theorem length_remove {l : KList} {e : Nat} (h : l.items.Nodup) (he : e ∈ l.items) :
    (l.remove e).items.length + 1 = l.items.length := length_filter_ne h he

/-- first loop of `Put` -/
theorem keyLoop_spec {cfg : Cfg} {k : Nat} (hcfg : cfg.keyCapacity ≥ 0) :
    ∀ (n : Nat) (s : State) (l : KList), Inv cfg s → s.locals k = some l → l.items.length < n →
      ∃ s' l', keyLoop cfg k n s = (s', .ok) ∧ Inv cfg s' ∧ s'.locals k = some l' ∧
        (s'.next = s.next ∧ s'.held = s.held ∧ s'.proper = s.proper) ∧
        (cfg.keyCapacity > 0 → l'.count < cfg.keyCapacity) := by
  intro n
  induction n with
  | zero => intro s l _ _ h; omega
  | succ n ih =>
    intro s l hi hl hn
    unfold keyLoop
    simp only [hl]
    split
    · next hcond =>
      have hcnt := hi.struct.countL k l hl
      have hpos : 0 < l.items.length := by omega
      obtain ⟨e, hhead, hmem⟩ := head?_of_pos hpos
      simp only [hhead]
      obtain ⟨hkey, hord⟩ := hi.struct.lg k l hl e hmem
      obtain ⟨l0, hl0, _, hinv, hnext, _, hloc, hheld, hprop⟩ := inv_evict hi hord
      rw [hkey] at hl0 hinv hnext hloc hheld hprop
      rw [hl] at hl0; cases hl0
      have hl' : (unlink (closeEntry s e) k e).locals k = some (l.remove e) := by rw [hloc]; simp
      have hlen := length_remove (hi.struct.nodupL k l hl) hmem
      obtain ⟨s', l', h1, h2, h3, h4, h5⟩ := ih _ _ hinv hl' (by omega)
      exact ⟨s', l', h1, h2, h3, ⟨by rw [h4.1, hnext], by rw [h4.2.1, hheld], by rw [h4.2.2, hprop]⟩, h5⟩
    · next hcond =>
      refine ⟨s, l, rfl, hi, hl, ⟨rfl, rfl, rfl⟩, ?_⟩
      intro hpos
      by_cases h0 : cfg.keyCapacity ≠ 0
      · have : ¬ (l.count ≥ cfg.keyCapacity) := fun h => hcond ⟨h0, h⟩
        omega
      · omega

/-- second loop of `Put` -/
theorem capLoop_spec {cfg : Cfg} {k : Nat} (hcfg : cfg.capacity ≥ 0) :
    ∀ (n : Nat) (s : State) (l : KList), Inv cfg s → s.locals k = some l → s.order.items.length < n →
      ∃ s' l', capLoop cfg k n s = (s', .ok) ∧ Inv cfg s' ∧ s'.locals k = some l' ∧
        (s'.next = s.next ∧ s'.held = s.held ∧ s'.proper = s.proper) ∧
        l'.count ≤ l.count ∧ (cfg.capacity > 0 → s'.order.count < cfg.capacity) := by
  intro n
  induction n with
  | zero => intro s l _ _ h; omega
  | succ n ih =>
    intro s l hi hl hn
    unfold capLoop
    split
    · next hcond =>
      have hcnt := hi.struct.countG
      have hpos : 0 < s.order.items.length := by omega
      obtain ⟨e, hhead, hmem⟩ := head?_of_pos hpos
      simp only [hhead]
      obtain ⟨le, hle, hele, hinv, hnext, hord, hloc, hheld, hprop⟩ := inv_evict hi hmem
      have hfr : ∀ (t : State), (t.next = (unlink (closeEntry s e) (s.ents e).key e).next ∧
          t.held = (unlink (closeEntry s e) (s.ents e).key e).held ∧
          t.proper = (unlink (closeEntry s e) (s.ents e).key e).proper) →
          (t.next = s.next ∧ t.held = s.held ∧ t.proper = s.proper) := by
        intro t ht
        exact ⟨by rw [ht.1, hnext], by rw [ht.2.1, hheld], by rw [ht.2.2, hprop]⟩
      have hl1 : (closeEntry s e).locals (s.ents e).key = some le := by
        obtain ⟨c', heq, _, _⟩ := closeEntry_spec s e
        rw [heq]; exact hle
      simp only [hl1]
      have hl2 : (unlink (closeEntry s e) (s.ents e).key e).locals (s.ents e).key = some (le.remove e) := by
        rw [hloc]; simp
      simp only [hl2]
      have hlen := length_remove hi.struct.nodupG hmem
      have hlen' : (unlink (closeEntry s e) (s.ents e).key e).order.items.length < n := by
        rw [hord]; omega
      split
      · next hdel =>
        -- the emptied list of another key is dropped
        have hinv3 := inv_delete hinv hl2 hdel.1
        have hl3 : (upd (unlink (closeEntry s e) (s.ents e).key e).locals (s.ents e).key none) k = some l := by
          rw [upd_other _ _ (Ne.symm hdel.2), hloc, upd_other _ _ (Ne.symm hdel.2)]; exact hl
        obtain ⟨s', l', h1, h2, h3, h4, h5, h6⟩ := ih _ l hinv3 hl3 hlen'
        exact ⟨s', l', h1, h2, h3, hfr s' h4, h5, h6⟩
      · next hdel =>
        by_cases hkk : (s.ents e).key = k
        · have hll : le = l := by rw [hkk, hl] at hle; cases hle; rfl
          subst hll
          have hl3 : (unlink (closeEntry s e) (s.ents e).key e).locals k = some (le.remove e) := by
            rw [← hkk]; exact hl2
          obtain ⟨s', l', h1, h2, h3, h4, h5, h6⟩ := ih _ _ hinv hl3 hlen'
          refine ⟨s', l', h1, h2, h3, hfr s' h4, ?_, h6⟩
          have : (le.remove e).count ≤ le.count := by simp only [KList.remove]; omega
          omega
        · have hl3 : (unlink (closeEntry s e) (s.ents e).key e).locals k = some l := by
            rw [hloc, upd_other _ _ (Ne.symm hkk)]; exact hl
          obtain ⟨s', l', h1, h2, h3, h4, h5, h6⟩ := ih _ _ hinv hl3 hlen'
          exact ⟨s', l', h1, h2, h3, hfr s' h4, h5, h6⟩
    · next hcond =>
      refine ⟨s, l, rfl, hi, hl, ⟨rfl, rfl, rfl⟩, Int.le_refl _, ?_⟩
      intro hpos
      by_cases h0 : cfg.capacity ≠ 0
      · have : ¬ (s.order.count ≥ cfg.capacity) := fun h => hcond ⟨h0, h⟩
        omega
      · omega

theorem put_tail {cfg : Cfg} {s0 : State} {l0 : KList} {k : Nat} (v : Nat) (hi0 : Inv cfg s0)
    (hl0 : s0.locals k = some l0) (hneg : ¬ (cfg.capacity < 0 ∨ cfg.keyCapacity < 0))
    (hheld : s0.proper = true → s0.held v = true) :
    ∃ s', (match keyLoop cfg k (l0.items.length + 1) s0 with
            | (s1, .ok) =>
              (match capLoop cfg k (s1.order.items.length + 1) s1 with
               | (s2, .ok) => insert cfg s2 k v
               | r => r)
            | r => r) = (s', .ok) ∧ Inv cfg s' := by
  have hk0 : cfg.keyCapacity ≥ 0 := by omega
  have hc0 : cfg.capacity ≥ 0 := by omega
  obtain ⟨s1, l1, h1, hi1, hl1, hf1, hk1⟩ := keyLoop_spec hk0 (l0.items.length + 1) s0 l0 hi0 hl0 (by omega)
  simp only [h1]
  obtain ⟨s2, l2, h2, hi2, hl2, hf2, hle, hc2⟩ :=
    capLoop_spec (k := k) hc0 (s1.order.items.length + 1) s1 l1 hi1 hl1 (by omega)
  simp only [h2]
  unfold insert
  simp only [hl2]
  refine ⟨_, rfl, ?_⟩
  refine inv_insert hi2 hl2 hneg hc2 (fun h => by have := hk1 h; omega)
    { key := k, val := v, exp := if cfg.expiration then .armed else .none } rfl rfl rfl ?_ rfl rfl rfl ?_
  · split <;> simp
  · intro hp
    show s2.held v = true
    rw [hf2.2.1, hf1.2.1]
    apply hheld
    rw [← hf1.2.2, ← hf2.2.2]; exact hp

theorem put_spec {cfg : Cfg} {s : State} (hi : Inv cfg s) (k v : Nat) :
    ∃ s', put cfg s k v = (s', .ok) ∧ Inv cfg s' := by
  have hpr : (s.proper && s.held v) = true → s.proper = true := by
    intro h; simp only [Bool.and_eq_true] at h; exact h.1
  have hdown : ∀ v', upd s.held v false v' = true → s.held v' = true := by
    intro v' h; simp only [upd_apply] at h; split at h
    · cases h
    · exact h
  -- ghost: did the caller hold v?
  have hiG : Inv cfg { s with proper := s.proper && s.held v } :=
    inv_conns hi s.conns s.held (s.proper && s.held v) (fun _ h => h) (fun _ h => h) hpr
  have hheldG : ({ s with proper := s.proper && s.held v } : State).proper = true →
      ({ s with proper := s.proper && s.held v } : State).held v = true := by
    intro h; simp only [Bool.and_eq_true] at h; exact h.2
  unfold put
  dsimp only
  split
  · next hneg =>
    refine ⟨_, rfl, ?_⟩
    unfold poolCloseConn
    dsimp only
    apply inv_conns hi _ _ _ _ hdown hpr
    intro v' hv'
    simp only [upd_apply]; split <;> simp_all
  · next hneg =>
    split
    · exact ⟨_, rfl, inv_conns hi s.conns _ _ (fun _ h => h) hdown hpr⟩
    · cases hl : s.locals k with
      | none =>
        simp only [upd_same]
        exact put_tail (l0 := {}) (k := k) v (inv_register hiG hl hneg) (upd_same _ _ _) hneg hheldG
      | some l =>
        simp only [hl]
        exact put_tail v hiG hl hneg hheldG

/-- what one run of the loop of `Take` guarantees, relative to the state it starts in -/
def TakeOk (s : State) (rest : List Nat) (r : State × Out) : Prop :=
  r.1.next = s.next ∧ r.1.conns = s.conns ∧
  match r.2 with
  | .miss => r.1.handouts = s.handouts
  | .taken e v => e ∈ rest ∧ v = (s.ents e).val ∧ (s.conns v).blocked = false ∧ (s.conns v).closed = false ∧
      ((s.ents e).exp = .none ∨ (s.ents e).exp = .armed) ∧ e ∉ r.1.order.items ∧
      (r.1.ents e).handed = true ∧ r.1.handouts = s.handouts ++ [e]
  | _ => False

theorem takeOk_step {s s1 : State} {e : Nat} {rest : List Nat} {r : State × Out}
    (h : TakeOk s1 rest r) (hn : s1.next = s.next) (hc : s1.conns = s.conns) (hh : s1.handouts = s.handouts)
    (he : ∀ e', e' ∈ rest → s1.ents e' = s.ents e') : TakeOk s (e :: rest) r := by
  unfold TakeOk at *
  obtain ⟨h1, h2, h3⟩ := h
  refine ⟨by rw [h1, hn], by rw [h2, hc], ?_⟩
  cases hr : r.2 with
  | miss => rw [hr] at h3; simp only at h3 ⊢; rw [h3, hh]
  | taken e' v =>
    rw [hr] at h3; simp only at h3 ⊢
    obtain ⟨a1, a2, a3, a4, a5, a6, a7, a8⟩ := h3
    rw [he e' a1, hc] at *
    exact ⟨List.mem_cons_of_mem _ a1, a2, a3, a4, a5, a6, a7, by rw [a8, hh]⟩
  | done => rw [hr] at h3; exact h3
  | panic => rw [hr] at h3; exact h3
  | stuck => rw [hr] at h3; exact h3

theorem takeLoop_spec {cfg : Cfg} {k : Nat} :
    ∀ (rest : List Nat) (s : State) (l : KList), Inv cfg s → s.locals k = some l → rest.Nodup →
      (∀ e, e ∈ rest → e ∈ l.items) →
      Inv cfg (takeLoop k rest s).1 ∧ TakeOk s rest (takeLoop k rest s) := by
  intro rest
  induction rest with
  | nil =>
    intro s l hi _ _ _
    exact ⟨hi, rfl, rfl, rfl⟩
  | cons e rest ih =>
    intro s l hi hl hnd hsub
    rw [List.nodup_cons] at hnd
    have hel : e ∈ l.items := hsub e (by simp)
    obtain ⟨hkey, hord⟩ := hi.struct.lg k l hl e hel
    have hlt := hi.struct.lt_of_mem hord
    have hsub' : ∀ e', e' ∈ rest → e' ∈ l.items := fun e' h => hsub e' (List.mem_cons_of_mem _ h)
    have hne : ∀ e', e' ∈ rest → e' ≠ e := fun e' h hee => hnd.1 (hee ▸ h)
    unfold takeLoop
    split
    · -- blocked: skipped, stays linked
      obtain ⟨h1, h2⟩ := ih s l hi hl hnd.2 hsub'
      exact ⟨h1, takeOk_step h2 rfl rfl rfl (fun _ _ => rfl)⟩
    · next hblk =>
      obtain ⟨l1, hl1, _, hun⟩ := unlink_linked hi.struct hord
      rw [hkey] at hl1 hun
      rw [hl] at hl1; cases hl1
      have ho := hi.owned e hlt
      unfold Owned at ho
      have ho' : OwnedW True (s.ents e) (s.conns (s.ents e).val).closed := ownedW_mono ho (by simp [hord]) id
      have hsubr : ∀ e', e' ∈ rest → e' ∈ (l.remove e).items :=
        fun e' h => mem_remove.mpr ⟨hsub' e' h, hne e' h⟩
      -- the state after unlinking e and replacing its record by x'
      have key : ∀ (x' : Entry), x'.key = (s.ents e).key → x'.gRemoved = true → x'.lRemoved = true →
          OwnedW False x' (s.conns x'.val).closed → x'.val = (s.ents e).val →
          (x'.exp = .fired → (s.ents e).exp = .fired) →
          let s' : State := { s with ents := upd s.ents e x', locals := upd s.locals k (some (l.remove e)),
                                     order := s.order.remove e }
          Inv cfg (takeLoop k rest s').1 ∧ TakeOk s (e :: rest) (takeLoop k rest s') := by
        intro x' hk hg hlr hown hval hfire s'
        have hi' : Inv cfg s' := by
          have := inv_unlink hi hord (hkey ▸ hl) x' s.conns s.handouts hk hg hlr (fun _ h => h) hown (.inl rfl)
            s.held hval hfire (.inl rfl)
          rw [hkey] at this; exact this
        obtain ⟨h1, h2⟩ := ih s' (l.remove e) hi' (by simp [s']) hnd.2 hsubr
        exact ⟨h1, takeOk_step h2 rfl rfl rfl (fun e' h => by simp [s', upd_other _ _ (hne e' h)])⟩
      rw [hun]
      simp only [upd_same]
      cases hexp : (s.ents e).exp
      case none =>
        simp only
        split
        · next hcl =>
          simp only [upd_upd_same]
          apply key
          · rfl
          · rfl
          · rfl
          · unfold OwnedW CachedW HandedW PoolClosedW DroppedW CallbackW at *
            simp_all
          · rfl
          · simp_all
        · next hcl =>
          simp only [upd_upd_same]
          constructor
          · have := inv_unlink hi hord (hkey ▸ hl)
              { s.ents e with lRemoved := true, gRemoved := true, handed := true } s.conns (s.handouts ++ [e])
              rfl rfl rfl (fun _ h => h)
              (by unfold OwnedW CachedW HandedW PoolClosedW DroppedW CallbackW at *; simp_all)
              (.inr ⟨rfl, rfl⟩) (upd s.held (s.ents e).val true) rfl (fun h => h)
              (.inr ⟨rfl, by simp [hexp]⟩)
            rw [hkey] at this; simpa [hexp] using this
          · refine ⟨rfl, rfl, ?_⟩
            simp only
            refine ⟨by simp, trivial, by simpa using hblk, by simpa using hcl, by simp [hexp], ?_, by simp, trivial⟩
            simp
      case armed =>
        simp only
        split
        · next hcl =>
          simp only [upd_upd_same]
          apply key
          · rfl
          · rfl
          · rfl
          · unfold OwnedW CachedW HandedW PoolClosedW DroppedW CallbackW at *
            simp_all
          · rfl
          · simp_all
        · next hcl =>
          simp only [upd_upd_same]
          constructor
          · have := inv_unlink hi hord (hkey ▸ hl)
              { s.ents e with lRemoved := true, gRemoved := true, exp := .stopped, handed := true } s.conns
              (s.handouts ++ [e]) rfl rfl rfl (fun _ h => h)
              (by unfold OwnedW CachedW HandedW PoolClosedW DroppedW CallbackW at *; simp_all)
              (.inr ⟨rfl, rfl⟩) (upd s.held (s.ents e).val true) rfl (by simp)
              (.inr ⟨rfl, by simp⟩)
            rw [hkey] at this; simpa [hexp] using this
          · refine ⟨rfl, rfl, ?_⟩
            simp only
            refine ⟨by simp, trivial, by simpa using hblk, by simpa using hcl, by simp [hexp], ?_, by simp, trivial⟩
            simp
      all_goals
        simp only
        apply key
        · rfl
        · rfl
        · rfl
        · unfold OwnedW CachedW HandedW PoolClosedW DroppedW CallbackW at *
          simp_all
        · rfl
        · simp_all

theorem take_spec {cfg : Cfg} {s : State} (hi : Inv cfg s) (k : Nat) :
    Inv cfg (take s k).1 ∧
      ((take s k).2 = .miss ∨ ∃ e v l, (take s k).2 = .taken e v ∧ s.locals k = some l ∧ e ∈ l.items ∧
        TakeOk s l.items (take s k)) := by
  unfold take
  cases hl : s.locals k with
  | none => exact ⟨hi, .inl rfl⟩
  | some l =>
    simp only
    obtain ⟨h1, h2⟩ := takeLoop_spec (cfg := cfg) (k := k) l.items s l hi hl (hi.struct.nodupL k l hl) (fun _ h => h)
    refine ⟨h1, ?_⟩
    cases hr : (takeLoop k l.items s).2 with
    | miss => exact .inl rfl
    | taken e v =>
      refine .inr ⟨e, v, l, rfl, rfl, ?_, h2⟩
      have := h2.2.2
      rw [hr] at this
      exact this.1
    | done => have := h2.2.2; rw [hr] at this; exact absurd this id
    | panic => have := h2.2.2; rw [hr] at this; exact absurd this id
    | stuck => have := h2.2.2; rw [hr] at this; exact absurd this id

/-- the loop of `Close` -/
theorem closeAll_spec : ∀ (es : List Nat) (s : State), es.Nodup →
    (closeAll es s).next = s.next ∧
    ((closeAll es s).handouts = s.handouts ∧ (closeAll es s).held = s.held ∧ (closeAll es s).proper = s.proper) ∧
    (closeAll es s).order = s.order ∧ (closeAll es s).locals = s.locals ∧
    (∀ v, (s.conns v).closed = true → ((closeAll es s).conns v).closed = true) ∧
    (∀ e, e ∉ es → (closeAll es s).ents e = s.ents e) ∧
    (∀ e, e ∈ es → (closeAll es s).ents e = { closeEnt (s.ents e) with lRemoved := true, gRemoved := true } ∧
      ((s.ents e).exp = .none ∨ (s.ents e).exp = .armed → ((closeAll es s).conns (s.ents e).val).closed = true)) := by
  intro es
  induction es with
  | nil => intro s _; exact ⟨rfl, ⟨rfl, rfl, rfl⟩, rfl, rfl, fun _ h => h, fun _ _ => rfl, fun _ h => by cases h⟩
  | cons a rest ih =>
    intro s hnd
    rw [List.nodup_cons] at hnd
    obtain ⟨c', heq, hc1, hc2⟩ := closeEntry_spec s a
    unfold closeAll
    simp only [heq, upd_same, upd_upd_same]
    obtain ⟨h1, h2, h3, h4, h5, h6, h7⟩ := ih
      { s with ents := upd s.ents a { closeEnt (s.ents a) with gRemoved := true, lRemoved := true }, conns := c' } hnd.2
    refine ⟨h1, h2, h3, h4, fun v hv => h5 v (hc1 v hv), ?_, ?_⟩
    · intro e he
      simp only [List.mem_cons, not_or] at he
      rw [h6 e he.2]
      simp [upd_other _ _ he.1]
    · intro e he
      rcases List.mem_cons.mp he with hea | her
      · subst hea
        rw [h6 e hnd.1]
        refine ⟨by simp, fun hx => h5 _ (hc2 hx)⟩
      · have hne : e ≠ a := fun h => hnd.1 (h ▸ her)
        obtain ⟨k1, k2⟩ := h7 e her
        simp only [upd_other _ _ hne] at k1 k2
        exact ⟨k1, k2⟩

theorem inv_close {cfg : Cfg} {s : State} (hi : Inv cfg s) : Inv cfg (close s) := by
  obtain ⟨h1, h2, h3, h4, h5, h6, h7⟩ := closeAll_spec s.order.items s hi.struct.nodupG
  unfold close
  constructor
  · constructor
    · exact List.nodup_nil
    · intro k l h; cases h
    · rfl
    · intro k l h; cases h
    · intro e h; cases h
    · intro k l h; cases h
    · intro e hlt _
      simp only at hlt ⊢
      rw [h1] at hlt
      by_cases hin : e ∈ s.order.items
      · rw [(h7 e hin).1]; simp
      · rw [h6 e hin]; exact hi.struct.unl e hlt hin
  · intro e hlt
    simp only at hlt
    rw [h1] at hlt
    have ho := hi.owned e hlt
    unfold Owned at ho ⊢
    simp only
    by_cases hin : e ∈ s.order.items
    · obtain ⟨k1, k2⟩ := h7 e hin
      rw [k1]
      have hval : (closeEnt (s.ents e)).val = (s.ents e).val := by unfold closeEnt; split <;> rfl
      simp only [hval]
      have ho' : OwnedW True (s.ents e) (s.conns (s.ents e).val).closed := ownedW_mono ho (by simp [hin]) id
      exact ownedW_mono (evict_owned ho' (h5 _) k2) (by simp) id
    · rw [h6 e hin]
      exact ownedW_mono ho (by simp [hin]) (h5 _)
  · refine ⟨?_, ?_, ?_⟩
    · intro h; show (0 : Int) ≤ _; omega
    · intro _ k l h; cases h
    · intro _; exact ⟨rfl, fun _ => rfl⟩
  · constructor
    · show (closeAll s.order.items s).handouts.Nodup
      rw [h2.1]; exact hi.hand.nodup
    · intro e hin
      have hin' : e ∈ (closeAll s.order.items s).handouts := hin
      rw [h2.1] at hin'
      obtain ⟨k1, k2⟩ := hi.hand.handed e hin'
      refine ⟨by show e < (closeAll s.order.items s).next; rw [h1]; exact k1, ?_⟩
      show ((closeAll s.order.items s).ents e).handed = true
      have hnl : e ∉ s.order.items := fun h => by
        have := (hi.linked_not_handed h).1
        rw [k2] at this; cases this
      rw [h6 e hnl]; exact k2
  · intro hp
    have hp' : s.proper = true := by
      have : (closeAll s.order.items s).proper = true := hp
      rw [h2.2.2] at this; exact this
    have K := hi.conn hp'
    have hents : ∀ e, ((closeAll s.order.items s).ents e).val = (s.ents e).val ∧
        (((closeAll s.order.items s).ents e).exp = .fired → (s.ents e).exp = .fired) := by
      intro e
      by_cases hin : e ∈ s.order.items
      · rw [(h7 e hin).1]
        unfold closeEnt
        split <;> simp_all
      · rw [h6 e hin]; exact ⟨rfl, fun h => h⟩
    refine connInv_mono K h1 (fun e _ => (hents e).1) ?_ ?_
    · intro e _ hl
      unfold Live at hl ⊢
      rcases hl with hl | hl
      · cases hl
      · exact .inr ((hents e).2 hl)
    · intro v hv
      have : (closeAll s.order.items s).held v = true := hv
      rw [h2.2.1] at this; exact this

theorem unlink_unlinked {s : State} (hs : Struct s) {e : Nat} (hlt : e < s.next) (hn : e ∉ s.order.items)
    (k : Nat) : unlink s k e = s := by
  obtain ⟨hg, hl⟩ := hs.unl e hlt hn
  unfold unlink removeLocal removeGlobal
  cases s.locals k <;> simp [hg, hl]

/-- the expiry callback's `p.removeEntry(ent)` followed by its end -/
theorem inv_cbRemove {cfg : Cfg} {s : State} (hi : Inv cfg s) {e : Nat} (hlt : e < s.next)
    (hexp : (s.ents e).exp = .cbClosed) :
    Inv cfg { poolRemove s e with ents := upd (poolRemove s e).ents e { (poolRemove s e).ents e with exp := .cbDone } } := by
  have ho := hi.owned e hlt
  unfold Owned at ho
  generalize hp : poolRemove s e = s1
  unfold poolRemove at hp
  by_cases hin : e ∈ s.order.items
  · -- still linked: unlinked now
    obtain ⟨l, hl, hel, hun⟩ := unlink_linked hi.struct hin
    have ho' : OwnedW True (s.ents e) (s.conns (s.ents e).val).closed := ownedW_mono ho (by simp [hin]) id
    have hA := inv_unlink hi hin hl { s.ents e with lRemoved := true, gRemoved := true, exp := .cbDone }
      s.conns s.handouts rfl rfl rfl (fun _ h => h)
      (by unfold OwnedW CachedW HandedW PoolClosedW DroppedW CallbackW at *; simp_all) (.inl rfl)
      s.held rfl (by simp) (.inl rfl)
    simp only [hl, hun, upd_same] at hp
    split at hp
    · next h0 =>
      subst hp
      simp only [upd_same, upd_upd_same]
      have := inv_delete hA (k := (s.ents e).key) (upd_same _ _ _) h0
      simpa using this
    · subst hp
      simp only [upd_same, upd_upd_same]
      exact hA
  · -- already unlinked by Take, an eviction or Close: nothing to unlink
    have hown : OwnedW (e ∈ s.order.items) { s.ents e with exp := Exp.cbDone } (s.conns (s.ents e).val).closed := by
      unfold OwnedW CachedW HandedW PoolClosedW DroppedW CallbackW at *; simp_all
    cases hl : s.locals (s.ents e).key with
    | none =>
      simp only [hl] at hp
      subst hp
      exact inv_local hi e { s.ents e with exp := Exp.cbDone } s.conns rfl rfl rfl (fun h => h) (fun _ h => h) (fun _ => hown) rfl (by simp)
    | some l =>
      simp only [unlink_unlinked hi.struct hlt hin, hl] at hp
      split at hp
      · next h0 =>
        subst hp
        have hD := inv_delete hi hl h0
        exact inv_local hD e { s.ents e with exp := Exp.cbDone } s.conns rfl rfl rfl (fun h => h) (fun _ h => h) (fun _ => hown) rfl (by simp)
      · subst hp
        exact inv_local hi e { s.ents e with exp := Exp.cbDone } s.conns rfl rfl rfl (fun h => h) (fun _ h => h) (fun _ => hown) rfl (by simp)

theorem inv_init (cfg : Cfg) : Inv cfg init := by
  constructor
  · constructor
    · exact List.nodup_nil
    · intro k l h; cases h
    · rfl
    · intro k l h; cases h
    · intro e h; cases h
    · intro k l h; cases h
    · intro e h; cases h
  · intro e h; cases h
  · refine ⟨?_, ?_, ?_⟩
    · intro h; show (0 : Int) ≤ _; omega
    · intro _ k l h; cases h
    · intro _; exact ⟨rfl, fun _ => rfl⟩
  · exact ⟨List.nodup_nil, fun e h => by cases h⟩
  · intro _
    constructor
    · intro e h; exact absurd h (Nat.not_lt_zero _)
    · intro e1 e2 h; exact absurd h (Nat.not_lt_zero _)

/-- every operation and event preserves the invariant, and none panics -/
theorem inv_step {cfg : Cfg} {s : State} (hi : Inv cfg s) (op : Op) :
    Inv cfg (step cfg s op).1 ∧ (step cfg s op).2 ≠ .panic ∧ (step cfg s op).2 ≠ .stuck := by
  cases op with
  | put k v =>
    obtain ⟨s', h1, h2⟩ := put_spec hi k v
    simp only [step, h1]
    exact ⟨h2, by simp, by simp⟩
  | take k =>
    obtain ⟨h1, h2⟩ := take_spec hi k
    simp only [step]
    refine ⟨h1, ?_, ?_⟩
    · rcases h2 with h2 | ⟨e, v, l, h2, _⟩ <;> rw [h2] <;> simp
    · rcases h2 with h2 | ⟨e, v, l, h2, _⟩ <;> rw [h2] <;> simp
  | close => exact ⟨inv_close hi, by simp [step], by simp [step]⟩
  | fire e =>
    simp only [step]
    split
    · next h =>
      refine ⟨?_, by simp, by simp⟩
      dsimp only
      have hlk : e ∈ s.order.items := by
        have ho := hi.owned e h.1
        unfold Owned OwnedW CachedW HandedW PoolClosedW DroppedW CallbackW at ho
        have hx := h.2
        rcases ho with g | g | g | g | g
        · exact g.1
        · rcases g.2.1 with g1 | g1 <;> rw [g1] at hx <;> cases hx
        · rcases g.2.1 with g1 | g1 <;> rw [g1] at hx <;> cases hx
        · rcases g.2.1 with g1 | g1 <;> rw [g1] at hx <;> cases hx
        · rcases g.1 with g1 | g1 | g1
          · rw [g1] at hx; cases hx
          · rw [g1.1] at hx; cases hx
          · rw [g1.1] at hx; cases hx
      refine inv_local hi e _ s.conns ?_ ?_ ?_ ?_ (fun _ h => h) ?_ ?_ ?_
      · rfl
      · rfl
      · rfl
      · exact fun h => h
      · intro hlt
        have ho := hi.owned e hlt
        unfold Owned at ho
        unfold OwnedW CachedW HandedW PoolClosedW DroppedW CallbackW at *
        simp_all
      · rfl
      · exact fun _ => .inr hlk
    · exact ⟨hi, by simp, by simp⟩
  | cbClose e =>
    simp only [step]
    split
    · next h =>
      refine ⟨?_, by simp, by simp⟩
      dsimp only
      refine inv_local hi e _ _ ?_ ?_ ?_ ?_ ?_ ?_ ?_ ?_
      · rfl
      · rfl
      · rfl
      · exact fun h => h
      · intro v hv; simp only [upd_apply]; split <;> simp_all
      · intro hlt
        have ho := hi.owned e hlt
        unfold Owned at ho
        unfold OwnedW CachedW HandedW PoolClosedW DroppedW CallbackW at *
        simp_all
      · rfl
      · intro hx; cases hx
    · exact ⟨hi, by simp, by simp⟩
  | cbRemove e =>
    simp only [step]
    split
    · next h => exact ⟨inv_cbRemove hi h.1 h.2, by simp, by simp⟩
    · exact ⟨hi, by simp, by simp⟩
  | envClose v =>
    refine ⟨?_, by simp [step], by simp [step]⟩
    simp only [step]
    refine inv_conns hi _ s.held s.proper ?_ (fun _ h => h) (fun h => h)
    intro v' hv'; simp only [upd_apply]; split <;> simp_all
  | block v =>
    refine ⟨?_, by simp [step], by simp [step]⟩
    simp only [step]
    refine inv_conns hi _ s.held s.proper ?_ (fun _ h => h) (fun h => h)
    intro v' hv'; simp only [upd_apply]; split <;> simp_all
  | unblock v =>
    refine ⟨?_, by simp [step], by simp [step]⟩
    simp only [step]
    refine inv_conns hi _ s.held s.proper ?_ (fun _ h => h) (fun h => h)
    intro v' hv'; simp only [upd_apply]; split <;> simp_all

theorem inv_run {cfg : Cfg} : ∀ (ops : List Op) (s : State), Inv cfg s → Inv cfg (run cfg s ops)
  | [], _, h => h
  | op :: ops, _, h => inv_run ops _ (inv_step h op).1

/-! handouts only change in Take -/
theorem handouts_removeLocal (s : State) (k e : Nat) : (removeLocal s k e).handouts = s.handouts := by
  unfold removeLocal; split
  · rfl
  · split <;> rfl
theorem handouts_removeGlobal (s : State) (e : Nat) : (removeGlobal s e).handouts = s.handouts := by
  unfold removeGlobal; split <;> rfl
theorem handouts_unlink (s : State) (k e : Nat) : (unlink s k e).handouts = s.handouts := by
  unfold unlink; rw [handouts_removeGlobal, handouts_removeLocal]
theorem handouts_closeEntry (s : State) (e : Nat) : (closeEntry s e).handouts = s.handouts := by
  unfold closeEntry poolCloseConn; split <;> rfl
theorem handouts_keyLoop (cfg : Cfg) (k : Nat) : ∀ n s, (keyLoop cfg k n s).1.handouts = s.handouts := by
  intro n; induction n with
  | zero => intro s; rfl
  | succ n ih =>
    intro s; unfold keyLoop
    split
    · rfl
    · split
      · split
        · rfl
        · rw [ih, handouts_unlink, handouts_closeEntry]
      · rfl
theorem handouts_capLoop (cfg : Cfg) (k : Nat) : ∀ n s, (capLoop cfg k n s).1.handouts = s.handouts := by
  intro n; induction n with
  | zero => intro s; rfl
  | succ n ih =>
    intro s; unfold capLoop
    split
    · split
      · rfl
      · dsimp only
        split
        · exact handouts_closeEntry _ _
        · rw [ih]
          split
          · split <;> simp [handouts_unlink, handouts_closeEntry]
          · simp [handouts_unlink, handouts_closeEntry]
    · rfl

theorem handouts_put (cfg : Cfg) (s : State) (k v : Nat) : (put cfg s k v).1.handouts = s.handouts := by
  unfold put
  dsimp only
  split
  · rfl
  · split
    · rfl
    · have h0 : (match s.locals k with
          | none => ({ s with locals := upd s.locals k (some {}), proper := s.proper && s.held v } : State)
          | some _ => { s with proper := s.proper && s.held v }).handouts = s.handouts := by split <;> rfl
      split
      · next s1 heq1 =>
        have h1 : s1.handouts = _ := (congrArg (fun r : State × Status => r.1.handouts) heq1).symm.trans (handouts_keyLoop cfg k _ _)
        split
        · next s2 heq2 =>
          have h2 : s2.handouts = _ := (congrArg (fun r : State × Status => r.1.handouts) heq2).symm.trans (handouts_capLoop cfg k _ _)
          unfold insert
          split
          · exact h2.trans (h1.trans h0)
          · exact h2.trans (h1.trans h0)
        · rw [handouts_capLoop]; exact h1.trans h0
      · rw [handouts_keyLoop]; exact h0

theorem handouts_closeAll : ∀ es s, (closeAll es s).handouts = s.handouts := by
  intro es; induction es with
  | nil => intro s; rfl
  | cons a t ih => intro s; unfold closeAll; dsimp only; rw [ih]; exact handouts_closeEntry _ _

theorem handouts_poolRemove (s : State) (e : Nat) : (poolRemove s e).handouts = s.handouts := by
  unfold poolRemove
  dsimp only
  split
  · rfl
  · split
    · split <;> simp [handouts_unlink]
    · simp [handouts_unlink]


/-! ### the hand-outs of a run are exactly what its `Take`s returned -/

/-- the entry ids returned by the `Take`s of a run, oldest first -/
def takenIds : List Out → List Nat
  | [] => []
  | .taken e _ :: os => e :: takenIds os
  | _ :: os => takenIds os

theorem takenIds_append (a b : List Out) : takenIds (a ++ b) = takenIds a ++ takenIds b := by
  induction a with
  | nil => rfl
  | cons o os ih => cases o <;> simp [takenIds, ih]

/-- one step appends to the ghost list of hand-outs exactly what it returns -/
theorem step_handouts {cfg : Cfg} {s : State} (hi : Inv cfg s) (op : Op) :
    (step cfg s op).1.handouts = s.handouts ++ takenIds [(step cfg s op).2] := by
  cases op with
  | put k v =>
    have h := handouts_put cfg s k v
    simp only [step]
    cases hp : put cfg s k v with
    | mk s' st => rw [hp] at h; cases st <;> simpa [takenIds] using h
  | take k =>
    obtain ⟨_, hres⟩ := take_spec hi k
    simp only [step]
    rcases hres with hm | ⟨e, v, l, hr, hl, _, hok⟩
    · have hl : ∀ l, s.locals k = some l → (takeLoop k l.items s).1.handouts = s.handouts := by
        intro l hl
        have := (takeLoop_spec (cfg := cfg) (k := k) l.items s l hi hl (hi.struct.nodupL k l hl) (fun _ h => h)).2.2.2
        have hm' : (takeLoop k l.items s).2 = .miss := by
          unfold take at hm; simp only [hl] at hm; exact hm
        rw [hm'] at this; exact this
      rw [hm]
      unfold take
      cases hk : s.locals k with
      | none => simp [takenIds]
      | some l => simp [takenIds, hl l hk]
    · have := hok.2.2
      rw [hr] at this ⊢
      simp [takenIds, this.2.2.2.2.2.2.2]
  | close =>
    simp only [step, close, takenIds, List.append_nil]
    exact handouts_closeAll _ _
  | fire e => simp only [step]; split <;> simp [takenIds]
  | cbClose e => simp only [step]; split <;> simp [takenIds]
  | cbRemove e => simp only [step]; split <;> simp [takenIds, handouts_poolRemove]
  | envClose v => simp [step, takenIds]
  | block v => simp [step, takenIds]
  | unblock v => simp [step, takenIds]

theorem run_handouts {cfg : Cfg} : ∀ (ops : List Op) (s : State), Inv cfg s →
    (run cfg s ops).handouts = s.handouts ++ takenIds (outs cfg s ops)
  | [], s, _ => by simp [run, outs, takenIds]
  | op :: ops, s, hi => by
    have h1 := step_handouts hi op
    have h2 := run_handouts ops _ (inv_step hi op).1
    simp only [run, outs]
    rw [h2, h1, List.append_assoc, ← takenIds_append]
    rfl

end Drpc.Pool
