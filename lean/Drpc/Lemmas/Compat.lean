import Drpc.Wire.Compat
import Drpc.Lemmas.Reader
import Drpc.Lemmas.Roundtrip
namespace Drpc.Old
open Drpc

theorem reparse_token {p rem : Bytes} {fr : Frame} (h : parseFrame p = .ok rem fr) :
    parseFrame (p.take (p.length - rem.length)) = .ok [] fr := by
  rw [parse_eq] at h
  obtain ⟨q, hq, _, hall⟩ := parse_ok_prefix h
  subst hq
  have : (q ++ rem).length - rem.length = q.length := by simp
  rw [this, List.take_left']
  · have := hall []
    simpa [parse_eq] using this
  · rfl

theorem oldDrain_short {sid cur p} (h : parseFrame p = .short) : oldDrain sid cur p = ([], .stuck sid cur p) := by
  rw [oldDrain]; split <;> simp_all

theorem oldDrain_err {sid cur p} (h : parseFrame p = .err) : oldDrain sid cur p = ([], .failed .varint) := by
  rw [oldDrain]; split <;> simp_all

theorem oldDrain_ok {sid cur p rem fr} (h : parseFrame p = .ok rem fr) :
    oldDrain sid cur p =
      match oldStep sid cur fr with
      | .error => ([], .failed .protocol)
      | .skip => oldDrain sid cur rem
      | .cont sid' c => oldDrain sid' c rem
      | .emit pkt sid' => (pkt :: (oldDrain sid' OCur.zero rem).1, (oldDrain sid' OCur.zero rem).2) := by
  rw [oldDrain]
  split
  · simp_all
  · simp_all
  · simp_all
  · rename_i rem' fr' h'
    rw [h] at h'
    cases h'
    rw [reparse_token h]
    simp only [List.length_nil, Nat.lt_irrefl, ↓reduceIte]
    split <;> simp_all

/-! ### the chunk-independent reference of the old reader -/

/-- the scanner gives up (ErrTooLong) when the next `maxTok` bytes hold neither a complete frame
    nor a malformed header -/
def tooLongAt (pending : Bytes) : Prop :=
  pending.length ≥ maxTok ∧ parseFrame (pending.take maxTok) = .short

instance (p : Bytes) : Decidable (tooLongAt p) := by unfold tooLongAt; infer_instance

/-- Reference reassembly of v0.0.17: cut frames off the byte stream, give up with ErrTooLong
    when 1 MiB does not contain one, skip control frames, fold the old rules.  A function of the
    bytes only. -/
def oldRefDrain (sid : U64 × U64) (cur : OCur) (pending : Bytes) : List OPacket × ODrainEnd :=
  if tooLongAt pending then ([], .failed .tooLong) else
  match h : parseFrame pending with
  | .short => ([], .stuck sid cur pending)
  | .err => ([], .failed .varint)
  | .panic => ([], .failed .internal)
  | .ok rem fr =>
    have : rem.length < pending.length := parse_ok_length h
    match oldStep sid cur fr with
    | .error => ([], .failed .protocol)
    | .skip => oldRefDrain sid cur rem
    | .cont sid' c => oldRefDrain sid' c rem
    | .emit pkt sid' =>
      let (ps, e) := oldRefDrain sid' OCur.zero rem
      (pkt :: ps, e)
termination_by pending.length

/-- how a stream ends once every complete frame has been consumed: a non-empty tail at io.EOF is
    a "truncated frame" ProtocolError, otherwise the transport's own error -/
def oldFinish (final : Nat) : List OPacket × ODrainEnd → List OPacket × OErr
  | (pk, .failed e) => (pk, e)
  | (pk, .stuck _ _ r) => (pk, if r ≠ [] ∧ final = 0 then .protocol else .transport final)

theorem oldRef_tooLong {sid cur p} (h : tooLongAt p) : oldRefDrain sid cur p = ([], .failed .tooLong) := by
  rw [oldRefDrain]; simp [h]

theorem oldRef_short {sid cur p} (ht : ¬ tooLongAt p) (h : parseFrame p = .short) :
    oldRefDrain sid cur p = ([], .stuck sid cur p) := by
  rw [oldRefDrain]; simp only [ht, ↓reduceIte]; split <;> simp_all

theorem oldRef_err {sid cur p} (ht : ¬ tooLongAt p) (h : parseFrame p = .err) :
    oldRefDrain sid cur p = ([], .failed .varint) := by
  rw [oldRefDrain]; simp only [ht, ↓reduceIte]; split <;> simp_all

theorem oldRef_ok {sid cur p rem fr} (ht : ¬ tooLongAt p) (h : parseFrame p = .ok rem fr) :
    oldRefDrain sid cur p =
      match oldStep sid cur fr with
      | .error => ([], .failed .protocol)
      | .skip => oldRefDrain sid cur rem
      | .cont sid' c => oldRefDrain sid' c rem
      | .emit pkt sid' => (pkt :: (oldRefDrain sid' OCur.zero rem).1, (oldRefDrain sid' OCur.zero rem).2) := by
  rw [oldRefDrain]; simp only [ht, ↓reduceIte]
  split
  · simp_all
  · simp_all
  · simp_all
  · rename_i rem' fr' h'
    rw [h] at h'
    cases h'
    split <;> simp_all

theorem parse_no_panic (b : Bytes) : parseFrame b ≠ .panic := Drpc.parse_no_panic b

/-- a prefix of "need more data" is "need more data" -/
theorem prefix_of_short {a b : Bytes} (h : parseFrame (a ++ b) = .short) : parseFrame a = .short := by
  cases ha : parseFrame a with
  | short => rfl
  | err => rw [parse_eq] at ha h; rw [parse_ext_err ha] at h; cases h
  | panic => exact absurd ha (parse_no_panic a)
  | ok rem fr => rw [parse_eq] at ha h; rw [parse_ext_ok ha] at h; cases h

/-- within `maxTok` bytes that parse or are malformed, the scanner does not give up -/
theorem not_tooLong_of_prefix {p b : Bytes} (hl : p.length ≤ maxTok) (hp : parseFrame p ≠ .short) :
    ¬ tooLongAt (p ++ b) := by
  rintro ⟨_, hs⟩
  apply hp
  have : (p ++ b).take maxTok = p ++ b.take (maxTok - p.length) := by
    rw [List.take_append]
    congr 1
    exact List.take_of_length_le hl
  rw [this] at hs
  exact prefix_of_short hs

/-- continue a drain of buffered bytes with the rest of the stream -/
def oldExtend (b : Bytes) : List OPacket × ODrainEnd → List OPacket × ODrainEnd
  | (pk, .failed e) => (pk, .failed e)
  | (pk, .stuck sid cur r) => (pk ++ (oldRefDrain sid cur (r ++ b)).1, (oldRefDrain sid cur (r ++ b)).2)

theorem oldExtend_cons (b : Bytes) (pkt : OPacket) (res : List OPacket × ODrainEnd) :
    oldExtend b (pkt :: res.1, res.2) = (pkt :: (oldExtend b res).1, (oldExtend b res).2) := by
  obtain ⟨pk, e⟩ := res
  cases e <;> simp [oldExtend]

/-- what the scanner cuts from a buffer of at most `maxTok` bytes is a prefix of the reference -/
theorem oldRef_append (b : Bytes) : ∀ (n : Nat) (p : Bytes) (sid : U64 × U64) (cur : OCur),
    p.length ≤ n → p.length ≤ maxTok →
    oldRefDrain sid cur (p ++ b) = oldExtend b (oldDrain sid cur p) := by
  intro n
  induction n with
  | zero =>
    intro p sid cur hn _
    have : p = [] := List.length_eq_zero_iff.mp (by omega)
    subst this
    have hs : parseFrame ([] : Bytes) = .short := by simp [parseFrame]
    simp [oldDrain_short hs, oldExtend]
  | succ n ih =>
    intro p sid cur hn hm
    cases hp : parseFrame p with
    | short => simp [oldDrain_short hp, oldExtend]
    | panic => exact absurd hp (parse_no_panic p)
    | err =>
      have ht := not_tooLong_of_prefix (b := b) hm (by rw [hp]; simp)
      have hp' : parseFrame (p ++ b) = .err := by rw [parse_eq] at hp ⊢; exact parse_ext_err hp
      simp [oldDrain_err hp, oldRef_err ht hp', oldExtend]
    | ok rem fr =>
      have ht := not_tooLong_of_prefix (b := b) hm (by rw [hp]; simp)
      have hp' : parseFrame (p ++ b) = .ok (rem ++ b) fr := by rw [parse_eq] at hp ⊢; exact parse_ext_ok hp
      have hlen := parse_ok_length hp
      rw [oldDrain_ok hp, oldRef_ok ht hp']
      cases hs : oldStep sid cur fr with
      | error => simp [oldExtend]
      | skip => simp only; exact ih rem sid cur (by omega) (by omega)
      | cont sid' c => simp only; exact ih rem sid' c (by omega) (by omega)
      | emit pkt sid' =>
        simp only
        rw [ih rem sid' OCur.zero (by omega) (by omega)]
        exact (oldExtend_cons b pkt _).symm

/-- where a drain gets stuck: on a suffix of its input that needs more data -/
theorem oldDrain_stuck : ∀ (n : Nat) (p : Bytes) (sid : U64 × U64) (cur : OCur) pk sid' cur' r,
    p.length ≤ n → oldDrain sid cur p = (pk, .stuck sid' cur' r) →
    parseFrame r = .short ∧ r.length ≤ p.length := by
  intro n
  induction n with
  | zero =>
    intro p sid cur pk sid' cur' r hn h
    have : p = [] := List.length_eq_zero_iff.mp (by omega)
    subst this
    have hs : parseFrame ([] : Bytes) = .short := by simp [parseFrame]
    rw [oldDrain_short hs] at h
    cases h; exact ⟨hs, Nat.le_refl _⟩
  | succ n ih =>
    intro p sid cur pk sid' cur' r hn h
    cases hp : parseFrame p with
    | short => rw [oldDrain_short hp] at h; cases h; exact ⟨hp, Nat.le_refl _⟩
    | err => rw [oldDrain_err hp] at h; cases h
    | panic => exact absurd hp (parse_no_panic p)
    | ok rem fr =>
      have hlen := parse_ok_length hp
      rw [oldDrain_ok hp] at h
      cases hs : oldStep sid cur fr with
      | error => rw [hs] at h; cases h
      | skip =>
        rw [hs] at h
        have := ih rem sid cur pk sid' cur' r (by omega) h
        exact ⟨this.1, by omega⟩
      | cont sid2 c =>
        rw [hs] at h
        have := ih rem sid2 c pk sid' cur' r (by omega) h
        exact ⟨this.1, by omega⟩
      | emit pkt sid2 =>
        rw [hs] at h
        simp only at h
        cases hd : oldDrain sid2 OCur.zero rem with
        | mk pk2 e2 =>
          rw [hd] at h
          cases h
          have := ih rem sid2 OCur.zero pk2 sid' cur' r (by omega) hd
          exact ⟨this.1, by omega⟩

/-! ### the scanner's read loop equals the reference, for every chunking -/

theorem shiftStart_cases (start blen r : Nat) :
    (shiftStart start blen r = start ∧ (start + r = blen → start = 0)) ∨
    (shiftStart start blen r = 0 ∧ 0 < start) := by
  unfold shiftStart
  split
  · right; omega
  · left; refine ⟨rfl, ?_⟩; omega

theorem scanGeom_none {start blen r : Nat} (hinv : start + r ≤ blen) (hmax : blen ≤ maxTok)
    (h : scanGeom start blen r = none) : start = 0 ∧ r = maxTok := by
  unfold scanGeom at h
  have hc := shiftStart_cases start blen r
  generalize shiftStart start blen r = s1 at h hc
  simp only at h
  split at h
  · split at h
    · omega
    · cases h
  · cases h

theorem scanGeom_some {start blen r s2 b2 : Nat} (hinv : start + r ≤ blen) (hmax : blen ≤ maxTok)
    (hpos : 0 < blen) (h : scanGeom start blen r = some (s2, b2)) :
    s2 + r < b2 ∧ b2 ≤ maxTok ∧ 0 < b2 := by
  unfold scanGeom at h
  have hc := shiftStart_cases start blen r
  generalize shiftStart start blen r = s1 at h hc
  simp only at h
  split at h
  · split at h
    · cases h
    · simp only [Option.some.injEq, Prod.mk.injEq] at h
      obtain ⟨rfl, rfl⟩ := h
      split <;> omega
  · simp only [Option.some.injEq, Prod.mk.injEq] at h
    obtain ⟨rfl, rfl⟩ := h
    omega

theorem oldFeed_eq_ref (choose : Nat → Nat) (final : Nat) :
    ∀ (n : Nat) (remaining : Bytes), remaining.length ≤ n →
    ∀ (step : Nat) (sid : U64 × U64) (cur : OCur) (start blen : Nat) (rest : Bytes),
    parseFrame rest = .short → start + rest.length ≤ blen → blen ≤ maxTok → 0 < blen →
    oldFeed choose final step sid cur start blen rest remaining =
      oldFinish final (oldRefDrain sid cur (rest ++ remaining)) := by
  intro n
  induction n with
  | zero =>
    intro remaining hn step sid cur start blen rest hs hinv hmax hpos
    have : remaining = [] := List.length_eq_zero_iff.mp (by omega)
    subst this
    rw [oldFeed]
    cases hg : scanGeom start blen rest.length with
    | none =>
      obtain ⟨_, hr⟩ := scanGeom_none hinv hmax hg
      have ht : tooLongAt (rest ++ []) := by
        refine ⟨by simp; omega, ?_⟩
        rw [List.append_nil, List.take_of_length_le (by omega)]; exact hs
      rw [List.append_nil] at ht ⊢
      simp [oldRef_tooLong ht, oldFinish]
    | some g =>
      obtain ⟨s2, b2⟩ := g
      obtain ⟨h1, h2, _⟩ := scanGeom_some hinv hmax hpos hg
      have ht : ¬ tooLongAt (rest ++ []) := by
        rintro ⟨hl, _⟩; simp at hl; omega
      rw [List.append_nil] at ht ⊢
      simp [oldRef_short ht hs, oldFinish]
  | succ n ih =>
    intro remaining hn step sid cur start blen rest hs hinv hmax hpos
    rw [oldFeed]
    cases hg : scanGeom start blen rest.length with
    | none =>
      obtain ⟨_, hr⟩ := scanGeom_none hinv hmax hg
      have ht : tooLongAt (rest ++ remaining) := by
        refine ⟨by simp; omega, ?_⟩
        rw [List.take_append_of_le_length (by omega), List.take_of_length_le (by omega)]; exact hs
      simp [oldRef_tooLong ht, oldFinish]
    | some g =>
      obtain ⟨s2, b2⟩ := g
      obtain ⟨h1, h2, h3⟩ := scanGeom_some hinv hmax hpos hg
      simp only
      by_cases hrem : remaining = []
      · subst hrem
        have ht : ¬ tooLongAt (rest ++ []) := by
          rintro ⟨hl, _⟩; simp at hl; omega
        rw [List.append_nil] at ht ⊢
        simp [oldRef_short ht hs, oldFinish]
      · simp only [hrem, ↓reduceDIte]
        generalize hn' : clampRead (choose step) (b2 - (s2 + rest.length)) remaining.length = k
        have hrl : 0 < remaining.length := List.length_pos_iff.mpr hrem
        have hk : 1 ≤ k := by rw [← hn']; exact clampRead_pos _ _ _
        have hkle := clampRead_le (choose step) (b2 - (s2 + rest.length)) remaining.length (by omega) (by omega)
        rw [hn'] at hkle
        have hsplit : rest ++ remaining = (rest ++ remaining.take k) ++ remaining.drop k := by
          simp [List.take_append_drop]
        have hp1 : (rest ++ remaining.take k).length ≤ maxTok := by
          simp [List.length_take]; omega
        rw [hsplit, oldRef_append (remaining.drop k) _ (rest ++ remaining.take k) sid cur (Nat.le_refl _) hp1]
        cases hd : oldDrain sid cur (rest ++ List.take k remaining) with
        | mk pk e =>
          cases e with
          | failed e => simp [oldExtend, oldFinish]
          | stuck sid' cur' rest' =>
            obtain ⟨hs', hle'⟩ := oldDrain_stuck _ _ _ _ _ _ _ _ (Nat.le_refl _) hd
            have hlen : (remaining.drop k).length ≤ n := by simp [List.length_drop]; omega
            have hl1 : (rest ++ List.take k remaining).length = rest.length + k := by
              simp [List.length_take]; omega
            have := ih (remaining.drop k) hlen (step + 1) sid' cur'
              (s2 + (rest.length + k - rest'.length)) b2 rest' hs' (by omega) h2 h3
            simp only [oldExtend]
            rw [this]
            cases hr : oldRefDrain sid' cur' (rest' ++ List.drop k remaining) with
            | mk pk2 e2 => cases e2 <;> simp [oldFinish]


end Drpc.Old

namespace Drpc.Compat
open Drpc Drpc.Old

/-! ### id order facts -/

theorem idLess_false_iff (s1 m1 s2 m2 : U64) : idLess s1 m1 s2 m2 = false ↔ ¬ idLt (s1, m1) (s2, m2) := by
  rw [← idLess_iff]; simp

theorem idLess_irrefl (s m : U64) : idLess s m s m = false := by
  unfold idLess; simp

theorem idLess_asymm {s1 m1 s2 m2 : U64} (h : idLess s1 m1 s2 m2 = true) : idLess s2 m2 s1 m1 = false := by
  rw [idLess_iff] at h; rw [idLess_false_iff]
  unfold idLt at *; simp at *; omega

/-- `osid ≤ g < f → osid < f` -/
theorem idLess_of_le_lt {o1 o2 g1 g2 f1 f2 : U64} (h1 : idLess g1 g2 o1 o2 = false)
    (h2 : idLess g1 g2 f1 f2 = true) : idLess o1 o2 f1 f2 = true := by
  rw [idLess_false_iff] at h1; rw [idLess_iff] at h2 ⊢
  unfold idLt at *; simp at *; omega

/-- `osid ≤ g < f → ¬ f < osid` -/
theorem idLess_false_of_le_lt {o1 o2 g1 g2 f1 f2 : U64} (h1 : idLess g1 g2 o1 o2 = false)
    (h2 : idLess g1 g2 f1 f2 = true) : idLess f1 f2 o1 o2 = false :=
  idLess_asymm (idLess_of_le_lt h1 h2)

/-- after `r.id.Message++` a strictly higher id is still not below the watermark -/
theorem idLess_succ_false {g1 g2 f1 f2 : U64} (h : idLess g1 g2 f1 f2 = true) :
    idLess f1 f2 g1 (g2 + 1#64) = false := by
  rw [idLess_iff] at h; rw [idLess_false_iff]
  unfold idLt at *
  simp only at *
  have := g2.isLt
  have := f2.isLt
  rcases h with h | ⟨h1, h2⟩
  · simp only [BitVec.toNat_add, BitVec.toNat_ofNat]; omega
  · simp only [BitVec.toNat_add, BitVec.toNat_ofNat]; omega

theorem id_ne_of_less {g1 g2 f1 f2 : U64} (h : idLess g1 g2 f1 f2 = true) : (g1, g2) ≠ (f1, f2) := by
  intro e
  simp only [Prod.mk.injEq] at e
  obtain ⟨rfl, rfl⟩ := e
  rw [idLess_irrefl] at h; cases h

/-! ### one frame through both readers -/

theorem new_fresh {mx : Nat} {rid : U64 × U64} {cur : Option Cur} {f : Frame}
    (hle : idLess f.sid f.mid rid.1 rid.2 = false) (hfresh : rid ≠ (f.sid, f.mid) ∨ cur = none)
    (hsz : f.data.length ≤ mx) :
    assembleStep mx rid cur f =
      if f.done then .emit ⟨f.data, f.sid, f.mid, f.kind, f.control⟩ (f.sid, f.mid + 1#64)
      else .cont (f.sid, f.mid) ⟨f.data, f.kind, f.control⟩ := by
  unfold assembleStep
  have hfresh' : ¬rid = (f.sid, f.mid) ∨ cur = none := hfresh
  have hsz' : ¬ (mx < f.data.length) := by omega
  simp [hle, hfresh', hsz']

theorem new_same {mx : Nat} {rid : U64 × U64} {cur : Option Cur} {f : Frame} {D : Bytes}
    (hrid : rid = (f.sid, f.mid)) (hcur : cur = some ⟨D, f.kind, f.control⟩)
    (hsz : (D ++ f.data).length ≤ mx) :
    assembleStep mx rid cur f =
      if f.done then .emit ⟨D ++ f.data, f.sid, f.mid, f.kind, f.control⟩ (f.sid, f.mid + 1#64)
      else .cont (f.sid, f.mid) ⟨D ++ f.data, f.kind, f.control⟩ := by
  unfold assembleStep
  subst hrid hcur
  have hsz' : ¬ (mx < D.length + f.data.length) := by simp at hsz; omega
  simp [idLess_irrefl, hsz']

theorem old_ctl {osid : U64 × U64} {ocur : OCur} {f : Frame} (h : f.control = true) :
    oldStep osid ocur f = .skip := by
  unfold oldStep; simp [h]

theorem old_fresh {osid : U64 × U64} {ocur : OCur} {f : Frame} (hc : f.control = false)
    (hlt : idLess osid.1 osid.2 f.sid f.mid = true) (hsz : f.data.length ≤ maxPacket) :
    oldStep osid ocur f =
      if f.done then .emit ⟨f.data, f.sid, f.mid, f.kind⟩ (f.sid, f.mid)
      else .cont (f.sid, f.mid) ⟨f.data, (f.sid, f.mid), f.kind⟩ := by
  unfold oldStep
  have hsz' : ¬ (maxPacket < f.data.length) := by omega
  simp [hc, idLess_asymm hlt, hlt, hsz']

theorem old_same {osid : U64 × U64} {ocur : OCur} {f : Frame} {D : Bytes} (hc : f.control = false)
    (hsid : osid = (f.sid, f.mid)) (hcur : ocur = ⟨D, (f.sid, f.mid), f.kind⟩)
    (hsz : (D ++ f.data).length ≤ maxPacket) :
    oldStep osid ocur f =
      if f.done then .emit ⟨D ++ f.data, f.sid, f.mid, f.kind⟩ (f.sid, f.mid)
      else .cont (f.sid, f.mid) ⟨D ++ f.data, (f.sid, f.mid), f.kind⟩ := by
  unfold oldStep
  subst hsid hcur
  have hsz' : ¬ (maxPacket < D.length + f.data.length) := by simp at hsz; omega
  simp [hc, idLess_irrefl, hsz']


/-! ### the byte level: one encoded frame at the head of the stream -/

theorem frame_ok (f : Frame) (rest : Bytes) (hk : f.kind.toNat < 64) (hl : (appendFrame f).length ≤ maxTok) :
    Drpc.parseFrame (appendFrame f ++ rest) = .ok rest f := by
  apply frame_roundtrip_aux f rest hk
  have : f.data.length ≤ (appendFrame f).length := by simp [appendFrame]; omega
  unfold maxTok at hl
  omega

theorem drain_cons {mx : Nat} {rid : U64 × U64} {cur : Option Cur} (f : Frame) (rest : Bytes)
    (hk : f.kind.toNat < 64) (hl : (appendFrame f).length ≤ maxTok) :
    drain mx rid cur (appendFrame f ++ rest) =
      match assembleStep mx rid cur f with
      | .error => ([], .failed)
      | .cont rid' c => drain mx rid' (some c) rest
      | .emit pkt rid' => ((pkt :: (drain mx rid' none rest).1), (drain mx rid' none rest).2) :=
  drain_ok (frame_ok f rest hk hl)

theorem oldRef_cons {sid : U64 × U64} {cur : OCur} (f : Frame) (rest : Bytes)
    (hk : f.kind.toNat < 64) (hl : (appendFrame f).length ≤ maxTok) :
    oldRefDrain sid cur (appendFrame f ++ rest) =
      match oldStep sid cur f with
      | .error => ([], .failed .protocol)
      | .skip => oldRefDrain sid cur rest
      | .cont sid' c => oldRefDrain sid' c rest
      | .emit pkt sid' => (pkt :: (oldRefDrain sid' OCur.zero rest).1, (oldRefDrain sid' OCur.zero rest).2) := by
  have hp : Old.parseFrame (appendFrame f ++ rest) = .ok rest f := frame_ok f rest hk hl
  have h0 : Old.parseFrame (appendFrame f) ≠ .short := by
    have := frame_ok f [] hk hl
    rw [List.append_nil] at this
    rw [Old.parse_eq, this]; simp
  exact oldRef_ok (not_tooLong_of_prefix hl h0) hp

/-! ### simulation on well-formed sequences -/

/-- the two readers' states after frame `g` of a well-formed sequence, `acc` payload bytes into
    its packet -/
def Rel (g : Frame) (acc : Nat) (rid : U64 × U64) (cur : Option Cur) (osid : U64 × U64) (ocur : OCur) : Prop :=
  idLess g.sid g.mid osid.1 osid.2 = false ∧
  (if g.done then rid = (g.sid, g.mid + 1#64) ∧ cur = none
   else rid = (g.sid, g.mid) ∧ ∃ D, cur = some ⟨D, g.kind, g.control⟩ ∧ D.length = acc ∧
        (g.control = false → osid = (g.sid, g.mid) ∧ ocur = ⟨D, (g.sid, g.mid), g.kind⟩))

theorem minusControl_cons_ctl {p : Packet} {ps : List Packet} (h : p.control = true) :
    minusControl (p :: ps) = minusControl ps := by simp [minusControl, h]

theorem minusControl_cons_data {p : Packet} {ps : List Packet} (h : p.control = false) :
    minusControl (p :: ps) = toOld p :: minusControl ps := by simp [minusControl, h]

theorem sim (mx : Nat) : ∀ (fs : List Frame) (g : Frame) (acc : Nat) (rid : U64 × U64) (cur : Option Cur)
    (osid : U64 × U64) (ocur : OCur),
    Rel g acc rid cur osid ocur → wfFrom g fs = true → framesWithin maxTok fs →
    pwFrom mx acc (g.sid, g.mid) fs = true → pwFrom maxPacket acc (g.sid, g.mid) fs = true →
    ∃ N rid' cur' osid' ocur',
      drain mx rid cur (encode fs) = (N, .stuck rid' cur' []) ∧
      oldRefDrain osid ocur (encode fs) = (minusControl N, .stuck osid' ocur' []) := by
  intro fs
  induction fs with
  | nil =>
    intro g acc rid cur osid ocur _ _ _ _ _
    have hs : Drpc.parseFrame ([] : Bytes) = .short := by simp [Drpc.parseFrame]
    have ht : ¬ tooLongAt ([] : Bytes) := by rintro ⟨h, _⟩; simp [maxTok] at h
    exact ⟨[], rid, cur, osid, ocur, by simp [encode, drain_short hs], by simp [encode, minusControl, oldRef_short ht hs]⟩
  | cons f fs ih =>
    intro g acc rid cur osid ocur hR hwf hfw hp1 hp2
    simp only [wfFrom, Bool.and_eq_true] at hwf
    obtain ⟨hnext, hwf'⟩ := hwf
    have hl : (appendFrame f).length ≤ maxTok := hfw f (by simp)
    have hfw' : framesWithin maxTok fs := fun x hx => hfw x (by simp [hx])
    simp only [pwFrom, Bool.and_eq_true, decide_eq_true_eq] at hp1 hp2
    obtain ⟨hsz1, hp1'⟩ := hp1
    obtain ⟨hsz2, hp2'⟩ := hp2
    simp only [wfNext, Bool.and_eq_true, decide_eq_true_eq, Bool.or_eq_true, Bool.not_eq_true',
      beq_iff_eq] at hnext
    obtain ⟨hk, hcase⟩ := hnext
    have henc : encode (f :: fs) = appendFrame f ++ encode fs := by simp [encode]
    rw [henc, drain_cons f _ hk hl, oldRef_cons f _ hk hl]
    obtain ⟨hRo, hRn⟩ := hR
    rcases hcase with hlt | ⟨⟨⟨⟨hgd, hs⟩, hm⟩, hkk⟩, hcc⟩
    · -- a strictly higher id: both readers start a new packet
      have hne : ¬ ((g.sid, g.mid) = (f.sid, f.mid)) := id_ne_of_less hlt
      simp only [hne, ↓reduceIte, Nat.zero_add] at hsz1 hsz2 hp1' hp2'
      have hnew : assembleStep mx rid cur f =
          if f.done then .emit ⟨f.data, f.sid, f.mid, f.kind, f.control⟩ (f.sid, f.mid + 1#64)
          else .cont (f.sid, f.mid) ⟨f.data, f.kind, f.control⟩ := by
        by_cases hgd : g.done = true
        · simp only [hgd, ↓reduceIte] at hRn
          obtain ⟨hr, hc⟩ := hRn
          exact new_fresh (by rw [hr]; exact idLess_succ_false hlt) (Or.inr hc) hsz1
        · simp only [hgd] at hRn
          obtain ⟨hr, _⟩ := hRn
          exact new_fresh (by rw [hr]; exact idLess_asymm hlt) (Or.inl (by rw [hr]; exact hne)) hsz1
      have hfo : idLess f.sid f.mid osid.1 osid.2 = false := idLess_false_of_le_lt hRo hlt
      rw [hnew]
      by_cases hfc : f.control = true
      · rw [old_ctl hfc]
        by_cases hfd : f.done = true
        · simp only [hfd, ↓reduceIte]
          obtain ⟨N, rid', cur', osid', ocur', hN, hO⟩ := ih f f.data.length (f.sid, f.mid + 1#64) none osid ocur
            ⟨hfo, by simp [hfd]⟩ hwf' hfw' hp1' hp2'
          refine ⟨_ :: N, rid', cur', osid', ocur', by rw [hN], ?_⟩
          rw [minusControl_cons_ctl (by exact hfc)]; exact hO
        · simp only [hfd]
          obtain ⟨N, rid', cur', osid', ocur', hN, hO⟩ := ih f f.data.length (f.sid, f.mid)
            (some ⟨f.data, f.kind, f.control⟩) osid ocur
            ⟨hfo, by simp [hfd, hfc]⟩ hwf' hfw' hp1' hp2'
          exact ⟨N, rid', cur', osid', ocur', hN, hO⟩
      · have hfc' : f.control = false := by simpa using hfc
        rw [old_fresh hfc' (idLess_of_le_lt hRo hlt) hsz2]
        by_cases hfd : f.done = true
        · simp only [hfd, ↓reduceIte]
          obtain ⟨N, rid', cur', osid', ocur', hN, hO⟩ := ih f f.data.length (f.sid, f.mid + 1#64) none
            (f.sid, f.mid) OCur.zero ⟨idLess_irrefl _ _, by simp [hfd]⟩ hwf' hfw' hp1' hp2'
          refine ⟨_ :: N, rid', cur', osid', ocur', by rw [hN], ?_⟩
          rw [minusControl_cons_data (by exact hfc'), hO]; simp [toOld]
        · simp only [hfd]
          obtain ⟨N, rid', cur', osid', ocur', hN, hO⟩ := ih f f.data.length (f.sid, f.mid)
            (some ⟨f.data, f.kind, f.control⟩) (f.sid, f.mid) ⟨f.data, (f.sid, f.mid), f.kind⟩
            ⟨idLess_irrefl _ _, by simp [hfd]⟩ hwf' hfw' hp1' hp2'
          exact ⟨N, rid', cur', osid', ocur', hN, hO⟩
    · -- the same id: both readers append to the packet in progress
      have heq : (g.sid, g.mid) = (f.sid, f.mid) := by rw [hs, hm]
      simp only [heq, ↓reduceIte] at hsz1 hsz2 hp1' hp2'
      simp only [hgd] at hRn
      obtain ⟨hr, D, hcur, hD, hold⟩ := hRn
      rw [hs, hm] at hr
      rw [hkk, hcc] at hcur
      have hlen : (D ++ f.data).length = acc + f.data.length := by simp [hD]
      rw [new_same hr hcur (by rw [hlen]; exact hsz1)]
      have hfo : idLess f.sid f.mid osid.1 osid.2 = false := by rw [← hs, ← hm]; exact hRo
      by_cases hfc : f.control = true
      · rw [old_ctl hfc]
        by_cases hfd : f.done = true
        · simp only [hfd, ↓reduceIte]
          obtain ⟨N, rid', cur', osid', ocur', hN, hO⟩ := ih f (acc + f.data.length) (f.sid, f.mid + 1#64) none osid ocur
            ⟨hfo, by simp [hfd]⟩ hwf' hfw' hp1' hp2'
          refine ⟨_ :: N, rid', cur', osid', ocur', by rw [hN], ?_⟩
          rw [minusControl_cons_ctl (by exact hfc)]; exact hO
        · simp only [hfd]
          obtain ⟨N, rid', cur', osid', ocur', hN, hO⟩ := ih f (acc + f.data.length) (f.sid, f.mid)
            (some ⟨D ++ f.data, f.kind, f.control⟩) osid ocur
            ⟨hfo, by simp [hfd, hfc, hD]⟩ hwf' hfw' hp1' hp2'
          exact ⟨N, rid', cur', osid', ocur', hN, hO⟩
      · have hfc' : f.control = false := by simpa using hfc
        obtain ⟨ho1, ho2⟩ := hold (by rw [hcc]; exact hfc')
        rw [hs, hm] at ho1
        rw [hs, hm, hkk] at ho2
        rw [old_same hfc' ho1 ho2 (by rw [hlen]; exact hsz2)]
        by_cases hfd : f.done = true
        · simp only [hfd, ↓reduceIte]
          obtain ⟨N, rid', cur', osid', ocur', hN, hO⟩ := ih f (acc + f.data.length) (f.sid, f.mid + 1#64) none
            (f.sid, f.mid) OCur.zero ⟨idLess_irrefl _ _, by simp [hfd]⟩ hwf' hfw' hp1' hp2'
          refine ⟨_ :: N, rid', cur', osid', ocur', by rw [hN], ?_⟩
          rw [minusControl_cons_data (by exact hfc'), hO]; simp [toOld]
        · simp only [hfd]
          obtain ⟨N, rid', cur', osid', ocur', hN, hO⟩ := ih f (acc + f.data.length) (f.sid, f.mid)
            (some ⟨D ++ f.data, f.kind, f.control⟩) (f.sid, f.mid) ⟨D ++ f.data, (f.sid, f.mid), f.kind⟩
            ⟨idLess_irrefl _ _, by simp [hfd, hD]⟩ hwf' hfw' hp1' hp2'
          exact ⟨N, rid', cur', osid', ocur', hN, hO⟩

/-- the imaginary frame before the first one: id (1,0), done -/
def g0 : Frame := ⟨[], 1#64, 0#64, 0#8, true, false⟩

theorem idLess_one (s m : U64) : idLess 1#64 0#64 s m = !idLess s m 1#64 1#64 := by
  cases h : idLess s m 1#64 1#64
  · rw [idLess_false_iff] at h
    simp only [Bool.not_false]
    rw [idLess_iff]
    unfold idLt at *; simp at *; omega
  · rw [idLess_iff] at h
    simp only [Bool.not_true]
    rw [idLess_false_iff]
    unfold idLt at *; simp at *; omega

theorem wellFormed_eq_g0 (fs : List Frame) : wellFormed fs = wfFrom g0 fs := by
  cases fs with
  | nil => rfl
  | cons f fs => simp [wellFormed, wfFrom, wfNext, g0, idLess_one]

theorem pwFrom_zero (lim : Nat) (p q : U64 × U64) (fs : List Frame) : pwFrom lim 0 p fs = pwFrom lim 0 q fs := by
  cases fs with
  | nil => rfl
  | cons f fs => simp [pwFrom]

theorem sim_top (mx : Nat) (fs : List Frame) (hwf : wellFormed fs = true) (hfw : framesWithin maxTok fs)
    (hp1 : packetsWithin mx fs = true) (hp2 : packetsWithin maxPacket fs = true) :
    ∃ N rid' cur' osid' ocur',
      drain mx (1#64, 1#64) none (encode fs) = (N, .stuck rid' cur' []) ∧
      oldRefDrain (0#64, 0#64) OCur.zero (encode fs) = (minusControl N, .stuck osid' ocur' []) := by
  rw [wellFormed_eq_g0] at hwf
  unfold packetsWithin at hp1 hp2
  rw [pwFrom_zero mx _ (g0.sid, g0.mid)] at hp1
  rw [pwFrom_zero maxPacket _ (g0.sid, g0.mid)] at hp2
  exact sim mx fs g0 0 _ _ _ _ ⟨by decide, by simp [g0]⟩ hwf hfw hp1 hp2

/-! ### writers emit well-formed sequences -/

theorem wfNext_hdr (g f : Frame) : wfNext g f = wfNext g ⟨[], f.sid, f.mid, f.kind, false, f.control⟩ := by
  simp [wfNext]

theorem wfFrom_splitFrames (rest : List Frame) (sid mid : U64) (kind : Byte) (ctl : Bool) (m : Nat)
    (hk : kind.toNat < 64) :
    ∀ (n : Nat) (data : Bytes), data.length ≤ n → ∀ g : Frame,
    wfNext g ⟨[], sid, mid, kind, false, ctl⟩ = true →
    (∀ last : Frame, last.sid = sid → last.mid = mid → last.done = true → wfFrom last rest = true) →
    wfFrom g (splitFrames sid mid kind ctl m data ++ rest) = true := by
  intro n
  induction n with
  | zero =>
    intro data hn g hg hlast
    rw [splitFrames]
    have : ¬ (data.length > m ∧ m > 0) := by omega
    simp only [this, ↓reduceDIte, List.cons_append, List.nil_append, wfFrom, Bool.and_eq_true]
    exact ⟨by rw [wfNext_hdr]; exact hg, hlast _ rfl rfl rfl⟩
  | succ n ih =>
    intro data hn g hg hlast
    rw [splitFrames]
    by_cases hc : data.length > m ∧ m > 0
    · simp only [hc, and_self, ↓reduceDIte, List.cons_append, wfFrom, Bool.and_eq_true]
      refine ⟨by rw [wfNext_hdr]; exact hg, ?_⟩
      apply ih (data.drop m) (by simp [List.length_drop]; omega)
      · simp [wfNext, hk]
      · exact hlast
    · simp only [hc, ↓reduceDIte, List.cons_append, List.nil_append, wfFrom, Bool.and_eq_true]
      exact ⟨by rw [wfNext_hdr]; exact hg, hlast _ rfl rfl rfl⟩

theorem wf_genEmit (m : Nat) : ∀ (pkts : List Packet) (g : Frame), (∀ p ∈ pkts, p.kind.toNat < 64) →
    idsIncreasing (g.sid, g.mid) (pkts.map (fun p => (p.sid, p.mid))) = true →
    wfFrom g (genEmit m pkts) = true := by
  intro pkts
  induction pkts with
  | nil => intro g _ _; simp [genEmit, wfFrom]
  | cons p ps ih =>
    intro g hk hinc
    simp only [List.map_cons, idsIncreasing, Bool.and_eq_true] at hinc
    have hgen : genEmit m (p :: ps) = splitFrames p.sid p.mid p.kind p.control m p.data ++ genEmit m ps := by
      simp [genEmit]
    rw [hgen]
    apply wfFrom_splitFrames _ _ _ _ _ _ (hk p (by simp)) _ _ (Nat.le_refl _)
    · simp [wfNext, hk p (by simp), hinc.1]
    · intro last h1 h2 _
      apply ih last (fun q hq => hk q (by simp [hq]))
      rw [h1, h2]; exact hinc.2

theorem wellFormed_genEmit (m : Nat) (pkts : List Packet) (h : Sendable pkts) :
    wellFormed (genEmit m pkts) = true := by
  rw [wellFormed_eq_g0]
  exact wf_genEmit m pkts g0 h.1 h.2

theorem newEmit_eq (n : Int) (pkts : List Packet) : newEmit n pkts = genEmit (splitSize n) pkts := rfl

theorem oldEmit_eq (n : Int) (pkts : List OPacket) : oldEmit n pkts = genEmit (Old.splitSize n) (pkts.map ofOld) := by
  simp [oldEmit, genEmit, Old.splitN, ofOld, List.flatMap_map]

theorem splitFrames_control (sid mid : U64) (kind : Byte) (ctl : Bool) (m : Nat) (data : Bytes) :
    ∀ fr ∈ splitFrames sid mid kind ctl m data, fr.control = ctl := fun fr h =>
  (splitFrames_header sid mid kind ctl m data fr h).2.2.2

/-! ### without control frames the new reader returns no control packet -/

theorem assemble_noctl {mx : Nat} {rid : U64 × U64} {cur : Option Cur} {f : Frame} (hf : f.control = false)
    (hc : ∀ c, cur = some c → c.control = false) :
    (∀ pkt r, assembleStep mx rid cur f = .emit pkt r → pkt.control = false) ∧
    (∀ r c', assembleStep mx rid cur f = .cont r c' → c'.control = false) := by
  unfold assembleStep
  split
  · simp
  · simp only []
    split
    · simp
    · rename_i c hb
      have hcc : c.control = false := by
        split at hb
        · cases hb; exact hf
        · split at hb
          · cases hb
          · split at hb
            · cases hb
            · cases hb; simp only [hf, Bool.or_false]; exact hc _ rfl
      split
      · simp
      · split
        · constructor
          · intro pkt r h; cases h; exact hcc
          · intro r c' h; cases h
        · constructor
          · intro pkt r h; cases h
          · intro r c' h; cases h; exact hcc

theorem drain_encode_noctl (mx : Nat) : ∀ (fs : List Frame) (rid : U64 × U64) (cur : Option Cur),
    (∀ f ∈ fs, f.kind.toNat < 64 ∧ (appendFrame f).length ≤ maxTok ∧ f.control = false) →
    (∀ c, cur = some c → c.control = false) →
    ∀ p ∈ (drain mx rid cur (encode fs)).1, p.control = false := by
  intro fs
  induction fs with
  | nil =>
    intro rid cur _ _
    have hs : Drpc.parseFrame ([] : Bytes) = .short := by simp [Drpc.parseFrame]
    simp [encode, drain_short hs]
  | cons f fs ih =>
    intro rid cur hall hc
    obtain ⟨hk, hl, hf⟩ := hall f (by simp)
    have hall' : ∀ x ∈ fs, x.kind.toNat < 64 ∧ (appendFrame x).length ≤ maxTok ∧ x.control = false :=
      fun x hx => hall x (by simp [hx])
    have henc : encode (f :: fs) = appendFrame f ++ encode fs := by simp [encode]
    rw [henc, drain_cons f _ hk hl]
    obtain ⟨h1, h2⟩ := assemble_noctl (mx := mx) (rid := rid) hf hc
    cases hs : assembleStep mx rid cur f with
    | error => simp
    | cont r c' =>
      simp only
      exact ih r (some c') hall' (by intro c hc'; cases hc'; exact h2 r c' hs)
    | emit pkt r =>
      simp only
      intro p hp
      simp only [List.mem_cons] at hp
      rcases hp with rfl | hp
      · exact h1 _ r hs
      · exact ih r none hall' (by intro c hc'; cases hc') p hp

/-! ### the stream layers emit well-formed sequences -/

/-- kinds passed to RawWrite fit their 6 bits -/
def opOk : Op → Prop
  | .write k _ => k.toNat < 64
  | _ => True

theorem single_eq_split (sid mid : U64) (kind : Byte) (ctl : Bool) (data : Bytes) :
    [single sid mid kind ctl data] = splitFrames sid mid kind ctl 0 data := by
  rw [splitFrames_zero]; rfl

/-- what one API call puts on the wire: nothing (the message id stays or is bumped), or one packet
    with the next message id, split somehow -/
theorem emitStep_shape (m : Nat) (soft : Bool) (sid : U64) (s : EState) (op : Op) (hop : opOk op) :
    ((emitStep m soft sid s op).2 = [] ∧
      ((emitStep m soft sid s op).1.mid = s.mid ∨ (emitStep m soft sid s op).1.mid = s.mid + 1#64)) ∨
    (∃ k ctl m' d, (emitStep m soft sid s op).2 = splitFrames sid (s.mid + 1#64) k ctl m' d ∧
      (emitStep m soft sid s op).1.mid = s.mid + 1#64 ∧ k.toNat < 64) := by
  cases op with
  | write k d =>
    simp only [emitStep]
    split
    · left; simp
    · right; exact ⟨k, false, m, d, rfl, rfl, hop⟩
  | sendError c msg =>
    simp only [emitStep]
    split
    · left; simp
    · right; exact ⟨3#8, false, 0, _, single_eq_split _ _ _ _ _, rfl, by decide⟩
  | sendCancel =>
    simp only [emitStep]
    split
    · left; simp
    · right; exact ⟨4#8, true, 0, _, single_eq_split _ _ _ _ _, rfl, by decide⟩
  | close =>
    simp only [emitStep]
    split
    · left; simp
    · right; exact ⟨5#8, false, 0, _, single_eq_split _ _ _ _ _, rfl, by decide⟩
  | closeSend =>
    simp only [emitStep]
    split
    · left; simp
    · right; exact ⟨6#8, false, 0, _, single_eq_split _ _ _ _ _, rfl, by decide⟩
  | cancel => left; simp [emitStep]
  | flush => left; simp [emitStep]

/-- `g ≤ (sid, mid)` and no wrap-around: `g < (sid, mid + 1)` and `g ≤ (sid, mid + 1)` -/
theorem idLess_bump {g1 g2 sid mid : U64} (h : idLess sid mid g1 g2 = false) (hw : mid.toNat + 1 < 2 ^ 64) :
    idLess g1 g2 sid (mid + 1#64) = true ∧ idLess sid (mid + 1#64) g1 g2 = false := by
  rw [idLess_false_iff] at h
  rw [idLess_iff, idLess_false_iff]
  unfold idLt at *
  simp only [BitVec.toNat_add, BitVec.toNat_ofNat] at *
  have : (mid.toNat + 1 % 2 ^ 64) % 2 ^ 64 = mid.toNat + 1 := by omega
  simp only [this]
  omega

theorem emitOps_wf (m : Nat) (soft : Bool) (sid : U64) (rest : List Frame)
    (hrest : ∀ g' : Frame, g'.sid.toNat ≤ sid.toNat → wfFrom g' rest = true) :
    ∀ (ops : List Op) (s : EState) (g : Frame), (∀ op ∈ ops, opOk op) →
    s.mid.toNat + ops.length < 2 ^ 64 → idLess sid s.mid g.sid g.mid = false →
    wfFrom g (emitOps m soft sid s ops ++ rest) = true := by
  intro ops
  induction ops with
  | nil =>
    intro s g _ _ hg
    simp only [emitOps, List.nil_append]
    apply hrest
    rw [idLess_false_iff] at hg
    unfold idLt at hg; simp at hg; omega
  | cons op ops ih =>
    intro s g hok hw hg
    simp only [List.length_cons] at hw
    simp only [emitOps, List.append_assoc]
    have hok' : ∀ o ∈ ops, opOk o := fun o ho => hok o (by simp [ho])
    obtain ⟨hb1, hb2⟩ := idLess_bump hg (by omega)
    rcases emitStep_shape m soft sid s op (hok op (by simp)) with ⟨he, hm⟩ | ⟨k, ctl, m', d, he, hm, hk⟩
    · rw [he, List.nil_append]
      rcases hm with hm | hm
      · exact ih _ g hok' (by rw [hm]; omega) (by rw [hm]; exact hg)
      · refine ih _ g hok' ?_ (by rw [hm]; exact hb2)
        rw [hm]; simp only [BitVec.toNat_add, BitVec.toNat_ofNat]; omega
    · rw [he]
      apply wfFrom_splitFrames _ _ _ _ _ _ hk _ _ (Nat.le_refl _)
      · simp [wfNext, hk, hb1]
      · intro last h1 h2 _
        refine ih _ last hok' ?_ ?_
        · rw [hm]; simp only [BitVec.toNat_add, BitVec.toNat_ofNat]; omega
        · rw [hm, h1, h2]; exact idLess_irrefl _ _

/-- stream ids strictly increasing, the first one above `prev` -/
def sidsIncreasing : U64 → List (U64 × List Op) → Prop
  | _, [] => True
  | prev, (sid, _) :: rest => prev.toNat < sid.toNat ∧ sidsIncreasing sid rest

def connOk (conn : List (U64 × List Op)) : Prop :=
  ∀ st ∈ conn, (∀ op ∈ st.2, opOk op) ∧ st.2.length < 2 ^ 64

theorem emitConn_wf (m : Nat) (soft : Bool) : ∀ (conn : List (U64 × List Op)) (g : Frame),
    connOk conn →
    (match conn with | [] => True | (sid, _) :: rest => idLess sid 0#64 g.sid g.mid = false ∧ sidsIncreasing sid rest) →
    wfFrom g (emitConn m soft conn) = true := by
  intro conn
  induction conn with
  | nil => intro g _ _; simp [emitConn, wfFrom]
  | cons st rest ih =>
    obtain ⟨sid, ops⟩ := st
    intro g hok hinc
    simp only at hinc
    obtain ⟨hg, hincr⟩ := hinc
    simp only [emitConn]
    have hok' : connOk rest := fun x hx => hok x (by simp [hx])
    obtain ⟨hops, hlen⟩ := hok (sid, ops) (by simp)
    apply emitOps_wf m soft sid _ _ ops EState.init g hops (by simp [EState.init]; exact hlen) (by simpa [EState.init] using hg)
    intro g' hg'
    apply ih g' hok'
    cases rest with
    | nil => trivial
    | cons st2 rest2 =>
      obtain ⟨sid2, ops2⟩ := st2
      simp only [sidsIncreasing] at hincr
      refine ⟨?_, hincr.2⟩
      rw [idLess_false_iff]
      unfold idLt; simp; omega

theorem emitStep_noctl (m : Nat) (sid : U64) (s : EState) (op : Op) :
    ∀ f ∈ (emitStep m false sid s op).2, f.control = false := by
  cases op with
  | write k d =>
    simp only [emitStep]
    split
    · simp
    · exact splitFrames_control _ _ _ _ _ _
  | sendError c msg => simp only [emitStep]; split <;> simp [single]
  | sendCancel => simp [emitStep]
  | close => simp only [emitStep]; split <;> simp [single]
  | closeSend => simp only [emitStep]; split <;> simp [single]
  | cancel => simp [emitStep]
  | flush => simp [emitStep]

theorem emitOps_noctl (m : Nat) (sid : U64) : ∀ (ops : List Op) (s : EState),
    ∀ f ∈ emitOps m false sid s ops, f.control = false := by
  intro ops
  induction ops with
  | nil => intro s f h; simp [emitOps] at h
  | cons op ops ih =>
    intro s f h
    simp only [emitOps, List.mem_append] at h
    rcases h with h | h
    · exact emitStep_noctl m sid s op f h
    · exact ih _ f h

theorem emitConn_noctl (m : Nat) : ∀ (conn : List (U64 × List Op)),
    ∀ f ∈ emitConn m false conn, f.control = false := by
  intro conn
  induction conn with
  | nil => intro f h; simp [emitConn] at h
  | cons st rest ih =>
    obtain ⟨sid, ops⟩ := st
    intro f h
    simp only [emitConn, List.mem_append] at h
    rcases h with h | h
    · exact emitOps_noctl m sid ops _ f h
    · exact ih f h

theorem wellFormed_emitConn (m : Nat) (soft : Bool) (conn : List (U64 × List Op)) (hok : connOk conn)
    (hinc : sidsIncreasing 0#64 conn) : wellFormed (emitConn m soft conn) = true := by
  rw [wellFormed_eq_g0]
  apply emitConn_wf m soft conn g0 hok
  cases conn with
  | nil => trivial
  | cons st rest =>
    obtain ⟨sid, ops⟩ := st
    simp only [sidsIncreasing] at hinc
    refine ⟨?_, hinc.2⟩
    rw [idLess_false_iff]
    unfold idLt; simp [g0]
    have := hinc.1
    simp at this
    omega

end Drpc.Compat
