import Drpc.Wire.Frame
import Drpc.Lemmas.Varint
/-
  Helper lemmas about the frame model: control-byte decoding, extension stability,
  round trip.
-/
namespace Drpc

/-! ### control byte -/

theorem kind_controlByte_aux : ∀ k : BitVec 8, k.toNat < 64 → ∀ d c : Bool,
    kindOfControl (((k <<< 1) ||| (if d then 1#8 else 0#8)) ||| (if c then 128#8 else 0#8)) = k := by
  decide

theorem done_controlByte_aux : ∀ k : BitVec 8, k.toNat < 64 → ∀ d c : Bool,
    doneOfControl (((k <<< 1) ||| (if d then 1#8 else 0#8)) ||| (if c then 128#8 else 0#8)) = d := by
  decide

theorem ctl_controlByte_aux : ∀ k : BitVec 8, k.toNat < 64 → ∀ d c : Bool,
    ctlOfControl (((k <<< 1) ||| (if d then 1#8 else 0#8)) ||| (if c then 128#8 else 0#8)) = c := by
  decide

/-- every control byte is the control byte of exactly the frame header it decodes to -/
theorem controlByte_decode : ∀ c : BitVec 8,
    (((kindOfControl c <<< 1) ||| (if doneOfControl c then 1#8 else 0#8)) |||
      (if ctlOfControl c then 128#8 else 0#8)) = c ∧ (kindOfControl c).toNat < 64 := by
  decide

/-! ### extension stability of `readVarint` -/

theorem readVarintAux_ext_ok (n shift : Nat) (acc : U64) (b e rem : Bytes) (v : U64) :
    readVarintAux n shift acc b = .ok rem v → readVarintAux n shift acc (b ++ e) = .ok (rem ++ e) v := by
  induction n generalizing shift acc b with
  | zero => intro h; simp [readVarintAux] at h
  | succ n ih =>
    cases b with
    | nil => intro h; simp [readVarintAux] at h
    | cons x xs =>
      intro h
      simp only [readVarintAux, List.cons_append] at h ⊢
      split at h
      · rename_i hlt
        simp only [hlt, ↓reduceIte]
        cases h; rfl
      · rename_i hlt
        simp only [hlt, ↓reduceIte]
        exact ih _ _ _ h

theorem readVarintAux_ext_long (n shift : Nat) (acc : U64) (b e : Bytes) :
    readVarintAux n shift acc b = .tooLong → readVarintAux n shift acc (b ++ e) = .tooLong := by
  induction n generalizing shift acc b with
  | zero => intro _; simp [readVarintAux]
  | succ n ih =>
    cases b with
    | nil => intro h; simp [readVarintAux] at h
    | cons x xs =>
      intro h
      simp only [readVarintAux, List.cons_append] at h ⊢
      split at h
      · cases h
      · rename_i hlt
        simp only [hlt, ↓reduceIte]
        exact ih _ _ _ h

theorem readVarint_ext_ok {b e rem : Bytes} {v : U64} :
    readVarint b = .ok rem v → readVarint (b ++ e) = .ok (rem ++ e) v :=
  readVarintAux_ext_ok _ _ _ _ _ _ _

theorem readVarint_ext_long {b e : Bytes} :
    readVarint b = .tooLong → readVarint (b ++ e) = .tooLong :=
  readVarintAux_ext_long _ _ _ _ _

/-- a successful read consumed a non-empty prefix: `b = pre ++ rem`, `1 ≤ |pre| ≤ fuel`. -/
theorem readVarintAux_ok_split (n shift : Nat) (acc : U64) (b rem : Bytes) (v : U64) :
    readVarintAux n shift acc b = .ok rem v →
    ∃ pre, b = pre ++ rem ∧ 1 ≤ pre.length ∧ pre.length ≤ n := by
  induction n generalizing shift acc b with
  | zero => intro h; simp [readVarintAux] at h
  | succ n ih =>
    cases b with
    | nil => intro h; simp [readVarintAux] at h
    | cons x xs =>
      intro h
      simp only [readVarintAux] at h
      split at h
      · cases h; exact ⟨[x], by simp, by simp, by simp⟩
      · obtain ⟨pre, h1, h2, h3⟩ := ih _ _ _ h
        exact ⟨x :: pre, by simp [h1], by simp, by simp; omega⟩

theorem readVarint_ok_split {b rem : Bytes} {v : U64} (h : readVarint b = .ok rem v) :
    ∃ pre, b = pre ++ rem ∧ 1 ≤ pre.length ∧ pre.length ≤ 10 :=
  readVarintAux_ok_split _ _ _ _ _ _ h

theorem readVarint_ok_length {b rem : Bytes} {v : U64} (h : readVarint b = .ok rem v) :
    rem.length < b.length ∧ b.length ≤ rem.length + 10 := by
  obtain ⟨pre, h1, h2, h3⟩ := readVarint_ok_split h
  subst h1; simp; omega

/-! ### extension stability of `parseFrame` -/

theorem parse_ext_ok {b e rem : Bytes} {fr : Frame} :
    parseFrame b = .ok rem fr → parseFrame (b ++ e) = .ok (rem ++ e) fr := by
  unfold parseFrame
  intro h
  split at h
  · cases h
  · rename_i hlen
    have hlen' : ¬ (b ++ e).length < 4 := by simp at hlen ⊢; omega
    simp only [hlen', ↓reduceIte]
    cases b with
    | nil => simp at hlen
    | cons c rem0 =>
      simp only [List.cons_append] at h ⊢
      cases h1 : readVarint rem0 with
      | short => simp [h1] at h
      | tooLong => simp [h1] at h
      | ok r1 sid =>
        simp only [h1] at h
        simp only [readVarint_ext_ok h1]
        cases h2 : readVarint r1 with
        | short => simp [h2] at h
        | tooLong => simp [h2] at h
        | ok r2 mid =>
          simp only [h2] at h
          simp only [readVarint_ext_ok h2]
          cases h3 : readVarint r2 with
          | short => simp [h3] at h
          | tooLong => simp [h3] at h
          | ok r3 len =>
            simp only [h3] at h
            simp only [readVarint_ext_ok h3]
            split at h
            · cases h
            · rename_i hle
              have hle2 : ¬ (r3.length < len.toNat) := by omega
              have hle' : ¬ (len.toNat > (r3 ++ e).length) := by simp; omega
              have hle2' : ¬ ((r3 ++ e).length < len.toNat) := by simp; omega
              simp only [hle', hle2', ↓reduceIte]
              cases h
              have hl : len.toNat ≤ r3.length := by omega
              simp [List.take_append_of_le_length hl, List.drop_append_of_le_length hl]

theorem parse_ext_err {b e : Bytes} :
    parseFrame b = .err → parseFrame (b ++ e) = .err := by
  unfold parseFrame
  intro h
  split at h
  · cases h
  · rename_i hlen
    have hlen' : ¬ (b ++ e).length < 4 := by simp at hlen ⊢; omega
    simp only [hlen', ↓reduceIte]
    cases b with
    | nil => simp at hlen
    | cons c rem0 =>
      simp only [List.cons_append] at h ⊢
      cases h1 : readVarint rem0 with
      | short => simp [h1] at h
      | tooLong => simp [readVarint_ext_long h1]
      | ok r1 sid =>
        simp only [h1] at h
        simp only [readVarint_ext_ok h1]
        cases h2 : readVarint r1 with
        | short => simp [h2] at h
        | tooLong => simp [readVarint_ext_long h2]
        | ok r2 mid =>
          simp only [h2] at h
          simp only [readVarint_ext_ok h2]
          cases h3 : readVarint r2 with
          | short => simp [h3] at h
          | tooLong => simp [readVarint_ext_long h3]
          | ok r3 len =>
            simp only [h3] at h
            split at h
            · cases h
            · cases h

/-- `parseFrame` never reaches an out-of-range index or slice. -/
theorem parse_no_panic (b : Bytes) : parseFrame b ≠ .panic := by
  unfold parseFrame
  split
  · simp
  · rename_i hlen
    cases b with
    | nil => simp at hlen
    | cons c rem0 =>
      simp only
      cases readVarint rem0 with
      | short => simp
      | tooLong => simp
      | ok r1 sid =>
        simp only
        cases readVarint r1 with
        | short => simp
        | tooLong => simp
        | ok r2 mid =>
          simp only
          cases readVarint r2 with
          | short => simp
          | tooLong => simp
          | ok r3 len =>
            simp only
            split
            · simp
            · rename_i h; have : ¬ (r3.length < len.toNat) := by omega
              simp [this]

/-- A parsed frame accounts for the input exactly: header (4…31 bytes) ++ payload ++ remainder. -/
theorem parse_ok_split {b rem : Bytes} {fr : Frame} (h : parseFrame b = .ok rem fr) :
    ∃ hdr, b = hdr ++ fr.data ++ rem ∧ 4 ≤ hdr.length ∧ hdr.length ≤ 31 := by
  unfold parseFrame at h
  split at h
  · cases h
  · cases b with
    | nil => cases h
    | cons c rem0 =>
      simp only at h
      cases h1 : readVarint rem0 with
      | short => simp [h1] at h
      | tooLong => simp [h1] at h
      | ok r1 sid =>
        simp only [h1] at h
        cases h2 : readVarint r1 with
        | short => simp [h2] at h
        | tooLong => simp [h2] at h
        | ok r2 mid =>
          simp only [h2] at h
          cases h3 : readVarint r2 with
          | short => simp [h3] at h
          | tooLong => simp [h3] at h
          | ok r3 len =>
            simp only [h3] at h
            split at h
            · cases h
            · cases h
              obtain ⟨p1, e1, l1, u1⟩ := readVarint_ok_split h1
              obtain ⟨p2, e2, l2, u2⟩ := readVarint_ok_split h2
              obtain ⟨p3, e3, l3, u3⟩ := readVarint_ok_split h3
              refine ⟨c :: (p1 ++ p2 ++ p3), ?_, ?_, ?_⟩
              · subst e1 e2 e3
                simp [List.take_append_drop]
              · simp; omega
              · simp; omega

end Drpc
