import Drpc.Lemmas.StreamFail
import Drpc.Lemmas.StreamProgress
/-
  The sender side of "delivery is complete" on the atomic-step stream model (C01): ghost records of
  every started message (`started`) and of the results of the send sections (`sendRets`); a send
  that returns nil after its flush has all its frames in completed transport writes; what is on
  the wire are initial segments of started messages, in the order of their ids.
-/
namespace Drpc.Stream
attribute [local simp] firstSec flushSec getInflight getOnce relSh Option.join_eq_some_iff Option.join_eq_none_iff
  inflightFrames

def Ret.isNil : Ret → Bool | .nil => true | _ => false
def FlushMode.isChecked : FlushMode → Bool | .checked => true | _ => false

/-- in a send section (MsgSend / RawWrite: `checks`) in which every frame of the message has been
    appended and no transport write has failed -/
def complete : PC → Bool
  | .frame sec => sec.checks && sec.frames.isEmpty
  | .flush sec => sec.checks
  | .writing sec fromFlush => sec.checks && (fromFlush || sec.frames.isEmpty)
  | .ret sec r | .unlockW sec r => sec.checks && r.isNil
  | _ => false

/-- … that ended with `rawFlushLocked` (MsgSend without ManualFlush) and is about to return nil -/
def flushedNil : PC → Bool
  | .ret sec r | .unlockW sec r => sec.checks && r.isNil && sec.flush.isChecked
  | _ => false

/-- the write sections of the calls that are not sends have no `checks` -/
def pcOK3 : PC → Bool
  | .lockW c sec | .heldW c sec => c.isSend || !sec.checks
  | _ => true

def K.termOK : K → Bool | .term c => c.isTerm | _ => true

/-- the call carried through `terminate` and into `sendPacketLocked` is one that takes `s.mu` -/
def pcOK5 : PC → Bool
  | .tSet _ c | .tClose _ c | .unlockMu c => c.isTerm
  | .cf1 k | .cf2 k | .cf3 k | .cfEnd k => k.termOK
  | _ => true

gen_ctor_simp K.termOK
gen_ctor_simp pcOK5
gen_ctor_simp Ret.isNil
gen_ctor_simp FlushMode.isChecked
gen_ctor_simp complete
gen_ctor_simp flushedNil
gen_ctor_simp pcOK3
@[simp] theorem complete_afterTerm (c : Call) : complete (afterTerm c) = false := by cases c <;> rfl
@[simp] theorem flushedNil_afterTerm (c : Call) : flushedNil (afterTerm c) = false := by cases c <;> rfl
@[simp] theorem pcOK3_afterTerm (c : Call) : pcOK3 (afterTerm c) = true := by cases c <;> rfl

theorem complete_holdsW (p : PC) (h : complete p = true) : holdsW p = true := by cases p <;> simp_all
theorem flushedNil_complete (p : PC) (h : flushedNil p = true) : complete p = true := by
  cases p <;> simp_all

theorem step_pcOK3 {s s' : St} {t : Tid} (h : step s t = some s')
    (ih : ∀ u, pcOK3 (s.pc u) = true) : ∀ u, pcOK3 (s'.pc u) = true := by
  have iht := ih t
  unfold step at h
  pc_cases s t hp =>
    rw [hp] at iht
    step_explode h hp
    all_goals (refine all_step ih ?_)
    all_goals (simp at iht ⊢)
    all_goals (try assumption)

theorem env_pcOK3 {s s' : St} {e : Env} (h : envStep s e = some s')
    (ih : ∀ u, pcOK3 (s.pc u) = true) : ∀ u, pcOK3 (s'.pc u) = true := by
  env_cases h with t hp hi =>
    refine all_step ih ?_
    simp

theorem reach_pcOK3 {s : St} (h : Reach s) : ∀ u, pcOK3 (s.pc u) = true := by
  induction h with
  | init o => intro u; rfl
  | step _ hs ih => exact step_pcOK3 hs ih
  | env _ he ih => exact env_pcOK3 he ih
  | spawn _ hd ih => rw [setPc_eq_upd]; exact all_step ih (by simp)

theorem pcOK5_afterTerm (c : Call) (h : c.isTerm = true) : pcOK5 (afterTerm c) = true := by
  cases c <;> simp_all [afterTerm]

theorem step_pcOK5 {s s' : St} {t : Tid} (h : step s t = some s')
    (ok2 : ∀ u, pcOK2 (s.pc u) = true)
    (ih : ∀ u, pcOK5 (s.pc u) = true) : ∀ u, pcOK5 (s'.pc u) = true := by
  have iht := ih t
  have ok2t := ok2 t
  unfold step at h
  pc_cases s t hp =>
    rw [hp] at iht ok2t
    step_explode h hp
    all_goals (refine all_step ih ?_)
    all_goals (simp at iht ok2t)
    all_goals (first | (simp [*]; done) | (apply pcOK5_afterTerm; simp_all) | simp_all)

theorem env_pcOK5 {s s' : St} {e : Env} (h : envStep s e = some s')
    (ih : ∀ u, pcOK5 (s.pc u) = true) : ∀ u, pcOK5 (s'.pc u) = true := by
  env_cases h with t hp hi =>
    refine all_step ih ?_
    simp

theorem reach_pcOK5 {s : St} (h : Reach s) : ∀ u, pcOK5 (s.pc u) = true := by
  induction h with
  | init o => intro u; rfl
  | step hr hs ih => exact step_pcOK5 hs (reach_pcOK2 hr) ih
  | env _ he ih => exact env_pcOK5 he ih
  | spawn _ hd ih => rw [setPc_eq_upd]; exact all_step ih (by simp)

theorem framesOf_ne_nil (o : Opts) (m : U64) (k : Byte) (d : Bytes) : framesOf o m k d ≠ [] := by
  obtain ⟨fr, rest, h⟩ := framesOf_cons o m k d
  rw [h]; simp

/-- how a `Started` record relates to the call that made it -/
def RecOK (o : Opts) (r : Started) : Prop :=
  (∃ p, r.call = .msgSend r.data p ∧ r.kind = kindMessage ∧ r.frames = framesOf o r.mid kindMessage r.data) ∨
  (r.call = .rawWrite r.kind r.data ∧ r.frames = framesOf o r.mid r.kind r.data) ∨
  (r.call.isTerm = true ∧ r.frames = [packetOf o r.mid r.call] ∧ r.kind = (packetOf o r.mid r.call).kind)

/-- the three ways a step of thread `t` touches the writer, the message counter and the ghost logs -/
theorem step_shape2 {s s' : St} {t : Tid} (h : step s t = some s') (l : Locks s)
    (ok3 : pcOK3 (s.pc t) = true) (ok5 : pcOK5 (s.pc t) = true) :
    (live s'.sh = live s.sh ∧ s'.sh.hist = s.sh.hist ∧ s'.sh.mid = s.sh.mid ∧ s'.sh.midN = s.sh.midN ∧
      s'.sh.started = s.sh.started ∧ s'.sh.wire = s.sh.wire ∧ pend (s'.pc t) = [] ∧
      (complete (s'.pc t) = true → complete (s.pc t) = true) ∧
      (flushedNil (s'.pc t) = true → flushedNil (s.pc t) = true ∨
        (complete (s.pc t) = true ∧ s.sh.inflight = none ∧ (s.sh.wFlag = false ∨ s.sh.wbuf = []))) ∧
      (s'.sh.sendRets = s.sh.sendRets ∨ ∃ sec r, s.pc t = .unlockW sec r ∧ sec.checks = true ∧
        s'.sh.sendRets = s.sh.sendRets ++ [(t, s.sh.mid, r, decide (sec.flush = .checked))])) ∨
    (live s'.sh = live s.sh ∧ s'.sh.hist = s.sh.hist ∧ s'.sh.wire = s.sh.wire ∧ s'.sh.sendRets = s.sh.sendRets ∧
      s'.sh.mid = s.sh.mid + 1#64 ∧ s'.sh.midN = s.sh.midN + 1 ∧ holdsW (s.pc t) = true ∧
      complete (s'.pc t) = false ∧
      ∃ rec, s'.sh.started = s.sh.started ++ [rec] ∧ rec.mid = s.sh.mid + 1#64 ∧ rec.frames = pend (s'.pc t) ∧
        RecOK s.opts rec) ∨
    (holdsW (s.pc t) = true ∧ ∃ fr, pend (s.pc t) = fr :: pend (s'.pc t) ∧ live s'.sh = live s.sh ++ [fr] ∧
      s'.sh.hist = s.sh.hist ++ [fr] ∧ s'.sh.mid = s.sh.mid ∧ s'.sh.midN = s.sh.midN ∧
      s'.sh.started = s.sh.started ∧ s'.sh.wire = s.sh.wire ∧ s'.sh.sendRets = s.sh.sendRets ∧
      (complete (s'.pc t) = true → pend (s'.pc t) = []) ∧ flushedNil (s'.pc t) = false) := by
  have hfree := inflight_free l.w l.inflight (t := t)
  unfold step at h
  pc_cases s t hp =>
    rw [hp] at hfree ok3 ok5
    step_explode h hp
    all_goals (simp at hfree ok3 ok5)
    all_goals (simp [live, RecOK, framesOf_ne_nil, *])
    all_goals (first
      | (simp_all; done)
      | exact ⟨_, _, ⟨rfl, rfl⟩, by assumption, rfl, Iff.rfl⟩
      | grind)

theorem upd_pc_cases (s : St) (t u : Tid) (sh' : Sh) (p' : PC) :
    (u = t ∧ (s.upd t sh' p').pc u = p') ∨ (u ≠ t ∧ (s.upd t sh' p').pc u = s.pc u) := by
  by_cases hu : u = t
  · subst hu; exact .inl ⟨rfl, upd_pc_self _ _ _ _⟩
  · exact .inr ⟨hu, upd_pc_ne _ _ _ _ _ hu⟩

/-- case analysis of an environment step, with the result of a completed transport write -/
@[elab_as_elim]
theorem envStep_elim2 {motive : St → Prop} {s s' : St} {e : Env} (h : envStep s e = some s')
    (herr : ∀ t frs sec ff tag, s.sh.inflight = some (t, frs) → s.pc t = .writing sec ff →
      motive (s.upd t (relSh s.sh frs (some tag)) (.ret sec (reported s.sh tag))))
    (hok : ∀ t frs sec, s.sh.inflight = some (t, frs) → s.pc t = .writing sec true →
      motive (s.upd t (relSh s.sh frs none) (.ret sec (cancelWrap s.sh .nil))))
    (hflush : ∀ t frs sec, s.sh.inflight = some (t, frs) → s.pc t = .writing sec false → sec.frames = [] →
      motive (s.upd t (relSh s.sh frs none) (.flush sec)))
    (hframe : ∀ t frs sec, s.sh.inflight = some (t, frs) → s.pc t = .writing sec false → sec.frames ≠ [] →
      motive (s.upd t (relSh s.sh frs none) (.frame sec)))
    (hmar : ∀ t d sec, s.pc t = .marshal (.msgSend d true) sec →
      motive (s.upd t s.sh (.marshal (.msgSend d false) sec)))
    (hunm : ∀ t d m, s.pc t = .unmarshal d m → m.park = true →
      motive (s.upd t s.sh (.pdone (if m.fail then .err .unmarshal else .data d)))) : motive s' := by
  unfold envStep at h
  cases e with
  | release err =>
    simp only at h
    split at h
    · cases h
    · rename_i t frs hi
      split at h
      · rename_i sec ff hp
        cases err with
        | some tag =>
          have : s' = s.upd t (relSh s.sh frs (some tag)) (.ret sec (reported s.sh tag)) := by
            split at h <;> (cases h; rfl)
          rw [this]; exact herr t frs sec ff tag hi hp
        | none =>
          cases ff with
          | true =>
            simp only [if_true] at h
            cases h; exact hok t frs sec hi hp
          | false =>
            simp only [Bool.false_eq_true, if_false] at h
            by_cases hfr : sec.frames = []
            · simp only [hfr, List.isEmpty_nil, if_true] at h
              cases h; exact hflush t frs sec hi hp hfr
            · have : sec.frames.isEmpty = false := by simpa using hfr
              simp only [this, Bool.false_eq_true, if_false] at h
              cases h; exact hframe t frs sec hi hp hfr
      · cases h
  | marshalDone t =>
    simp only at h
    split at h
    · rename_i d sec hp; cases h; rw [setPc_eq_upd]; exact hmar t d sec hp
    · cases h
  | unmarshalDone t =>
    simp only at h
    split at h
    · rename_i d m hp
      split at h
      · cases h; rw [setPc_eq_upd]; exact hunm t d m hp ‹_›
      · cases h
    · cases h

theorem envA {s : St} {t : Tid} {sh' : Sh} {p' : PC} (hl : live sh' = live s.sh)
    (hp1 : pend p' ≠ [] → pend p' = pend (s.pc t))
    (hp2 : complete p' = true → complete (s.pc t) = true)
    (hp3 : flushedNil p' = true → flushedNil (s.pc t) = true ∨
      (complete (s.pc t) = true ∧ live sh' = sh'.wire.flatten)) :
    live (s.upd t sh' p').sh = live s.sh ∧
    (∀ u, pend ((s.upd t sh' p').pc u) ≠ [] → pend ((s.upd t sh' p').pc u) = pend (s.pc u)) ∧
    (∀ u, complete ((s.upd t sh' p').pc u) = true → complete (s.pc u) = true) ∧
    (∀ u, flushedNil ((s.upd t sh' p').pc u) = true → flushedNil (s.pc u) = true ∨
      (complete (s.pc u) = true ∧ live (s.upd t sh' p').sh = (s.upd t sh' p').sh.wire.flatten)) := by
  rw [upd_sh]
  refine ⟨hl, ?_, ?_, ?_⟩ <;> intro u <;>
    rcases upd_pc_cases s t u sh' p' with ⟨rfl, h1⟩ | ⟨_, h1⟩ <;> rw [h1]
  · exact hp1
  · exact fun _ => rfl
  · exact hp2
  · exact id
  · exact hp3
  · exact fun h => .inl h

/-- the two ways an environment event touches them -/
theorem env_shape2 {s s' : St} {e : Env} (h : envStep s e = some s') (l : Locks s)
    (hb : s.sh.inflight.isSome = true → s.sh.wbuf = []) :
    s'.sh.hist = s.sh.hist ∧ s'.sh.mid = s.sh.mid ∧ s'.sh.midN = s.sh.midN ∧ s'.sh.started = s.sh.started ∧
    s'.sh.sendRets = s.sh.sendRets ∧
    ((live s'.sh = live s.sh ∧
      (∀ u, pend (s'.pc u) ≠ [] → pend (s'.pc u) = pend (s.pc u)) ∧
      (∀ u, complete (s'.pc u) = true → complete (s.pc u) = true) ∧
      (∀ u, flushedNil (s'.pc u) = true → flushedNil (s.pc u) = true ∨
        (complete (s.pc u) = true ∧ live s'.sh = s'.sh.wire.flatten))) ∨
     (live s'.sh <+: live s.sh ∧ (∀ u, pend (s'.pc u) = []) ∧ ∀ u, complete (s'.pc u) = false)) := by
  refine envStep_elim2 h ?_ ?_ ?_ ?_ ?_ ?_
  · intro t frs sec ff tag hi hp
    refine ⟨by simp [relSh], by simp [relSh], by simp [relSh], by simp [relSh], by simp [relSh], .inr ?_⟩
    have hw : holdsW (s.pc t) = true := by simp [hp]
    have hno := l.w.others hw
    rw [upd_sh]
    refine ⟨?_, ?_, ?_⟩
    · rcases live_relSh_err s.sh t frs tag hi with h1 | h1
      · exact ⟨frs, h1⟩
      · exact absurd (hb (by simp [hi])) h1
    · intro u
      rcases upd_pc_cases s t u (relSh s.sh frs (some tag)) (.ret sec (reported s.sh tag)) with ⟨_, h1⟩ | ⟨hu, h1⟩ <;> rw [h1]
      · simp
      · exact pend_nil_of_not_holdsW _ (hno u hu)
    · intro u
      rcases upd_pc_cases s t u (relSh s.sh frs (some tag)) (.ret sec (reported s.sh tag)) with ⟨_, h1⟩ | ⟨hu, h1⟩ <;> rw [h1]
      · have := reported_ne_nil s.sh tag
        cases hr : reported s.sh tag <;> simp_all
      · cases hc : complete (s.pc u) with
        | false => rfl
        | true => have := hno u hu; rw [complete_holdsW _ hc] at this; cases this
  · intro t frs sec hi hp
    refine ⟨by simp [relSh], by simp [relSh], by simp [relSh], by simp [relSh], by simp [relSh], .inl ?_⟩
    have hwb : s.sh.wbuf = [] := hb (by simp [hi])
    refine envA (live_relSh_ok _ t frs hi) (by simp) (by simp (config := { contextual := true }) [hp]) ?_
    intro hf
    right
    refine ⟨?_, by simp [live, relSh, inflightFrames, hwb]⟩
    simp at hf; simp [hp, hf.1.1]
  · intro t frs sec hi hp hfr
    refine ⟨by simp [relSh], by simp [relSh], by simp [relSh], by simp [relSh], by simp [relSh], .inl ?_⟩
    exact envA (live_relSh_ok _ t frs hi) (by simp) (by simp [hp, hfr]) (by simp)
  · intro t frs sec hi hp hfr
    refine ⟨by simp [relSh], by simp [relSh], by simp [relSh], by simp [relSh], by simp [relSh], .inl ?_⟩
    exact envA (live_relSh_ok _ t frs hi) (by simp [hp]) (by simp [hp]) (by simp)
  · intro t d sec hp
    exact ⟨by simp, by simp, by simp, by simp, by simp, .inl (envA rfl (by simp) (by simp) (by simp))⟩
  · intro t d m hp hm
    exact ⟨by simp, by simp, by simp, by simp, by simp, .inl (envA rfl (by simp) (by simp) (by simp))⟩

theorem step_opts {s s' : St} {t : Tid} (h : step s t = some s') : s'.opts = s.opts := by
  unfold step at h
  pc_cases s t hp =>
    step_explode h hp
    all_goals simp

/-- `wr.Empty()` is accurate when no write is in flight -/
theorem step_wflag {s s' : St} {t : Tid} (h : step s t = some s')
    (ih : s.sh.inflight = none → s.sh.wFlag = false → s.sh.wbuf = []) :
    s'.sh.inflight = none → s'.sh.wFlag = false → s'.sh.wbuf = [] := by
  unfold step at h
  pc_cases s t hp =>
    step_explode h hp
    all_goals (simp (config := { contextual := true }) [*])
    all_goals (first | done | exact ih | simp_all)

theorem env_wflag {s s' : St} {e : Env} (h : envStep s e = some s')
    (hb : s.sh.inflight.isSome = true → s.sh.wbuf = [])
    (ih : s.sh.inflight = none → s.sh.wFlag = false → s.sh.wbuf = []) :
    s'.sh.inflight = none → s'.sh.wFlag = false → s'.sh.wbuf = [] := by
  env_cases h with t hp hi =>
    first
    | (intro _ _; simpa using hb (by simp [hi]))
    | simpa using ih

theorem reach_wflag {s : St} (h : Reach s) : s.sh.inflight = none → s.sh.wFlag = false → s.sh.wbuf = [] := by
  induction h with
  | init o => simp
  | step hr hs ih => exact step_wflag hs ih
  | env hr he ih => exact env_wflag he (reach_inflightBuf hr) ih
  | spawn _ _ ih => simpa using ih

/-! ### the started messages -/

structure Msgs (s : St) : Prop where
  sLe : ∀ r ∈ s.sh.started, 1 ≤ r.mid.toNat ∧ r.mid.toNat ≤ s.sh.midN
  sInc : s.sh.started.Pairwise (fun a b => a.mid.toNat < b.mid.toNat)
  sOK : ∀ r ∈ s.sh.started, RecOK s.opts r
  /-- the frames appended for a message are an initial segment of its frames -/
  pre : ∀ r ∈ s.sh.started, s.sh.hist.filter (midIs r.mid) <+: r.frames
  /-- every appended frame belongs to a started message -/
  cover : ∀ f ∈ s.sh.hist, ∃ r ∈ s.sh.started, r.mid = f.mid
  /-- the send in progress: appended ++ still to append = the frames of the last started message -/
  cur : ∀ u, pend (s.pc u) ≠ [] → ∃ r, s.sh.started.getLast? = some r ∧ r.mid = s.sh.mid ∧
    s.sh.hist.filter (midIs s.sh.mid) ++ pend (s.pc u) = r.frames
  /-- a send that has appended everything and has not failed: all its frames are appended and live -/
  done : ∀ u, complete (s.pc u) = true → ∃ r, s.sh.started.getLast? = some r ∧ r.mid = s.sh.mid ∧
    s.sh.hist.filter (midIs s.sh.mid) = r.frames ∧ (live s.sh).filter (midIs s.sh.mid) = r.frames
  /-- … and after its successful flush they are all in completed transport writes -/
  flushed : ∀ u, flushedNil (s.pc u) = true →
    s.sh.wire.flatten.filter (midIs s.sh.mid) = s.sh.hist.filter (midIs s.sh.mid)
  /-- the recorded nil results -/
  rets : ∀ x ∈ s.sh.sendRets, x.2.2.1 = .nil → ∃ r ∈ s.sh.started, r.mid = x.2.1 ∧
    s.sh.hist.filter (midIs r.mid) = r.frames ∧
    (x.2.2.2 = true → r.frames <+: s.sh.wire.flatten.filter (midIs r.mid))

theorem Msgs.init (o : Opts) : Msgs { opts := o } := by
  constructor <;> simp

theorem pairwise_mid_inj {l : List Started} (h : l.Pairwise (fun a b => a.mid.toNat < b.mid.toNat))
    {a b : Started} (ha : a ∈ l) (hb : b ∈ l) (hm : a.mid = b.mid) : a = b := by
  induction l with
  | nil => cases ha
  | cons x xs ih =>
    rw [List.pairwise_cons] at h
    simp only [List.mem_cons] at ha hb
    rcases ha with rfl | ha <;> rcases hb with rfl | hb
    · rfl
    · have := h.1 b hb; rw [hm] at this; omega
    · have := h.1 a ha; rw [hm] at this; omega
    · exact ih h.2 ha hb

theorem filter_midIs_ne {m : U64} {fr : Frame} (h : fr.mid ≠ m) (l : List Frame) :
    (l ++ [fr]).filter (midIs m) = l.filter (midIs m) := by
  rw [List.filter_append, filter_midIs_singleton, if_neg h, List.append_nil]

theorem filter_midIs_eq {fr : Frame} (l : List Frame) :
    (l ++ [fr]).filter (midIs fr.mid) = l.filter (midIs fr.mid) ++ [fr] := by
  rw [List.filter_append, filter_midIs_singleton, if_pos rfl]

theorem live_eq_wire {sh : Sh} (h1 : sh.inflight = none) (h2 : sh.wbuf = []) : live sh = sh.wire.flatten := by
  simp [live, inflightFrames, h1, h2]

theorem Msgs.stepA {s s' : St} {t : Tid} (hother : ∀ u, u ≠ t → s'.pc u = s.pc u) (i : Msgs s)
    (hF : s.sh.inflight = none → s.sh.wFlag = false → s.sh.wbuf = []) (hopts : s'.opts = s.opts)
    (h1 : live s'.sh = live s.sh) (h2 : s'.sh.hist = s.sh.hist) (h3 : s'.sh.mid = s.sh.mid)
    (h4 : s'.sh.midN = s.sh.midN) (h5 : s'.sh.started = s.sh.started) (h6 : s'.sh.wire = s.sh.wire)
    (h7 : pend (s'.pc t) = [])
    (h8 : complete (s'.pc t) = true → complete (s.pc t) = true)
    (h9 : flushedNil (s'.pc t) = true → flushedNil (s.pc t) = true ∨
        (complete (s.pc t) = true ∧ s.sh.inflight = none ∧ (s.sh.wFlag = false ∨ s.sh.wbuf = [])))
    (h10 : s'.sh.sendRets = s.sh.sendRets ∨ ∃ sec r, s.pc t = .unlockW sec r ∧ sec.checks = true ∧
        s'.sh.sendRets = s.sh.sendRets ++ [(t, s.sh.mid, r, decide (sec.flush = .checked))]) : Msgs s' := by
  have pcs : ∀ u, (u = t ∧ True) ∨ (u ≠ t ∧ s'.pc u = s.pc u) := fun u => by
    by_cases hu : u = t
    · exact .inl ⟨hu, trivial⟩
    · exact .inr ⟨hu, hother u hu⟩
  refine { sLe := ?_, sInc := ?_, sOK := ?_, pre := ?_, cover := ?_, cur := ?_, done := ?_, flushed := ?_, rets := ?_ }
  · rw [h5, h4]; exact i.sLe
  · rw [h5]; exact i.sInc
  · rw [h5, hopts]; exact i.sOK
  · rw [h5, h2]; exact i.pre
  · rw [h5, h2]; exact i.cover
  · intro u hu
    rcases pcs u with ⟨rfl, _⟩ | ⟨_, hpc⟩
    · exact absurd h7 hu
    · rw [hpc] at hu ⊢; rw [h5, h3, h2]; exact i.cur u hu
  · intro u hu
    rw [h5, h3, h2, h1]
    rcases pcs u with ⟨rfl, _⟩ | ⟨_, hpc⟩
    · exact i.done u (h8 hu)
    · rw [hpc] at hu; exact i.done u hu
  · intro u hu
    rw [h6, h3, h2]
    rcases pcs u with ⟨rfl, _⟩ | ⟨_, hpc⟩
    · rcases h9 hu with hf | ⟨hc, hin, hw⟩
      · exact i.flushed u hf
      · obtain ⟨r, _, _, hr1, hr2⟩ := i.done u hc
        have hwb : s.sh.wbuf = [] := by
          rcases hw with hw | hw
          · exact hF hin hw
          · exact hw
        rw [← live_eq_wire hin hwb, hr2, hr1]
    · rw [hpc] at hu; exact i.flushed u hu
  · intro x hx hnil
    rw [h5, h2, h6]
    rcases h10 with h10 | ⟨sec, r, hp, hck, h10⟩
    · rw [h10] at hx; exact i.rets x hx hnil
    · rw [h10, List.mem_append, List.mem_singleton] at hx
      rcases hx with hx | rfl
      · exact i.rets x hx hnil
      · simp only at hnil
        subst hnil
        have hc : complete (s.pc t) = true := by simp [hp, hck]
        obtain ⟨r, hl, hm, hr1, _⟩ := i.done t hc
        refine ⟨r, List.mem_of_getLast? hl, hm, by rw [hm]; exact hr1, ?_⟩
        intro hfl
        simp only [decide_eq_true_eq] at hfl
        have hf : flushedNil (s.pc t) = true := by simp [hp, hck, hfl]
        rw [hm, i.flushed t hf, hr1]
        exact List.prefix_refl _

/-- while `t` owns the write lock no other thread is in a write section -/
theorem owner_excl {s : St} (l : Locks s) {t : Tid} (hw : holdsW (s.pc t) = true) (u : Tid) (hu : u ≠ t) :
    pend (s.pc u) = [] ∧ complete (s.pc u) = false ∧ flushedNil (s.pc u) = false := by
  have hno := l.w.others hw u hu
  refine ⟨pend_nil_of_not_holdsW _ hno, ?_, ?_⟩
  · cases hc : complete (s.pc u) with
    | false => rfl
    | true => rw [complete_holdsW _ hc] at hno; cases hno
  · cases hc : flushedNil (s.pc u) with
    | false => rfl
    | true => rw [complete_holdsW _ (flushedNil_complete _ hc)] at hno; cases hno

theorem Msgs.stepB {s s' : St} {t : Tid} (hother : ∀ u, u ≠ t → s'.pc u = s.pc u) (l : Locks s) (w : Wire s)
    (i : Msgs s) (hopts : s'.opts = s.opts) (hnw : s'.sh.midN < 2^64)
    (h2 : s'.sh.hist = s.sh.hist) (h6 : s'.sh.wire = s.sh.wire)
    (h10 : s'.sh.sendRets = s.sh.sendRets) (h3 : s'.sh.mid = s.sh.mid + 1#64) (h4 : s'.sh.midN = s.sh.midN + 1)
    (hw : holdsW (s.pc t) = true) (hc : complete (s'.pc t) = false)
    (rec : Started) (h5 : s'.sh.started = s.sh.started ++ [rec]) (hrm : rec.mid = s.sh.mid + 1#64)
    (hrf : rec.frames = pend (s'.pc t)) (hrok : RecOK s.opts rec) : Msgs s' := by
  have hnw0 : s.sh.midN + 1 < 2^64 := h4 ▸ hnw
  have hmidN : (s.sh.mid + 1#64).toNat = s.sh.midN + 1 := by
    rw [w.midEq, ← BitVec.ofNat_add, ofNat_toNat_of_lt hnw0]
  have hempty : s.sh.hist.filter (midIs (s.sh.mid + 1#64)) = [] := by
    rw [List.filter_eq_nil_iff]
    intro f hf hm
    have hle := w.histLe (by omega) f hf
    simp only [midIs, beq_iff_eq] at hm
    rw [hm, hmidN] at hle
    omega
  have excl := owner_excl l hw
  have pcs : ∀ u, u = t ∨ (u ≠ t ∧ s'.pc u = s.pc u) := fun u => by
    by_cases hu : u = t
    · exact .inl hu
    · exact .inr ⟨hu, hother u hu⟩
  refine { sLe := ?_, sInc := ?_, sOK := ?_, pre := ?_, cover := ?_, cur := ?_, done := ?_, flushed := ?_, rets := ?_ }
  · intro r hr
    rw [h5, List.mem_append, List.mem_singleton] at hr
    rw [h4]
    rcases hr with hr | rfl
    · have := i.sLe r hr; omega
    · rw [hrm, hmidN]; omega
  · rw [h5, List.pairwise_append]
    refine ⟨i.sInc, by simp, ?_⟩
    intro a ha b hb
    simp only [List.mem_singleton] at hb
    subst hb
    have := (i.sLe a ha).2
    rw [hrm, hmidN]; omega
  · intro r hr
    rw [h5, List.mem_append, List.mem_singleton] at hr
    rw [hopts]
    rcases hr with hr | rfl
    · exact i.sOK r hr
    · exact hrok
  · intro r hr
    rw [h5, List.mem_append, List.mem_singleton] at hr
    rw [h2]
    rcases hr with hr | rfl
    · exact i.pre r hr
    · rw [hrm, hempty]; exact List.nil_prefix
  · intro f hf
    rw [h2] at hf
    obtain ⟨r, hr, hm⟩ := i.cover f hf
    exact ⟨r, by rw [h5]; exact List.mem_append_left _ hr, hm⟩
  · intro u hu
    rcases pcs u with rfl | ⟨hne, hpc⟩
    · refine ⟨rec, by rw [h5]; simp, by rw [hrm, h3], ?_⟩
      rw [h2, h3, hempty, List.nil_append, hrf]
    · rw [hpc] at hu; exact absurd (excl u hne).1 hu
  · intro u hu
    rcases pcs u with rfl | ⟨hne, hpc⟩
    · rw [hc] at hu; cases hu
    · rw [hpc, (excl u hne).2.1] at hu; cases hu
  · intro u hu
    rcases pcs u with rfl | ⟨hne, hpc⟩
    · rw [flushedNil_complete _ hu] at hc; cases hc
    · rw [hpc, (excl u hne).2.2] at hu; cases hu
  · intro x hx hnil
    rw [h10] at hx
    obtain ⟨r, hr, h1, h2', h3'⟩ := i.rets x hx hnil
    exact ⟨r, by rw [h5]; exact List.mem_append_left _ hr, h1, by rw [h2]; exact h2', by rw [h6]; exact h3'⟩

theorem Msgs.stepC {s s' : St} {t : Tid} (hother : ∀ u, u ≠ t → s'.pc u = s.pc u) (l : Locks s) (w : Wire s)
    (wh : Whole s) (i : Msgs s) (hopts : s'.opts = s.opts)
    (hw : holdsW (s.pc t) = true) (fr : Frame) (hp : pend (s.pc t) = fr :: pend (s'.pc t))
    (h1 : live s'.sh = live s.sh ++ [fr]) (h2 : s'.sh.hist = s.sh.hist ++ [fr]) (h3 : s'.sh.mid = s.sh.mid)
    (h4 : s'.sh.midN = s.sh.midN) (h5 : s'.sh.started = s.sh.started) (h6 : s'.sh.wire = s.sh.wire)
    (h10 : s'.sh.sendRets = s.sh.sendRets) (hcp : complete (s'.pc t) = true → pend (s'.pc t) = [])
    (hfn : flushedNil (s'.pc t) = false) : Msgs s' := by
  have hne : pend (s.pc t) ≠ [] := by rw [hp]; simp
  have hmid : fr.mid = s.sh.mid := w.pendMid t fr (by rw [hp]; simp)
  obtain ⟨r0, hl0, hm0, hf0⟩ := i.cur t hne
  have hr0 : r0 ∈ s.sh.started := List.mem_of_getLast? hl0
  rw [hp] at hf0
  have hQ := wh.cur ⟨t, hne⟩
  have excl := owner_excl l hw
  have pcs : ∀ u, u = t ∨ (u ≠ t ∧ s'.pc u = s.pc u) := fun u => by
    by_cases hu : u = t
    · exact .inl hu
    · exact .inr ⟨hu, hother u hu⟩
  have hhist : s'.sh.hist.filter (midIs s.sh.mid) = s.sh.hist.filter (midIs s.sh.mid) ++ [fr] := by
    rw [h2, ← hmid, filter_midIs_eq]
  have uniq : ∀ r ∈ s.sh.started, r.mid = s.sh.mid → r = r0 :=
    fun r hr hm => pairwise_mid_inj i.sInc hr hr0 (hm.trans hm0.symm)
  refine { sLe := ?_, sInc := ?_, sOK := ?_, pre := ?_, cover := ?_, cur := ?_, done := ?_, flushed := ?_, rets := ?_ }
  · rw [h5, h4]; exact i.sLe
  · rw [h5]; exact i.sInc
  · rw [h5, hopts]; exact i.sOK
  · intro r hr
    rw [h5] at hr
    by_cases hm : r.mid = s.sh.mid
    · rw [uniq r hr hm, hm0, hhist, ← hf0]
      exact ⟨pend (s'.pc t), by simp⟩
    · rw [h2, filter_midIs_ne (by rw [hmid]; exact fun h => hm h.symm)]
      exact i.pre r hr
  · intro f hf
    rw [h2, List.mem_append, List.mem_singleton] at hf
    rw [h5]
    rcases hf with hf | rfl
    · exact i.cover f hf
    · exact ⟨r0, hr0, by rw [hm0, hmid]⟩
  · intro u hu
    rcases pcs u with rfl | ⟨hne', hpc⟩
    · refine ⟨r0, by rw [h5]; exact hl0, by rw [h3]; exact hm0, ?_⟩
      rw [h3, hhist, ← hf0]; simp
    · rw [hpc] at hu; exact absurd (excl u hne').1 hu
  · intro u hu
    rcases pcs u with rfl | ⟨hne', hpc⟩
    · have hrest := hcp hu
      rw [hrest] at hf0
      refine ⟨r0, by rw [h5]; exact hl0, by rw [h3]; exact hm0, ?_, ?_⟩
      · rw [h3, hhist]; exact hf0
      · rw [h3, h1, ← hmid, filter_midIs_eq, hmid, hQ]; exact hf0
    · rw [hpc, (excl u hne').2.1] at hu; cases hu
  · intro u hu
    rcases pcs u with rfl | ⟨hne', hpc⟩
    · rw [hfn] at hu; cases hu
    · rw [hpc, (excl u hne').2.2] at hu; cases hu
  · intro x hx hnil
    rw [h10] at hx
    obtain ⟨r, hr, hx1, hx2, hx3⟩ := i.rets x hx hnil
    refine ⟨r, by rw [h5]; exact hr, hx1, ?_, by rw [h6]; exact hx3⟩
    by_cases hm : r.mid = s.sh.mid
    · exfalso
      have := uniq r hr hm
      subst this
      rw [hm] at hx2
      rw [hx2] at hf0
      have := congrArg List.length hf0
      simp at this
    · rw [h2, filter_midIs_ne (by rw [hmid]; exact fun h => hm h.symm)]
      exact hx2

theorem Msgs.step {s s' : St} {t : Tid} (h : step s t = some s') (l : Locks s) (w : Wire s) (wh : Whole s)
    (hF : s.sh.inflight = none → s.sh.wFlag = false → s.sh.wbuf = [])
    (ok3 : ∀ u, pcOK3 (s.pc u) = true) (ok5 : ∀ u, pcOK5 (s.pc u) = true) (hnw : s'.sh.midN < 2^64)
    (i : Msgs s) : Msgs s' := by
  have hother : ∀ u, u ≠ t → s'.pc u = s.pc u := fun u hu => step_pc_other hu h
  have hopts := step_opts h
  rcases step_shape2 h l (ok3 t) (ok5 t) with ⟨h1, h2, h3, h4, h5, h6, h7, h8, h9, h10⟩ |
      ⟨_, h2, h6, h10, h3, h4, hw, hc, rec, h5, hrm, hrf, hrok⟩ |
      ⟨hw, fr, hp, h1, h2, h3, h4, h5, h6, h10, hcp, hfn⟩
  · exact Msgs.stepA hother i hF hopts h1 h2 h3 h4 h5 h6 h7 h8 h9 h10
  · exact Msgs.stepB hother l w i hopts hnw h2 h6 h10 h3 h4 hw hc rec h5 hrm hrf hrok
  · exact Msgs.stepC hother l w wh i hopts hw fr hp h1 h2 h3 h4 h5 h6 h10 hcp hfn

theorem wire_prefix_of_env {s s' : St} {e : Env} (h : envStep s e = some s') :
    s.sh.wire.flatten <+: s'.sh.wire.flatten := by
  rcases env_wire h with h1 | ⟨_, t, frs, _, h1⟩
  · rw [h1]; exact List.prefix_refl _
  · rw [h1]; exact ⟨frs, by simp⟩

theorem Msgs.env {s s' : St} {e : Env} (h : envStep s e = some s') (l : Locks s)
    (hb : s.sh.inflight.isSome = true → s.sh.wbuf = []) (wh' : Whole s') (i : Msgs s) : Msgs s' := by
  obtain ⟨h2, h3, h4, h5, h10, hcase⟩ := env_shape2 h l hb
  have hopts : s'.opts = s.opts := (env_mid h).2.2.2
  have hwp := wire_prefix_of_env h
  have base_rets : ∀ x ∈ s'.sh.sendRets, x.2.2.1 = .nil → ∃ r ∈ s'.sh.started, r.mid = x.2.1 ∧
      s'.sh.hist.filter (midIs r.mid) = r.frames ∧
      (x.2.2.2 = true → r.frames <+: s'.sh.wire.flatten.filter (midIs r.mid)) := by
    intro x hx hnil
    rw [h10] at hx
    obtain ⟨r, hr, hx1, hx2, hx3⟩ := i.rets x hx hnil
    exact ⟨r, by rw [h5]; exact hr, hx1, by rw [h2]; exact hx2, fun hf => (hx3 hf).trans (hwp.filter _)⟩
  rcases hcase with ⟨h1, hp1, hp2, hp3⟩ | ⟨_, hp1, hp2⟩
  · refine { sLe := by rw [h5, h4]; exact i.sLe, sInc := by rw [h5]; exact i.sInc,
             sOK := by rw [h5, hopts]; exact i.sOK, pre := by rw [h5, h2]; exact i.pre,
             cover := by rw [h5, h2]; exact i.cover, cur := ?_, done := ?_, flushed := ?_, rets := base_rets }
    · intro u hu
      have e := hp1 u hu
      rw [e] at hu ⊢
      rw [h5, h3, h2]; exact i.cur u hu
    · intro u hu
      rw [h5, h3, h2, h1]; exact i.done u (hp2 u hu)
    · intro u hu
      rw [h3, h2]
      rcases hp3 u hu with hf | ⟨hc, hlw⟩
      · have e1 := i.flushed u hf
        have p1 : s.sh.wire.flatten.filter (midIs s.sh.mid) <+: s'.sh.wire.flatten.filter (midIs s.sh.mid) :=
          hwp.filter _
        have p2 : s'.sh.wire.flatten.filter (midIs s.sh.mid) <+: s.sh.hist.filter (midIs s.sh.mid) := by
          have hl : s'.sh.wire.flatten <+: live s'.sh := ⟨inflightFrames s'.sh ++ s'.sh.wbuf, by simp [live]⟩
          have := (hl.filter (midIs s.sh.mid)).trans (wh'.pre s.sh.mid)
          rwa [h2] at this
        rw [e1] at p1
        exact p2.eq_of_length_le p1.length_le
      · obtain ⟨r, _, _, hr1, hr2⟩ := i.done u hc
        rw [← hlw, h1, hr2, hr1]
  · refine { sLe := by rw [h5, h4]; exact i.sLe, sInc := by rw [h5]; exact i.sInc,
             sOK := by rw [h5, hopts]; exact i.sOK, pre := by rw [h5, h2]; exact i.pre,
             cover := by rw [h5, h2]; exact i.cover, cur := ?_, done := ?_, flushed := ?_, rets := base_rets }
    · intro u hu; exact absurd (hp1 u) hu
    · intro u hu; rw [hp2 u] at hu; cases hu
    · intro u hu; have := hp2 u; rw [flushedNil_complete _ hu] at this; cases this

theorem Msgs.spawn {s : St} {t : Tid} {c : Call} (hd : ∃ r, s.pc t = .done r)
    (hF : s.sh.inflight = none → s.sh.wFlag = false → s.sh.wbuf = []) (i : Msgs s) :
    Msgs (s.setPc t (.start c)) := by
  obtain ⟨r, hp⟩ := hd
  rw [setPc_eq_upd]
  have hother : ∀ u, u ≠ t → (s.upd t s.sh (.start c)).pc u = s.pc u := fun u hu => upd_pc_ne _ _ _ _ _ hu
  exact Msgs.stepA (t := t) hother i hF rfl rfl rfl rfl rfl rfl rfl
    (by simp) (by simp) (by simp) (.inl rfl)

theorem reach_msgs {s : St} (h : Reach s) : s.sh.midN < 2^64 → Msgs s := by
  induction h with
  | init o => intro _; exact Msgs.init o
  | step hr hs ih =>
    intro hnw
    have hnw0 := Nat.lt_of_le_of_lt (step_midN_le hs) hnw
    exact (ih hnw0).step hs (reach_locks hr) (reach_wire hr) (reach_whole hr hnw0) (reach_wflag hr)
      (reach_pcOK3 hr) (reach_pcOK5 hr) hnw
  | env hr he ih =>
    intro hnw
    have hnw0 : _ < 2^64 := (env_mid he).2.1 ▸ hnw
    exact (ih hnw0).env he (reach_locks hr) (reach_inflightBuf hr) (reach_whole (hr.env he) hnw)
  | spawn hr hd ih =>
    intro hnw
    exact (ih (by simpa using hnw)).spawn hd (reach_wflag hr)

/-- what can reach the wire is a subsequence of what was appended (failed writes delete blocks) -/
theorem reach_sublist {s : St} (h : Reach s) : (live s.sh).Sublist s.sh.hist := by
  induction h with
  | init o => simp [live]
  | step hr hs ih =>
    rcases step_shape hs (reach_locks hr) with ⟨h1, h2, _⟩ | ⟨h1, h2, _⟩ | ⟨fr, _, h1, h2, _⟩
    · rw [h1, h2]; exact ih
    · rw [h1, h2]; exact ih
    · rw [h1, h2]; exact ih.append (List.Sublist.refl _)
  | env hr he ih =>
    obtain ⟨h2, _, _, hc⟩ := env_shape he (reach_locks hr) (reach_inflightBuf hr)
    rw [h2]
    rcases hc with ⟨h1, _⟩ | ⟨h1, _⟩
    · rw [h1]; exact ih
    · exact h1.sublist.trans ih
  | spawn _ _ ih => simpa using ih

end Drpc.Stream
