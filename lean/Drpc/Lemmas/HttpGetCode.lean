import Drpc.Http.GetCode
/- Lemmas about the error-code model: closed forms of the two bounded unwrap loops, totality,
   and decimal rendering. -/
namespace Drpc.Http
open Drpc

theorem drpcCodeLoop_none (n : Nat) : drpcCodeLoop n none = 0#64 := by
  cases n <;> simp [drpcCodeLoop]

theorem drpcCodeLoop_spec : ∀ (n : Nat) (chain : List Node) (f : End),
    drpcCodeLoop n (some (chain, f)) = ((chain.take n).findSome? codedVal).getD 0#64 := by
  intro n
  induction n with
  | zero => intro chain f; simp [drpcCodeLoop]
  | succ n ih =>
    intro chain f
    cases chain with
    | nil => cases f <;> simp [drpcCodeLoop, drpcCodeLoop_none]
    | cons nd rest =>
      cases nd <;> simp [drpcCodeLoop, ih, codedVal, List.take_succ_cons, List.findSome?_cons]

theorem getCodeLoop_none (n : Nat) (code : Bytes) : getCodeLoop true n none code = .ok code := by
  cases n <;> simp [getCodeLoop]

theorem getCodeLoop_spec : ∀ (n : Nat) (chain : List Node) (f : End) (code : Bytes),
    getCodeLoop true n (some (chain, f)) code = .ok (((chain.take n).findSome? twirpStr).getD code) := by
  intro n
  induction n with
  | zero => intro chain f code; simp [getCodeLoop]
  | succ n ih =>
    intro chain f code
    cases chain with
    | nil => cases f <;> simp [getCodeLoop, methodByNameCode, getCodeLoop_none]
    | cons nd rest =>
      cases nd <;> simp [getCodeLoop, methodByNameCode, ih, twirpStr, List.take_succ_cons, List.findSome?_cons]

theorem getCode_ne_panic (e : Option Err) : getCode e ≠ .panic := by
  cases e with
  | none => simp [getCode, getCodeG, curOf, getCodeLoop_none]
  | some e => simp [getCode, getCodeG, curOf, Err.cur, getCodeLoop_spec]

theorem getCode_unguarded_panics (msg : Bytes) : getCodeG false (some ⟨[], .nilWrap, msg⟩) = .panic := by
  simp [getCodeG, curOf, Err.cur, getCodeLoop, methodByNameCode]

theorem toDec_ne_nil (n : Nat) : toDec n ≠ [] := by
  rw [toDec]; split <;> simp

theorem toDec_zero_iff (n : Nat) : toDec n = [48#8] ↔ n = 0 := by
  constructor
  · intro h
    rw [toDec] at h
    split at h
    · rename_i hlt
      simp at h
      have : (BitVec.ofNat 8 (48 + n)).toNat = (48#8).toNat := by rw [h]
      simp at this; omega
    · have := toDec_ne_nil (n / 10)
      cases hd : toDec (n / 10) with
      | nil => exact absurd hd this
      | cons a t => rw [hd] at h; simp at h
  · intro h; subst h; rw [toDec]; simp

theorem toDec_digits : ∀ (n : Nat), ∀ b ∈ toDec n, 48 ≤ b.toNat ∧ b.toNat ≤ 57 := by
  intro n
  induction n using toDec.induct with
  | case1 n h =>
    intro b hb; rw [toDec] at hb; simp [h] at hb; subst hb; simp; omega
  | case2 n h ih =>
    intro b hb; rw [toDec] at hb; simp [h] at hb
    rcases hb with hb | hb
    · exact ih b hb
    · subst hb; simp; omega

end Drpc.Http
