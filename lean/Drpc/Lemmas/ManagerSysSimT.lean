import Drpc.Lemmas.ManagerSysSimDef
/-
  Simulation, part "terminate": the `term` / `tport.close` events lag behind the actions (`SimT`).
-/
set_option linter.unusedSimpArgs false
set_option linter.unusedVariables false
namespace Drpc.Manager.Sys
open Drpc.Manager

def isTE : PC → Bool
  | .tEvTerm _ | .tEvClose _ => true
  | _ => false

theorem simT_frame {s : St} {t : Tid} {sh' : Sh} {p' : PC} {ps ps' : PS} (hi : SimT s ps)
    (h1 : ps'.term = ps.term) (h2 : ps'.closes = ps.closes) (h3 : s.sh.term = true → sh'.term = true)
    (hp' : isTE p' = false) : SimT (s.upd t sh' p') ps' := by
  refine ⟨?_, ?_, ?_⟩
  · intro u k hu
    rw [upd_pc] at hu
    split at hu
    · rw [hu] at hp'; cases hp'
    · rw [h1]; exact hi.tfTerm u k hu
  · intro u k hu
    rw [upd_pc] at hu
    split at hu
    · rw [hu] at hp'; cases hp'
    · rw [h1, h2]; exact hi.tfClose u k hu
  · intro h; rw [h1] at h; exact h3 (hi.x3 h)

theorem isTE_afterTerminate (k : TK) : isTE (afterTerminate k) = false := by cases k <;> rfl
theorem isTE_afterCancel (r : Bool) (k : CK) : isTE (afterCancel r k) = false := by cases k <;> cases r <;> rfl
theorem isTE_failHolding (c : Call) : isTE (failHolding c) = false := by cases c <;> rfl

/-- the thread in the body of `terminate` moves on: no other thread is there -/
theorem simT_body {s : St} {t : Tid} {sh' : Sh} {p' : PC} {ps' : PS} (hs : Safe s) (hin : inTm (s.pc t) = true)
    (h1 : ∀ k, p' = .tEvTerm k → ps'.term = false) (h2 : ∀ k, p' = .tEvClose k → ps'.term = true ∧ ps'.closes = 0)
    (h3 : sh'.term = true) : SimT (s.upd t sh' p') ps' := by
  have hne : ∀ u, u ≠ t → inTm (s.pc u) = false := by
    intro u hu
    cases hx : inTm (s.pc u) with
    | false => rfl
    | true => exact absurd (hs.tm.uniq u t hx hin) hu
  refine ⟨?_, ?_, fun _ => h3⟩
  · intro u k hu
    rw [upd_pc] at hu
    split at hu
    · exact h1 k hu
    · rename_i hne'; have := hne u hne'; rw [hu] at this; cases this
  · intro u k hu
    rw [upd_pc] at hu
    split at hu
    · exact h2 k hu
    · rename_i hne'; have := hne u hne'; rw [hu] at this; cases this

theorem simT_tr {s : St} {t : Tid} {p : PC} {sh' : Sh} {p' : PC} {ps ps' : PS} (hs : Safe s) (hv : Inv ps)
    (hi : SimT s ps) (hp : s.pc t = p) (h : Tr s t p sh' p') (hn : psNext ps p = some ps') :
    SimT (s.upd t sh' p') ps' := by
  cases h
  case rDeliver h1 h2 =>
    ps_cases_deliver hn h1 h2
    exact simT_frame hi rfl rfl (fun h => h) rfl
  case rDrop h1 h2 =>
    ps_cases_drop hn h1 h2
    exact simT_frame hi rfl rfl (fun h => h) rfl
  case rNewer h1 =>
    ps_cases_newer hn h1
    exact simT_frame hi rfl rfl (fun h => h) rfl
  all_goals ps_cases hn
  all_goals
    first
    | exact simT_frame hi rfl rfl (fun h => h) (by first | rfl | exact isTE_afterTerminate _ | exact isTE_afterCancel _ _ | exact isTE_failHolding _)
    | skip
  case tSetFirst k hterm =>
    refine ⟨?_, ?_, fun h => rfl⟩
    · intro u k' hu
      cases hx : ps.term with
      | false => rfl
      | true => have := hi.x3 hx; rw [hterm] at this; cases this
    · intro u k' hu
      rw [upd_pc] at hu
      split at hu
      · cases hu
      · exact hi.tfClose u k' hu
  case tEvTerm.isFalse k hg =>
    have hin : inTm (s.pc t) = true := by rw [hp]; rfl
    refine simT_body hs hin (by intro k h; cases h) ?_ (tm_term_of_in hs.tm hin)
    intro k' _
    refine ⟨rfl, ?_⟩
    have h1 := hi.tfTerm t k hp
    have h2 := hv.closes
    show ps.closes = 0
    cases hc : ps.closes with
    | zero => rfl
    | succ n =>
      have : ps.closes = 1 := by omega
      have := h2.2 this
      rw [h1] at this; cases this
  case tEvClose.isTrue k hg =>
    have hin : inTm (s.pc t) = true := by rw [hp]; rfl
    exact simT_body hs hin (by intro k h; cases h) (by intro k h; cases h) (tm_term_of_in hs.tm hin)

theorem simT_etr {s : St} {t : Tid} {sh' : Sh} {p' : PC} {ps : PS} (hi : SimT s ps) (h : ETr s t sh' p') :
    SimT (s.upd t sh' p') ps := by
  have hsame : ∀ sh'', (s.sh.term = true → sh''.term = true) → SimT (s.upd readerTid sh'' (s.pc readerTid)) ps := by
    intro sh'' h3
    refine ⟨?_, ?_, fun h => h3 (hi.x3 h)⟩
    · intro u k hu; rw [upd_same_pc] at hu; exact hi.tfTerm u k hu
    · intro u k hu; rw [upd_same_pc] at hu; exact hi.tfClose u k hu
  cases h
  all_goals
    first
    | exact simT_frame hi rfl rfl (fun h => h) rfl
    | exact hsame _ (fun h => h)

end Drpc.Manager.Sys
