import Drpc.Lemmas.HttpTwirp
/- Lemmas about the end-to-end exchange: Finish always replies, the Twirp send loop, and
   ServeHTTP never panics. -/
namespace Drpc.Http
open Drpc
theorem mem_takeWhile (q : Bytes → Bool) : ∀ (l : List Bytes) (m : Bytes), m ∈ l.takeWhile q → q m = true := by
  intro l
  induction l with
  | nil => intro m h; simp at h
  | cons a l ih =>
    intro m h
    rw [List.takeWhile_cons] at h
    split at h
    · rcases List.mem_cons.1 h with rfl | h'
      · assumption
      · exact ih m h'
    · simp at h

theorem accepted_fits (p : Proto) (stop : Bool) (msgs : List Bytes) :
    ∀ m ∈ accepted p stop msgs, (marshal p.json m).length < maxSize := by
  intro m hm
  unfold accepted at hm
  have : fits p m = true := by
    cases stop with
    | true => simp only [if_true] at hm; exact mem_takeWhile _ _ _ hm
    | false => simp at hm; exact hm.2
  simpa [fits] using this


theorem select_isSome (ct : String) : (select ct).isSome = true := by
  unfold select selectIn
  cases lookup ct protocols with
  | some p => rfl
  | none => decide

theorem twFinish_some (p : Proto) (st : TwirpSt) (e : Option Err) :
    ∃ r, twFinish p st e = some r ∧ (r.status = 200 ↔ e = none) := by
  cases e with
  | none => exact ⟨_, rfl, by simp⟩
  | some err =>
    have hp := getCode_ne_panic (some err)
    unfold twFinish
    cases h : getCode (some err) with
    | panic => exact absurd h hp
    | ok code => exact ⟨_, rfl, by simp [statusOf_ne_200]⟩

theorem twFinish_err (p : Proto) (st : TwirpSt) (err : Err) :
    ∃ code, getCode (some err) = .ok code ∧
      twFinish p st (some err) = some ⟨statusOf code, "application/json", .jsonErr code err.msg⟩ ∧
      (statusOf code = 500 ∨ (code, statusOf code) ∈ twirpStatus) := by
  have hp := getCode_ne_panic (some err)
  cases h : getCode (some err) with
  | panic => exact absurd h hp
  | ok code =>
    refine ⟨code, rfl, ?_, statusIn_cases twirpStatus code⟩
    simp [twFinish, h]

theorem serveSends_twirp (p : Proto) (hk : p.kind = .twirp) (stop : Bool) (msgs : List Bytes) (result : Option Err) :
    (serveSends p stop msgs result).1 = twFinish p (runSends (twSend p.json) stop {} msgs).2.1
      (match (runSends (twSend p.json) stop {} msgs).2.2 with | some r => r.toErr | none => result) := by
  unfold serveSends
  simp only [hk]
  rfl

theorem twFinish_200 (p : Proto) (st : TwirpSt) (fin : Option Err) (r : Reply)
    (h : twFinish p st fin = some r) (hs : r.status = 200) : r = ⟨200, p.ct, .raw st.response⟩ := by
  cases fin with
  | none => simp [twFinish] at h; exact h.symm
  | some err =>
    obtain ⟨code, _, h2, _⟩ := twFinish_err p st err
    rw [h2] at h; cases h
    exact absurd hs (statusOf_ne_200 code)


theorem serveSends_some (p : Proto) (stop : Bool) (msgs : List Bytes) (result : Option Err) :
    (serveSends p stop msgs result).1 ≠ none := by
  cases hk : p.kind with
  | grpcWeb => rw [serveSends_grpcweb p hk]; simp
  | twirp =>
    rw [serveSends_twirp p hk]
    obtain ⟨r, hr, _⟩ := twFinish_some p (runSends (twSend p.json) stop {} msgs).2.1
      (match (runSends (twSend p.json) stop {} msgs).2.2 with | some r => r.toErr | none => result)
    rw [hr]; simp

theorem finishOnly_some (p : Proto) (e : Err) : finishOnly p e ≠ none := by
  unfold finishOnly
  cases hk : p.kind with
  | grpcWeb => simp only; rw [gwFinish_eq]; simp
  | twirp =>
    simp only
    obtain ⟨r, hr, _⟩ := twFinish_some p {} (some e)
    rw [hr]; simp

/-- the whole exchange never panics -/
theorem serve_ne_panic (req : Request) (s : Script) : serve req s ≠ .panic := by
  unfold serve
  have hsel := select_isSome req.ct
  cases hs : select req.ct with
  | none => rw [hs] at hsel; cases hsel
  | some p =>
    simp only
    have hmd : ∃ md, mdOf req.hdrs = some md := by
      have hb := buildContext_ne_panic req.hdrs
      unfold mdOf
      cases hc : buildContext req.hdrs with
      | panic => exact absurd hc hb
      | ok ps => exact ⟨_, rfl⟩
      | ends => exact ⟨_, rfl⟩
      | hex => exact ⟨_, rfl⟩
    obtain ⟨md, hmd⟩ := hmd
    rw [hmd]
    simp only
    have h1 := fun ms => serveSends_some p s.stop ms s.result
    have h2 := finishOnly_some p
    split
    · split
      · simp
      · split <;> simp_all
      · split
        · rename_i heq; exact absurd (by rw [heq]) (h1 _)
        · simp
    · split
      · rename_i heq; exact absurd (by rw [heq]) (h1 _)
      · simp

end Drpc.Http
