import Drpc.Gen
/- helper lemmas for C17: the underscore doubling, the (service, method) pair encoding, the
   origin-indexed view of the identifiers the generator emits, and their pairwise distinctness. -/
namespace Drpc.Gen

theorem dbl_head_underscore (a : Ident) : (dbl a).head? = some '_' ↔ a.head? = some '_' := by
  cases a with
  | nil => simp [dbl]
  | cons c t =>
    by_cases h : c = '_'
    · simp [dbl, h]
    · simp [dbl, h]

theorem dbl_injective : ∀ (a b : Ident), dbl a = dbl b → a = b
  | [], [] => fun _ => rfl
  | [], c :: t => by
    by_cases h : c = '_' <;> simp [dbl, h]
  | c :: t, [] => by
    by_cases h : c = '_' <;> simp [dbl, h]
  | c :: t, d :: u => by
    intro h
    by_cases hc : c = '_' <;> by_cases hd : d = '_'
    · subst hc; subst hd
      simp [dbl] at h
      rw [dbl_injective t u h]
    · subst hc
      have hd' : ¬ ('_' = d) := fun e => hd e.symm
      simp [dbl, hd, hd'] at h
    · subst hd
      simp [dbl, hc] at h
    · simp [dbl, hc, hd] at h
      rw [h.1, dbl_injective t u h.2]

/-- the pair encoding `dbl a ++ "_" ++ dbl b` is injective as long as the second components do not
    begin with an underscore -/
theorem pair_injective : ∀ (a a' b b' : Ident), b.head? ≠ some '_' → b'.head? ≠ some '_' →
    dbl a ++ '_' :: dbl b = dbl a' ++ '_' :: dbl b' → a = a' ∧ b = b'
  | [], [], b, b', _, _ => by
    intro h; simp [dbl] at h; exact ⟨rfl, dbl_injective _ _ h⟩
  | [], c :: t, b, b', hb, _ => by
    intro h
    by_cases hc : c = '_'
    · subst hc
      simp [dbl] at h
      have : (dbl b).head? = some '_' := by rw [h]; rfl
      exact absurd ((dbl_head_underscore b).1 this) hb
    · simp [dbl, hc] at h
      exact absurd h.1.symm hc
  | c :: t, [], b, b', _, hb' => by
    intro h
    by_cases hc : c = '_'
    · subst hc
      simp [dbl] at h
      have : (dbl b').head? = some '_' := by rw [← h]; rfl
      exact absurd ((dbl_head_underscore b').1 this) hb'
    · simp [dbl, hc] at h
  | c :: t, d :: u, b, b', hb, hb' => by
    intro h
    by_cases hc : c = '_' <;> by_cases hd : d = '_'
    · subst hc; subst hd
      simp [dbl] at h
      obtain ⟨h1, h2⟩ := pair_injective t u b b' hb hb' h
      exact ⟨by rw [h1], h2⟩
    · subst hc
      have hd' : ¬ ('_' = d) := fun e => hd e.symm
      simp [dbl, hd, hd'] at h
    · subst hd
      simp [dbl, hc] at h
    · simp [dbl, hc, hd] at h
      obtain ⟨h1, h2⟩ := pair_injective t u b b' hb hb' h.2
      exact ⟨by rw [h.1, h1], h2⟩


inductive SvcKind where
  | cIface | cImpl | newC | sIface | unimpl | desc | reg
deriving DecidableEq, Repr

/-- where an emitted package-level identifier comes from -/
inductive Org where
  | enc (f : FileD)
  | svc (k : SvcKind) (s : Service)
  | cstrm (impl : Bool) (s : Service) (m : Method)
  | sstrm (impl : Bool) (s : Service) (m : Method)

def Org.name : Org → Ident
  | .enc f => encodingName f
  | .svc .cIface s => clientIface s
  | .svc .cImpl s => clientImpl s
  | .svc .newC s => newClient s
  | .svc .sIface s => serverIface s
  | .svc .unimpl s => serverUnimpl s
  | .svc .desc s => serverDesc s
  | .svc .reg s => registerFn s
  | .cstrm false s m => clientStreamIface s m
  | .cstrm true s m => clientStreamImpl s m
  | .sstrm false s m => serverStreamIface s m
  | .sstrm true s m => serverStreamImpl s m

def methOrgsC (s : Service) (m : Method) : List Org :=
  if unary m.cs m.ss then [] else [.cstrm false s m, .cstrm true s m]
def methOrgsS (s : Service) (m : Method) : List Org := [.sstrm false s m, .sstrm true s m]
def svcOrgs (s : Service) : List Org :=
  [.svc .cIface s, .svc .cImpl s, .svc .newC s] ++ s.methods.flatMap (methOrgsC s) ++
  [.svc .sIface s, .svc .unimpl s, .svc .desc s, .svc .reg s] ++ s.methods.flatMap (methOrgsS s)
def fileOrgs (f : FileD) : List Org :=
  if f.services = [] then [] else .enc f :: f.services.flatMap svcOrgs
def pkgOrgs (p : Pkg) : List Org := p.files.flatMap fileOrgs

theorem filterMap_map_none {α β γ : Type} (f : β → Option γ) (g : α → β) (l : List α)
    (h : ∀ a, f (g a) = none) : (l.map g).filterMap f = [] := by
  induction l with
  | nil => rfl
  | cons a t ih => simp [List.filterMap_cons, h, ih]

theorem names_clientMethod (f : FileD) (s : Service) (m : Method) :
    (genClientMethod f s m).filterMap Decl.topName? = (methOrgsC s m).map Org.name := by
  unfold genClientMethod methOrgsC
  by_cases hu : unary m.cs m.ss = true
  · simp [hu, Decl.topName?]
  · simp only [hu]
    cases m.cs <;> cases m.ss <;> simp [Decl.topName?, Org.name, List.filterMap_cons, List.filterMap_append]

theorem names_serverMethod (s : Service) (m : Method) :
    (genServerMethod s m).filterMap Decl.topName? = (methOrgsS s m).map Org.name := by
  unfold genServerMethod methOrgsS
  cases m.cs <;> cases m.ss <;> simp [Decl.topName?, Org.name, List.filterMap_cons, List.filterMap_append]

theorem filterMap_flatMap' {α β γ : Type} (f : β → Option γ) (g : α → List β) (l : List α) :
    (l.flatMap g).filterMap f = l.flatMap (fun a => (g a).filterMap f) := by
  induction l with
  | nil => rfl
  | cons a t ih => simp [List.flatMap_cons, List.filterMap_append, ih]

theorem map_flatMap' {α β γ : Type} (f : β → γ) (g : α → List β) (l : List α) :
    (l.flatMap g).map f = l.flatMap (fun a => (g a).map f) := by
  induction l with
  | nil => rfl
  | cons a t ih => simp [List.flatMap_cons, ih]

theorem names_service (f : FileD) (s : Service) :
    (genService f s).filterMap Decl.topName? = (svcOrgs s).map Org.name := by
  unfold genService svcOrgs
  simp only [List.filterMap_append, List.map_append, filterMap_flatMap', map_flatMap',
    names_clientMethod, names_serverMethod]
  rw [filterMap_map_none _ _ _ (by intro a; rfl), filterMap_map_none _ _ _ (by intro a; rfl)]
  simp [Decl.topName?, Org.name, List.filterMap_cons]

theorem names_encoding (c : Conf) (f : FileD) :
    (genEncoding c f).filterMap Decl.topName? = [encodingName f] := by
  unfold genEncoding
  cases c.lib <;> cases c.json <;> simp [Decl.topName?, List.filterMap_cons, List.filterMap_append]

theorem names_file (c : Conf) (f : FileD) :
    (genFile c f).filterMap Decl.topName? = (fileOrgs f).map Org.name := by
  unfold genFile fileOrgs
  by_cases h : f.services = []
  · simp [h]
  · simp only [h, if_false, List.filterMap_append, names_encoding, filterMap_flatMap', names_service,
      List.map_cons, map_flatMap', Org.name]
    rfl

theorem emittedNames_eq (c : Conf) (p : Pkg) : emittedNames c p = (pkgOrgs p).map Org.name := by
  unfold emittedNames genPkg pkgOrgs
  simp only [filterMap_flatMap', map_flatMap', names_file]


def Org.same : Org → Org → Prop
  | .enc f, .enc f' => f.ident = f'.ident
  | .svc k s, .svc k' s' => k = k' ∧ s.go = s'.go
  | .cstrm i s m, .cstrm i' s' m' => i = i' ∧ s.go = s'.go ∧ m.go = m'.go
  | .sstrm i s m, .sstrm i' s' m' => i = i' ∧ s.go = s'.go ∧ m.go = m'.go
  | _, _ => False

def Org.Valid (p : Pkg) : Org → Prop
  | .enc f => f ∈ genFiles p
  | .svc _ s => s ∈ services p
  | .cstrm _ s m => s ∈ services p ∧ m ∈ s.methods ∧ streaming m.cs m.ss = true
  | .sstrm _ s m => s ∈ services p ∧ m ∈ s.methods


theorem sUnimpl_eq : sUnimpl = sUnimplemented ++ sServer := by decide

theorem suffix_last {x y u v : Ident} (h : x ++ u = y ++ v) (hu : u ≠ []) (hv : v ≠ []) :
    u.getLast? = v.getLast? := by
  have := congrArg List.getLast? h
  rw [List.getLast?_append, List.getLast?_append] at this
  cases hu' : u.getLast? with
  | none => exact absurd (List.getLast?_eq_none_iff.1 hu') hu
  | some a =>
    cases hv' : v.getLast? with
    | none => exact absurd (List.getLast?_eq_none_iff.1 hv') hv
    | some b => simpa [hu', hv'] using this

section suffixes
variable {x y : Ident}
theorem cl_se : x ++ sClient = y ++ sServer ↔ False := ⟨fun h => absurd (suffix_last h (by decide) (by decide)) (by decide), False.elim⟩
theorem cl_un : x ++ sClient = y ++ sUnimpl ↔ False := ⟨fun h => absurd (suffix_last h (by decide) (by decide)) (by decide), False.elim⟩
theorem cl_de : x ++ sClient = y ++ sDesc ↔ False := ⟨fun h => absurd (suffix_last h (by decide) (by decide)) (by decide), False.elim⟩
theorem cl_st : x ++ sClient = y ++ sStream ↔ False := ⟨fun h => absurd (suffix_last h (by decide) (by decide)) (by decide), False.elim⟩
theorem se_cl : x ++ sServer = y ++ sClient ↔ False := ⟨fun h => absurd (suffix_last h (by decide) (by decide)) (by decide), False.elim⟩
theorem se_de : x ++ sServer = y ++ sDesc ↔ False := ⟨fun h => absurd (suffix_last h (by decide) (by decide)) (by decide), False.elim⟩
theorem se_st : x ++ sServer = y ++ sStream ↔ False := ⟨fun h => absurd (suffix_last h (by decide) (by decide)) (by decide), False.elim⟩
theorem un_cl : x ++ sUnimpl = y ++ sClient ↔ False := ⟨fun h => absurd (suffix_last h (by decide) (by decide)) (by decide), False.elim⟩
theorem un_de : x ++ sUnimpl = y ++ sDesc ↔ False := ⟨fun h => absurd (suffix_last h (by decide) (by decide)) (by decide), False.elim⟩
theorem un_st : x ++ sUnimpl = y ++ sStream ↔ False := ⟨fun h => absurd (suffix_last h (by decide) (by decide)) (by decide), False.elim⟩
theorem de_cl : x ++ sDesc = y ++ sClient ↔ False := ⟨fun h => absurd (suffix_last h (by decide) (by decide)) (by decide), False.elim⟩
theorem de_se : x ++ sDesc = y ++ sServer ↔ False := ⟨fun h => absurd (suffix_last h (by decide) (by decide)) (by decide), False.elim⟩
theorem de_un : x ++ sDesc = y ++ sUnimpl ↔ False := ⟨fun h => absurd (suffix_last h (by decide) (by decide)) (by decide), False.elim⟩
theorem de_st : x ++ sDesc = y ++ sStream ↔ False := ⟨fun h => absurd (suffix_last h (by decide) (by decide)) (by decide), False.elim⟩
theorem st_cl : x ++ sStream = y ++ sClient ↔ False := ⟨fun h => absurd (suffix_last h (by decide) (by decide)) (by decide), False.elim⟩
theorem st_se : x ++ sStream = y ++ sServer ↔ False := ⟨fun h => absurd (suffix_last h (by decide) (by decide)) (by decide), False.elim⟩
theorem st_un : x ++ sStream = y ++ sUnimpl ↔ False := ⟨fun h => absurd (suffix_last h (by decide) (by decide)) (by decide), False.elim⟩
theorem st_de : x ++ sStream = y ++ sDesc ↔ False := ⟨fun h => absurd (suffix_last h (by decide) (by decide)) (by decide), False.elim⟩
theorem se_un : x ++ sServer = y ++ sUnimpl ↔ x = y ++ sUnimplemented := by
  rw [sUnimpl_eq, ← List.append_assoc]; exact List.append_left_inj _
theorem un_se : x ++ sUnimpl = y ++ sServer ↔ y = x ++ sUnimplemented := by
  rw [eq_comm, se_un]
end suffixes

-- every name as class prefix ++ body
theorem n_enc (f : FileD) : encodingName f = pdrpc ++ (sEncoding ++ f.ident) := rfl
theorem n_ci (s : Service) : clientIface s = pDRPC ++ (s.go ++ sClient) := by simp [clientIface]
theorem n_cm (s : Service) : clientImpl s = pdrpc ++ (s.go ++ sClient) := by simp [clientImpl]
theorem n_nc (s : Service) : newClient s = pNew ++ (pDRPC ++ (s.go ++ sClient)) := by simp [newClient, clientIface]
theorem n_si (s : Service) : serverIface s = pDRPC ++ (s.go ++ sServer) := by simp [serverIface]
theorem n_un (s : Service) : serverUnimpl s = pDRPC ++ (s.go ++ sUnimpl) := by simp [serverUnimpl]
theorem n_de (s : Service) : serverDesc s = pDRPC ++ (s.go ++ sDesc) := by simp [serverDesc]
theorem n_rg (s : Service) : registerFn s = pDRPC ++ (sRegister ++ s.go) := rfl
theorem n_csi (s : Service) (m : Method) : clientStreamIface s m = pDRPC ++ (streamBase s m ++ sClient) := by simp [clientStreamIface]
theorem n_csm (s : Service) (m : Method) : clientStreamImpl s m = pdrpc ++ (streamBase s m ++ sClient) := by simp [clientStreamImpl]
theorem n_ssi (s : Service) (m : Method) : serverStreamIface s m = pDRPC ++ (streamBase s m ++ sStream) := by simp [serverStreamIface]
theorem n_ssm (s : Service) (m : Method) : serverStreamImpl s m = pdrpc ++ (streamBase s m ++ sStream) := by simp [serverStreamImpl]

section prefixes
variable {x y : Ident}
theorem p_Dd : pDRPC ++ x = pdrpc ++ y ↔ False := by simp [pDRPC, pdrpc]
theorem p_dD : pdrpc ++ x = pDRPC ++ y ↔ False := by simp [pDRPC, pdrpc]
theorem p_DN : pDRPC ++ x = pNew ++ y ↔ False := by simp [pDRPC, pNew]
theorem p_ND : pNew ++ x = pDRPC ++ y ↔ False := by simp [pDRPC, pNew]
theorem p_dN : pdrpc ++ x = pNew ++ y ↔ False := by simp [pdrpc, pNew]
theorem p_Nd : pNew ++ x = pdrpc ++ y ↔ False := by simp [pdrpc, pNew]
end prefixes

/-- the hypotheses of `CollisionFree` that concern two different kinds of identifier -/
structure CrossFree (p : Pkg) : Prop where
  h3 : ∀ s ∈ services p, ∀ m ∈ s.methods, m.go.head? ≠ some '_'
  h4 : ∀ s ∈ services p, ∀ s' ∈ services p, ∀ m ∈ s'.methods,
      streaming m.cs m.ss = true → s.go ≠ streamBase s' m
  h5 : ∀ s ∈ services p, ∀ s' ∈ services p, s.go ≠ s'.go ++ sUnimplemented
  h6 : ∀ s ∈ services p, ∀ s' ∈ services p, sRegister ++ s.go ∉ registerTargets s'
  h7 : ∀ f ∈ genFiles p, ∀ s' ∈ services p, sEncoding ++ f.ident ∉ encodingTargets s'

theorem rt_cl (s : Service) : s.go ++ sClient ∈ registerTargets s := by simp [registerTargets]
theorem rt_se (s : Service) : s.go ++ sServer ∈ registerTargets s := by simp [registerTargets]
theorem rt_un (s : Service) : s.go ++ sUnimpl ∈ registerTargets s := by simp [registerTargets]
theorem rt_de (s : Service) : s.go ++ sDesc ∈ registerTargets s := by simp [registerTargets]
theorem rt_cs (s : Service) (m : Method) (hm : m ∈ s.methods) (hs : streaming m.cs m.ss = true) :
    streamBase s m ++ sClient ∈ registerTargets s := by
  simp only [registerTargets, List.mem_append, List.mem_flatMap]
  exact Or.inr ⟨m, hm, by simp [hs]⟩
theorem rt_ss (s : Service) (m : Method) (hm : m ∈ s.methods) :
    streamBase s m ++ sStream ∈ registerTargets s := by
  simp only [registerTargets, List.mem_append, List.mem_flatMap]
  exact Or.inr ⟨m, hm, by simp⟩
theorem et_cl (s : Service) : s.go ++ sClient ∈ encodingTargets s := by simp [encodingTargets]
theorem et_cs (s : Service) (m : Method) (hm : m ∈ s.methods) (hs : streaming m.cs m.ss = true) :
    streamBase s m ++ sClient ∈ encodingTargets s := by
  simp only [encodingTargets, List.mem_append, List.mem_flatMap]
  exact Or.inr ⟨m, hm, by simp [hs]⟩
theorem et_ss (s : Service) (m : Method) (hm : m ∈ s.methods) :
    streamBase s m ++ sStream ∈ encodingTargets s := by
  simp only [encodingTargets, List.mem_append, List.mem_flatMap]
  exact Or.inr ⟨m, hm, by simp⟩

theorem base_inj (p : Pkg) (H : CrossFree p) {s s' : Service} {m m' : Method}
    (hs : s ∈ services p) (hm : m ∈ s.methods) (hs' : s' ∈ services p) (hm' : m' ∈ s'.methods)
    (h : streamBase s m = streamBase s' m') : s.go = s'.go ∧ m.go = m'.go :=
  pair_injective _ _ _ _ (H.h3 s hs m hm) (H.h3 s' hs' m' hm') h

theorem key (p : Pkg) (H : CrossFree p) (o1 o2 : Org) (v1 : o1.Valid p) (v2 : o2.Valid p)
    (h : o1.name = o2.name) : o1.same o2 := by
  rcases o1 with f | ⟨k, s⟩ | ⟨i, s, m⟩ | ⟨i, s, m⟩ <;> rcases o2 with f' | ⟨k', s'⟩ | ⟨i', s', m'⟩ | ⟨i', s', m'⟩
  all_goals (try cases k)
  all_goals (try cases k')
  all_goals (try cases i)
  all_goals (try cases i')
  all_goals simp only [Org.Valid] at v1 v2
  all_goals simp only [Org.same]
  all_goals simp only [Org.name, n_enc, n_ci, n_cm, n_nc, n_si, n_un, n_de, n_rg, n_csi, n_csm, n_ssi, n_ssm,
    p_Dd, p_dD, p_DN, p_ND, p_dN, p_Nd, List.append_right_inj, List.append_left_inj,
    cl_se, cl_un, cl_de, cl_st, se_cl, se_de, se_st, un_cl, un_de, un_st, de_cl, de_se, de_un, de_st,
    st_cl, st_se, st_un, st_de, se_un, un_se] at h
  all_goals first
    | exact h
    | exact ⟨trivial, h⟩
    | exact ⟨trivial, base_inj p H v1.1 v1.2.1 v2.1 v2.2.1 h⟩
    | exact ⟨trivial, base_inj p H v1.1 v1.2 v2.1 v2.2 h⟩
    | exact absurd h (H.h4 s v1 s' v2.1 m' v2.2.1 v2.2.2)
    | exact absurd h.symm (H.h4 s' v2 s v1.1 m v1.2.1 v1.2.2)
    | exact absurd h (H.h5 s v1 s' v2)
    | exact absurd h (H.h5 s' v2 s v1)
    -- DRPCRegister<S> against a DRPC… type
    | exact absurd (by rw [h]; exact rt_cl s') (H.h6 s v1 s' v2)
    | exact absurd (by rw [h]; exact rt_se s') (H.h6 s v1 s' v2)
    | exact absurd (by rw [h]; exact rt_un s') (H.h6 s v1 s' v2)
    | exact absurd (by rw [h]; exact rt_de s') (H.h6 s v1 s' v2)
    | exact absurd (by rw [h]; exact rt_cs s' m' v2.2.1 v2.2.2) (H.h6 s v1 s' v2.1)
    | exact absurd (by rw [h]; exact rt_ss s' m' v2.2) (H.h6 s v1 s' v2.1)
    | exact absurd (by rw [← h]; exact rt_cl s) (H.h6 s' v2 s v1)
    | exact absurd (by rw [← h]; exact rt_se s) (H.h6 s' v2 s v1)
    | exact absurd (by rw [← h]; exact rt_un s) (H.h6 s' v2 s v1)
    | exact absurd (by rw [← h]; exact rt_de s) (H.h6 s' v2 s v1)
    | exact absurd (by rw [← h]; exact rt_cs s m v1.2.1 v1.2.2) (H.h6 s' v2 s v1.1)
    | exact absurd (by rw [← h]; exact rt_ss s m v1.2) (H.h6 s' v2 s v1.1)
    -- drpcEncoding_<F> against a drpc… type
    | exact absurd (by rw [h]; exact et_cl s') (H.h7 f v1 s' v2)
    | exact absurd (by rw [h]; exact et_cs s' m' v2.2.1 v2.2.2) (H.h7 f v1 s' v2.1)
    | exact absurd (by rw [h]; exact et_ss s' m' v2.2) (H.h7 f v1 s' v2.1)
    | exact absurd (by rw [← h]; exact et_cl s) (H.h7 f' v2 s v1)
    | exact absurd (by rw [← h]; exact et_cs s m v1.2.1 v1.2.2) (H.h7 f' v2 s v1.1)
    | exact absurd (by rw [← h]; exact et_ss s m v1.2) (H.h7 f' v2 s v1.1)


/-- the service an identifier belongs to -/
def Org.svcGo? : Org → Option Ident
  | .enc _ => none
  | .svc _ s => some s.go
  | .cstrm _ s _ => some s.go
  | .sstrm _ s _ => some s.go

theorem same_svcGo {a b : Org} (h : a.same b) : a.svcGo? = b.svcGo? := by
  cases a <;> cases b <;> simp_all [Org.same, Org.svcGo?]

theorem svcOrgs_svcGo (s : Service) : ∀ x ∈ svcOrgs s, x.svcGo? = some s.go := by
  intro x hx
  simp only [svcOrgs, methOrgsC, methOrgsS, List.mem_append, List.mem_flatMap, List.mem_cons, List.not_mem_nil, or_false] at hx
  rcases hx with ((hx | ⟨m, _, hx⟩) | hx) | ⟨m, _, hx⟩
  · rcases hx with rfl | rfl | rfl <;> rfl
  · split at hx
    · simp at hx
    · simp at hx; rcases hx with rfl | rfl <;> rfl
  · rcases hx with rfl | rfl | rfl | rfl <;> rfl
  · rcases hx with rfl | rfl <;> rfl

theorem svcOrgs_pairwise (s : Service) (h2 : s.methods.Pairwise (fun a b => a.go ≠ b.go)) :
    (svcOrgs s).Pairwise (fun a b => ¬ a.same b) := by
  have hC : (s.methods.flatMap (methOrgsC s)).Pairwise (fun a b => ¬ a.same b) := by
    rw [List.pairwise_flatMap]
    refine ⟨fun m _ => ?_, h2.imp ?_⟩
    · unfold methOrgsC; split <;> simp [Org.same]
    · intro m m' hne x hx y hy
      unfold methOrgsC at hx hy
      split at hx <;> split at hy <;> simp at hx hy
      rcases hx with rfl | rfl <;> rcases hy with rfl | rfl <;> simp [Org.same, hne]
  have hS : (s.methods.flatMap (methOrgsS s)).Pairwise (fun a b => ¬ a.same b) := by
    rw [List.pairwise_flatMap]
    refine ⟨fun m _ => ?_, h2.imp ?_⟩
    · simp [methOrgsS, Org.same]
    · intro m m' hne x hx y hy
      simp [methOrgsS] at hx hy
      rcases hx with rfl | rfl <;> rcases hy with rfl | rfl <;> simp [Org.same, hne]
  have memC : ∀ x ∈ s.methods.flatMap (methOrgsC s), ∃ i m, x = .cstrm i s m := by
    intro x hx
    simp only [List.mem_flatMap, methOrgsC] at hx
    obtain ⟨m, _, hx⟩ := hx
    split at hx <;> simp at hx
    rcases hx with rfl | rfl <;> exact ⟨_, _, rfl⟩
  have memS : ∀ x ∈ s.methods.flatMap (methOrgsS s), ∃ i m, x = .sstrm i s m := by
    intro x hx
    simp only [List.mem_flatMap, methOrgsS, List.mem_cons, List.not_mem_nil, or_false] at hx
    obtain ⟨m, _, hx⟩ := hx
    rcases hx with rfl | rfl <;> exact ⟨_, _, rfl⟩
  unfold svcOrgs
  rw [List.pairwise_append, List.pairwise_append, List.pairwise_append]
  refine ⟨⟨⟨by simp [Org.same], hC, ?_⟩, by simp [Org.same], ?_⟩, hS, ?_⟩
  · intro a ha b hb
    obtain ⟨i, m, rfl⟩ := memC b hb
    simp at ha; rcases ha with rfl | rfl | rfl <;> simp [Org.same]
  · intro a ha b hb
    simp at hb
    rcases List.mem_append.1 ha with ha | ha
    · simp at ha
      rcases ha with rfl | rfl | rfl <;> rcases hb with rfl | rfl | rfl | rfl <;> simp [Org.same]
    · obtain ⟨i, m, rfl⟩ := memC a ha
      rcases hb with rfl | rfl | rfl | rfl <;> simp [Org.same]
  · intro a ha b hb
    obtain ⟨i', m', rfl⟩ := memS b hb
    rcases List.mem_append.1 ha with ha | ha
    · rcases List.mem_append.1 ha with ha | ha
      · simp at ha; rcases ha with rfl | rfl | rfl <;> simp [Org.same]
      · obtain ⟨i, m, rfl⟩ := memC a ha; simp [Org.same]
    · simp at ha; rcases ha with rfl | rfl | rfl | rfl <;> simp [Org.same]


theorem fileOrgs_mem {f : FileD} {x : Org} (hx : x ∈ fileOrgs f) :
    f.services ≠ [] ∧ (x = .enc f ∨ ∃ s ∈ f.services, x ∈ svcOrgs s) := by
  unfold fileOrgs at hx
  split at hx
  · simp at hx
  · rename_i hne
    simp only [List.mem_cons, List.mem_flatMap] at hx
    exact ⟨hne, hx⟩

theorem pkgOrgs_pairwise (p : Pkg)
    (h1 : (services p).Pairwise (fun a b => a.go ≠ b.go))
    (h2 : ∀ s ∈ services p, s.methods.Pairwise (fun a b => a.go ≠ b.go))
    (h7 : (genFiles p).Pairwise (fun a b => a.ident ≠ b.ident)) :
    (pkgOrgs p).Pairwise (fun a b => ¬ a.same b) := by
  unfold services at h1
  rw [List.pairwise_flatMap] at h1
  unfold genFiles at h7
  rw [List.pairwise_filter] at h7
  unfold pkgOrgs
  rw [List.pairwise_flatMap]
  refine ⟨fun f hf => ?_, (h1.2.and h7).imp ?_⟩
  · -- inside one file
    unfold fileOrgs
    split
    · exact List.Pairwise.nil
    · rw [List.pairwise_cons, List.pairwise_flatMap]
      refine ⟨?_, fun s hs => svcOrgs_pairwise s (h2 s (List.mem_flatMap.2 ⟨f, hf, hs⟩)), (h1.1 f hf).imp ?_⟩
      · intro y hy
        obtain ⟨s, _, hy⟩ := List.mem_flatMap.1 hy
        have := svcOrgs_svcGo s y hy
        intro hsame
        have := same_svcGo hsame
        simp_all [Org.svcGo?]
      · intro s s' hne x hx y hy hsame
        have e := same_svcGo hsame
        rw [svcOrgs_svcGo s x hx, svcOrgs_svcGo s' y hy] at e
        exact hne (Option.some.inj e)
  · -- across files
    intro f f' ⟨hsv, hid⟩ x hx y hy hsame
    obtain ⟨hne, hx⟩ := fileOrgs_mem hx
    obtain ⟨hne', hy⟩ := fileOrgs_mem hy
    have e := same_svcGo hsame
    rcases hx with rfl | ⟨s, hs, hx⟩ <;> rcases hy with rfl | ⟨s', hs', hy⟩
    · exact hid (by simpa using hne) (by simpa using hne') hsame
    · rw [svcOrgs_svcGo s' y hy] at e; simp [Org.svcGo?] at e
    · rw [svcOrgs_svcGo s x hx] at e; simp [Org.svcGo?] at e
    · rw [svcOrgs_svcGo s x hx, svcOrgs_svcGo s' y hy] at e
      exact hsv s hs s' hs' (Option.some.inj e)

theorem svcOrgs_valid (p : Pkg) (s : Service) (hs : s ∈ services p) : ∀ x ∈ svcOrgs s, x.Valid p := by
  intro x hx
  simp only [svcOrgs, methOrgsC, methOrgsS, List.mem_append, List.mem_flatMap, List.mem_cons, List.not_mem_nil, or_false] at hx
  rcases hx with ((hx | ⟨m, hm, hx⟩) | hx) | ⟨m, hm, hx⟩
  · rcases hx with rfl | rfl | rfl <;> exact hs
  · split at hx
    · simp at hx
    · rename_i hu
      have hst : streaming m.cs m.ss = true := by
        revert hu; cases m.cs <;> cases m.ss <;> simp [unary, streaming]
      simp at hx; rcases hx with rfl | rfl <;> exact ⟨hs, hm, hst⟩
  · rcases hx with rfl | rfl | rfl | rfl <;> exact hs
  · rcases hx with rfl | rfl <;> exact ⟨hs, hm⟩

theorem pkgOrgs_valid (p : Pkg) : ∀ x ∈ pkgOrgs p, x.Valid p := by
  intro x hx
  obtain ⟨f, hf, hx⟩ := List.mem_flatMap.1 hx
  obtain ⟨hne, hx⟩ := fileOrgs_mem hx
  rcases hx with rfl | ⟨s, hs, hx⟩
  · show f ∈ genFiles p
    unfold genFiles
    exact List.mem_filter.2 ⟨hf, by simpa using hne⟩
  · exact svcOrgs_valid p s (List.mem_flatMap.2 ⟨f, hf, hs⟩) x hx

/-- all identifiers the generator emits into one package are pairwise distinct -/
theorem emitted_nodup (c : Conf) (p : Pkg) (H : CrossFree p)
    (h1 : (services p).Pairwise (fun a b => a.go ≠ b.go))
    (h2 : ∀ s ∈ services p, s.methods.Pairwise (fun a b => a.go ≠ b.go))
    (h7 : (genFiles p).Pairwise (fun a b => a.ident ≠ b.ident)) :
    (emittedNames c p).Nodup := by
  rw [emittedNames_eq, List.nodup_iff_pairwise_ne, List.pairwise_map]
  refine (pkgOrgs_pairwise p h1 h2 h7).imp_of_mem ?_
  intro a b ha hb hns heq
  exact hns (key p H a b (pkgOrgs_valid p a ha) (pkgOrgs_valid p b hb) heq)

theorem enumFrom_find (a : Nat) {α : Type} (pre : List α) (m : α) (rest : List α) :
    (enumFrom a (pre ++ m :: rest)).find? (fun im => im.1 == a + pre.length) = some (a + pre.length, m) := by
  induction pre generalizing a with
  | nil => simp [enumFrom]
  | cons x t ih =>
    simp only [List.cons_append, enumFrom, List.length_cons]
    rw [List.find?_cons_of_neg (by simp <;> omega)]
    have := ih (a + 1)
    rw [show a + 1 + t.length = a + (t.length + 1) by omega] at this
    exact this

theorem enumFrom_find_none (a : Nat) {α : Type} (l : List α) (n : Nat) (h : n < a ∨ a + l.length ≤ n) :
    (enumFrom a l).find? (fun im => im.1 == n) = none := by
  induction l generalizing a with
  | nil => simp [enumFrom]
  | cons x t ih =>
    simp only [enumFrom]
    rw [List.find?_cons_of_neg (by simp at h ⊢ <;> omega)]
    exact ih (a + 1) (by simp at h; omega)

theorem descMethod_at (f : FileD) (s : Service) (pre : List Method) (m : Method) (rest : List Method)
    (h : s.methods = pre ++ m :: rest) :
    descMethod f s pre.length = some (rpcGoString f s m, methodExpr m.cs m.ss) := by
  unfold descMethod
  rw [h]
  have := enumFrom_find 0 pre m rest
  simp only [Nat.zero_add] at this
  rw [this]; rfl

theorem descMethod_none (f : FileD) (s : Service) (n : Nat) (h : s.methods.length ≤ n) :
    descMethod f s n = none := by
  unfold descMethod
  rw [enumFrom_find_none 0 s.methods n (by omega)]; rfl

/-- what registerOne stores for a generated method of the given streaming flags -/
def shape (cs ss : Bool) : Mux.RpcData :=
  if unary cs ss then { unitary := true, in1 := .param 2 .msg, in2 := false }
  else if !cs then { unitary := false, in1 := .param 1 .msg, in2 := true }
  else { unitary := false, in1 := .stream, in2 := false }

theorem registerOne_shape (cs ss : Bool) : Mux.registerOne (methodExpr cs ss) = .ok (shape cs ss) := by
  cases cs <;> cases ss <;> decide

theorem registerFrom_desc (f : FileD) (s : Service) (rest : List Method) :
    ∀ (pre : List Method) (acc : List (Ident × Mux.RpcData)), s.methods = pre ++ rest →
    Mux.registerFrom (descMethod f s) rest.length pre.length acc
      = .ok (acc ++ rest.map (fun m => (rpcGoString f s m, shape m.cs m.ss))) := by
  induction rest with
  | nil => intro pre acc _; simp [Mux.registerFrom]
  | cons m t ih =>
    intro pre acc h
    simp only [List.length_cons, Mux.registerFrom]
    rw [descMethod_at f s pre m t h]
    simp only [registerOne_shape]
    have := ih (pre ++ [m]) (acc ++ [(rpcGoString f s m, shape m.cs m.ss)]) (by simp [h])
    simp only [List.length_append, List.length_cons, List.length_nil] at this
    rw [this]; simp

theorem slash_split {x y a b : Ident} (ha : '/' ∉ a) (hb : '/' ∉ b)
    (h : x ++ '/' :: a = y ++ '/' :: b) : x = y ∧ a = b := by
  induction x generalizing y with
  | nil =>
    cases y with
    | nil => simpa using h
    | cons c t =>
      simp at h
      obtain ⟨rfl, h⟩ := h
      exact absurd (by rw [h]; simp) ha
  | cons c t ih =>
    cases y with
    | nil =>
      simp at h
      obtain ⟨rfl, h⟩ := h
      exact absurd (by rw [← h]; simp) hb
    | cons d u =>
      simp at h
      obtain ⟨rfl, h⟩ := h
      obtain ⟨rfl, rfl⟩ := ih h
      exact ⟨rfl, rfl⟩

theorem clientRPC_eq (f : FileD) (s : Service) (m : Method) : clientRPC f s m = some (rpcGoString f s m) := by
  unfold clientRPC genClientMethod
  cases m.cs <;> cases m.ss <;> simp [unary, List.findSome?_cons]

end Drpc.Gen
