import Drpc.Lemmas.ManagerSysSched
/-
  The two ways the Go code uses a manager, as sub-relations of `Reach`:

  * `ReachClient soft s` — drpcconn: NewClientStream from any number of goroutines, and Close;
  * `ReachServe soft s`  — drpcserver.ServeOne: NewServerStream calls one at a time, and Close;

  in both, packets as `drpcwire.Reader` delivers them (stream id ≠ 0) from a remote that invokes every
  stream once, with increasing ids.  `ReachServe` executions are `ReachP` executions (no call can win
  the semaphore late); `ReachClient` executions are, as long as the manager is not terminated.
-/
set_option linter.unusedSimpArgs false
set_option linter.unusedVariables false
namespace Drpc.Manager.Sys
open Drpc.Manager

/-! ### the current-stream pointer is only ever stale once the stream buffer is closed -/

theorem stale_frame {s : St} {t : Tid} {sh' : Sh} {p' : PC} (hi : stale s → s.sh.sbufClosed = true)
    (hpub : ∀ x, (sh'.strm x).pub = true → (s.sh.strm x).pub = true) (hcur : sh'.sbufCur = s.sh.sbufCur)
    (hcl : s.sh.sbufClosed = true → sh'.sbufClosed = true) : stale (s.upd t sh' p') → (s.upd t sh' p').sh.sbufClosed = true := by
  rintro ⟨x, h1, h2⟩
  simp only [upd_sh] at h1 h2 ⊢
  rw [hcur] at h2
  exact hcl (hi ⟨x, hpub x h1, h2⟩)

theorem pub_setStrm_keep {sh : Sh} {sid : Sid} {y : SS} (hy : y.pub = true → (sh.strm sid).pub = true) :
    ∀ x, ((sh.setStrm sid y).strm x).pub = true → (sh.strm x).pub = true := by
  intro x h
  rw [setStrm_strm] at h
  split at h
  · subst_vars; exact hy h
  · exact h

theorem stale_closed_tr {s : St} {t : Tid} {p : PC} {sh' : Sh} {p' : PC} {ps : PS} (hs : Safe s) (hv : Inv ps)
    (hss : SimS s ps) (hi : stale s → s.sh.sbufClosed = true) (hp : s.pc t = p) (h : Tr s t p sh' p') :
    stale (s.upd t sh' p') → (s.upd t sh' p').sh.sbufClosed = true := by
  cases h
  all_goals
    first
    | exact stale_frame hi (fun _ h => h) rfl (fun h => h)
    | exact stale_frame hi (pub_setStrm_keep (fun h => h)) rfl (fun h => h)
    | exact stale_frame hi (fun _ h => h) rfl (fun _ => rfl)
    | skip
  case nNew c sid => exact stale_frame hi (pub_setStrm_keep (by intro h; cases h)) rfl (fun h => h)
  case nSetClosed c sid hcl => intro _; exact hcl
  case nSetStore c sid hcl =>
    have hf := hss.hf t (by rw [hp]; rfl)
    rw [hp] at hf
    have hlt : s.sh.sbufCur < sid := by rw [hf.2.2.1]; exact (hv.pendIn sid hf.2.1).2
    rintro ⟨x, h1, h2⟩
    exfalso
    have h1' : ((s.sh.setStrm sid { s.sh.strm sid with pub := true }).strm x).pub = true := h1
    have h2' : sid < x := h2
    rw [setStrm_strm] at h1'
    split at h1'
    · subst_vars; exact Nat.lt_irrefl _ h2'
    · have := hi ⟨x, h1', Nat.lt_trans hlt h2'⟩
      rw [hcl] at this; cases this

theorem stale_closed_etr {s : St} {t : Tid} {sh' : Sh} {p' : PC} (hi : stale s → s.sh.sbufClosed = true)
    (h : ETr s t sh' p') : stale (s.upd t sh' p') → (s.upd t sh' p').sh.sbufClosed = true := by
  cases h
  all_goals
    first
    | exact stale_frame hi (fun _ h => h) rfl (fun h => h)
    | exact stale_frame hi (pub_setStrm_keep (fun h => h)) rfl (fun h => h)
    | skip

theorem stale_closed {soft : Bool} {role : Call} {s : St} (h : ReachP soft role s) :
    stale s → s.sh.sbufClosed = true := by
  induction h with
  | init => rintro ⟨x, h1, -⟩; cases h1
  | @step s0 s1 t ch hr hs _ ih =>
    obtain ⟨hF, ps, hrun, hsim⟩ := sim_reachP hr
    obtain ⟨sh', p', htr, rfl⟩ := step_tr hs
    exact stale_closed_tr (safe_reachF hF) (tinv_of_run hrun).inv hsim.ss ih rfl htr
  | env e _ hs _ ih =>
    obtain ⟨t, sh', p', htr, rfl⟩ := env_tr hs
    exact stale_closed_etr ih htr

theorem not_stale_of_not_term {soft : Bool} {role : Call} {s : St} (h : ReachP soft role s)
    (hterm : s.sh.term = false) : ¬ stale s := by
  intro hst
  have hc := stale_closed h hst
  have := ((safe_reachF (sim_reachP h).1).tm.none hterm).2.2.2
  rw [hc] at this; cases this

/-! ### drpcconn -/

theorem tr_term_mono {s : St} {t : Tid} {p : PC} {sh' : Sh} {p' : PC} (h : Tr s t p sh' p') :
    s.sh.term = true → sh'.term = true := by
  cases h <;> first | exact id | exact fun _ => rfl

theorem etr_term_mono {s : St} {t : Tid} {sh' : Sh} {p' : PC} (h : ETr s t sh' p') :
    s.sh.term = true → sh'.term = true := by
  cases h <;> exact id

/-- a manager used by a client connection: NewClientStream from any number of goroutines, Close; the
    remote's packets have non-zero stream ids and an invoke has a fresh, larger id -/
inductive ReachClient (soft : Bool) : St → Prop
  | init : ReachClient soft { sh := { soft := soft } }
  | step {s s' : St} (t : Tid) (ch : Nat) : ReachClient soft s → step s t ch = some s' → ReachClient soft s'
  | env {s s' : St} (e : Env) : ReachClient soft s → envStep s e = some s' → EnvP .client s e → ReachClient soft s'

theorem ReachClient.reach {soft : Bool} {s : St} (h : ReachClient soft s) : Reach soft s := by
  induction h with
  | init => exact .init
  | step t ch _ hs ih => exact .step t ch ih hs
  | env e _ hs _ ih => exact .env e ih hs

/-- … is a `ReachP` execution for as long as the manager is not terminated -/
theorem reachP_of_client {soft : Bool} {s : St} (h : ReachClient soft s) (hterm : s.sh.term = false) :
    ReachP soft .client s := by
  induction h with
  | init => exact .init
  | @step s0 s1 t ch _ hs ih =>
    obtain ⟨sh', p', htr, rfl⟩ := step_tr hs
    have h0 : s0.sh.term = false := by
      cases hx : s0.sh.term with
      | false => rfl
      | true => have := tr_term_mono htr hx; simp only [upd_sh] at hterm; rw [this] at hterm; cases hterm
    have hP := ih h0
    exact .step t ch hP hs (fun _ _ _ => not_stale_of_not_term hP h0)
  | @env s0 s1 e _ hs hp ih =>
    obtain ⟨t, sh', p', htr, rfl⟩ := env_tr hs
    have h0 : s0.sh.term = false := by
      cases hx : s0.sh.term with
      | false => rfl
      | true => have := etr_term_mono htr hx; simp only [upd_sh] at hterm; rw [this] at hterm; cases hterm
    exact .env e (ih h0) hs hp

/-- running a schedule with the environment side conditions of `ReachClient` checked -/
def runSchedClient (s : St) : List Mv → Option St
  | [] => some s
  | .st t ch :: l => (step s t ch).bind fun s' => runSchedClient s' l
  | .en e :: l => if EnvP .client s e then (envStep s e).bind fun s' => runSchedClient s' l else none

theorem reachClient_runSched {soft : Bool} {l : List Mv} {s s' : St} (h : ReachClient soft s)
    (hr : runSchedClient s l = some s') : ReachClient soft s' := by
  induction l generalizing s with
  | nil => simp only [runSchedClient, Option.some.injEq] at hr; subst hr; exact h
  | cons m l ih =>
    cases m with
    | st t ch =>
      simp only [runSchedClient] at hr
      cases hs : step s t ch with
      | none => rw [hs] at hr; cases hr
      | some s1 => rw [hs] at hr; exact ih (.step t ch h hs) hr
    | en e =>
      simp only [runSchedClient] at hr
      split at hr
      · rename_i hn
        cases hs : envStep s e with
        | none => rw [hs] at hr; cases hr
        | some s1 => rw [hs] at hr; exact ih (.env e h hs hn) hr
      · cases hr

/-! ### drpcserver.ServeOne -/

/-- side conditions on the environment: NewServerStream is called only when no other call is in progress -/
def EnvServe (s : St) : Env → Prop
  | .spawn _ c => c = .close ∨ (c = .server ∧ ∀ u, callOf (s.pc u) = none)
  | .arrive p => p.sid ≠ 0 ∧ (p.kind = .invoke → s.sh.invoked < p.sid)
  | _ => True

inductive ReachServe (soft : Bool) : St → Prop
  | init : ReachServe soft { sh := { soft := soft } }
  | step {s s' : St} (t : Tid) (ch : Nat) : ReachServe soft s → step s t ch = some s' → ReachServe soft s'
  | env {s s' : St} (e : Env) : ReachServe soft s → envStep s e = some s' → EnvServe s e → ReachServe soft s'

theorem ReachServe.reach {soft : Bool} {s : St} (h : ReachServe soft s) : Reach soft s := by
  induction h with
  | init => exact .init
  | step t ch _ hs ih => exact .step t ch ih hs
  | env e _ hs _ ih => exact .env e ih hs

theorem envP_of_envServe {s : St} {e : Env} (h : EnvServe s e) : EnvP .server s e := by
  cases e <;> simp only [EnvServe, EnvP] at h ⊢
  · rcases h with h | h
    · exact Or.inr h
    · exact Or.inl h.1
  · exact h

/-- at most one NewServerStream call is in progress -/
def Single (s : St) : Prop := ∀ t u, callOf (s.pc t) ≠ none → callOf (s.pc u) ≠ none → t = u

theorem callOf_afterTerminate' (k : TK) : callOf (afterTerminate k) = none := by cases k <;> rfl
theorem callOf_afterCancel' (r : Bool) (k : CK) : callOf (afterCancel r k) = none := by cases k <;> cases r <;> rfl

theorem tr_callOf {s : St} {t : Tid} {p : PC} {sh' : Sh} {p' : PC} (h : Tr s t p sh' p') :
    callOf p' ≠ none → callOf p ≠ none := by
  cases h
  all_goals first
    | (intro h; exact absurd (callOf_afterTerminate' _) h)
    | (intro h; exact absurd (callOf_afterCancel' _ _) h)
    | (intro h; exact absurd rfl h)
    | (intro _ h; cases h; done)
    | skip

/-- only `sbuf.Set` on a closed buffer makes the pointer stale -/
theorem stale_tr {s : St} {t : Tid} {p : PC} {sh' : Sh} {p' : PC} (h : Tr s t p sh' p') :
    stale (s.upd t sh' p') → stale s ∨ ∃ c sid, p = .nSet c sid := by
  have hfr : (∀ x, (sh'.strm x).pub = true → (s.sh.strm x).pub = true) → sh'.sbufCur = s.sh.sbufCur →
      stale (s.upd t sh' p') → stale s ∨ ∃ c sid, p = .nSet c sid := by
    rintro h1 h2 ⟨x, h3, h4⟩
    simp only [upd_sh] at h3 h4
    exact Or.inl ⟨x, h1 x h3, h2 ▸ h4⟩
  cases h
  all_goals
    first
    | exact hfr (fun _ h => h) rfl
    | exact hfr (pub_setStrm_keep (fun h => h)) rfl
    | exact fun _ => Or.inr ⟨_, _, rfl⟩
    | skip
  case nNew c sid => exact hfr (pub_setStrm_keep (by intro h; cases h)) rfl

theorem stale_etr {s : St} {t : Tid} {sh' : Sh} {p' : PC} (h : ETr s t sh' p') :
    stale (s.upd t sh' p') → stale s := by
  have hfr : (∀ x, (sh'.strm x).pub = true → (s.sh.strm x).pub = true) → sh'.sbufCur = s.sh.sbufCur →
      stale (s.upd t sh' p') → stale s := by
    rintro h1 h2 ⟨x, h3, h4⟩
    simp only [upd_sh] at h3 h4
    exact ⟨x, h1 x h3, h2 ▸ h4⟩
  cases h
  all_goals
    first
    | exact hfr (fun _ h => h) rfl
    | exact hfr (pub_setStrm_keep (fun h => h)) rfl

theorem ne_aSel_afterTerminate (k : TK) (c : Call) : afterTerminate k ≠ .aSel c := by cases k <;> simp [afterTerminate]
theorem ne_aSel_afterCancel (r : Bool) (k : CK) (c : Call) : afterCancel r k ≠ .aSel c := by
  cases k <;> cases r <;> simp [afterCancel]
theorem ne_aSel_failHolding (c' c : Call) : failHolding c' ≠ .aSel c := by cases c' <;> simp [failHolding]

/-- a thread reaches the select of acquireSemaphore only past the term check -/
theorem tr_to_aSel {s : St} {t : Tid} {p : PC} {sh' : Sh} {p' : PC} {c : Call} (h : Tr s t p sh' p')
    (hp' : p' = .aSel c) : s.sh.term = false ∧ sh' = s.sh := by
  cases h
  all_goals first
    | (cases hp'; done)
    | exact absurd hp' (ne_aSel_afterTerminate _ _)
    | exact absurd hp' (ne_aSel_afterCancel _ _ _)
    | exact absurd hp' (ne_aSel_failHolding _ _)
    | skip
  case aStartGo h1 _ => exact ⟨h1, rfl⟩

theorem etr_to_aSel {s : St} {t : Tid} {sh' : Sh} {p' : PC} {c : Call} (h : ETr s t sh' p') (hp' : p' = .aSel c) :
    s.pc t = .aSel c := by
  cases h
  all_goals first
    | (cases hp'; done)
    | exact hp'

theorem single_init (soft : Bool) : Single { sh := { soft := soft } } := by
  intro t u ht
  exfalso
  rcases init_pc soft t with h | h | h <;> rw [h] at ht <;> exact ht rfl

/-- a ServeOne-style execution is a `ReachP` execution: with one call at a time nobody can win the
    semaphore late -/
theorem reachP_of_serve {soft : Bool} {s : St} (h : ReachServe soft s) :
    ReachP soft .server s ∧ Single s ∧ (stale s → ∀ t c, s.pc t ≠ .aSel c) := by
  induction h with
  | init =>
    refine ⟨.init, single_init soft, ?_⟩
    rintro ⟨x, h1, -⟩; cases h1
  | @step s0 s1 t ch _ hs ih =>
    obtain ⟨hP, hsg, hst⟩ := ih
    obtain ⟨sh', p', htr, rfl⟩ := step_tr hs
    have hP' : ReachP soft .server (s0.upd t sh' p') :=
      .step t ch hP hs (fun c hc _ hstale => hst hstale t c hc)
    have hsg' : Single (s0.upd t sh' p') := by
      intro a b ha hb
      have ha' : callOf (s0.pc a) ≠ none := by
        rw [upd_pc] at ha; split at ha
        · subst_vars; exact tr_callOf htr ha
        · exact ha
      have hb' : callOf (s0.pc b) ≠ none := by
        rw [upd_pc] at hb; split at hb
        · subst_vars; exact tr_callOf htr hb
        · exact hb
      exact hsg a b ha' hb'
    refine ⟨hP', hsg', ?_⟩
    intro hstale u c hu
    have hterm_of_stale : stale s0 → s0.sh.term = true := by
      intro h0
      have hc := stale_closed hP h0
      cases hx : s0.sh.term with
      | true => rfl
      | false => have := ((safe_reachF (sim_reachP hP).1).tm.none hx).2.2.2; rw [hc] at this; cases this
    by_cases hut : u = t
    · subst hut
      rw [upd_pc_self] at hu
      -- the thread has just reached `.aSel`: it passed the term check, so nothing was stale
      obtain ⟨hterm, hsh⟩ := tr_to_aSel htr hu
      subst hsh
      have h0 : stale s0 := hstale
      have := hterm_of_stale h0
      rw [hterm] at this; cases this
    · rw [upd_pc_ne _ _ _ hut] at hu
      rcases stale_tr htr hstale with h0 | ⟨k, sid, hk⟩
      · exact hst h0 u c hu
      · have := hsg u t (by rw [hu]; simp [callOf]) (by rw [hk]; simp [callOf])
        exact hut this
  | @env s0 s1 e _ hs hp ih =>
    obtain ⟨hP, hsg, hst⟩ := ih
    have hP' : ReachP soft .server s1 := .env e hP hs (envP_of_envServe hp)
    refine ⟨hP', ?_, ?_⟩
    · cases e with
      | spawn t' c =>
        simp only [envStep] at hs
        split at hs
        · cases hs
          rename_i hg
          simp only [EnvServe] at hp
          intro a b ha hb
          rw [setPc_eq_upd] at ha hb
          rcases hp with rfl | ⟨rfl, hnone⟩
          · have ha' : callOf (s0.pc a) ≠ none := by
              rw [upd_pc] at ha; split at ha
              · exact absurd rfl ha
              · exact ha
            have hb' : callOf (s0.pc b) ≠ none := by
              rw [upd_pc] at hb; split at hb
              · exact absurd rfl hb
              · exact hb
            exact hsg a b ha' hb'
          · have ha' : a = t' := by
              rw [upd_pc] at ha; split at ha
              · assumption
              · exact absurd (hnone a) ha
            have hb' : b = t' := by
              rw [upd_pc] at hb; split at hb
              · assumption
              · exact absurd (hnone b) hb
            rw [ha', hb']
        · cases hs
      | _ =>
        have hpc := env_pc_other hs (by intro t' c h; cases h)
        intro a b ha hb
        have h2 : ∀ x, callOf (s1.pc x) ≠ none → 2 ≤ x ∧ callOf (s0.pc x) ≠ none := by
          intro x hx
          have hx2 : 2 ≤ x := by
            have hty := (safe_reachF (sim_reachP hP').1).typ x
            apply tid_of_cl (safe_reachF (sim_reachP hP').1).typ
            cases hq : s1.pc x <;> rw [hq] at hx <;> simp [callOf] at hx <;> rfl
          exact ⟨hx2, by rw [← hpc x hx2]; exact hx⟩
        exact hsg a b (h2 a ha).2 (h2 b hb).2
    · obtain ⟨t, sh', p', htr, rfl⟩ := env_tr hs
      intro hstale u c hu
      have h0 := stale_etr htr hstale
      have hu' : s0.pc u = .aSel c := by
        rw [upd_pc] at hu; split at hu
        · rename_i hut; subst hut; exact etr_to_aSel htr hu
        · exact hu
      exact hst h0 u c hu'

end Drpc.Manager.Sys
