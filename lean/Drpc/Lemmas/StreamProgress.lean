import Drpc.Lemmas.StreamPktBuf
/-
  "No internal deadlock" for the atomic-step stream model: the exact list of program counters at
  which a thread can be blocked, and the analysis of the wait-for chains in a quiescent state
  (liveness stated as safety: `Quiescent s → …`).  Lock order: mu → write → environment,
  read → input; `pbuf.Close` waits for the lent buffer, which only a parked Unmarshal keeps lent.
-/
namespace Drpc.Stream
attribute [local simp] firstSec flushSec getInflight getOnce relSh Option.join_eq_some_iff Option.join_eq_none_iff

/-! ### where a thread can be blocked -/

def isDone : PC → Bool | .done _ => true | _ => false
def Call.parks : Call → Bool | .msgSend _ p => p | _ => false
def Call.isHandle : Call → Bool | .handle .. => true | _ => false
def Call.isMsg : Call → Bool | .msgSend .. | .msgRecv _ => true | _ => false
def Call.isMsgSend : Call → Bool | .msgSend .. => true | _ => false
/-- calls that go through `s.mu` -/
def Call.isTerm : Call → Bool
  | .close | .sendError _ | .closeSend | .sendCancel _ | .cancel _ | .handle .. => true
  | _ => false

/-- the thread waits for the ENVIRONMENT: a transport write in flight, a parked user Unmarshal, a
    parked user Marshal -/
def EnvParked : PC → Bool
  | .writing .. => true
  | .unmarshal _ m => m.park
  | .marshal c _ => c.parks
  | _ => false

/-- the thread waits for the PEER / the consumer at the packet buffer: `Get` on an empty buffer,
    `Put` on an occupied slot, `Put` waiting for consumption -/
def InputWait (sh : Sh) : PC → Bool
  | .get _ => !sh.pset && sh.perr.isNone
  | .put1 _ => sh.pset && sh.perr.isNone
  | .put2 => sh.pset || sh.pheld
  | _ => false

/-- the thread waits for a lock-like resource held by another thread: `s.write`, `s.mu`, `s.read`,
    the running `flush.Do`, the lent packet buffer (`pbuf.Close` waits while `held`) -/
def LockWait (sh : Sh) : PC → Bool
  | .lockW .. | .lockWmu _ => sh.w.isSome
  | .lockMu _ => sh.mu.isSome
  | .lockR _ => sh.r.isSome
  | .once _ => (getOnce sh).isSome
  | .tClose .. | .hPClose _ => sh.pheld
  | _ => false

/-- more shape of the program counters the calls produce (the `none` default branches of `stepPC`
    are never reached) -/
def pcOK2 : PC → Bool
  | .once c => c.isMsg
  | .marshal c _ => c.isMsgSend
  | .lockMu c | .chkTerm c | .pre c => c.isTerm
  | .lockWmu c | .heldWmu c => c.isTerm && wCall c && !c.isSendCancel
  | .hPClose c | .hTerm c => c.isHandle
  | .heldW c _ | .lockW c _ => !c.isTerm
  | _ => true

gen_ctor_simp isDone
gen_ctor_simp Call.parks
gen_ctor_simp Call.isHandle
gen_ctor_simp Call.isMsg
gen_ctor_simp Call.isMsgSend
gen_ctor_simp Call.isTerm
gen_ctor_simp EnvParked
gen_ctor_simp pcOK2
@[simp] theorem pcOK2_afterTerm (c : Call) : pcOK2 (afterTerm c) = true := by cases c <;> rfl

theorem step_pcOK2 {s s' : St} {t : Tid} (h : step s t = some s')
    (ih : ∀ u, pcOK2 (s.pc u) = true) : ∀ u, pcOK2 (s'.pc u) = true := by
  have iht := ih t
  unfold step at h
  pc_cases s t hp =>
    rw [hp] at iht
    step_explode h hp
    all_goals (refine all_step ih ?_)
    all_goals (simp at iht ⊢)
    all_goals (try simp [*])

theorem env_pcOK2 {s s' : St} {e : Env} (h : envStep s e = some s')
    (ih : ∀ u, pcOK2 (s.pc u) = true) : ∀ u, pcOK2 (s'.pc u) = true := by
  env_cases h with t hp hi =>
    have iht := ih t
    rw [hp] at iht
    refine all_step ih ?_
    simp at iht ⊢

theorem reach_pcOK2 {s : St} (h : Reach s) : ∀ u, pcOK2 (s.pc u) = true := by
  induction h with
  | init o => intro u; rfl
  | step _ hs ih => exact step_pcOK2 hs ih
  | env _ he ih => exact env_pcOK2 he ih
  | spawn _ hd ih => rw [setPc_eq_upd]; exact all_step ih (by simp)

/-- (A1) exactly the program counters at which `step` is `none` -/
theorem blocked_iff {s : St} {t : Tid} (ok : pcOK2 (s.pc t) = true) :
    step s t = none ↔
      (isDone (s.pc t) || EnvParked (s.pc t) || InputWait s.sh (s.pc t) || LockWait s.sh (s.pc t)) = true := by
  unfold step
  pc_cases s t hp =>
    rw [hp] at ok
    try simp at ok
    all_goals (simp only [stepPC])
    all_goals (try (repeat' split))
    all_goals (simp_all [InputWait, LockWait])
    all_goals (rcases ho : s.sh.once with _ | _ | _ <;> simp_all)
/-- does `step` return `none` at this pc? (as a `Bool` of the shared state and the pc) -/
def blockedB (sh : Sh) (p : PC) : Bool := isDone p || EnvParked p || InputWait sh p || LockWait sh p

def Quiescent (s : St) : Prop := ∀ t, step s t = none

theorem Quiescent.blocked {s : St} (h : Reach s) (hq : Quiescent s) (t : Tid) : blockedB s.sh (s.pc t) = true :=
  (blocked_iff (reach_pcOK2 h t)).mp (hq t)

/-! ### who can be blocked while owning what -/

theorem blocked_pHeldSec {sh : Sh} {p : PC} (h : pHeldSec p = true) (hb : blockedB sh p = true) :
    EnvParked p = true := by
  cases p <;> simp_all [blockedB, InputWait, LockWait]

theorem blocked_holdsW {sh : Sh} {p : PC} (h : holdsW p = true) (hb : blockedB sh p = true) :
    EnvParked p = true ∨ sh.pheld = true := by
  cases p <;> simp_all [blockedB, InputWait, LockWait]

theorem blocked_holdsMu {sh : Sh} {p : PC} (h : holdsMu p = true) (hb : blockedB sh p = true) :
    sh.w.isSome = true ∨ sh.pheld = true := by
  cases p <;> simp_all [blockedB, InputWait, LockWait]

theorem blocked_onceMay {sh : Sh} {p : PC} (h : onceMay p = true) (hb : blockedB sh p = true) :
    EnvParked p = true ∨ sh.w.isSome = true := by
  cases p <;> simp_all [blockedB, InputWait, LockWait]

theorem blocked_holdsR {sh : Sh} {p : PC} (h : holdsR p = true) (hb : blockedB sh p = true) :
    EnvParked p = true ∨ ∃ m, p = .get m ∧ InputWait sh (.get m) = true := by
  cases p <;> simp_all [blockedB, InputWait, LockWait]

/-- a blocked thread that is not done, not parked in the environment and not waiting for input
    waits for one of the five lock-like resources -/
theorem blocked_cases {sh : Sh} {p : PC} (hb : blockedB sh p = true) (he : EnvParked p = false) :
    isDone p = true ∨ InputWait sh p = true ∨ sh.w.isSome = true ∨ sh.mu.isSome = true ∨
    (getOnce sh).isSome = true ∨ sh.pheld = true ∨ (∃ m, p = .lockR m ∧ sh.r.isSome = true) := by
  cases p <;> simp_all [blockedB, InputWait, LockWait]

/-! ### terminated ⇒ the packet buffer gets closed -/

def atTClose : PC → Bool | .tClose .. => true | _ => false
gen_ctor_simp atTClose
@[simp] theorem atTClose_afterTerm (c : Call) : atTClose (afterTerm c) = false := by cases c <;> rfl

theorem step_termPerr {s s' : St} {t : Tid} (h : step s t = some s')
    (ih : (s.sh.term.isSome = true ∧ s.sh.perr = none) → ∃ u, atTClose (s.pc u) = true) :
    (s'.sh.term.isSome = true ∧ s'.sh.perr = none) → ∃ u, atTClose (s'.pc u) = true := by
  unfold step at h
  pc_cases s t hp =>
    step_explode h hp
    all_goals (refine ex_step (P := fun sh => sh.term.isSome = true ∧ sh.perr = none) ih ?_)
    all_goals (simp (config := { contextual := true }) [*])
    all_goals (try grind)

theorem env_termPerr {s s' : St} {e : Env} (h : envStep s e = some s')
    (ih : (s.sh.term.isSome = true ∧ s.sh.perr = none) → ∃ u, atTClose (s.pc u) = true) :
    (s'.sh.term.isSome = true ∧ s'.sh.perr = none) → ∃ u, atTClose (s'.pc u) = true := by
  env_cases h with t hp hi =>
    refine ex_step (P := fun sh => sh.term.isSome = true ∧ sh.perr = none) ih ?_
    simp (config := { contextual := true }) [hp]

/-- terminated with the packet buffer still open: the terminating thread is about to close it -/
theorem reach_termPerr {s : St} (h : Reach s) :
    (s.sh.term.isSome = true ∧ s.sh.perr = none) → ∃ u, atTClose (s.pc u) = true := by
  induction h with
  | init o => simp
  | step _ hs ih => exact step_termPerr hs ih
  | env _ he ih => exact env_termPerr he ih
  | spawn _ hd ih =>
    obtain ⟨r, hp⟩ := hd
    rw [setPc_eq_upd]
    exact ex_step (P := fun sh => sh.term.isSome = true ∧ sh.perr = none) ih
      (by simp (config := { contextual := true }) [hp])

/-! ### the wait-for analysis -/

/-- In a quiescent state in which no thread is parked in the environment, every lock-like
    resource except possibly `s.read` is free and the packet buffer is not lent. -/
theorem quiescent_locks_free {s : St} (h : Reach s) (hq : Quiescent s)
    (hne : ∀ t, EnvParked (s.pc t) = false) :
    s.sh.pheld = false ∧ s.sh.w = none ∧ s.sh.mu = none ∧ getOnce s.sh = none := by
  have l := reach_locks h
  have hb := hq.blocked h
  have f1 : s.sh.pheld = false := by
    cases hp : s.sh.pheld with
    | false => rfl
    | true =>
      obtain ⟨u, _, hu⟩ := (reach_pktbuf h).pheld2 hp
      have := blocked_pHeldSec hu (hb u)
      rw [hne u] at this; cases this
  have f2 : s.sh.w = none := by
    cases hw : s.sh.w with
    | none => rfl
    | some u =>
      rcases blocked_holdsW ((l.w u).mp hw) (hb u) with h1 | h1
      · rw [hne u] at h1; cases h1
      · rw [f1] at h1; cases h1
  have f3 : s.sh.mu = none := by
    cases hm : s.sh.mu with
    | none => rfl
    | some u =>
      rcases blocked_holdsMu ((l.mu u).mp hm) (hb u) with h1 | h1
      · rw [f2] at h1; cases h1
      · rw [f1] at h1; cases h1
  have f4 : getOnce s.sh = none := by
    cases ho : getOnce s.sh with
    | none => rfl
    | some u =>
      rcases blocked_onceMay (l.once2 u ho) (hb u) with h1 | h1
      · rw [hne u] at h1; cases h1
      · rw [f2] at h1; cases h1
  exact ⟨f1, f2, f3, f4⟩

/-- (A2) No internal deadlock.  In a quiescent reachable state in which no thread is parked in
    the environment (transport write, user Marshal / Unmarshal), every thread has returned, or
    waits for input at the packet buffer (`Get` on an empty buffer, `Put` for a free slot or for
    consumption), or waits for `s.read` whose owner waits for input in `Get`.  Nobody waits for
    `s.write`, `s.mu`, the flush once or the lent buffer: no lock is held by a finished or
    non-existent thread, and there is no cycle. -/
theorem no_internal_deadlock {s : St} (h : Reach s) (hq : Quiescent s)
    (hne : ∀ t, EnvParked (s.pc t) = false) (t : Tid) :
    isDone (s.pc t) = true ∨ InputWait s.sh (s.pc t) = true ∨
    (∃ m, s.pc t = .lockR m ∧ ∃ u m', s.sh.r = some u ∧ s.pc u = .get m' ∧ InputWait s.sh (.get m') = true) := by
  obtain ⟨f1, f2, f3, f4⟩ := quiescent_locks_free h hq hne
  have hb := hq.blocked h
  rcases blocked_cases (hb t) (hne t) with h1 | h1 | h1 | h1 | h1 | h1 | ⟨m, hm, hr⟩
  · exact .inl h1
  · exact .inr (.inl h1)
  · rw [f2] at h1; cases h1
  · rw [f3] at h1; cases h1
  · rw [f4] at h1; cases h1
  · rw [f1] at h1; cases h1
  · right; right
    refine ⟨m, hm, ?_⟩
    cases hro : s.sh.r with
    | none => rw [hro] at hr; cases hr
    | some u =>
      rcases blocked_holdsR (((reach_locks h).r u).mp hro) (hb u) with h2 | ⟨m', h2, h3⟩
      · rw [hne u] at h2; cases h2
      · exact ⟨u, m', rfl, h2, h3⟩

/-- (A3) Once the packet buffer is closed, no input wait remains either: every call has returned. -/
theorem closed_quiescent_all_done {s : St} (h : Reach s) (hq : Quiescent s)
    (hne : ∀ t, EnvParked (s.pc t) = false) (hperr : s.sh.perr.isSome = true) (t : Tid) :
    isDone (s.pc t) = true := by
  obtain ⟨f1, _, _, _⟩ := quiescent_locks_free h hq hne
  have hps : s.sh.pset = false := (reach_pktbuf h).pb.err hperr
  have noInput : ∀ p, InputWait s.sh p = false := by
    intro p; cases p <;> simp [InputWait, hps, f1]
    all_goals (cases hpe : s.sh.perr <;> simp_all)
  rcases no_internal_deadlock h hq hne t with h1 | h1 | ⟨_, _, _, _, _, _, h1⟩
  · exact h1
  · rw [noInput] at h1; cases h1
  · rw [noInput] at h1; cases h1

/-- … and a terminated stream always gets there: terminated + quiescent + nobody parked in the
    environment ⇒ the packet buffer is closed and every call has returned. -/
theorem terminated_quiescent_all_done {s : St} (h : Reach s) (hq : Quiescent s)
    (hne : ∀ t, EnvParked (s.pc t) = false) (hterm : s.sh.term.isSome = true) :
    s.sh.perr.isSome = true ∧ ∀ t, isDone (s.pc t) = true := by
  obtain ⟨f1, _, _, _⟩ := quiescent_locks_free h hq hne
  have hperr : s.sh.perr.isSome = true := by
    cases hpe : s.sh.perr with
    | some _ => rfl
    | none =>
      obtain ⟨u, hu⟩ := reach_termPerr h ⟨hterm, hpe⟩
      have hb := hq.blocked h u
      cases hp : s.pc u <;> rw [hp] at hu hb <;> simp at hu
      simp [blockedB, InputWait, LockWait, f1] at hb
  exact ⟨hperr, closed_quiescent_all_done h hq hne hperr⟩

end Drpc.Stream
