import Drpc.Migrate
/-
  The inductive invariant of the HeaderConn.Write transition system (§2 of the model): mutual exclusion
  of the once function, "a plain write only after the once function returned", the shape of the wire.
-/
namespace Drpc.Migrate.Header

def isInOnce : PC → Bool | .inOnce _ => true | _ => false
def isPlain : PC → Bool | .plain _ => true | _ => false
def isWait : PC → Bool | .waitOnce _ => true | _ => false
/-- a returned `(n, err)` never counts header bytes: `n ≤ len(buf)`, and `n = len(buf)` without error -/
def retOk : PC → Bool
  | .done buf n e => decide (n ≤ buf.length) && (e || decide (n = buf.length))
  | _ => true

structure Inv (hdr : Bytes) (s : State) : Prop where
  own1 : ∀ t, isInOnce (s.pc t) = true → s.owner = some t
  own2 : ∀ t, s.owner = some t → isInOnce (s.pc t) = true
  doneOwner : s.onceDone = true → s.owner = none
  plainDone : ∀ t, isPlain (s.pc t) = true → s.onceDone = true
  logDone : s.onceDone = !s.log.isEmpty
  wire : s.failed = false → s.wire = expectedWire hdr s.log
  ret : ∀ t, retOk (s.pc t) = true
  waitOwner : ∀ t, isWait (s.pc t) = true → s.onceDone = false → s.owner.isSome = true

@[grind =] theorem pc_setPc (s : State) (t u : Tid) (p : PC) : (s.setPc t p).pc u = if u = t then p else s.pc u := by
  simp [State.setPc]
@[simp, grind =] theorem setPc_onceDone (s : State) (t : Tid) (p : PC) : (s.setPc t p).onceDone = s.onceDone := rfl
@[simp, grind =] theorem setPc_owner (s : State) (t : Tid) (p : PC) : (s.setPc t p).owner = s.owner := rfl
@[simp, grind =] theorem setPc_wire (s : State) (t : Tid) (p : PC) : (s.setPc t p).wire = s.wire := rfl
@[simp, grind =] theorem setPc_log (s : State) (t : Tid) (p : PC) : (s.setPc t p).log = s.log := rfl
@[simp, grind =] theorem setPc_failed (s : State) (t : Tid) (p : PC) : (s.setPc t p).failed = s.failed := rfl
attribute [grind] isInOnce isPlain isWait retOk

theorem expectedWire_snoc (hdr : Bytes) (log : List (Tid × Bytes)) (t : Tid) (b : Bytes) (h : log ≠ []) :
    expectedWire hdr (log ++ [(t, b)]) = expectedWire hdr log ++ [b] := by
  cases log with
  | nil => exact absurd rfl h
  | cons x xs => obtain ⟨u, c⟩ := x; simp [expectedWire]

theorem written_length_le (b : Bytes) (r : Option Nat) : (written b r).length ≤ b.length := by
  cases r <;> simp [written, List.length_take]; omega
theorem written_none (b : Bytes) : written b none = b := rfl

theorem inv_init (hdr : Bytes) : Inv hdr init := by
  constructor <;> simp [init, isInOnce, isPlain, isWait, retOk, expectedWire]

theorem inv_step (hdr : Bytes) (s s' : State) (l : Label) (hi : Inv hdr s) (hs : step hdr s l = some s') : Inv hdr s' := by
  obtain ⟨own1, own2, doneOwner, plainDone, logDone, wire, ret, waitOwner⟩ := hi
  cases l with
  | call t buf =>
    simp only [step] at hs
    split at hs <;> simp at hs <;> subst hs <;> constructor <;> (try simp only [setPc_onceDone, setPc_owner, setPc_wire, setPc_log, setPc_failed]) <;> first | assumption | (intros; grind)
  | onceEnter t =>
    simp only [step] at hs
    split at hs
    · split at hs
      · simp at hs; subst hs; constructor <;> (try simp only [setPc_onceDone, setPc_owner, setPc_wire, setPc_log, setPc_failed]) <;> first | assumption | (intros; grind)
      · split at hs
        · simp at hs; subst hs; constructor <;> (try simp only [setPc_onceDone, setPc_owner, setPc_wire, setPc_log, setPc_failed]) <;> first | assumption | (intros; grind)
        · simp at hs; subst hs; constructor <;> (try simp only [setPc_onceDone, setPc_owner, setPc_wire, setPc_log, setPc_failed]) <;> first | assumption | (intros; grind)
    · simp at hs
  | wake t =>
    simp only [step] at hs
    split at hs
    · split at hs
      · simp at hs; subst hs; constructor <;> (try simp only [setPc_onceDone, setPc_owner, setPc_wire, setPc_log, setPc_failed]) <;> first | assumption | (intros; grind)
      · simp at hs
    · simp at hs
  | complete t res =>
    simp only [step] at hs
    split at hs
    · rename_i buf hpc
      simp at hs; subst hs
      have hown : s.owner = some t := own1 t (by simp [hpc, isInOnce])
      have hnd : s.onceDone = false := by
        cases h : s.onceDone with
        | false => rfl
        | true => have := doneOwner h; rw [this] at hown; cases hown
      have hlog : s.log = [] := by
        rw [hnd] at logDone
        cases hl : s.log with
        | nil => rfl
        | cons _ _ => rw [hl] at logDone; simp at logDone
      constructor
      · intro u hu; grind
      · intro u hu; simp at hu
      · intro _; rfl
      · intro u hu; rfl
      · simp
      · intro hf
        simp only [setPc_failed, Bool.or_eq_false_iff] at hf
        have hw := wire hf.1
        have hr : res = none := by cases res <;> simp_all
        subst hr
        simp [hw, hlog, expectedWire, written]
      · intro u
        by_cases hu : u = t
        · subst hu
          have h1 := written_length_le (hdr ++ buf) res
          simp only [pc_setPc, ↓reduceIte, retOk, Bool.and_eq_true, decide_eq_true_eq, Bool.or_eq_true]
          simp only [List.length_append] at h1
          refine ⟨by omega, ?_⟩
          cases res with
          | none => right; simp [written]
          | some k => left; rfl
        · have := ret u; grind
      · intro u _ h; simp at h
    · rename_i buf hpc
      simp at hs; subst hs
      have hd : s.onceDone = true := plainDone t (by simp [hpc, isPlain])
      have hlog : s.log ≠ [] := by
        rw [hd] at logDone
        intro h; rw [h] at logDone; simp at logDone
      constructor
      · intro u hu; grind
      · intro u hu; grind
      · intro h; exact doneOwner hd
      · intro u hu; exact hd
      · simp [hd]
      · intro hf
        simp only [setPc_failed, Bool.or_eq_false_iff] at hf
        have hw := wire hf.1
        have hr : res = none := by cases res <;> simp_all
        subst hr
        simp [hw, expectedWire_snoc hdr s.log t buf hlog, written]
      · intro u
        by_cases hu : u = t
        · subst hu
          have h1 := written_length_le buf res
          simp only [pc_setPc, ↓reduceIte, retOk, Bool.and_eq_true, decide_eq_true_eq, Bool.or_eq_true]
          refine ⟨h1, ?_⟩
          cases res with
          | none => right; simp [written]
          | some k => left; rfl
        · have := ret u; grind
      · intro u _ h; simp [hd] at h
    · simp at hs

theorem inv_reachable (hdr : Bytes) (s : State) (h : Reachable hdr s) : Inv hdr s := by
  induction h with
  | init => exact inv_init hdr
  | step l _ hs ih => exact inv_step hdr _ _ l ih hs

/-- run a schedule of labels (used to exhibit concrete reachable states) -/
def hrun (hdr : Bytes) : List Label → State → Option State
  | [], s => some s
  | l :: ls, s => (step hdr s l).bind (hrun hdr ls)

theorem hrun_reachable (hdr : Bytes) (ls : List Label) :
    ∀ s s', Reachable hdr s → hrun hdr ls s = some s' → Reachable hdr s' := by
  induction ls with
  | nil => intro s s' h e; cases e; exact h
  | cons l ls ih =>
    intro s s' h e
    simp only [hrun] at e
    cases hs : step hdr s l with
    | none => rw [hs] at e; cases e
    | some s1 => rw [hs] at e; exact ih s1 s' (Reachable.step l h hs) e

end Drpc.Migrate.Header
