import Drpc.Lemmas.ManagerSysSimM
import Drpc.Lemmas.ManagerSysLx
/-
  Fin-token accounting on the capacity-1 channel `m.sfin`.

  Ghost bookkeeping carried next to the state (`ReachG soft s f c`): `f` = the streams in the order
  their fin signal was set (each sets it once and owes one token), `c` = the streams manageStream was
  working on when it received a token.  `Acc s f c`: tokens in flight + tokens received = fin signals
  set; who can still owe or be owed a token.
-/
set_option linter.unusedSimpArgs false
set_option linter.unusedVariables false
namespace Drpc.Manager.Sys
open Drpc.Manager

/-- the thread is about to send a fin token -/
def tokPc : PC → Nat
  | .rTok _ | .xTok _ _ | .mSendCancelTok _ _ => 1
  | _ => 0

/-- fin tokens in flight: in the channel, or still to be sent by the thread that set the fin signal -/
def tokT (s : St) : Nat :=
  s.sh.sfin.toNat + s.sh.envTok + tokPc (s.pc readerTid) + tokPc (s.pc mgrTid)

/-- the stream manageStream is working on, until it has received a fin token -/
def mgrPre : PC → Option Sid
  | .mEvSfin _ _ => none
  | p => mgrSid p

/-- ghost: the stream whose fin signal this step sets -/
def dFin (p : PC) (sh sh' : Sh) : List Sid :=
  match p with
  | .rHandle _ c | .xCancel c _ | .mSendCancel c =>
    if (sh.strm c).fin = false ∧ (sh'.strm c).fin = true then [c] else []
  | _ => []

/-- ghost: the stream manageStream receives a token for with this step -/
def dCon (p p' : PC) : List Sid :=
  match p, p' with
  | .mStream m, .mEvSfin _ _ => [m]
  | .mRecv m _, .mEvSfin _ _ => [m]
  | _, _ => []

def envFin : Env → List Sid
  | .appFin sid => [sid]
  | _ => []

/-- ghost: the stream whose offer is retracted with this step (nobody will ever receive its token) -/
def dAb : PC → List Sid
  | .nEvRetract _ sid => [sid]
  | _ => []

/-- `ReachF` with the ghost lists (and an optional further restriction `E` of the environment) -/
inductive ReachG (E : St → Env → Prop) (soft : Bool) : St → List Sid → List Sid → List Sid → Prop
  | init : ReachG E soft { sh := { soft := soft } } [] [] []
  | step {s s' : St} {f c ab : List Sid} (t : Tid) (ch : Nat) : ReachG E soft s f c ab → step s t ch = some s' → FreshStep s t →
      ReachG E soft s' (f ++ dFin (s.pc t) s.sh s'.sh) (c ++ dCon (s.pc t) (s'.pc t)) (dAb (s.pc t) ++ ab)
  | env {s s' : St} {f c ab : List Sid} (e : Env) : ReachG E soft s f c ab → envStep s e = some s' → EnvF e → E s e →
      ReachG E soft s' (f ++ envFin e) c ab

theorem ReachG.reachF {E : St → Env → Prop} {soft : Bool} {s : St} {f c ab : List Sid} (h : ReachG E soft s f c ab) :
    ReachF soft s := by
  induction h with
  | init => exact .init
  | step t ch _ hs hf ih => exact .step t ch ih hs hf
  | env e _ hs he _ ih => exact .env e ih hs he

theorem reachG_of_reachF {soft : Bool} {s : St} (h : ReachF soft s) : ∃ f c ab, ReachG (fun _ _ => True) soft s f c ab := by
  induction h with
  | init => exact ⟨[], [], [], .init⟩
  | step t ch _ hs hf ih => obtain ⟨f, c, ab, hg⟩ := ih; exact ⟨_, _, _, .step t ch hg hs hf⟩
  | env e _ hs he ih => obtain ⟨f, c, ab, hg⟩ := ih; exact ⟨_, _, _, .env e hg hs he trivial⟩

/-- the creator of the stream is still between `NewWithOptions` and the hand-over (its offer, if made,
    is still in the channel) -/
def liveCreator (s : St) (x : Sid) : Prop :=
  ∃ t, nSid (s.pc t) = some x ∧ ∀ k y, s.pc t = .nOffered k y → s.sh.streamsCh = some y

/-- tokens: in flight + received = fin signals set -/
structure AccT (s : St) (f c : List Sid) : Prop where
  a1 : tokT s + c.length = f.length
  a2 : f.Nodup ∧ ∀ x, x ∈ f ↔ (s.sh.strm x).fin = true

/-- who works on which stream -/
structure AccB (s : St) (c ab : List Sid) : Prop where
  a3 : c.Nodup ∧ ∀ x ∈ c, (s.sh.strm x).made = true
  b1 : ∀ x ∈ c, ∀ t, nSid (s.pc t) = some x → ∃ k, s.pc t = .nOffered k x
  b2 : ∀ x ∈ c, s.sh.streamsCh ≠ some x
  b3 : ∀ x ∈ c, ∀ t, mgrPre (s.pc t) ≠ some x
  c1 : ∀ t m, mgrPre (s.pc t) = some m → ∀ u, nSid (s.pc u) = some m → ∃ k, s.pc u = .nOffered k m
  c2 : ∀ t m, mgrPre (s.pc t) = some m → s.sh.streamsCh ≠ some m
  d1 : ∀ x, (s.sh.strm x).made = true →
    x ∈ c ∨ (∃ t, mgrPre (s.pc t) = some x) ∨ x ∈ ab ∨ liveCreator s x
  e1 : ∀ x ∈ ab, s.sh.term = true

structure Acc (s : St) (f c ab : List Sid) : Prop where
  t : AccT s f c
  b : AccB s c ab

theorem fin_setStrm_keep {sh : Sh} {sid : Sid} {y : SS} (hy : y.fin = (sh.strm sid).fin) :
    ∀ x, ((sh.setStrm sid y).strm x).fin = (sh.strm x).fin := by
  intro x
  rw [setStrm_strm]
  split
  · subst_vars; exact hy
  · rfl

theorem made_setStrm_keep' {sh : Sh} {sid : Sid} {y : SS} (hy : y.made = (sh.strm sid).made) :
    ∀ x, ((sh.setStrm sid y).strm x).made = (sh.strm x).made := by
  intro x
  rw [setStrm_strm]
  split
  · subst_vars; exact hy
  · rfl

theorem dFin_nil {p : PC} {sh sh' : Sh} (h : ∀ x, (sh'.strm x).fin = (sh.strm x).fin) : dFin p sh sh' = [] := by
  cases p <;> simp only [dFin] <;> rw [if_neg] <;> (rw [h]; intro hc; rw [hc.1] at hc; cases hc.2)

theorem tokT_upd {s : St} {t : Tid} {sh' : Sh} {p' : PC} (hsf : sh'.sfin = s.sh.sfin) (hen : sh'.envTok = s.sh.envTok)
    (htk : tokPc p' = tokPc (s.pc t)) : tokT (s.upd t sh' p') = tokT s := by
  have hpc : ∀ u, tokPc ((s.upd t sh' p').pc u) = tokPc (s.pc u) := by
    intro u; rw [upd_pc]; split
    · subst_vars; exact htk
    · rfl
  unfold tokT
  simp only [upd_sh, hsf, hen, hpc]

theorem accT_frame {s : St} {t : Tid} {sh' : Sh} {p' : PC} {f c : List Sid} (hi : AccT s f c)
    (hsf : sh'.sfin = s.sh.sfin) (hen : sh'.envTok = s.sh.envTok) (htk : tokPc p' = tokPc (s.pc t))
    (hfin : ∀ x, (sh'.strm x).fin = (s.sh.strm x).fin) : AccT (s.upd t sh' p') f c := by
  refine ⟨?_, hi.a2.1, ?_⟩
  · rw [tokT_upd hsf hen htk]; exact hi.a1
  · intro x; simp only [upd_sh, hfin]; exact hi.a2.2 x

/-- a step that does not change who works on which stream -/
theorem accB_frame {s : St} {t : Tid} {sh' : Sh} {p' : PC} {c ab : List Sid} (hi : AccB s c ab)
    (hmade : ∀ x, (sh'.strm x).made = (s.sh.strm x).made)
    (hch : sh'.streamsCh = s.sh.streamsCh) (hterm : s.sh.term = true → sh'.term = true)
    (hn : nSid p' = nSid (s.pc t)) (ho : ∀ k y, p' = .nOffered k y ↔ s.pc t = .nOffered k y)
    (hm : mgrPre p' = mgrPre (s.pc t)) : AccB (s.upd t sh' p') c ab := by
  have hnS : ∀ u, nSid ((s.upd t sh' p').pc u) = nSid (s.pc u) := by
    intro u; rw [upd_pc]; split
    · subst_vars; exact hn
    · rfl
  have hmP : ∀ u, mgrPre ((s.upd t sh' p').pc u) = mgrPre (s.pc u) := by
    intro u; rw [upd_pc]; split
    · subst_vars; exact hm
    · rfl
  have hoF : ∀ u k y, (s.upd t sh' p').pc u = .nOffered k y ↔ s.pc u = .nOffered k y := by
    intro u k y; rw [upd_pc]; split
    · subst_vars; exact ho k y
    · exact Iff.rfl
  refine ⟨⟨hi.a3.1, ?_⟩, ?_, ?_, ?_, ?_, ?_, ?_, fun x hx => hterm (hi.e1 x hx)⟩
  · intro x hx; simp only [upd_sh, hmade]; exact hi.a3.2 x hx
  · intro x hx u hu
    rw [hnS] at hu
    obtain ⟨k, hk⟩ := hi.b1 x hx u hu
    exact ⟨k, (hoF u k x).2 hk⟩
  · intro x hx; simp only [upd_sh, hch]; exact hi.b2 x hx
  · intro x hx u; rw [hmP]; exact hi.b3 x hx u
  · intro u m hu v hv
    rw [hmP] at hu; rw [hnS] at hv
    obtain ⟨k, hk⟩ := hi.c1 u m hu v hv
    exact ⟨k, (hoF v k m).2 hk⟩
  · intro u m hu; rw [hmP] at hu; simp only [upd_sh, hch]; exact hi.c2 u m hu
  · intro x hx
    simp only [upd_sh, hmade] at hx
    rcases hi.d1 x hx with h | ⟨u, hu⟩ | h | ⟨u, hu1, hu2⟩
    · exact Or.inl h
    · exact Or.inr (Or.inl ⟨u, by rw [hmP]; exact hu⟩)
    · exact Or.inr (Or.inr (Or.inl h))
    · refine Or.inr (Or.inr (Or.inr ⟨u, by rw [hnS]; exact hu1, ?_⟩))
      intro k y hk
      simp only [upd_sh, hch]
      exact hu2 k y ((hoF u k y).1 hk)

theorem acc_frame {s : St} {t : Tid} {sh' : Sh} {p' : PC} {f c ab : List Sid} (hi : Acc s f c ab)
    (hsf : sh'.sfin = s.sh.sfin) (hen : sh'.envTok = s.sh.envTok) (htk : tokPc p' = tokPc (s.pc t))
    (hfin : ∀ x, (sh'.strm x).fin = (s.sh.strm x).fin) (hmade : ∀ x, (sh'.strm x).made = (s.sh.strm x).made)
    (hch : sh'.streamsCh = s.sh.streamsCh) (hterm : s.sh.term = true → sh'.term = true)
    (hn : nSid p' = nSid (s.pc t)) (ho : ∀ k y, p' = .nOffered k y ↔ s.pc t = .nOffered k y)
    (hm : mgrPre p' = mgrPre (s.pc t)) : Acc (s.upd t sh' p') f c ab :=
  ⟨accT_frame hi.t hsf hen htk hfin, accB_frame hi.b hmade hch hterm hn ho hm⟩

theorem tokT_move {s : St} {t : Tid} {sh' : Sh} {p' : PC} (ht : t = readerTid ∨ t = mgrTid) :
    tokT (s.upd t sh' p') + tokPc (s.pc t) + s.sh.sfin.toNat + s.sh.envTok =
      tokT s + tokPc p' + sh'.sfin.toNat + sh'.envTok := by
  unfold tokT
  rcases ht with rfl | rfl
  · simp only [upd_sh, upd_pc_self, upd_pc_ne _ _ _ (show mgrTid ≠ readerTid by decide)]
    omega
  · simp only [upd_sh, upd_pc_self, upd_pc_ne _ _ _ (show readerTid ≠ mgrTid by decide)]
    omega

/-- a thread sets the fin signal of stream `x` and now owes its token -/
theorem accT_fin {s : St} {t : Tid} {sh' : Sh} {p' : PC} {f c : List Sid} {x : Sid} (hi : AccT s f c)
    (ht : t = readerTid ∨ t = mgrTid) (hx : (s.sh.strm x).fin = false)
    (hnew : ∀ y, (sh'.strm y).fin = (if y = x then true else (s.sh.strm y).fin))
    (hsf : sh'.sfin = s.sh.sfin) (hen : sh'.envTok = s.sh.envTok) (htk0 : tokPc (s.pc t) = 0) (htk1 : tokPc p' = 1) :
    AccT (s.upd t sh' p') (f ++ [x]) c := by
  have hxf : x ∉ f := by intro h; have := (hi.a2.2 x).1 h; rw [hx] at this; cases this
  refine ⟨?_, nodup_snoc hi.a2.1 hxf, ?_⟩
  · have := tokT_move (s := s) (sh' := sh') (p' := p') ht
    rw [hsf, hen, htk0, htk1] at this
    have h1 := hi.a1
    simp only [List.length_append, List.length_singleton]
    omega
  · intro y
    simp only [upd_sh, hnew, List.mem_append, List.mem_singleton]
    by_cases hy : y = x
    · simp [hy]
    · simp [hy, hi.a2.2 y]

/-- a thread sends the token it owes -/
theorem accT_send {s : St} {t : Tid} {sh' : Sh} {p' : PC} {f c : List Sid} (hi : AccT s f c)
    (ht : t = readerTid ∨ t = mgrTid) (h0 : s.sh.sfin = false) (h1 : sh'.sfin = true)
    (hen : sh'.envTok = s.sh.envTok) (htk1 : tokPc (s.pc t) = 1) (htk0 : tokPc p' = 0)
    (hfin : ∀ x, (sh'.strm x).fin = (s.sh.strm x).fin) : AccT (s.upd t sh' p') f c := by
  refine ⟨?_, hi.a2.1, ?_⟩
  · have := tokT_move (s := s) (sh' := sh') (p' := p') ht
    rw [h0, h1, hen, htk0, htk1] at this
    have h1 := hi.a1
    simp only [Bool.toNat_false, Bool.toNat_true] at this
    omega
  · intro x; simp only [upd_sh, hfin]; exact hi.a2.2 x

/-- manageStream receives a token -/
theorem accT_recv {s : St} {t : Tid} {sh' : Sh} {p' : PC} {f c : List Sid} {m : Sid} (hi : AccT s f c)
    (ht : t = readerTid ∨ t = mgrTid) (h1 : s.sh.sfin = true) (h0 : sh'.sfin = false)
    (hen : sh'.envTok = s.sh.envTok) (htk : tokPc p' = tokPc (s.pc t))
    (hfin : ∀ x, (sh'.strm x).fin = (s.sh.strm x).fin) : AccT (s.upd t sh' p') f (c ++ [m]) := by
  refine ⟨?_, hi.a2.1, ?_⟩
  · have := tokT_move (s := s) (sh' := sh') (p' := p') ht
    rw [h0, h1, hen, htk] at this
    have h1 := hi.a1
    simp only [Bool.toNat_false, Bool.toNat_true] at this
    simp only [List.length_append, List.length_singleton]
    omega
  · intro x; simp only [upd_sh, hfin]; exact hi.a2.2 x

theorem mgrTid_of_mgrPre {s : St} (hty : Typ s) {t : Tid} {sid : Sid} (h : mgrPre (s.pc t) = some sid) : t = mgrTid := by
  apply mgrTid_of_mgrSid hty (sid := sid)
  cases hp : s.pc t <;> rw [hp] at h <;> first | exact h | (simp [mgrPre] at h)

/-- manageStream receives the token for the stream it is working on -/
theorem accB_recv {s : St} {t : Tid} {sh' : Sh} {p' : PC} {c ab : List Sid} {m : Sid} (hs : Safe s) (hi : AccB s c ab)
    (hpre : mgrPre (s.pc t) = some m) (hpre' : mgrPre p' = none) (hn : nSid p' = none) (hn0 : nSid (s.pc t) = none)
    (ho : ∀ k y, p' ≠ .nOffered k y) (ho0 : ∀ k y, s.pc t ≠ .nOffered k y)
    (hmade : ∀ x, (sh'.strm x).made = (s.sh.strm x).made) (hch : sh'.streamsCh = s.sh.streamsCh)
    (hterm : s.sh.term = true → sh'.term = true) : AccB (s.upd t sh' p') (c ++ [m]) ab := by
  have htm := mgrTid_of_mgrPre hs.typ hpre
  have hnS : ∀ u, nSid ((s.upd t sh' p').pc u) = nSid (s.pc u) := by
    intro u; rw [upd_pc]; split
    · subst_vars; rw [hn, hn0]
    · rfl
  have hmP : ∀ u, mgrPre ((s.upd t sh' p').pc u) = none := by
    intro u; rw [upd_pc]; split
    · exact hpre'
    · rename_i hne
      cases hx : mgrPre (s.pc u) with
      | none => rfl
      | some y => exact absurd ((mgrTid_of_mgrPre hs.typ hx).trans htm.symm) hne
  have hoF : ∀ u k y, (s.upd t sh' p').pc u = .nOffered k y ↔ s.pc u = .nOffered k y := by
    intro u k y; rw [upd_pc]; split
    · subst_vars; exact ⟨fun h => absurd h (ho k y), fun h => absurd h (ho0 k y)⟩
    · exact Iff.rfl
  have hmc : m ∉ c := fun h => hi.b3 m h t hpre
  have hmm : (s.sh.strm m).made = true := by
    have hpub : (s.sh.strm m).pub = true := by
      apply hs.loc.pubAt t m
      cases hp : s.pc t <;> rw [hp] at hpre <;> simp [mgrPre, mgrSid] at hpre <;> first
        | (simp only [sidOf]; exact congrArg some hpre)
        | (simp only [sidOf]; exact congrArg some hpre.2)
        | (simp only [sidOf]; exact hpre)
    exact (hs.loc.flags m).2.2 hpub
  refine ⟨⟨nodup_snoc hi.a3.1 hmc, ?_⟩, ?_, ?_, ?_, ?_, ?_, ?_, fun x hx => hterm (hi.e1 x hx)⟩
  · intro x hx
    simp only [upd_sh, hmade]
    simp only [List.mem_append, List.mem_singleton] at hx
    rcases hx with hx | rfl
    · exact hi.a3.2 x hx
    · exact hmm
  · intro x hx u hu
    rw [hnS] at hu
    simp only [List.mem_append, List.mem_singleton] at hx
    rcases hx with hx | rfl
    · obtain ⟨k, hk⟩ := hi.b1 x hx u hu; exact ⟨k, (hoF u k x).2 hk⟩
    · obtain ⟨k, hk⟩ := hi.c1 t x hpre u hu; exact ⟨k, (hoF u k x).2 hk⟩
  · intro x hx
    simp only [upd_sh, hch]
    simp only [List.mem_append, List.mem_singleton] at hx
    rcases hx with hx | rfl
    · exact hi.b2 x hx
    · exact hi.c2 t x hpre
  · intro x _ u; rw [hmP]; intro h; cases h
  · intro u y hu; rw [hmP] at hu; cases hu
  · intro u y hu; rw [hmP] at hu; cases hu
  · intro x hx
    simp only [upd_sh, hmade] at hx
    rcases hi.d1 x hx with h | ⟨u, hu⟩ | h | ⟨u, hu1, hu2⟩
    · exact Or.inl (by simp [h])
    · have hut := (mgrTid_of_mgrPre hs.typ hu).trans htm.symm
      subst hut
      rw [hpre] at hu
      cases hu
      exact Or.inl (by simp)
    · exact Or.inr (Or.inr (Or.inl h))
    · refine Or.inr (Or.inr (Or.inr ⟨u, by rw [hnS]; exact hu1, ?_⟩))
      intro k y hk
      simp only [upd_sh, hch]
      exact hu2 k y ((hoF u k y).1 hk)

theorem tokPc_afterTerminate (k : TK) : tokPc (afterTerminate k) = 0 := by cases k <;> rfl
theorem tokPc_afterCancel (r : Bool) (k : CK) : tokPc (afterCancel r k) = 0 := by cases k <;> cases r <;> rfl
theorem tokPc_failHolding (c : Call) : tokPc (failHolding c) = 0 := by cases c <;> rfl
theorem nSid_afterCancel' (r : Bool) (k : CK) : nSid (afterCancel r k) = none := by cases k <;> cases r <;> rfl
theorem mgrPre_afterTerminate (k : TK) : mgrPre (afterTerminate k) = k.sid? := by cases k <;> rfl
theorem mgrPre_afterCancel {r : Bool} {k : CK} {sid : Sid} (h : k.sidOk sid = true) :
    mgrPre (afterCancel r k) = mgrPre (.xCancel sid k) := by
  cases k <;> cases r <;> simp_all [afterCancel, mgrPre, mgrSid, CK.role, CK.sidOk, TK.sid?]
theorem mgrPre_failHolding (c : Call) : mgrPre (failHolding c) = none := by cases c <;> rfl
theorem ne_offered_afterTerminate (k : TK) (c : Call) (y : Sid) : afterTerminate k ≠ .nOffered c y := by
  cases k <;> simp [afterTerminate]
theorem ne_offered_afterCancel (r : Bool) (k : CK) (c : Call) (y : Sid) : afterCancel r k ≠ .nOffered c y := by
  cases k <;> cases r <;> simp [afterCancel]
theorem ne_offered_failHolding (c' : Call) (c : Call) (y : Sid) : failHolding c' ≠ .nOffered c y := by
  cases c' <;> simp [failHolding]

theorem fin_setStrm_new {sh : Sh} {x : Sid} {y : SS} (hy : y.fin = true) :
    ∀ z, ((sh.setStrm x y).strm z).fin = (if z = x then true else (sh.strm z).fin) := by
  intro z
  rw [setStrm_strm]
  split
  · exact hy
  · rfl

theorem dFin_set {p : PC} {sh sh' : Sh} {x : Sid} (hp : sidOf p = some x ∧ (∃ q, p = .rHandle q x) ∨ (∃ k, p = .xCancel x k) ∨ p = .mSendCancel x)
    (h0 : (sh.strm x).fin = false) (h1 : (sh'.strm x).fin = true) : dFin p sh sh' = [x] := by
  rcases hp with ⟨-, q, rfl⟩ | ⟨k, rfl⟩ | rfl <;> simp [dFin, h0, h1]

theorem tid_rd_or_mg {s : St} (hty : Typ s) {t : Tid} (h : pcRole (s.pc t) = some .rd ∨ pcRole (s.pc t) = some .mg) :
    t = readerTid ∨ t = mgrTid := by
  rcases h with h | h
  · exact Or.inl (tid_of_rd hty h)
  · exact Or.inr (tid_of_mg hty h)

theorem acc_tr {s : St} {t : Tid} {p : PC} {sh' : Sh} {p' : PC} {f c ab : List Sid} (hs : Safe s)
    (hs' : Safe (s.upd t sh' p')) (hi : Acc s f c ab) (hp : s.pc t = p) (hfresh : FreshStep s t)
    (h : Tr s t p sh' p') : Acc (s.upd t sh' p') (f ++ dFin p s.sh sh') (c ++ dCon p p') (dAb p ++ ab) := by
  have hwf := (hs.typ t).2
  rw [hp] at hwf
  cases h
  all_goals
    first
    | (rw [show dFin _ _ _ = [] from dFin_nil (by intro x; rfl), show dCon _ _ = [] from rfl, List.append_nil, List.append_nil]
       ; exact acc_frame hi rfl rfl
          (by rw [hp]; first | rfl | exact tokPc_afterTerminate _ | exact tokPc_afterCancel _ _)
          (fun _ => rfl) (fun _ => rfl) rfl (fun h => h)
          (by rw [hp]; first | rfl | exact nSid_afterTerminate _ | exact nSid_afterCancel' _ _)
          (by intro k y; rw [hp]; constructor <;> intro h <;> first
            | (cases h; done)
            | exact absurd h (ne_offered_afterTerminate _ _ _)
            | exact absurd h (ne_offered_afterCancel _ _ _ _))
          (by rw [hp]; first
            | rfl
            | exact mgrPre_afterTerminate _
            | exact mgrPre_afterCancel (by simpa [wfPC] using hwf)))
    | skip
  case rHandleT q x _ | rHandleET q x _ | xCancelLater x k _ | mSendT x bad | nSetClosed k x _ =>
    rw [show dFin _ _ _ = [] from dFin_nil (by exact fin_setStrm_keep rfl), show dCon _ _ = [] from rfl, List.append_nil,
      List.append_nil]
    exact acc_frame hi rfl rfl (by rw [hp]; first | rfl | exact tokPc_afterCancel _ _)
      (fin_setStrm_keep rfl) (made_setStrm_keep' rfl) rfl (fun h => h)
      (by rw [hp]; first | rfl | exact nSid_afterCancel' _ _)
      (by intro k y; rw [hp]; constructor <;> intro h <;> first
        | (cases h; done)
        | exact absurd h (ne_offered_afterCancel _ _ _ _))
      (by rw [hp]; first | rfl | exact mgrPre_afterCancel (by simpa [wfPC] using hwf))
  case nSetStore k x _ =>
    have hf : ∀ y, (({ s.sh.setStrm x { s.sh.strm x with pub := true } with sbufCur := x } : Sh).strm y).fin = (s.sh.strm y).fin :=
      fun y => fin_setStrm_keep (sh := s.sh) (sid := x) (y := { s.sh.strm x with pub := true }) rfl y
    have hm : ∀ y, (({ s.sh.setStrm x { s.sh.strm x with pub := true } with sbufCur := x } : Sh).strm y).made = (s.sh.strm y).made :=
      fun y => made_setStrm_keep' (sh := s.sh) (sid := x) (y := { s.sh.strm x with pub := true }) rfl y
    rw [show dFin _ _ _ = [] from dFin_nil hf, show dCon _ _ = [] from rfl, List.append_nil, List.append_nil]
    exact acc_frame hi rfl rfl (by rw [hp]; rfl) hf hm rfl (fun h => h) (by rw [hp]; rfl)
      (by intro k y; rw [hp]; constructor <;> intro h <;> cases h) (by rw [hp]; rfl)
  case tSetFirst k _ =>
    rw [show dFin _ _ _ = [] from dFin_nil (by intro x; rfl), show dCon _ _ = [] from rfl, List.append_nil, List.append_nil]
    exact acc_frame hi rfl rfl (by rw [hp]; rfl) (fun _ => rfl) (fun _ => rfl) rfl (fun _ => rfl) (by rw [hp]; rfl)
      (by intro k y; rw [hp]; constructor <;> intro h <;> cases h) (by rw [hp]; rfl)
  case rHandleF q x hterm | rHandleEF q x hterm =>
    have hfin0 : (s.sh.strm x).fin = false := by
      cases hx : (s.sh.strm x).fin with
      | false => rfl
      | true => have := (hs.loc.flags x).1 hx; rw [hterm] at this; cases this
    rw [dFin_set (Or.inl ⟨rfl, q, rfl⟩) hfin0 (by simp), show dCon _ _ = [] from rfl, List.append_nil]
    exact ⟨accT_fin hi.t (tid_rd_or_mg hs.typ (Or.inl (by rw [hp]; rfl))) hfin0 (fin_setStrm_new rfl) rfl rfl
        (by rw [hp]; rfl) rfl,
      accB_frame hi.b (made_setStrm_keep' rfl) rfl (fun h => h) (by rw [hp]; rfl)
        (by intro k y; rw [hp]; constructor <;> intro h <;> cases h) (by rw [hp]; rfl)⟩
  case xCancelNow x k hfin0 =>
    have hrole : pcRole (s.pc t) = some .rd ∨ pcRole (s.pc t) = some .mg := by
      rw [hp]; cases k <;> simp [pcRole, CK.role]
    rw [dFin_set (Or.inr (Or.inl ⟨k, rfl⟩)) hfin0 (by simp), show dCon _ _ = [] from rfl, List.append_nil]
    exact ⟨accT_fin hi.t (tid_rd_or_mg hs.typ hrole) hfin0 (fin_setStrm_new rfl) rfl rfl (by rw [hp]; rfl) rfl,
      accB_frame hi.b (made_setStrm_keep' rfl) rfl (fun h => h) (by rw [hp]; rfl)
        (by intro k y; rw [hp]; constructor <;> intro h <;> cases h) (by rw [hp]; rfl)⟩
  case mSendF x bad hg =>
    have hfin0 : (s.sh.strm x).fin = false := by
      rcases hg with h | h
      · exact h
      · cases hx : (s.sh.strm x).fin with
        | false => rfl
        | true => have := (hs.loc.flags x).1 hx; rw [h] at this; cases this
    rw [dFin_set (Or.inr (Or.inr rfl)) hfin0 (by simp), show dCon _ _ = [] from rfl, List.append_nil]
    exact ⟨accT_fin hi.t (tid_rd_or_mg hs.typ (Or.inr (by rw [hp]; rfl))) hfin0 (fin_setStrm_new rfl) rfl rfl
        (by rw [hp]; rfl) rfl,
      accB_frame hi.b (made_setStrm_keep' rfl) rfl (fun h => h) (by rw [hp]; rfl)
        (by intro k y; rw [hp]; constructor <;> intro h <;> cases h) (by rw [hp]; rfl)⟩
  case rTokErr h0 | rTokOk h0 =>
    rw [show dFin _ _ _ = [] from dFin_nil (by intro x; rfl), show dCon _ _ = [] from rfl, List.append_nil, List.append_nil]
    exact ⟨accT_send hi.t (tid_rd_or_mg hs.typ (Or.inl (by rw [hp]; rfl))) h0 rfl rfl (by rw [hp]; rfl) rfl (fun _ => rfl),
      accB_frame hi.b (fun _ => rfl) rfl (fun h => h) (by rw [hp]; rfl)
        (by intro k y; rw [hp]; constructor <;> intro h <;> cases h) (by rw [hp]; rfl)⟩
  case mSendCancelTok x bad h0 =>
    rw [show dFin _ _ _ = [] from dFin_nil (by intro x; rfl), show dCon _ _ = [] from rfl, List.append_nil, List.append_nil]
    exact ⟨accT_send hi.t (tid_rd_or_mg hs.typ (Or.inr (by rw [hp]; rfl))) h0 rfl rfl (by rw [hp]; rfl) rfl (fun _ => rfl),
      accB_frame hi.b (fun _ => rfl) rfl (fun h => h) (by rw [hp]; rfl)
        (by intro k y; rw [hp]; constructor <;> intro h <;> cases h) (by rw [hp]; rfl)⟩
  case xTok x k h0 =>
    have hrole : pcRole (s.pc t) = some .rd ∨ pcRole (s.pc t) = some .mg := by
      rw [hp]; cases k <;> simp [pcRole, CK.role]
    rw [show dFin _ _ _ = [] from dFin_nil (by intro x; rfl), show dCon _ _ = [] from rfl, List.append_nil, List.append_nil]
    exact ⟨accT_send hi.t (tid_rd_or_mg hs.typ hrole) h0 rfl rfl (by rw [hp]; rfl) (tokPc_afterCancel _ _) (fun _ => rfl),
      accB_frame hi.b (fun _ => rfl) rfl (fun h => h) (by rw [hp]; exact nSid_afterCancel' _ _)
        (by intro k' y; rw [hp]; constructor <;> intro h <;> first | (cases h; done) | exact absurd h (ne_offered_afterCancel _ _ _ _))
        (by rw [hp]; exact mgrPre_afterCancel (by simpa [wfPC] using hwf))⟩
  case mStreamFin m h1 =>
    rw [show dFin _ _ _ = [] from dFin_nil (by intro x; rfl), show dCon _ _ = [m] from rfl, List.append_nil]
    exact ⟨accT_recv hi.t (tid_rd_or_mg hs.typ (Or.inr (by rw [hp]; rfl))) h1 rfl rfl (by rw [hp]; rfl) (fun _ => rfl),
      accB_recv hs hi.b (by rw [hp]; rfl) rfl rfl (by rw [hp]; rfl) (by intro k y h; cases h)
        (by intro k y h; rw [hp] at h; cases h) (fun _ => rfl) rfl (fun h => h)⟩
  case mRecv m rel h1 =>
    rw [show dFin _ _ _ = [] from dFin_nil (by intro x; rfl), show dCon _ _ = [m] from rfl, List.append_nil]
    exact ⟨accT_recv hi.t (tid_rd_or_mg hs.typ (Or.inr (by rw [hp]; rfl))) h1 rfl rfl (by rw [hp]; rfl) (fun _ => rfl),
      accB_recv hs hi.b (by rw [hp]; rfl) rfl rfl (by rw [hp]; rfl) (by intro k y h; cases h)
        (by intro k y h; rw [hp] at h; cases h) (fun _ => rfl) rfl (fun h => h)⟩
  case mTopTake sid hsid =>
    rw [show dFin _ _ _ = [] from dFin_nil (by intro x; rfl), show dCon _ _ = [] from rfl, List.append_nil, List.append_nil]
    refine ⟨accT_frame hi.t rfl rfl (by rw [hp]; rfl) (fun _ => rfl), ?_⟩
    have htm : t = mgrTid := tid_of_mg hs.typ (by rw [hp]; rfl)
    obtain ⟨a, ka, ha⟩ := hs.sem.chOffer sid hsid
    have hat : a ≠ t := by intro h; rw [h, hp] at ha; cases ha
    have hnS : ∀ u, nSid ((s.upd t { s.sh with streamsCh := none } (.mStream sid)).pc u) = nSid (s.pc u) := by
      intro u; rw [upd_pc]; split
      · subst_vars; rw [hp]; rfl
      · rfl
    have hoF : ∀ u k y, (s.upd t { s.sh with streamsCh := none } (.mStream sid)).pc u = .nOffered k y ↔ s.pc u = .nOffered k y := by
      intro u k y; rw [upd_pc]; split
      · subst_vars; rw [hp]; constructor <;> intro h <;> cases h
      · exact Iff.rfl
    have hmP : ∀ u m, mgrPre ((s.upd t { s.sh with streamsCh := none } (.mStream sid)).pc u) = some m → u = t ∧ m = sid := by
      intro u m hu
      rw [upd_pc] at hu
      split at hu
      · simp only [mgrPre, mgrSid, Option.some.injEq] at hu
        exact ⟨by assumption, hu.symm⟩
      · rename_i hne
        exact absurd ((mgrTid_of_mgrPre hs.typ hu).trans htm.symm) hne
    have hown : ∀ u, nSid (s.pc u) = some sid → u = a := by
      intro u hu
      have h1 := (hs.loc.own u sid hu).2
      have h2 := (hs.loc.own a sid (by rw [ha]; rfl)).2
      exact h1.symm.trans h2
    refine ⟨⟨hi.b.a3.1, hi.b.a3.2⟩, ?_, ?_, ?_, ?_, ?_, ?_, hi.b.e1⟩
    · intro x hx u hu
      rw [hnS] at hu
      obtain ⟨k, hk⟩ := hi.b.b1 x hx u hu
      exact ⟨k, (hoF u k x).2 hk⟩
    · intro x hx h; cases h
    · intro x hx u hu
      obtain ⟨-, rfl⟩ := hmP u x hu
      exact hi.b.b2 x hx hsid
    · intro u m hu v hv
      obtain ⟨-, rfl⟩ := hmP u m hu
      rw [hnS] at hv
      have := hown v hv
      subst this
      exact ⟨ka, (hoF v ka m).2 ha⟩
    · intro u m hu h; cases h
    · intro x hx
      rcases hi.b.d1 x hx with h | ⟨u, hu⟩ | h | ⟨u, hu1, hu2⟩
      · exact Or.inl h
      · have := (mgrTid_of_mgrPre hs.typ hu).trans htm.symm
        subst this; rw [hp] at hu; cases hu
      · exact Or.inr (Or.inr (Or.inl h))
      · by_cases hxs : x = sid
        · subst hxs
          exact Or.inr (Or.inl ⟨t, by rw [upd_pc_self]; rfl⟩)
        · refine Or.inr (Or.inr (Or.inr ⟨u, by rw [hnS]; exact hu1, ?_⟩))
          intro k y hk
          have hk' := (hoF u k y).1 hk
          have := hu2 k y hk'
          rw [hsid] at this
          cases this
          rw [hk'] at hu1
          simp only [nSid, Option.some.injEq] at hu1
          exact absurd hu1.symm hxs
  case nNew k sid =>
    have hm0 := hfresh k sid hp
    have hfl := hs.loc.flags sid
    have hfin0 : (s.sh.strm sid).fin = false := by
      cases hx : (s.sh.strm sid).fin with
      | false => rfl
      | true =>
        have h1 := hfl.2.2 (hfl.2.1 (hfl.1 hx))
        rw [hm0] at h1; cases h1
    have hfin : ∀ y, ((s.sh.setStrm sid { made := true, owner := t }).strm y).fin = (s.sh.strm y).fin := by
      intro y; rw [setStrm_strm]; split
      · subst_vars; exact hfin0.symm
      · rfl
    have hmade : ∀ y, (s.sh.strm y).made = true → ((s.sh.setStrm sid { made := true, owner := t }).strm y).made = true := by
      intro y hy; rw [setStrm_strm]; split
      · rfl
      · exact hy
    have hmade' : ∀ y, ((s.sh.setStrm sid { made := true, owner := t }).strm y).made = true → y = sid ∨ (s.sh.strm y).made = true := by
      intro y hy; rw [setStrm_strm] at hy; split at hy
      · left; assumption
      · right; exact hy
    rw [show dFin _ _ _ = [] from dFin_nil hfin, show dCon _ _ = [] from rfl, List.append_nil, List.append_nil]
    refine ⟨accT_frame hi.t rfl rfl (by rw [hp]; rfl) hfin, ?_⟩
    have hsc : sid ∉ c := by intro h; have := hi.b.a3.2 sid h; rw [hm0] at this; cases this
    have hnS : ∀ u x, nSid ((s.upd t (s.sh.setStrm sid { made := true, owner := t }) (.nEvBegin k sid)).pc u) = some x →
        (u = t ∧ x = sid) ∨ (u ≠ t ∧ nSid (s.pc u) = some x) := by
      intro u x hu
      rw [upd_pc] at hu
      split at hu
      · simp only [nSid, Option.some.injEq] at hu
        exact Or.inl ⟨by assumption, hu.symm⟩
      · exact Or.inr ⟨by assumption, hu⟩
    have hmP : ∀ u, mgrPre ((s.upd t (s.sh.setStrm sid { made := true, owner := t }) (.nEvBegin k sid)).pc u) = mgrPre (s.pc u) := by
      intro u; rw [upd_pc]; split
      · subst_vars; rw [hp]; rfl
      · rfl
    have hpre_ne : ∀ u m, mgrPre (s.pc u) = some m → m ≠ sid := by
      intro u m hu hms
      subst hms
      have hpub : (s.sh.strm m).pub = true := by
        apply hs.loc.pubAt u m
        cases hq : s.pc u <;> rw [hq] at hu <;> simp [mgrPre, mgrSid] at hu <;> first
          | (simp only [sidOf]; exact congrArg some hu)
          | (simp only [sidOf]; exact congrArg some hu.2)
          | (simp only [sidOf]; exact hu)
      have := (hs.loc.flags m).2.2 hpub
      rw [hm0] at this; cases this
    refine ⟨⟨hi.b.a3.1, fun x hx => hmade x (hi.b.a3.2 x hx)⟩, ?_, hi.b.b2, ?_, ?_, ?_, ?_, hi.b.e1⟩
    · intro x hx u hu
      rcases hnS u x hu with ⟨-, rfl⟩ | ⟨hne, hu'⟩
      · exact absurd hx hsc
      · obtain ⟨k', hk'⟩ := hi.b.b1 x hx u hu'
        exact ⟨k', by rw [upd_pc_ne _ _ _ hne]; exact hk'⟩
    · intro x hx u; rw [hmP]; exact hi.b.b3 x hx u
    · intro u m hu v hv
      rw [hmP] at hu
      rcases hnS v m hv with ⟨-, rfl⟩ | ⟨hne, hv'⟩
      · exact absurd rfl (hpre_ne u _ hu)
      · obtain ⟨k', hk'⟩ := hi.b.c1 u m hu v hv'
        exact ⟨k', by rw [upd_pc_ne _ _ _ hne]; exact hk'⟩
    · intro u m hu; rw [hmP] at hu; exact hi.b.c2 u m hu
    · intro x hx
      rcases hmade' x hx with rfl | hx'
      · refine Or.inr (Or.inr (Or.inr ⟨t, by rw [upd_pc_self]; rfl, ?_⟩))
        intro k' y hk'; rw [upd_pc_self] at hk'; cases hk'
      · rcases hi.b.d1 x hx' with h | ⟨u, hu⟩ | h | ⟨u, hu1, hu2⟩
        · exact Or.inl h
        · exact Or.inr (Or.inl ⟨u, by rw [hmP]; exact hu⟩)
        · exact Or.inr (Or.inr (Or.inl h))
        · have hut : u ≠ t := by intro h; subst h; rw [hp] at hu1; cases hu1
          refine Or.inr (Or.inr (Or.inr ⟨u, by rw [upd_pc_ne _ _ _ hut]; exact hu1, ?_⟩))
          intro k' y hk'
          rw [upd_pc_ne _ _ _ hut] at hk'
          exact hu2 k' y hk'
  case nOfferOffer k sid hnone =>
    rw [show dFin _ _ _ = [] from dFin_nil (by intro x; rfl), show dCon _ _ = [] from rfl, List.append_nil, List.append_nil]
    refine ⟨accT_frame hi.t rfl rfl (by rw [hp]; rfl) (fun _ => rfl), ?_⟩
    have hnSt : nSid (s.pc t) = some sid := by rw [hp]; rfl
    have hsc : sid ∉ c := by
      intro h; obtain ⟨k', hk'⟩ := hi.b.b1 sid h t hnSt; rw [hp] at hk'; cases hk'
    have hpre_ne : ∀ u m, mgrPre (s.pc u) = some m → m ≠ sid := by
      intro u m hu hms; subst hms
      obtain ⟨k', hk'⟩ := hi.b.c1 u m hu t hnSt; rw [hp] at hk'; cases hk'
    have hnS : ∀ u, nSid ((s.upd t { s.sh with streamsCh := some sid } (.nOffered k sid)).pc u) = nSid (s.pc u) := by
      intro u; rw [upd_pc]; split
      · subst_vars; rw [hp]; rfl
      · rfl
    have hmP : ∀ u, mgrPre ((s.upd t { s.sh with streamsCh := some sid } (.nOffered k sid)).pc u) = mgrPre (s.pc u) := by
      intro u; rw [upd_pc]; split
      · subst_vars; rw [hp]; rfl
      · rfl
    refine ⟨hi.b.a3, ?_, ?_, ?_, ?_, ?_, ?_, hi.b.e1⟩
    · intro x hx u hu
      rw [hnS] at hu
      have hut : u ≠ t := by intro h; subst h; rw [hnSt] at hu; cases hu; exact hsc hx
      obtain ⟨k', hk'⟩ := hi.b.b1 x hx u hu
      exact ⟨k', by rw [upd_pc_ne _ _ _ hut]; exact hk'⟩
    · intro x hx h; cases h; exact hsc hx
    · intro x hx u; rw [hmP]; exact hi.b.b3 x hx u
    · intro u m hu v hv
      rw [hmP] at hu; rw [hnS] at hv
      have hvt : v ≠ t := by intro h; subst h; rw [hnSt] at hv; cases hv; exact hpre_ne u _ hu rfl
      obtain ⟨k', hk'⟩ := hi.b.c1 u m hu v hv
      exact ⟨k', by rw [upd_pc_ne _ _ _ hvt]; exact hk'⟩
    · intro u m hu h; rw [hmP] at hu; cases h; exact hpre_ne u _ hu rfl
    · intro x hx
      rcases hi.b.d1 x hx with h | ⟨u, hu⟩ | h | ⟨u, hu1, hu2⟩
      · exact Or.inl h
      · exact Or.inr (Or.inl ⟨u, by rw [hmP]; exact hu⟩)
      · exact Or.inr (Or.inr (Or.inl h))
      · refine Or.inr (Or.inr (Or.inr ⟨u, by rw [hnS]; exact hu1, ?_⟩))
        intro k' y hk'
        rw [upd_pc] at hk'
        split at hk'
        · cases hk'; rfl
        · have := hu2 k' y hk'
          rw [hnone] at this; cases this
  case nOfferedRetract k sid hsome _ =>
    rw [show dFin _ _ _ = [] from dFin_nil (by intro x; rfl), show dCon _ _ = [] from rfl, List.append_nil, List.append_nil]
    refine ⟨accT_frame hi.t rfl rfl (by rw [hp]; rfl) (fun _ => rfl), ?_⟩
    have hnSt : nSid (s.pc t) = some sid := by rw [hp]; rfl
    have hsc : sid ∉ c := fun h => hi.b.b2 sid h hsome
    have hpre_ne : ∀ u m, mgrPre (s.pc u) = some m → m ≠ sid := by
      intro u m hu hms; subst hms; exact hi.b.c2 u m hu hsome
    have hnS : ∀ u, nSid ((s.upd t { s.sh with streamsCh := none } (.nEvRetract k sid)).pc u) = nSid (s.pc u) := by
      intro u; rw [upd_pc]; split
      · subst_vars; rw [hp]; rfl
      · rfl
    have hmP : ∀ u, mgrPre ((s.upd t { s.sh with streamsCh := none } (.nEvRetract k sid)).pc u) = mgrPre (s.pc u) := by
      intro u; rw [upd_pc]; split
      · subst_vars; rw [hp]; rfl
      · rfl
    refine ⟨hi.b.a3, ?_, ?_, ?_, ?_, ?_, ?_, hi.b.e1⟩
    · intro x hx u hu
      rw [hnS] at hu
      have hut : u ≠ t := by intro h; subst h; rw [hnSt] at hu; cases hu; exact hsc hx
      obtain ⟨k', hk'⟩ := hi.b.b1 x hx u hu
      exact ⟨k', by rw [upd_pc_ne _ _ _ hut]; exact hk'⟩
    · intro x hx h; cases h
    · intro x hx u; rw [hmP]; exact hi.b.b3 x hx u
    · intro u m hu v hv
      rw [hmP] at hu; rw [hnS] at hv
      have hvt : v ≠ t := by intro h; subst h; rw [hnSt] at hv; cases hv; exact hpre_ne u _ hu rfl
      obtain ⟨k', hk'⟩ := hi.b.c1 u m hu v hv
      exact ⟨k', by rw [upd_pc_ne _ _ _ hvt]; exact hk'⟩
    · intro u m hu h; cases h
    · intro x hx
      rcases hi.b.d1 x hx with h | ⟨u, hu⟩ | h | ⟨u, hu1, hu2⟩
      · exact Or.inl h
      · exact Or.inr (Or.inl ⟨u, by rw [hmP]; exact hu⟩)
      · exact Or.inr (Or.inr (Or.inl h))
      · refine Or.inr (Or.inr (Or.inr ⟨u, by rw [hnS]; exact hu1, ?_⟩))
        intro k' y hk'
        rw [upd_pc] at hk'
        split at hk'
        · cases hk'
        · rename_i hne
          exfalso
          have hy := hu2 k' y hk'
          rw [hsome] at hy
          cases hy
          have h1 := (hs.loc.own u sid (by rw [hk']; rfl)).2
          have h2 := (hs.loc.own t sid hnSt).2
          exact hne (h1.symm.trans h2)
  case nOfferedTaken k sid hne =>
    rw [show dFin _ _ _ = [] from dFin_nil (by intro x; rfl), show dCon _ _ = [] from rfl, List.append_nil, List.append_nil]
    refine ⟨accT_frame hi.t rfl rfl (by rw [hp]; rfl) (fun _ => rfl), ?_⟩
    have hmP : ∀ u, mgrPre ((s.upd t s.sh (.done true)).pc u) = mgrPre (s.pc u) := by
      intro u; rw [upd_pc]; split
      · subst_vars; rw [hp]; rfl
      · rfl
    have hnS : ∀ u x, nSid ((s.upd t s.sh (.done true)).pc u) = some x → u ≠ t ∧ nSid (s.pc u) = some x := by
      intro u x hu; rw [upd_pc] at hu; split at hu
      · cases hu
      · exact ⟨by assumption, hu⟩
    refine ⟨hi.b.a3, ?_, hi.b.b2, ?_, ?_, ?_, ?_, hi.b.e1⟩
    · intro x hx u hu
      obtain ⟨hut, hu'⟩ := hnS u x hu
      obtain ⟨k', hk'⟩ := hi.b.b1 x hx u hu'
      exact ⟨k', by rw [upd_pc_ne _ _ _ hut]; exact hk'⟩
    · intro x hx u; rw [hmP]; exact hi.b.b3 x hx u
    · intro u m hu v hv
      rw [hmP] at hu
      obtain ⟨hvt, hv'⟩ := hnS v m hv
      obtain ⟨k', hk'⟩ := hi.b.c1 u m hu v hv'
      exact ⟨k', by rw [upd_pc_ne _ _ _ hvt]; exact hk'⟩
    · intro u m hu; rw [hmP] at hu; exact hi.b.c2 u m hu
    · intro x hx
      rcases hi.b.d1 x hx with h | ⟨u, hu⟩ | h | ⟨u, hu1, hu2⟩
      · exact Or.inl h
      · exact Or.inr (Or.inl ⟨u, by rw [hmP]; exact hu⟩)
      · exact Or.inr (Or.inr (Or.inl h))
      · have hut : u ≠ t := by
          intro h; subst h
          exact hne (hu2 k sid hp)
        refine Or.inr (Or.inr (Or.inr ⟨u, by rw [upd_pc_ne _ _ _ hut]; exact hu1, ?_⟩))
        intro k' y hk'
        rw [upd_pc_ne _ _ _ hut] at hk'
        exact hu2 k' y hk'
  case nEvRetract k sid =>
    rw [show dFin _ _ _ = [] from dFin_nil (by intro x; rfl), show dCon _ _ = [] from rfl, List.append_nil, List.append_nil]
    refine ⟨accT_frame hi.t rfl rfl (by rw [hp]; exact tokPc_failHolding _) (fun _ => rfl), ?_⟩
    have hterm := hs.loc.retr t k sid hp
    have hmP : ∀ u, mgrPre ((s.upd t (s.sh.emit (.newRetract sid)) (failHolding k)).pc u) = mgrPre (s.pc u) := by
      intro u; rw [upd_pc]; split
      · subst_vars; rw [hp, mgrPre_failHolding]; rfl
      · rfl
    have hnS : ∀ u x, nSid ((s.upd t (s.sh.emit (.newRetract sid)) (failHolding k)).pc u) = some x → u ≠ t ∧ nSid (s.pc u) = some x := by
      intro u x hu; rw [upd_pc] at hu; split at hu
      · rw [nSid_failHolding] at hu; cases hu
      · exact ⟨by assumption, hu⟩
    refine ⟨hi.b.a3, ?_, hi.b.b2, ?_, ?_, ?_, ?_, ?_⟩
    · intro x hx u hu
      obtain ⟨hut, hu'⟩ := hnS u x hu
      obtain ⟨k', hk'⟩ := hi.b.b1 x hx u hu'
      exact ⟨k', by rw [upd_pc_ne _ _ _ hut]; exact hk'⟩
    · intro x hx u; rw [hmP]; exact hi.b.b3 x hx u
    · intro u m hu v hv
      rw [hmP] at hu
      obtain ⟨hvt, hv'⟩ := hnS v m hv
      obtain ⟨k', hk'⟩ := hi.b.c1 u m hu v hv'
      exact ⟨k', by rw [upd_pc_ne _ _ _ hvt]; exact hk'⟩
    · intro u m hu; rw [hmP] at hu; exact hi.b.c2 u m hu
    · intro x hx
      rcases hi.b.d1 x hx with h | ⟨u, hu⟩ | h | ⟨u, hu1, hu2⟩
      · exact Or.inl h
      · exact Or.inr (Or.inl ⟨u, by rw [hmP]; exact hu⟩)
      · exact Or.inr (Or.inr (Or.inl (List.mem_cons_of_mem _ h)))
      · by_cases hut : u = t
        · subst hut
          rw [hp] at hu1
          simp only [nSid, Option.some.injEq] at hu1
          subst hu1
          exact Or.inr (Or.inr (Or.inl (List.mem_cons_self ..)))
        · refine Or.inr (Or.inr (Or.inr ⟨u, by rw [upd_pc_ne _ _ _ hut]; exact hu1, ?_⟩))
          intro k' y hk'
          rw [upd_pc_ne _ _ _ hut] at hk'
          exact hu2 k' y hk'
    · intro x hx
      rcases List.mem_cons.1 hx with rfl | hx'
      · exact hterm
      · exact hi.b.e1 x hx'

theorem tokT_same_pc {s : St} {t : Tid} {sh' : Sh} :
    tokT (s.upd t sh' (s.pc t)) + s.sh.sfin.toNat + s.sh.envTok = tokT s + sh'.sfin.toNat + sh'.envTok := by
  unfold tokT
  simp only [upd_sh, upd_same_pc]
  omega

theorem accT_same {s : St} {t : Tid} {sh' : Sh} {f f' c : List Sid} (hi : AccT s f c)
    (hlen : f'.length + s.sh.sfin.toNat + s.sh.envTok = f.length + sh'.sfin.toNat + sh'.envTok)
    (ha2 : f'.Nodup ∧ ∀ x, x ∈ f' ↔ (sh'.strm x).fin = true) : AccT (s.upd t sh' (s.pc t)) f' c := by
  refine ⟨?_, ha2⟩
  have := tokT_same_pc (s := s) (t := t) (sh' := sh')
  have h1 := hi.a1
  omega

theorem accB_same {s : St} {t : Tid} {sh' : Sh} {c ab : List Sid} (hi : AccB s c ab)
    (hmade : ∀ x, (sh'.strm x).made = (s.sh.strm x).made) (hch : sh'.streamsCh = s.sh.streamsCh)
    (hterm : s.sh.term = true → sh'.term = true) : AccB (s.upd t sh' (s.pc t)) c ab :=
  accB_frame hi hmade hch hterm rfl (fun _ _ => Iff.rfl) rfl

theorem acc_etr {s s' : St} {e : Env} {f c ab : List Sid} (hi : Acc s f c ab) (h : envStep s e = some s') :
    Acc s' (f ++ envFin e) c ab := by
  cases e with
  | spawn t k =>
    simp only [envStep] at h
    split at h
    · cases h
      rename_i hg
      simp only [envFin, List.append_nil, setPc_eq_upd]
      refine acc_frame hi rfl rfl ?_ (fun _ => rfl) (fun _ => rfl) rfl (fun h => h) ?_ ?_ ?_
      · rw [hg.2]; cases k <;> rfl
      · rw [hg.2]; cases k <;> rfl
      · intro k' y; rw [hg.2]; constructor <;> intro h <;> cases k <;> cases h
      · rw [hg.2]; cases k <;> rfl
    · cases h
  | ctxCancel t =>
    simp only [envStep] at h
    cases h
    simp only [envFin, List.append_nil]
    rw [setSh_eq_upd _ _ readerTid]
    exact ⟨accT_same hi.t rfl hi.t.a2, accB_same hi.b (fun _ => rfl) rfl (fun h => h)⟩
  | arrive p =>
    simp only [envStep] at h
    split at h
    · cases h
      rename_i hg
      simp only [envFin, List.append_nil, setPc_eq_upd]
      exact acc_frame hi rfl rfl (by rw [hg]; rfl) (fun _ => rfl) (fun _ => rfl) rfl (fun h => h) (by rw [hg]; rfl)
        (by intro k y; rw [hg]; constructor <;> intro h <;> cases h) (by rw [hg]; rfl)
    · cases h
  | readErr =>
    simp only [envStep] at h
    split at h
    · cases h
      rename_i hg
      simp only [envFin, List.append_nil, setPc_eq_upd]
      exact acc_frame hi rfl rfl (by rw [hg]; rfl) (fun _ => rfl) (fun _ => rfl) rfl (fun h => h) (by rw [hg]; rfl)
        (by intro k y; rw [hg]; constructor <;> intro h <;> cases h) (by rw [hg]; rfl)
    · cases h
  | consume =>
    simp only [envStep] at h
    split at h
    · cases h
      rename_i hg
      simp only [envFin, List.append_nil, setPc_eq_upd]
      exact acc_frame hi rfl rfl (by rw [hg]; rfl) (fun _ => rfl) (fun _ => rfl) rfl (fun h => h) (by rw [hg]; rfl)
        (by intro k y; rw [hg]; constructor <;> intro h <;> cases h) (by rw [hg]; rfl)
    · cases h
  | appTerm sid =>
    simp only [envStep] at h
    split at h
    · cases h
      simp only [envFin, List.append_nil]
      rw [setSh_eq_upd _ _ readerTid]
      refine ⟨accT_same hi.t rfl ⟨hi.t.a2.1, ?_⟩, accB_same hi.b (made_setStrm_keep' rfl) rfl (fun h => h)⟩
      intro x
      rw [fin_setStrm_keep (sh := s.sh) (sid := sid) (y := { s.sh.strm sid with term := true }) rfl x]
      exact hi.t.a2.2 x
    · cases h
  | appFin sid =>
    simp only [envStep] at h
    split at h
    · cases h
      rename_i hg
      have hfin0 : (s.sh.strm sid).fin = false := by simpa using hg.2.2
      have hsf : sid ∉ f := by intro h; have := (hi.t.a2.2 sid).1 h; rw [hfin0] at this; cases this
      simp only [envFin]
      rw [setSh_eq_upd _ _ readerTid]
      refine ⟨accT_same hi.t ?_ ⟨nodup_snoc hi.t.a2.1 hsf, ?_⟩,
        accB_same hi.b (fun x => made_setStrm_keep' (sh := s.sh) (sid := sid) (y := { s.sh.strm sid with fin := true }) rfl x)
          rfl (fun h => h)⟩
      · show (f ++ [sid]).length + s.sh.sfin.toNat + s.sh.envTok = f.length + s.sh.sfin.toNat + (s.sh.envTok + 1)
        simp only [List.length_append, List.length_singleton]
        omega
      · intro x
        have := fin_setStrm_new (sh := s.sh) (x := sid) (y := { s.sh.strm sid with fin := true }) rfl x
        simp only [List.mem_append, List.mem_singleton]
        rw [show (({ s.sh.setStrm sid { s.sh.strm sid with fin := true } with envTok := s.sh.envTok + 1 } : Sh).strm x).fin
          = ((s.sh.setStrm sid { s.sh.strm sid with fin := true }).strm x).fin from rfl, this]
        by_cases hx : x = sid
        · simp [hx]
        · simp [hx, hi.t.a2.2 x]
    · cases h
  | tokSend =>
    simp only [envStep] at h
    split at h
    · cases h
      rename_i hg
      have h0 : s.sh.sfin = false := by simpa using hg.2
      simp only [envFin, List.append_nil]
      rw [setSh_eq_upd _ _ readerTid]
      refine ⟨accT_same hi.t ?_ hi.t.a2, accB_same hi.b (fun _ => rfl) rfl (fun h => h)⟩
      show f.length + s.sh.sfin.toNat + s.sh.envTok = f.length + 1 + (s.sh.envTok - 1)
      have h2 := hg.1
      rw [h0, Bool.toNat_false]
      omega
    · cases h

theorem acc_init (soft : Bool) : Acc { sh := { soft := soft } } [] [] [] := by
  have hp := fun t => (show (({ sh := { soft := soft } } : St).pc t) = (if t = 0 then PC.rTop else if t = 1 then .mTop else .idle) from rfl)
  have hn : ∀ t, nSid (({ sh := { soft := soft } } : St).pc t) = none := by
    intro t; rw [hp]; split
    · rfl
    · split <;> rfl
  have hm : ∀ t, mgrPre (({ sh := { soft := soft } } : St).pc t) = none := by
    intro t; rw [hp]; split
    · rfl
    · split <;> rfl
  refine ⟨⟨rfl, List.nodup_nil, ?_⟩, ⟨List.nodup_nil, ?_⟩, ?_, ?_, ?_, ?_, ?_, ?_, ?_⟩
  · intro x; simp
  · intro x h; cases h
  · intro x h; cases h
  · intro x h; cases h
  · intro x h; cases h
  · intro t m h; rw [hm] at h; cases h
  · intro t m h; rw [hm] at h; cases h
  · intro x h; cases h
  · intro x h; cases h

theorem acc_reachG {E : St → Env → Prop} {soft : Bool} {s : St} {f c ab : List Sid} (h : ReachG E soft s f c ab) :
    Acc s f c ab := by
  induction h with
  | init => exact acc_init soft
  | @step s0 s1 f0 c0 ab0 t ch hr hs hf ih =>
    have hF := hr.reachF
    obtain ⟨sh', p', htr, rfl⟩ := step_tr hs
    have h' := acc_tr (safe_reachF hF) (safe_reachF (.step t ch hF hs hf)) ih rfl hf htr
    simpa using h'
  | env e _ hs _ _ ih => exact acc_etr ih hs

end Drpc.Manager.Sys
