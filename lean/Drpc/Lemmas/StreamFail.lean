import Drpc.Lemmas.StreamInvWire
/-
  Failing transport writes in the atomic-step stream model (C05): what the caller is told, what
  happens to the frames, and the invariant that on the wire every message is whole, cut short at
  the end, or absent — never with a hole, a duplicate or a reordering.
-/
namespace Drpc.Stream
attribute [local simp] firstSec flushSec getInflight getOnce relSh Option.join_eq_some_iff Option.join_eq_none_iff
  inflightFrames

/-! ### while a transport write is in flight the writer's buffer is empty -/

theorem step_inflightBuf {s s' : St} {t : Tid} (h : step s t = some s')
    (hw : LockInv (·.w) holdsW s) (hi : LockInv getInflight inWriting s)
    (ih : s.sh.inflight.isSome = true → s.sh.wbuf = []) :
    s'.sh.inflight.isSome = true → s'.sh.wbuf = [] := by
  have hfree := inflight_free hw hi (t := t)
  unfold step at h
  pc_cases s t hp =>
    rw [hp] at hfree
    step_explode h hp
    all_goals (simp at hfree)
    all_goals (simp (config := { contextual := true }) [*])
    all_goals (first | done | simp_all)

theorem env_inflightBuf {s s' : St} {e : Env} (h : envStep s e = some s')
    (ih : s.sh.inflight.isSome = true → s.sh.wbuf = []) :
    s'.sh.inflight.isSome = true → s'.sh.wbuf = [] := by
  env_cases h with t hp hi => first | (simp; done) | simpa using ih

theorem reach_inflightBuf {s : St} (h : Reach s) : s.sh.inflight.isSome = true → s.sh.wbuf = [] := by
  induction h with
  | init o => simp
  | step hr hs ih => exact step_inflightBuf hs (reach_locks hr).w (reach_locks hr).inflight ih
  | env _ he ih => exact env_inflightBuf he ih
  | spawn _ _ ih => simpa using ih

/-! ### the result a thread is about to return -/

def K.ret? : K → Option Ret | .ret r => some r | _ => none

/-- the result the call will return, once it is fixed: from the end of the write section
    (`ret`, `unlockW` of a section that is not MsgRecv's inner flush) through `checkFinished` -/
def retOf : PC → Option Ret
  | .ret sec r | .unlockW sec r => if sec.recvAfter.isNone then some r else none
  | .cf1 k | .cf2 k | .cf3 k | .cfEnd k => k.ret?
  | _ => none

gen_ctor_simp K.ret?
gen_ctor_simp retOf

/-- a fixed result stays fixed along the thread's own steps and is what the call returns -/
theorem retOf_step {s s' : St} {t : Tid} {r : Ret} (h0 : retOf (s.pc t) = some r) (h : step s t = some s') :
    retOf (s'.pc t) = some r ∨ s'.pc t = .done r := by
  unfold step at h
  cases hp : s.pc t <;> rw [hp] at h h0 <;> simp at h0
  case ret sec r' =>
    simp only [stepPC] at h; cases h; simp [h0]
  case unlockW sec r' =>
    simp only [stepPC] at h
    obtain ⟨h1, rfl⟩ := h0
    have : sec.recvAfter = none := by simpa using h1
    simp only [this] at h
    cases h; simp
  case cf1 k =>
    cases k <;> simp at h0
    subst h0
    simp only [stepPC] at h; split at h <;> (cases h; simp)
  case cf2 k =>
    cases k <;> simp at h0
    subst h0
    simp only [stepPC] at h; split at h <;> (cases h; simp)
  case cf3 k =>
    cases k <;> simp at h0
    subst h0
    simp only [stepPC] at h; split at h <;> (cases h; simp)
  case cfEnd k =>
    cases k <;> simp at h0
    subst h0
    simp only [stepPC] at h; cases h; simp

/-- … and the thread is never blocked on the way -/
theorem retOf_enabled {s : St} {t : Tid} {r : Ret} (h0 : retOf (s.pc t) = some r) : (step s t).isSome = true := by
  unfold step
  cases hp : s.pc t <;> rw [hp] at h0 <;> simp at h0
  all_goals (simp only [stepPC]; try split)
  all_goals (first | rfl | (rename_i k; cases k <;> simp at h0 <;> rfl))

/-- environment events do not touch a thread whose result is fixed -/
theorem retOf_env {s s' : St} {e : Env} {t : Tid} {r : Ret} (h0 : retOf (s.pc t) = some r)
    (he : envStep s e = some s') : s'.pc t = s.pc t := by
  have key : ∀ (t0 : Tid) (sh' : Sh) (p' : PC), retOf (s.pc t0) = none → (s.upd t0 sh' p').pc t = s.pc t := by
    intro t0 sh' p' hn
    by_cases ht : t = t0
    · subst ht; rw [hn] at h0; cases h0
    · exact upd_pc_ne _ _ _ _ _ ht
  refine envStep_elim he ?_ ?_ ?_ ?_ ?_
  · intro t0 frs sec ff err r' hi hp; exact key _ _ _ (by simp [hp])
  · intro t0 frs sec hi hp hfr; exact key _ _ _ (by simp [hp])
  · intro t0 frs sec hi hp hfr; exact key _ _ _ (by simp [hp])
  · intro t0 d sec hp; exact key _ _ _ (by simp [hp])
  · intro t0 d m hp hm; exact key _ _ _ (by simp [hp])

/-! ### a failing transport write -/

/-- what the caller is told about a transport error `tag`: the cancel error if the stream has been
    cancelled (`checkCancelError`), else the transport's error -/
def reported (sh : Sh) (tag : Nat) : Ret := cancelWrap sh (.err (.transport tag))

theorem reported_ne_nil (sh : Sh) (tag : Nat) : reported sh tag ≠ .nil := by
  unfold reported cancelWrap; split <;> simp

theorem reported_eq (sh : Sh) (tag : Nat) :
    reported sh tag = match sh.cancel with | some e => .err e | none => .err (.transport tag) := rfl

/-- the completion of the transport write in flight with an error -/
theorem release_err {s s' : St} {tag : Nat} (he : envStep s (.release (some tag)) = some s') :
    ∃ t frs sec ff, s.sh.inflight = some (t, frs) ∧ s.pc t = .writing sec ff ∧
      s' = s.upd t (relSh s.sh frs (some tag)) (.ret sec (reported s.sh tag)) := by
  unfold envStep at he
  simp only at he
  split at he
  · cases he
  · rename_i t frs hi
    split at he
    · rename_i sec ff hp
      refine ⟨t, frs, sec, ff, hi, hp, ?_⟩
      split at he <;> (cases he; rfl)
    · cases he

/-- the completion of the transport write in flight without error -/
theorem release_ok {s s' : St} (he : envStep s (.release none) = some s') :
    ∃ t frs, s.sh.inflight = some (t, frs) ∧ s'.sh = relSh s.sh frs none := by
  unfold envStep at he
  simp only at he
  split at he
  · cases he
  · rename_i t frs hi
    refine ⟨t, frs, hi, ?_⟩
    split at he
    · split at he
      · cases he; rfl
      · cases he; rfl
    · cases he

/-! ### what can still reach the transport -/

/-- the frames on the wire or still able to get there: completed writes, the write in flight, the
    writer's buffer -/
def live (sh : Sh) : List Frame := sh.wire.flatten ++ inflightFrames sh ++ sh.wbuf

/-- the three ways a step of a thread can touch the writer's frames and the message id -/
theorem step_shape {s s' : St} {t : Tid} (h : step s t = some s') (l : Locks s) :
    (live s'.sh = live s.sh ∧ s'.sh.hist = s.sh.hist ∧ s'.sh.mid = s.sh.mid ∧ s'.sh.midN = s.sh.midN ∧
      (pend (s'.pc t) ≠ [] → pend (s.pc t) ≠ [])) ∨
    (live s'.sh = live s.sh ∧ s'.sh.hist = s.sh.hist ∧ s'.sh.mid = s.sh.mid + 1#64 ∧
      s'.sh.midN = s.sh.midN + 1) ∨
    (∃ fr, fr ∈ pend (s.pc t) ∧ live s'.sh = live s.sh ++ [fr] ∧ s'.sh.hist = s.sh.hist ++ [fr] ∧
      s'.sh.mid = s.sh.mid ∧ s'.sh.midN = s.sh.midN) := by
  have hfree := inflight_free l.w l.inflight (t := t)
  unfold step at h
  pc_cases s t hp =>
    rw [hp] at hfree
    step_explode h hp
    all_goals (simp at hfree)
    all_goals (simp [live, *])

theorem pend_keep {s : St} {t : Tid} {sh' : Sh} {p' : PC} (hp' : pend p' ≠ [] → pend (s.pc t) ≠ []) :
    ∀ u, pend ((s.upd t sh' p').pc u) ≠ [] → pend (s.pc u) ≠ [] := by
  intro u
  by_cases hu : u = t
  · subst hu; rw [upd_pc_self]; exact hp'
  · rw [upd_pc_ne _ _ _ _ _ hu]; exact id

theorem live_relSh_ok (sh : Sh) (t : Tid) (frs : List Frame) (hi : sh.inflight = some (t, frs)) :
    live (relSh sh frs none) = live sh := by
  simp [live, relSh, inflightFrames, hi]

theorem live_relSh_err (sh : Sh) (t : Tid) (frs : List Frame) (tag : Nat) (hi : sh.inflight = some (t, frs)) :
    live (relSh sh frs (some tag)) ++ frs = live sh ∨ sh.wbuf ≠ [] := by
  by_cases hb : sh.wbuf = []
  · left; simp [live, relSh, inflightFrames, hi, hb]
  · exact .inr hb

/-- the two ways an environment event can touch them: not at all (a successful completion moves
    the frames in flight to the wire), or — a failed write — by dropping the frames in flight, which
    are the tail of `live` -/
theorem env_shape {s s' : St} {e : Env} (h : envStep s e = some s') (l : Locks s)
    (hb : s.sh.inflight.isSome = true → s.sh.wbuf = []) :
    s'.sh.hist = s.sh.hist ∧ s'.sh.mid = s.sh.mid ∧ s'.sh.midN = s.sh.midN ∧
    ((live s'.sh = live s.sh ∧ ∀ u, pend (s'.pc u) ≠ [] → pend (s.pc u) ≠ []) ∨
     (live s'.sh <+: live s.sh ∧ ∀ u, pend (s'.pc u) = [])) := by
  refine envStep_elim h ?_ ?_ ?_ ?_ ?_
  · intro t frs sec ff err r hi hp
    refine ⟨by simp [relSh], by simp [relSh], by simp [relSh], ?_⟩
    cases err with
    | none =>
      left
      rw [upd_sh]
      exact ⟨live_relSh_ok _ t frs hi, pend_keep (by simp)⟩
    | some tag =>
      right
      rw [upd_sh]
      constructor
      · rcases live_relSh_err s.sh t frs tag hi with h1 | h1
        · exact ⟨frs, h1⟩
        · exact absurd (hb (by simp [hi])) h1
      · intro u
        by_cases hu : u = t
        · subst hu; simp
        · rw [upd_pc_ne _ _ _ _ _ hu]
          have hw : holdsW (s.pc t) = true := by simp [hp]
          exact pend_nil_of_not_holdsW _ (l.w.others hw u hu)
  · intro t frs sec hi hp hfr
    refine ⟨by simp [relSh], by simp [relSh], by simp [relSh], .inl ?_⟩
    rw [upd_sh]
    exact ⟨live_relSh_ok _ t frs hi, pend_keep (by simp)⟩
  · intro t frs sec hi hp hfr
    refine ⟨by simp [relSh], by simp [relSh], by simp [relSh], .inl ?_⟩
    rw [upd_sh]
    exact ⟨live_relSh_ok _ t frs hi, pend_keep (by simp [hp])⟩
  · intro t d sec hp
    exact ⟨by simp, by simp, by simp, .inl ⟨by simp, pend_keep (by simp)⟩⟩
  · intro t d m hp hm
    exact ⟨by simp, by simp, by simp, .inl ⟨by simp, pend_keep (by simp)⟩⟩

/-! ### on the wire every message is whole, cut short, or absent -/

def midIs (m : U64) (f : Frame) : Bool := f.mid == m

/-- * `pre`: for every message id, the frames still able to reach the wire are an initial segment
      of the frames appended for that message;
    * `cur`: while a write section still has frames to append, nothing of its message has been
      dropped (a failed transport write ends the section). -/
structure Whole (s : St) : Prop where
  pre : ∀ m, (live s.sh).filter (midIs m) <+: s.sh.hist.filter (midIs m)
  cur : (∃ u, pend (s.pc u) ≠ []) → (live s.sh).filter (midIs s.sh.mid) = s.sh.hist.filter (midIs s.sh.mid)

theorem Whole.init (o : Opts) : Whole { opts := o } := by
  constructor
  · intro m; simp [live, inflightFrames]
  · rintro ⟨u, hu⟩; simp at hu

theorem filter_midIs_singleton (m : U64) (fr : Frame) :
    [fr].filter (midIs m) = if fr.mid = m then [fr] else [] := by
  simp [List.filter, midIs]
  split <;> simp_all

theorem Whole.step {s s' : St} {t : Tid} (h : step s t = some s') (l : Locks s) (w : Wire s)
    (hnw : s'.sh.midN < 2^64) (i : Whole s) : Whole s' := by
  rcases step_shape h l with ⟨h1, h2, h3, h4, h5⟩ | ⟨h1, h2, h3, h4⟩ | ⟨fr, hfr, h1, h2, h3, h4⟩
  · constructor
    · rw [h1, h2]; exact i.pre
    · rintro ⟨u, hu⟩
      rw [h1, h2, h3]
      apply i.cur
      by_cases hut : u = t
      · subst hut; exact ⟨u, h5 hu⟩
      · rw [step_pc_other hut h] at hu; exact ⟨u, hu⟩
  · have hnw0 : s.sh.midN + 1 < 2^64 := h4 ▸ hnw
    have hempty : s.sh.hist.filter (midIs (s.sh.mid + 1#64)) = [] := by
      rw [List.filter_eq_nil_iff]
      intro f hf hm
      have hle := w.histLe (by omega) f hf
      simp only [midIs, beq_iff_eq] at hm
      rw [hm, w.midEq, ← BitVec.ofNat_add, ofNat_toNat_of_lt hnw0] at hle
      omega
    constructor
    · rw [h1, h2]; exact i.pre
    · intro _
      rw [h1, h2, h3, hempty]
      have := i.pre (s.sh.mid + 1#64)
      rw [hempty] at this
      exact List.prefix_nil.mp this
  · have hmid : fr.mid = s.sh.mid := w.pendMid t fr hfr
    have hQ := i.cur ⟨t, List.ne_nil_of_mem hfr⟩
    constructor
    · intro m
      rw [h1, h2, List.filter_append, List.filter_append, filter_midIs_singleton]
      by_cases hm : fr.mid = m
      · rw [if_pos hm, ← hm, hmid, hQ]; exact List.prefix_refl _
      · rw [if_neg hm, List.append_nil, List.append_nil]; exact i.pre m
    · intro _
      rw [h1, h2, h3, List.filter_append, List.filter_append, hQ]

theorem Whole.env {s s' : St} {e : Env} (h : envStep s e = some s') (l : Locks s)
    (hb : s.sh.inflight.isSome = true → s.sh.wbuf = []) (i : Whole s) : Whole s' := by
  obtain ⟨h2, h3, _, h5⟩ := env_shape h l hb
  rcases h5 with ⟨h1, hp⟩ | ⟨h1, hp⟩
  · constructor
    · rw [h1, h2]; exact i.pre
    · rintro ⟨u, hu⟩
      rw [h1, h2, h3]
      exact i.cur ⟨u, hp u hu⟩
  · constructor
    · intro m
      rw [h2]
      exact (h1.filter _).trans (i.pre m)
    · rintro ⟨u, hu⟩
      exact absurd (hp u) hu

theorem Whole.spawn {s : St} {t : Tid} {c : Call} (hd : ∃ r, s.pc t = .done r) (i : Whole s) :
    Whole (s.setPc t (.start c)) := by
  obtain ⟨r, hp⟩ := hd
  rw [setPc_eq_upd]
  constructor
  · simpa using i.pre
  · rintro ⟨u, hu⟩
    simp only [upd_sh]
    apply i.cur
    exact ⟨u, pend_keep (p' := .start c) (sh' := s.sh) (by simp) u hu⟩

/-- as long as the 64-bit message counter has not wrapped -/
theorem reach_whole {s : St} (h : Reach s) : s.sh.midN < 2^64 → Whole s := by
  induction h with
  | init o => intro _; exact Whole.init o
  | step hr hs ih =>
    intro hnw
    exact (ih (Nat.lt_of_le_of_lt (step_midN_le hs) hnw)).step hs (reach_locks hr) (reach_wire hr) hnw
  | env hr he ih =>
    intro hnw
    rw [(env_mid he).2.1] at hnw
    exact (ih hnw).env he (reach_locks hr) (reach_inflightBuf hr)
  | spawn _ hd ih =>
    intro hnw
    exact (ih (by simpa using hnw)).spawn hd

/-! ### the wire only grows by successful writes -/

theorem step_wire_same {s s' : St} {t : Tid} (h : step s t = some s') : s'.sh.wire = s.sh.wire := by
  unfold step at h
  pc_cases s t hp =>
    step_explode h hp
    all_goals simp

theorem env_wire {s s' : St} {e : Env} (h : envStep s e = some s') :
    s'.sh.wire = s.sh.wire ∨
    (e = .release none ∧ ∃ t frs, s.sh.inflight = some (t, frs) ∧ s'.sh.wire = s.sh.wire ++ [frs]) := by
  cases e with
  | release err =>
    cases err with
    | none =>
      obtain ⟨t, frs, hi, hs⟩ := release_ok h
      exact .inr ⟨rfl, t, frs, hi, by rw [hs]; simp [relSh]⟩
    | some tag =>
      obtain ⟨t, frs, sec, ff, _, _, rfl⟩ := release_err h
      left; simp [relSh]
  | marshalDone t =>
    left
    simp only [envStep] at h
    split at h
    · cases h; rfl
    · cases h
  | unmarshalDone t =>
    left
    simp only [envStep] at h
    split at h
    · split at h
      · cases h; rfl
      · cases h
    · cases h

/-! ### a concrete run: the second transport write of a two-frame message fails -/

namespace FailEx

def f1 : Frame := ⟨[1#8], 1, 1, 2, false, false⟩
def f2 : Frame := ⟨[2#8], 1, 1, 2, true, false⟩

theorem fo_frames : framesOf { splitSize := 1, wsize := 0, sid := 1#64 } 1#64 2#8 [1#8, 2#8] = [f1, f2] := by
  simp [framesOf, splitSize, f1, f2]
  rw [splitFrames]; simp
  rw [splitFrames]; simp

macro "run" : tactic => `(tactic|
  repeat (rw [runSolo_succ]; simp (config := { maxSteps := 400000 }) [step, stepPC, afterTerm, flushSec, kindMessage, fo_frames, bufBytes]))

def e0 : St := { opts := { splitSize := 1, wsize := 0 } }
def rec1 : Started := ⟨1, 2, [1#8, 2#8], [f1, f2], .msgSend [1#8, 2#8]⟩
def secA : WSec := { frames := [f2], checks := true, flush := .checked, recvAfter := none }
def secB : WSec := { frames := [], checks := true, flush := .checked, recvAfter := none }
/-- `MsgSend [1,2]` with split size 1 and writer threshold 0: parked in the transport write of frame 1 -/
def e1 : St := e0.upd 0 { w := some 0, wHeld := true, once := some none, mid := 1, wFlag := true, inflight := some (0, [f1]), hist := [f1], midN := 1, started := [rec1] } (.writing secA false)
/-- … that write succeeded -/
def e2 : St := e0.upd 0 { w := some 0, wHeld := true, once := some none, mid := 1, wire := [[f1]], hist := [f1], midN := 1, started := [rec1] } (.frame secA)
/-- … parked in the transport write of frame 2 -/
def e3 : St := e0.upd 0 { w := some 0, wHeld := true, once := some none, mid := 1, wFlag := true, inflight := some (0, [f2]), wire := [[f1]], hist := [f1, f2], midN := 1, started := [rec1] } (.writing secB false)
/-- … that write failed with error 9 -/
def e4 : St := e0.upd 0 { w := some 0, wHeld := true, once := some none, mid := 1, wire := [[f1]], hist := [f1, f2], midN := 1, failed := true, started := [rec1] } (.ret secB (.err (.transport 9)))
/-- … and MsgSend has returned the transport's error -/
def e5 : St := e0.upd 0 { once := some none, mid := 1, wire := [[f1]], hist := [f1, f2], midN := 1, failed := true, started := [rec1], sendRets := [(0, 1, .err (.transport 9), true)] } (.done (.err (.transport 9)))

theorem e01 : call e0 0 (.msgSend [1#8, 2#8]) = e1 := by
  unfold e1 e0 call secA rec1; run
theorem e12 : envStep e1 (.release none) = some e2 := by
  simp [envStep, e1, e2, secA]
theorem e23 : runSolo 64 e2 0 = e3 := by
  unfold e2 e3 e0 secA secB; run
theorem e34 : envStep e3 (.release (some 9)) = some e4 := by
  simp [envStep, e3, e4, secB, cancelWrap]
theorem e45 : runSolo 64 e4 0 = e5 := by
  unfold e4 e5 e0 secB; run


end FailEx

end Drpc.Stream
