import Drpc.Lemmas.Signal
/- Consequences of the Signal invariant that need the reachability relation: existence of the winner,
   monotonicity of the error-set bit, executable schedules. -/
namespace Drpc.Signal

/-- a step of `t` changes only `t`'s program counter -/
theorem step_pc_other (s s' : State) (t u : Tid) (hs : step s t = some s') (hu : u ≠ t) : s'.pc u = s.pc u := by
  unfold step at hs
  split at hs
  all_goals (try unfold closeCh at hs)
  all_goals (repeat' split at hs)
  all_goals (try (simp only [Option.some.injEq, reduceCtorEq] at hs))
  all_goals (try subst hs)
  all_goals (simp [State.setPc, hu])

theorem past_step (s s' : State) (t : Tid) (h : Inv s) (hs : step s t = some s')
    (hp : pastStore (s.pc t) = true) : pastStore (s'.pc t) = true := by
  have hc := h.closing t
  unfold step at hs
  split at hs
  all_goals (try unfold closeCh at hs)
  all_goals (repeat' split at hs)
  all_goals (try (simp only [Option.some.injEq, reduceCtorEq] at hs))
  all_goals (try subst hs)
  all_goals (simp_all [State.setPc, pastStore, isClosing, chOpenFresh])

theorem errSet_rise (s s' : State) (t : Tid) (h : Inv s) (hs : step s t = some s')
    (h0 : s.errSet = false) (h1 : s'.errSet = true) : pastStore (s'.pc t) = true := by
  have he := h.esA t
  have hst := h.status
  unfold step at hs
  split at hs
  all_goals (try unfold closeCh at hs)
  all_goals (repeat' split at hs)
  all_goals (try (simp only [Option.some.injEq, reduceCtorEq] at hs))
  all_goals (try subst hs)
  all_goals (simp_all [State.setPc, pastStore, esOf])

theorem errSet_mono (s s' : State) (t : Tid) (h : Inv s) (hs : step s t = some s')
    (h0 : s.errSet = true) : s'.errSet = true := by
  have he := h.esA t
  unfold step at hs
  split at hs
  all_goals (try unfold closeCh at hs)
  all_goals (repeat' split at hs)
  all_goals (try (simp only [Option.some.injEq, reduceCtorEq] at hs))
  all_goals (try subst hs)
  all_goals (simp_all [State.setPc, esOf])

/-- once the error is set some thread is (or was) the winner -/
theorem ex_winner (s : State) (h : Reach s) : s.errSet = true → ∃ w, pastStore (s.pc w) = true := by
  induction h with
  | init => simp [init]
  | call s t c hr hi ih =>
    intro he
    obtain ⟨w, hw⟩ := ih he
    refine ⟨w, ?_⟩
    have : w ≠ t := by intro h; subst h; simp [hi, pastStore] at hw
    simp [State.setPc, this, hw]
  | step s s' t hr hs ih =>
    intro he'
    have hinv := reach_inv s hr
    by_cases he : s.errSet = true
    · obtain ⟨w, hw⟩ := ih he
      by_cases hwt : w = t
      · subst hwt; exact ⟨w, past_step s s' w hinv hs hw⟩
      · exact ⟨w, by rw [step_pc_other s s' t w hs hwt]; exact hw⟩
    · exact ⟨t, errSet_rise s s' t hinv hs (by simpa using he) he'⟩

theorem reach_exec (s : State) (h : Reach s) (as : List Act) : Reach (exec s as) := by
  induction as generalizing s with
  | nil => exact h
  | cons a as ih =>
    cases a with
    | call t c =>
      simp only [exec]
      split
      · exact ih _ (Reach.call s t c h (by assumption))
      · exact ih _ h
    | step t =>
      simp only [exec]
      split
      · exact ih _ (Reach.step s _ t h (by assumption))
      · exact ih _ h

theorem reach_steps (s s' : State) (h : Reach s) (hs : Steps s s') : Reach s' := by
  induction hs with
  | refl => exact h
  | call s' t c _ hi ih => exact Reach.call s' t c ih hi
  | step s' s'' t _ hst ih => exact Reach.step s' s'' t ih hst

theorem errSet_steps (s s' : State) (h : Reach s) (hs : Steps s s') : s.errSet = true → s'.errSet = true := by
  induction hs with
  | refl => exact id
  | call s' t c _ hi ih => intro he; simpa [State.setPc] using ih he
  | step s' s'' t hss hst ih =>
    intro he
    exact errSet_mono s' s'' t (reach_inv s' (reach_steps s s' h hss)) hst (ih he)

/-! relations between classifiers used by the property theorems -/

theorem pastStore_wErr (p : PC) : pastStore p = true → ∃ e, wErr p = some e := by
  cases p <;> simp [pastStore, wErr] <;> (intro h; simp [h])


theorem writesErr_pre (p : PC) : writesErr p = true → preStore p = true := by
  cases p <;> simp [writesErr, preStore]
theorem readsErr_knows (p : PC) : readsErr p = true → knowsSet p = true := by
  cases p <;> simp [readsErr, knowsSet]
theorem writesCh_cases (p : PC) : writesCh p = true →
    holds p = true ∧ (crOf p = some false ∨ ∃ b, esOf p = some b) := by
  cases p <;> simp [writesCh, holds, crOf, esOf]
theorem readsCh_cases (p : PC) : readsCh p = true → knowsCh p = true ∨ holds p = true := by
  cases p <;> simp [readsCh, knowsCh, holds]
theorem storesStatus_holds (p : PC) : storesStatus p = true → holds p = true := by
  cases p <;> simp [storesStatus, holds]
theorem readsStatusPlain_holds (p : PC) : readsStatusPlain p = true → holds p = true := by
  cases p <;> simp [readsStatusPlain, holds]


end Drpc.Signal
