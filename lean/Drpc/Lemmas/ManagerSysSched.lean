import Drpc.Lemmas.ManagerSysSim
/-
  Running a concrete schedule of the manager model (for examples and counterexamples).
-/
namespace Drpc.Manager.Sys
open Drpc.Manager

/-- one move of a schedule: thread `t` steps with choice `ch`, or the environment acts -/
inductive Mv where
  | st (t : Tid) (ch : Nat)
  | en (e : Env)
deriving Repr

def runSched (s : St) : List Mv → Option St
  | [] => some s
  | .st t ch :: l => (step s t ch).bind fun s' => runSched s' l
  | .en e :: l => (envStep s e).bind fun s' => runSched s' l

theorem reach_runSched {soft : Bool} {l : List Mv} {s s' : St} (h : Reach soft s) (hr : runSched s l = some s') :
    Reach soft s' := by
  induction l generalizing s with
  | nil => simp only [runSched, Option.some.injEq] at hr; subst hr; exact h
  | cons m l ih =>
    cases m with
    | st t ch =>
      simp only [runSched] at hr
      cases hs : step s t ch with
      | none => rw [hs] at hr; cases hr
      | some s1 => rw [hs] at hr; exact ih (.step t ch h hs) hr
    | en e =>
      simp only [runSched] at hr
      cases hs : envStep s e with
      | none => rw [hs] at hr; cases hr
      | some s1 => rw [hs] at hr; exact ih (.env e h hs) hr

instance (role : Call) (s : St) (e : Env) : Decidable (EnvP role s e) := by
  cases e <;> simp only [EnvP] <;> infer_instance

/-- the thread is not about to choose in `acquireSemaphore`'s select -/
def notSel (s : St) (t : Tid) : Bool :=
  match s.pc t with
  | .aSel _ => false
  | _ => true

/-- the same with the side conditions of `ReachP` checked: thread steps other than the select of
    `acquireSemaphore`, and environment moves allowed by `EnvP` -/
def runSchedP (role : Call) (s : St) : List Mv → Option St
  | [] => some s
  | .st t ch :: l => if notSel s t then (step s t ch).bind fun s' => runSchedP role s' l else none
  | .en e :: l => if EnvP role s e then (envStep s e).bind fun s' => runSchedP role s' l else none

theorem reachP_runSchedP {soft : Bool} {role : Call} {l : List Mv} {s s' : St} (h : ReachP soft role s)
    (hr : runSchedP role s l = some s') : ReachP soft role s' := by
  induction l generalizing s with
  | nil => simp only [runSchedP, Option.some.injEq] at hr; subst hr; exact h
  | cons m l ih =>
    cases m with
    | st t ch =>
      simp only [runSchedP] at hr
      split at hr
      · rename_i hn
        cases hs : step s t ch with
        | none => rw [hs] at hr; cases hr
        | some s1 =>
          rw [hs] at hr
          refine ih (.step t ch h hs ?_) hr
          intro c hc
          unfold notSel at hn
          rw [hc] at hn
          cases hn
      · cases hr
    | en e =>
      simp only [runSchedP] at hr
      split at hr
      · rename_i hn
        cases hs : envStep s e with
        | none => rw [hs] at hr; cases hr
        | some s1 => rw [hs] at hr; exact ih (.env e h hs hn) hr
      · cases hr

/-! ### schedules checked for fresh stream ids (`ReachF`) -/

def freshOK (s : St) (t : Tid) : Bool :=
  match s.pc t with
  | .nNew _ sid => !(s.sh.strm sid).made
  | _ => true

def envFOK : Env → Bool
  | .arrive p => p.sid != 0
  | _ => true

def runSchedF (s : St) : List Mv → Option St
  | [] => some s
  | .st t ch :: l => if freshOK s t then (step s t ch).bind fun s' => runSchedF s' l else none
  | .en e :: l => if envFOK e then (envStep s e).bind fun s' => runSchedF s' l else none

theorem reachF_runSchedF {soft : Bool} {l : List Mv} {s s' : St} (h : ReachF soft s)
    (hr : runSchedF s l = some s') : ReachF soft s' := by
  induction l generalizing s with
  | nil => simp only [runSchedF, Option.some.injEq] at hr; subst hr; exact h
  | cons m l ih =>
    cases m with
    | st t ch =>
      simp only [runSchedF] at hr
      split at hr
      · rename_i hn
        cases hs : step s t ch with
        | none => rw [hs] at hr; cases hr
        | some s1 =>
          rw [hs] at hr
          refine ih (.step t ch h hs ?_) hr
          intro c sid hc
          unfold freshOK at hn
          rw [hc] at hn
          simpa using hn
      · cases hr
    | en e =>
      simp only [runSchedF] at hr
      split at hr
      · rename_i hn
        cases hs : envStep s e with
        | none => rw [hs] at hr; cases hr
        | some s1 =>
          rw [hs] at hr
          refine ih (.env e h hs ?_) hr
          intro p hp
          subst hp
          simpa [envFOK] using hn
      · cases hr

/-- thread ids the schedule starts calls on -/
def spawnBound : List Mv → Nat
  | [] => 0
  | .en (.spawn t _) :: l => max (t + 1) (spawnBound l)
  | _ :: l => spawnBound l

theorem env_pc_other {s s1 : St} {e : Env} (h : envStep s e = some s1) (hne : ∀ t' c, e ≠ .spawn t' c) :
    ∀ t, 2 ≤ t → s1.pc t = s.pc t := by
  intro t ht
  have h0 : t ≠ readerTid := by unfold readerTid; somega
  cases e with
  | spawn t' c => exact absurd rfl (hne t' c)
  | ctxCancel u => simp only [envStep] at h; cases h; rfl
  | arrive p =>
    simp only [envStep] at h
    split at h
    · cases h; rw [setPc_eq_upd, upd_pc_ne _ _ _ h0]
    · cases h
  | readErr =>
    simp only [envStep] at h
    split at h
    · cases h; rw [setPc_eq_upd, upd_pc_ne _ _ _ h0]
    · cases h
  | appTerm sid =>
    simp only [envStep] at h
    split at h
    · cases h; rfl
    · cases h
  | appFin sid =>
    simp only [envStep] at h
    split at h
    · cases h; rfl
    · cases h
  | tokSend =>
    simp only [envStep] at h
    split at h
    · cases h; rfl
    · cases h
  | consume =>
    simp only [envStep] at h
    split at h
    · cases h; rw [setPc_eq_upd, upd_pc_ne _ _ _ h0]
    · cases h

theorem env_pc_spawn {s s1 : St} {t' : Tid} {c : Call} (h : envStep s (.spawn t' c) = some s1) :
    ∀ t, t ≠ t' → s1.pc t = s.pc t := by
  intro t ht
  simp only [envStep] at h
  split at h
  · cases h; rw [setPc_eq_upd, upd_pc_ne _ _ _ ht]
  · cases h

theorem idle_above_runF {l : List Mv} {s s' : St} {N : Nat} (hr : runSchedF s l = some s')
    (hN : ∀ t, N ≤ t → s.pc t = .idle) (h2 : 2 ≤ N) : ∀ t, max N (spawnBound l) ≤ t → s'.pc t = .idle := by
  induction l generalizing s N with
  | nil =>
    simp only [runSchedF, Option.some.injEq] at hr; subst hr
    intro t ht; exact hN t (by simp only [spawnBound] at ht; omega)
  | cons m l ih =>
    cases m with
    | st t' ch =>
      simp only [runSchedF] at hr
      split at hr
      · cases hs : step s t' ch with
        | none => rw [hs] at hr; cases hr
        | some s1 =>
          rw [hs] at hr
          obtain ⟨sh', p', htr, rfl⟩ := step_tr hs
          have hlt : t' < N := by
            apply Classical.byContradiction
            intro hge
            have := hN t' (by somega)
            rw [this] at htr
            cases htr
          have hN1 : ∀ t, N ≤ t → (s.upd t' sh' p').pc t = .idle := by
            intro t ht
            rw [upd_pc_ne _ _ _ (by somega)]; exact hN t ht
          exact ih hr hN1 h2
      · cases hr
    | en e =>
      simp only [runSchedF] at hr
      split at hr
      · cases hs : envStep s e with
        | none => rw [hs] at hr; cases hr
        | some s1 =>
          rw [hs] at hr
          cases e with
          | spawn t' c =>
            have hpc := env_pc_spawn hs
            intro t ht
            simp only [spawnBound] at ht
            have hN1 : ∀ t, max N (t' + 1) ≤ t → s1.pc t = .idle := by
              intro t ht
              rw [hpc t (by somega)]; exact hN t (by somega)
            exact ih hr hN1 (by somega) t (by somega)
          | _ =>
            have hpc := env_pc_other hs (by intro t' c h; cases h)
            have hN1 : ∀ t, N ≤ t → s1.pc t = .idle := by
              intro t ht
              rw [hpc t (by somega)]; exact hN t ht
            intro t ht
            exact ih hr hN1 h2 t (by simp only [spawnBound] at ht; exact ht)
      · cases hr

/-- the ids of the streams created along a run -/
def sidsNew (s : St) : List Mv → List Sid
  | [] => []
  | .st t ch :: l =>
    match step s t ch with
    | some s' => (match s.pc t with | .nNew _ sid => [sid] | _ => []) ++ sidsNew s' l
    | none => []
  | .en e :: l =>
    match envStep s e with
    | some s' => sidsNew s' l
    | none => []

theorem tr_made {s : St} {t : Tid} {p : PC} {sh' : Sh} {p' : PC} {x : Sid} (h : Tr s t p sh' p')
    (hm : (sh'.strm x).made = true) : (s.sh.strm x).made = true ∨ ∃ c, p = .nNew c x := by
  cases h
  all_goals first
    | exact Or.inl hm
    | (left; rw [setStrm_strm] at hm; split at hm <;> first | (subst_vars; exact hm) | exact hm)
    | skip
  case nNew c sid =>
    rw [setStrm_strm] at hm
    split at hm
    · subst_vars; exact Or.inr ⟨c, rfl⟩
    · exact Or.inl hm

theorem etr_made {s : St} {t : Tid} {sh' : Sh} {p' : PC} {x : Sid} (h : ETr s t sh' p')
    (hm : (sh'.strm x).made = true) : (s.sh.strm x).made = true := by
  cases h
  all_goals first
    | exact hm
    | (rw [setStrm_strm] at hm; split at hm <;> first | (subst_vars; exact hm) | exact hm)
    | skip

theorem made_runF {l : List Mv} {s s' : St} {x : Sid} (hr : runSchedF s l = some s')
    (hm : (s'.sh.strm x).made = true) : (s.sh.strm x).made = true ∨ x ∈ sidsNew s l := by
  induction l generalizing s with
  | nil => simp only [runSchedF, Option.some.injEq] at hr; subst hr; exact Or.inl hm
  | cons m l ih =>
    cases m with
    | st t ch =>
      simp only [runSchedF] at hr
      split at hr
      · cases hs : step s t ch with
        | none => rw [hs] at hr; cases hr
        | some s1 =>
          rw [hs] at hr
          simp only [sidsNew, hs]
          rcases ih hr with h | h
          · obtain ⟨sh', p', htr, rfl⟩ := step_tr hs
            rcases tr_made htr h with h' | ⟨c, hc⟩
            · exact Or.inl h'
            · right; rw [hc]; simp
          · right; simp [h]
      · cases hr
    | en e =>
      simp only [runSchedF] at hr
      split at hr
      · cases hs : envStep s e with
        | none => rw [hs] at hr; cases hr
        | some s1 =>
          rw [hs] at hr
          simp only [sidsNew, hs]
          rcases ih hr with h | h
          · obtain ⟨t', sh', p', htr, rfl⟩ := env_tr hs
            exact Or.inl (etr_made htr h)
          · exact Or.inr h
      · cases hr

theorem init_idle (soft : Bool) : ∀ t, 2 ≤ t → (({ sh := { soft := soft } } : St).pc t) = .idle := by
  intro t ht
  show (if t = 0 then PC.rTop else if t = 1 then .mTop else .idle) = .idle
  rw [if_neg (by somega), if_neg (by somega)]

end Drpc.Manager.Sys
