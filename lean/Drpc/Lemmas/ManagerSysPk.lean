import Drpc.Lemmas.ManagerSysSem
/-
  The invoke-packet hand-off reader → NewServerStream (`m.pkts`, unbuffered) and its acknowledgement
  (`m.pdone`, capacity 1): `Pk s`.
-/
set_option linter.unusedSimpArgs false
namespace Drpc.Manager.Sys
open Drpc.Manager

/-- the reader has handed a packet over and not yet received the acknowledgement -/
def isW : PC → Bool
  | .rPdone | .rOffered _ => true
  | _ => false

def isGot : PC → Bool
  | .sGot _ => true
  | _ => false

/-- the reader's packet was taken from `m.pkts` and the reader is (or will be) in `m.pdone.Recv()` -/
def rdWaiting (s : St) : Prop := isW (s.pc readerTid) = true ∧ s.sh.pkts = none

structure Pk (s : St) : Prop where
  owner : ∀ p, s.sh.pkts = some p → s.pc readerTid = .rOffered p
  got : ∀ t, isGot (s.pc t) = true → s.sh.pdone = false ∧ rdWaiting s
  pdone : s.sh.pdone = true → rdWaiting s
  coming : rdWaiting s → s.sh.pdone = false → ∃ t, isGot (s.pc t) = true

theorem pk_init (soft : Bool) : Pk { sh := { soft := soft } } := by
  have hp : ∀ t, (({ sh := { soft := soft } } : St).pc t) = (if t = 0 then .rTop else if t = 1 then .mTop else .idle) :=
    fun _ => rfl
  refine ⟨?_, ?_, ?_, ?_⟩
  · intro p h; cases h
  · intro t h; rw [hp] at h; split at h <;> (try split at h) <;> cases h
  · intro h; cases h
  · intro h; have := h.1; rw [hp] at this; simp [readerTid, isW] at this

theorem pk_frame {s : St} {t : Tid} {sh' : Sh} {p' : PC} (hi : Pk s) (hpk : sh'.pkts = s.sh.pkts)
    (hpd : sh'.pdone = s.sh.pdone) (hw : isW p' = false) (hw0 : isW (s.pc t) = false)
    (hg : isGot p' = false) (hg0 : isGot (s.pc t) = false) : Pk (s.upd t sh' p') := by
  have hrw : rdWaiting (s.upd t sh' p') ↔ rdWaiting s := by
    unfold rdWaiting
    simp only [upd_sh, hpk, upd_pc]
    split
    · rename_i h; rw [h]; simp [hw, hw0]
    · rfl
  have hgot : ∀ u, isGot ((s.upd t sh' p').pc u) = isGot (s.pc u) := by
    intro u
    rw [upd_pc]
    split
    · subst_vars; rw [hg, hg0]
    · rfl
  refine ⟨?_, ?_, ?_, ?_⟩
  · intro p hp
    simp only [upd_sh, hpk] at hp
    have := hi.owner p hp
    rw [upd_pc]
    split
    · rename_i h; rw [← h, this] at hw0; simp [isW] at hw0
    · exact this
  · intro u hu
    rw [hgot] at hu
    rw [hrw]
    simp only [upd_sh, hpd]
    exact hi.got u hu
  · intro h
    simp only [upd_sh, hpd] at h
    rw [hrw]; exact hi.pdone h
  · intro h1 h2
    simp only [upd_sh, hpd] at h2
    obtain ⟨u, hu⟩ := hi.coming (hrw.1 h1) h2
    exact ⟨u, by rw [hgot]; exact hu⟩

theorem isW_afterTerminate (k : TK) : isW (afterTerminate k) = false := by cases k <;> rfl
theorem isW_afterCancel (r : Bool) (k : CK) : isW (afterCancel r k) = false := by cases k <;> cases r <;> rfl
theorem isW_failHolding (c : Call) : isW (failHolding c) = false := by cases c <;> rfl
theorem isGot_afterTerminate (k : TK) : isGot (afterTerminate k) = false := by cases k <;> rfl
theorem isGot_afterCancel (r : Bool) (k : CK) : isGot (afterCancel r k) = false := by cases k <;> cases r <;> rfl
theorem isGot_failHolding (c : Call) : isGot (failHolding c) = false := by cases c <;> rfl

theorem not_got_of_not_waiting {s : St} (hi : Pk s) (h : ¬ rdWaiting s) (u : Tid) : isGot (s.pc u) = false := by
  cases hx : isGot (s.pc u) with
  | false => rfl
  | true => exact absurd (hi.got u hx).2 h

theorem not_pdone_of_not_waiting {s : St} (hi : Pk s) (h : ¬ rdWaiting s) : s.sh.pdone = false := by
  cases hx : s.sh.pdone with
  | false => rfl
  | true => exact absurd (hi.pdone hx) h

/-- nothing in flight -/
theorem pk_idle {s' : St} (howner : ∀ p, s'.sh.pkts = some p → s'.pc readerTid = .rOffered p)
    (hnw : ¬ rdWaiting s') (hng : ∀ u, isGot (s'.pc u) = false) (hpd : s'.sh.pdone = false) : Pk s' := by
  refine ⟨howner, ?_, ?_, ?_⟩
  · intro u hu; rw [hng u] at hu; cases hu
  · intro h; rw [hpd] at h; cases h
  · intro h; exact absurd h hnw

/-- NewServerStream acknowledges the packet -/
theorem pk_after_got {s : St} {t : Tid} {q : Pkt} {sh' : Sh} {p' : PC} (hi : Pk s) (hs : Sem s)
    (hp : s.pc t = .sGot q) (hne : readerTid ≠ t) (hw : rdWaiting s) (hg : isGot p' = false)
    (hpk : sh'.pkts = s.sh.pkts) (hpd : sh'.pdone = true) : Pk (s.upd t sh' p') := by
  have hw' : rdWaiting (s.upd t sh' p') := by
    refine ⟨?_, ?_⟩
    · rw [upd_pc_ne _ _ _ hne]; exact hw.1
    · simp only [upd_sh, hpk]; exact hw.2
  refine ⟨?_, ?_, ?_, ?_⟩
  · intro p h
    simp only [upd_sh, hpk] at h
    rw [upd_pc_ne _ _ _ hne]; exact hi.owner p h
  · intro u hu
    exfalso
    rw [upd_pc] at hu
    split at hu
    · rw [hg] at hu; cases hu
    · rename_i hne'
      apply hne'
      apply hs.uniq u t
      · cases hx : s.pc u <;> rw [hx] at hu <;> simp [isGot] at hu
        rfl
      · rw [hp]; rfl
  · intro _; exact hw'
  · intro _ h; simp only [upd_sh, hpd] at h; cases h

theorem pk_tr {s : St} {t : Tid} {p : PC} {sh' : Sh} {p' : PC} (hi : Pk s) (hs : Sem s) (hty : Typ s)
    (hp : s.pc t = p) (h : Tr s t p sh' p') : Pk (s.upd t sh' p') := by
  cases h
  all_goals
    first
    | exact pk_frame hi rfl rfl (by first | rfl | exact isW_afterTerminate _ | exact isW_afterCancel _ _ | exact isW_failHolding _)
        (by rw [hp]; rfl) (by first | rfl | exact isGot_afterTerminate _ | exact isGot_afterCancel _ _ | exact isGot_failHolding _)
        (by rw [hp]; rfl)
    | skip
  case rQueueOffer q hq =>
    have ht := tid_of_rd hty (t := t) (by rw [hp]; rfl)
    subst ht
    have hnw : ¬ rdWaiting s := by intro h; have := h.1; rw [hp] at this; cases this
    refine pk_idle ?_ ?_ ?_ ?_
    · intro p h; simp only [upd_sh] at h; cases h; simp
    · intro h; have := h.2; simp at this
    · intro u
      rw [upd_pc]; split
      · rfl
      · exact not_got_of_not_waiting hi hnw u
    · exact (not_pdone_of_not_waiting hi hnw : s.sh.pdone = false)
  case rOfferedRetract q hq _ =>
    have ht := tid_of_rd hty (t := t) (by rw [hp]; rfl)
    subst ht
    have hnw : ¬ rdWaiting s := by intro h; have := h.2; rw [hq] at this; cases this
    refine pk_idle ?_ ?_ ?_ ?_
    · intro p h; cases h
    · intro h; have := h.1; simp [isW] at this
    · intro u
      rw [upd_pc]; split
      · rfl
      · exact not_got_of_not_waiting hi hnw u
    · exact (not_pdone_of_not_waiting hi hnw : s.sh.pdone = false)
  case rOfferedTaken q hq =>
    have ht := tid_of_rd hty (t := t) (by rw [hp]; rfl)
    subst ht
    have hnone : s.sh.pkts = none := by
      cases hx : s.sh.pkts with
      | none => rfl
      | some q' =>
        have := hi.owner q' hx
        rw [hp] at this
        cases this
        exact absurd hx hq
    have hw : rdWaiting s := ⟨by rw [hp]; rfl, hnone⟩
    have hw' : rdWaiting (s.upd readerTid s.sh .rPdone) := ⟨by simp [isW], hnone⟩
    have hgot : ∀ u, isGot ((s.upd readerTid s.sh .rPdone).pc u) = isGot (s.pc u) := by
      intro u; rw [upd_pc]; split
      · subst_vars; rw [hp]; rfl
      · rfl
    refine ⟨?_, ?_, ?_, ?_⟩
    · intro p h; simp only [upd_sh, hnone] at h; cases h
    · intro u hu; rw [hgot] at hu; exact ⟨(hi.got u hu).1, hw'⟩
    · intro _; exact hw'
    · intro _ h2
      obtain ⟨u, hu⟩ := hi.coming hw h2
      exact ⟨u, by rw [hgot]; exact hu⟩
  case rPdone hpd =>
    have ht := tid_of_rd hty (t := t) (by rw [hp]; rfl)
    subst ht
    refine pk_idle ?_ ?_ ?_ rfl
    · intro p h
      have := hi.owner p h
      rw [hp] at this; cases this
    · intro h; have := h.1; simp [isW] at this
    · intro u
      rw [upd_pc]; split
      · rfl
      · cases hx : isGot (s.pc u) with
        | false => rfl
        | true => have := (hi.got u hx).1; rw [hpd] at this; cases this
  case sSelTake q hq =>
    have ht := tid_of_cl hty (t := t) (by rw [hp]; rfl)
    have hne : readerTid ≠ t := by unfold readerTid; somega
    have hnw : ¬ rdWaiting s := by intro h; have := h.2; rw [hq] at this; cases this
    have hrd := hi.owner q hq
    have hw' : rdWaiting (s.upd t { s.sh with pkts := none } (.sGot q)) := by
      refine ⟨?_, rfl⟩
      rw [upd_pc_ne _ _ _ hne, hrd]; rfl
    have hgot : ∀ u, isGot ((s.upd t { s.sh with pkts := none } (.sGot q)).pc u) = true ↔ u = t := by
      intro u; rw [upd_pc]; split
      · subst_vars; simp [isGot]
      · rename_i h; simp [not_got_of_not_waiting hi hnw u, h]
    refine ⟨?_, ?_, ?_, ?_⟩
    · intro p h; cases h
    · intro u _; exact ⟨(not_pdone_of_not_waiting hi hnw : s.sh.pdone = false), hw'⟩
    · intro h; have := not_pdone_of_not_waiting hi hnw; simp only [upd_sh] at h; rw [this] at h; cases h
    · intro _ _; exact ⟨t, (hgot t).2 rfl⟩
  case sGotMeta q hpd _ | sGotMetaBad q hpd _ | sGotInvoke q hpd _ | sGotOther q hpd _ =>
    have ht := tid_of_cl hty (t := t) (by rw [hp]; rfl)
    have hne : readerTid ≠ t := by unfold readerTid; somega
    have hw := (hi.got t (by rw [hp]; rfl)).2
    refine pk_after_got hi hs hp hne hw ?_ rfl rfl
    first | rfl | skip

theorem upd_same_pc (s : St) (t : Tid) (sh' : Sh) (u : Tid) : (s.upd t sh' (s.pc t)).pc u = s.pc u := by
  rw [upd_pc]; split
  · subst_vars; rfl
  · rfl

theorem pk_same {s : St} {t : Tid} {sh' : Sh} (hi : Pk s) (hpk : sh'.pkts = s.sh.pkts)
    (hpd : sh'.pdone = s.sh.pdone) : Pk (s.upd t sh' (s.pc t)) := by
  have hrw : rdWaiting (s.upd t sh' (s.pc t)) ↔ rdWaiting s := by
    unfold rdWaiting
    simp only [upd_sh, hpk, upd_same_pc]
  refine ⟨?_, ?_, ?_, ?_⟩
  · intro p hp
    simp only [upd_sh, hpk] at hp
    rw [upd_same_pc]; exact hi.owner p hp
  · intro u hu
    rw [upd_same_pc] at hu
    rw [hrw]; simp only [upd_sh, hpd]; exact hi.got u hu
  · intro h
    simp only [upd_sh, hpd] at h
    rw [hrw]; exact hi.pdone h
  · intro h1 h2
    simp only [upd_sh, hpd] at h2
    obtain ⟨u, hu⟩ := hi.coming (hrw.1 h1) h2
    exact ⟨u, by rw [upd_same_pc]; exact hu⟩

theorem pk_etr {s : St} {t : Tid} {sh' : Sh} {p' : PC} (hi : Pk s) (h : ETr s t sh' p') : Pk (s.upd t sh' p') := by
  cases h
  all_goals
    first
    | exact pk_same hi rfl rfl
    | exact pk_frame hi rfl rfl rfl (by simp [*, isW]) rfl (by simp [*, isGot])
    | skip

/-! ### Part 2 (d) -/

theorem pdone_balance_of_pk {s : St} (hi : Pk s) :
    (s.pc readerTid = .rPdone → s.sh.pdone = false → ∃ t p, s.pc t = .sGot p) ∧
    (∀ t p, s.pc t = .sGot p → s.sh.pdone = false) := by
  constructor
  · intro h1 h2
    have hw : rdWaiting s := by
      refine ⟨by rw [h1]; rfl, ?_⟩
      cases hx : s.sh.pkts with
      | none => rfl
      | some q => have := hi.owner q hx; rw [h1] at this; cases this
    obtain ⟨t, ht⟩ := hi.coming hw h2
    cases hx : s.pc t <;> rw [hx] at ht <;> simp [isGot] at ht
    exact ⟨t, _, hx⟩
  · intro t p h
    exact (hi.got t (by rw [h]; rfl)).1

end Drpc.Manager.Sys
