import Drpc.Lemmas.ManagerSysSafe
/-
  Where the goroutines end up (`Lx s`): a goroutine that left its loop did so on a terminated manager,
  and has set its signal when it is gone.
-/
set_option linter.unusedSimpArgs false
set_option linter.unusedVariables false
namespace Drpc.Manager.Sys
open Drpc.Manager

/-- on the way out: manageReader / manageStreams past their loop, Close waiting -/
def isExit : PC → Bool
  | .rExit | .mExit | .cWaitStream | .cWaitRead | .cWaitTport => true
  | _ => false

structure Lx (s : St) : Prop where
  exitTerm : ∀ t, isExit (s.pc t) = true → s.sh.term = true
  rdone : ∀ b, s.pc readerTid = .done b → s.sh.term = true ∧ s.sh.readDone = true
  mdone : ∀ b, s.pc mgrTid = .done b → s.sh.term = true ∧ s.sh.streamDone = true

theorem lx_init (soft : Bool) : Lx { sh := { soft := soft } } := by
  refine ⟨?_, ?_, ?_⟩
  · intro t h
    have : (({ sh := { soft := soft } } : St).pc t) = (if t = 0 then .rTop else if t = 1 then .mTop else .idle) := rfl
    rw [this] at h
    split at h
    · cases h
    · split at h <;> cases h
  · intro b h; cases h
  · intro b h; cases h

theorem lx_frame {s : St} {t : Tid} {sh' : Sh} {p' : PC} (hi : Lx s) (h1 : s.sh.term = true → sh'.term = true)
    (h2 : s.sh.readDone = true → sh'.readDone = true) (h3 : s.sh.streamDone = true → sh'.streamDone = true)
    (he : isExit p' = true → sh'.term = true)
    (hd : ∀ b, p' = .done b → (t = readerTid → sh'.term = true ∧ sh'.readDone = true) ∧
      (t = mgrTid → sh'.term = true ∧ sh'.streamDone = true)) : Lx (s.upd t sh' p') := by
  refine ⟨?_, ?_, ?_⟩
  · intro u hu
    rw [upd_pc] at hu
    split at hu
    · exact he hu
    · exact h1 (hi.exitTerm u hu)
  · intro b hb
    rw [upd_pc] at hb
    split at hb
    · rename_i ht; exact (hd b hb).1 ht.symm
    · have := hi.rdone b hb; exact ⟨h1 this.1, h2 this.2⟩
  · intro b hb
    rw [upd_pc] at hb
    split at hb
    · rename_i ht; exact (hd b hb).2 ht.symm
    · have := hi.mdone b hb; exact ⟨h1 this.1, h3 this.2⟩

theorem isExit_afterCancel (r : Bool) (k : CK) : isExit (afterCancel r k) = false := by cases k <;> cases r <;> rfl
theorem isExit_failHolding (c : Call) : isExit (failHolding c) = false := by cases c <;> rfl
theorem ne_done_afterTerminate (k : TK) (b : Bool) : afterTerminate k ≠ .done b := by cases k <;> simp [afterTerminate]
theorem ne_done_afterCancel (r : Bool) (k : CK) (b : Bool) : afterCancel r k ≠ .done b := by
  cases k <;> cases r <;> simp [afterCancel]

theorem lx_tr {s : St} {t : Tid} {p : PC} {sh' : Sh} {p' : PC} (hs : Safe s) (hi : Lx s) (hp : s.pc t = p)
    (h : Tr s t p sh' p') : Lx (s.upd t sh' p') := by
  have hex := hi.exitTerm t
  rw [hp] at hex
  have hrole := (hs.typ t).1
  rw [hp] at hrole
  cases h
  all_goals
    first
    | exact lx_frame hi (fun h => h) (fun h => h) (fun h => h)
        (by intro h; first | (cases h; done) | assumption | exact hex rfl | (rw [isExit_afterCancel] at h; cases h) | (rw [isExit_failHolding] at h; cases h))
        (by intro b h; first
          | (cases h; done)
          | exact absurd h (ne_done_afterTerminate _ _)
          | exact absurd h (ne_done_afterCancel _ _ _)
          | (refine ⟨fun ht => ?_, fun ht => ?_⟩ <;> (subst ht; have := hrole _ rfl; simp [tidRole, readerTid, mgrTid] at this)))
    | skip
  case rWaitClosed q c hcl =>
    have hterm : s.sh.term = true := by
      cases hx : s.sh.term with
      | true => rfl
      | false => have := (hs.tm.none hx).2.2.2; rw [hcl] at this; cases this
    exact lx_frame hi (fun h => h) (fun h => h) (fun h => h) (fun _ => hterm) (by intro b h; cases h)
  case rExit =>
    have hterm := hex rfl
    refine lx_frame hi (fun h => h) (fun _ => rfl) (fun h => h) (by intro h; cases h) ?_
    intro b _
    refine ⟨fun _ => ⟨hterm, rfl⟩, fun ht => ?_⟩
    subst ht
    have := hrole _ rfl
    simp [tidRole, readerTid, mgrTid] at this
  case mExit =>
    have hterm := hex rfl
    refine lx_frame hi (fun h => h) (fun h => h) (fun _ => rfl) (by intro h; cases h) ?_
    intro b _
    refine ⟨fun ht => ?_, fun _ => ⟨hterm, rfl⟩⟩
    subst ht
    have := hrole _ rfl
    simp [tidRole, readerTid, mgrTid] at this
  case tSetFirst k _ =>
    exact lx_frame hi (fun _ => rfl) (fun h => h) (fun h => h) (by intro h; cases h) (by intro b h; cases h)
  case tSbuf k =>
    have hterm := tm_term_of_in hs.tm (t := t) (by rw [hp]; rfl)
    exact lx_frame hi (fun h => h) (fun h => h) (fun h => h) (fun _ => hterm)
      (by intro b h; exact absurd h (ne_done_afterTerminate _ _))

theorem lx_etr {s : St} {t : Tid} {sh' : Sh} {p' : PC} (hi : Lx s) (h : ETr s t sh' p') : Lx (s.upd t sh' p') := by
  have hsame : ∀ sh'', (s.sh.term = true → sh''.term = true) → (s.sh.readDone = true → sh''.readDone = true) →
      (s.sh.streamDone = true → sh''.streamDone = true) → Lx (s.upd readerTid sh'' (s.pc readerTid)) := by
    intro sh'' h1 h2 h3
    refine ⟨?_, ?_, ?_⟩
    · intro u hu; rw [upd_same_pc] at hu; exact h1 (hi.exitTerm u hu)
    · intro b hb; rw [upd_same_pc] at hb; have := hi.rdone b hb; exact ⟨h1 this.1, h2 this.2⟩
    · intro b hb; rw [upd_same_pc] at hb; have := hi.mdone b hb; exact ⟨h1 this.1, h3 this.2⟩
  cases h
  all_goals
    first
    | exact hsame _ (fun h => h) (fun h => h) (fun h => h)
    | exact lx_frame hi (fun h => h) (fun h => h) (fun h => h) (by intro h; cases h) (by intro b h; cases h)

theorem lx_reachF {soft : Bool} {s : St} (h : ReachF soft s) : Lx s := by
  induction h with
  | init => exact lx_init soft
  | @step s0 s1 t ch hr hs _ ih =>
    obtain ⟨sh', p', htr, rfl⟩ := step_tr hs
    exact lx_tr (safe_reachF hr) ih rfl htr
  | env e _ hs _ ih =>
    obtain ⟨t, sh', p', htr, rfl⟩ := env_tr hs
    exact lx_etr ih htr

end Drpc.Manager.Sys
