import Drpc.Props.Manager
/-
  Helper lemmas for Props/ComposeManager.lean (the manager's protocol checker composed with the streams of
  one connection):

  * lists: pulling a split of `filterMap f tr` back to `tr`, positions identify members;
  * accepted manager traces: at `newBegin y` EVERY earlier stream has its `prevDone` (not only the newest one),
    and creation order is id order;
  * executable forms of "never after" / "always preceded by", with soundness, for concrete traces.
-/

namespace Drpc.Lemmas.ComposeManager
open Drpc.Manager

/-! ### lists -/

/-- if `x` occurs in the part before `b`, and `a` occurs in the part after `b`, then `a` occurs after `x` -/
theorem after_of_before {α : Type} {tr l1 l2 : List α} {b x a : α} (h : tr = l1 ++ b :: l2)
    (hx : x ∈ l1) (ha : a ∈ l2) : ∃ p q, tr = p ++ x :: q ∧ a ∈ q := by
  obtain ⟨p, q, rfl⟩ := List.append_of_mem hx
  exact ⟨p, q ++ b :: l2, by simp [h], by simp [ha]⟩

/-! ### accepted manager traces -/

/-- when the creation of a stream begins, the manager has seen EVERY stream created before it finished
    (not only the immediately preceding one) -/
theorem earlier_streams_seen_finished {a b : List Ev} {x y : Nat} {s : PS}
    (h : run {} (a ++ .newBegin y :: b) = some s) (hx : .newBegin x ∈ a) : .prevDone x ∈ a := by
  have e : a ++ Ev.newBegin y :: b = (a ++ [Ev.newBegin y]) ++ b := by simp
  rw [e] at h
  obtain ⟨s1, h1, -⟩ := run_append_some h
  have hopen := (Drpc.Props.Manager.none_open_at_creation h1).1
  obtain ⟨s0, h0, -⟩ := run_snoc h1
  apply Classical.byContradiction
  intro hn
  have := (Drpc.Props.Manager.mem_openStreams_iff h0 (x := x)).2 ⟨hx, hn⟩
  rw [hopen] at this
  cases this

/-- the ids of the streams created before / after the creation of `y` are smaller / larger than `y` -/
theorem begin_ids_ordered {a b : List Ev} {y : Nat} {s : PS}
    (h : run {} (a ++ .newBegin y :: b) = some s) (x : Nat) :
    (.newBegin x ∈ a → x < y) ∧ (.newBegin x ∈ b → y < x) := by
  have hp := (Drpc.Props.Manager.stream_ids_strictly_increase_trace h).1
  have e : (a ++ Ev.newBegin y :: b).filterMap beginId = a.filterMap beginId ++ y :: b.filterMap beginId := by
    simp [List.filterMap_append, beginId]
  rw [e, List.pairwise_append] at hp
  constructor
  · intro hx
    exact hp.2.2 x (Drpc.Props.Manager.mem_beginIds.2 hx) y (by simp)
  · intro hx
    exact (List.pairwise_cons.1 hp.2.1).1 x (Drpc.Props.Manager.mem_beginIds.2 hx)

/-! ### decidable forms of "never after" / "always preceded by" (for concrete traces) -/

/-- `trig b = some a`: no `a` may occur after an occurrence of `b` -/
def noneAfterB {α : Type} [DecidableEq α] (trig : α → Option α) : List α → Bool
  | [] => true
  | e :: l => (match trig e with | some a => !l.contains a | none => true) && noneAfterB trig l

theorem noneAfterB_sound {α : Type} [DecidableEq α] {trig : α → Option α} {tr : List α}
    (h : noneAfterB trig tr = true) {l1 l2 : List α} {a b : α} (htr : tr = l1 ++ b :: l2)
    (hab : trig b = some a) : a ∉ l2 := by
  induction l1 generalizing tr with
  | nil =>
    subst htr
    simp only [List.nil_append, noneAfterB, hab, Bool.and_eq_true, Bool.not_eq_eq_eq_not, Bool.not_true,
      List.contains_eq_mem, decide_eq_false_iff_not] at h
    exact h.1
  | cons e l1 ih =>
    subst htr
    simp only [List.cons_append, noneAfterB, Bool.and_eq_true] at h
    exact ih h.2 rfl

/-- `need b = some a`: every occurrence of `b` must be preceded by an `a` (`pre`: what came before, newest first) -/
def precededB {α : Type} [DecidableEq α] (need : α → Option α) : List α → List α → Bool
  | _, [] => true
  | pre, e :: l => (match need e with | some a => pre.contains a | none => true) && precededB need (e :: pre) l

theorem precededB_sound {α : Type} [DecidableEq α] {need : α → Option α} {pre tr : List α}
    (h : precededB need pre tr = true) {l1 l2 : List α} {a b : α} (htr : tr = l1 ++ b :: l2)
    (hab : need b = some a) : a ∈ pre ∨ a ∈ l1 := by
  induction l1 generalizing tr pre with
  | nil =>
    subst htr
    simp only [List.nil_append, precededB, hab, Bool.and_eq_true, List.contains_eq_mem, decide_eq_true_eq] at h
    exact Or.inl h.1
  | cons e l1 ih =>
    subst htr
    simp only [List.cons_append, precededB, Bool.and_eq_true] at h
    rcases ih h.2 rfl with h1 | h1
    · simp only [List.mem_cons] at h1
      rcases h1 with rfl | h1
      · exact Or.inr (by simp)
      · exact Or.inl h1
    · exact Or.inr (by simp [h1])

/-! ### pulling a split of a filtered list back to the list -/

theorem filterMap_split {α β : Type} {f : α → Option β} {tr : List α} {l1 l2 : List β} {b : β}
    (h : tr.filterMap f = l1 ++ b :: l2) :
    ∃ t1 e t2, tr = t1 ++ e :: t2 ∧ f e = some b ∧ t1.filterMap f = l1 ∧ t2.filterMap f = l2 := by
  obtain ⟨a1, a2, rfl, h1, h2⟩ := List.filterMap_eq_append_iff.1 h
  obtain ⟨c1, e, c2, rfl, hn, he, h3⟩ := List.filterMap_eq_cons_iff.1 h2
  refine ⟨a1 ++ c1, e, c2, by simp, he, ?_, h3⟩
  have : c1.filterMap f = [] := List.filterMap_eq_nil_iff.2 hn
  rw [List.filterMap_append, h1, this, List.append_nil]

/-- positions in a list identify its members -/
theorem idxOf_inj_of_mem {l : List Nat} {x y : Nat} (hx : x ∈ l) (h : l.idxOf x = l.idxOf y) : x = y := by
  have h1 : l.idxOf x < l.length := List.idxOf_lt_length_iff.2 hx
  have h2 : l.idxOf y < l.length := h ▸ h1
  have e1 : l[l.idxOf x]? = some x := by rw [List.getElem?_eq_getElem h1, List.getElem_idxOf h1]
  have e2 : l[l.idxOf y]? = some y := by rw [List.getElem?_eq_getElem h2, List.getElem_idxOf h2]
  rw [h, e2] at e1
  injection e1 with e1
  exact e1.symm

end Drpc.Lemmas.ComposeManager
