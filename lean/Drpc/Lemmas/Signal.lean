import Drpc.Signal
/-
  Invariant of the Signal model (Drpc/Signal.lean) and its preservation by every atomic step,
  in the shape of DESIGN.md Appendix D: Bool classifiers of the program counter, no existentials in
  hypotheses, `@[grind =]` projections of `setPc`, one lemma per step.
-/
namespace Drpc.Signal

@[grind =] theorem pc_setPc (s : State) (t u : Tid) (p : PC) :
    (s.setPc t p).pc u = if u = t then p else s.pc u := rfl
@[grind =] theorem errSet_setPc (s : State) (t : Tid) (p : PC) : (s.setPc t p).errSet = s.errSet := rfl
@[grind =] theorem chCreated_setPc (s : State) (t : Tid) (p : PC) : (s.setPc t p).chCreated = s.chCreated := rfl
@[grind =] theorem mu_setPc (s : State) (t : Tid) (p : PC) : (s.setPc t p).mu = s.mu := rfl
@[grind =] theorem ch_setPc (s : State) (t : Tid) (p : PC) : (s.setPc t p).ch = s.ch := rfl
@[grind =] theorem err_setPc (s : State) (t : Tid) (p : PC) : (s.setPc t p).err = s.err := rfl
@[grind =] theorem nextCh_setPc (s : State) (t : Tid) (p : PC) : (s.setPc t p).nextCh = s.nextCh := rfl
@[grind =] theorem closes_setPc (s : State) (t : Tid) (p : PC) (c : Nat) : (s.setPc t p).closes c = s.closes c := rfl
@[grind =] theorem closesF_setPc (s : State) (t : Tid) (p : PC) : (s.setPc t p).closes = s.closes := rfl
@[grind =] theorem isClosed_eq (s : State) (c : Ch) : s.isClosed c = chClosed s.closes c := rfl
@[grind =] theorem sentCloses_setPc (s : State) (t : Tid) (p : PC) : (s.setPc t p).sentCloses = s.sentCloses := rfl

attribute [grind] holds won preStore pastStore wErr knowsSet obsErr chanOf knowsCh crOf isPanic
  sentSt isClosing isGStore esOf afterSignal chClosed chOpenFresh

structure Inv (s : State) : Prop where
  mutex1 : ∀ t, holds (s.pc t) = true → s.mu = some t
  mutex2 : ∀ t, s.mu = some t → holds (s.pc t) = true
  status : s.errSet = true → s.chCreated = true
  uniq : ∀ t u, won (s.pc t) = true → won (s.pc u) = true → t = u
  past : ∀ t, pastStore (s.pc t) = true → s.errSet = true
  pre : ∀ t, preStore (s.pc t) = true → s.errSet = false
  werr : ∀ t e, wErr (s.pc t) = some e → s.err = some e
  errW : s.errSet = true → s.err ≠ none
  knows : ∀ t, knowsSet (s.pc t) = true → s.errSet = true
  obs : ∀ t x, obsErr (s.pc t) = some x → x = s.err
  chan : ∀ t c, chanOf (s.pc t) = some c → c = s.ch ∧ s.chCreated = true
  kch : ∀ t, knowsCh (s.pc t) = true → s.chCreated = true
  crA : ∀ t b, crOf (s.pc t) = some b → s.chCreated = b
  sent : ∀ t, sentSt (s.pc t) = true → s.ch = .sentinel
  openA : s.chCreated = true → s.errSet = false → chOpenFresh s.closes s.ch = true
  esA : ∀ t b, esOf (s.pc t) = some b → b = s.errSet ∧ s.chCreated = false
  gst : ∀ t, isGStore (s.pc t) = true → chOpenFresh s.closes s.ch = true
  closing : ∀ t, isClosing (s.pc t) = true → chOpenFresh s.closes s.ch = true
  cl1 : ∀ c, s.closes c ≤ 1
  cl2 : ∀ c, 0 < s.closes c → s.errSet = true ∧ s.ch = .fresh c
  sc : s.sentCloses = 0
  quiet1 : s.errSet = true → s.isClosed s.ch = false → s.mu ≠ none
  quiet2 : ∀ t, s.errSet = true → s.isClosed s.ch = false → s.mu = some t → isClosing (s.pc t) = true
  chNone : s.chCreated = true → s.ch ≠ .none
  nopanic : ∀ t, isPanic (s.pc t) = false

/-- a third of the conjuncts of `Inv` (the preservation proofs are split so that no declaration is slow) -/
structure InvA (s : State) : Prop where
  mutex1 : ∀ t, holds (s.pc t) = true → s.mu = some t
  mutex2 : ∀ t, s.mu = some t → holds (s.pc t) = true
  status : s.errSet = true → s.chCreated = true
  uniq : ∀ t u, won (s.pc t) = true → won (s.pc u) = true → t = u
  past : ∀ t, pastStore (s.pc t) = true → s.errSet = true
  pre : ∀ t, preStore (s.pc t) = true → s.errSet = false
  werr : ∀ t e, wErr (s.pc t) = some e → s.err = some e
  errW : s.errSet = true → s.err ≠ none
  knows : ∀ t, knowsSet (s.pc t) = true → s.errSet = true

/-- a third of the conjuncts of `Inv` (the preservation proofs are split so that no declaration is slow) -/
structure InvB (s : State) : Prop where
  obs : ∀ t x, obsErr (s.pc t) = some x → x = s.err
  chan : ∀ t c, chanOf (s.pc t) = some c → c = s.ch ∧ s.chCreated = true
  kch : ∀ t, knowsCh (s.pc t) = true → s.chCreated = true
  crA : ∀ t b, crOf (s.pc t) = some b → s.chCreated = b
  sent : ∀ t, sentSt (s.pc t) = true → s.ch = .sentinel
  openA : s.chCreated = true → s.errSet = false → chOpenFresh s.closes s.ch = true
  esA : ∀ t b, esOf (s.pc t) = some b → b = s.errSet ∧ s.chCreated = false
  gst : ∀ t, isGStore (s.pc t) = true → chOpenFresh s.closes s.ch = true

/-- a third of the conjuncts of `Inv` (the preservation proofs are split so that no declaration is slow) -/
structure InvC (s : State) : Prop where
  closing : ∀ t, isClosing (s.pc t) = true → chOpenFresh s.closes s.ch = true
  cl1 : ∀ c, s.closes c ≤ 1
  cl2 : ∀ c, 0 < s.closes c → s.errSet = true ∧ s.ch = .fresh c
  sc : s.sentCloses = 0
  quiet1 : s.errSet = true → s.isClosed s.ch = false → s.mu ≠ none
  quiet2 : ∀ t, s.errSet = true → s.isClosed s.ch = false → s.mu = some t → isClosing (s.pc t) = true
  chNone : s.chCreated = true → s.ch ≠ .none
  nopanic : ∀ t, isPanic (s.pc t) = false

theorem Inv.ofParts {s : State} (a : InvA s) (b : InvB s) (c : InvC s) : Inv s :=
  ⟨a.mutex1, a.mutex2, a.status, a.uniq, a.past, a.pre, a.werr, a.errW, a.knows, b.obs, b.chan, b.kch, b.crA, b.sent, b.openA, b.esA, b.gst, c.closing, c.cl1, c.cl2, c.sc, c.quiet1, c.quiet2, c.chNone, c.nopanic⟩

theorem inv_init : Inv init := by
  constructor <;> simp [init, holds, won, preStore, pastStore, wErr, knowsSet, obsErr, chanOf, knowsCh, crOf,
    sentSt, esOf, isGStore, isClosing, isPanic, chOpenFresh]

theorem inv_call (s : State) (t : Tid) (c : Call) (h : Inv s) (hi : s.pc t = .idle) :
    Inv (s.setPc t (.start c)) := by
  obtain ⟨h1, h2, h3, h4, h5, h6, h7, h8, h9, h10, h11, h12, h13, h14, h15, h16, h17, h18, h19, h20, h21, h22, h23, h24, h25⟩ := h
  constructor <;> (intros; grind)




theorem won_cases (p : PC) : won p = true → holds p = true ∨ pastStore p = true := by
  cases p <;> simp [won, holds, pastStore]
theorem preStore_won (p : PC) : preStore p = true → won p = true ∧ holds p = true ∧ pastStore p = false := by
  cases p <;> simp [won, holds, preStore, pastStore]
theorem pastStore_won (p : PC) : pastStore p = true → won p = true := by
  cases p <;> simp [won, pastStore]
theorem wErr_won (p : PC) (e : Val) : wErr p = some e → won p = true := by
  cases p <;> simp [won, wErr] <;> intro h <;> simp_all
theorem obs_knows (p : PC) (x : Option Val) : obsErr p = some x → knowsSet p = true := by
  cases p <;> simp [obsErr, knowsSet] <;> (intros; simp_all)
theorem gstore_holds (p : PC) : isGStore p = true → holds p = true := by
  cases p <;> simp [isGStore, holds]
theorem closing_holds (p : PC) : isClosing p = true → holds p = true ∧ pastStore p = true := by
  cases p <;> simp [isClosing, holds, pastStore]
theorem crOf_pre (p : PC) (b : Bool) : crOf p = some b → preStore p = true := by
  cases p <;> simp [crOf, preStore]
theorem esOf_holds (p : PC) (b : Bool) : esOf p = some b → holds p = true := by
  cases p <;> simp [esOf, holds]
theorem sentSt_pre (p : PC) : sentSt p = true → preStore p = true := by
  cases p <;> simp [sentSt, preStore]
theorem panic_holds (p : PC) : isPanic p = true → holds p = true := by
  cases p <;> simp [isPanic, holds]


macro "sig_inv_case" : tactic => `(tactic| (
  constructor <;> (intros; (try simp only [State.setPc, State.isClosed] at *) <;>
    first | done | grind [won_cases, preStore_won, pastStore_won, wErr_won, obs_knows, gstore_holds, closing_holds,
      crOf_pre, esOf_holds, sentSt_pre, panic_holds])))

macro "sig_step_tac" : tactic => `(tactic| (
  intro s' hs
  unfold step at hs
  simp only [*] at hs
  try simp only [Bool.false_eq_true, ↓reduceIte] at hs
  try unfold closeCh at hs
  repeat' split at hs
  all_goals (try (simp only [Option.some.injEq, reduceCtorEq] at hs))
  all_goals (try subst hs)
  all_goals sig_inv_case))

theorem step_start_set_A (s : State) (t : Tid) (e : Val) (h : Inv s) (hp : s.pc t = .start (.set e)) :
    ∀ s', step s t = some s' → InvA s' := by
  have a_mutex1 := h.mutex1 t
  have a_mutex2 := h.mutex2 t
  have a_uniq := h.uniq t
  have a_past := h.past t
  have a_pre := h.pre t
  have a_werr := h.werr t
  have a_knows := h.knows t
  have a_obs := h.obs t
  have a_chan := h.chan t
  have a_kch := h.kch t
  have a_crA := h.crA t
  have a_sent := h.sent t
  have a_esA := h.esA t
  have a_gst := h.gst t
  have a_closing := h.closing t
  have a_quiet2 := h.quiet2 t
  have a_nopanic := h.nopanic t
  simp only [hp, holds, won, preStore, pastStore, wErr, knowsSet, obsErr, chanOf, knowsCh, crOf, isPanic, sentSt, isClosing, isGStore, esOf] at a_mutex1 a_mutex2 a_uniq a_past a_pre a_werr a_knows a_obs a_chan a_kch a_crA a_sent a_esA a_gst a_closing a_quiet2 a_nopanic
  obtain ⟨h1, h2, h3, h4, h5, h6, h7, h8, h9, h10, h11, h12, h13, h14, h15, h16, h17, h18, h19, h20, h21, h22, h23, h24, h25⟩ := h
  sig_step_tac

theorem step_start_set_B (s : State) (t : Tid) (e : Val) (h : Inv s) (hp : s.pc t = .start (.set e)) :
    ∀ s', step s t = some s' → InvB s' := by
  have a_mutex1 := h.mutex1 t
  have a_mutex2 := h.mutex2 t
  have a_uniq := h.uniq t
  have a_past := h.past t
  have a_pre := h.pre t
  have a_werr := h.werr t
  have a_knows := h.knows t
  have a_obs := h.obs t
  have a_chan := h.chan t
  have a_kch := h.kch t
  have a_crA := h.crA t
  have a_sent := h.sent t
  have a_esA := h.esA t
  have a_gst := h.gst t
  have a_closing := h.closing t
  have a_quiet2 := h.quiet2 t
  have a_nopanic := h.nopanic t
  simp only [hp, holds, won, preStore, pastStore, wErr, knowsSet, obsErr, chanOf, knowsCh, crOf, isPanic, sentSt, isClosing, isGStore, esOf] at a_mutex1 a_mutex2 a_uniq a_past a_pre a_werr a_knows a_obs a_chan a_kch a_crA a_sent a_esA a_gst a_closing a_quiet2 a_nopanic
  obtain ⟨h1, h2, h3, h4, h5, h6, h7, h8, h9, h10, h11, h12, h13, h14, h15, h16, h17, h18, h19, h20, h21, h22, h23, h24, h25⟩ := h
  sig_step_tac

theorem step_start_set_C (s : State) (t : Tid) (e : Val) (h : Inv s) (hp : s.pc t = .start (.set e)) :
    ∀ s', step s t = some s' → InvC s' := by
  have a_mutex1 := h.mutex1 t
  have a_mutex2 := h.mutex2 t
  have a_uniq := h.uniq t
  have a_past := h.past t
  have a_pre := h.pre t
  have a_werr := h.werr t
  have a_knows := h.knows t
  have a_obs := h.obs t
  have a_chan := h.chan t
  have a_kch := h.kch t
  have a_crA := h.crA t
  have a_sent := h.sent t
  have a_esA := h.esA t
  have a_gst := h.gst t
  have a_closing := h.closing t
  have a_quiet2 := h.quiet2 t
  have a_nopanic := h.nopanic t
  simp only [hp, holds, won, preStore, pastStore, wErr, knowsSet, obsErr, chanOf, knowsCh, crOf, isPanic, sentSt, isClosing, isGStore, esOf] at a_mutex1 a_mutex2 a_uniq a_past a_pre a_werr a_knows a_obs a_chan a_kch a_crA a_sent a_esA a_gst a_closing a_quiet2 a_nopanic
  obtain ⟨h1, h2, h3, h4, h5, h6, h7, h8, h9, h10, h11, h12, h13, h14, h15, h16, h17, h18, h19, h20, h21, h22, h23, h24, h25⟩ := h
  sig_step_tac

theorem step_start_set (s : State) (t : Tid) (e : Val) (h : Inv s) (hp : s.pc t = .start (.set e)) :
    ∀ s', step s t = some s' → Inv s' := fun s' hs =>
  Inv.ofParts (step_start_set_A s t e h hp s' hs) (step_start_set_B s t e h hp s' hs) (step_start_set_C s t e h hp s' hs)

theorem step_start_signal_A (s : State) (t : Tid)  (h : Inv s) (hp : s.pc t = .start .signal) :
    ∀ s', step s t = some s' → InvA s' := by
  have a_mutex1 := h.mutex1 t
  have a_mutex2 := h.mutex2 t
  have a_uniq := h.uniq t
  have a_past := h.past t
  have a_pre := h.pre t
  have a_werr := h.werr t
  have a_knows := h.knows t
  have a_obs := h.obs t
  have a_chan := h.chan t
  have a_kch := h.kch t
  have a_crA := h.crA t
  have a_sent := h.sent t
  have a_esA := h.esA t
  have a_gst := h.gst t
  have a_closing := h.closing t
  have a_quiet2 := h.quiet2 t
  have a_nopanic := h.nopanic t
  simp only [hp, holds, won, preStore, pastStore, wErr, knowsSet, obsErr, chanOf, knowsCh, crOf, isPanic, sentSt, isClosing, isGStore, esOf] at a_mutex1 a_mutex2 a_uniq a_past a_pre a_werr a_knows a_obs a_chan a_kch a_crA a_sent a_esA a_gst a_closing a_quiet2 a_nopanic
  obtain ⟨h1, h2, h3, h4, h5, h6, h7, h8, h9, h10, h11, h12, h13, h14, h15, h16, h17, h18, h19, h20, h21, h22, h23, h24, h25⟩ := h
  sig_step_tac

theorem step_start_signal_B (s : State) (t : Tid)  (h : Inv s) (hp : s.pc t = .start .signal) :
    ∀ s', step s t = some s' → InvB s' := by
  have a_mutex1 := h.mutex1 t
  have a_mutex2 := h.mutex2 t
  have a_uniq := h.uniq t
  have a_past := h.past t
  have a_pre := h.pre t
  have a_werr := h.werr t
  have a_knows := h.knows t
  have a_obs := h.obs t
  have a_chan := h.chan t
  have a_kch := h.kch t
  have a_crA := h.crA t
  have a_sent := h.sent t
  have a_esA := h.esA t
  have a_gst := h.gst t
  have a_closing := h.closing t
  have a_quiet2 := h.quiet2 t
  have a_nopanic := h.nopanic t
  simp only [hp, holds, won, preStore, pastStore, wErr, knowsSet, obsErr, chanOf, knowsCh, crOf, isPanic, sentSt, isClosing, isGStore, esOf] at a_mutex1 a_mutex2 a_uniq a_past a_pre a_werr a_knows a_obs a_chan a_kch a_crA a_sent a_esA a_gst a_closing a_quiet2 a_nopanic
  obtain ⟨h1, h2, h3, h4, h5, h6, h7, h8, h9, h10, h11, h12, h13, h14, h15, h16, h17, h18, h19, h20, h21, h22, h23, h24, h25⟩ := h
  sig_step_tac

theorem step_start_signal_C (s : State) (t : Tid)  (h : Inv s) (hp : s.pc t = .start .signal) :
    ∀ s', step s t = some s' → InvC s' := by
  have a_mutex1 := h.mutex1 t
  have a_mutex2 := h.mutex2 t
  have a_uniq := h.uniq t
  have a_past := h.past t
  have a_pre := h.pre t
  have a_werr := h.werr t
  have a_knows := h.knows t
  have a_obs := h.obs t
  have a_chan := h.chan t
  have a_kch := h.kch t
  have a_crA := h.crA t
  have a_sent := h.sent t
  have a_esA := h.esA t
  have a_gst := h.gst t
  have a_closing := h.closing t
  have a_quiet2 := h.quiet2 t
  have a_nopanic := h.nopanic t
  simp only [hp, holds, won, preStore, pastStore, wErr, knowsSet, obsErr, chanOf, knowsCh, crOf, isPanic, sentSt, isClosing, isGStore, esOf] at a_mutex1 a_mutex2 a_uniq a_past a_pre a_werr a_knows a_obs a_chan a_kch a_crA a_sent a_esA a_gst a_closing a_quiet2 a_nopanic
  obtain ⟨h1, h2, h3, h4, h5, h6, h7, h8, h9, h10, h11, h12, h13, h14, h15, h16, h17, h18, h19, h20, h21, h22, h23, h24, h25⟩ := h
  sig_step_tac

theorem step_start_signal (s : State) (t : Tid)  (h : Inv s) (hp : s.pc t = .start .signal) :
    ∀ s', step s t = some s' → Inv s' := fun s' hs =>
  Inv.ofParts (step_start_signal_A s t  h hp s' hs) (step_start_signal_B s t  h hp s' hs) (step_start_signal_C s t  h hp s' hs)

theorem step_start_wait_A (s : State) (t : Tid)  (h : Inv s) (hp : s.pc t = .start .wait) :
    ∀ s', step s t = some s' → InvA s' := by
  have a_mutex1 := h.mutex1 t
  have a_mutex2 := h.mutex2 t
  have a_uniq := h.uniq t
  have a_past := h.past t
  have a_pre := h.pre t
  have a_werr := h.werr t
  have a_knows := h.knows t
  have a_obs := h.obs t
  have a_chan := h.chan t
  have a_kch := h.kch t
  have a_crA := h.crA t
  have a_sent := h.sent t
  have a_esA := h.esA t
  have a_gst := h.gst t
  have a_closing := h.closing t
  have a_quiet2 := h.quiet2 t
  have a_nopanic := h.nopanic t
  simp only [hp, holds, won, preStore, pastStore, wErr, knowsSet, obsErr, chanOf, knowsCh, crOf, isPanic, sentSt, isClosing, isGStore, esOf] at a_mutex1 a_mutex2 a_uniq a_past a_pre a_werr a_knows a_obs a_chan a_kch a_crA a_sent a_esA a_gst a_closing a_quiet2 a_nopanic
  obtain ⟨h1, h2, h3, h4, h5, h6, h7, h8, h9, h10, h11, h12, h13, h14, h15, h16, h17, h18, h19, h20, h21, h22, h23, h24, h25⟩ := h
  sig_step_tac

theorem step_start_wait_B (s : State) (t : Tid)  (h : Inv s) (hp : s.pc t = .start .wait) :
    ∀ s', step s t = some s' → InvB s' := by
  have a_mutex1 := h.mutex1 t
  have a_mutex2 := h.mutex2 t
  have a_uniq := h.uniq t
  have a_past := h.past t
  have a_pre := h.pre t
  have a_werr := h.werr t
  have a_knows := h.knows t
  have a_obs := h.obs t
  have a_chan := h.chan t
  have a_kch := h.kch t
  have a_crA := h.crA t
  have a_sent := h.sent t
  have a_esA := h.esA t
  have a_gst := h.gst t
  have a_closing := h.closing t
  have a_quiet2 := h.quiet2 t
  have a_nopanic := h.nopanic t
  simp only [hp, holds, won, preStore, pastStore, wErr, knowsSet, obsErr, chanOf, knowsCh, crOf, isPanic, sentSt, isClosing, isGStore, esOf] at a_mutex1 a_mutex2 a_uniq a_past a_pre a_werr a_knows a_obs a_chan a_kch a_crA a_sent a_esA a_gst a_closing a_quiet2 a_nopanic
  obtain ⟨h1, h2, h3, h4, h5, h6, h7, h8, h9, h10, h11, h12, h13, h14, h15, h16, h17, h18, h19, h20, h21, h22, h23, h24, h25⟩ := h
  sig_step_tac

theorem step_start_wait_C (s : State) (t : Tid)  (h : Inv s) (hp : s.pc t = .start .wait) :
    ∀ s', step s t = some s' → InvC s' := by
  have a_mutex1 := h.mutex1 t
  have a_mutex2 := h.mutex2 t
  have a_uniq := h.uniq t
  have a_past := h.past t
  have a_pre := h.pre t
  have a_werr := h.werr t
  have a_knows := h.knows t
  have a_obs := h.obs t
  have a_chan := h.chan t
  have a_kch := h.kch t
  have a_crA := h.crA t
  have a_sent := h.sent t
  have a_esA := h.esA t
  have a_gst := h.gst t
  have a_closing := h.closing t
  have a_quiet2 := h.quiet2 t
  have a_nopanic := h.nopanic t
  simp only [hp, holds, won, preStore, pastStore, wErr, knowsSet, obsErr, chanOf, knowsCh, crOf, isPanic, sentSt, isClosing, isGStore, esOf] at a_mutex1 a_mutex2 a_uniq a_past a_pre a_werr a_knows a_obs a_chan a_kch a_crA a_sent a_esA a_gst a_closing a_quiet2 a_nopanic
  obtain ⟨h1, h2, h3, h4, h5, h6, h7, h8, h9, h10, h11, h12, h13, h14, h15, h16, h17, h18, h19, h20, h21, h22, h23, h24, h25⟩ := h
  sig_step_tac

theorem step_start_wait (s : State) (t : Tid)  (h : Inv s) (hp : s.pc t = .start .wait) :
    ∀ s', step s t = some s' → Inv s' := fun s' hs =>
  Inv.ofParts (step_start_wait_A s t  h hp s' hs) (step_start_wait_B s t  h hp s' hs) (step_start_wait_C s t  h hp s' hs)

theorem step_start_get_A (s : State) (t : Tid)  (h : Inv s) (hp : s.pc t = .start .get) :
    ∀ s', step s t = some s' → InvA s' := by
  have a_mutex1 := h.mutex1 t
  have a_mutex2 := h.mutex2 t
  have a_uniq := h.uniq t
  have a_past := h.past t
  have a_pre := h.pre t
  have a_werr := h.werr t
  have a_knows := h.knows t
  have a_obs := h.obs t
  have a_chan := h.chan t
  have a_kch := h.kch t
  have a_crA := h.crA t
  have a_sent := h.sent t
  have a_esA := h.esA t
  have a_gst := h.gst t
  have a_closing := h.closing t
  have a_quiet2 := h.quiet2 t
  have a_nopanic := h.nopanic t
  simp only [hp, holds, won, preStore, pastStore, wErr, knowsSet, obsErr, chanOf, knowsCh, crOf, isPanic, sentSt, isClosing, isGStore, esOf] at a_mutex1 a_mutex2 a_uniq a_past a_pre a_werr a_knows a_obs a_chan a_kch a_crA a_sent a_esA a_gst a_closing a_quiet2 a_nopanic
  obtain ⟨h1, h2, h3, h4, h5, h6, h7, h8, h9, h10, h11, h12, h13, h14, h15, h16, h17, h18, h19, h20, h21, h22, h23, h24, h25⟩ := h
  sig_step_tac

theorem step_start_get_B (s : State) (t : Tid)  (h : Inv s) (hp : s.pc t = .start .get) :
    ∀ s', step s t = some s' → InvB s' := by
  have a_mutex1 := h.mutex1 t
  have a_mutex2 := h.mutex2 t
  have a_uniq := h.uniq t
  have a_past := h.past t
  have a_pre := h.pre t
  have a_werr := h.werr t
  have a_knows := h.knows t
  have a_obs := h.obs t
  have a_chan := h.chan t
  have a_kch := h.kch t
  have a_crA := h.crA t
  have a_sent := h.sent t
  have a_esA := h.esA t
  have a_gst := h.gst t
  have a_closing := h.closing t
  have a_quiet2 := h.quiet2 t
  have a_nopanic := h.nopanic t
  simp only [hp, holds, won, preStore, pastStore, wErr, knowsSet, obsErr, chanOf, knowsCh, crOf, isPanic, sentSt, isClosing, isGStore, esOf] at a_mutex1 a_mutex2 a_uniq a_past a_pre a_werr a_knows a_obs a_chan a_kch a_crA a_sent a_esA a_gst a_closing a_quiet2 a_nopanic
  obtain ⟨h1, h2, h3, h4, h5, h6, h7, h8, h9, h10, h11, h12, h13, h14, h15, h16, h17, h18, h19, h20, h21, h22, h23, h24, h25⟩ := h
  sig_step_tac

theorem step_start_get_C (s : State) (t : Tid)  (h : Inv s) (hp : s.pc t = .start .get) :
    ∀ s', step s t = some s' → InvC s' := by
  have a_mutex1 := h.mutex1 t
  have a_mutex2 := h.mutex2 t
  have a_uniq := h.uniq t
  have a_past := h.past t
  have a_pre := h.pre t
  have a_werr := h.werr t
  have a_knows := h.knows t
  have a_obs := h.obs t
  have a_chan := h.chan t
  have a_kch := h.kch t
  have a_crA := h.crA t
  have a_sent := h.sent t
  have a_esA := h.esA t
  have a_gst := h.gst t
  have a_closing := h.closing t
  have a_quiet2 := h.quiet2 t
  have a_nopanic := h.nopanic t
  simp only [hp, holds, won, preStore, pastStore, wErr, knowsSet, obsErr, chanOf, knowsCh, crOf, isPanic, sentSt, isClosing, isGStore, esOf] at a_mutex1 a_mutex2 a_uniq a_past a_pre a_werr a_knows a_obs a_chan a_kch a_crA a_sent a_esA a_gst a_closing a_quiet2 a_nopanic
  obtain ⟨h1, h2, h3, h4, h5, h6, h7, h8, h9, h10, h11, h12, h13, h14, h15, h16, h17, h18, h19, h20, h21, h22, h23, h24, h25⟩ := h
  sig_step_tac

theorem step_start_get (s : State) (t : Tid)  (h : Inv s) (hp : s.pc t = .start .get) :
    ∀ s', step s t = some s' → Inv s' := fun s' hs =>
  Inv.ofParts (step_start_get_A s t  h hp s' hs) (step_start_get_B s t  h hp s' hs) (step_start_get_C s t  h hp s' hs)

theorem step_start_err_A (s : State) (t : Tid)  (h : Inv s) (hp : s.pc t = .start .err) :
    ∀ s', step s t = some s' → InvA s' := by
  have a_mutex1 := h.mutex1 t
  have a_mutex2 := h.mutex2 t
  have a_uniq := h.uniq t
  have a_past := h.past t
  have a_pre := h.pre t
  have a_werr := h.werr t
  have a_knows := h.knows t
  have a_obs := h.obs t
  have a_chan := h.chan t
  have a_kch := h.kch t
  have a_crA := h.crA t
  have a_sent := h.sent t
  have a_esA := h.esA t
  have a_gst := h.gst t
  have a_closing := h.closing t
  have a_quiet2 := h.quiet2 t
  have a_nopanic := h.nopanic t
  simp only [hp, holds, won, preStore, pastStore, wErr, knowsSet, obsErr, chanOf, knowsCh, crOf, isPanic, sentSt, isClosing, isGStore, esOf] at a_mutex1 a_mutex2 a_uniq a_past a_pre a_werr a_knows a_obs a_chan a_kch a_crA a_sent a_esA a_gst a_closing a_quiet2 a_nopanic
  obtain ⟨h1, h2, h3, h4, h5, h6, h7, h8, h9, h10, h11, h12, h13, h14, h15, h16, h17, h18, h19, h20, h21, h22, h23, h24, h25⟩ := h
  sig_step_tac

theorem step_start_err_B (s : State) (t : Tid)  (h : Inv s) (hp : s.pc t = .start .err) :
    ∀ s', step s t = some s' → InvB s' := by
  have a_mutex1 := h.mutex1 t
  have a_mutex2 := h.mutex2 t
  have a_uniq := h.uniq t
  have a_past := h.past t
  have a_pre := h.pre t
  have a_werr := h.werr t
  have a_knows := h.knows t
  have a_obs := h.obs t
  have a_chan := h.chan t
  have a_kch := h.kch t
  have a_crA := h.crA t
  have a_sent := h.sent t
  have a_esA := h.esA t
  have a_gst := h.gst t
  have a_closing := h.closing t
  have a_quiet2 := h.quiet2 t
  have a_nopanic := h.nopanic t
  simp only [hp, holds, won, preStore, pastStore, wErr, knowsSet, obsErr, chanOf, knowsCh, crOf, isPanic, sentSt, isClosing, isGStore, esOf] at a_mutex1 a_mutex2 a_uniq a_past a_pre a_werr a_knows a_obs a_chan a_kch a_crA a_sent a_esA a_gst a_closing a_quiet2 a_nopanic
  obtain ⟨h1, h2, h3, h4, h5, h6, h7, h8, h9, h10, h11, h12, h13, h14, h15, h16, h17, h18, h19, h20, h21, h22, h23, h24, h25⟩ := h
  sig_step_tac

theorem step_start_err_C (s : State) (t : Tid)  (h : Inv s) (hp : s.pc t = .start .err) :
    ∀ s', step s t = some s' → InvC s' := by
  have a_mutex1 := h.mutex1 t
  have a_mutex2 := h.mutex2 t
  have a_uniq := h.uniq t
  have a_past := h.past t
  have a_pre := h.pre t
  have a_werr := h.werr t
  have a_knows := h.knows t
  have a_obs := h.obs t
  have a_chan := h.chan t
  have a_kch := h.kch t
  have a_crA := h.crA t
  have a_sent := h.sent t
  have a_esA := h.esA t
  have a_gst := h.gst t
  have a_closing := h.closing t
  have a_quiet2 := h.quiet2 t
  have a_nopanic := h.nopanic t
  simp only [hp, holds, won, preStore, pastStore, wErr, knowsSet, obsErr, chanOf, knowsCh, crOf, isPanic, sentSt, isClosing, isGStore, esOf] at a_mutex1 a_mutex2 a_uniq a_past a_pre a_werr a_knows a_obs a_chan a_kch a_crA a_sent a_esA a_gst a_closing a_quiet2 a_nopanic
  obtain ⟨h1, h2, h3, h4, h5, h6, h7, h8, h9, h10, h11, h12, h13, h14, h15, h16, h17, h18, h19, h20, h21, h22, h23, h24, h25⟩ := h
  sig_step_tac

theorem step_start_err (s : State) (t : Tid)  (h : Inv s) (hp : s.pc t = .start .err) :
    ∀ s', step s t = some s' → Inv s' := fun s' hs =>
  Inv.ofParts (step_start_err_A s t  h hp s' hs) (step_start_err_B s t  h hp s' hs) (step_start_err_C s t  h hp s' hs)

theorem step_start_isSet_A (s : State) (t : Tid)  (h : Inv s) (hp : s.pc t = .start .isSet) :
    ∀ s', step s t = some s' → InvA s' := by
  have a_mutex1 := h.mutex1 t
  have a_mutex2 := h.mutex2 t
  have a_uniq := h.uniq t
  have a_past := h.past t
  have a_pre := h.pre t
  have a_werr := h.werr t
  have a_knows := h.knows t
  have a_obs := h.obs t
  have a_chan := h.chan t
  have a_kch := h.kch t
  have a_crA := h.crA t
  have a_sent := h.sent t
  have a_esA := h.esA t
  have a_gst := h.gst t
  have a_closing := h.closing t
  have a_quiet2 := h.quiet2 t
  have a_nopanic := h.nopanic t
  simp only [hp, holds, won, preStore, pastStore, wErr, knowsSet, obsErr, chanOf, knowsCh, crOf, isPanic, sentSt, isClosing, isGStore, esOf] at a_mutex1 a_mutex2 a_uniq a_past a_pre a_werr a_knows a_obs a_chan a_kch a_crA a_sent a_esA a_gst a_closing a_quiet2 a_nopanic
  obtain ⟨h1, h2, h3, h4, h5, h6, h7, h8, h9, h10, h11, h12, h13, h14, h15, h16, h17, h18, h19, h20, h21, h22, h23, h24, h25⟩ := h
  sig_step_tac

theorem step_start_isSet_B (s : State) (t : Tid)  (h : Inv s) (hp : s.pc t = .start .isSet) :
    ∀ s', step s t = some s' → InvB s' := by
  have a_mutex1 := h.mutex1 t
  have a_mutex2 := h.mutex2 t
  have a_uniq := h.uniq t
  have a_past := h.past t
  have a_pre := h.pre t
  have a_werr := h.werr t
  have a_knows := h.knows t
  have a_obs := h.obs t
  have a_chan := h.chan t
  have a_kch := h.kch t
  have a_crA := h.crA t
  have a_sent := h.sent t
  have a_esA := h.esA t
  have a_gst := h.gst t
  have a_closing := h.closing t
  have a_quiet2 := h.quiet2 t
  have a_nopanic := h.nopanic t
  simp only [hp, holds, won, preStore, pastStore, wErr, knowsSet, obsErr, chanOf, knowsCh, crOf, isPanic, sentSt, isClosing, isGStore, esOf] at a_mutex1 a_mutex2 a_uniq a_past a_pre a_werr a_knows a_obs a_chan a_kch a_crA a_sent a_esA a_gst a_closing a_quiet2 a_nopanic
  obtain ⟨h1, h2, h3, h4, h5, h6, h7, h8, h9, h10, h11, h12, h13, h14, h15, h16, h17, h18, h19, h20, h21, h22, h23, h24, h25⟩ := h
  sig_step_tac

theorem step_start_isSet_C (s : State) (t : Tid)  (h : Inv s) (hp : s.pc t = .start .isSet) :
    ∀ s', step s t = some s' → InvC s' := by
  have a_mutex1 := h.mutex1 t
  have a_mutex2 := h.mutex2 t
  have a_uniq := h.uniq t
  have a_past := h.past t
  have a_pre := h.pre t
  have a_werr := h.werr t
  have a_knows := h.knows t
  have a_obs := h.obs t
  have a_chan := h.chan t
  have a_kch := h.kch t
  have a_crA := h.crA t
  have a_sent := h.sent t
  have a_esA := h.esA t
  have a_gst := h.gst t
  have a_closing := h.closing t
  have a_quiet2 := h.quiet2 t
  have a_nopanic := h.nopanic t
  simp only [hp, holds, won, preStore, pastStore, wErr, knowsSet, obsErr, chanOf, knowsCh, crOf, isPanic, sentSt, isClosing, isGStore, esOf] at a_mutex1 a_mutex2 a_uniq a_past a_pre a_werr a_knows a_obs a_chan a_kch a_crA a_sent a_esA a_gst a_closing a_quiet2 a_nopanic
  obtain ⟨h1, h2, h3, h4, h5, h6, h7, h8, h9, h10, h11, h12, h13, h14, h15, h16, h17, h18, h19, h20, h21, h22, h23, h24, h25⟩ := h
  sig_step_tac

theorem step_start_isSet (s : State) (t : Tid)  (h : Inv s) (hp : s.pc t = .start .isSet) :
    ∀ s', step s t = some s' → Inv s' := fun s' hs =>
  Inv.ofParts (step_start_isSet_A s t  h hp s' hs) (step_start_isSet_B s t  h hp s' hs) (step_start_isSet_C s t  h hp s' hs)

theorem step_sLock_A (s : State) (t : Tid) (e : _) (h : Inv s) (hp : s.pc t = .sLock e) :
    ∀ s', step s t = some s' → InvA s' := by
  have a_mutex1 := h.mutex1 t
  have a_mutex2 := h.mutex2 t
  have a_uniq := h.uniq t
  have a_past := h.past t
  have a_pre := h.pre t
  have a_werr := h.werr t
  have a_knows := h.knows t
  have a_obs := h.obs t
  have a_chan := h.chan t
  have a_kch := h.kch t
  have a_crA := h.crA t
  have a_sent := h.sent t
  have a_esA := h.esA t
  have a_gst := h.gst t
  have a_closing := h.closing t
  have a_quiet2 := h.quiet2 t
  have a_nopanic := h.nopanic t
  simp only [hp, holds, won, preStore, pastStore, wErr, knowsSet, obsErr, chanOf, knowsCh, crOf, isPanic, sentSt, isClosing, isGStore, esOf] at a_mutex1 a_mutex2 a_uniq a_past a_pre a_werr a_knows a_obs a_chan a_kch a_crA a_sent a_esA a_gst a_closing a_quiet2 a_nopanic
  obtain ⟨h1, h2, h3, h4, h5, h6, h7, h8, h9, h10, h11, h12, h13, h14, h15, h16, h17, h18, h19, h20, h21, h22, h23, h24, h25⟩ := h
  sig_step_tac

theorem step_sLock_B (s : State) (t : Tid) (e : _) (h : Inv s) (hp : s.pc t = .sLock e) :
    ∀ s', step s t = some s' → InvB s' := by
  have a_mutex1 := h.mutex1 t
  have a_mutex2 := h.mutex2 t
  have a_uniq := h.uniq t
  have a_past := h.past t
  have a_pre := h.pre t
  have a_werr := h.werr t
  have a_knows := h.knows t
  have a_obs := h.obs t
  have a_chan := h.chan t
  have a_kch := h.kch t
  have a_crA := h.crA t
  have a_sent := h.sent t
  have a_esA := h.esA t
  have a_gst := h.gst t
  have a_closing := h.closing t
  have a_quiet2 := h.quiet2 t
  have a_nopanic := h.nopanic t
  simp only [hp, holds, won, preStore, pastStore, wErr, knowsSet, obsErr, chanOf, knowsCh, crOf, isPanic, sentSt, isClosing, isGStore, esOf] at a_mutex1 a_mutex2 a_uniq a_past a_pre a_werr a_knows a_obs a_chan a_kch a_crA a_sent a_esA a_gst a_closing a_quiet2 a_nopanic
  obtain ⟨h1, h2, h3, h4, h5, h6, h7, h8, h9, h10, h11, h12, h13, h14, h15, h16, h17, h18, h19, h20, h21, h22, h23, h24, h25⟩ := h
  sig_step_tac

theorem step_sLock_C (s : State) (t : Tid) (e : _) (h : Inv s) (hp : s.pc t = .sLock e) :
    ∀ s', step s t = some s' → InvC s' := by
  have a_mutex1 := h.mutex1 t
  have a_mutex2 := h.mutex2 t
  have a_uniq := h.uniq t
  have a_past := h.past t
  have a_pre := h.pre t
  have a_werr := h.werr t
  have a_knows := h.knows t
  have a_obs := h.obs t
  have a_chan := h.chan t
  have a_kch := h.kch t
  have a_crA := h.crA t
  have a_sent := h.sent t
  have a_esA := h.esA t
  have a_gst := h.gst t
  have a_closing := h.closing t
  have a_quiet2 := h.quiet2 t
  have a_nopanic := h.nopanic t
  simp only [hp, holds, won, preStore, pastStore, wErr, knowsSet, obsErr, chanOf, knowsCh, crOf, isPanic, sentSt, isClosing, isGStore, esOf] at a_mutex1 a_mutex2 a_uniq a_past a_pre a_werr a_knows a_obs a_chan a_kch a_crA a_sent a_esA a_gst a_closing a_quiet2 a_nopanic
  obtain ⟨h1, h2, h3, h4, h5, h6, h7, h8, h9, h10, h11, h12, h13, h14, h15, h16, h17, h18, h19, h20, h21, h22, h23, h24, h25⟩ := h
  sig_step_tac

theorem step_sLock (s : State) (t : Tid) (e : _) (h : Inv s) (hp : s.pc t = .sLock e) :
    ∀ s', step s t = some s' → Inv s' := fun s' hs =>
  Inv.ofParts (step_sLock_A s t e h hp s' hs) (step_sLock_B s t e h hp s' hs) (step_sLock_C s t e h hp s' hs)

theorem step_sRead_A (s : State) (t : Tid) (e : _) (h : Inv s) (hp : s.pc t = .sRead e) :
    ∀ s', step s t = some s' → InvA s' := by
  have a_mutex1 := h.mutex1 t
  have a_mutex2 := h.mutex2 t
  have a_uniq := h.uniq t
  have a_past := h.past t
  have a_pre := h.pre t
  have a_werr := h.werr t
  have a_knows := h.knows t
  have a_obs := h.obs t
  have a_chan := h.chan t
  have a_kch := h.kch t
  have a_crA := h.crA t
  have a_sent := h.sent t
  have a_esA := h.esA t
  have a_gst := h.gst t
  have a_closing := h.closing t
  have a_quiet2 := h.quiet2 t
  have a_nopanic := h.nopanic t
  simp only [hp, holds, won, preStore, pastStore, wErr, knowsSet, obsErr, chanOf, knowsCh, crOf, isPanic, sentSt, isClosing, isGStore, esOf] at a_mutex1 a_mutex2 a_uniq a_past a_pre a_werr a_knows a_obs a_chan a_kch a_crA a_sent a_esA a_gst a_closing a_quiet2 a_nopanic
  obtain ⟨h1, h2, h3, h4, h5, h6, h7, h8, h9, h10, h11, h12, h13, h14, h15, h16, h17, h18, h19, h20, h21, h22, h23, h24, h25⟩ := h
  sig_step_tac

theorem step_sRead_B (s : State) (t : Tid) (e : _) (h : Inv s) (hp : s.pc t = .sRead e) :
    ∀ s', step s t = some s' → InvB s' := by
  have a_mutex1 := h.mutex1 t
  have a_mutex2 := h.mutex2 t
  have a_uniq := h.uniq t
  have a_past := h.past t
  have a_pre := h.pre t
  have a_werr := h.werr t
  have a_knows := h.knows t
  have a_obs := h.obs t
  have a_chan := h.chan t
  have a_kch := h.kch t
  have a_crA := h.crA t
  have a_sent := h.sent t
  have a_esA := h.esA t
  have a_gst := h.gst t
  have a_closing := h.closing t
  have a_quiet2 := h.quiet2 t
  have a_nopanic := h.nopanic t
  simp only [hp, holds, won, preStore, pastStore, wErr, knowsSet, obsErr, chanOf, knowsCh, crOf, isPanic, sentSt, isClosing, isGStore, esOf] at a_mutex1 a_mutex2 a_uniq a_past a_pre a_werr a_knows a_obs a_chan a_kch a_crA a_sent a_esA a_gst a_closing a_quiet2 a_nopanic
  obtain ⟨h1, h2, h3, h4, h5, h6, h7, h8, h9, h10, h11, h12, h13, h14, h15, h16, h17, h18, h19, h20, h21, h22, h23, h24, h25⟩ := h
  sig_step_tac

theorem step_sRead_C (s : State) (t : Tid) (e : _) (h : Inv s) (hp : s.pc t = .sRead e) :
    ∀ s', step s t = some s' → InvC s' := by
  have a_mutex1 := h.mutex1 t
  have a_mutex2 := h.mutex2 t
  have a_uniq := h.uniq t
  have a_past := h.past t
  have a_pre := h.pre t
  have a_werr := h.werr t
  have a_knows := h.knows t
  have a_obs := h.obs t
  have a_chan := h.chan t
  have a_kch := h.kch t
  have a_crA := h.crA t
  have a_sent := h.sent t
  have a_esA := h.esA t
  have a_gst := h.gst t
  have a_closing := h.closing t
  have a_quiet2 := h.quiet2 t
  have a_nopanic := h.nopanic t
  simp only [hp, holds, won, preStore, pastStore, wErr, knowsSet, obsErr, chanOf, knowsCh, crOf, isPanic, sentSt, isClosing, isGStore, esOf] at a_mutex1 a_mutex2 a_uniq a_past a_pre a_werr a_knows a_obs a_chan a_kch a_crA a_sent a_esA a_gst a_closing a_quiet2 a_nopanic
  obtain ⟨h1, h2, h3, h4, h5, h6, h7, h8, h9, h10, h11, h12, h13, h14, h15, h16, h17, h18, h19, h20, h21, h22, h23, h24, h25⟩ := h
  sig_step_tac

theorem step_sRead (s : State) (t : Tid) (e : _) (h : Inv s) (hp : s.pc t = .sRead e) :
    ∀ s', step s t = some s' → Inv s' := fun s' hs =>
  Inv.ofParts (step_sRead_A s t e h hp s' hs) (step_sRead_B s t e h hp s' hs) (step_sRead_C s t e h hp s' hs)

theorem step_sWriteErr_A (s : State) (t : Tid) (e : _) (cr : _) (h : Inv s) (hp : s.pc t = .sWriteErr e cr) :
    ∀ s', step s t = some s' → InvA s' := by
  have a_mutex1 := h.mutex1 t
  have a_mutex2 := h.mutex2 t
  have a_uniq := h.uniq t
  have a_past := h.past t
  have a_pre := h.pre t
  have a_werr := h.werr t
  have a_knows := h.knows t
  have a_obs := h.obs t
  have a_chan := h.chan t
  have a_kch := h.kch t
  have a_crA := h.crA t
  have a_sent := h.sent t
  have a_esA := h.esA t
  have a_gst := h.gst t
  have a_closing := h.closing t
  have a_quiet2 := h.quiet2 t
  have a_nopanic := h.nopanic t
  simp only [hp, holds, won, preStore, pastStore, wErr, knowsSet, obsErr, chanOf, knowsCh, crOf, isPanic, sentSt, isClosing, isGStore, esOf] at a_mutex1 a_mutex2 a_uniq a_past a_pre a_werr a_knows a_obs a_chan a_kch a_crA a_sent a_esA a_gst a_closing a_quiet2 a_nopanic
  obtain ⟨h1, h2, h3, h4, h5, h6, h7, h8, h9, h10, h11, h12, h13, h14, h15, h16, h17, h18, h19, h20, h21, h22, h23, h24, h25⟩ := h
  sig_step_tac

theorem step_sWriteErr_B (s : State) (t : Tid) (e : _) (cr : _) (h : Inv s) (hp : s.pc t = .sWriteErr e cr) :
    ∀ s', step s t = some s' → InvB s' := by
  have a_mutex1 := h.mutex1 t
  have a_mutex2 := h.mutex2 t
  have a_uniq := h.uniq t
  have a_past := h.past t
  have a_pre := h.pre t
  have a_werr := h.werr t
  have a_knows := h.knows t
  have a_obs := h.obs t
  have a_chan := h.chan t
  have a_kch := h.kch t
  have a_crA := h.crA t
  have a_sent := h.sent t
  have a_esA := h.esA t
  have a_gst := h.gst t
  have a_closing := h.closing t
  have a_quiet2 := h.quiet2 t
  have a_nopanic := h.nopanic t
  simp only [hp, holds, won, preStore, pastStore, wErr, knowsSet, obsErr, chanOf, knowsCh, crOf, isPanic, sentSt, isClosing, isGStore, esOf] at a_mutex1 a_mutex2 a_uniq a_past a_pre a_werr a_knows a_obs a_chan a_kch a_crA a_sent a_esA a_gst a_closing a_quiet2 a_nopanic
  obtain ⟨h1, h2, h3, h4, h5, h6, h7, h8, h9, h10, h11, h12, h13, h14, h15, h16, h17, h18, h19, h20, h21, h22, h23, h24, h25⟩ := h
  sig_step_tac

theorem step_sWriteErr_C (s : State) (t : Tid) (e : _) (cr : _) (h : Inv s) (hp : s.pc t = .sWriteErr e cr) :
    ∀ s', step s t = some s' → InvC s' := by
  have a_mutex1 := h.mutex1 t
  have a_mutex2 := h.mutex2 t
  have a_uniq := h.uniq t
  have a_past := h.past t
  have a_pre := h.pre t
  have a_werr := h.werr t
  have a_knows := h.knows t
  have a_obs := h.obs t
  have a_chan := h.chan t
  have a_kch := h.kch t
  have a_crA := h.crA t
  have a_sent := h.sent t
  have a_esA := h.esA t
  have a_gst := h.gst t
  have a_closing := h.closing t
  have a_quiet2 := h.quiet2 t
  have a_nopanic := h.nopanic t
  simp only [hp, holds, won, preStore, pastStore, wErr, knowsSet, obsErr, chanOf, knowsCh, crOf, isPanic, sentSt, isClosing, isGStore, esOf] at a_mutex1 a_mutex2 a_uniq a_past a_pre a_werr a_knows a_obs a_chan a_kch a_crA a_sent a_esA a_gst a_closing a_quiet2 a_nopanic
  obtain ⟨h1, h2, h3, h4, h5, h6, h7, h8, h9, h10, h11, h12, h13, h14, h15, h16, h17, h18, h19, h20, h21, h22, h23, h24, h25⟩ := h
  sig_step_tac

theorem step_sWriteErr (s : State) (t : Tid) (e : _) (cr : _) (h : Inv s) (hp : s.pc t = .sWriteErr e cr) :
    ∀ s', step s t = some s' → Inv s' := fun s' hs =>
  Inv.ofParts (step_sWriteErr_A s t e cr h hp s' hs) (step_sWriteErr_B s t e cr h hp s' hs) (step_sWriteErr_C s t e cr h hp s' hs)

theorem step_sWriteCh_A (s : State) (t : Tid) (e : _) (cr : _) (h : Inv s) (hp : s.pc t = .sWriteCh e cr) :
    ∀ s', step s t = some s' → InvA s' := by
  have a_mutex1 := h.mutex1 t
  have a_mutex2 := h.mutex2 t
  have a_uniq := h.uniq t
  have a_past := h.past t
  have a_pre := h.pre t
  have a_werr := h.werr t
  have a_knows := h.knows t
  have a_obs := h.obs t
  have a_chan := h.chan t
  have a_kch := h.kch t
  have a_crA := h.crA t
  have a_sent := h.sent t
  have a_esA := h.esA t
  have a_gst := h.gst t
  have a_closing := h.closing t
  have a_quiet2 := h.quiet2 t
  have a_nopanic := h.nopanic t
  simp only [hp, holds, won, preStore, pastStore, wErr, knowsSet, obsErr, chanOf, knowsCh, crOf, isPanic, sentSt, isClosing, isGStore, esOf] at a_mutex1 a_mutex2 a_uniq a_past a_pre a_werr a_knows a_obs a_chan a_kch a_crA a_sent a_esA a_gst a_closing a_quiet2 a_nopanic
  obtain ⟨h1, h2, h3, h4, h5, h6, h7, h8, h9, h10, h11, h12, h13, h14, h15, h16, h17, h18, h19, h20, h21, h22, h23, h24, h25⟩ := h
  sig_step_tac

theorem step_sWriteCh_B (s : State) (t : Tid) (e : _) (cr : _) (h : Inv s) (hp : s.pc t = .sWriteCh e cr) :
    ∀ s', step s t = some s' → InvB s' := by
  have a_mutex1 := h.mutex1 t
  have a_mutex2 := h.mutex2 t
  have a_uniq := h.uniq t
  have a_past := h.past t
  have a_pre := h.pre t
  have a_werr := h.werr t
  have a_knows := h.knows t
  have a_obs := h.obs t
  have a_chan := h.chan t
  have a_kch := h.kch t
  have a_crA := h.crA t
  have a_sent := h.sent t
  have a_esA := h.esA t
  have a_gst := h.gst t
  have a_closing := h.closing t
  have a_quiet2 := h.quiet2 t
  have a_nopanic := h.nopanic t
  simp only [hp, holds, won, preStore, pastStore, wErr, knowsSet, obsErr, chanOf, knowsCh, crOf, isPanic, sentSt, isClosing, isGStore, esOf] at a_mutex1 a_mutex2 a_uniq a_past a_pre a_werr a_knows a_obs a_chan a_kch a_crA a_sent a_esA a_gst a_closing a_quiet2 a_nopanic
  obtain ⟨h1, h2, h3, h4, h5, h6, h7, h8, h9, h10, h11, h12, h13, h14, h15, h16, h17, h18, h19, h20, h21, h22, h23, h24, h25⟩ := h
  sig_step_tac

theorem step_sWriteCh_C (s : State) (t : Tid) (e : _) (cr : _) (h : Inv s) (hp : s.pc t = .sWriteCh e cr) :
    ∀ s', step s t = some s' → InvC s' := by
  have a_mutex1 := h.mutex1 t
  have a_mutex2 := h.mutex2 t
  have a_uniq := h.uniq t
  have a_past := h.past t
  have a_pre := h.pre t
  have a_werr := h.werr t
  have a_knows := h.knows t
  have a_obs := h.obs t
  have a_chan := h.chan t
  have a_kch := h.kch t
  have a_crA := h.crA t
  have a_sent := h.sent t
  have a_esA := h.esA t
  have a_gst := h.gst t
  have a_closing := h.closing t
  have a_quiet2 := h.quiet2 t
  have a_nopanic := h.nopanic t
  simp only [hp, holds, won, preStore, pastStore, wErr, knowsSet, obsErr, chanOf, knowsCh, crOf, isPanic, sentSt, isClosing, isGStore, esOf] at a_mutex1 a_mutex2 a_uniq a_past a_pre a_werr a_knows a_obs a_chan a_kch a_crA a_sent a_esA a_gst a_closing a_quiet2 a_nopanic
  obtain ⟨h1, h2, h3, h4, h5, h6, h7, h8, h9, h10, h11, h12, h13, h14, h15, h16, h17, h18, h19, h20, h21, h22, h23, h24, h25⟩ := h
  sig_step_tac

theorem step_sWriteCh (s : State) (t : Tid) (e : _) (cr : _) (h : Inv s) (hp : s.pc t = .sWriteCh e cr) :
    ∀ s', step s t = some s' → Inv s' := fun s' hs =>
  Inv.ofParts (step_sWriteCh_A s t e cr h hp s' hs) (step_sWriteCh_B s t e cr h hp s' hs) (step_sWriteCh_C s t e cr h hp s' hs)

theorem step_sStore_A (s : State) (t : Tid) (e : _) (cr : _) (h : Inv s) (hp : s.pc t = .sStore e cr) :
    ∀ s', step s t = some s' → InvA s' := by
  have a_mutex1 := h.mutex1 t
  have a_mutex2 := h.mutex2 t
  have a_uniq := h.uniq t
  have a_past := h.past t
  have a_pre := h.pre t
  have a_werr := h.werr t
  have a_knows := h.knows t
  have a_obs := h.obs t
  have a_chan := h.chan t
  have a_kch := h.kch t
  have a_crA := h.crA t
  have a_sent := h.sent t
  have a_esA := h.esA t
  have a_gst := h.gst t
  have a_closing := h.closing t
  have a_quiet2 := h.quiet2 t
  have a_nopanic := h.nopanic t
  simp only [hp, holds, won, preStore, pastStore, wErr, knowsSet, obsErr, chanOf, knowsCh, crOf, isPanic, sentSt, isClosing, isGStore, esOf] at a_mutex1 a_mutex2 a_uniq a_past a_pre a_werr a_knows a_obs a_chan a_kch a_crA a_sent a_esA a_gst a_closing a_quiet2 a_nopanic
  obtain ⟨h1, h2, h3, h4, h5, h6, h7, h8, h9, h10, h11, h12, h13, h14, h15, h16, h17, h18, h19, h20, h21, h22, h23, h24, h25⟩ := h
  sig_step_tac

theorem step_sStore_B (s : State) (t : Tid) (e : _) (cr : _) (h : Inv s) (hp : s.pc t = .sStore e cr) :
    ∀ s', step s t = some s' → InvB s' := by
  have a_mutex1 := h.mutex1 t
  have a_mutex2 := h.mutex2 t
  have a_uniq := h.uniq t
  have a_past := h.past t
  have a_pre := h.pre t
  have a_werr := h.werr t
  have a_knows := h.knows t
  have a_obs := h.obs t
  have a_chan := h.chan t
  have a_kch := h.kch t
  have a_crA := h.crA t
  have a_sent := h.sent t
  have a_esA := h.esA t
  have a_gst := h.gst t
  have a_closing := h.closing t
  have a_quiet2 := h.quiet2 t
  have a_nopanic := h.nopanic t
  simp only [hp, holds, won, preStore, pastStore, wErr, knowsSet, obsErr, chanOf, knowsCh, crOf, isPanic, sentSt, isClosing, isGStore, esOf] at a_mutex1 a_mutex2 a_uniq a_past a_pre a_werr a_knows a_obs a_chan a_kch a_crA a_sent a_esA a_gst a_closing a_quiet2 a_nopanic
  obtain ⟨h1, h2, h3, h4, h5, h6, h7, h8, h9, h10, h11, h12, h13, h14, h15, h16, h17, h18, h19, h20, h21, h22, h23, h24, h25⟩ := h
  sig_step_tac

theorem step_sStore_C (s : State) (t : Tid) (e : _) (cr : _) (h : Inv s) (hp : s.pc t = .sStore e cr) :
    ∀ s', step s t = some s' → InvC s' := by
  have a_mutex1 := h.mutex1 t
  have a_mutex2 := h.mutex2 t
  have a_uniq := h.uniq t
  have a_past := h.past t
  have a_pre := h.pre t
  have a_werr := h.werr t
  have a_knows := h.knows t
  have a_obs := h.obs t
  have a_chan := h.chan t
  have a_kch := h.kch t
  have a_crA := h.crA t
  have a_sent := h.sent t
  have a_esA := h.esA t
  have a_gst := h.gst t
  have a_closing := h.closing t
  have a_quiet2 := h.quiet2 t
  have a_nopanic := h.nopanic t
  simp only [hp, holds, won, preStore, pastStore, wErr, knowsSet, obsErr, chanOf, knowsCh, crOf, isPanic, sentSt, isClosing, isGStore, esOf] at a_mutex1 a_mutex2 a_uniq a_past a_pre a_werr a_knows a_obs a_chan a_kch a_crA a_sent a_esA a_gst a_closing a_quiet2 a_nopanic
  obtain ⟨h1, h2, h3, h4, h5, h6, h7, h8, h9, h10, h11, h12, h13, h14, h15, h16, h17, h18, h19, h20, h21, h22, h23, h24, h25⟩ := h
  sig_step_tac

theorem step_sStore (s : State) (t : Tid) (e : _) (cr : _) (h : Inv s) (hp : s.pc t = .sStore e cr) :
    ∀ s', step s t = some s' → Inv s' := fun s' hs =>
  Inv.ofParts (step_sStore_A s t e cr h hp s' hs) (step_sStore_B s t e cr h hp s' hs) (step_sStore_C s t e cr h hp s' hs)

theorem step_sClose_t_A (s : State) (t : Tid) (e : _) (h : Inv s) (hp : s.pc t = .sClose e true) :
    ∀ s', step s t = some s' → InvA s' := by
  have hopen := h.closing t (by simp [hp, isClosing])
  cases hch : s.ch with
  | none => simp [hch, chOpenFresh] at hopen
  | sentinel => simp [hch, chOpenFresh] at hopen
  | fresh c =>
    have hc0 : s.closes c = 0 := by simpa [hch, chOpenFresh] using hopen
    intro s' hs
    simp only [step, hp, closeCh, hch, hc0, ↓reduceIte, Option.some.injEq] at hs
    subst hs
    have a_mutex1 := h.mutex1 t
    have a_mutex2 := h.mutex2 t
    have a_uniq := h.uniq t
    have a_past := h.past t
    have a_pre := h.pre t
    have a_werr := h.werr t
    have a_knows := h.knows t
    have a_obs := h.obs t
    have a_chan := h.chan t
    have a_kch := h.kch t
    have a_crA := h.crA t
    have a_sent := h.sent t
    have a_esA := h.esA t
    have a_gst := h.gst t
    have a_closing := h.closing t
    have a_quiet2 := h.quiet2 t
    have a_nopanic := h.nopanic t
    simp only [hp, holds, won, preStore, pastStore, wErr, knowsSet, obsErr, chanOf, knowsCh, crOf, isPanic, sentSt, isClosing, isGStore, esOf] at a_mutex1 a_mutex2 a_uniq a_past a_pre a_werr a_knows a_obs a_chan a_kch a_crA a_sent a_esA a_gst a_closing a_quiet2 a_nopanic
    obtain ⟨h1, h2, h3, h4, h5, h6, h7, h8, h9, h10, h11, h12, h13, h14, h15, h16, h17, h18, h19, h20, h21, h22, h23, h24, h25⟩ := h
    sig_inv_case

theorem step_sClose_t_B (s : State) (t : Tid) (e : _) (h : Inv s) (hp : s.pc t = .sClose e true) :
    ∀ s', step s t = some s' → InvB s' := by
  have hopen := h.closing t (by simp [hp, isClosing])
  cases hch : s.ch with
  | none => simp [hch, chOpenFresh] at hopen
  | sentinel => simp [hch, chOpenFresh] at hopen
  | fresh c =>
    have hc0 : s.closes c = 0 := by simpa [hch, chOpenFresh] using hopen
    intro s' hs
    simp only [step, hp, closeCh, hch, hc0, ↓reduceIte, Option.some.injEq] at hs
    subst hs
    have a_mutex1 := h.mutex1 t
    have a_mutex2 := h.mutex2 t
    have a_uniq := h.uniq t
    have a_past := h.past t
    have a_pre := h.pre t
    have a_werr := h.werr t
    have a_knows := h.knows t
    have a_obs := h.obs t
    have a_chan := h.chan t
    have a_kch := h.kch t
    have a_crA := h.crA t
    have a_sent := h.sent t
    have a_esA := h.esA t
    have a_gst := h.gst t
    have a_closing := h.closing t
    have a_quiet2 := h.quiet2 t
    have a_nopanic := h.nopanic t
    simp only [hp, holds, won, preStore, pastStore, wErr, knowsSet, obsErr, chanOf, knowsCh, crOf, isPanic, sentSt, isClosing, isGStore, esOf] at a_mutex1 a_mutex2 a_uniq a_past a_pre a_werr a_knows a_obs a_chan a_kch a_crA a_sent a_esA a_gst a_closing a_quiet2 a_nopanic
    obtain ⟨h1, h2, h3, h4, h5, h6, h7, h8, h9, h10, h11, h12, h13, h14, h15, h16, h17, h18, h19, h20, h21, h22, h23, h24, h25⟩ := h
    sig_inv_case

theorem step_sClose_t_C (s : State) (t : Tid) (e : _) (h : Inv s) (hp : s.pc t = .sClose e true) :
    ∀ s', step s t = some s' → InvC s' := by
  have hopen := h.closing t (by simp [hp, isClosing])
  cases hch : s.ch with
  | none => simp [hch, chOpenFresh] at hopen
  | sentinel => simp [hch, chOpenFresh] at hopen
  | fresh c =>
    have hc0 : s.closes c = 0 := by simpa [hch, chOpenFresh] using hopen
    intro s' hs
    simp only [step, hp, closeCh, hch, hc0, ↓reduceIte, Option.some.injEq] at hs
    subst hs
    have a_mutex1 := h.mutex1 t
    have a_mutex2 := h.mutex2 t
    have a_uniq := h.uniq t
    have a_past := h.past t
    have a_pre := h.pre t
    have a_werr := h.werr t
    have a_knows := h.knows t
    have a_obs := h.obs t
    have a_chan := h.chan t
    have a_kch := h.kch t
    have a_crA := h.crA t
    have a_sent := h.sent t
    have a_esA := h.esA t
    have a_gst := h.gst t
    have a_closing := h.closing t
    have a_quiet2 := h.quiet2 t
    have a_nopanic := h.nopanic t
    simp only [hp, holds, won, preStore, pastStore, wErr, knowsSet, obsErr, chanOf, knowsCh, crOf, isPanic, sentSt, isClosing, isGStore, esOf] at a_mutex1 a_mutex2 a_uniq a_past a_pre a_werr a_knows a_obs a_chan a_kch a_crA a_sent a_esA a_gst a_closing a_quiet2 a_nopanic
    obtain ⟨h1, h2, h3, h4, h5, h6, h7, h8, h9, h10, h11, h12, h13, h14, h15, h16, h17, h18, h19, h20, h21, h22, h23, h24, h25⟩ := h
    sig_inv_case

theorem step_sClose_t (s : State) (t : Tid) (e : _) (h : Inv s) (hp : s.pc t = .sClose e true) :
    ∀ s', step s t = some s' → Inv s' := fun s' hs =>
  Inv.ofParts (step_sClose_t_A s t e h hp s' hs) (step_sClose_t_B s t e h hp s' hs) (step_sClose_t_C s t e h hp s' hs)

theorem step_sClose_f_A (s : State) (t : Tid) (e : _) (h : Inv s) (hp : s.pc t = .sClose e false) :
    ∀ s', step s t = some s' → InvA s' := by
  have a_mutex1 := h.mutex1 t
  have a_mutex2 := h.mutex2 t
  have a_uniq := h.uniq t
  have a_past := h.past t
  have a_pre := h.pre t
  have a_werr := h.werr t
  have a_knows := h.knows t
  have a_obs := h.obs t
  have a_chan := h.chan t
  have a_kch := h.kch t
  have a_crA := h.crA t
  have a_sent := h.sent t
  have a_esA := h.esA t
  have a_gst := h.gst t
  have a_closing := h.closing t
  have a_quiet2 := h.quiet2 t
  have a_nopanic := h.nopanic t
  simp only [hp, holds, won, preStore, pastStore, wErr, knowsSet, obsErr, chanOf, knowsCh, crOf, isPanic, sentSt, isClosing, isGStore, esOf] at a_mutex1 a_mutex2 a_uniq a_past a_pre a_werr a_knows a_obs a_chan a_kch a_crA a_sent a_esA a_gst a_closing a_quiet2 a_nopanic
  obtain ⟨h1, h2, h3, h4, h5, h6, h7, h8, h9, h10, h11, h12, h13, h14, h15, h16, h17, h18, h19, h20, h21, h22, h23, h24, h25⟩ := h
  sig_step_tac

theorem step_sClose_f_B (s : State) (t : Tid) (e : _) (h : Inv s) (hp : s.pc t = .sClose e false) :
    ∀ s', step s t = some s' → InvB s' := by
  have a_mutex1 := h.mutex1 t
  have a_mutex2 := h.mutex2 t
  have a_uniq := h.uniq t
  have a_past := h.past t
  have a_pre := h.pre t
  have a_werr := h.werr t
  have a_knows := h.knows t
  have a_obs := h.obs t
  have a_chan := h.chan t
  have a_kch := h.kch t
  have a_crA := h.crA t
  have a_sent := h.sent t
  have a_esA := h.esA t
  have a_gst := h.gst t
  have a_closing := h.closing t
  have a_quiet2 := h.quiet2 t
  have a_nopanic := h.nopanic t
  simp only [hp, holds, won, preStore, pastStore, wErr, knowsSet, obsErr, chanOf, knowsCh, crOf, isPanic, sentSt, isClosing, isGStore, esOf] at a_mutex1 a_mutex2 a_uniq a_past a_pre a_werr a_knows a_obs a_chan a_kch a_crA a_sent a_esA a_gst a_closing a_quiet2 a_nopanic
  obtain ⟨h1, h2, h3, h4, h5, h6, h7, h8, h9, h10, h11, h12, h13, h14, h15, h16, h17, h18, h19, h20, h21, h22, h23, h24, h25⟩ := h
  sig_step_tac

theorem step_sClose_f_C (s : State) (t : Tid) (e : _) (h : Inv s) (hp : s.pc t = .sClose e false) :
    ∀ s', step s t = some s' → InvC s' := by
  have a_mutex1 := h.mutex1 t
  have a_mutex2 := h.mutex2 t
  have a_uniq := h.uniq t
  have a_past := h.past t
  have a_pre := h.pre t
  have a_werr := h.werr t
  have a_knows := h.knows t
  have a_obs := h.obs t
  have a_chan := h.chan t
  have a_kch := h.kch t
  have a_crA := h.crA t
  have a_sent := h.sent t
  have a_esA := h.esA t
  have a_gst := h.gst t
  have a_closing := h.closing t
  have a_quiet2 := h.quiet2 t
  have a_nopanic := h.nopanic t
  simp only [hp, holds, won, preStore, pastStore, wErr, knowsSet, obsErr, chanOf, knowsCh, crOf, isPanic, sentSt, isClosing, isGStore, esOf] at a_mutex1 a_mutex2 a_uniq a_past a_pre a_werr a_knows a_obs a_chan a_kch a_crA a_sent a_esA a_gst a_closing a_quiet2 a_nopanic
  obtain ⟨h1, h2, h3, h4, h5, h6, h7, h8, h9, h10, h11, h12, h13, h14, h15, h16, h17, h18, h19, h20, h21, h22, h23, h24, h25⟩ := h
  sig_step_tac

theorem step_sClose_f (s : State) (t : Tid) (e : _) (h : Inv s) (hp : s.pc t = .sClose e false) :
    ∀ s', step s t = some s' → Inv s' := fun s' hs =>
  Inv.ofParts (step_sClose_f_A s t e h hp s' hs) (step_sClose_f_B s t e h hp s' hs) (step_sClose_f_C s t e h hp s' hs)

theorem step_sUnlock_A (s : State) (t : Tid) (e : _) (ok : _) (h : Inv s) (hp : s.pc t = .sUnlock e ok) :
    ∀ s', step s t = some s' → InvA s' := by
  have a_mutex1 := h.mutex1 t
  have a_mutex2 := h.mutex2 t
  have a_uniq := h.uniq t
  have a_past := h.past t
  have a_pre := h.pre t
  have a_werr := h.werr t
  have a_knows := h.knows t
  have a_obs := h.obs t
  have a_chan := h.chan t
  have a_kch := h.kch t
  have a_crA := h.crA t
  have a_sent := h.sent t
  have a_esA := h.esA t
  have a_gst := h.gst t
  have a_closing := h.closing t
  have a_quiet2 := h.quiet2 t
  have a_nopanic := h.nopanic t
  simp only [hp, holds, won, preStore, pastStore, wErr, knowsSet, obsErr, chanOf, knowsCh, crOf, isPanic, sentSt, isClosing, isGStore, esOf] at a_mutex1 a_mutex2 a_uniq a_past a_pre a_werr a_knows a_obs a_chan a_kch a_crA a_sent a_esA a_gst a_closing a_quiet2 a_nopanic
  obtain ⟨h1, h2, h3, h4, h5, h6, h7, h8, h9, h10, h11, h12, h13, h14, h15, h16, h17, h18, h19, h20, h21, h22, h23, h24, h25⟩ := h
  sig_step_tac

theorem step_sUnlock_B (s : State) (t : Tid) (e : _) (ok : _) (h : Inv s) (hp : s.pc t = .sUnlock e ok) :
    ∀ s', step s t = some s' → InvB s' := by
  have a_mutex1 := h.mutex1 t
  have a_mutex2 := h.mutex2 t
  have a_uniq := h.uniq t
  have a_past := h.past t
  have a_pre := h.pre t
  have a_werr := h.werr t
  have a_knows := h.knows t
  have a_obs := h.obs t
  have a_chan := h.chan t
  have a_kch := h.kch t
  have a_crA := h.crA t
  have a_sent := h.sent t
  have a_esA := h.esA t
  have a_gst := h.gst t
  have a_closing := h.closing t
  have a_quiet2 := h.quiet2 t
  have a_nopanic := h.nopanic t
  simp only [hp, holds, won, preStore, pastStore, wErr, knowsSet, obsErr, chanOf, knowsCh, crOf, isPanic, sentSt, isClosing, isGStore, esOf] at a_mutex1 a_mutex2 a_uniq a_past a_pre a_werr a_knows a_obs a_chan a_kch a_crA a_sent a_esA a_gst a_closing a_quiet2 a_nopanic
  obtain ⟨h1, h2, h3, h4, h5, h6, h7, h8, h9, h10, h11, h12, h13, h14, h15, h16, h17, h18, h19, h20, h21, h22, h23, h24, h25⟩ := h
  sig_step_tac

theorem step_sUnlock_C (s : State) (t : Tid) (e : _) (ok : _) (h : Inv s) (hp : s.pc t = .sUnlock e ok) :
    ∀ s', step s t = some s' → InvC s' := by
  have a_mutex1 := h.mutex1 t
  have a_mutex2 := h.mutex2 t
  have a_uniq := h.uniq t
  have a_past := h.past t
  have a_pre := h.pre t
  have a_werr := h.werr t
  have a_knows := h.knows t
  have a_obs := h.obs t
  have a_chan := h.chan t
  have a_kch := h.kch t
  have a_crA := h.crA t
  have a_sent := h.sent t
  have a_esA := h.esA t
  have a_gst := h.gst t
  have a_closing := h.closing t
  have a_quiet2 := h.quiet2 t
  have a_nopanic := h.nopanic t
  simp only [hp, holds, won, preStore, pastStore, wErr, knowsSet, obsErr, chanOf, knowsCh, crOf, isPanic, sentSt, isClosing, isGStore, esOf] at a_mutex1 a_mutex2 a_uniq a_past a_pre a_werr a_knows a_obs a_chan a_kch a_crA a_sent a_esA a_gst a_closing a_quiet2 a_nopanic
  obtain ⟨h1, h2, h3, h4, h5, h6, h7, h8, h9, h10, h11, h12, h13, h14, h15, h16, h17, h18, h19, h20, h21, h22, h23, h24, h25⟩ := h
  sig_step_tac

theorem step_sUnlock (s : State) (t : Tid) (e : _) (ok : _) (h : Inv s) (hp : s.pc t = .sUnlock e ok) :
    ∀ s', step s t = some s' → Inv s' := fun s' hs =>
  Inv.ofParts (step_sUnlock_A s t e ok h hp s' hs) (step_sUnlock_B s t e ok h hp s' hs) (step_sUnlock_C s t e ok h hp s' hs)

theorem step_gFast_A (s : State) (t : Tid) (w : _) (h : Inv s) (hp : s.pc t = .gFast w) :
    ∀ s', step s t = some s' → InvA s' := by
  have a_mutex1 := h.mutex1 t
  have a_mutex2 := h.mutex2 t
  have a_uniq := h.uniq t
  have a_past := h.past t
  have a_pre := h.pre t
  have a_werr := h.werr t
  have a_knows := h.knows t
  have a_obs := h.obs t
  have a_chan := h.chan t
  have a_kch := h.kch t
  have a_crA := h.crA t
  have a_sent := h.sent t
  have a_esA := h.esA t
  have a_gst := h.gst t
  have a_closing := h.closing t
  have a_quiet2 := h.quiet2 t
  have a_nopanic := h.nopanic t
  simp only [hp, holds, won, preStore, pastStore, wErr, knowsSet, obsErr, chanOf, knowsCh, crOf, isPanic, sentSt, isClosing, isGStore, esOf] at a_mutex1 a_mutex2 a_uniq a_past a_pre a_werr a_knows a_obs a_chan a_kch a_crA a_sent a_esA a_gst a_closing a_quiet2 a_nopanic
  obtain ⟨h1, h2, h3, h4, h5, h6, h7, h8, h9, h10, h11, h12, h13, h14, h15, h16, h17, h18, h19, h20, h21, h22, h23, h24, h25⟩ := h
  sig_step_tac

theorem step_gFast_B (s : State) (t : Tid) (w : _) (h : Inv s) (hp : s.pc t = .gFast w) :
    ∀ s', step s t = some s' → InvB s' := by
  have a_mutex1 := h.mutex1 t
  have a_mutex2 := h.mutex2 t
  have a_uniq := h.uniq t
  have a_past := h.past t
  have a_pre := h.pre t
  have a_werr := h.werr t
  have a_knows := h.knows t
  have a_obs := h.obs t
  have a_chan := h.chan t
  have a_kch := h.kch t
  have a_crA := h.crA t
  have a_sent := h.sent t
  have a_esA := h.esA t
  have a_gst := h.gst t
  have a_closing := h.closing t
  have a_quiet2 := h.quiet2 t
  have a_nopanic := h.nopanic t
  simp only [hp, holds, won, preStore, pastStore, wErr, knowsSet, obsErr, chanOf, knowsCh, crOf, isPanic, sentSt, isClosing, isGStore, esOf] at a_mutex1 a_mutex2 a_uniq a_past a_pre a_werr a_knows a_obs a_chan a_kch a_crA a_sent a_esA a_gst a_closing a_quiet2 a_nopanic
  obtain ⟨h1, h2, h3, h4, h5, h6, h7, h8, h9, h10, h11, h12, h13, h14, h15, h16, h17, h18, h19, h20, h21, h22, h23, h24, h25⟩ := h
  sig_step_tac

theorem step_gFast_C (s : State) (t : Tid) (w : _) (h : Inv s) (hp : s.pc t = .gFast w) :
    ∀ s', step s t = some s' → InvC s' := by
  have a_mutex1 := h.mutex1 t
  have a_mutex2 := h.mutex2 t
  have a_uniq := h.uniq t
  have a_past := h.past t
  have a_pre := h.pre t
  have a_werr := h.werr t
  have a_knows := h.knows t
  have a_obs := h.obs t
  have a_chan := h.chan t
  have a_kch := h.kch t
  have a_crA := h.crA t
  have a_sent := h.sent t
  have a_esA := h.esA t
  have a_gst := h.gst t
  have a_closing := h.closing t
  have a_quiet2 := h.quiet2 t
  have a_nopanic := h.nopanic t
  simp only [hp, holds, won, preStore, pastStore, wErr, knowsSet, obsErr, chanOf, knowsCh, crOf, isPanic, sentSt, isClosing, isGStore, esOf] at a_mutex1 a_mutex2 a_uniq a_past a_pre a_werr a_knows a_obs a_chan a_kch a_crA a_sent a_esA a_gst a_closing a_quiet2 a_nopanic
  obtain ⟨h1, h2, h3, h4, h5, h6, h7, h8, h9, h10, h11, h12, h13, h14, h15, h16, h17, h18, h19, h20, h21, h22, h23, h24, h25⟩ := h
  sig_step_tac

theorem step_gFast (s : State) (t : Tid) (w : _) (h : Inv s) (hp : s.pc t = .gFast w) :
    ∀ s', step s t = some s' → Inv s' := fun s' hs =>
  Inv.ofParts (step_gFast_A s t w h hp s' hs) (step_gFast_B s t w h hp s' hs) (step_gFast_C s t w h hp s' hs)

theorem step_gLock_A (s : State) (t : Tid) (w : _) (h : Inv s) (hp : s.pc t = .gLock w) :
    ∀ s', step s t = some s' → InvA s' := by
  have a_mutex1 := h.mutex1 t
  have a_mutex2 := h.mutex2 t
  have a_uniq := h.uniq t
  have a_past := h.past t
  have a_pre := h.pre t
  have a_werr := h.werr t
  have a_knows := h.knows t
  have a_obs := h.obs t
  have a_chan := h.chan t
  have a_kch := h.kch t
  have a_crA := h.crA t
  have a_sent := h.sent t
  have a_esA := h.esA t
  have a_gst := h.gst t
  have a_closing := h.closing t
  have a_quiet2 := h.quiet2 t
  have a_nopanic := h.nopanic t
  simp only [hp, holds, won, preStore, pastStore, wErr, knowsSet, obsErr, chanOf, knowsCh, crOf, isPanic, sentSt, isClosing, isGStore, esOf] at a_mutex1 a_mutex2 a_uniq a_past a_pre a_werr a_knows a_obs a_chan a_kch a_crA a_sent a_esA a_gst a_closing a_quiet2 a_nopanic
  obtain ⟨h1, h2, h3, h4, h5, h6, h7, h8, h9, h10, h11, h12, h13, h14, h15, h16, h17, h18, h19, h20, h21, h22, h23, h24, h25⟩ := h
  sig_step_tac

theorem step_gLock_B (s : State) (t : Tid) (w : _) (h : Inv s) (hp : s.pc t = .gLock w) :
    ∀ s', step s t = some s' → InvB s' := by
  have a_mutex1 := h.mutex1 t
  have a_mutex2 := h.mutex2 t
  have a_uniq := h.uniq t
  have a_past := h.past t
  have a_pre := h.pre t
  have a_werr := h.werr t
  have a_knows := h.knows t
  have a_obs := h.obs t
  have a_chan := h.chan t
  have a_kch := h.kch t
  have a_crA := h.crA t
  have a_sent := h.sent t
  have a_esA := h.esA t
  have a_gst := h.gst t
  have a_closing := h.closing t
  have a_quiet2 := h.quiet2 t
  have a_nopanic := h.nopanic t
  simp only [hp, holds, won, preStore, pastStore, wErr, knowsSet, obsErr, chanOf, knowsCh, crOf, isPanic, sentSt, isClosing, isGStore, esOf] at a_mutex1 a_mutex2 a_uniq a_past a_pre a_werr a_knows a_obs a_chan a_kch a_crA a_sent a_esA a_gst a_closing a_quiet2 a_nopanic
  obtain ⟨h1, h2, h3, h4, h5, h6, h7, h8, h9, h10, h11, h12, h13, h14, h15, h16, h17, h18, h19, h20, h21, h22, h23, h24, h25⟩ := h
  sig_step_tac

theorem step_gLock_C (s : State) (t : Tid) (w : _) (h : Inv s) (hp : s.pc t = .gLock w) :
    ∀ s', step s t = some s' → InvC s' := by
  have a_mutex1 := h.mutex1 t
  have a_mutex2 := h.mutex2 t
  have a_uniq := h.uniq t
  have a_past := h.past t
  have a_pre := h.pre t
  have a_werr := h.werr t
  have a_knows := h.knows t
  have a_obs := h.obs t
  have a_chan := h.chan t
  have a_kch := h.kch t
  have a_crA := h.crA t
  have a_sent := h.sent t
  have a_esA := h.esA t
  have a_gst := h.gst t
  have a_closing := h.closing t
  have a_quiet2 := h.quiet2 t
  have a_nopanic := h.nopanic t
  simp only [hp, holds, won, preStore, pastStore, wErr, knowsSet, obsErr, chanOf, knowsCh, crOf, isPanic, sentSt, isClosing, isGStore, esOf] at a_mutex1 a_mutex2 a_uniq a_past a_pre a_werr a_knows a_obs a_chan a_kch a_crA a_sent a_esA a_gst a_closing a_quiet2 a_nopanic
  obtain ⟨h1, h2, h3, h4, h5, h6, h7, h8, h9, h10, h11, h12, h13, h14, h15, h16, h17, h18, h19, h20, h21, h22, h23, h24, h25⟩ := h
  sig_step_tac

theorem step_gLock (s : State) (t : Tid) (w : _) (h : Inv s) (hp : s.pc t = .gLock w) :
    ∀ s', step s t = some s' → Inv s' := fun s' hs =>
  Inv.ofParts (step_gLock_A s t w h hp s' hs) (step_gLock_B s t w h hp s' hs) (step_gLock_C s t w h hp s' hs)

theorem step_gRead_A (s : State) (t : Tid) (w : _) (h : Inv s) (hp : s.pc t = .gRead w) :
    ∀ s', step s t = some s' → InvA s' := by
  have a_mutex1 := h.mutex1 t
  have a_mutex2 := h.mutex2 t
  have a_uniq := h.uniq t
  have a_past := h.past t
  have a_pre := h.pre t
  have a_werr := h.werr t
  have a_knows := h.knows t
  have a_obs := h.obs t
  have a_chan := h.chan t
  have a_kch := h.kch t
  have a_crA := h.crA t
  have a_sent := h.sent t
  have a_esA := h.esA t
  have a_gst := h.gst t
  have a_closing := h.closing t
  have a_quiet2 := h.quiet2 t
  have a_nopanic := h.nopanic t
  simp only [hp, holds, won, preStore, pastStore, wErr, knowsSet, obsErr, chanOf, knowsCh, crOf, isPanic, sentSt, isClosing, isGStore, esOf] at a_mutex1 a_mutex2 a_uniq a_past a_pre a_werr a_knows a_obs a_chan a_kch a_crA a_sent a_esA a_gst a_closing a_quiet2 a_nopanic
  obtain ⟨h1, h2, h3, h4, h5, h6, h7, h8, h9, h10, h11, h12, h13, h14, h15, h16, h17, h18, h19, h20, h21, h22, h23, h24, h25⟩ := h
  sig_step_tac

theorem step_gRead_B (s : State) (t : Tid) (w : _) (h : Inv s) (hp : s.pc t = .gRead w) :
    ∀ s', step s t = some s' → InvB s' := by
  have a_mutex1 := h.mutex1 t
  have a_mutex2 := h.mutex2 t
  have a_uniq := h.uniq t
  have a_past := h.past t
  have a_pre := h.pre t
  have a_werr := h.werr t
  have a_knows := h.knows t
  have a_obs := h.obs t
  have a_chan := h.chan t
  have a_kch := h.kch t
  have a_crA := h.crA t
  have a_sent := h.sent t
  have a_esA := h.esA t
  have a_gst := h.gst t
  have a_closing := h.closing t
  have a_quiet2 := h.quiet2 t
  have a_nopanic := h.nopanic t
  simp only [hp, holds, won, preStore, pastStore, wErr, knowsSet, obsErr, chanOf, knowsCh, crOf, isPanic, sentSt, isClosing, isGStore, esOf] at a_mutex1 a_mutex2 a_uniq a_past a_pre a_werr a_knows a_obs a_chan a_kch a_crA a_sent a_esA a_gst a_closing a_quiet2 a_nopanic
  obtain ⟨h1, h2, h3, h4, h5, h6, h7, h8, h9, h10, h11, h12, h13, h14, h15, h16, h17, h18, h19, h20, h21, h22, h23, h24, h25⟩ := h
  sig_step_tac

theorem step_gRead_C (s : State) (t : Tid) (w : _) (h : Inv s) (hp : s.pc t = .gRead w) :
    ∀ s', step s t = some s' → InvC s' := by
  have a_mutex1 := h.mutex1 t
  have a_mutex2 := h.mutex2 t
  have a_uniq := h.uniq t
  have a_past := h.past t
  have a_pre := h.pre t
  have a_werr := h.werr t
  have a_knows := h.knows t
  have a_obs := h.obs t
  have a_chan := h.chan t
  have a_kch := h.kch t
  have a_crA := h.crA t
  have a_sent := h.sent t
  have a_esA := h.esA t
  have a_gst := h.gst t
  have a_closing := h.closing t
  have a_quiet2 := h.quiet2 t
  have a_nopanic := h.nopanic t
  simp only [hp, holds, won, preStore, pastStore, wErr, knowsSet, obsErr, chanOf, knowsCh, crOf, isPanic, sentSt, isClosing, isGStore, esOf] at a_mutex1 a_mutex2 a_uniq a_past a_pre a_werr a_knows a_obs a_chan a_kch a_crA a_sent a_esA a_gst a_closing a_quiet2 a_nopanic
  obtain ⟨h1, h2, h3, h4, h5, h6, h7, h8, h9, h10, h11, h12, h13, h14, h15, h16, h17, h18, h19, h20, h21, h22, h23, h24, h25⟩ := h
  sig_step_tac

theorem step_gRead (s : State) (t : Tid) (w : _) (h : Inv s) (hp : s.pc t = .gRead w) :
    ∀ s', step s t = some s' → Inv s' := fun s' hs =>
  Inv.ofParts (step_gRead_A s t w h hp s' hs) (step_gRead_B s t w h hp s' hs) (step_gRead_C s t w h hp s' hs)

theorem step_gMake_A (s : State) (t : Tid) (w : _) (es : _) (h : Inv s) (hp : s.pc t = .gMake w es) :
    ∀ s', step s t = some s' → InvA s' := by
  have a_mutex1 := h.mutex1 t
  have a_mutex2 := h.mutex2 t
  have a_uniq := h.uniq t
  have a_past := h.past t
  have a_pre := h.pre t
  have a_werr := h.werr t
  have a_knows := h.knows t
  have a_obs := h.obs t
  have a_chan := h.chan t
  have a_kch := h.kch t
  have a_crA := h.crA t
  have a_sent := h.sent t
  have a_esA := h.esA t
  have a_gst := h.gst t
  have a_closing := h.closing t
  have a_quiet2 := h.quiet2 t
  have a_nopanic := h.nopanic t
  simp only [hp, holds, won, preStore, pastStore, wErr, knowsSet, obsErr, chanOf, knowsCh, crOf, isPanic, sentSt, isClosing, isGStore, esOf] at a_mutex1 a_mutex2 a_uniq a_past a_pre a_werr a_knows a_obs a_chan a_kch a_crA a_sent a_esA a_gst a_closing a_quiet2 a_nopanic
  obtain ⟨h1, h2, h3, h4, h5, h6, h7, h8, h9, h10, h11, h12, h13, h14, h15, h16, h17, h18, h19, h20, h21, h22, h23, h24, h25⟩ := h
  sig_step_tac

theorem step_gMake_B (s : State) (t : Tid) (w : _) (es : _) (h : Inv s) (hp : s.pc t = .gMake w es) :
    ∀ s', step s t = some s' → InvB s' := by
  have a_mutex1 := h.mutex1 t
  have a_mutex2 := h.mutex2 t
  have a_uniq := h.uniq t
  have a_past := h.past t
  have a_pre := h.pre t
  have a_werr := h.werr t
  have a_knows := h.knows t
  have a_obs := h.obs t
  have a_chan := h.chan t
  have a_kch := h.kch t
  have a_crA := h.crA t
  have a_sent := h.sent t
  have a_esA := h.esA t
  have a_gst := h.gst t
  have a_closing := h.closing t
  have a_quiet2 := h.quiet2 t
  have a_nopanic := h.nopanic t
  simp only [hp, holds, won, preStore, pastStore, wErr, knowsSet, obsErr, chanOf, knowsCh, crOf, isPanic, sentSt, isClosing, isGStore, esOf] at a_mutex1 a_mutex2 a_uniq a_past a_pre a_werr a_knows a_obs a_chan a_kch a_crA a_sent a_esA a_gst a_closing a_quiet2 a_nopanic
  obtain ⟨h1, h2, h3, h4, h5, h6, h7, h8, h9, h10, h11, h12, h13, h14, h15, h16, h17, h18, h19, h20, h21, h22, h23, h24, h25⟩ := h
  sig_step_tac

theorem step_gMake_C (s : State) (t : Tid) (w : _) (es : _) (h : Inv s) (hp : s.pc t = .gMake w es) :
    ∀ s', step s t = some s' → InvC s' := by
  have a_mutex1 := h.mutex1 t
  have a_mutex2 := h.mutex2 t
  have a_uniq := h.uniq t
  have a_past := h.past t
  have a_pre := h.pre t
  have a_werr := h.werr t
  have a_knows := h.knows t
  have a_obs := h.obs t
  have a_chan := h.chan t
  have a_kch := h.kch t
  have a_crA := h.crA t
  have a_sent := h.sent t
  have a_esA := h.esA t
  have a_gst := h.gst t
  have a_closing := h.closing t
  have a_quiet2 := h.quiet2 t
  have a_nopanic := h.nopanic t
  simp only [hp, holds, won, preStore, pastStore, wErr, knowsSet, obsErr, chanOf, knowsCh, crOf, isPanic, sentSt, isClosing, isGStore, esOf] at a_mutex1 a_mutex2 a_uniq a_past a_pre a_werr a_knows a_obs a_chan a_kch a_crA a_sent a_esA a_gst a_closing a_quiet2 a_nopanic
  obtain ⟨h1, h2, h3, h4, h5, h6, h7, h8, h9, h10, h11, h12, h13, h14, h15, h16, h17, h18, h19, h20, h21, h22, h23, h24, h25⟩ := h
  sig_step_tac

theorem step_gMake (s : State) (t : Tid) (w : _) (es : _) (h : Inv s) (hp : s.pc t = .gMake w es) :
    ∀ s', step s t = some s' → Inv s' := fun s' hs =>
  Inv.ofParts (step_gMake_A s t w es h hp s' hs) (step_gMake_B s t w es h hp s' hs) (step_gMake_C s t w es h hp s' hs)

theorem step_gStore_A (s : State) (t : Tid) (w : _) (es : _) (h : Inv s) (hp : s.pc t = .gStore w es) :
    ∀ s', step s t = some s' → InvA s' := by
  have a_mutex1 := h.mutex1 t
  have a_mutex2 := h.mutex2 t
  have a_uniq := h.uniq t
  have a_past := h.past t
  have a_pre := h.pre t
  have a_werr := h.werr t
  have a_knows := h.knows t
  have a_obs := h.obs t
  have a_chan := h.chan t
  have a_kch := h.kch t
  have a_crA := h.crA t
  have a_sent := h.sent t
  have a_esA := h.esA t
  have a_gst := h.gst t
  have a_closing := h.closing t
  have a_quiet2 := h.quiet2 t
  have a_nopanic := h.nopanic t
  simp only [hp, holds, won, preStore, pastStore, wErr, knowsSet, obsErr, chanOf, knowsCh, crOf, isPanic, sentSt, isClosing, isGStore, esOf] at a_mutex1 a_mutex2 a_uniq a_past a_pre a_werr a_knows a_obs a_chan a_kch a_crA a_sent a_esA a_gst a_closing a_quiet2 a_nopanic
  obtain ⟨h1, h2, h3, h4, h5, h6, h7, h8, h9, h10, h11, h12, h13, h14, h15, h16, h17, h18, h19, h20, h21, h22, h23, h24, h25⟩ := h
  sig_step_tac

theorem step_gStore_B (s : State) (t : Tid) (w : _) (es : _) (h : Inv s) (hp : s.pc t = .gStore w es) :
    ∀ s', step s t = some s' → InvB s' := by
  have a_mutex1 := h.mutex1 t
  have a_mutex2 := h.mutex2 t
  have a_uniq := h.uniq t
  have a_past := h.past t
  have a_pre := h.pre t
  have a_werr := h.werr t
  have a_knows := h.knows t
  have a_obs := h.obs t
  have a_chan := h.chan t
  have a_kch := h.kch t
  have a_crA := h.crA t
  have a_sent := h.sent t
  have a_esA := h.esA t
  have a_gst := h.gst t
  have a_closing := h.closing t
  have a_quiet2 := h.quiet2 t
  have a_nopanic := h.nopanic t
  simp only [hp, holds, won, preStore, pastStore, wErr, knowsSet, obsErr, chanOf, knowsCh, crOf, isPanic, sentSt, isClosing, isGStore, esOf] at a_mutex1 a_mutex2 a_uniq a_past a_pre a_werr a_knows a_obs a_chan a_kch a_crA a_sent a_esA a_gst a_closing a_quiet2 a_nopanic
  obtain ⟨h1, h2, h3, h4, h5, h6, h7, h8, h9, h10, h11, h12, h13, h14, h15, h16, h17, h18, h19, h20, h21, h22, h23, h24, h25⟩ := h
  sig_step_tac

theorem step_gStore_C (s : State) (t : Tid) (w : _) (es : _) (h : Inv s) (hp : s.pc t = .gStore w es) :
    ∀ s', step s t = some s' → InvC s' := by
  have a_mutex1 := h.mutex1 t
  have a_mutex2 := h.mutex2 t
  have a_uniq := h.uniq t
  have a_past := h.past t
  have a_pre := h.pre t
  have a_werr := h.werr t
  have a_knows := h.knows t
  have a_obs := h.obs t
  have a_chan := h.chan t
  have a_kch := h.kch t
  have a_crA := h.crA t
  have a_sent := h.sent t
  have a_esA := h.esA t
  have a_gst := h.gst t
  have a_closing := h.closing t
  have a_quiet2 := h.quiet2 t
  have a_nopanic := h.nopanic t
  simp only [hp, holds, won, preStore, pastStore, wErr, knowsSet, obsErr, chanOf, knowsCh, crOf, isPanic, sentSt, isClosing, isGStore, esOf] at a_mutex1 a_mutex2 a_uniq a_past a_pre a_werr a_knows a_obs a_chan a_kch a_crA a_sent a_esA a_gst a_closing a_quiet2 a_nopanic
  obtain ⟨h1, h2, h3, h4, h5, h6, h7, h8, h9, h10, h11, h12, h13, h14, h15, h16, h17, h18, h19, h20, h21, h22, h23, h24, h25⟩ := h
  sig_step_tac

theorem step_gStore (s : State) (t : Tid) (w : _) (es : _) (h : Inv s) (hp : s.pc t = .gStore w es) :
    ∀ s', step s t = some s' → Inv s' := fun s' hs =>
  Inv.ofParts (step_gStore_A s t w es h hp s' hs) (step_gStore_B s t w es h hp s' hs) (step_gStore_C s t w es h hp s' hs)

theorem step_gUnlock_A (s : State) (t : Tid) (w : _) (h : Inv s) (hp : s.pc t = .gUnlock w) :
    ∀ s', step s t = some s' → InvA s' := by
  have a_mutex1 := h.mutex1 t
  have a_mutex2 := h.mutex2 t
  have a_uniq := h.uniq t
  have a_past := h.past t
  have a_pre := h.pre t
  have a_werr := h.werr t
  have a_knows := h.knows t
  have a_obs := h.obs t
  have a_chan := h.chan t
  have a_kch := h.kch t
  have a_crA := h.crA t
  have a_sent := h.sent t
  have a_esA := h.esA t
  have a_gst := h.gst t
  have a_closing := h.closing t
  have a_quiet2 := h.quiet2 t
  have a_nopanic := h.nopanic t
  simp only [hp, holds, won, preStore, pastStore, wErr, knowsSet, obsErr, chanOf, knowsCh, crOf, isPanic, sentSt, isClosing, isGStore, esOf] at a_mutex1 a_mutex2 a_uniq a_past a_pre a_werr a_knows a_obs a_chan a_kch a_crA a_sent a_esA a_gst a_closing a_quiet2 a_nopanic
  obtain ⟨h1, h2, h3, h4, h5, h6, h7, h8, h9, h10, h11, h12, h13, h14, h15, h16, h17, h18, h19, h20, h21, h22, h23, h24, h25⟩ := h
  sig_step_tac

theorem step_gUnlock_B (s : State) (t : Tid) (w : _) (h : Inv s) (hp : s.pc t = .gUnlock w) :
    ∀ s', step s t = some s' → InvB s' := by
  have a_mutex1 := h.mutex1 t
  have a_mutex2 := h.mutex2 t
  have a_uniq := h.uniq t
  have a_past := h.past t
  have a_pre := h.pre t
  have a_werr := h.werr t
  have a_knows := h.knows t
  have a_obs := h.obs t
  have a_chan := h.chan t
  have a_kch := h.kch t
  have a_crA := h.crA t
  have a_sent := h.sent t
  have a_esA := h.esA t
  have a_gst := h.gst t
  have a_closing := h.closing t
  have a_quiet2 := h.quiet2 t
  have a_nopanic := h.nopanic t
  simp only [hp, holds, won, preStore, pastStore, wErr, knowsSet, obsErr, chanOf, knowsCh, crOf, isPanic, sentSt, isClosing, isGStore, esOf] at a_mutex1 a_mutex2 a_uniq a_past a_pre a_werr a_knows a_obs a_chan a_kch a_crA a_sent a_esA a_gst a_closing a_quiet2 a_nopanic
  obtain ⟨h1, h2, h3, h4, h5, h6, h7, h8, h9, h10, h11, h12, h13, h14, h15, h16, h17, h18, h19, h20, h21, h22, h23, h24, h25⟩ := h
  sig_step_tac

theorem step_gUnlock_C (s : State) (t : Tid) (w : _) (h : Inv s) (hp : s.pc t = .gUnlock w) :
    ∀ s', step s t = some s' → InvC s' := by
  have a_mutex1 := h.mutex1 t
  have a_mutex2 := h.mutex2 t
  have a_uniq := h.uniq t
  have a_past := h.past t
  have a_pre := h.pre t
  have a_werr := h.werr t
  have a_knows := h.knows t
  have a_obs := h.obs t
  have a_chan := h.chan t
  have a_kch := h.kch t
  have a_crA := h.crA t
  have a_sent := h.sent t
  have a_esA := h.esA t
  have a_gst := h.gst t
  have a_closing := h.closing t
  have a_quiet2 := h.quiet2 t
  have a_nopanic := h.nopanic t
  simp only [hp, holds, won, preStore, pastStore, wErr, knowsSet, obsErr, chanOf, knowsCh, crOf, isPanic, sentSt, isClosing, isGStore, esOf] at a_mutex1 a_mutex2 a_uniq a_past a_pre a_werr a_knows a_obs a_chan a_kch a_crA a_sent a_esA a_gst a_closing a_quiet2 a_nopanic
  obtain ⟨h1, h2, h3, h4, h5, h6, h7, h8, h9, h10, h11, h12, h13, h14, h15, h16, h17, h18, h19, h20, h21, h22, h23, h24, h25⟩ := h
  sig_step_tac

theorem step_gUnlock (s : State) (t : Tid) (w : _) (h : Inv s) (hp : s.pc t = .gUnlock w) :
    ∀ s', step s t = some s' → Inv s' := fun s' hs =>
  Inv.ofParts (step_gUnlock_A s t w h hp s' hs) (step_gUnlock_B s t w h hp s' hs) (step_gUnlock_C s t w h hp s' hs)

theorem step_gSlowRead_A (s : State) (t : Tid) (w : _) (h : Inv s) (hp : s.pc t = .gSlowRead w) :
    ∀ s', step s t = some s' → InvA s' := by
  have a_mutex1 := h.mutex1 t
  have a_mutex2 := h.mutex2 t
  have a_uniq := h.uniq t
  have a_past := h.past t
  have a_pre := h.pre t
  have a_werr := h.werr t
  have a_knows := h.knows t
  have a_obs := h.obs t
  have a_chan := h.chan t
  have a_kch := h.kch t
  have a_crA := h.crA t
  have a_sent := h.sent t
  have a_esA := h.esA t
  have a_gst := h.gst t
  have a_closing := h.closing t
  have a_quiet2 := h.quiet2 t
  have a_nopanic := h.nopanic t
  simp only [hp, holds, won, preStore, pastStore, wErr, knowsSet, obsErr, chanOf, knowsCh, crOf, isPanic, sentSt, isClosing, isGStore, esOf] at a_mutex1 a_mutex2 a_uniq a_past a_pre a_werr a_knows a_obs a_chan a_kch a_crA a_sent a_esA a_gst a_closing a_quiet2 a_nopanic
  obtain ⟨h1, h2, h3, h4, h5, h6, h7, h8, h9, h10, h11, h12, h13, h14, h15, h16, h17, h18, h19, h20, h21, h22, h23, h24, h25⟩ := h
  sig_step_tac

theorem step_gSlowRead_B (s : State) (t : Tid) (w : _) (h : Inv s) (hp : s.pc t = .gSlowRead w) :
    ∀ s', step s t = some s' → InvB s' := by
  have a_mutex1 := h.mutex1 t
  have a_mutex2 := h.mutex2 t
  have a_uniq := h.uniq t
  have a_past := h.past t
  have a_pre := h.pre t
  have a_werr := h.werr t
  have a_knows := h.knows t
  have a_obs := h.obs t
  have a_chan := h.chan t
  have a_kch := h.kch t
  have a_crA := h.crA t
  have a_sent := h.sent t
  have a_esA := h.esA t
  have a_gst := h.gst t
  have a_closing := h.closing t
  have a_quiet2 := h.quiet2 t
  have a_nopanic := h.nopanic t
  simp only [hp, holds, won, preStore, pastStore, wErr, knowsSet, obsErr, chanOf, knowsCh, crOf, isPanic, sentSt, isClosing, isGStore, esOf] at a_mutex1 a_mutex2 a_uniq a_past a_pre a_werr a_knows a_obs a_chan a_kch a_crA a_sent a_esA a_gst a_closing a_quiet2 a_nopanic
  obtain ⟨h1, h2, h3, h4, h5, h6, h7, h8, h9, h10, h11, h12, h13, h14, h15, h16, h17, h18, h19, h20, h21, h22, h23, h24, h25⟩ := h
  sig_step_tac

theorem step_gSlowRead_C (s : State) (t : Tid) (w : _) (h : Inv s) (hp : s.pc t = .gSlowRead w) :
    ∀ s', step s t = some s' → InvC s' := by
  have a_mutex1 := h.mutex1 t
  have a_mutex2 := h.mutex2 t
  have a_uniq := h.uniq t
  have a_past := h.past t
  have a_pre := h.pre t
  have a_werr := h.werr t
  have a_knows := h.knows t
  have a_obs := h.obs t
  have a_chan := h.chan t
  have a_kch := h.kch t
  have a_crA := h.crA t
  have a_sent := h.sent t
  have a_esA := h.esA t
  have a_gst := h.gst t
  have a_closing := h.closing t
  have a_quiet2 := h.quiet2 t
  have a_nopanic := h.nopanic t
  simp only [hp, holds, won, preStore, pastStore, wErr, knowsSet, obsErr, chanOf, knowsCh, crOf, isPanic, sentSt, isClosing, isGStore, esOf] at a_mutex1 a_mutex2 a_uniq a_past a_pre a_werr a_knows a_obs a_chan a_kch a_crA a_sent a_esA a_gst a_closing a_quiet2 a_nopanic
  obtain ⟨h1, h2, h3, h4, h5, h6, h7, h8, h9, h10, h11, h12, h13, h14, h15, h16, h17, h18, h19, h20, h21, h22, h23, h24, h25⟩ := h
  sig_step_tac

theorem step_gSlowRead (s : State) (t : Tid) (w : _) (h : Inv s) (hp : s.pc t = .gSlowRead w) :
    ∀ s', step s t = some s' → Inv s' := fun s' hs =>
  Inv.ofParts (step_gSlowRead_A s t w h hp s' hs) (step_gSlowRead_B s t w h hp s' hs) (step_gSlowRead_C s t w h hp s' hs)

theorem step_wRecv_A (s : State) (t : Tid) (c : _) (h : Inv s) (hp : s.pc t = .wRecv c) :
    ∀ s', step s t = some s' → InvA s' := by
  have a_mutex1 := h.mutex1 t
  have a_mutex2 := h.mutex2 t
  have a_uniq := h.uniq t
  have a_past := h.past t
  have a_pre := h.pre t
  have a_werr := h.werr t
  have a_knows := h.knows t
  have a_obs := h.obs t
  have a_chan := h.chan t
  have a_kch := h.kch t
  have a_crA := h.crA t
  have a_sent := h.sent t
  have a_esA := h.esA t
  have a_gst := h.gst t
  have a_closing := h.closing t
  have a_quiet2 := h.quiet2 t
  have a_nopanic := h.nopanic t
  simp only [hp, holds, won, preStore, pastStore, wErr, knowsSet, obsErr, chanOf, knowsCh, crOf, isPanic, sentSt, isClosing, isGStore, esOf] at a_mutex1 a_mutex2 a_uniq a_past a_pre a_werr a_knows a_obs a_chan a_kch a_crA a_sent a_esA a_gst a_closing a_quiet2 a_nopanic
  obtain ⟨h1, h2, h3, h4, h5, h6, h7, h8, h9, h10, h11, h12, h13, h14, h15, h16, h17, h18, h19, h20, h21, h22, h23, h24, h25⟩ := h
  sig_step_tac

theorem step_wRecv_B (s : State) (t : Tid) (c : _) (h : Inv s) (hp : s.pc t = .wRecv c) :
    ∀ s', step s t = some s' → InvB s' := by
  have a_mutex1 := h.mutex1 t
  have a_mutex2 := h.mutex2 t
  have a_uniq := h.uniq t
  have a_past := h.past t
  have a_pre := h.pre t
  have a_werr := h.werr t
  have a_knows := h.knows t
  have a_obs := h.obs t
  have a_chan := h.chan t
  have a_kch := h.kch t
  have a_crA := h.crA t
  have a_sent := h.sent t
  have a_esA := h.esA t
  have a_gst := h.gst t
  have a_closing := h.closing t
  have a_quiet2 := h.quiet2 t
  have a_nopanic := h.nopanic t
  simp only [hp, holds, won, preStore, pastStore, wErr, knowsSet, obsErr, chanOf, knowsCh, crOf, isPanic, sentSt, isClosing, isGStore, esOf] at a_mutex1 a_mutex2 a_uniq a_past a_pre a_werr a_knows a_obs a_chan a_kch a_crA a_sent a_esA a_gst a_closing a_quiet2 a_nopanic
  obtain ⟨h1, h2, h3, h4, h5, h6, h7, h8, h9, h10, h11, h12, h13, h14, h15, h16, h17, h18, h19, h20, h21, h22, h23, h24, h25⟩ := h
  sig_step_tac

theorem step_wRecv_C (s : State) (t : Tid) (c : _) (h : Inv s) (hp : s.pc t = .wRecv c) :
    ∀ s', step s t = some s' → InvC s' := by
  have a_mutex1 := h.mutex1 t
  have a_mutex2 := h.mutex2 t
  have a_uniq := h.uniq t
  have a_past := h.past t
  have a_pre := h.pre t
  have a_werr := h.werr t
  have a_knows := h.knows t
  have a_obs := h.obs t
  have a_chan := h.chan t
  have a_kch := h.kch t
  have a_crA := h.crA t
  have a_sent := h.sent t
  have a_esA := h.esA t
  have a_gst := h.gst t
  have a_closing := h.closing t
  have a_quiet2 := h.quiet2 t
  have a_nopanic := h.nopanic t
  simp only [hp, holds, won, preStore, pastStore, wErr, knowsSet, obsErr, chanOf, knowsCh, crOf, isPanic, sentSt, isClosing, isGStore, esOf] at a_mutex1 a_mutex2 a_uniq a_past a_pre a_werr a_knows a_obs a_chan a_kch a_crA a_sent a_esA a_gst a_closing a_quiet2 a_nopanic
  obtain ⟨h1, h2, h3, h4, h5, h6, h7, h8, h9, h10, h11, h12, h13, h14, h15, h16, h17, h18, h19, h20, h21, h22, h23, h24, h25⟩ := h
  sig_step_tac

theorem step_wRecv (s : State) (t : Tid) (c : _) (h : Inv s) (hp : s.pc t = .wRecv c) :
    ∀ s', step s t = some s' → Inv s' := fun s' hs =>
  Inv.ofParts (step_wRecv_A s t c h hp s' hs) (step_wRecv_B s t c h hp s' hs) (step_wRecv_C s t c h hp s' hs)

theorem step_getRead_A (s : State) (t : Tid)  (h : Inv s) (hp : s.pc t = .getRead) :
    ∀ s', step s t = some s' → InvA s' := by
  have a_mutex1 := h.mutex1 t
  have a_mutex2 := h.mutex2 t
  have a_uniq := h.uniq t
  have a_past := h.past t
  have a_pre := h.pre t
  have a_werr := h.werr t
  have a_knows := h.knows t
  have a_obs := h.obs t
  have a_chan := h.chan t
  have a_kch := h.kch t
  have a_crA := h.crA t
  have a_sent := h.sent t
  have a_esA := h.esA t
  have a_gst := h.gst t
  have a_closing := h.closing t
  have a_quiet2 := h.quiet2 t
  have a_nopanic := h.nopanic t
  simp only [hp, holds, won, preStore, pastStore, wErr, knowsSet, obsErr, chanOf, knowsCh, crOf, isPanic, sentSt, isClosing, isGStore, esOf] at a_mutex1 a_mutex2 a_uniq a_past a_pre a_werr a_knows a_obs a_chan a_kch a_crA a_sent a_esA a_gst a_closing a_quiet2 a_nopanic
  obtain ⟨h1, h2, h3, h4, h5, h6, h7, h8, h9, h10, h11, h12, h13, h14, h15, h16, h17, h18, h19, h20, h21, h22, h23, h24, h25⟩ := h
  sig_step_tac

theorem step_getRead_B (s : State) (t : Tid)  (h : Inv s) (hp : s.pc t = .getRead) :
    ∀ s', step s t = some s' → InvB s' := by
  have a_mutex1 := h.mutex1 t
  have a_mutex2 := h.mutex2 t
  have a_uniq := h.uniq t
  have a_past := h.past t
  have a_pre := h.pre t
  have a_werr := h.werr t
  have a_knows := h.knows t
  have a_obs := h.obs t
  have a_chan := h.chan t
  have a_kch := h.kch t
  have a_crA := h.crA t
  have a_sent := h.sent t
  have a_esA := h.esA t
  have a_gst := h.gst t
  have a_closing := h.closing t
  have a_quiet2 := h.quiet2 t
  have a_nopanic := h.nopanic t
  simp only [hp, holds, won, preStore, pastStore, wErr, knowsSet, obsErr, chanOf, knowsCh, crOf, isPanic, sentSt, isClosing, isGStore, esOf] at a_mutex1 a_mutex2 a_uniq a_past a_pre a_werr a_knows a_obs a_chan a_kch a_crA a_sent a_esA a_gst a_closing a_quiet2 a_nopanic
  obtain ⟨h1, h2, h3, h4, h5, h6, h7, h8, h9, h10, h11, h12, h13, h14, h15, h16, h17, h18, h19, h20, h21, h22, h23, h24, h25⟩ := h
  sig_step_tac

theorem step_getRead_C (s : State) (t : Tid)  (h : Inv s) (hp : s.pc t = .getRead) :
    ∀ s', step s t = some s' → InvC s' := by
  have a_mutex1 := h.mutex1 t
  have a_mutex2 := h.mutex2 t
  have a_uniq := h.uniq t
  have a_past := h.past t
  have a_pre := h.pre t
  have a_werr := h.werr t
  have a_knows := h.knows t
  have a_obs := h.obs t
  have a_chan := h.chan t
  have a_kch := h.kch t
  have a_crA := h.crA t
  have a_sent := h.sent t
  have a_esA := h.esA t
  have a_gst := h.gst t
  have a_closing := h.closing t
  have a_quiet2 := h.quiet2 t
  have a_nopanic := h.nopanic t
  simp only [hp, holds, won, preStore, pastStore, wErr, knowsSet, obsErr, chanOf, knowsCh, crOf, isPanic, sentSt, isClosing, isGStore, esOf] at a_mutex1 a_mutex2 a_uniq a_past a_pre a_werr a_knows a_obs a_chan a_kch a_crA a_sent a_esA a_gst a_closing a_quiet2 a_nopanic
  obtain ⟨h1, h2, h3, h4, h5, h6, h7, h8, h9, h10, h11, h12, h13, h14, h15, h16, h17, h18, h19, h20, h21, h22, h23, h24, h25⟩ := h
  sig_step_tac

theorem step_getRead (s : State) (t : Tid)  (h : Inv s) (hp : s.pc t = .getRead) :
    ∀ s', step s t = some s' → Inv s' := fun s' hs =>
  Inv.ofParts (step_getRead_A s t  h hp s' hs) (step_getRead_B s t  h hp s' hs) (step_getRead_C s t  h hp s' hs)

theorem step_errRead_A (s : State) (t : Tid)  (h : Inv s) (hp : s.pc t = .errRead) :
    ∀ s', step s t = some s' → InvA s' := by
  have a_mutex1 := h.mutex1 t
  have a_mutex2 := h.mutex2 t
  have a_uniq := h.uniq t
  have a_past := h.past t
  have a_pre := h.pre t
  have a_werr := h.werr t
  have a_knows := h.knows t
  have a_obs := h.obs t
  have a_chan := h.chan t
  have a_kch := h.kch t
  have a_crA := h.crA t
  have a_sent := h.sent t
  have a_esA := h.esA t
  have a_gst := h.gst t
  have a_closing := h.closing t
  have a_quiet2 := h.quiet2 t
  have a_nopanic := h.nopanic t
  simp only [hp, holds, won, preStore, pastStore, wErr, knowsSet, obsErr, chanOf, knowsCh, crOf, isPanic, sentSt, isClosing, isGStore, esOf] at a_mutex1 a_mutex2 a_uniq a_past a_pre a_werr a_knows a_obs a_chan a_kch a_crA a_sent a_esA a_gst a_closing a_quiet2 a_nopanic
  obtain ⟨h1, h2, h3, h4, h5, h6, h7, h8, h9, h10, h11, h12, h13, h14, h15, h16, h17, h18, h19, h20, h21, h22, h23, h24, h25⟩ := h
  sig_step_tac

theorem step_errRead_B (s : State) (t : Tid)  (h : Inv s) (hp : s.pc t = .errRead) :
    ∀ s', step s t = some s' → InvB s' := by
  have a_mutex1 := h.mutex1 t
  have a_mutex2 := h.mutex2 t
  have a_uniq := h.uniq t
  have a_past := h.past t
  have a_pre := h.pre t
  have a_werr := h.werr t
  have a_knows := h.knows t
  have a_obs := h.obs t
  have a_chan := h.chan t
  have a_kch := h.kch t
  have a_crA := h.crA t
  have a_sent := h.sent t
  have a_esA := h.esA t
  have a_gst := h.gst t
  have a_closing := h.closing t
  have a_quiet2 := h.quiet2 t
  have a_nopanic := h.nopanic t
  simp only [hp, holds, won, preStore, pastStore, wErr, knowsSet, obsErr, chanOf, knowsCh, crOf, isPanic, sentSt, isClosing, isGStore, esOf] at a_mutex1 a_mutex2 a_uniq a_past a_pre a_werr a_knows a_obs a_chan a_kch a_crA a_sent a_esA a_gst a_closing a_quiet2 a_nopanic
  obtain ⟨h1, h2, h3, h4, h5, h6, h7, h8, h9, h10, h11, h12, h13, h14, h15, h16, h17, h18, h19, h20, h21, h22, h23, h24, h25⟩ := h
  sig_step_tac

theorem step_errRead_C (s : State) (t : Tid)  (h : Inv s) (hp : s.pc t = .errRead) :
    ∀ s', step s t = some s' → InvC s' := by
  have a_mutex1 := h.mutex1 t
  have a_mutex2 := h.mutex2 t
  have a_uniq := h.uniq t
  have a_past := h.past t
  have a_pre := h.pre t
  have a_werr := h.werr t
  have a_knows := h.knows t
  have a_obs := h.obs t
  have a_chan := h.chan t
  have a_kch := h.kch t
  have a_crA := h.crA t
  have a_sent := h.sent t
  have a_esA := h.esA t
  have a_gst := h.gst t
  have a_closing := h.closing t
  have a_quiet2 := h.quiet2 t
  have a_nopanic := h.nopanic t
  simp only [hp, holds, won, preStore, pastStore, wErr, knowsSet, obsErr, chanOf, knowsCh, crOf, isPanic, sentSt, isClosing, isGStore, esOf] at a_mutex1 a_mutex2 a_uniq a_past a_pre a_werr a_knows a_obs a_chan a_kch a_crA a_sent a_esA a_gst a_closing a_quiet2 a_nopanic
  obtain ⟨h1, h2, h3, h4, h5, h6, h7, h8, h9, h10, h11, h12, h13, h14, h15, h16, h17, h18, h19, h20, h21, h22, h23, h24, h25⟩ := h
  sig_step_tac

theorem step_errRead (s : State) (t : Tid)  (h : Inv s) (hp : s.pc t = .errRead) :
    ∀ s', step s t = some s' → Inv s' := fun s' hs =>
  Inv.ofParts (step_errRead_A s t  h hp s' hs) (step_errRead_B s t  h hp s' hs) (step_errRead_C s t  h hp s' hs)

theorem inv_step (s s' : State) (t : Tid) (h : Inv s) (hs : step s t = some s') : Inv s' := by
  cases hp : s.pc t with
  | idle => simp [step, hp] at hs
  | panicked c => simp [step, hp] at hs
  | doneSet e ok => simp [step, hp] at hs
  | doneSignal c => simp [step, hp] at hs
  | doneWait => simp [step, hp] at hs
  | doneGet x ok => simp [step, hp] at hs
  | doneErr x => simp [step, hp] at hs
  | doneIsSet b => simp [step, hp] at hs
  | start c =>
    cases c with
    | set e => exact step_start_set s t e h hp s' hs
    | signal => exact step_start_signal s t h hp s' hs
    | wait => exact step_start_wait s t h hp s' hs
    | get => exact step_start_get s t h hp s' hs
    | err => exact step_start_err s t h hp s' hs
    | isSet => exact step_start_isSet s t h hp s' hs
  | sClose e cr =>
    cases cr with
    | true => exact step_sClose_t s t e h hp s' hs
    | false => exact step_sClose_f s t e h hp s' hs
  | sLock e => exact step_sLock s t e h hp s' hs
  | sRead e => exact step_sRead s t e h hp s' hs
  | sWriteErr e cr => exact step_sWriteErr s t e cr h hp s' hs
  | sWriteCh e cr => exact step_sWriteCh s t e cr h hp s' hs
  | sStore e cr => exact step_sStore s t e cr h hp s' hs
  | sUnlock e ok => exact step_sUnlock s t e ok h hp s' hs
  | gFast w => exact step_gFast s t w h hp s' hs
  | gLock w => exact step_gLock s t w h hp s' hs
  | gRead w => exact step_gRead s t w h hp s' hs
  | gMake w es => exact step_gMake s t w es h hp s' hs
  | gStore w es => exact step_gStore s t w es h hp s' hs
  | gUnlock w => exact step_gUnlock s t w h hp s' hs
  | gSlowRead w => exact step_gSlowRead s t w h hp s' hs
  | wRecv c => exact step_wRecv s t c h hp s' hs
  | getRead => exact step_getRead s t  h hp s' hs
  | errRead => exact step_errRead s t  h hp s' hs

theorem reach_inv (s : State) (h : Reach s) : Inv s := by
  induction h with
  | init => exact inv_init
  | call s t c _ hi ih => exact inv_call s t c ih hi
  | step s s' t _ hs ih => exact inv_step s s' t ih hs

end Drpc.Signal
