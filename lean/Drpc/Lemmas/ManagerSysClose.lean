import Drpc.Lemmas.ManagerSysTok
import Drpc.Lemmas.ManagerSysProfiles
/-
  Close completes, for the two ways the Go code uses a manager (client connection: NewClientStream from
  any number of goroutines; drpcserver.ServeOne: one NewServerStream call at a time): no manager goroutine
  is ever blocked for good in a fin-token send, because at most one stream is abandoned (created but never
  handed to manageStreams) and once one is, nobody creates another stream.
-/
set_option linter.unusedSimpArgs false
set_option linter.unusedVariables false
namespace Drpc.Manager.Sys
open Drpc.Manager

/-! ### `ReachF` with a restricted environment -/

inductive ReachFE (E : St → Env → Prop) (soft : Bool) : St → Prop
  | init : ReachFE E soft { sh := { soft := soft } }
  | step {s s' : St} (t : Tid) (ch : Nat) : ReachFE E soft s → step s t ch = some s' → FreshStep s t → ReachFE E soft s'
  | env {s s' : St} (e : Env) : ReachFE E soft s → envStep s e = some s' → EnvF e → E s e → ReachFE E soft s'

theorem ReachFE.reachF {E : St → Env → Prop} {soft : Bool} {s : St} (h : ReachFE E soft s) : ReachF soft s := by
  induction h with
  | init => exact .init
  | step t ch _ hs hf ih => exact .step t ch ih hs hf
  | env e _ hs he _ ih => exact .env e ih hs he

theorem reachG_of_reachFE {E : St → Env → Prop} {soft : Bool} {s : St} (h : ReachFE E soft s) :
    ∃ f c ab, ReachG E soft s f c ab := by
  induction h with
  | init => exact ⟨[], [], [], .init⟩
  | step t ch _ hs hf ih => obtain ⟨f, c, ab, hg⟩ := ih; exact ⟨_, _, _, .step t ch hg hs hf⟩
  | env e _ hs he hE ih => obtain ⟨f, c, ab, hg⟩ := ih; exact ⟨_, _, _, .env e hg hs he hE⟩

/-! ### `.mRecv _ false` / `.mEvSfin _ false` do not occur (since fix 110f4d6 every path releases the
    semaphore after the token) -/

def relFalse : PC → Bool
  | .mRecv _ rel | .mEvSfin _ rel => !rel
  | _ => false

theorem relFalse_afterTerminate (k : TK) : relFalse (afterTerminate k) = false := by cases k <;> rfl
theorem relFalse_afterCancel (r : Bool) (k : CK) : relFalse (afterCancel r k) = false := by cases k <;> cases r <;> rfl
theorem relFalse_failHolding (c : Call) : relFalse (failHolding c) = false := by cases c <;> rfl

theorem relFalse_tr {s : St} {t : Tid} {p : PC} {sh' : Sh} {p' : PC} (h : Tr s t p sh' p') (hp : relFalse p = false) :
    relFalse p' = false := by
  cases h
  all_goals first
    | rfl
    | exact hp
    | exact relFalse_afterTerminate _
    | exact relFalse_afterCancel _ _
    | exact relFalse_failHolding _

theorem norf_reach {soft : Bool} {s : St} (h : Reach soft s) : ∀ t, relFalse (s.pc t) = false := by
  induction h with
  | init =>
    intro t
    rcases init_pc soft t with h | h | h <;> rw [h] <;> rfl
  | step t ch _ hs ih =>
    obtain ⟨sh', p', htr, rfl⟩ := step_tr hs
    intro u
    rw [upd_pc]; split
    · exact relFalse_tr htr (ih t)
    · exact ih u
  | env e _ hs ih =>
    obtain ⟨t, sh', p', htr, rfl⟩ := env_tr hs
    intro u
    rw [upd_pc]; split
    · cases htr <;> first | rfl | exact ih _
    · exact ih u

/-! ### once a stream was abandoned nobody acquires the semaphore any more -/

def isSFail : PC → Bool
  | .sFailEvRel | .sFailRel => true
  | _ => false

/-- the only holder of the semaphore, if any, is a NewServerStream call on its way out; and nobody can
    acquire it: the manager is terminated and no call is past the term check, or the semaphore was
    leaked (NewClientStream returned without releasing it) -/
def Dead (s : St) : Prop :=
  (∀ u, holds s.sh (s.pc u) = true → isSFail (s.pc u) = true) ∧
  (((∀ u c, s.pc u ≠ .aSel c) ∧ s.sh.term = true) ∨ (s.sh.sem = true ∧ ∀ u, holds s.sh (s.pc u) = false))

theorem dead_frame {s : St} {t : Tid} {sh' : Sh} {p' : PC} (hd : Dead s) (hch : sh'.streamsCh = s.sh.streamsCh)
    (hsem : sh'.sem = s.sh.sem) (hterm : s.sh.term = true → sh'.term = true)
    (hh : holds s.sh p' = holds s.sh (s.pc t)) (hsf : holds s.sh p' = true → isSFail p' = true)
    (hsel : ∀ c, p' = .aSel c → s.sh.term = false ∨ s.pc t = .aSel c) : Dead (s.upd t sh' p') := by
  have hpc : ∀ u, holds sh' ((s.upd t sh' p').pc u) = holds s.sh (s.pc u) := by
    intro u
    rw [holds_congr hch, upd_pc]; split
    · subst_vars; exact hh
    · rfl
  refine ⟨?_, ?_⟩
  · intro u hu
    simp only [upd_sh] at hu
    have hu' := hu
    rw [hpc] at hu'
    rw [upd_pc] at hu ⊢
    split
    · rename_i hut
      rw [if_pos hut, holds_congr hch] at hu
      exact hsf hu
    · exact hd.1 u hu'
  · rcases hd.2 with ⟨h1, h2⟩ | ⟨h1, h2⟩
    · left
      refine ⟨?_, hterm h2⟩
      intro u c hu
      rw [upd_pc] at hu
      split at hu
      · rcases hsel c hu with h | h
        · rw [h2] at h; cases h
        · exact h1 t c h
      · exact h1 u c hu
    · right
      refine ⟨by simp only [upd_sh, hsem]; exact h1, ?_⟩
      intro u
      simp only [upd_sh]
      rw [hpc]; exact h2 u

theorem isSFail_afterTerminate (k : TK) : isSFail (afterTerminate k) = false := by cases k <;> rfl
theorem isSFail_afterCancel (r : Bool) (k : CK) : isSFail (afterCancel r k) = false := by cases k <;> cases r <;> rfl

theorem dead_tr {s : St} {t : Tid} {p : PC} {sh' : Sh} {p' : PC} (hs : Safe s) (hd : Dead s) (hp : s.pc t = p)
    (h : Tr s t p sh' p') : Dead (s.upd t sh' p') := by
  have hsrc : holds s.sh p = true → isSFail p = true := by
    intro h; rw [← hp] at h ⊢; exact hd.1 t h
  cases h
  all_goals
    first
    | (exfalso; have := hsrc rfl; cases this; done)
    | exact dead_frame hd rfl rfl (fun h => h)
        (by rw [hp]; first | rfl | exact holds_afterTerminate _ _ | exact holds_afterCancel _ _ _)
        (by first
          | (intro h; cases h; done)
          | (intro _; rfl)
          | (rw [holds_afterTerminate]; intro h; have := hsrc (by simpa [holds] using h); cases this)
          | (rw [holds_afterCancel]; intro h; have := hsrc (by simpa [holds] using h); cases this))
        (by intro c h; first
          | (cases h; done)
          | exact absurd h (ne_aSel_afterTerminate _ _)
          | exact absurd h (ne_aSel_afterCancel _ _ _)
          | exact absurd h (ne_aSel_failHolding _ _))
    | skip
  case tEvTerm k | tEvClose k | tClose k | tTport k | xCancelNow x k _ | mRecv m rel _ =>
    exact dead_frame hd rfl rfl (fun h => h) (by rw [hp]; rfl)
      (by intro h; have := hsrc (by simpa [holds] using h); cases this) (by intro c h; cases h)
  case tSetFirst k _ =>
    exact dead_frame hd rfl rfl (fun _ => rfl) (by rw [hp]; rfl)
      (by intro h; have := hsrc (by simpa [holds] using h); cases this) (by intro c h; cases h)
  case aStartGo c hterm _ =>
    exact dead_frame hd rfl rfl (fun h => h) (by rw [hp]; rfl) (by intro h; cases h) (fun _ _ => Or.inl hterm)
  case aSelAcq c hfree =>
    exfalso
    rcases hd.2 with ⟨h1, -⟩ | ⟨h1, -⟩
    · exact h1 t c hp
    · rw [hfree] at h1; cases h1
  case mTopTake sid hsid =>
    exfalso
    obtain ⟨a, k, ha⟩ := hs.sem.chOffer sid hsid
    have := hd.1 a (by rw [ha]; simp [holds, hsid])
    rw [ha] at this; cases this
  case nOfferedRetract k sid hsid _ =>
    exfalso
    have := hd.1 t (by rw [hp]; simp [holds, hsid])
    rw [hp] at this; cases this
  case nOfferedTaken k sid hne =>
    exact dead_frame hd rfl rfl (fun h => h) (by rw [hp]; simp [holds, hne]) (by intro h; cases h)
      (by intro c h; cases h)
  case sFailRel hsem =>
    have hht : holds s.sh (s.pc t) = true := by rw [hp]; rfl
    have hoth : ∀ u, u ≠ t → holds s.sh (s.pc u) = false := by
      intro u hu
      cases hx : holds s.sh (s.pc u) with
      | false => rfl
      | true => exact absurd (hs.sem.uniq u t hx hht) hu
    rcases hd.2 with ⟨h1, h2⟩ | ⟨-, h2⟩
    · refine ⟨?_, Or.inl ⟨?_, h2⟩⟩
      · intro u hu
        exfalso
        simp only [upd_sh] at hu
        rw [holds_congr (sh' := { s.sh with sem := false }) (sh := s.sh) rfl, upd_pc] at hu
        split at hu
        · cases hu
        · rename_i hne; rw [hoth u hne] at hu; cases hu
      · intro u c hu
        rw [upd_pc] at hu
        split at hu
        · cases hu
        · exact h1 u c hu
    · rw [h2 t] at hht; cases hht

theorem dead_etr {s : St} {t : Tid} {sh' : Sh} {p' : PC} (hd : Dead s) (h : ETr s t sh' p') : Dead (s.upd t sh' p') := by
  cases h
  all_goals
    first
    | exact dead_frame hd rfl rfl (fun h => h) rfl (fun h => hd.1 _ h) (fun _ h => Or.inr h)
    | exact dead_frame hd rfl rfl (fun h => h) (by simp [*, holds, TK.hold]) (by intro h; cases h) (by intro c h; cases h)
    | skip

/-- at most one stream is abandoned, and then nobody acquires the semaphore any more -/
def Prof (s : St) (ab : List Sid) : Prop := ab.length ≤ 1 ∧ (ab ≠ [] → Dead s)

theorem prof_tr {s : St} {t : Tid} {p : PC} {sh' : Sh} {p' : PC} {ab : List Sid} (hs : Safe s) (hpf : Prof s ab)
    (hp : s.pc t = p) (h : Tr s t p sh' p')
    (hret : ∀ k sid, p = .nEvRetract k sid → k = .client ∨ ∀ u c, s.pc u ≠ .aSel c) :
    Prof (s.upd t sh' p') (dAb p ++ ab) := by
  cases p
  all_goals first
    | exact ⟨hpf.1, fun hne => dead_tr hs (hpf.2 hne) hp h⟩
    | skip
  case nEvRetract k sid =>
    have hht : holds s.sh (s.pc t) = true := by rw [hp]; rfl
    have hab : ab = [] := by
      cases ab with
      | nil => rfl
      | cons a l =>
        have := (hpf.2 (by simp)).1 t hht
        rw [hp] at this; cases this
    subst hab
    refine ⟨by simp [dAb], fun _ => ?_⟩
    have hoth : ∀ u, u ≠ t → holds s.sh (s.pc u) = false := by
      intro u hu
      cases hx : holds s.sh (s.pc u) with
      | false => rfl
      | true => exact absurd (hs.sem.uniq u t hx hht) hu
    have hterm := hs.loc.retr t k sid hp
    have hwf := (hs.typ t).2
    rw [hp] at hwf
    cases h
    have hhold' : ∀ u, holds (s.sh.emit (.newRetract sid)) ((s.upd t (s.sh.emit (.newRetract sid)) (failHolding k)).pc u) = true →
        u = t ∧ k = .server := by
      intro u hu
      rw [holds_congr (sh' := s.sh.emit (.newRetract sid)) (sh := s.sh) rfl, upd_pc] at hu
      split at hu
      · rename_i hut
        refine ⟨hut, ?_⟩
        cases k
        · cases hu
        · rfl
        · cases hu
      · rename_i hne; rw [hoth u hne] at hu; cases hu
    refine ⟨?_, ?_⟩
    · intro u hu
      obtain ⟨rfl, rfl⟩ := hhold' u hu
      rw [upd_pc_self]; rfl
    · rcases hret k sid rfl with rfl | hno
      · right
        refine ⟨hs.sem.held t hht, ?_⟩
        intro u
        cases hx : holds (s.sh.emit (.newRetract sid)) ((s.upd t (s.sh.emit (.newRetract sid)) (failHolding .client)).pc u) with
        | false => exact hx
        | true => have := (hhold' u hx).2; cases this
      · left
        refine ⟨?_, hterm⟩
        intro u c hu
        rw [upd_pc] at hu
        split at hu
        · exact absurd hu (ne_aSel_failHolding _ _)
        · exact hno u c hu

theorem prof_etr {s : St} {t : Tid} {sh' : Sh} {p' : PC} {ab : List Sid} (hpf : Prof s ab) (h : ETr s t sh' p') :
    Prof (s.upd t sh' p') ab :=
  ⟨hpf.1, fun hne => dead_etr (hpf.2 hne) h⟩

theorem ReachG.reachFE {E : St → Env → Prop} {soft : Bool} {s : St} {f c ab : List Sid} (h : ReachG E soft s f c ab) :
    ReachFE E soft s := by
  induction h with
  | init => exact .init
  | step t ch _ hs hf ih => exact .step t ch ih hs hf
  | env e _ hs he hE ih => exact .env e ih hs he hE

theorem prof_reachG {E : St → Env → Prop} {soft : Bool}
    (hR : ∀ s, ReachFE E soft s → ∀ t k sid, s.pc t = .nEvRetract k sid → k = .client ∨ ∀ u c, s.pc u ≠ .aSel c)
    {s : St} {f c ab : List Sid} (h : ReachG E soft s f c ab) : Prof s ab := by
  induction h with
  | init => exact ⟨Nat.zero_le _, fun h => absurd rfl h⟩
  | @step s0 s1 f0 c0 ab0 t ch hr hs hf ih =>
    obtain ⟨sh', p', htr, rfl⟩ := step_tr hs
    exact prof_tr (safe_reachF hr.reachF) ih rfl htr (fun k sid hk => hR s0 hr.reachFE t k sid hk)
  | env e _ hs _ _ ih =>
    obtain ⟨t, sh', p', htr, rfl⟩ := env_tr hs
    exact prof_etr ih htr

/-! ### no manager goroutine is blocked for good in a fin-token send -/

theorem exists_two_not_mem {c f : List Nat} (hf : f.Nodup) (h : c.length + 2 ≤ f.length) :
    ∃ x ∈ f, ∃ y ∈ f, x ∉ c ∧ y ∉ c ∧ x ≠ y := by
  obtain ⟨x, hx, hxc⟩ := exists_not_mem_of_length_lt (c := c) hf (by omega)
  obtain ⟨y, hy, hyc⟩ := exists_not_mem_of_length_lt (c := x :: c) hf (by simp; omega)
  simp only [List.mem_cons, not_or] at hyc
  exact ⟨x, hx, y, hy, hxc, hyc.2, fun h => hyc.1 h.symm⟩

theorem not_sfail_of_mgrPre {p : PC} {z : Sid} (h : mgrPre p = some z) : isSFail p = false := by
  cases p <;> simp [mgrPre, mgrSid] at h <;> rfl

theorem not_sfail_of_nSid {p : PC} {z : Sid} (h : nSid p = some z) : isSFail p = false := by
  cases p <;> simp [nSid] at h <;> rfl

theorem mgrPre_nSid_disjoint {p : PC} {a b : Sid} (h1 : mgrPre p = some a) (h2 : nSid p = some b) : False := by
  cases p <;> simp [nSid] at h2 <;> simp [mgrPre, mgrSid] at h1

/-- a stream that is made and whose token manageStream has not received is the one the holder of the
    semaphore works on, or the abandoned one: there is at most one -/
theorem unconsumed_unique {s : St} {f c ab : List Sid} (hs : Safe s) (ha : Acc s f c ab) (hpf : Prof s ab)
    (hnorf : ∀ t, relFalse (s.pc t) = false) {z1 z2 : Sid} (h1 : (s.sh.strm z1).made = true)
    (h2 : (s.sh.strm z2).made = true) (hc1 : z1 ∉ c) (hc2 : z2 ∉ c) : z1 = z2 := by
  -- the thread responsible for a stream that is neither received-for nor abandoned holds the semaphore
  have hcls : ∀ z, (s.sh.strm z).made = true → z ∉ c → z ∈ ab ∨
      ∃ u, holds s.sh (s.pc u) = true ∧ isSFail (s.pc u) = false ∧ (mgrPre (s.pc u) = some z ∨ nSid (s.pc u) = some z) := by
    intro z hz hzc
    rcases ha.b.d1 z hz with h | ⟨u, hu⟩ | h | ⟨u, hu1, hu2⟩
    · exact absurd h hzc
    · right
      refine ⟨u, holds_of_mgrPre hs hu ?_, not_sfail_of_mgrPre hu, Or.inl hu⟩
      intro sid hp
      have := hnorf u; rw [hp] at this; cases this
    · exact Or.inl h
    · exact Or.inr ⟨u, holds_of_live hu1 hu2, not_sfail_of_nSid hu1, Or.inr hu1⟩
  rcases hcls z1 h1 hc1 with ha1 | ⟨u1, hh1, hs1, hz1⟩
  · -- an abandoned stream: nobody works on a stream any more
    have hdead := hpf.2 (by intro h; rw [h] at ha1; cases ha1)
    rcases hcls z2 h2 hc2 with ha2 | ⟨u2, hh2, hs2, -⟩
    · have hlen := hpf.1
      cases ab with
      | nil => cases ha1
      | cons a l =>
        cases l with
        | nil => simp at ha1 ha2; rw [ha1, ha2]
        | cons b l' => simp at hlen
    · have := hdead.1 u2 hh2; rw [hs2] at this; cases this
  · rcases hcls z2 h2 hc2 with ha2 | ⟨u2, hh2, hs2, hz2⟩
    · have hdead := hpf.2 (by intro h; rw [h] at ha2; cases ha2)
      have := hdead.1 u1 hh1; rw [hs1] at this; cases this
    · have hu := hs.sem.uniq u1 u2 hh1 hh2
      subst hu
      rcases hz1 with a | a <;> rcases hz2 with b | b
      · rw [a] at b; cases b; rfl
      · exact (mgrPre_nSid_disjoint a b).elim
      · exact (mgrPre_nSid_disjoint b a).elim
      · rw [a] at b; cases b; rfl

/-- in a quiescent state neither the reader nor manageStream is at a fin-token send -/
theorem no_tok_block {s : St} {f c ab : List Sid} (hs : Safe s) (ha : Acc s f c ab) (hpf : Prof s ab)
    (hnorf : ∀ t, relFalse (s.pc t) = false) (hst : Stuck s) (hq : EnvQuiet s) :
    tokPc (s.pc readerTid) = 0 ∧ tokPc (s.pc mgrTid) = 0 := by
  have key : ∀ u, (u = readerTid ∨ u = mgrTid) → tokPc (s.pc u) = 0 := by
    intro u hu
    cases hx : tokPc (s.pc u) with
    | zero => rfl
    | succ n =>
      exfalso
      have hsf := sfin_of_blocked_tok (blocked_of_not_enabled (hst u)) (by rw [hx]; simp)
      have hT : 2 ≤ tokT s := by
        unfold tokT
        rw [hsf]
        rcases hu with rfl | rfl <;> (rw [hx]; simp; omega)
      have h1 := ha.t.a1
      obtain ⟨x, hxf, y, hyf, hxc, hyc, hxy⟩ := exists_two_not_mem (c := c) ha.t.a2.1 (by omega)
      exact hxy (unconsumed_unique hs ha hpf hnorf (made_of_fin hs ((ha.t.a2.2 x).1 hxf))
        (made_of_fin hs ((ha.t.a2.2 y).1 hyf)) hxc hyc)
  exact ⟨key _ (Or.inl rfl), key _ (Or.inr rfl)⟩

/-! ### the two profiles -/

/-- client connection: no NewServerStream call -/
def EnvNoServer (_ : St) : Env → Prop
  | .spawn _ c => c ≠ .server
  | _ => True

theorem callOf_afterTerminate'' (k : TK) : callOf (afterTerminate k) = none := by cases k <;> rfl

theorem tr_callOf_eq {s : St} {t : Tid} {p : PC} {sh' : Sh} {p' : PC} {c : Call} (h : Tr s t p sh' p')
    (hc : callOf p' = some c) : callOf p = some c := by
  cases h
  all_goals first
    | exact hc
    | (cases hc; done)
    | (rw [callOf_afterTerminate'] at hc; cases hc)
    | (rw [callOf_afterCancel'] at hc; cases hc)
    | skip
  case nEvRetract k sid =>
    obtain ⟨rfl, rfl⟩ := callOf_failHolding hc
    rfl

theorem client_calls {soft : Bool} {s : St} (h : ReachFE EnvNoServer soft s) :
    ∀ t c, callOf (s.pc t) = some c → c = .client := by
  induction h with
  | init =>
    intro t c hc
    rcases init_pc soft t with h | h | h <;> rw [h] at hc <;> cases hc
  | step t ch _ hs _ ih =>
    obtain ⟨sh', p', htr, rfl⟩ := step_tr hs
    intro u c hc
    rw [upd_pc] at hc; split at hc
    · exact ih t c (tr_callOf_eq htr hc)
    · exact ih u c hc
  | @env s0 s1 e hr hs hF hE ih =>
    intro u c hc
    have hty := typ_reachF (ReachFE.reachF (.env e hr hs hF hE))
    have hu2 : 2 ≤ u := by
      apply tid_of_cl hty
      cases hq : s1.pc u <;> rw [hq] at hc <;> simp [callOf] at hc <;> rfl
    cases e with
    | spawn t' k =>
      by_cases hut : u = t'
      · subst hut
        simp only [envStep] at hs
        split at hs
        · cases hs
          rw [setPc_eq_upd, upd_pc_self] at hc
          cases k
          · cases hc; rfl
          · exact absurd rfl hE
          · cases hc
        · cases hs
      · rw [env_pc_spawn hs u hut] at hc
        exact ih u c hc
    | _ =>
      rw [env_pc_other hs (by intro t' k h; cases h) u hu2] at hc
      exact ih u c hc

theorem reachFE_of_serve {soft : Bool} {s : St} (h : ReachServe soft s) : ReachFE EnvServe soft s := by
  induction h with
  | init => exact .init
  | @step s0 s1 t ch hr hs ih =>
    obtain ⟨hF, ps, hrun, hsim⟩ := sim_reachP (reachP_of_serve hr).1
    exact .step t ch ih hs (fresh_of_sim (safe_reachF hF) hsim t)
  | env e _ hs hp ih => exact .env e ih hs (envF_of_envP (envP_of_envServe hp)) hp

theorem serve_of_reachFE {soft : Bool} {s : St} (h : ReachFE EnvServe soft s) : ReachServe soft s := by
  induction h with
  | init => exact .init
  | step t ch _ hs _ ih => exact .step t ch ih hs
  | env e _ hs _ hp ih => exact .env e ih hs hp

/-- Close completes on a client connection's manager -/
theorem closed_client {soft : Bool} {s : St} (h : ReachFE EnvNoServer soft s) (hst : Stuck s) (hq : EnvQuiet s)
    (hterm : s.sh.term = true) :
    s.sh.readDone = true ∧ s.sh.streamDone = true ∧ s.sh.tportSet = true ∧ s.sh.closes = 1 ∧
    (∃ b, s.pc readerTid = .done b) ∧ (∃ b, s.pc mgrTid = .done b) ∧
    ∀ t, s.pc t ≠ .cWaitStream ∧ s.pc t ≠ .cWaitRead ∧ s.pc t ≠ .cWaitTport := by
  obtain ⟨f, c, ab, hg⟩ := reachG_of_reachFE h
  have hs := safe_reachF h.reachF
  have ha := acc_reachG hg
  have hpf : Prof s ab := prof_reachG (fun s' h' t k sid hk =>
    Or.inl (client_calls h' t k (by rw [hk]; rfl))) hg
  obtain ⟨h1, h2⟩ := no_tok_block hs ha hpf (norf_reach h.reachF.reach) hst hq
  exact closed_of_stuck hs (lx_reachF h.reachF) ha hst hq hterm h1 h2

/-- Close completes on a manager used as drpcserver.ServeOne does -/
theorem closed_serve {soft : Bool} {s : St} (h : ReachServe soft s) (hst : Stuck s) (hq : EnvQuiet s)
    (hterm : s.sh.term = true) :
    s.sh.readDone = true ∧ s.sh.streamDone = true ∧ s.sh.tportSet = true ∧ s.sh.closes = 1 ∧
    (∃ b, s.pc readerTid = .done b) ∧ (∃ b, s.pc mgrTid = .done b) ∧
    ∀ t, s.pc t ≠ .cWaitStream ∧ s.pc t ≠ .cWaitRead ∧ s.pc t ≠ .cWaitTport := by
  have hE := reachFE_of_serve h
  obtain ⟨f, c, ab, hg⟩ := reachG_of_reachFE hE
  have hs := safe_reachF hE.reachF
  have ha := acc_reachG hg
  have hpf : Prof s ab := prof_reachG (fun s' h' t k sid hk => by
    right
    intro u c hu
    have hsg := (reachP_of_serve (serve_of_reachFE h')).2.1
    have := hsg u t (by rw [hu]; simp [callOf]) (by rw [hk]; simp [callOf])
    subst this
    rw [hk] at hu; cases hu) hg
  obtain ⟨h1, h2⟩ := no_tok_block hs ha hpf (norf_reach h.reach) hst hq
  exact closed_of_stuck hs (lx_reachF hE.reachF) ha hst hq hterm h1 h2

end Drpc.Manager.Sys
