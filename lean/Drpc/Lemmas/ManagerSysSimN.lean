import Drpc.Lemmas.ManagerSysSimR
/-
  Simulation, part "stream ids": a manager is used by one kind of caller; on a server the ids of the
  invokes forwarded by the reader increase, so every stream is created with an id larger than all
  earlier ones (`SimN`).
-/
set_option linter.unusedSimpArgs false
set_option linter.unusedVariables false
namespace Drpc.Manager.Sys
open Drpc.Manager

theorem simN_frame {role : Call} {s : St} {t : Tid} {sh' : Sh} {p' : PC} {ps ps' : PS} (hi : SimN role s ps)
    (hmade : ∀ x, (sh'.strm x).made = true → (s.sh.strm x).made = true) (hinv : sh'.invoked = s.sh.invoked)
    (hpk : ∀ q, sh'.pkts = some q → s.sh.pkts = some q ∨ ∃ u, s.pc u = .rQueue q) (hnew : ps'.newest = ps.newest)
    (hc : ∀ c, callOf p' = some c → callOf (s.pc t) = some c)
    (hq : ∀ q, p' = .rQueue q → s.pc t = .rQueue q ∨ q.kind ≠ .invoke)
    (hh : (∀ x, hsid p' = some x → hsid (s.pc t) = some x) ∨
      (role = .server → ∀ q, ¬ (sh'.pkts = some q ∨ ∃ u, (s.upd t sh' p').pc u = .rQueue q)))
    (hpo : ∀ q, pktOf p' = some q → pktOf (s.pc t) = some q)
    (hb : ∀ c x, s.pc t = .nEvBegin c x → p' = .nEvBegin c x) : SimN role (s.upd t sh' p') ps' := by
  refine ⟨?_, ?_, ?_, ?_, ?_⟩
  · intro u c hu
    rw [upd_pc] at hu
    split at hu
    · subst_vars; exact hi.callRole _ c (hc c hu)
    · exact hi.callRole u c hu
  · intro hr
    simp only [upd_sh, hinv, hnew]
    exact hi.n1 hr
  · intro hr q hq' hk
    rcases hh with hh | hh
    · simp only [upd_sh, hinv, hnew] at hq' ⊢
      have hold : s.sh.pkts = some q ∨ ∃ u, s.pc u = .rQueue q := by
        rcases hq' with h | ⟨u, hu⟩
        · exact hpk q h
        · right
          by_cases hut : u = t
          · subst hut
            rw [upd_pc_self] at hu
            rcases hq q hu with h | h
            · exact ⟨_, h⟩
            · exact absurd hk h
          · rw [upd_pc_ne _ _ _ hut] at hu; exact ⟨u, hu⟩
      obtain ⟨h1, h2, h3⟩ := hi.n3 hr q hold hk
      refine ⟨h1, h2, ?_⟩
      intro u x hu
      rw [upd_pc] at hu
      split at hu
      · subst_vars; exact h3 _ x (hh x hu)
      · exact h3 u x hu
    · exact absurd hq' (hh hr q)
  · intro u q hu hk
    simp only [upd_sh, hinv]
    rw [upd_pc] at hu
    split at hu
    · subst_vars; exact hi.n4 _ q (hpo q hu) hk
    · exact hi.n4 u q hu hk
  · intro x hx
    simp only [upd_sh] at hx
    rw [hnew]
    rcases hi.g6 x (hmade x hx) with h | ⟨u, c, hu⟩
    · exact Or.inl h
    · right
      refine ⟨u, c, ?_⟩
      rw [upd_pc]
      split
      · subst_vars; exact hb c x hu
      · exact hu

theorem made_setStrm_keep {sh : Sh} {sid : Sid} {y : SS} (hy : y.made = (sh.strm sid).made) :
    ∀ x, ((sh.setStrm sid y).strm x).made = true → (sh.strm x).made = true := by
  intro x h
  rw [setStrm_strm] at h
  split at h
  · subst_vars; rw [← hy]; exact h
  · exact h

theorem callOf_afterTerminate (k : TK) : callOf (afterTerminate k) = none := by cases k <;> rfl
theorem callOf_afterCancel (r : Bool) (k : CK) : callOf (afterCancel r k) = none := by cases k <;> cases r <;> rfl
theorem callOf_failHolding {c x : Call} (h : callOf (failHolding c) = some x) : x = .server ∧ c = .server := by
  cases c <;> simp [failHolding, callOf] at h <;> simp [h]
theorem hsid_afterTerminate (k : TK) : hsid (afterTerminate k) = none := by cases k <;> rfl
theorem hsid_afterCancel (r : Bool) (k : CK) : hsid (afterCancel r k) = none := by cases k <;> cases r <;> rfl
theorem hsid_failHolding (c : Call) : hsid (failHolding c) = none := by cases c <;> rfl
theorem ne_rQueue_afterTerminate (k : TK) (q : Pkt) : afterTerminate k ≠ .rQueue q := by
  cases k <;> simp [afterTerminate]
theorem ne_rQueue_afterCancel (r : Bool) (k : CK) (q : Pkt) : afterCancel r k ≠ .rQueue q := by
  cases k <;> cases r <;> simp [afterCancel]
theorem ne_rQueue_failHolding (c : Call) (q : Pkt) : failHolding c ≠ .rQueue q := by
  cases c <;> simp [failHolding]

theorem simN_tr {role : Call} {s : St} {t : Tid} {p : PC} {sh' : Sh} {p' : PC} {ps ps' : PS}
    (hs : Safe s) (hv : Inv ps) (hss : SimS s ps) (hi : SimN role s ps) (hp : s.pc t = p)
    (h : Tr s t p sh' p') (hn : psNext ps p = some ps') : SimN role (s.upd t sh' p') ps' := by
  have hwf := (hs.typ t).2
  rw [hp] at hwf
  cases h
  case rDeliver h1 h2 =>
    ps_cases_deliver hn h1 h2
    exact simN_frame hi (fun _ h => h) rfl (fun _ h => Or.inl h) rfl (by intro c h; cases h) (by intro q h; cases h)
      (Or.inl (by intro x h; cases h)) (by intro q h; cases h) (by intro c x h; rw [hp] at h; cases h)
  case rDrop h1 h2 =>
    ps_cases_drop hn h1 h2
    exact simN_frame hi (fun _ h => h) rfl (fun _ h => Or.inl h) rfl (by intro c h; cases h) (by intro q h; cases h)
      (Or.inl (by intro x h; cases h)) (by intro q h; cases h) (by intro c x h; rw [hp] at h; cases h)
  case rNewer h1 =>
    ps_cases_newer hn h1
    exact simN_frame hi (fun _ h => h) rfl (fun _ h => Or.inl h) rfl (by intro c h; cases h) (by intro q h; cases h)
      (Or.inl (by intro x h; cases h)) (by intro q h; rw [hp]; exact h) (by intro c x h; rw [hp] at h; cases h)
  all_goals ps_cases hn
  all_goals
    first
    | exact simN_frame hi (fun _ h => h) rfl (fun _ h => Or.inl h) rfl
        (by intro c h; first
          | (cases h; done)
          | (rw [hp]; exact h)
          | (rw [callOf_afterTerminate] at h; cases h)
          | (rw [callOf_afterCancel] at h; cases h))
        (by intro q h; first
          | (cases h; done)
          | exact absurd h (ne_rQueue_afterTerminate _ _)
          | exact absurd h (ne_rQueue_afterCancel _ _ _)
          | exact absurd h (ne_rQueue_failHolding _ _))
        (Or.inl (by intro x h; first
          | (cases h; done)
          | (rw [hp]; exact h)
          | (rw [hsid_afterTerminate] at h; cases h)
          | (rw [hsid_afterCancel] at h; cases h)
          | (rw [hsid_failHolding] at h; cases h)))
        (by intro q h; first
          | (cases h; done)
          | (rw [hp]; exact h)
          | (rw [pktOf_afterTerminate] at h; cases h)
          | (rw [pktOf_failHolding] at h; cases h)
          | (rw [pktOf_afterCancel] at h; rw [hp]; exact h))
        (by intro c x h; rw [hp] at h; cases h)
    | skip
  case rHandleT.refl | rHandleF.refl | rHandleET.refl | rHandleEF.refl | xCancelLater.refl | mSendT.refl | mSendF.refl
    | nSetClosed.refl =>
    exact simN_frame hi (made_setStrm_keep rfl) rfl (fun _ h => Or.inl h) rfl
        (by intro c h; first
          | (cases h; done)
          | (rw [hp]; exact h)
          | (rw [callOf_afterCancel] at h; cases h))
        (by intro q h; first
          | (cases h; done)
          | exact absurd h (ne_rQueue_afterCancel _ _ _))
        (Or.inl (by intro x h; first
          | (cases h; done)
          | (rw [hsid_afterCancel] at h; cases h)))
        (by intro q h; first
          | (cases h; done)
          | (rw [pktOf_afterCancel] at h; rw [hp]; exact h))
        (by intro c x h; rw [hp] at h; cases h)
  case rOfferedRetract.refl q _ _ =>
    exact simN_frame hi (fun _ h => h) rfl (by intro q h; cases h) rfl (by intro c h; cases h) (by intro q h; cases h)
      (Or.inl (by intro x h; cases h)) (by intro q h; cases h) (by intro c x h; rw [hp] at h; cases h)
  case xCancelNow.refl sid k _ =>
    exact simN_frame hi (made_setStrm_keep rfl) rfl (fun _ h => Or.inl h) rfl (by intro c h; cases h)
      (by intro q h; cases h) (Or.inl (by intro x h; cases h)) (by intro q h; rw [hp]; exact h)
      (by intro c x h; rw [hp] at h; cases h)
  case nSetStore.refl c sid _ =>
    exact simN_frame hi (fun x h => made_setStrm_keep (sh := s.sh) (sid := sid) (y := { s.sh.strm sid with pub := true }) rfl x h) rfl (fun _ h => Or.inl h) rfl
      (by intro c h; rw [hp]; exact h) (by intro q h; cases h) (Or.inl (by intro x h; cases h))
      (by intro q h; cases h) (by intro c x h; rw [hp] at h; cases h)
  case nEvRetract.isTrue.refl c sid hg =>
    refine simN_frame hi (fun _ h => h) rfl (fun _ h => Or.inl h) rfl ?_ (by intro q h; exact absurd h (ne_rQueue_failHolding _ _))
      (Or.inl (by intro x h; rw [hsid_failHolding] at h; cases h)) (by intro q h; rw [pktOf_failHolding] at h; cases h)
      (by intro c x h; rw [hp] at h; cases h)
    intro x h
    obtain ⟨h1, h2⟩ := callOf_failHolding h
    rw [hp, h1, h2]; rfl
  case nEvEnd.isTrue.refl c sid hg =>
    exact simN_frame hi (fun _ h => h) rfl (fun _ h => Or.inl h) (by simp [PS.newest, hg])
      (by intro c h; rw [hp]; exact h) (by intro q h; cases h) (Or.inl (by intro x h; cases h))
      (by intro q h; cases h) (by intro c x h; rw [hp] at h; cases h)
  case rQueueOffer.refl q hnone =>
    refine simN_frame hi (fun _ h => h) rfl ?_ rfl (by intro c h; cases h) (by intro q h; cases h)
      (Or.inl (by intro x h; cases h)) (by intro q h; cases h) (by intro c x h; rw [hp] at h; cases h)
    intro q' h
    cases h
    exact Or.inr ⟨t, hp⟩
  case sGotInvoke.refl q _ hk =>
    refine simN_frame hi (fun _ h => h) rfl (fun _ h => Or.inl h) rfl (by intro c h; rw [hp]; exact h)
      (by intro q h; cases h) (Or.inl ?_) (by intro q h; cases h) (by intro c x h; rw [hp] at h; cases h)
    intro x h
    rw [hp]
    simp only [hsid, hk, if_true] at h ⊢
    exact h
  case aGotClient.refl =>
    have hrole := hi.callRole t .client (by rw [hp]; rfl)
    refine simN_frame hi (fun _ h => h) rfl (fun _ h => Or.inl h) rfl (by intro c h; rw [hp]; exact h)
      (by intro q h; cases h) (Or.inr ?_) (by intro q h; cases h) (by intro c x h; rw [hp] at h; cases h)
    intro h; rw [← hrole] at h; cases h
  case sSelTake.refl q hq =>
    have hrd := hs.pk.owner q hq
    have ht2 : 2 ≤ t := tid_of_cl hs.typ (by rw [hp]; rfl)
    refine simN_frame hi (fun _ h => h) rfl (by intro q h; cases h) rfl (by intro c h; rw [hp]; exact h)
      (by intro q h; cases h) (Or.inr ?_) (by intro q h; cases h) (by intro c x h; rw [hp] at h; cases h)
    intro _ q' hq'
    rcases hq' with h | ⟨u, hu⟩
    · cases h
    · rw [upd_pc] at hu
      split at hu
      · cases hu
      · have := tid_of_rd hs.typ (t := u) (by rw [hu]; rfl)
        subst this
        rw [hrd] at hu; cases hu
  case nNew.refl c sid =>
    refine ⟨?_, hi.n1, ?_, ?_, ?_⟩
    · intro u c' hu
      rw [upd_pc] at hu
      split at hu
      · subst_vars; exact hi.callRole _ c' (by rw [hp]; exact hu)
      · exact hi.callRole u c' hu
    · intro hr q hq' hk
      have hold : s.sh.pkts = some q ∨ ∃ u, s.pc u = .rQueue q := by
        rcases hq' with h | ⟨u, hu⟩
        · exact Or.inl h
        · right
          by_cases hut : u = t
          · subst hut; rw [upd_pc_self] at hu; cases hu
          · rw [upd_pc_ne _ _ _ hut] at hu; exact ⟨u, hu⟩
      obtain ⟨h1, h2, h3⟩ := hi.n3 hr q hold hk
      refine ⟨h1, h2, ?_⟩
      intro u x hu
      rw [upd_pc] at hu
      split at hu
      · subst_vars; exact h3 _ x (by rw [hp]; exact hu)
      · exact h3 u x hu
    · intro u q hu hk
      rw [upd_pc] at hu
      split at hu
      · cases hu
      · exact hi.n4 u q hu hk
    · intro x hx
      simp only [upd_sh, setStrm_strm] at hx
      split at hx
      · subst_vars; exact Or.inr ⟨t, c, by rw [upd_pc_self]⟩
      · rcases hi.g6 x hx with h | ⟨u, c', hu⟩
        · exact Or.inl h
        · right
          refine ⟨u, c', ?_⟩
          rw [upd_pc]
          split
          · subst_vars; rw [hp] at hu; cases hu
          · exact hu
  case rEvQueueMeta.isTrue.refl q hk hg =>
    have htr : t = readerTid := tid_of_rd hs.typ (by rw [hp]; rfl)
    have hnone : s.sh.pkts = none := by
      cases hx : s.sh.pkts with
      | none => rfl
      | some q' => have := hs.pk.owner q' hx; rw [← htr, hp] at this; cases this
    exact simN_frame hi (fun _ h => h) rfl (fun _ h => Or.inl h) rfl (by intro c h; cases h)
      (by intro q' h; cases h; exact Or.inr hk) (Or.inl (by intro x h; cases h)) (by intro q h; cases h)
      (by intro c x h; rw [hp] at h; cases h)
  case rEvQueueInv.isTrue.refl q hk hg =>
    have htr : t = readerTid := tid_of_rd hs.typ (by rw [hp]; rfl)
    have hnone : s.sh.pkts = none := by
      cases hx : s.sh.pkts with
      | none => rfl
      | some q' => have := hs.pk.owner q' hx; rw [← htr, hp] at this; cases this
    have hinv := hi.n4 t q (by rw [hp]; rfl) hk
    refine ⟨?_, ?_, ?_, ?_, ?_⟩
    · intro u c hu
      rw [upd_pc] at hu
      split at hu
      · cases hu
      · exact hi.callRole u c hu
    · intro hr
      exact Nat.le_trans (hi.n1 hr) (Nat.le_of_lt hinv)
    · intro hr q' hq' _
      have hqq : q' = q := by
        rcases hq' with h | ⟨u, hu⟩
        · have h' : s.sh.pkts = some q' := h
          rw [hnone] at h'; cases h'
        · rw [upd_pc] at hu
          split at hu
          · cases hu; rfl
          · rename_i hne
            exact absurd ((tid_of_rd hs.typ (t := u) (by rw [hu]; rfl)).trans htr.symm) hne
      subst hqq
      refine ⟨rfl, Nat.lt_of_le_of_lt (hi.n1 hr) hinv, ?_⟩
      intro u x hu
      rw [upd_pc] at hu
      split at hu
      · cases hu
      · have hh : holds s.sh (s.pc u) = true := by
          cases hpu : s.pc u <;> rw [hpu] at hu <;> simp [hsid] at hu <;> rfl
        have hf := hss.hf u hh
        have hle : x ≤ s.sh.invoked := by
          cases hpu : s.pc u <;> rw [hpu] at hu hf <;> simp only [hsid, reduceCtorEq] at hu
          case sGot q0 =>
            split at hu
            · rename_i hk0
              cases hu
              exact (hf.2.2.2.2 hk0).2
            · cases hu
          case nNew c0 x0 | nEvBegin c0 x0 =>
            cases hu
            have hc0 := hi.callRole u c0 (by rw [hpu]; rfl)
            exact hf.2.2.2.2.2 (hc0.trans hr)
        exact Nat.lt_of_le_of_lt hle hinv
    · intro u q' hu _
      rw [upd_pc] at hu
      split at hu
      · cases hu
      · rename_i hne
        have : pcRole (s.pc u) = some .rd := by
          cases hpu : s.pc u <;> rw [hpu] at hu <;> simp [pktOf] at hu <;> try rfl
          all_goals (rename_i k; cases k <;> simp_all [CK.pkt?, pcRole, CK.role])
        exact absurd ((tid_of_rd hs.typ this).trans htr.symm) hne
    · intro x hx
      rcases hi.g6 x hx with h | ⟨u, c, hu⟩
      · exact Or.inl h
      · right
        refine ⟨u, c, ?_⟩
        rw [upd_pc]
        split
        · subst_vars; rw [hp] at hu; cases hu
        · exact hu
  case nEvBegin.isTrue.refl c sid hg =>
    have hf := hss.hf t (by rw [hp]; rfl)
    rw [hp] at hf
    have hnewest : ps.newest = ps.curr := by simp [PS.newest, hg.2.2.1]
    refine ⟨?_, ?_, ?_, ?_, ?_⟩
    · intro u c' hu
      rw [upd_pc] at hu
      split at hu
      · subst_vars; exact hi.callRole _ c' (by rw [hp]; exact hu)
      · exact hi.callRole u c' hu
    · intro hr
      have hc := hi.callRole t c (by rw [hp]; rfl)
      simp only [PS.newest, Option.getD_some]
      exact hf.2.2.2.2.2 (hc.trans hr)
    · intro hr q hq' hk
      have hold : s.sh.pkts = some q ∨ ∃ u, s.pc u = .rQueue q := by
        rcases hq' with h | ⟨u, hu⟩
        · exact Or.inl h
        · right
          by_cases hut : u = t
          · subst hut; rw [upd_pc_self] at hu; cases hu
          · rw [upd_pc_ne _ _ _ hut] at hu; exact ⟨u, hu⟩
      obtain ⟨h1, h2, h3⟩ := hi.n3 hr q hold hk
      refine ⟨h1, ?_, ?_⟩
      · simp only [PS.newest, Option.getD_some]
        exact h3 t sid (by rw [hp]; rfl)
      · intro u x hu
        rw [upd_pc] at hu
        split at hu
        · cases hu
        · exact h3 u x hu
    · intro u q hu hk
      rw [upd_pc] at hu
      split at hu
      · cases hu
      · exact hi.n4 u q hu hk
    · intro x hx
      simp only [PS.newest, Option.getD_some]
      rcases hi.g6 x hx with h | ⟨u, c', hu⟩
      · left
        rw [hnewest] at h
        exact Nat.le_trans h (Nat.le_of_lt hg.2.2.2)
      · by_cases hut : u = t
        · subst hut
          rw [hp] at hu
          cases hu
          exact Or.inl (Nat.le_refl _)
        · right
          exact ⟨u, c', by rw [upd_pc_ne _ _ _ hut]; exact hu⟩

theorem simN_env {role : Call} {s : St} {t : Tid} {sh' : Sh} {p' : PC} {ps : PS} (hi : SimN role s ps)
    (hmade : ∀ x, (sh'.strm x).made = true → (s.sh.strm x).made = true) (hinv : sh'.invoked = s.sh.invoked)
    (hpk : sh'.pkts = s.sh.pkts)
    (hc : ∀ c, callOf p' = some c → callOf (s.pc t) = some c ∨ c = role)
    (hq : ∀ q, p' = .rQueue q → s.pc t = .rQueue q)
    (hh : ∀ x, hsid p' = some x → hsid (s.pc t) = some x)
    (hpo : ∀ q, pktOf p' = some q → pktOf (s.pc t) = some q ∨ (q.kind = .invoke → s.sh.invoked < q.sid))
    (hb : ∀ c x, s.pc t = .nEvBegin c x → p' = .nEvBegin c x) : SimN role (s.upd t sh' p') ps := by
  refine ⟨?_, ?_, ?_, ?_, ?_⟩
  · intro u c hu
    rw [upd_pc] at hu
    split at hu
    · subst_vars
      rcases hc c hu with h | h
      · exact hi.callRole _ c h
      · exact h
    · exact hi.callRole u c hu
  · intro hr
    simp only [upd_sh, hinv]
    exact hi.n1 hr
  · intro hr q hq' hk
    simp only [upd_sh, hinv, hpk] at hq' ⊢
    have hold : s.sh.pkts = some q ∨ ∃ u, s.pc u = .rQueue q := by
      rcases hq' with h | ⟨u, hu⟩
      · exact Or.inl h
      · right
        by_cases hut : u = t
        · subst hut; rw [upd_pc_self] at hu; exact ⟨_, hq q hu⟩
        · rw [upd_pc_ne _ _ _ hut] at hu; exact ⟨u, hu⟩
    obtain ⟨h1, h2, h3⟩ := hi.n3 hr q hold hk
    refine ⟨h1, h2, ?_⟩
    intro u x hu
    rw [upd_pc] at hu
    split at hu
    · subst_vars; exact h3 _ x (hh x hu)
    · exact h3 u x hu
  · intro u q hu hk
    simp only [upd_sh, hinv]
    rw [upd_pc] at hu
    split at hu
    · subst_vars
      rcases hpo q hu with h | h
      · exact hi.n4 _ q h hk
      · exact h hk
    · exact hi.n4 u q hu hk
  · intro x hx
    simp only [upd_sh] at hx
    rcases hi.g6 x (hmade x hx) with h | ⟨u, c, hu⟩
    · exact Or.inl h
    · right
      refine ⟨u, c, ?_⟩
      rw [upd_pc]
      split
      · subst_vars; exact hb c x hu
      · exact hu

theorem simN_etr {role : Call} {s : St} {t : Tid} {sh' : Sh} {p' : PC} {ps : PS} (hi : SimN role s ps)
    (h : ETr s t sh' p') (hc : ∀ c, p' = .aStart c → c = role)
    (he : ∀ q, p' = .rGot q → q.kind = .invoke → s.sh.invoked < q.sid) : SimN role (s.upd t sh' p') ps := by
  cases h
  case spawnClose =>
    exact simN_env hi (fun _ h => h) rfl rfl (by intro c h; cases h) (by intro q h; cases h) (by intro x h; cases h)
      (by intro q h; cases h) (by intro c x h; simp_all)
  case spawnCall c _ _ _ =>
    exact simN_env hi (fun _ h => h) rfl rfl (by intro c' h; cases h; exact Or.inr (hc c rfl)) (by intro q h; cases h)
      (by intro x h; cases h) (by intro q h; cases h) (by intro c x h; simp_all)
  case arrive q hrd =>
    exact simN_env hi (fun _ h => h) rfl rfl (by intro c h; cases h) (by intro q h; cases h) (by intro x h; cases h)
      (by intro q' h; cases h; exact Or.inr (he q rfl)) (by intro c x h; rw [hrd] at h; cases h)
  case readErr hrd =>
    exact simN_env hi (fun _ h => h) rfl rfl (by intro c h; cases h) (by intro q h; cases h) (by intro x h; cases h)
      (by intro q h; cases h) (by intro c x h; rw [hrd] at h; cases h)
  case consume c hrd =>
    exact simN_env hi (fun _ h => h) rfl rfl (by intro c h; cases h) (by intro q h; cases h) (by intro x h; cases h)
      (by intro q h; cases h) (by intro c x h; rw [hrd] at h; cases h)
  case ctxCancel u =>
    exact simN_env hi (fun _ h => h) rfl rfl (fun _ h => Or.inl h) (fun _ h => h) (fun _ h => h) (fun _ h => Or.inl h)
      (fun _ _ h => h)
  case tokSend _ _ =>
    exact simN_env hi (fun _ h => h) rfl rfl (fun _ h => Or.inl h) (fun _ h => h) (fun _ h => h) (fun _ h => Or.inl h)
      (fun _ _ h => h)
  case appTerm sid _ =>
    exact simN_env hi (made_setStrm_keep rfl) rfl rfl (fun _ h => Or.inl h) (fun _ h => h) (fun _ h => h)
      (fun _ h => Or.inl h) (fun _ _ h => h)
  case appFin sid _ _ _ =>
    exact simN_env hi (fun x h => made_setStrm_keep (sh := s.sh) (sid := sid) (y := { s.sh.strm sid with fin := true }) rfl x h)
      rfl rfl (fun _ h => Or.inl h) (fun _ h => h) (fun _ h => h) (fun _ h => Or.inl h) (fun _ _ h => h)

end Drpc.Manager.Sys
