import Drpc.Wire.Varint
/-
  Helper lemmas about the varint model.  Kernel-only bit-vector reasoning
  (`BitVec.eq_of_getLsbD_eq` + `getLsbD_*`), no `bv_decide`.
-/
namespace Drpc

theorem testBit_127 (j : Nat) : Nat.testBit 127 j = decide (j < 7) := by
  have : (127 : Nat) = 2^7 - 1 := by decide
  rw [this, Nat.testBit_two_pow_sub_one]

theorem shift_id (x : BitVec 64) (s : Nat) :
    ((x &&& 127#64) <<< s) ||| ((x >>> 7) <<< (s + 7)) = x <<< s := by
  apply BitVec.eq_of_getLsbD_eq
  intro i hi
  simp only [BitVec.getLsbD_or, BitVec.getLsbD_shiftLeft, BitVec.getLsbD_and,
    BitVec.getLsbD_ushiftRight, BitVec.getLsbD_ofNat, testBit_127]
  by_cases h1 : i < s
  · have : i < s + 7 := by omega
    simp [h1, this]
  · by_cases h2 : i < s + 7
    · have : i - s < 7 := by omega
      simp [h1, h2, this, hi]; intro _; omega
    · have h3 : ¬ (i - s < 7) := by omega
      have e : 7 + (i - (s + 7)) = i - s := by omega
      simp [h1, h2, h3, e, hi]

theorem cont_byte (x : U64) :
    ((((x.truncate 8 &&& 127#8) ||| 128#8) : Byte).zeroExtend 64 &&& 127#64) = x &&& 127#64 := by
  apply BitVec.eq_of_getLsbD_eq
  intro i hi
  simp only [BitVec.getLsbD_and, BitVec.getLsbD_or, BitVec.getLsbD_setWidth,
    BitVec.truncate_eq_setWidth, BitVec.getLsbD_ofNat, testBit_127]
  by_cases h : i < 7
  · have h8 : i < 8 := by omega
    have : Nat.testBit 128 i = false := by
      have : (128:Nat) = 2^7 := by decide
      rw [this, Nat.testBit_two_pow]; simp; omega
    simp [h, h8, hi, this]
  · simp [h]

theorem last_byte (x : U64) (h : x.toNat < 128) :
    ((x.truncate 8 : Byte).zeroExtend 64 &&& 127#64) = x := by
  apply BitVec.eq_of_getLsbD_eq
  intro i hi
  simp only [BitVec.getLsbD_and, BitVec.getLsbD_setWidth,
    BitVec.truncate_eq_setWidth, BitVec.getLsbD_ofNat, testBit_127]
  by_cases h7 : i < 7
  · have h8 : i < 8 := by omega
    simp [h7, h8, hi]
  · have : x.getLsbD i = false := by
      simp only [BitVec.getLsbD]
      apply Nat.testBit_lt_two_pow
      calc x.toNat < 128 := h
        _ = 2^7 := by decide
        _ ≤ 2^i := Nat.pow_le_pow_right (by decide) (by omega)
    simp [h7, this]

theorem cont_ge (x : U64) : ¬ ((((x.truncate 8 &&& 127#8) ||| 128#8) : Byte).toNat < 128) := by
  have : (((x.truncate 8 &&& 127#8) ||| 128#8) : Byte).getLsbD 7 = true := by
    simp [BitVec.getLsbD_or]
  intro h
  have h2 : (((x.truncate 8 &&& 127#8) ||| 128#8) : Byte).getLsbD 7 = false := by
    simp only [BitVec.getLsbD]
    exact Nat.testBit_lt_two_pow (by simpa using h)
  rw [this] at h2; cases h2

theorem last_lt (x : U64) (h : x.toNat < 128) : (x.truncate 8 : Byte).toNat < 128 := by
  simp [BitVec.truncate_eq_setWidth, BitVec.toNat_setWidth]
  omega

theorem roundtrip_aux (x : U64) : ∀ (k : Nat) (acc : U64) (rest : List Byte),
    k ≤ 9 → x.toNat < 2^(64 - 7*k) →
    readVarintAux (10 - k) (7*k) acc (appendVarint x ++ rest) = .ok rest (acc ||| x <<< (7*k)) := by
  induction x using appendVarint.induct with
  | case1 x h ih =>
    intro k acc rest hk hx
    rw [appendVarint]; simp only [h, ↓reduceDIte, List.cons_append]
    have hk8 : k ≤ 8 := by
      rcases Nat.lt_or_ge k 9 with h9 | h9
      · omega
      · have : k = 9 := by omega
        subst this; simp at hx; omega
    obtain ⟨n, hn⟩ : ∃ n, 10 - k = n + 1 := ⟨9 - k, by omega⟩
    rw [hn, readVarintAux]
    simp only [cont_ge, ↓reduceIte, cont_byte]
    have hn' : n = 10 - (k+1) := by omega
    have hx' : (x >>> 7).toNat < 2^(64 - 7*(k+1)) := by
      simp [BitVec.toNat_ushiftRight, Nat.shiftRight_eq_div_pow]
      have : 2^(64 - 7*k) = 2^(64 - 7*(k+1)) * 2^7 := by
        rw [← Nat.pow_add]; congr 1; omega
      rw [this] at hx
      exact Nat.div_lt_of_lt_mul (by simpa [Nat.mul_comm] using hx)
    rw [hn', show 7*k + 7 = 7*(k+1) by omega, ih (k+1) _ rest (by omega) hx']
    congr 1
    rw [BitVec.or_assoc, show 7*(k+1) = 7*k + 7 by omega, shift_id]
  | case2 x h =>
    intro k acc rest hk hx
    rw [appendVarint]; simp only [h, ↓reduceDIte, List.cons_append, List.nil_append]
    obtain ⟨n, hn⟩ : ∃ n, 10 - k = n + 1 := ⟨9 - k, by omega⟩
    rw [hn, readVarintAux]
    have hlt : x.toNat < 128 := by omega
    simp only [last_lt x hlt, ↓reduceIte, last_byte x hlt]

theorem varint_roundtrip (x : U64) (rest : List Byte) :
    readVarint (appendVarint x ++ rest) = .ok rest x := by
  have := roundtrip_aux x 0 0#64 rest (by omega) (by simpa using x.isLt)
  simpa [readVarint] using this


end Drpc
