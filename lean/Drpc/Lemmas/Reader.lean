import Drpc.Wire.Reader
/-
  Lemmas about the reader model: a parsed frame depends only on the bytes it consumed,
  `drain` distributes over appended input, the read loop equals the chunk-independent
  reference, the buffer capacity stays bounded.
-/
namespace Drpc

/-! ### a successful read / parse depends only on the consumed prefix -/

theorem readVarintAux_prefix (n shift : Nat) (acc : U64) (b rem : Bytes) (v : U64) :
    readVarintAux n shift acc b = .ok rem v →
    ∃ pre, b = pre ++ rem ∧ 1 ≤ pre.length ∧ pre.length ≤ n ∧
      ∀ rem', readVarintAux n shift acc (pre ++ rem') = .ok rem' v := by
  induction n generalizing shift acc b with
  | zero => intro h; simp [readVarintAux] at h
  | succ n ih =>
    cases b with
    | nil => intro h; simp [readVarintAux] at h
    | cons x xs =>
      intro h
      simp only [readVarintAux] at h
      split at h
      · rename_i hlt
        cases h
        refine ⟨[x], by simp, by simp, by simp, ?_⟩
        intro rem'; simp [readVarintAux, hlt]
      · rename_i hlt
        obtain ⟨pre, h1, h2, h3, h4⟩ := ih _ _ _ h
        refine ⟨x :: pre, by simp [h1], by simp, by simp; omega, ?_⟩
        intro rem'
        simp only [List.cons_append, readVarintAux, hlt, ↓reduceIte]
        exact h4 rem'

theorem readVarint_prefix {b rem : Bytes} {v : U64} (h : readVarint b = .ok rem v) :
    ∃ pre, b = pre ++ rem ∧ 1 ≤ pre.length ∧ pre.length ≤ 10 ∧
      ∀ rem', readVarint (pre ++ rem') = .ok rem' v :=
  readVarintAux_prefix _ _ _ _ _ _ h

theorem parse_ok_prefix {b rem : Bytes} {fr : Frame} (h : parseFrame b = .ok rem fr) :
    ∃ p, b = p ++ rem ∧ p.length ≤ 31 + fr.data.length ∧
      ∀ rem', parseFrame (p ++ rem') = .ok rem' fr := by
  unfold parseFrame at h
  split at h
  · cases h
  · cases b with
    | nil => cases h
    | cons c r0 =>
      simp only at h
      cases h1 : readVarint r0 <;> simp only [h1] at h <;> try cases h
      rename_i r1 sid
      cases h2 : readVarint r1 <;> simp only [h2] at h <;> try cases h
      rename_i r2 mid
      cases h3 : readVarint r2 <;> simp only [h3] at h <;> try cases h
      rename_i r3 len
      split at h
      · cases h
      · rename_i hle
        cases h
        obtain ⟨p1, e1, l1, u1, f1⟩ := readVarint_prefix h1
        obtain ⟨p2, e2, l2, u2, f2⟩ := readVarint_prefix h2
        obtain ⟨p3, e3, l3, u3, f3⟩ := readVarint_prefix h3
        have hl : len.toNat ≤ r3.length := by omega
        refine ⟨c :: (p1 ++ (p2 ++ (p3 ++ r3.take len.toNat))), ?_, ?_, ?_⟩
        · subst e1 e2 e3
          simp [List.take_append_drop]
        · simp [List.length_take]; omega
        · intro rem'
          unfold parseFrame
          have hlen : ¬ ((c :: (p1 ++ (p2 ++ (p3 ++ List.take len.toNat r3))) ++ rem').length < 4) := by
            simp; omega
          rw [if_neg hlen]
          simp only [List.cons_append, List.append_assoc, f1, f2, f3]
          have hlt : (List.take len.toNat r3).length = len.toNat := by simp [List.length_take]; omega
          rw [if_neg (by simp [hlt]), if_neg (by simp [hlt])]
          congr 1
          · rw [List.drop_append_of_le_length (by omega)]
            simp [List.drop_eq_nil_iff, hlt]
          · congr 1
            rw [List.take_append_of_le_length (by omega)]
            simp [List.take_take]

/-- If `rest` needs more data and some extension of it parses, the frame ends strictly
    beyond `rest`: so `|rest| < 31 + payload length`. -/
theorem short_prefix_bound {rest e rem : Bytes} {fr : Frame}
    (hs : parseFrame rest = .short) (ho : parseFrame (rest ++ e) = .ok rem fr) :
    rest.length < 31 + fr.data.length := by
  obtain ⟨p, hp, hlen, hall⟩ := parse_ok_prefix ho
  by_cases hc : rest.length < p.length
  · omega
  · -- `p` is a prefix of `rest`, so `rest` itself parses: contradiction
    exfalso
    have hpre : p = rest.take p.length := by
      have := congrArg (List.take p.length) hp
      simp at this
      rw [List.take_append_of_le_length (by omega)] at this
      exact this.symm
    have hsplit : rest = p ++ rest.drop p.length := by
      conv => lhs; rw [← List.take_append_drop p.length rest]
      rw [← hpre]
    rw [hsplit, hall] at hs
    cases hs


/-! ### drain -/


theorem drain_short {mx rid cur p} (h : parseFrame p = .short) : drain mx rid cur p = ([], .stuck rid cur p) := by
  rw [drain]; split <;> simp_all

theorem drain_err {mx rid cur p} (h : parseFrame p = .err) : drain mx rid cur p = ([], .failed) := by
  rw [drain]; split <;> simp_all

theorem drain_ok {mx rid cur p rem fr} (h : parseFrame p = .ok rem fr) :
    drain mx rid cur p =
      match assembleStep mx rid cur fr with
      | .error => ([], .failed)
      | .cont rid' c => drain mx rid' (some c) rem
      | .emit pkt rid' => ((pkt :: (drain mx rid' none rem).1), (drain mx rid' none rem).2) := by
  rw [drain]
  split
  · simp_all
  · simp_all
  · simp_all
  · rename_i rem' fr' h'
    rw [h] at h'
    cases h'
    split <;> simp_all


/-- continue a drain result with more input -/
def extendDrain (mx : Nat) (b : Bytes) : List Packet × DrainEnd → List Packet × DrainEnd
  | (pk, .failed) => (pk, .failed)
  | (pk, .stuck rid cur r) => (pk ++ (drain mx rid cur (r ++ b)).1, (drain mx rid cur (r ++ b)).2)

theorem extendDrain_cons (mx : Nat) (b : Bytes) (pkt : Packet) (res : List Packet × DrainEnd) :
    extendDrain mx b (pkt :: res.1, res.2) = (pkt :: (extendDrain mx b res).1, (extendDrain mx b res).2) := by
  obtain ⟨pk, e⟩ := res
  cases e <;> simp [extendDrain]

theorem drain_append (mx : Nat) (b : Bytes) : ∀ (n : Nat) (p : Bytes) (rid : U64 × U64) (cur : Option Cur),
    p.length ≤ n → drain mx rid cur (p ++ b) = extendDrain mx b (drain mx rid cur p) := by
  intro n
  induction n with
  | zero =>
    intro p rid cur hn
    have : p = [] := List.length_eq_zero_iff.mp (by omega)
    subst this
    have hs : parseFrame ([] : Bytes) = .short := by simp [parseFrame]
    simp [drain_short hs, extendDrain]
  | succ n ih =>
    intro p rid cur hn
    cases hp : parseFrame p with
    | short => simp [drain_short hp, extendDrain]
    | err => simp [drain_err hp, drain_err (parse_ext_err hp), extendDrain]
    | panic => exact absurd hp (parse_no_panic p)
    | ok rem fr =>
      have hlen := parse_ok_length hp
      rw [drain_ok hp, drain_ok (parse_ext_ok hp)]
      cases hs : assembleStep mx rid cur fr with
      | error => simp [extendDrain]
      | cont rid' c => simp only; exact ih rem rid' (some c) (by omega)
      | emit pkt rid' =>
        simp only
        rw [ih rem rid' none (by omega)]
        exact (extendDrain_cons mx b pkt _).symm

theorem drain_stuck_short (mx : Nat) : ∀ (n : Nat) (p : Bytes) (rid : U64 × U64) (cur : Option Cur) pk rid' cur' r,
    p.length ≤ n → drain mx rid cur p = (pk, .stuck rid' cur' r) → parseFrame r = .short := by
  intro n
  induction n with
  | zero =>
    intro p rid cur pk rid' cur' r hn h
    have : p = [] := List.length_eq_zero_iff.mp (by omega)
    subst this
    have hs : parseFrame ([] : Bytes) = .short := by simp [parseFrame]
    rw [drain_short hs] at h
    cases h; exact hs
  | succ n ih =>
    intro p rid cur pk rid' cur' r hn h
    cases hp : parseFrame p with
    | short => rw [drain_short hp] at h; cases h; exact hp
    | err => rw [drain_err hp] at h; cases h
    | panic => exact absurd hp (parse_no_panic p)
    | ok rem fr =>
      have hlen := parse_ok_length hp
      rw [drain_ok hp] at h
      cases hs : assembleStep mx rid cur fr with
      | error => rw [hs] at h; cases h
      | cont rid2 c => rw [hs] at h; exact ih rem rid2 (some c) pk rid' cur' r (by omega) h
      | emit pkt rid2 =>
        rw [hs] at h
        simp only at h
        cases hd : drain mx rid2 none rem with
        | mk pk2 e2 =>
          rw [hd] at h
          cases h
          exact ih rem rid2 none pk2 rid' cur' r (by omega) hd


/-- how the reference ends a stream whose complete frames have all been consumed -/
def refEnd (mx final : Nat) : DrainEnd → RErr
  | .failed => .protocol
  | .stuck _ _ r => if r.length > mx + maxHeader then .protocol else .transport final

theorem assemble_oversize {mx : Nat} {rid : U64 × U64} {cur : Option Cur} {fr : Frame}
    (h : fr.data.length > mx) : assembleStep mx rid cur fr = .error := by
  unfold assembleStep
  split
  · rfl
  · simp only []
    split
    · rfl
    · rename_i c hc
      have : ¬ ((c.data ++ fr.data).length ≤ mx) := by simp; omega
      simp only [gt_iff_lt]
      rw [if_pos (by simp; omega)]

theorem feed_eq_ref (mx : Nat) (choose : Nat → Nat) (final : Nat) :
    ∀ (n : Nat) (remaining : Bytes), remaining.length ≤ n →
    ∀ (step : Nat) (rid : U64 × U64) (cur : Option Cur) (cap : Nat) (rest : Bytes),
    parseFrame rest = .short →
    ((feed mx choose final step rid cur cap rest remaining).1.map (·.1),
     (feed mx choose final step rid cur cap rest remaining).2.1) =
    ((drain mx rid cur (rest ++ remaining)).1, refEnd mx final (drain mx rid cur (rest ++ remaining)).2) := by
  intro n
  induction n with
  | zero =>
    intro remaining hn step rid cur cap rest hs
    have : remaining = [] := List.length_eq_zero_iff.mp (by omega)
    subst this
    rw [feed]
    simp only [List.append_nil, drain_short hs, refEnd]
    split <;> simp_all
  | succ n ih =>
    intro remaining hn step rid cur cap rest hs
    rw [feed]
    by_cases hbig : rest.length > mx + maxHeader
    · simp only [hbig, ↓reduceIte, List.map_nil]
      cases hp : parseFrame (rest ++ remaining) with
      | short =>
        have : mx + maxHeader < rest.length + remaining.length := by omega
        simp [drain_short hp, refEnd, this]
      | err => simp [drain_err hp, refEnd]
      | panic => exact absurd hp (parse_no_panic _)
      | ok rem fr =>
        have hb := short_prefix_bound hs hp
        have hov : fr.data.length > mx := by unfold maxHeader at hbig; omega
        simp [drain_ok hp, assemble_oversize hov, refEnd]
    · simp only [hbig, ↓reduceIte]
      by_cases hrem : remaining = []
      · subst hrem
        simp [drain_short hs, refEnd, hbig]
      · simp only [hrem, ↓reduceDIte]
        generalize hn' : clampRead (choose step) (growCap cap rest.length - rest.length) remaining.length = k
        have hk : 1 ≤ k := by rw [← hn']; exact clampRead_pos _ _ _
        have hrl : 0 < remaining.length := List.length_pos_iff.mpr hrem
        have hsplit : rest ++ remaining = (rest ++ remaining.take k) ++ remaining.drop k := by
          simp [List.take_append_drop]
        rw [hsplit, drain_append mx (remaining.drop k) _ (rest ++ remaining.take k) rid cur (Nat.le_refl _)]
        cases hd : drain mx rid cur (rest ++ List.take k remaining) with
        | mk pk e =>
          cases e with
          | failed => simp [extendDrain, refEnd, Function.comp_def]
          | stuck rid' cur' rest' =>
            have hs' := drain_stuck_short mx _ _ _ _ _ _ _ _ (Nat.le_refl _) hd
            have hlen : (remaining.drop k).length ≤ n := by simp [List.length_drop]; omega
            have := ih (remaining.drop k) hlen (step + 1) rid' cur' (growCap cap rest.length) rest' hs'
            simp only [extendDrain]
            simp only [Prod.mk.injEq] at this ⊢
            obtain ⟨h1, h2⟩ := this
            constructor
            · simp [List.map_append, h1, Function.comp_def]
            · exact h2

end Drpc

namespace Drpc

/-! ### memory bound -/

/-- the bound on `cap(r.buf)`: twice the maximum plus a constant -/
def capBound (mx : Nat) : Nat := 2 * mx + 12348

theorem growCap_bound {mx cap len : Nat} (hc : cap ≤ capBound mx) (hl : len ≤ mx + maxHeader) :
    growCap cap len ≤ capBound mx := by
  unfold growCap capBound maxHeader at *
  split <;> omega

theorem feed_cap_bound (mx : Nat) (choose : Nat → Nat) (final : Nat) :
    ∀ (n : Nat) (remaining : Bytes), remaining.length ≤ n →
    ∀ (step : Nat) (rid : U64 × U64) (cur : Option Cur) (cap : Nat) (rest : Bytes),
    cap ≤ capBound mx →
    (∀ p ∈ (feed mx choose final step rid cur cap rest remaining).1, p.2 ≤ capBound mx) ∧
    (feed mx choose final step rid cur cap rest remaining).2.2 ≤ capBound mx := by
  intro n
  induction n with
  | zero =>
    intro remaining hn step rid cur cap rest hc
    have : remaining = [] := List.length_eq_zero_iff.mp (by omega)
    subst this
    rw [feed]
    by_cases hbig : rest.length > mx + maxHeader
    · simp [hbig, hc]
    · simp only [hbig, ↓reduceIte, ↓reduceDIte]
      exact ⟨by simp, growCap_bound hc (by omega)⟩
  | succ n ih =>
    intro remaining hn step rid cur cap rest hc
    rw [feed]
    by_cases hbig : rest.length > mx + maxHeader
    · simp [hbig, hc]
    · simp only [hbig, ↓reduceIte]
      have hg : growCap cap rest.length ≤ capBound mx := growCap_bound hc (by omega)
      by_cases hrem : remaining = []
      · simp only [hrem, ↓reduceDIte]
        exact ⟨by simp, hg⟩
      · simp only [hrem, ↓reduceDIte]
        generalize hn' : clampRead (choose step) (growCap cap rest.length - rest.length) remaining.length = k
        have hk : 1 ≤ k := by rw [← hn']; exact clampRead_pos _ _ _
        have hrl : 0 < remaining.length := List.length_pos_iff.mpr hrem
        cases hd : drain mx rid cur (rest ++ List.take k remaining) with
        | mk pk e =>
          cases e with
          | failed =>
            simp only
            refine ⟨?_, hg⟩
            intro p hp
            simp only [List.mem_map] at hp
            obtain ⟨q, _, rfl⟩ := hp
            exact hg
          | stuck rid' cur' rest' =>
            have hlen : (remaining.drop k).length ≤ n := by simp [List.length_drop]; omega
            obtain ⟨h1, h2⟩ := ih (remaining.drop k) hlen (step + 1) rid' cur' (growCap cap rest.length) rest' hg
            simp only
            refine ⟨?_, h2⟩
            intro p hp
            simp only [List.mem_append, List.mem_map] at hp
            rcases hp with ⟨q, _, rfl⟩ | hp
            · exact hg
            · exact h1 p hp

end Drpc

/-! ### ids -/
namespace Drpc

/-- lexicographic order on (stream, message) ids, on the unsigned values -/
def idLt (a b : U64 × U64) : Prop :=
  a.1.toNat < b.1.toNat ∨ (a.1.toNat = b.1.toNat ∧ a.2.toNat < b.2.toNat)
def idLe (a b : U64 × U64) : Prop :=
  idLt a b ∨ (a.1.toNat = b.1.toNat ∧ a.2.toNat = b.2.toNat)

theorem idLess_iff (s1 m1 s2 m2 : U64) : idLess s1 m1 s2 m2 = true ↔ idLt (s1, m1) (s2, m2) := by
  unfold idLess idLt
  simp only [Bool.or_eq_true, decide_eq_true_eq, Bool.and_eq_true, beq_iff_eq]
  constructor
  · rintro (h | ⟨h1, h2⟩)
    · exact Or.inl h
    · exact Or.inr ⟨by rw [h1], h2⟩
  · rintro (h | ⟨h1, h2⟩)
    · exact Or.inl h
    · exact Or.inr ⟨BitVec.eq_of_toNat_eq h1, h2⟩

theorem assemble_cont {mx rid cur fr rid' c} (h : assembleStep mx rid cur fr = .cont rid' c) :
    rid' = (fr.sid, fr.mid) ∧ idLe rid rid' := by
  unfold assembleStep at h
  split at h
  · cases h
  · rename_i hl
    have hle : idLe rid (fr.sid, fr.mid) := by
      have : ¬ idLt (fr.sid, fr.mid) (rid.1, rid.2) := fun hc =>
        hl ((idLess_iff fr.sid fr.mid rid.1 rid.2).mpr hc)
      unfold idLe idLt at *; simp at *; omega
    simp only [] at h
    split at h
    · cases h
    · split at h
      · cases h
      · split at h
        · cases h
        · cases h; exact ⟨rfl, hle⟩

theorem assemble_emit {mx rid cur fr pkt rid'} (h : assembleStep mx rid cur fr = .emit pkt rid') :
    (pkt.sid, pkt.mid) = (fr.sid, fr.mid) ∧ rid' = (fr.sid, fr.mid + 1#64) ∧ idLe rid (fr.sid, fr.mid) ∧
    pkt.data.length ≤ mx := by
  unfold assembleStep at h
  split at h
  · cases h
  · rename_i hl
    have hle : idLe rid (fr.sid, fr.mid) := by
      have : ¬ idLt (fr.sid, fr.mid) (rid.1, rid.2) := fun hc =>
        hl ((idLess_iff fr.sid fr.mid rid.1 rid.2).mpr hc)
      unfold idLe idLt at *; simp at *; omega
    simp only [] at h
    split at h
    · cases h
    · split at h
      · cases h
      · rename_i hsz
        split at h
        · cases h; exact ⟨rfl, rfl, hle, by simpa using hsz⟩
        · cases h

theorem drain_ids (mx : Nat) : ∀ (n : Nat) (p : Bytes) (rid : U64 × U64) (cur : Option Cur),
    p.length ≤ n →
    (∀ q ∈ (drain mx rid cur p).1, q.mid.toNat ≠ 2^64 - 1) →
    (∀ q ∈ (drain mx rid cur p).1, idLe rid (q.sid, q.mid)) ∧
    List.Pairwise (fun a b => idLt (a.sid, a.mid) (b.sid, b.mid)) (drain mx rid cur p).1 := by
  intro n
  induction n with
  | zero =>
    intro p rid cur hn _
    have : p = [] := List.length_eq_zero_iff.mp (by omega)
    subst this
    have hs : parseFrame ([] : Bytes) = .short := by simp [parseFrame]
    simp [drain_short hs]
  | succ n ih =>
    intro p rid cur hn hw
    cases hp : parseFrame p with
    | short => simp [drain_short hp]
    | err => simp [drain_err hp]
    | panic => exact absurd hp (parse_no_panic p)
    | ok rem fr =>
      have hlen := parse_ok_length hp
      rw [drain_ok hp] at hw ⊢
      cases hs : assembleStep mx rid cur fr with
      | error => simp
      | cont rid' c =>
        rw [hs] at hw
        simp only at hw ⊢
        obtain ⟨e, hle⟩ := assemble_cont hs
        obtain ⟨h1, h2⟩ := ih rem rid' (some c) (by omega) hw
        refine ⟨?_, h2⟩
        intro q hq
        have := h1 q hq
        unfold idLe idLt at *; simp at *; omega
      | emit pkt rid' =>
        rw [hs] at hw
        simp only at hw ⊢
        obtain ⟨e1, e2, hle, _⟩ := assemble_emit hs
        have hwp : pkt.mid.toNat ≠ 2^64 - 1 := hw pkt (by simp)
        obtain ⟨h1, h2⟩ := ih rem rid' none (by omega) (fun q hq => hw q (by simp [hq]))
        have hid : pkt.sid = fr.sid ∧ pkt.mid = fr.mid := by
          simpa [Prod.ext_iff] using e1
        have hstep : idLt (pkt.sid, pkt.mid) rid' := by
          rw [e2, ← hid.1, ← hid.2]
          unfold idLt
          right
          refine ⟨rfl, ?_⟩
          simp only [BitVec.toNat_add, BitVec.toNat_ofNat]
          have := pkt.mid.isLt
          omega
        constructor
        · intro q hq
          simp only [List.mem_cons] at hq
          rcases hq with rfl | hq
          · rw [hid.1, hid.2]; exact hle
          · have := h1 q hq
            rw [← hid.1, ← hid.2] at hle
            unfold idLe idLt at *; simp at *; omega
        · rw [List.pairwise_cons]
          refine ⟨?_, h2⟩
          intro q hq
          have := h1 q hq
          unfold idLe idLt at *; simp at *; omega

end Drpc
