import Drpc.Http.Base64
/- Lemmas about the base64 model: the reference decoder inverts the encoder, also per write. -/
namespace Drpc.Http.Base64
open Drpc Ref

theorem dec_enc : ∀ n : Fin 64, decChar (encChar n.val) = some n.val := by decide
theorem enc_ne_pad : ∀ n : Fin 64, encChar n.val ≠ pad := by decide

theorem dec_enc' {n : Nat} (h : n < 64) : decChar (encChar n) = some n := dec_enc ⟨n, h⟩
theorem enc_ne_pad' {n : Nat} (h : n < 64) : (encChar n = pad) = False := by
  simp [enc_ne_pad ⟨n, h⟩]

theorem byte_eq (a : Byte) (n : Nat) (h : n = a.toNat) : byte n = a := by
  subst h; simp [byte]

theorem decode_enc3 (a b c : Byte) (rest : Bytes) :
    decode (enc3 a b c ++ rest) = (decode rest).map (fun t => a :: b :: c :: t) := by
  have ha := a.isLt; have hb := b.isLt; have hc := c.isLt
  simp only [enc3, List.cons_append, List.nil_append, decode]
  rw [dec_enc' (by omega), dec_enc' (by omega)]
  simp only [enc_ne_pad' (show (b.toNat % 16) * 4 + c.toNat / 64 < 64 by omega), if_false,
    enc_ne_pad' (show c.toNat % 64 < 64 by omega)]
  rw [dec_enc' (by omega), dec_enc' (by omega)]
  simp only
  rw [byte_eq a _ (by omega), byte_eq b _ (by omega), byte_eq c _ (by omega)]

theorem decode_enc2 (a b : Byte) (rest : Bytes) :
    decode (enc2 a b ++ rest) = (decode rest).map (fun t => a :: b :: t) := by
  have ha := a.isLt; have hb := b.isLt
  simp only [enc2, List.cons_append, List.nil_append, decode]
  rw [dec_enc' (by omega), dec_enc' (by omega)]
  simp only [enc_ne_pad' (show (b.toNat % 16) * 4 < 64 by omega), if_false, if_true]
  rw [dec_enc' (by omega)]
  simp only
  rw [byte_eq a _ (by omega), byte_eq b _ (by omega)]

theorem decode_enc1 (a : Byte) (rest : Bytes) :
    decode (enc1 a ++ rest) = (decode rest).map (fun t => a :: t) := by
  have ha := a.isLt
  simp only [enc1, List.cons_append, List.nil_append, decode]
  rw [dec_enc' (by omega), dec_enc' (by omega)]
  simp only [if_true]
  rw [byte_eq a _ (by omega)]

/-- decoding an encoding followed by anything = the octets followed by the decoding of the rest -/
theorem decode_encode_append (x rest : Bytes) :
    decode (encode x ++ rest) = (decode rest).map (fun t => x ++ t) := by
  induction x using encode.induct with
  | case1 a b c r ih =>
    rw [encode, List.append_assoc, decode_enc3, ih]
    cases decode rest <;> simp
  | case2 a b => rw [encode, decode_enc2]; cases decode rest <;> simp
  | case3 a => rw [encode, decode_enc1]; cases decode rest <;> simp
  | case4 => simp [encode]

theorem decode_encode (x : Bytes) : decode (encode x) = some x := by
  have := decode_encode_append x []
  simpa [decode] using this

/-- per-write encoding: decoding the concatenation of separately encoded writes yields the
    concatenation of the writes -/
theorem decode_writes (ws : List Bytes) :
    decode (ws.map encode).flatten = some ws.flatten := by
  induction ws with
  | nil => simp [decode]
  | cons w ws ih => simp [List.flatten_cons, decode_encode_append, ih]

theorem encode_length (x : Bytes) : (encode x).length = encodedLen x.length := by
  induction x using encode.induct with
  | case1 a b c r ih => simp [encode, enc3, ih, encodedLen]; omega
  | case2 a b => simp [encode, enc2, encodedLen]
  | case3 a => simp [encode, enc1, encodedLen]
  | case4 => simp [encode, encodedLen]

end Drpc.Http.Base64
