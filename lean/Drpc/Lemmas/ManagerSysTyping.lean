import Drpc.Lemmas.ManagerSysBasic
/-
  Which thread runs which code: thread 0 is manageReader, thread 1 is manageStreams, threads ≥ 2 are
  API callers.  `Typ s` holds in every reachable state (`typ_step`, `typ_env`).
-/
set_option linter.unusedSimpArgs false
namespace Drpc.Manager.Sys
open Drpc.Manager

inductive Role where
  | rd | mg | cl
deriving DecidableEq, Repr

def tidRole (t : Tid) : Role := if t = readerTid then .rd else if t = mgrTid then .mg else .cl

def TK.role : TK → Role
  | .reader => .rd
  | .mgrSoft _ | .mgrHard _ => .mg
  | .close => .cl

def CK.role : CK → Role
  | .rdQueue _ | .rdWait .. => .rd
  | .mgrTerm _ | .mgrSoft _ | .mgrHard _ => .mg

/-- the goroutine a program counter belongs to (`none`: any — the goroutine has exited) -/
def pcRole : PC → Option Role
  | .idle => some .cl
  | .done _ => none
  | .rTop | .rRead | .rGot _ | .rDisp .. | .rHandle .. | .rPut _ | .rTok _ | .rCancelCurr .. | .rEvQueue _ | .rQueue _
  | .rOffered _ | .rPdone | .rOrphan .. | .rEvOrphan _ | .rEvWait .. | .rWait .. | .rExit => some .rd
  | .tSet k | .tEvTerm k | .tEvClose k | .tClose k | .tTport k | .tSbuf k => some k.role
  | .xCancel _ k | .xTok _ k => some k.role
  | .mTop | .mStream _ | .mRecv .. | .mEvSfin .. | .mEvRel | .mRel | .mSendCancel _
  | .mSendCancelTok .. | .mSoftAfter .. | .mExit => some .mg
  | .aStart _ | .aSel _ | .aEvAcq _ | .aPrev _ | .aEvPrevNone _ | .aPrevChk .. | .aPrevSel .. | .aEvPrevDone ..
  | .aFailEvRel | .aFailRel | .aGot _ | .sSel | .sGot _ | .sFailEvRel | .sFailRel
  | .nNew .. | .nEvOffer .. | .nOffer .. | .nOffered .. | .nEvRetract .. | .nEvBegin .. | .nSet .. | .nEvEnd ..
  | .cWaitStream | .cWaitRead | .cWaitTport => some .cl

def TK.sidOk : TK → Sid → Bool
  | .mgrSoft x, sid | .mgrHard x, sid => x == sid
  | _, _ => true

def CK.sidOk : CK → Sid → Bool
  | .rdWait _ c, sid => c == sid
  | .mgrTerm x, sid | .mgrSoft x, sid | .mgrHard x, sid => x == sid
  | .rdQueue _, _ => true

/-- internal consistency of the data a program counter carries -/
def wfPC : PC → Bool
  | .xCancel sid k | .xTok sid k => k.sidOk sid
  | .aStart c | .aSel c | .aEvAcq c | .aPrev c | .aEvPrevNone c | .aPrevChk c _ | .aPrevSel c _ | .aEvPrevDone c _
  | .aGot c | .nNew c _ | .nEvOffer c _ | .nOffer c _ | .nOffered c _ | .nEvRetract c _ | .nEvBegin c _ | .nSet c _
  | .nEvEnd c _ => c != .close
  | _ => true

def okAt (t : Tid) (p : PC) : Prop := (∀ r, pcRole p = some r → tidRole t = r) ∧ wfPC p = true

def Typ (s : St) : Prop := ∀ t, okAt t (s.pc t)

theorem typ_init (soft : Bool) : Typ { sh := { soft := soft } } := by
  intro t
  show okAt t (if t = 0 then .rTop else if t = 1 then .mTop else .idle)
  unfold okAt tidRole readerTid mgrTid
  by_cases h0 : t = 0
  · simp [h0, pcRole, wfPC]
  · by_cases h1 : t = 1
    · simp [h1, pcRole, wfPC]
    · simp [h0, h1, pcRole, wfPC]

theorem typ_upd {s : St} {t : Tid} {sh : Sh} {p : PC} (hi : Typ s) (hp : okAt t p) : Typ (s.upd t sh p) := by
  intro u
  rw [upd_pc]
  split
  · subst_vars; exact hp
  · exact hi u

theorem role_afterTerminate (k : TK) : pcRole (afterTerminate k) = some k.role := by
  cases k <;> rfl

theorem role_afterCancel (res : Bool) (k : CK) : pcRole (afterCancel res k) = some k.role := by
  cases k <;> cases res <;> rfl

theorem wf_afterTerminate (k : TK) : wfPC (afterTerminate k) = true := by
  cases k <;> simp [afterTerminate, wfPC, CK.sidOk]

theorem wf_afterCancel (res : Bool) (k : CK) : wfPC (afterCancel res k) = true := by
  cases k <;> cases res <;> simp [afterCancel, wfPC, CK.sidOk]

theorem okAt_done (t : Tid) (b : Bool) : okAt t (.done b) := by simp [okAt, pcRole, wfPC]

theorem typ_tr {s : St} {t : Tid} {p : PC} {sh' : Sh} {p' : PC} (ht : okAt t p) (h : Tr s t p sh' p') : okAt t p' := by
  unfold okAt at ht ⊢
  cases h
  all_goals
    first
    | (simp only [pcRole, wfPC, role_afterTerminate, role_afterCancel, wf_afterTerminate, wf_afterCancel, failHolding] at ht ⊢
       ; simp_all [TK.role, CK.role, TK.sidOk, CK.sidOk]; done)
    | skip
  case tSetAlready | tSbuf => exact ⟨by rw [role_afterTerminate]; simpa [pcRole] using ht.1, wf_afterTerminate _⟩
  case xCancelFin | xCancelLater | xTok =>
    exact ⟨by rw [role_afterCancel]; simpa [pcRole] using ht.1, wf_afterCancel _ _⟩
  case nEvRetract c _ => cases c <;> simp_all [failHolding, pcRole, wfPC]

theorem typ_etr {s : St} {t : Tid} {sh' : Sh} {p' : PC} (hi : Typ s) (h : ETr s t sh' p') : okAt t p' := by
  cases h
  case spawnClose h2 _ =>
    unfold okAt tidRole readerTid mgrTid
    simp only [pcRole, TK.role, wfPC]
    refine ⟨?_, trivial⟩
    intro r hr
    injection hr with hr; subst hr
    rw [if_neg (by somega), if_neg (by somega)]
  case spawnCall c h2 _ hc =>
    unfold okAt tidRole readerTid mgrTid
    simp only [pcRole, wfPC]
    refine ⟨?_, by cases c <;> simp_all⟩
    intro r hr
    injection hr with hr; subst hr
    rw [if_neg (by somega), if_neg (by somega)]
  case arrive | readErr | consume => simp [okAt, pcRole, wfPC, TK.role, tidRole]
  all_goals exact hi _

theorem typ_reachF {soft : Bool} {s : St} (h : ReachF soft s) : Typ s := by
  induction h with
  | init => exact typ_init soft
  | step t ch _ hs _ ih =>
    obtain ⟨sh', p', htr, rfl⟩ := step_tr hs
    exact typ_upd ih (typ_tr (ih t) htr)
  | env e _ hs _ ih =>
    obtain ⟨t, sh', p', htr, rfl⟩ := env_tr hs
    exact typ_upd ih (typ_etr ih htr)

/-! ### consequences used everywhere -/

theorem tid_of_rd {s : St} (hi : Typ s) {t : Tid} (h : pcRole (s.pc t) = some .rd) : t = readerTid := by
  have := (hi t).1 _ h
  unfold tidRole at this
  split at this
  · assumption
  · split at this <;> cases this

theorem tid_of_mg {s : St} (hi : Typ s) {t : Tid} (h : pcRole (s.pc t) = some .mg) : t = mgrTid := by
  have := (hi t).1 _ h
  unfold tidRole at this
  split at this
  · cases this
  · split at this
    · assumption
    · cases this

theorem tid_of_cl {s : St} (hi : Typ s) {t : Tid} (h : pcRole (s.pc t) = some .cl) : 2 ≤ t := by
  have := (hi t).1 _ h
  unfold tidRole readerTid mgrTid at this
  split at this
  · cases this
  · split at this
    · cases this
    · somega

end Drpc.Manager.Sys
