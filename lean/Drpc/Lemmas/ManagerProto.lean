import Drpc.Manager.Proto
/-
  Invariants of the protocol checker `Drpc.Manager.allowed` (Manager/Proto.lean): what holds of EVERY
  trace the checker accepts and of the state it leads to.  The property theorems built from these are in
  Props/Manager.lean.

  * `Inv s`        : state invariant (ids increase, current/pending are created ids, offered ⊆ created,
                     retracted ⊆ offered, fin-consumed ⊆ offered \ retracted, closes ≤ 1, publication under
                     the semaphore)
  * `CInv tr s`    : the counters / lists of the state are the counts / ids of the corresponding events
  * `SInv tr s`    : while the semaphore is held the trace ends with `semAcq`, then no `semAcq`/`semRel`
  * `OInv tr s`    : the streams created and not yet seen finished (`openStreams`) are at most the newest one
  * `UInv tr s`    : a published stream that is not offered yet: still under the semaphore, nothing since
  * `PInv tr s`    : a stream being published: no semaphore / creation event since `newBegin`
  * `Betw x b s`   : between `newBegin x` and the next creation
  * `LB m s`       : lower bound for what the reader can still observe as the current stream
-/
namespace Drpc.Manager

theorem run_append (s : PS) (a b : List Ev) : run s (a ++ b) = (run s a).bind (fun s' => run s' b) := by
  induction a generalizing s with
  | nil => simp [run]
  | cons e es ih =>
    simp only [List.cons_append, run]
    cases allowed s e with
    | none => simp
    | some s' => simp [ih]

theorem run_cons {s : PS} {e : Ev} {es : List Ev} {t : PS} (h : run s (e :: es) = some t) :
    ∃ s', allowed s e = some s' ∧ run s' es = some t := by
  simp only [run] at h
  cases ha : allowed s e with
  | none => simp [ha] at h
  | some s' => exact ⟨s', rfl, by simpa [ha] using h⟩

theorem run_append_some {s t : PS} {a b : List Ev} (h : run s (a ++ b) = some t) :
    ∃ s0, run s a = some s0 ∧ run s0 b = some t := by
  rw [run_append] at h
  cases ha : run s a with
  | none => simp [ha] at h
  | some s0 => exact ⟨s0, rfl, by simpa [ha] using h⟩

theorem run_single {s t : PS} {e : Ev} : run s [e] = some t ↔ allowed s e = some t := by
  simp only [run]
  cases allowed s e <;> simp

theorem run_snoc {s t : PS} {a : List Ev} {e : Ev} (h : run s (a ++ [e]) = some t) :
    ∃ s0, run s a = some s0 ∧ allowed s0 e = some t := by
  obtain ⟨s0, h1, h2⟩ := run_append_some h
  exact ⟨s0, h1, run_single.1 h2⟩

/-- induction along an accepted run, with the already processed events as an index -/
theorem run_ind (Q : Ev → Prop) (P : List Ev → PS → Prop)
    (hs : ∀ a s e s', Q e → P a s → allowed s e = some s' → P (a ++ [e]) s') :
    ∀ (b a : List Ev) (s0 s : PS), (∀ e ∈ b, Q e) → P a s0 → run s0 b = some s → P (a ++ b) s := by
  intro b
  induction b with
  | nil => intro a s0 s _ hp h; simp only [run, Option.some.injEq] at h; subst h; simpa using hp
  | cons e es ih =>
    intro a s0 s hq hp h
    obtain ⟨s', h1, h2⟩ := run_cons h
    have := ih (a ++ [e]) s' s (fun e' he' => hq e' (List.mem_cons_of_mem _ he'))
      (hs a s0 e s' (hq e (List.mem_cons_self ..)) hp h1) h2
    simpa using this

/-- case split of one accepted step: afterwards `s'` is the explicit successor and the guard of the
    event is a hypothesis named `hg` -/
macro "step_cases " e:ident h:ident " with " hg:ident : tactic => `(tactic| (
  cases $e:ident <;> simp only [allowed] at $h:ident <;>
  (split at $h:ident <;> first | (cases $h:ident; done) | (rename_i $hg:ident; injection $h:ident with $h:ident; subst $h:ident))))

structure Inv (s : PS) : Prop where
  incr : s.created.Pairwise (· < ·)
  pos : ∀ x ∈ s.created, 0 < x
  currIn : s.curr = 0 ∨ s.curr ∈ s.created
  currMax : ∀ x ∈ s.created, (s.pending = none → x ≤ s.curr) ∧ (∀ p, s.pending = some p → x ≤ p)
  pendIn : ∀ p, s.pending = some p → p ∈ s.created ∧ s.curr < p
  pendSem : ∀ p, s.pending = some p → s.sem = true
  closes : s.closes ≤ 1 ∧ (s.closes = 1 → s.term = true)
  offSub : ∀ x ∈ s.offered, x ∈ s.created ∧ x ≤ s.curr
  offNodup : s.offered.Nodup
  retrSub : ∀ x ∈ s.retracted, x ∈ s.offered ∧ x ∉ s.sfin
  retrNodup : s.retracted.Nodup
  sfinSub : ∀ x ∈ s.sfin, x ∈ s.offered
  sfinNodup : s.sfin.Nodup
  window : ∀ x ∈ s.window, x = 0 ∨ x ∈ s.created

theorem inv_init : Inv {} := by
  constructor <;> simp

theorem mem_currs {s : PS} {v : Nat} : v ∈ s.currs ↔ v = s.curr ∨ s.pending = some v := by
  unfold PS.currs
  cases hp : s.pending with
  | none => simp
  | some p => simp [eq_comm]

/-- what the reader's window restarts from -/
theorem mem_afterRead_window {s : PS} {ok : Nat → Bool} {v : Nat} :
    v ∈ (s.afterRead ok).window ↔ v ∈ s.currs ∧ ∃ c ∈ s.window, ok c = true ∧ c ≤ v := by
  simp [PS.afterRead, List.mem_filter]

theorem inv_afterRead {s : PS} (ok : Nat → Bool) (hi : Inv s) : Inv (s.afterRead ok) := by
  obtain ⟨i1, i2, i3, i4, i5, i6, i7, i8, i9, i10, i11, i12, i13, i14⟩ := hi
  refine ⟨i1, i2, i3, i4, i5, i6, i7, i8, i9, i10, i11, i12, i13, ?_⟩
  intro x hx
  rcases mem_currs.1 (mem_afterRead_window.1 hx).1 with rfl | hp
  · exact i3
  · exact Or.inr (i5 _ hp).1

theorem nodup_snoc {l : List Nat} {a : Nat} (h : l.Nodup) (ha : a ∉ l) : (l ++ [a]).Nodup := by
  rw [List.nodup_append]
  refine ⟨h, by simp, ?_⟩
  intro x hx b hb
  simp only [List.mem_singleton] at hb
  subst hb
  intro hab; subst hab; exact ha hx

theorem inv_step {s s' : PS} {e : Ev} (hi : Inv s) (h : allowed s e = some s') : Inv s' := by
  step_cases e h with hg
  case deliver | drop | queue | wait | orphan => exact inv_afterRead _ hi
  all_goals obtain ⟨i1, i2, i3, i4, i5, i6, i7, i8, i9, i10, i11, i12, i13, i14⟩ := hi
  case prevNone | prevDone => exact ⟨i1, i2, i3, i4, i5, i6, i7, i8, i9, i10, i11, i12, i13, i14⟩
  case semAcq => exact ⟨i1, i2, i3, i4, i5, fun _ _ => rfl, i7, i8, i9, i10, i11, i12, i13, i14⟩
  case semRel =>
    refine ⟨i1, i2, i3, i4, i5, ?_, i7, i8, i9, i10, i11, i12, i13, i14⟩
    intro p hp; rw [hg.2.1] at hp; cases hp
  case newBegin sid =>
    obtain ⟨hsem, -, hp, hlt⟩ := hg
    refine ⟨?_, ?_, ?_, ?_, ?_, fun _ _ => hsem, i7, ?_, i9, i10, i11, i12, i13, ?_⟩
    · simp only [List.pairwise_append, i1, true_and, List.pairwise_cons, List.Pairwise.nil, and_true, List.mem_singleton]
      refine ⟨by simp, ?_⟩
      intro a ha b hb
      subst hb
      have := (i4 a ha).1 hp
      omega
    · intro x hx
      simp only [List.mem_append, List.mem_singleton] at hx
      rcases hx with hx | rfl
      · exact i2 x hx
      · omega
    · rcases i3 with h0 | h1
      · exact Or.inl h0
      · exact Or.inr (by simp [h1])
    · intro x hx
      simp only [List.mem_append, List.mem_singleton] at hx
      refine ⟨by simp, ?_⟩
      intro p hpp
      simp only [Option.some.injEq] at hpp
      subst hpp
      rcases hx with hx | rfl
      · have := (i4 x hx).1 hp
        omega
      · exact Nat.le_refl _
    · intro p hpp
      simp only [Option.some.injEq] at hpp
      subst hpp
      exact ⟨by simp, hlt⟩
    · intro x hx
      exact ⟨by simp [(i8 x hx).1], (i8 x hx).2⟩
    · intro x hx
      simp only [List.mem_append, List.mem_singleton] at hx
      rcases hx with hx | rfl
      · rcases i14 x hx with h0 | h1
        · exact Or.inl h0
        · exact Or.inr (by simp [h1])
      · exact Or.inr (by simp)
  case newEnd sid =>
    obtain ⟨hin, hlt⟩ := i5 _ hg
    refine ⟨i1, i2, Or.inr hin, ?_, by simp, by simp, i7, ?_, i9, i10, i11, i12, i13, i14⟩
    · intro x hx
      refine ⟨fun _ => (i4 x hx).2 _ hg, by simp⟩
    · intro x hx
      have := i8 x hx
      exact ⟨this.1, by show x ≤ sid; omega⟩
  case newOffer sid =>
    obtain ⟨-, -, hc, hin, hno⟩ := hg
    refine ⟨i1, i2, i3, i4, i5, i6, i7, ?_, nodup_snoc i9 hno, ?_, i11, ?_, i13, i14⟩
    · intro x hx
      simp only [List.mem_append, List.mem_singleton] at hx
      rcases hx with hx | rfl
      · exact i8 x hx
      · exact ⟨hin, Nat.le_of_eq hc.symm⟩
    · intro x hx; exact ⟨by simp [(i10 x hx).1], (i10 x hx).2⟩
    · intro x hx; simp [i12 x hx]
  case newRetract sid =>
    obtain ⟨-, -, -, hin, hnr, hns⟩ := hg
    refine ⟨i1, i2, i3, i4, i5, i6, i7, i8, i9, ?_, nodup_snoc i11 hnr, i12, i13, i14⟩
    intro x hx
    simp only [List.mem_append, List.mem_singleton] at hx
    rcases hx with hx | rfl
    · exact i10 x hx
    · exact ⟨hin, hns⟩
  case term => exact ⟨i1, i2, i3, i4, i5, i6, ⟨i7.1, fun _ => rfl⟩, i8, i9, i10, i11, i12, i13, i14⟩
  case tportClose => exact ⟨i1, i2, i3, i4, i5, i6, ⟨Nat.le_refl _, fun _ => hg.1⟩, i8, i9, i10, i11, i12, i13, i14⟩
  case sfinRecv sid =>
    obtain ⟨hin, hnr, hns⟩ := hg
    refine ⟨i1, i2, i3, i4, i5, i6, i7, i8, i9, ?_, i11, ?_, nodup_snoc i13 hns, i14⟩
    · intro x hx
      refine ⟨(i10 x hx).1, ?_⟩
      simp only [List.mem_append, List.mem_singleton, not_or]
      exact ⟨(i10 x hx).2, fun h => hnr (h ▸ hx)⟩
    · intro x hx
      simp only [List.mem_append, List.mem_singleton] at hx
      rcases hx with hx | rfl
      · exact i12 x hx
      · exact hin

def beginId : Ev → Option Nat | .newBegin x => some x | _ => none
def sfinId : Ev → Option Nat | .sfinRecv x => some x | _ => none
def offerId : Ev → Option Nat | .newOffer x => some x | _ => none
def retractId : Ev → Option Nat | .newRetract x => some x | _ => none
def isReader : Ev → Bool | .deliver _ | .drop _ | .queue _ | .wait _ | .orphan _ => true | _ => false
def isPrev : Ev → Bool | .prevNone | .prevDone _ => true | _ => false
def isCreate : Ev → Bool | .newOffer _ | .newRetract _ | .newBegin _ | .newEnd _ => true | _ => false

/-- counters -/
structure CInv (tr : List Ev) (s : PS) : Prop where
  nClose : tr.count .tportClose = s.closes
  nTerm : tr.count .term = if s.term then 1 else 0
  nSem : tr.count .semAcq = tr.count .semRel + if s.sem then 1 else 0
  created : s.created = tr.filterMap beginId
  sfin : s.sfin = tr.filterMap sfinId
  offered : s.offered = tr.filterMap offerId
  retracted : s.retracted = tr.filterMap retractId

theorem cinv_step {tr : List Ev} {s s' : PS} {e : Ev} (hi : CInv tr s) (h : allowed s e = some s') :
    CInv (tr ++ [e]) s' := by
  obtain ⟨c1, c2, c3, c4, c5, c6, c7⟩ := hi
  step_cases e h with hg
  all_goals constructor
  all_goals simp_all [List.count_append, beginId, sfinId, offerId, retractId, PS.afterRead]

/-- the semaphore holder's progress since it acquired -/
def SInv (tr : List Ev) (s : PS) : Prop :=
  s.sem = true → ∃ a1 a2, tr = a1 ++ .semAcq :: a2 ∧ .semAcq ∉ a2 ∧ .semRel ∉ a2 ∧
    (s.prevOk = true → ∃ e ∈ a2, isPrev e = true)

theorem allowed_sem_other {s s' : PS} {e : Ev} (h1 : e ≠ .semAcq) (h2 : e ≠ .semRel)
    (h : allowed s e = some s') :
    s'.sem = s.sem ∧ (s'.prevOk = true → s.prevOk = true ∨ isPrev e = true) := by
  step_cases e h with hg
  all_goals simp_all [isPrev, PS.afterRead]

theorem sinv_step {tr : List Ev} {s s' : PS} {e : Ev} (hi : SInv tr s) (h : allowed s e = some s') :
    SInv (tr ++ [e]) s' := by
  by_cases h1 : e = .semAcq
  · subst h1
    intro _
    refine ⟨tr, [], rfl, by simp, by simp, ?_⟩
    simp only [allowed] at h
    split at h
    · cases h
    · injection h with h; subst h; simp
  by_cases h2 : e = .semRel
  · subst h2
    simp only [allowed] at h
    split at h
    · injection h with h; subst h; intro hc; simp at hc
    · cases h
  obtain ⟨hs, hp⟩ := allowed_sem_other h1 h2 h
  intro hsem
  obtain ⟨a1, a2, rfl, n1, n2, hp0⟩ := hi (hs ▸ hsem)
  refine ⟨a1, a2 ++ [e], by simp, ?_, ?_, ?_⟩
  · simp only [List.mem_append, List.mem_singleton, not_or]; exact ⟨n1, fun h => h1 h.symm⟩
  · simp only [List.mem_append, List.mem_singleton, not_or]; exact ⟨n2, fun h => h2 h.symm⟩
  · intro hp'
    rcases hp hp' with h0 | h0
    · obtain ⟨e0, he0, hpe⟩ := hp0 h0
      exact ⟨e0, by simp [he0], hpe⟩
    · exact ⟨e, by simp, h0⟩

/-- streams the manager has created and not yet seen finished -/
def openStep (o : List Nat) : Ev → List Nat
  | .newBegin x => o ++ [x]
  | .prevDone x => o.filter (· ≠ x)
  | _ => o

def openStreams (tr : List Ev) : List Nat := tr.foldl openStep []

theorem openStreams_snoc (tr : List Ev) (e : Ev) : openStreams (tr ++ [e]) = openStep (openStreams tr) e := by
  simp [openStreams, List.foldl_append]

structure OInv (tr : List Ev) (s : PS) : Prop where
  prevDoneIn : ∀ z, .prevDone z ∈ tr → z ∈ s.created
  newEndLe : ∀ z, .newEnd z ∈ tr → z ≤ s.curr ∧ z ∈ s.created
  open1 : s.prevOk = true → openStreams tr = []
  open2 : ∀ x ∈ openStreams tr, openStreams tr = [x] ∧ x = s.pending.getD s.curr
  openMem : ∀ x, x ∈ openStreams tr ↔ x ∈ s.created ∧ .prevDone x ∉ tr

theorem oinv_frame {tr : List Ev} {s s' : PS} {e : Ev} (hi : OInv tr s)
    (hc : s'.created = s.created) (hcu : s'.curr = s.curr) (hp : s'.pending = s.pending)
    (hpo : s'.prevOk = true → s.prevOk = true)
    (he1 : ∀ z, e ≠ .prevDone z) (he2 : ∀ z, e ≠ .newEnd z) (he3 : ∀ z, e ≠ .newBegin z) :
    OInv (tr ++ [e]) s' := by
  obtain ⟨o1, o2, o3, o4, o5⟩ := hi
  have ho : openStreams (tr ++ [e]) = openStreams tr := by
    rw [openStreams_snoc]
    cases e <;> first | rfl | exact absurd rfl (he1 _) | exact absurd rfl (he3 _)
  have hm1 : ∀ z, Ev.prevDone z ∈ tr ++ [e] ↔ Ev.prevDone z ∈ tr := by
    intro z
    simp only [List.mem_append, List.mem_singleton, or_iff_left_iff_imp]
    intro h; exact absurd h.symm (he1 z)
  have hm2 : ∀ z, Ev.newEnd z ∈ tr ++ [e] ↔ Ev.newEnd z ∈ tr := by
    intro z
    simp only [List.mem_append, List.mem_singleton, or_iff_left_iff_imp]
    intro h; exact absurd h.symm (he2 z)
  refine ⟨?_, ?_, ?_, ?_, ?_⟩
  · intro z hz; rw [hc]; exact o1 z ((hm1 z).1 hz)
  · intro z hz; rw [hc, hcu]; exact o2 z ((hm2 z).1 hz)
  · intro h; rw [ho]; exact o3 (hpo h)
  · rw [ho, hp, hcu]; exact o4
  · intro x; rw [ho, hc, hm1]; exact o5 x

theorem oinv_step {tr : List Ev} {s s' : PS} {e : Ev} (hv : Inv s) (hi : OInv tr s) (h : allowed s e = some s') :
    OInv (tr ++ [e]) s' := by
  step_cases e h with hg
  case semAcq | semRel | newOffer | newRetract | deliver | drop | queue | wait | orphan | term | tportClose | sfinRecv =>
    exact oinv_frame hi rfl rfl rfl (by simp [PS.afterRead]) (by simp) (by simp) (by simp)
  all_goals obtain ⟨o1, o2, o3, o4, o5⟩ := hi
  case prevNone =>
    obtain ⟨-, hc0, hpn⟩ := hg
    have hopen : openStreams tr = [] := by
      apply List.eq_nil_iff_forall_not_mem.2
      intro x hx
      have h1 := (o4 x hx).2
      have h2 := hv.pos x ((o5 x).1 hx).1
      simp only [hpn, hc0, Option.getD_none] at h1
      omega
    have ho : openStreams (tr ++ [Ev.prevNone]) = [] := by rw [openStreams_snoc]; exact hopen
    refine ⟨?_, ?_, fun _ => ho, ?_, ?_⟩
    · intro z hz; exact o1 z (by simpa using hz)
    · intro z hz; exact o2 z (by simpa using hz)
    · rw [ho]; intro x hx; cases hx
    · intro x; rw [ho, ← hopen]
      simpa using o5 x
  case prevDone sid =>
    obtain ⟨-, hsc, hs0, hpn⟩ := hg
    have hall : ∀ x ∈ openStreams tr, x = sid := by
      intro x hx
      have h1 := (o4 x hx).2
      simp only [hpn, Option.getD_none] at h1
      omega
    have ho : openStreams (tr ++ [Ev.prevDone sid]) = [] := by
      rw [openStreams_snoc]
      simp only [openStep, List.filter_eq_nil_iff, decide_eq_true_eq, Decidable.not_not]
      exact hall
    have hin : sid ∈ s.created := by
      rcases hv.currIn with h0 | h0
      · omega
      · exact hsc ▸ h0
    refine ⟨?_, ?_, fun _ => ho, ?_, ?_⟩
    · intro z hz
      simp only [List.mem_append, List.mem_singleton, Ev.prevDone.injEq] at hz
      rcases hz with hz | rfl
      · exact o1 z hz
      · exact hin
    · intro z hz; exact o2 z (by simpa using hz)
    · rw [ho]; intro x hx; cases hx
    · intro x; rw [ho]
      simp only [List.not_mem_nil, List.mem_append, List.mem_singleton, Ev.prevDone.injEq, not_or, false_iff, not_and, Decidable.not_not]
      intro hx hnx
      exact hall x ((o5 x).2 ⟨hx, hnx⟩)
  case newBegin sid =>
    obtain ⟨-, hpo, hpn, hlt⟩ := hg
    have hopen := o3 hpo
    have ho : openStreams (tr ++ [Ev.newBegin sid]) = [sid] := by
      rw [openStreams_snoc, hopen]; rfl
    refine ⟨?_, ?_, ?_, ?_, ?_⟩
    · intro z hz; simp [o1 z (by simpa using hz)]
    · intro z hz
      have := o2 z (by simpa using hz)
      exact ⟨this.1, by simp [this.2]⟩
    · intro h; cases h
    · rw [ho]; intro x hx
      simp only [List.mem_singleton] at hx
      subst hx; exact ⟨rfl, rfl⟩
    · intro x; rw [ho]
      simp only [List.mem_singleton, List.mem_append, reduceCtorEq, or_false]
      constructor
      · rintro rfl
        refine ⟨Or.inr rfl, ?_⟩
        intro hx
        have := (hv.currMax x (o1 x hx)).1 hpn
        omega
      · rintro ⟨hx | hx, hnx⟩
        · have := (o5 x).2 ⟨hx, hnx⟩
          rw [hopen] at this; cases this
        · exact hx
  case newEnd sid =>
    have ho : openStreams (tr ++ [Ev.newEnd sid]) = openStreams tr := by rw [openStreams_snoc]; rfl
    obtain ⟨hin, hlt⟩ := hv.pendIn sid hg
    refine ⟨?_, ?_, ?_, ?_, ?_⟩
    · intro z hz; exact o1 z (by simpa using hz)
    · intro z hz
      simp only [List.mem_append, List.mem_singleton, Ev.newEnd.injEq] at hz
      rcases hz with hz | rfl
      · have := o2 z hz
        exact ⟨by show z ≤ sid; omega, this.2⟩
      · exact ⟨Nat.le_refl _, hin⟩
    · rw [ho]; exact o3
    · rw [ho]; intro x hx
      have := o4 x hx
      rw [hg] at this
      exact this
    · intro x; rw [ho]; simpa using o5 x

/-- a published stream that has not been offered yet: the creator still holds the semaphore, and
    since `newEnd` there was no semaphore event and no creation event -/
def UInv (tr : List Ev) (s : PS) : Prop :=
  s.pending = none → s.curr ≠ 0 → s.curr ∉ s.offered →
    s.sem = true ∧ ∃ a1 a2, tr = a1 ++ .newEnd s.curr :: a2 ∧
      ∀ e ∈ a2, isCreate e = false ∧ e ≠ .semRel ∧ e ≠ .semAcq

theorem uinv_frame {tr : List Ev} {s s' : PS} {e : Ev} (hi : UInv tr s)
    (h1 : s'.pending = s.pending) (h2 : s'.curr = s.curr) (h3 : s'.offered = s.offered) (h4 : s'.sem = s.sem)
    (he : isCreate e = false ∧ e ≠ .semRel ∧ e ≠ .semAcq) : UInv (tr ++ [e]) s' := by
  intro hp hc ho
  rw [h1] at hp; rw [h2] at hc; rw [h2, h3] at ho
  obtain ⟨hs, a1, a2, rfl, hn⟩ := hi hp hc ho
  refine ⟨h4 ▸ hs, a1, a2 ++ [e], by simp [h2], ?_⟩
  intro e' he'
  simp only [List.mem_append, List.mem_singleton] at he'
  rcases he' with he' | rfl
  · exact hn e' he'
  · exact he

theorem uinv_step {tr : List Ev} {s s' : PS} {e : Ev} (hv : Inv s) (hi : UInv tr s)
    (h : allowed s e = some s') : UInv (tr ++ [e]) s' := by
  step_cases e h with hg
  case prevNone | prevDone | deliver | drop | queue | wait | orphan | term | tportClose | sfinRecv =>
    exact uinv_frame hi rfl rfl rfl rfl (by simp [isCreate])
  case semAcq =>
    intro hp hc ho
    have := (hi hp hc ho).1
    rw [this] at hg; exact absurd rfl hg
  case semRel =>
    intro hp hc ho
    rcases hg.2.2 with h0 | h0
    · exact absurd h0 hc
    · exact absurd h0 ho
  case newBegin sid => intro hp; cases hp
  case newEnd sid =>
    intro _ _ _
    exact ⟨hv.pendSem _ hg, tr, [], rfl, by simp⟩
  case newOffer sid =>
    intro _ _ ho
    exact absurd (by simp [hg.2.2.1]) ho
  case newRetract sid =>
    intro _ _ ho
    exact absurd (hg.2.2.1 ▸ hg.2.2.2.1) ho

/-- a stream being published: since `newBegin` there was no semaphore event and no other creation event -/
def PInv (tr : List Ev) (s : PS) : Prop :=
  ∀ p, s.pending = some p → ∃ a1 a2, tr = a1 ++ .newBegin p :: a2 ∧
    ∀ e ∈ a2, isCreate e = false ∧ e ≠ .semRel ∧ e ≠ .semAcq

theorem pinv_frame {tr : List Ev} {s s' : PS} {e : Ev} (hi : PInv tr s) (h1 : s'.pending = s.pending)
    (he : isCreate e = false ∧ e ≠ .semRel ∧ e ≠ .semAcq) : PInv (tr ++ [e]) s' := by
  intro p hp
  rw [h1] at hp
  obtain ⟨a1, a2, rfl, hn⟩ := hi p hp
  refine ⟨a1, a2 ++ [e], by simp, ?_⟩
  intro e' he'
  simp only [List.mem_append, List.mem_singleton] at he'
  rcases he' with he' | rfl
  · exact hn e' he'
  · exact he

theorem pinv_step {tr : List Ev} {s s' : PS} {e : Ev} (hv : Inv s) (hi : PInv tr s)
    (h : allowed s e = some s') : PInv (tr ++ [e]) s' := by
  step_cases e h with hg
  case prevNone | prevDone | deliver | drop | queue | wait | orphan | term | tportClose | sfinRecv =>
    exact pinv_frame hi rfl (by simp [isCreate])
  case semAcq =>
    intro p hp
    have := hv.pendSem p hp
    rw [this] at hg; exact absurd rfl hg
  case semRel => intro p hp; rw [hg.2.1] at hp; cases hp
  case newBegin sid =>
    intro p hp
    simp only [Option.some.injEq] at hp
    subst hp
    exact ⟨tr, [], rfl, by simp⟩
  case newEnd sid => intro p hp; cases hp
  case newOffer sid => intro p hp; rw [hg.2.1] at hp; cases hp
  case newRetract sid => intro p hp; rw [hg.2.1] at hp; cases hp

/-- everything that holds of an accepted trace and the state it leads to -/
structure TInv (tr : List Ev) (s : PS) : Prop where
  inv : Inv s
  cnt : CInv tr s
  sem : SInv tr s
  opn : OInv tr s
  uno : UInv tr s
  pub : PInv tr s

theorem tinv_init : TInv [] {} := by
  refine ⟨inv_init, ?_, ?_, ?_, ?_, ?_⟩
  · constructor <;> simp
  · intro h; cases h
  · constructor <;> simp [openStreams]
  · intro _ h; exact absurd rfl h
  · intro p hp; cases hp

theorem tinv_step {tr : List Ev} {s s' : PS} {e : Ev} (hi : TInv tr s) (h : allowed s e = some s') :
    TInv (tr ++ [e]) s' :=
  ⟨inv_step hi.inv h, cinv_step hi.cnt h, sinv_step hi.sem h, oinv_step hi.inv hi.opn h, uinv_step hi.inv hi.uno h, pinv_step hi.inv hi.pub h⟩

theorem tinv_run {a b : List Ev} {s0 s : PS} (hi : TInv a s0) (h : run s0 b = some s) : TInv (a ++ b) s :=
  run_ind (fun _ => True) TInv (fun _ _ _ _ _ hp hs => tinv_step hp hs) b a s0 s (fun _ _ => trivial) hi h

theorem tinv_of_run {tr : List Ev} {s : PS} (h : run {} tr = some s) : TInv tr s := by
  simpa using tinv_run tinv_init h

/-! ### between two creations -/

/-- what is known while processing the events `b` after `stream.new.begin x`, as long as no further
    stream is created -/
def Betw (x : Nat) (b : List Ev) (s : PS) : Prop :=
  (s.pending = some x ∧ s.prevOk = false) ∨
  (s.pending = none ∧ s.curr = x ∧ .newEnd x ∈ b ∧ (s.prevOk = true → .prevDone x ∈ b))

theorem betw_step {x : Nat} (hx : x ≠ 0) {b : List Ev} {s s' : PS} {e : Ev}
    (hq : ∀ y, e ≠ .newBegin y) (hi : Betw x b s) (h : allowed s e = some s') : Betw x (b ++ [e]) s' := by
  have hm : Betw x (b ++ [e]) s := by
    rcases hi with h1 | ⟨h1, h2, h3, h4⟩
    · exact Or.inl h1
    · exact Or.inr ⟨h1, h2, by simp [h3], fun hp => by simp [h4 hp]⟩
  clear hi
  step_cases e h with hg
  case newBegin y => exact absurd rfl (hq y)
  case semRel | newOffer | newRetract | deliver | drop | queue | wait | orphan | term | tportClose | sfinRecv => exact hm
  case semAcq =>
    rcases hm with h1 | ⟨h1, h2, h3, -⟩
    · exact Or.inl ⟨h1.1, rfl⟩
    · exact Or.inr ⟨h1, h2, h3, fun h => by cases h⟩
  case prevNone =>
    rcases hm with h1 | ⟨h1, h2, h3, -⟩
    · simp [h1.1] at hg
    · omega
  case prevDone sid =>
    rcases hm with h1 | ⟨h1, h2, h3, -⟩
    · simp [h1.1] at hg
    · refine Or.inr ⟨h1, h2, h3, fun _ => ?_⟩
      rw [hg.2.1, h2]; simp
  case newEnd sid =>
    rcases hm with h1 | ⟨h1, h2, h3, -⟩
    · rw [h1.1] at hg
      injection hg with hg; subst hg
      exact Or.inr ⟨rfl, rfl, by simp, fun h => by simp [h1.2] at h⟩
    · simp [h1] at hg

theorem betw_run {x : Nat} {s0 s1 s2 : PS} {b : List Ev} (h0 : allowed s0 (.newBegin x) = some s1)
    (hb : run s1 b = some s2) (hn : ∀ y, .newBegin y ∉ b) : Betw x b s2 := by
  simp only [allowed] at h0
  split at h0
  · rename_i hg
    injection h0 with h0; subst h0
    have hx : x ≠ 0 := by omega
    have := run_ind (fun e => ∀ y, e ≠ .newBegin y) (Betw x) (fun _ _ _ _ hq hp hs => betw_step hx hq hp hs)
      b [] _ s2 (fun e he y hy => hn y (hy ▸ he)) (Or.inl ⟨rfl, rfl⟩) hb
    simpa using this
  · cases h0

/-! ### the reader's window -/

/-- which values of the pointer are compatible with the dispatch decision the reader reports -/
def obs : Ev → Nat → Bool
  | .deliver sid, c => c == sid
  | .drop sid, c => sid < c
  | .queue sid, c => c < sid
  | .wait sid, c => c < sid
  | .orphan sid, c => c < sid
  | _, _ => false

theorem allowed_reader {s s' : PS} {e : Ev} (he : isReader e = true) (h : allowed s e = some s') :
    s' = s.afterRead (obs e) ∧ ∃ c ∈ s.window, obs e c = true := by
  step_cases e h with hg
  case deliver sid => exact ⟨rfl, sid, hg.1, by simp [obs]⟩
  case drop sid => obtain ⟨c, h1, h2⟩ := hg; exact ⟨rfl, c, h1, by simp [obs, h2]⟩
  case queue sid => obtain ⟨c, h1, h2⟩ := hg; exact ⟨rfl, c, h1, by simp [obs, h2]⟩
  case wait sid => obtain ⟨c, h1, h2⟩ := hg; exact ⟨rfl, c, h1, by simp [obs, h2]⟩
  case orphan sid => obtain ⟨c, h1, h2⟩ := hg; exact ⟨rfl, c, h1, by simp [obs, h2]⟩
  all_goals cases he

/-- the id of the newest stream (created or being created) -/
def PS.newest (s : PS) : Nat := s.pending.getD s.curr

theorem le_newest {s : PS} (hi : Inv s) {c : Nat} (hc : c ∈ s.window) : c ≤ s.newest := by
  rcases hi.window c hc with rfl | h1
  · exact Nat.zero_le _
  · have := hi.currMax c h1
    unfold PS.newest
    cases hp : s.pending with
    | none => exact this.1 hp
    | some p => exact this.2 p hp

/-- `m` is a lower bound of everything the reader can still observe as the current stream id:
    the pointer has reached `m` -/
def LB (m : Nat) (s : PS) : Prop := (∀ c ∈ s.window, m ≤ c) ∧ m ≤ s.newest

/-- a reader event keeps every lower bound, and adds the one its own observation gives -/
theorem lb_afterRead {m : Nat} {s : PS} {ok : Nat → Bool} (hn : m ≤ s.newest)
    (hm : ∀ c ∈ s.window, ok c = true → ∀ v ∈ s.currs, c ≤ v → m ≤ v) : LB m (s.afterRead ok) := by
  refine ⟨?_, hn⟩
  intro v hv
  obtain ⟨h1, c, hc, hok, hle⟩ := mem_afterRead_window.1 hv
  exact hm c hc hok v h1 hle

/-- after any reader event: the stored id -/
theorem lb_afterRead_curr {s : PS} (ok : Nat → Bool) (hi : Inv s) : LB s.curr (s.afterRead ok) := by
  have hcur : ∀ v ∈ s.currs, s.curr ≤ v := by
    intro v hv
    rcases mem_currs.1 hv with rfl | hp
    · exact Nat.le_refl _
    · exact Nat.le_of_lt (hi.pendIn _ hp).2
  apply lb_afterRead
  · unfold PS.newest
    cases hp : s.pending with
    | none => exact Nat.le_refl _
    | some p => exact Nat.le_of_lt (hi.pendIn _ hp).2
  · intro c _ _ v hv _; exact hcur v hv

/-- after `deliver sid`: the pointer has reached `sid` -/
theorem lb_deliver {s s' : PS} {sid : Nat} (hi : Inv s) (h : allowed s (.deliver sid) = some s') : LB sid s' := by
  simp only [allowed] at h
  split at h
  · rename_i hg
    injection h with h; subst h
    apply lb_afterRead (le_newest hi hg.1)
    intro c _ hok v _ hle
    simp only [beq_iff_eq] at hok
    omega
  · cases h

/-- after `drop sid`: the pointer is beyond `sid` -/
theorem lb_drop {s s' : PS} {sid : Nat} (hi : Inv s) (h : allowed s (.drop sid) = some s') : LB (sid + 1) s' := by
  simp only [allowed] at h
  split at h
  · rename_i hg
    injection h with h; subst h
    obtain ⟨c, hc, hlt⟩ := hg
    apply lb_afterRead (Nat.le_trans hlt (le_newest hi hc))
    intro c _ hok v _ hle
    simp only [decide_eq_true_eq] at hok
    omega
  · cases h

theorem lb_step {m : Nat} {s s' : PS} {e : Ev} (hi : LB m s) (h : allowed s e = some s') : LB m s' := by
  obtain ⟨l1, l2⟩ := hi
  have hrd : ∀ ok, LB m (s.afterRead ok) := fun ok =>
    lb_afterRead l2 (fun c hc _ v _ hle => Nat.le_trans (l1 c hc) hle)
  step_cases e h with hg
  case deliver | drop | queue | wait | orphan => exact hrd _
  case newBegin sid =>
    have hlt := hg.2.2.2
    have hpn := hg.2.2.1
    have : m ≤ sid := by
      unfold PS.newest at l2; rw [hpn] at l2; simp only [Option.getD_none] at l2; omega
    refine ⟨?_, this⟩
    intro c hc
    simp only [List.mem_append, List.mem_singleton] at hc
    rcases hc with hc | rfl
    · exact l1 c hc
    · exact this
  case newEnd sid =>
    refine ⟨l1, ?_⟩
    unfold PS.newest at l2 ⊢; rw [hg] at l2; exact l2
  all_goals exact ⟨l1, l2⟩

theorem lb_run {m : Nat} {s s' : PS} {b : List Ev} (hi : LB m s) (h : run s b = some s') : LB m s' := by
  have := run_ind (fun _ => True) (fun _ s => LB m s) (fun _ _ _ _ _ hp hs => lb_step hp hs) b [] s s'
    (fun _ _ => trivial) hi h
  exact this

/-- without a reader event the window only grows, by the ids of the streams whose creation began -/
theorem window_step {s s' : PS} {e : Ev} (he : isReader e = false) (h : allowed s e = some s') :
    s'.window = s.window ++ [e].filterMap beginId := by
  step_cases e h with hg
  all_goals first | (simp [beginId]; done) | cases he

theorem window_run {s s' : PS} {b : List Ev} (hb : ∀ e ∈ b, isReader e = false) (h : run s b = some s') :
    s'.window = s.window ++ b.filterMap beginId := by
  have := run_ind (fun e => isReader e = false) (fun a t => t.window = s.window ++ a.filterMap beginId)
    (fun a t e t' hq hp hs => by
      rw [window_step hq hs, hp, List.filterMap_append, List.append_assoc]) b [] s s' hb (by simp) h
  simpa using this

end Drpc.Manager
