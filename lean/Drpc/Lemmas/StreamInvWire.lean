import Drpc.Lemmas.StreamInvStep
/-
  Invariants of the atomic-step stream model, part 3: the ghost history `hist` of all frames ever
  appended to the writer is a well-formed frame stream, and what reaches the transport is that
  history (minus failed writes).
-/
namespace Drpc.Stream

/-! ### well-formed frame histories -/

/-- what the scan remembers of the last frame -/
structure Last where
  mid : U64
  kind : Byte
  done : Bool
deriving DecidableEq, Repr

def Last.of (f : Frame) : Last := ⟨f.mid, f.kind, f.done⟩

/-- may frame `f` follow a frame summarised by `l`?  Either it starts a later message, or it
    continues the same message: same kind, and the previous frame was not the `done` frame. -/
def follows (l : Last) (f : Frame) : Bool :=
  decide (l.mid.toNat < f.mid.toNat) || (l.mid == f.mid && l.kind == f.kind && !l.done)

/-- is `f` acceptable after the scan state `st` (`none`: nothing seen yet)? -/
def accepts (sid : U64) (st : Option Last) (f : Frame) : Bool :=
  f.sid == sid && (match st with | none => true | some l => follows l f)

/-- scan a frame sequence; `none` = rejected, `some st` = accepted with final scan state `st` -/
def wfScan (sid : U64) : Option Last → List Frame → Option (Option Last)
  | st, [] => some st
  | st, f :: fs => if accepts sid st f then wfScan sid (some (Last.of f)) fs else none

/-- `WellFormed sid fs`: every frame carries stream id `sid`; message ids never decrease; the
    frames of one message id are contiguous, have one kind, and none follows its `done` frame. -/
def WellFormed (sid : U64) (fs : List Frame) : Bool := (wfScan sid none fs).isSome

theorem wfScan_append (sid : U64) (st : Option Last) (a b : List Frame) :
    wfScan sid st (a ++ b) = (wfScan sid st a).bind (fun st' => wfScan sid st' b) := by
  induction a generalizing st with
  | nil => rfl
  | cons f fs ih =>
    simp only [List.cons_append, wfScan]
    by_cases hacc : accepts sid st f = true
    · simp only [hacc, if_true]; exact ih _
    · simp only [hacc]; rfl

theorem WellFormed.prefix {sid : U64} {a b : List Frame} (h : WellFormed sid (a ++ b) = true) :
    WellFormed sid a = true := by
  unfold WellFormed at *
  rw [wfScan_append] at h
  cases hx : wfScan sid none a with
  | none => rw [hx] at h; cases h
  | some _ => rfl

/-- the scan state after a non-empty accepted sequence is its last frame -/
theorem wfScan_last {sid : U64} {st : Option Last} {fs : List Frame} {l : Last}
    (h : wfScan sid st fs = some (some l)) : (fs = [] ∧ st = some l) ∨ ∃ f ∈ fs, l = Last.of f := by
  induction fs generalizing st with
  | nil => left; simp [wfScan] at h; exact ⟨rfl, h⟩
  | cons f fs ih =>
    right
    simp only [wfScan] at h
    by_cases hacc : accepts sid st f = true
    · simp only [hacc, if_true] at h
      rcases ih h with ⟨rfl, h2⟩ | ⟨g, hg, hl⟩
      · exact ⟨f, by simp, by cases h2; rfl⟩
      · exact ⟨g, by simp [hg], hl⟩
    · simp [hacc] at h

/-- a new message (all its frames carry the fresh id `m`, larger than every id in the history) may
    be appended to a well-formed history if it is well-formed on its own -/
theorem WellFormed.append_new {sid : U64} {hist fs : List Frame} {m : U64}
    (h1 : WellFormed sid hist = true) (h2 : WellFormed sid fs = true)
    (hlt : ∀ f ∈ hist, f.mid.toNat < m.toNat) (hm : ∀ f ∈ fs, f.mid = m) :
    WellFormed sid (hist ++ fs) = true := by
  unfold WellFormed at *
  rw [wfScan_append]
  cases hx : wfScan sid none hist with
  | none => rw [hx] at h1; cases h1
  | some st =>
    simp only [Option.bind]
    cases fs with
    | nil => rfl
    | cons f rest =>
      simp only [wfScan] at h2 ⊢
      have hf : f.mid = m := hm f (by simp)
      by_cases hacc : accepts sid none f = true
      · simp only [hacc, if_true] at h2
        have : accepts sid st f = true := by
          cases st with
          | none => exact hacc
          | some l =>
            rcases wfScan_last hx with ⟨rfl, h⟩ | ⟨g, hg, hl⟩
            · cases h
            · have := hlt g hg
              simp only [accepts, Bool.and_true] at hacc
              simp [accepts, hacc, follows, hl, Last.of, hf, this]
        simp only [this, if_true]; exact h2
      · simp [hacc] at h2

/-- `b` may come (anywhere) after `a` in a well-formed stream: a later message, or the same message
    with the same kind and `a` not its `done` frame -/
def FrameRel (a b : Frame) : Prop :=
  a.mid.toNat < b.mid.toNat ∨ (a.mid = b.mid ∧ a.kind = b.kind ∧ a.done = false)

theorem FrameRel.trans {a b c : Frame} (h1 : FrameRel a b) (h2 : FrameRel b c) : FrameRel a c := by
  unfold FrameRel at *
  rcases h1 with h1 | ⟨h1, h1', h1''⟩ <;> rcases h2 with h2 | ⟨h2, h2', h2''⟩
  · left; omega
  · left; rw [← h2]; exact h1
  · left; rw [h1]; exact h2
  · right; exact ⟨h1.trans h2, h1'.trans h2', h1''⟩

theorem follows_rel {g f : Frame} (h : follows (Last.of g) f = true) : FrameRel g f := by
  simp only [follows, Last.of, Bool.or_eq_true, Bool.and_eq_true, beq_iff_eq,
    Bool.not_eq_true'] at h
  rcases h with h | ⟨⟨h1, h2⟩, h3⟩
  · exact .inl (of_decide_eq_true h)
  · exact .inr ⟨h1, h2, h3⟩

theorem wfScan_spec {sid : U64} {fs : List Frame} {st : Option Last} (h : (wfScan sid st fs).isSome = true) :
    (∀ f ∈ fs, f.sid = sid) ∧ (∀ g, st = some (Last.of g) → ∀ f ∈ fs, FrameRel g f) ∧ fs.Pairwise FrameRel := by
  induction fs generalizing st with
  | nil => simp
  | cons f fs ih =>
    simp only [wfScan] at h
    by_cases hacc : accepts sid st f = true
    · simp only [hacc, if_true] at h
      obtain ⟨i1, i2, i3⟩ := ih h
      simp only [accepts, Bool.and_eq_true, beq_iff_eq] at hacc
      refine ⟨?_, ?_, ?_⟩
      · intro x hx
        simp only [List.mem_cons] at hx
        rcases hx with rfl | hx
        · exact hacc.1
        · exact i1 x hx
      · intro g hg x hx
        subst hg
        have hgf : FrameRel g f := follows_rel hacc.2
        simp only [List.mem_cons] at hx
        rcases hx with rfl | hx
        · exact hgf
        · exact hgf.trans (i2 f rfl x hx)
      · exact List.pairwise_cons.mpr ⟨i2 f rfl, i3⟩
    · simp [hacc] at h

/-- what `WellFormed` means, without the scan: all frames carry `sid`, and any two frames, the
    earlier one first, are related by `FrameRel` -/
theorem WellFormed.spec {sid : U64} {fs : List Frame} (h : WellFormed sid fs = true) :
    (∀ f ∈ fs, f.sid = sid) ∧ fs.Pairwise FrameRel :=
  ⟨(wfScan_spec h).1, (wfScan_spec h).2.2⟩

/-- the frames of one `splitFrames` call form a well-formed message -/
theorem wfScan_splitFrames (sid mid : U64) (kind : Byte) (ctl : Bool) (n : Nat) (d : Bytes) (st : Option Last)
    (hst : st = none ∨ st = some ⟨mid, kind, false⟩) :
    (wfScan sid st (splitFrames sid mid kind ctl n d)).isSome = true := by
  induction d using splitFrames.induct (m := n) generalizing st with
  | case1 d h ih =>
    rw [splitFrames]; simp only [h, and_self, ↓reduceDIte, wfScan]
    have : accepts sid st
        { data := List.take n d, sid := sid, mid := mid, kind := kind, done := false, control := ctl } = true := by
      rcases hst with rfl | rfl <;> simp [accepts, follows]
    simp only [this, if_true]
    exact ih _ (.inr (by simp [Last.of]))
  | case2 d h =>
    rw [splitFrames]; simp only [h, ↓reduceDIte, wfScan]
    have : accepts sid st
        { data := d, sid := sid, mid := mid, kind := kind, done := true, control := ctl } = true := by
      rcases hst with rfl | rfl <;> simp [accepts, follows]
    simp [this]

theorem splitFrames_mid (sid mid : U64) (kind : Byte) (ctl : Bool) (n : Nat) (d : Bytes) :
    ∀ f ∈ splitFrames sid mid kind ctl n d, f.mid = mid := by
  induction d using splitFrames.induct (m := n) with
  | case1 d h ih =>
    rw [splitFrames]; simp only [h, and_self, ↓reduceDIte]
    intro f hf
    simp only [List.mem_cons] at hf
    rcases hf with rfl | hf
    · rfl
    · exact ih f hf
  | case2 d h =>
    rw [splitFrames]; simp only [h, ↓reduceDIte]
    intro f hf
    simp only [List.mem_singleton] at hf
    subst hf; rfl

theorem wellFormed_framesOf (o : Opts) (mid : U64) (k : Byte) (d : Bytes) :
    WellFormed o.sid (framesOf o mid k d) = true :=
  wfScan_splitFrames _ _ _ _ _ _ none (.inl rfl)

theorem framesOf_mid (o : Opts) (mid : U64) (k : Byte) (d : Bytes) : ∀ f ∈ framesOf o mid k d, f.mid = mid :=
  splitFrames_mid _ _ _ _ _ _

theorem wellFormed_packetOf (o : Opts) (mid : U64) (c : Call) : WellFormed o.sid [packetOf o mid c] = true := by
  cases c <;> simp [WellFormed, wfScan, packetOf, accepts]

theorem packetOf_mid (o : Opts) (mid : U64) (c : Call) : (packetOf o mid c).mid = mid := by
  cases c <;> rfl

/-! ### the frames a write section still has to append -/

def pend : PC → List Frame
  | .frame sec => sec.frames
  | .writing sec fromFlush => if fromFlush then [] else sec.frames
  | _ => []

gen_ctor_simp pend

@[simp] theorem pend_afterTerm (c : Call) : pend (afterTerm c) = [] := by cases c <;> rfl

theorem pend_nil_of_not_holdsW (p : PC) (h : holdsW p = false) : pend p = [] := by
  cases p <;> simp_all

/-- the write section still has a frame to append -/
def hasPend : PC → Bool
  | .frame sec => !sec.frames.isEmpty
  | .writing sec fromFlush => !fromFlush && !sec.frames.isEmpty
  | _ => false

gen_ctor_simp hasPend

@[simp] theorem hasPend_afterTerm (c : Call) : hasPend (afterTerm c) = false := by cases c <;> rfl

/-- the frames of the transport write in flight -/
def inflightFrames (sh : Sh) : List Frame := match sh.inflight with | some (_, fs) => fs | none => []

attribute [local simp] firstSec flushSec getInflight getOnce relSh Option.join_eq_some_iff Option.join_eq_none_iff
  inflightFrames

theorem pendMid_step {s : St} {t : Tid} {sh' : Sh} {p' : PC}
    (ih : ∀ u, ∀ f ∈ pend (s.pc u), f.mid = s.sh.mid)
    (hA : ∀ f ∈ pend p', f.mid = sh'.mid)
    (hB : sh'.mid = s.sh.mid ∨ NoOther holdsW s t) :
    ∀ u, ∀ f ∈ pend ((s.upd t sh' p').pc u), f.mid = (s.upd t sh' p').sh.mid := by
  intro u f hf
  rw [upd_sh]
  by_cases hu : u = t
  · subst hu; rw [upd_pc_self] at hf; exact hA f hf
  · rw [upd_pc_ne _ _ _ _ _ hu] at hf
    rcases hB with h | h
    · rw [h]; exact ih u f hf
    · rw [pend_nil_of_not_holdsW _ (h u hu)] at hf; cases hf

theorem wf_step {sid : U64} {s : St} {t : Tid} {sh' : Sh} {p' : PC}
    (ih : ∀ u, WellFormed sid (s.sh.hist ++ pend (s.pc u)) = true)
    (hA : WellFormed sid (sh'.hist ++ pend p') = true)
    (hB : sh'.hist = s.sh.hist ∨ NoOther holdsW s t) :
    ∀ u, WellFormed sid ((s.upd t sh' p').sh.hist ++ pend ((s.upd t sh' p').pc u)) = true := by
  intro u
  rw [upd_sh]
  by_cases hu : u = t
  · subst hu; rw [upd_pc_self]; exact hA
  · rw [upd_pc_ne _ _ _ _ _ hu]
    rcases hB with h | h
    · rw [h]; exact ih u
    · rw [pend_nil_of_not_holdsW _ (h u hu), List.append_nil]; exact WellFormed.prefix hA

/-! ### the message counter -/

theorem step_midEq {s s' : St} {t : Tid} (h : step s t = some s')
    (ih : s.sh.mid = BitVec.ofNat 64 s.sh.midN) : s'.sh.mid = BitVec.ofNat 64 s'.sh.midN := by
  unfold step at h
  pc_cases s t hp =>
    step_explode h hp
    all_goals (simp [*, BitVec.ofNat_add])

theorem step_midN_le {s s' : St} {t : Tid} (h : step s t = some s') : s.sh.midN ≤ s'.sh.midN := by
  unfold step at h
  pc_cases s t hp =>
    step_explode h hp
    all_goals simp

theorem step_pendMid {s s' : St} {t : Tid} (h : step s t = some s')
    (hw : LockInv (·.w) holdsW s)
    (ih : ∀ u, ∀ f ∈ pend (s.pc u), f.mid = s.sh.mid) :
    ∀ u, ∀ f ∈ pend (s'.pc u), f.mid = s'.sh.mid := by
  have iht := ih t
  have hoth : holdsW (s.pc t) = true → NoOther holdsW s t := fun h1 => hw.others h1
  unfold step at h
  pc_cases s t hp =>
    rw [hp] at iht hoth
    step_explode h hp
    all_goals (simp at iht hoth)
    all_goals (refine pendMid_step ih ?_ ?_)
    all_goals (simp (config := { contextual := true }) [*, packetOf_mid])
    all_goals (first | done | exact framesOf_mid _ _ _ _ | grind)

theorem ofNat_toNat_of_lt {n : Nat} (h : n < 2^64) : (BitVec.ofNat 64 n).toNat = n := by
  simp [BitVec.toNat_ofNat, Nat.mod_eq_of_lt h]

theorem step_histLe {s s' : St} {t : Tid} (h : step s t = some s')
    (hmid : s.sh.mid = BitVec.ofNat 64 s.sh.midN)
    (hpm : ∀ u, ∀ f ∈ pend (s.pc u), f.mid = s.sh.mid)
    (hnw : s'.sh.midN < 2^64)
    (ih : ∀ f ∈ s.sh.hist, f.mid.toNat ≤ s.sh.midN) :
    ∀ f ∈ s'.sh.hist, f.mid.toNat ≤ s'.sh.midN := by
  have hpmt := hpm t
  unfold step at h
  pc_cases s t hp =>
    rw [hp] at hpmt
    step_explode h hp
    all_goals (simp at hpmt hnw ⊢)
    all_goals (first
      | exact ih
      | (intro f hf; exact Nat.le_succ_of_le (ih f hf))
      | (intro f hf
         rcases hf with hf | rfl
         · exact ih f hf
         · rw [hpmt _ (by simp [*]), hmid, ofNat_toNat_of_lt hnw]; exact Nat.le_refl _))

theorem step_pendPos {s s' : St} {t : Tid} (h : step s t = some s')
    (ih : ∀ u, hasPend (s.pc u) = true → 1 ≤ s.sh.midN) :
    ∀ u, hasPend (s'.pc u) = true → 1 ≤ s'.sh.midN := by
  have iht := ih t
  unfold step at h
  pc_cases s t hp =>
    rw [hp] at iht
    step_explode h hp
    all_goals (simp at iht)
    all_goals (refine loc_step (Q := fun sh => 1 ≤ sh.midN) ih ?_ ?_)
    all_goals (simp (config := { contextual := true }) [*])
    all_goals (try omega)

theorem step_histPos {s s' : St} {t : Tid} (h : step s t = some s')
    (hmid : s.sh.mid = BitVec.ofNat 64 s.sh.midN)
    (hpm : ∀ u, ∀ f ∈ pend (s.pc u), f.mid = s.sh.mid)
    (hpp : ∀ u, hasPend (s.pc u) = true → 1 ≤ s.sh.midN)
    (hnw : s'.sh.midN < 2^64)
    (ih : ∀ f ∈ s.sh.hist, 1 ≤ f.mid.toNat) :
    ∀ f ∈ s'.sh.hist, 1 ≤ f.mid.toNat := by
  have hpmt := hpm t
  have hppt := hpp t
  unfold step at h
  pc_cases s t hp =>
    rw [hp] at hpmt hppt
    step_explode h hp
    all_goals (simp at hpmt hppt hnw ⊢)
    all_goals (first
      | exact ih
      | (intro f hf
         rcases hf with hf | rfl
         · exact ih f hf
         · rw [hpmt _ (by simp [*]), hmid, ofNat_toNat_of_lt hnw]; exact hppt (by simp [*])))

theorem step_wf {s s' : St} {t : Tid} (h : step s t = some s')
    (hw : LockInv (·.w) holdsW s)
    (hmid : s.sh.mid = BitVec.ofNat 64 s.sh.midN)
    (hle : ∀ f ∈ s.sh.hist, f.mid.toNat ≤ s.sh.midN)
    (hnw : s'.sh.midN < 2^64)
    (ih : ∀ u, WellFormed s.opts.sid (s.sh.hist ++ pend (s.pc u)) = true) :
    ∀ u, WellFormed s'.opts.sid (s'.sh.hist ++ pend (s'.pc u)) = true := by
  have iht := ih t
  have wft : WellFormed s.opts.sid s.sh.hist = true := WellFormed.prefix iht
  have hoth : holdsW (s.pc t) = true → NoOther holdsW s t := fun h1 => hw.others h1
  have hnew : s.sh.midN + 1 < 2^64 → ∀ fs, WellFormed s.opts.sid fs = true →
      (∀ f ∈ fs, f.mid = s.sh.mid + 1#64) → WellFormed s.opts.sid (s.sh.hist ++ fs) = true := by
    intro h1 fs h2 h3
    refine WellFormed.append_new wft h2 (m := s.sh.mid + 1#64) ?_ h3
    intro f hf
    have := hle f hf
    rw [hmid, ← BitVec.ofNat_add, ofNat_toNat_of_lt h1]
    omega
  unfold step at h
  pc_cases s t hp =>
    rw [hp] at iht hoth
    step_explode h hp
    all_goals (simp at iht hoth hnw)
    all_goals (simp only [upd_opts])
    all_goals (refine wf_step ih ?_ ?_)
    all_goals (first
      | (simp [*]; done)
      | exact hnew hnw _ (wellFormed_framesOf _ _ _ _) (framesOf_mid _ _ _ _)
      | exact hnew hnw _ (wellFormed_packetOf _ _ _) (by simp [packetOf_mid])
      | (simp_all; done))

theorem step_flat {s s' : St} {t : Tid} (h : step s t = some s')
    (hw : LockInv (·.w) holdsW s) (hi : LockInv getInflight inWriting s)
    (ih : s.sh.failed = false → s.sh.wire.flatten ++ inflightFrames s.sh ++ s.sh.wbuf = s.sh.hist) :
    s'.sh.failed = false → s'.sh.wire.flatten ++ inflightFrames s'.sh ++ s'.sh.wbuf = s'.sh.hist := by
  have hfree := inflight_free hw hi (t := t)
  unfold step at h
  pc_cases s t hp =>
    rw [hp] at hfree
    step_explode h hp
    all_goals (simp at hfree)
    all_goals (intro hf; simp at hf; have ih' := ih hf)
    all_goals (simp [*] at ih' ⊢)
    all_goals (first | done | (rw [← ih'] <;> simp))

/-! ### environment steps -/

theorem env_mid {s s' : St} {e : Env} (h : envStep s e = some s') :
    s'.sh.mid = s.sh.mid ∧ s'.sh.midN = s.sh.midN ∧ s'.sh.hist = s.sh.hist ∧ s'.opts = s.opts := by
  env_cases h with t hp hi => simp

theorem env_pendMid {s s' : St} {e : Env} (h : envStep s e = some s')
    (ih : ∀ u, ∀ f ∈ pend (s.pc u), f.mid = s.sh.mid) :
    ∀ u, ∀ f ∈ pend (s'.pc u), f.mid = s'.sh.mid := by
  env_cases h with t hp hi =>
    have iht := ih t
    rw [hp] at iht
    simp at iht
    refine pendMid_step ih ?_ ?_ <;> first | assumption | simp [*]

theorem env_pendPos {s s' : St} {e : Env} (h : envStep s e = some s')
    (ih : ∀ u, hasPend (s.pc u) = true → 1 ≤ s.sh.midN) :
    ∀ u, hasPend (s'.pc u) = true → 1 ≤ s'.sh.midN := by
  env_cases h with t hp hi =>
    have iht := ih t
    rw [hp] at iht
    simp at iht
    refine loc_step (Q := fun sh => 1 ≤ sh.midN) ih ?_ ?_ <;> simp [*]

theorem env_wf {s s' : St} {e : Env} (h : envStep s e = some s')
    (ih : ∀ u, WellFormed s.opts.sid (s.sh.hist ++ pend (s.pc u)) = true) :
    ∀ u, WellFormed s'.opts.sid (s'.sh.hist ++ pend (s'.pc u)) = true := by
  env_cases h with t hp hi =>
    have iht := ih t
    have wft : WellFormed s.opts.sid s.sh.hist = true := WellFormed.prefix iht
    rw [hp] at iht
    simp at iht
    simp only [upd_opts]
    refine wf_step ih ?_ ?_ <;> simp [*]

theorem env_flat {s s' : St} {e : Env} (h : envStep s e = some s')
    (ih : s.sh.failed = false → s.sh.wire.flatten ++ inflightFrames s.sh ++ s.sh.wbuf = s.sh.hist) :
    s'.sh.failed = false → s'.sh.wire.flatten ++ inflightFrames s'.sh ++ s'.sh.wbuf = s'.sh.hist := by
  env_cases h with t hp hi =>
    intro hf
    simp at hf
    have ih' := ih (by simp [*])
    simp [*] at ih' ⊢
    first | done | assumption | (rw [← ih'] <;> simp)

/-! ### all of it, in every reachable state -/

structure Wire (s : St) : Prop where
  midEq : s.sh.mid = BitVec.ofNat 64 s.sh.midN
  pendMid : ∀ u, ∀ f ∈ pend (s.pc u), f.mid = s.sh.mid
  /-- as long as the 64-bit message counter has not wrapped … -/
  histLe : s.sh.midN < 2^64 → ∀ f ∈ s.sh.hist, f.mid.toNat ≤ s.sh.midN
  pendPos : ∀ u, hasPend (s.pc u) = true → 1 ≤ s.sh.midN
  /-- message ids start at 1 (`id.Message++` precedes the first frame) -/
  histPos : s.sh.midN < 2^64 → ∀ f ∈ s.sh.hist, 1 ≤ f.mid.toNat
  /-- … the history, extended by what any write section still has to append, is well-formed -/
  wf : s.sh.midN < 2^64 → ∀ u, WellFormed s.opts.sid (s.sh.hist ++ pend (s.pc u)) = true
  /-- completed writes ++ the write in flight ++ the buffer = the history, unless a write failed -/
  flat : s.sh.failed = false → s.sh.wire.flatten ++ inflightFrames s.sh ++ s.sh.wbuf = s.sh.hist

theorem Wire.init (o : Opts) : Wire { opts := o } := by
  constructor <;> simp [WellFormed, wfScan]

theorem Wire.step {s s' : St} {t : Tid} (h : step s t = some s') (l : Locks s) (i : Wire s) : Wire s' :=
  have hle := step_midN_le h
  { midEq := step_midEq h i.midEq
    pendMid := step_pendMid h l.w i.pendMid
    histLe := fun hnw => step_histLe h i.midEq i.pendMid hnw (i.histLe (Nat.lt_of_le_of_lt hle hnw))
    pendPos := step_pendPos h i.pendPos
    histPos := fun hnw => step_histPos h i.midEq i.pendMid i.pendPos hnw (i.histPos (Nat.lt_of_le_of_lt hle hnw))
    wf := fun hnw =>
      have hnw0 := Nat.lt_of_le_of_lt hle hnw
      step_wf h l.w i.midEq (i.histLe hnw0) hnw (i.wf hnw0)
    flat := step_flat h l.w l.inflight i.flat }

theorem Wire.env {s s' : St} {e : Env} (h : envStep s e = some s') (i : Wire s) : Wire s' := by
  obtain ⟨h1, h2, h3, h4⟩ := env_mid h
  exact
  { midEq := by rw [h1, h2]; exact i.midEq
    pendMid := env_pendMid h i.pendMid
    histLe := by rw [h2, h3]; exact i.histLe
    pendPos := env_pendPos h i.pendPos
    histPos := by rw [h2, h3]; exact i.histPos
    wf := by rw [h2]; exact fun hnw => env_wf h (i.wf hnw)
    flat := env_flat h i.flat }

theorem Wire.spawn {s : St} {t : Tid} {c : Call} (hd : ∃ r, s.pc t = .done r) (i : Wire s) :
    Wire (s.setPc t (.start c)) := by
  obtain ⟨r, hp⟩ := hd
  rw [setPc_eq_upd]
  have hwt := fun hnw => i.wf hnw t
  rw [hp] at hwt
  simp at hwt
  exact
  { midEq := by simpa using i.midEq
    pendMid := pendMid_step i.pendMid (by simp) (.inl rfl)
    histLe := by simpa using i.histLe
    pendPos := loc_step (Q := fun sh => 1 ≤ sh.midN) i.pendPos (by simp) (.inl id)
    histPos := by simpa using i.histPos
    wf := fun hnw => by
      simp only [upd_opts]
      exact wf_step (i.wf (by simpa using hnw)) (by simpa using hwt (by simpa using hnw)) (.inl rfl)
    flat := by simpa using i.flat }

theorem reach_wire {s : St} (h : Reach s) : Wire s := by
  induction h with
  | init o => exact Wire.init o
  | step hr hs ih => exact ih.step hs (reach_locks hr)
  | env _ he ih => exact ih.env he
  | spawn _ hd ih => exact ih.spawn hd

end Drpc.Stream
