import Drpc.Server.Serve
/-
  Invariant of the Serve / Tracker model (Drpc/Server/Serve.lean) and the helper lemmas the property
  theorems in Drpc/Props/Serve.lean are read off from.  No ghost field was added to the model: the
  connection a goroutine `t ≥ 2` serves is `served[t-2]`.
-/
namespace Drpc.Server

/-! classifiers of program counters -/

/-- inside `track(ServeOne)`: started and not yet past `wg.Done()` -/
def isK : PC → Bool
  | .kServe _ | .kDone _ => true
  | _ => false
/-- program counters of goroutine 0 (Serve) -/
def serveP : PC → Bool
  | .sStart | .sAddCloser | .sGoCloser | .sAccept | .sGotErr _ | .sSleep | .sAddConn _ | .sGoConn _
  | .sCancel | .sWait | .done => true
  | _ => false
/-- program counters of goroutine 1 (the closer) -/
def closerP : PC → Bool
  | .idle | .cWait | .cClose | .cDone | .done => true
  | _ => false
/-- program counters of a connection goroutine -/
def connP : PC → Bool
  | .idle | .kServe _ | .kDone _ | .done => true
  | _ => false
/-- Serve has not yet executed `go track(closer)` -/
def early : PC → Bool
  | .sStart | .sAddCloser | .sGoCloser => true
  | _ => false
/-- the closer goroutine runs and has not yet executed its `wg.Done()` -/
def closerLive : PC → Bool
  | .cWait | .cClose | .cDone => true
  | _ => false
/-- the closer has executed `lis.Close()` -/
def closerClosed : PC → Bool
  | .cDone | .done => true
  | _ => false
/-- the closer is past `<-ctx.Done()` -/
def closerPastWait : PC → Bool
  | .cClose | .cDone | .done => true
  | _ => false
/-- Serve is between `wg.Add(1)` and the `go` statement of a `tracker.Run` -/
def pendAdd : PC → Nat
  | .sGoCloser | .sGoConn _ => 1
  | _ => 0
/-- the connection Serve holds between Accept and `go` -/
def pendConn : PC → List Nat
  | .sAddConn c | .sGoConn c => [c]
  | _ => []
/-- Serve is past the deferred `tracker.Cancel()` -/
def cancelled : PC → Bool
  | .sWait | .done => true
  | _ => false
/-- Serve has left the accept loop (executed a `return`) -/
def exiting : PC → Bool
  | .sCancel | .sWait | .done => true
  | _ => false

/-- number of goroutines `t` with `2 ≤ t < n` inside `track(ServeOne)` -/
def liveK (pc : Tid → PC) : Nat → Nat
  | 0 => 0
  | n+1 => liveK pc n + (if 2 ≤ n ∧ isK (pc n) = true then 1 else 0)

/-- the connection goroutines started so far that have not executed their `wg.Done()` -/
def St.liveConns (s : St) : Nat := liveK s.pc s.sh.nextTid

theorem liveK_congr (pc pc' : Tid → PC) (n : Nat)
    (h : ∀ u, 2 ≤ u → u < n → isK (pc' u) = isK (pc u)) : liveK pc' n = liveK pc n := by
  induction n with
  | zero => rfl
  | succ n ih =>
    simp only [liveK]
    rw [ih (fun u h2 hu => h u h2 (by omega))]
    by_cases h2 : 2 ≤ n
    · rw [h n h2 (by omega)]
    · simp [h2]

theorem liveK_pos (pc : Tid → PC) (n t : Nat) (h2 : 2 ≤ t) (hn : t < n) (hk : isK (pc t) = true) :
    0 < liveK pc n := by
  induction n with
  | zero => omega
  | succ n ih =>
    simp only [liveK]
    by_cases htn : t = n
    · subst htn; simp [h2, hk]
    · have := ih (by omega); omega

theorem liveK_exists (pc : Tid → PC) (n : Nat) (h : 0 < liveK pc n) :
    ∃ t, 2 ≤ t ∧ t < n ∧ isK (pc t) = true := by
  induction n with
  | zero => simp [liveK] at h
  | succ n ih =>
    simp only [liveK] at h
    by_cases hk : 2 ≤ n ∧ isK (pc n) = true
    · exact ⟨n, hk.1, by omega, hk.2⟩
    · simp only [hk, if_false, Nat.add_zero] at h
      obtain ⟨t, a, b, c⟩ := ih h
      exact ⟨t, a, by omega, c⟩

/-- a goroutine leaves `track(ServeOne)` -/
theorem liveK_dec (pc pc' : Tid → PC) (n t : Nat) (h2 : 2 ≤ t) (hn : t < n)
    (hk : isK (pc t) = true) (hk' : isK (pc' t) = false)
    (ho : ∀ u, u ≠ t → 2 ≤ u → u < n → isK (pc' u) = isK (pc u)) : liveK pc' n + 1 = liveK pc n := by
  induction n with
  | zero => omega
  | succ n ih =>
    simp only [liveK]
    by_cases htn : t = n
    · subst htn
      rw [liveK_congr pc pc' t (fun u a b => ho u (by omega) a (by omega))]
      simp [h2, hk, hk']
    · have := ih (by omega) (fun u a b c => ho u a b (by omega))
      by_cases hn2 : 2 ≤ n
      · rw [ho n (by omega) hn2 (by omega)]; omega
      · simp [hn2]; omega

/-! the invariant -/

/-- what goroutine `t ≥ 2` (started) knows about its connection `served[t-2]` -/
def connOK (sh : Sh) (t : Nat) : PC → Prop
  | .kServe c => sh.served[t-2]? = some c ∧ c ∉ sh.ended
  | .kDone c => sh.served[t-2]? = some c ∧ c ∈ sh.ended
  | .done => ∀ c, sh.served[t-2]? = some c → c ∈ sh.ended
  | _ => False

theorem connOK_congr {sh sh' : Sh} (h1 : sh'.served = sh.served) (h2 : sh'.ended = sh.ended) (t : Nat) (p : PC) :
    connOK sh' t p ↔ connOK sh t p := by
  cases p <;> simp [connOK, h1, h2]

structure Inv (s : St) : Prop where
  role0 : serveP (s.pc 0) = true
  role1 : closerP (s.pc 1) = true
  roleK : ∀ t : Nat, 2 ≤ t → connP (s.pc t) = true
  nt : s.sh.nextTid = s.sh.served.length + 2
  idleAbove : ∀ t : Nat, s.sh.nextTid ≤ t → s.pc t = .idle
  conn : ∀ t : Nat, 2 ≤ t → t < s.sh.nextTid → connOK s.sh t (s.pc t)
  endedSub : ∀ c, c ∈ s.sh.ended → c ∈ s.sh.served
  endedNodup : s.sh.ended.Nodup
  acc : s.sh.accepted = s.sh.served ++ pendConn (s.pc 0)
  arr : s.sh.accepted ++ s.sh.queue = List.range s.sh.nextConn
  wgEq : s.sh.wg = (if closerLive (s.pc 1) = true then 1 else 0) + liveK s.pc s.sh.nextTid + pendAdd (s.pc 0)
  closerIdle : (s.pc 1 = .idle) ↔ early (s.pc 0) = true
  lis : s.sh.lisCloses = if closerClosed (s.pc 1) = true then 1 else 0
  lisT : closerPastWait (s.pc 1) = true → s.sh.tdone = true
  tc : s.sh.tcancel = cancelled (s.pc 0)
  retSome : s.sh.ret.isSome = exiting (s.pc 0)
  retTrue : s.sh.ret = some true → s.sh.ctxDone = true
  doneWg : s.pc 0 = .done → s.sh.wg = 0

theorem inv_init : Inv {} := by
  refine ⟨rfl, rfl, ?_, rfl, ?_, ?_, ?_, ?_, rfl, rfl, rfl, ?_, rfl, ?_, rfl, rfl, ?_, ?_⟩
  · intro t h; have : t ≠ 0 := by omega
    simp [this, connP]
  · intro t h; have : t ≠ 0 := by (simp at h; omega)
    simp [this]
  · intro t h1 h2; simp at h2; omega
  · intro c h; simp at h
  · simp
  · simp [early]
  · simp [closerPastWait]
  · simp
  · simp

/-- only goroutine 0 runs Serve's statements -/
theorem Inv.tid0 {s : St} (h : Inv s) {t : Nat} (hp : serveP (s.pc t) = true) (hd : s.pc t ≠ .done) : t = 0 := by
  by_cases h0 : t = 0
  · exact h0
  · by_cases h1 : t = 1
    · subst h1; have := h.role1
      revert hp hd this; cases s.pc 1 <;> simp [serveP, closerP]
    · have := h.roleK t (by omega)
      revert hp hd this; cases s.pc t <;> simp [serveP, connP]

/-- only goroutine 1 runs the closer's statements -/
theorem Inv.tid1 {s : St} (h : Inv s) {t : Nat} (hp : closerLive (s.pc t) = true) : t = 1 := by
  by_cases h0 : t = 0
  · subst h0; have := h.role0
    revert hp this; cases s.pc 0 <;> simp [serveP, closerLive]
  · by_cases h1 : t = 1
    · exact h1
    · have := h.roleK t (by omega)
      revert hp this; cases s.pc t <;> simp [closerLive, connP]

/-- only started connection goroutines are inside `track(ServeOne)` -/
theorem Inv.tidK {s : St} (h : Inv s) {t : Nat} (hp : isK (s.pc t) = true) : 2 ≤ t ∧ t < s.sh.nextTid := by
  by_cases h0 : t = 0
  · subst h0; have := h.role0
    revert hp this; cases s.pc 0 <;> simp [serveP, isK]
  · by_cases h1 : t = 1
    · subst h1; have := h.role1
      revert hp this; cases s.pc 1 <;> simp [closerP, isK]
    · refine ⟨by omega, ?_⟩
      by_cases hn : t < s.sh.nextTid
      · exact hn
      · have := h.idleAbove t (by omega)
        rw [this] at hp; simp [isK] at hp


/-- frame lemma: a step of goroutine 0 that starts no goroutine and leaves `served`, `ended`,
    `nextTid`, `lisCloses` alone -/
theorem Inv.step0 {s : St} (h : Inv s) (p : PC) (sh' : Sh)
    (hserved : sh'.served = s.sh.served) (hended : sh'.ended = s.sh.ended)
    (hnt : sh'.nextTid = s.sh.nextTid) (hlis : sh'.lisCloses = s.sh.lisCloses)
    (r0 : serveP p = true)
    (acc : sh'.accepted = sh'.served ++ pendConn p)
    (arr : sh'.accepted ++ sh'.queue = List.range sh'.nextConn)
    (wg : sh'.wg + pendAdd (s.pc 0) = s.sh.wg + pendAdd p)
    (he : early p = early (s.pc 0))
    (td : s.sh.tdone = true → sh'.tdone = true)
    (tc : sh'.tcancel = cancelled p)
    (retSome : sh'.ret.isSome = exiting p)
    (retTrue : sh'.ret = some true → sh'.ctxDone = true)
    (dw : p = .done → sh'.wg = 0) :
    Inv { sh := sh', pc := fun u => if u = 0 then p else s.pc u } := by
  have hnt2 := h.nt
  refine { role0 := by simpa using r0, role1 := by simpa using h.role1, roleK := ?_, nt := ?_,
           idleAbove := ?_, conn := ?_, endedSub := ?_, endedNodup := ?_, acc := by simpa using acc,
           arr := arr, wgEq := ?_, closerIdle := ?_, lis := ?_, lisT := ?_, tc := by simpa using tc,
           retSome := by simpa using retSome, retTrue := retTrue, doneWg := by simpa using dw }
  · intro u hu; have : u ≠ 0 := by omega
    simpa [this] using h.roleK u hu
  · simp only [hnt, hserved]; exact h.nt
  · intro u hu; simp only [hnt] at hu; have : u ≠ 0 := by omega
    simpa [this] using h.idleAbove u hu
  · intro u h2 hu; simp only [hnt] at hu; have hne : u ≠ 0 := by omega
    simp only [hne, if_false]
    exact (connOK_congr hserved hended u _).mpr (h.conn u h2 hu)
  · simp only [hserved, hended]; exact h.endedSub
  · simp only [hended]; exact h.endedNodup
  · have e := h.wgEq
    have : liveK (fun u => if u = 0 then p else s.pc u) sh'.nextTid = liveK s.pc s.sh.nextTid := by
      rw [hnt]; apply liveK_congr; intro u h2 _; have : u ≠ 0 := by omega
      simp [this]
    simp only [this]; simp; omega
  · simp [he]; exact h.closerIdle
  · simp [hlis]; exact h.lis
  · intro hc; exact td (h.lisT (by simpa using hc))




/-- frame lemma: a step of the closer goroutine (changes only `wg` and `lisCloses`) -/
theorem Inv.step1 {s : St} (h : Inv s) (p : PC) (w l : Nat)
    (r1 : closerP p = true) (hi : p ≠ .idle) (hi0 : s.pc 1 ≠ .idle)
    (wg : w + (if closerLive (s.pc 1) = true then 1 else 0) = s.sh.wg + (if closerLive p = true then 1 else 0))
    (wle : w ≤ s.sh.wg)
    (hl : l = if closerClosed p = true then 1 else 0)
    (td : closerPastWait p = true → s.sh.tdone = true) :
    Inv { sh := { s.sh with wg := w, lisCloses := l }, pc := fun u => if u = 1 then p else s.pc u } := by
  refine { role0 := by simpa using h.role0, role1 := by simpa using r1, roleK := ?_, nt := h.nt,
           idleAbove := ?_, conn := ?_, endedSub := h.endedSub, endedNodup := h.endedNodup,
           acc := by simpa using h.acc, arr := h.arr, wgEq := ?_, closerIdle := ?_, lis := by simpa using hl,
           lisT := by simpa [Sh.tdone] using td, tc := by simpa using h.tc,
           retSome := by simpa using h.retSome, retTrue := h.retTrue,
           doneWg := fun hd => by have := h.doneWg (by simpa using hd); simp only; omega }
  · intro u hu; have : u ≠ 1 := by omega
    simpa [this] using h.roleK u hu
  · intro u hu; have := h.nt; simp only at hu; have : u ≠ 1 := by omega
    simpa [this] using h.idleAbove u hu
  · intro u h2 hu; have hne : u ≠ 1 := by omega
    simp only [hne, if_false]
    exact (connOK_congr rfl rfl u _).mpr (h.conn u h2 hu)
  · have e := h.wgEq
    have : liveK (fun u => if u = 1 then p else s.pc u) s.sh.nextTid = liveK s.pc s.sh.nextTid := by
      apply liveK_congr; intro u h2 _; have : u ≠ 1 := by omega
      simp [this]
    simp only [this]; simp; omega
  · have := h.closerIdle; simp [hi]; simp [hi0] at this; simpa using this


theorem Inv.accepted_nodup {s : St} (h : Inv s) : s.sh.accepted.Nodup := by
  have := h.arr
  have hn : (s.sh.accepted ++ s.sh.queue).Nodup := by rw [this]; exact List.nodup_range
  exact (List.nodup_append.mp hn).1

theorem Inv.served_nodup {s : St} (h : Inv s) : s.sh.served.Nodup := by
  have hn := h.accepted_nodup
  rw [h.acc] at hn
  exact (List.nodup_append.mp hn).1

/-- `go track(closer)` -/
theorem inv_goCloser {s : St} (h : Inv s) (hp : s.pc 0 = .sGoCloser) :
    Inv { sh := s.sh, pc := fun u => if u = 0 then .sAccept else if u = 1 then .cWait else s.pc u } := by
  have hidle : s.pc 1 = .idle := h.closerIdle.mpr (by rw [hp]; rfl)
  have hnt := h.nt
  refine { role0 := rfl, role1 := rfl, roleK := ?_, nt := h.nt,
           idleAbove := ?_, conn := ?_, endedSub := h.endedSub, endedNodup := h.endedNodup,
           acc := by simpa [hp, pendConn] using h.acc, arr := h.arr, wgEq := ?_, closerIdle := by simp [early],
           lis := by simpa [hidle, closerClosed] using h.lis,
           lisT := by simp [closerPastWait], tc := by simpa [hp, cancelled] using h.tc,
           retSome := by simpa [hp, exiting] using h.retSome, retTrue := h.retTrue, doneWg := by simp }
  · intro u hu; have h0 : u ≠ 0 := by omega
    have h1 : u ≠ 1 := by omega
    simpa [h0, h1] using h.roleK u hu
  · intro u hu; simp only at hu; have h0 : u ≠ 0 := by omega
    have h1 : u ≠ 1 := by omega
    simpa [h0, h1] using h.idleAbove u hu
  · intro u h2 hu; have h0 : u ≠ 0 := by omega
    have h1 : u ≠ 1 := by omega
    simp only [h0, h1, if_false]
    exact h.conn u h2 hu
  · have e := h.wgEq
    rw [hp, hidle] at e
    have : liveK (fun u => if u = 0 then PC.sAccept else if u = 1 then PC.cWait else s.pc u) s.sh.nextTid
        = liveK s.pc s.sh.nextTid := by
      apply liveK_congr; intro u h2 _; have h0 : u ≠ 0 := by omega
      have h1 : u ≠ 1 := by omega
      simp [h0, h1]
    simp only [this]; simp [closerLive, pendAdd] at e ⊢; omega

/-- `go track(ServeOne(conn c))` -/
theorem inv_goConn {s : St} {c : Nat} (h : Inv s) (hp : s.pc 0 = .sGoConn c) :
    Inv { sh := { s.sh with nextTid := s.sh.nextTid + 1, served := s.sh.served ++ [c] },
          pc := fun u => if u = 0 then .sAccept else if u = s.sh.nextTid then .kServe c else s.pc u } := by
  have hnt := h.nt
  have hacc := h.acc
  rw [hp] at hacc; simp only [pendConn] at hacc
  have hcs : c ∉ s.sh.served := by
    have hn := h.accepted_nodup
    rw [hacc] at hn
    intro hc
    exact (List.nodup_append.mp hn).2.2 c hc c (by simp) rfl
  have hk1 : (1 : Nat) ≠ s.sh.nextTid := by omega
  refine { role0 := rfl, role1 := by simpa [hk1] using h.role1, roleK := ?_, nt := by simp [hnt],
           idleAbove := ?_, conn := ?_, endedSub := ?_, endedNodup := h.endedNodup,
           acc := by simpa [pendConn] using hacc, arr := h.arr, wgEq := ?_, closerIdle := ?_,
           lis := by simpa [hk1] using h.lis,
           lisT := by simpa [hk1, Sh.tdone] using h.lisT, tc := by simpa [hp, cancelled] using h.tc,
           retSome := by simpa [hp, exiting] using h.retSome, retTrue := h.retTrue, doneWg := by simp }
  · intro u hu; have h0 : u ≠ 0 := by omega
    simp only [h0, if_false]
    by_cases hk : u = s.sh.nextTid
    · simp [hk, connP]
    · simpa [hk] using h.roleK u hu
  · intro u hu; simp only at hu; have h0 : u ≠ 0 := by omega
    have hk : u ≠ s.sh.nextTid := by omega
    simpa [h0, hk] using h.idleAbove u (by omega)
  · intro u h2 hu; simp only at hu; have h0 : u ≠ 0 := by omega
    simp only [h0, if_false]
    by_cases hk : u = s.sh.nextTid
    · simp only [hk, if_true, connOK]
      refine ⟨?_, fun hc => hcs (h.endedSub c hc)⟩
      have : s.sh.nextTid - 2 = s.sh.served.length := by omega
      rw [this]; exact List.getElem?_concat_length
    · simp only [hk, if_false]
      have hlt : u - 2 < s.sh.served.length := by omega
      have := h.conn u h2 (by omega)
      revert this
      cases s.pc u <;> simp [connOK, List.getElem?_append_left hlt]
  · intro c' hc'; simp; exact Or.inl (h.endedSub c' hc')
  · have e := h.wgEq
    rw [hp] at e
    have : liveK (fun u => if u = 0 then PC.sAccept else if u = s.sh.nextTid then PC.kServe c else s.pc u) s.sh.nextTid
        = liveK s.pc s.sh.nextTid := by
      apply liveK_congr; intro u h2 hu; have h0 : u ≠ 0 := by omega
      have hk : u ≠ s.sh.nextTid := by omega
      simp [h0, hk]
    have h2 : 2 ≤ s.sh.nextTid := by omega
    have h0 : s.sh.nextTid ≠ 0 := by omega
    simp only [liveK, this]; simp [hk1, h0, h2, isK, pendAdd] at e ⊢; omega
  · have := h.closerIdle; rw [hp] at this; simpa [hk1, early] using this

/-- `wg.Done()` of a connection goroutine -/
theorem inv_kDone {s : St} {t c : Nat} (h : Inv s) (hp : s.pc t = .kDone c) :
    Inv (s.upd t { s.sh with wg := s.sh.wg - 1 } .done) := by
  obtain ⟨t2, tn⟩ := h.tidK (t := t) (by rw [hp]; rfl)
  have h0 : (0 : Nat) ≠ t := by omega
  have h1 : (1 : Nat) ≠ t := by omega
  refine { role0 := by simpa [St.upd, h0] using h.role0, role1 := by simpa [St.upd, h1] using h.role1,
           roleK := ?_, nt := h.nt,
           idleAbove := ?_, conn := ?_, endedSub := h.endedSub, endedNodup := h.endedNodup,
           acc := by simpa [St.upd, h0] using h.acc, arr := h.arr, wgEq := ?_,
           closerIdle := by simpa [St.upd, h0, h1] using h.closerIdle,
           lis := by simpa [St.upd, h1] using h.lis,
           lisT := by simpa [St.upd, h1, Sh.tdone] using h.lisT, tc := by simpa [St.upd, h0] using h.tc,
           retSome := by simpa [St.upd, h0] using h.retSome, retTrue := h.retTrue,
           doneWg := fun hd => by
             have := h.doneWg (by simpa [St.upd, h0] using hd)
             simp only [St.upd]; omega }
  · intro u hu; simp only [St.upd]
    by_cases hk : u = t
    · simp [hk, connP]
    · simpa [hk] using h.roleK u hu
  · intro u hu; simp only [St.upd] at hu ⊢
    have hk : u ≠ t := by omega
    simpa [hk] using h.idleAbove u hu
  · intro u h2 hu; simp only [St.upd] at hu ⊢
    by_cases hk : u = t
    · subst hk
      have := h.conn u h2 hu
      rw [hp] at this
      simp only [if_true, connOK] at this ⊢
      intro c' hc'; rw [this.1] at hc'; cases hc'; exact this.2
    · simp only [hk, if_false]
      exact (connOK_congr rfl rfl u _).mpr (h.conn u h2 hu)
  · have e := h.wgEq
    have hd := liveK_dec s.pc (fun u => if u = t then PC.done else s.pc u) s.sh.nextTid t t2 tn
      (by rw [hp]; rfl) (by simp [isK]) (by intro u hu _ _; simp [hu])
    simp only [St.upd]; simp [h0, h1]; omega

/-- ServeOne of goroutine `t` returns -/
theorem inv_serveOneReturns {s : St} {t c : Nat} (h : Inv s) (hp : s.pc t = .kServe c) :
    Inv (s.upd t { s.sh with ended := s.sh.ended ++ [c] } (.kDone c)) := by
  obtain ⟨t2, tn⟩ := h.tidK (t := t) (by rw [hp]; rfl)
  have h0 : (0 : Nat) ≠ t := by omega
  have h1 : (1 : Nat) ≠ t := by omega
  have hnt := h.nt
  have hc := h.conn t t2 tn
  rw [hp] at hc; simp only [connOK] at hc
  refine { role0 := by simpa [St.upd, h0] using h.role0, role1 := by simpa [St.upd, h1] using h.role1,
           roleK := ?_, nt := h.nt,
           idleAbove := ?_, conn := ?_, endedSub := ?_, endedNodup := ?_,
           acc := by simpa [St.upd, h0] using h.acc, arr := h.arr, wgEq := ?_,
           closerIdle := by simpa [St.upd, h0, h1] using h.closerIdle,
           lis := by simpa [St.upd, h1] using h.lis,
           lisT := by simpa [St.upd, h1, Sh.tdone] using h.lisT, tc := by simpa [St.upd, h0] using h.tc,
           retSome := by simpa [St.upd, h0] using h.retSome, retTrue := h.retTrue,
           doneWg := by simpa [St.upd, h0] using h.doneWg }
  · intro u hu; simp only [St.upd]
    by_cases hk : u = t
    · simp [hk, connP]
    · simpa [hk] using h.roleK u hu
  · intro u hu; simp only [St.upd] at hu ⊢
    have hk : u ≠ t := by omega
    simpa [hk] using h.idleAbove u hu
  · intro u h2 hu; simp only [St.upd] at hu ⊢
    by_cases hk : u = t
    · subst hk
      simp only [if_true, connOK]
      exact ⟨hc.1, by simp⟩
    · simp only [hk, if_false]
      have hcu := h.conn u h2 hu
      have hne : ∀ c', s.sh.served[u - 2]? = some c' → c' ≠ c := by
        intro c' hc' hcc; subst hcc
        have := (List.getElem?_inj (i := u - 2) (j := t - 2) (by omega) h.served_nodup).mp (by rw [hc', hc.1])
        omega
      revert hcu
      cases hpu : s.pc u <;> simp only [connOK, List.mem_append, List.mem_singleton, imp_self, not_or]
      · intro hall c' hc'; exact Or.inl (hall c' hc')
      · intro ⟨ha, hb⟩; exact ⟨ha, hb, hne _ ha⟩
      · intro ⟨ha, hb⟩; exact ⟨ha, Or.inl hb⟩
  · intro c' hc'; simp only [St.upd, List.mem_append, List.mem_singleton] at hc'
    rcases hc' with hc' | hc'
    · exact h.endedSub c' hc'
    · subst hc'; exact List.mem_of_getElem? hc.1
  · simp only [St.upd]
    refine List.nodup_append.mpr ⟨h.endedNodup, by simp, ?_⟩
    intro a ha b hb; simp at hb; subst hb; intro hab; subst hab; exact hc.2 ha
  · have e := h.wgEq
    have : liveK (fun u => if u = t then PC.kDone c else s.pc u) s.sh.nextTid = liveK s.pc s.sh.nextTid := by
      apply liveK_congr; intro u _ _
      by_cases hk : u = t
      · simp [hk, hp, isK]
      · simp [hk]
    simp only [St.upd, this]; simpa [h0, h1] using e

macro "serve0" h:ident hp:ident hs:ident : tactic => `(tactic|
  (have ht := Inv.tid0 $h (by rw [$hp:ident]; rfl) (by rw [$hp:ident]; simp)
   subst ht
   rw [$hp:ident] at $hs:ident
   simp only [stepPC] at $hs:ident
   repeat' split at $hs:ident
   all_goals (first | (simp only [Option.some.injEq] at $hs:ident; subst $hs:ident) | simp at $hs:ident)))

theorem step_inv {s s' : St} {t ch : Nat} (h : Inv s) (hs : step s t ch = some s') : Inv s' := by
  unfold step at hs
  have a1 := h.acc; have a2 := h.arr; have a3 := h.tc; have a4 := h.retSome; have a5 := h.retTrue
  have a6 := h.wgEq; have a7 := h.closerIdle; have a8 := h.lis; have a9 := h.lisT
  have a10 := h.doneWg
  cases hp : s.pc t with
  | idle => simp [hp, stepPC] at hs
  | done => simp [hp, stepPC] at hs
  | kServe c => simp [hp, stepPC] at hs
  | sStart =>
    serve0 h hp hs
    all_goals (rw [hp] at a1 a3 a4 a6 a7)
    all_goals (apply h.step0 <;> simp_all [serveP, pendConn, pendAdd, early, cancelled, exiting, Sh.tdone])
  | sAddCloser =>
    serve0 h hp hs
    all_goals (rw [hp] at a1 a3 a4 a6 a7)
    all_goals (apply h.step0 <;> simp_all [serveP, pendConn, pendAdd, early, cancelled, exiting, Sh.tdone])
  | sAccept =>
    serve0 h hp hs
    all_goals (rw [hp] at a1 a3 a4 a6 a7)
    all_goals (apply h.step0 <;> simp_all [serveP, pendConn, pendAdd, early, cancelled, exiting, Sh.tdone])
  | sGotErr e =>
    serve0 h hp hs
    all_goals (rw [hp] at a1 a3 a4 a6 a7)
    all_goals (apply h.step0 <;> simp_all [serveP, pendConn, pendAdd, early, cancelled, exiting, Sh.tdone])
  | sSleep =>
    serve0 h hp hs
    all_goals (rw [hp] at a1 a3 a4 a6 a7)
    all_goals (apply h.step0 <;> simp_all [serveP, pendConn, pendAdd, early, cancelled, exiting, Sh.tdone])
  | sAddConn c =>
    serve0 h hp hs
    all_goals (rw [hp] at a1 a3 a4 a6 a7)
    all_goals (apply h.step0 <;> simp_all [serveP, pendConn, pendAdd, early, cancelled, exiting, Sh.tdone])
  | sCancel =>
    serve0 h hp hs
    all_goals (rw [hp] at a1 a3 a4 a6 a7)
    all_goals (apply h.step0 <;> simp_all [serveP, pendConn, pendAdd, early, cancelled, exiting, Sh.tdone])
  | sWait =>
    serve0 h hp hs
    clear a6
    all_goals (rw [hp] at a1 a3 a4 a7)
    all_goals (apply h.step0 <;> simp_all [serveP, pendConn, pendAdd, early, cancelled, exiting, Sh.tdone])
  | cWait | cClose | cDone =>
    have ht := h.tid1 (t := t) (by rw [hp]; rfl)
    subst ht; rw [hp] at hs; simp only [stepPC] at hs
    repeat' split at hs
    all_goals (first | (simp only [Option.some.injEq] at hs; subst hs) | simp at hs)
    all_goals (rw [hp] at a6 a8 a9)
    all_goals (refine h.step1 _ _ _ ?_ ?_ ?_ ?_ ?_ ?_ ?_ <;> simp_all [closerP, closerLive, closerClosed, closerPastWait] <;> omega)
  | sGoCloser =>
    serve0 h hp hs
    exact inv_goCloser h hp
  | sGoConn c =>
    serve0 h hp hs
    exact inv_goConn h hp
  | kDone c =>
    rw [hp] at hs; simp only [stepPC, Option.some.injEq] at hs; subst hs
    exact inv_kDone h hp


theorem env_inv {s s' : St} {e : Env} (h : Inv s) (hs : envStep s e = some s') : Inv s' := by
  cases e with
  | cancel =>
    simp only [envStep, Option.some.injEq] at hs; subst hs
    exact { role0 := h.role0, role1 := h.role1, roleK := h.roleK, nt := h.nt, idleAbove := h.idleAbove,
            conn := fun u a b => (connOK_congr rfl rfl u _).mpr (h.conn u a b), endedSub := h.endedSub,
            endedNodup := h.endedNodup, acc := h.acc, arr := h.arr, wgEq := h.wgEq, closerIdle := h.closerIdle,
            lis := h.lis, lisT := fun _ => by simp [Sh.tdone], tc := h.tc, retSome := h.retSome,
            retTrue := fun _ => rfl, doneWg := h.doneWg }
  | connect =>
    simp only [envStep] at hs
    split at hs
    · simp only [Option.some.injEq] at hs; subst hs
      exact { role0 := h.role0, role1 := h.role1, roleK := h.roleK, nt := h.nt, idleAbove := h.idleAbove,
              conn := fun u a b => (connOK_congr rfl rfl u _).mpr (h.conn u a b), endedSub := h.endedSub,
              endedNodup := h.endedNodup, acc := h.acc, wgEq := h.wgEq, closerIdle := h.closerIdle,
              lis := h.lis, lisT := h.lisT, tc := h.tc, retSome := h.retSome, retTrue := h.retTrue,
              doneWg := h.doneWg,
              arr := by
                have := h.arr
                simp only [← List.append_assoc, this, List.range_succ] }
    · simp at hs
  | acceptErr e =>
    simp only [envStep] at hs
    split at hs
    · rename_i hp
      simp only [Option.some.injEq] at hs; subst hs
      have a1 := h.acc; have a2 := h.arr; have a3 := h.tc; have a4 := h.retSome; have a5 := h.retTrue
      rw [hp] at a1 a3 a4
      apply h.step0 <;> simp_all [serveP, pendConn, pendAdd, early, cancelled, exiting, Sh.tdone]
    · simp at hs
  | serveOneReturns t =>
    simp only [envStep] at hs
    split at hs
    · rename_i c hp
      simp only [Option.some.injEq] at hs; subst hs
      exact inv_serveOneReturns h hp
    · simp at hs

theorem reach_inv {s : St} (h : Reach s) : Inv s := by
  induction h with
  | init => exact inv_init
  | step t ch _ hs ih => exact step_inv ih hs
  | env e _ hs ih => exact env_inv ih hs


/-! consequences -/

theorem liveK_eq_countP (pc : Tid → PC) (n : Nat) :
    liveK pc n = (List.range n).countP (fun t => decide (2 ≤ t) && isK (pc t)) := by
  induction n with
  | zero => rfl
  | succ n ih =>
    simp only [liveK, List.range_succ, List.countP_append, ih, List.countP_cons, List.countP_nil]
    by_cases h2 : 2 ≤ n <;> by_cases hk : isK (pc n) = true <;> simp [h2, hk]

theorem liveK_zero (pc : Tid → PC) (n t : Nat) (h : liveK pc n = 0) (h2 : 2 ≤ t) (hn : t < n) :
    isK (pc t) = false := by
  cases hk : isK (pc t) with
  | false => rfl
  | true => have := liveK_pos pc n t h2 hn hk; omega

/-- a started connection goroutine that is not inside `track(ServeOne)` is done and its ServeOne returned -/
theorem Inv.conn_done {s : St} (h : Inv s) {t : Nat} (h2 : 2 ≤ t) (hn : t < s.sh.nextTid)
    (hk : isK (s.pc t) = false) : s.pc t = .done ∧ ∀ c, s.sh.served[t-2]? = some c → c ∈ s.sh.ended := by
  have := h.conn t h2 hn
  revert this hk
  cases s.pc t <;> simp [connOK, isK]

theorem Inv.pc1_done {s : St} (h : Inv s) (he : early (s.pc 0) = false) (hl : closerLive (s.pc 1) = false) :
    s.pc 1 = .done := by
  have h1 := h.role1
  have hi : s.pc 1 ≠ .idle := fun hi => by have := h.closerIdle.mp hi; simp [he] at this
  revert h1 hl hi
  cases s.pc 1 <;> simp [closerP, closerLive]

/-! executable schedules (for the non-vacuity examples) -/

inductive Act where
  | step (t : Tid) (ch : Nat)
  | env (e : Env)
deriving Repr

def run (s : St) : List Act → Option St
  | [] => some s
  | .step t ch :: as => match step s t ch with
    | some s' => run s' as
    | none => none
  | .env e :: as => match envStep s e with
    | some s' => run s' as
    | none => none

theorem reach_run {s s' : St} (as : List Act) (h : Reach s) (hr : run s as = some s') : Reach s' := by
  induction as generalizing s with
  | nil => simp only [run, Option.some.injEq] at hr; subst hr; exact h
  | cons a as ih =>
    cases a with
    | step t ch =>
      simp only [run] at hr
      split at hr
      · rename_i s1 hs; exact ih (Reach.step t ch h hs) hr
      · simp at hr
    | env e =>
      simp only [run] at hr
      split at hr
      · rename_i s1 hs; exact ih (Reach.env e h hs) hr
      · simp at hr

/-! progress vocabulary -/

/-- goroutine `t` can take a step (for some choice) -/
def Enabled (s : St) (t : Tid) : Prop := ∃ ch, (step s t ch).isSome = true
/-- no goroutine can take a step: everything is blocked or finished -/
def Stuck (s : St) : Prop := ∀ t, ¬Enabled s t

end Drpc.Server
