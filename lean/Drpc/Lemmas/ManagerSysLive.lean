import Drpc.Lemmas.ManagerSysAcc
/-
  No deadlock inside the manager: what a state looks like in which no thread of the model can move.
-/
set_option linter.unusedSimpArgs false
set_option linter.unusedVariables false
namespace Drpc.Manager.Sys
open Drpc.Manager

def Enabled (s : St) (t : Tid) : Prop := ∃ ch, (step s t ch).isSome
def Stuck (s : St) : Prop := ∀ t, ¬ Enabled s t

/-- the application side has finished every stream and sent its tokens; a closed transport fails a
    pending read -/
def EnvQuiet (s : St) : Prop :=
  s.sh.envTok = 0 ∧ (∀ sid, (s.sh.strm sid).made = true → (s.sh.strm sid).fin = true) ∧
  (0 < s.sh.closes → s.pc readerTid ≠ .rRead)

theorem not_enabled_iff {s : St} {t : Tid} : ¬ Enabled s t ↔ ∀ ch, step s t ch = none := by
  unfold Enabled
  constructor
  · intro h ch
    cases hx : step s t ch with
    | none => rfl
    | some s' => exact absurd ⟨ch, by rw [hx]; rfl⟩ h
  · rintro h ⟨ch, hc⟩
    rw [h ch] at hc; cases hc

theorem pick_cons_zero {α} (a : α) (l : List α) : pick (a :: l) 0 = some a := by
  simp [pick]

theorem pick_zero_none {l : List Nat} (h : pick l 0 = none) : l = [] := by
  cases l with
  | nil => rfl
  | cons a l => simp [pick] at h

theorem ready3_nil {a b c : Prop} [Decidable a] [Decidable b] [Decidable c] {x y z : Nat}
    (h : (if a then [x] else []) ++ (if b then [y] else []) ++ (if c then [z] else []) = []) : ¬a ∧ ¬b ∧ ¬c := by
  by_cases ha : a <;> by_cases hb : b <;> by_cases hc : c <;> simp_all

theorem ready3_nil' {a b c : Prop} [Decidable a] [Decidable b] [Decidable c] {x y z : Nat}
    (h : (if a then [x] else []) ++ (if b then [y] else []) ++ (if c then [] else [z]) = []) : ¬a ∧ ¬b ∧ c := by
  by_cases ha : a <;> by_cases hb : b <;> by_cases hc : c <;> simp_all

/-- what a blocked thread is waiting for -/
def BlockedAt (s : St) (t : Tid) : PC → Prop
  | .idle | .done _ | .rRead => True
  | .rPut c => (s.sh.strm c).term = false
  | .rTok _ | .xTok _ _ | .mSendCancelTok _ _ => s.sh.sfin = true
  | .rQueue _ => s.sh.pkts ≠ none ∧ s.sh.term = false
  | .rOffered p => s.sh.pkts = some p ∧ s.sh.term = false
  | .rPdone => s.sh.pdone = false
  | .rWait _ c => s.sh.sbufClosed = false ∧ s.sh.sbufCur = c
  | .mTop => s.sh.streamsCh = none ∧ s.sh.term = false
  | .mStream sid => s.sh.term = false ∧ s.sh.sfin = false ∧ s.sh.ctx (s.sh.strm sid).owner = false
  | .mRecv _ _ => s.sh.sfin = false
  | .mRel | .aFailRel | .sFailRel => s.sh.sem = false
  | .aSel _ => s.sh.ctx t = false ∧ s.sh.term = false ∧ s.sh.sem = true
  | .aPrevSel _ p => s.sh.ctx t = false ∧ s.sh.term = false ∧ (s.sh.strm p).fin = false
  | .sSel => s.sh.ctx t = false ∧ s.sh.term = false ∧ s.sh.pkts = none
  | .sGot _ => s.sh.pdone = true
  | .nOffer _ _ => s.sh.streamsCh ≠ none ∧ s.sh.term = false
  | .nOffered _ sid => s.sh.streamsCh = some sid ∧ s.sh.term = false
  | .cWaitStream => s.sh.streamDone = false
  | .cWaitRead => s.sh.readDone = false
  | .cWaitTport => s.sh.tportSet = false
  | _ => False

theorem blocked_of_not_enabled {s : St} {t : Tid} (h : ¬ Enabled s t) : BlockedAt s t (s.pc t) := by
  rw [not_enabled_iff] at h
  have h0 := h 0
  have h1 := h 1
  have h2 := h 2
  unfold step at h0 h1 h2
  cases hp : s.pc t <;> rw [hp] at h0 h1 h2 <;> simp only [BlockedAt]
  all_goals first
    | trivial
    | (simp [stepPC] at h0; done)
    | skip
  all_goals first
    | (simp [stepPC] at h0 h1 h2 ⊢; simp_all; done)
    | (simp [stepPC] at h0 h1 h2 ⊢; (repeat' split at h0) <;> simp_all; done)
    | (simp [stepPC] at h0 h1 h2 ⊢; (repeat' split at h0) <;> (repeat' split at h1) <;> simp_all; done)
    | skip
  case mStream sid =>
    simp only [stepPC] at h0
    have hpk : pick ((if s.sh.term = true then [0] else []) ++ (if s.sh.sfin = true then [1] else []) ++
        (if s.sh.ctx (s.sh.strm sid).owner = true then [2] else [])) 0 = none := by
      revert h0
      cases pick _ 0 with
      | none => intro _; rfl
      | some v =>
        intro h0
        exfalso
        revert h0
        split <;> (try split) <;> simp_all
    have := ready3_nil (pick_zero_none hpk)
    simpa using this
  case aSel c =>
    simp only [stepPC] at h0
    have hpk : pick ((if s.sh.ctx t = true then [0] else []) ++ (if s.sh.term = true then [1] else []) ++
        (if s.sh.sem = true then [] else [2])) 0 = none := by
      revert h0
      cases pick _ 0 with
      | none => intro _; rfl
      | some v =>
        intro h0
        exfalso
        revert h0
        split <;> simp_all
    have := ready3_nil' (pick_zero_none hpk)
    simpa using this
  case aPrevSel c q =>
    simp only [stepPC] at h0
    have hpk : pick ((if s.sh.ctx t = true then [0] else []) ++ (if s.sh.term = true then [1] else []) ++
        (if (s.sh.strm q).fin = true then [2] else [])) 0 = none := by
      revert h0
      cases pick _ 0 with
      | none => intro _; rfl
      | some v =>
        intro h0
        exfalso
        revert h0
        split <;> simp_all
    have := ready3_nil (pick_zero_none hpk)
    simpa using this
  case sSel =>
    simp only [stepPC] at h0
    have hpk : pick ((if s.sh.ctx t = true then [0] else []) ++ (if s.sh.term = true then [1] else []) ++
        (if s.sh.pkts.isSome = true then [2] else [])) 0 = none := by
      revert h0
      cases pick _ 0 with
      | none => intro _; rfl
      | some v =>
        intro h0
        exfalso
        revert h0
        split <;> simp_all
    have := ready3_nil (pick_zero_none hpk)
    simpa using this

theorem pick_nil {α} (ch : Nat) : pick ([] : List α) ch = none := by simp [pick]

/-- `BlockedAt` is exact: a thread for which it holds cannot move -/
theorem not_enabled_of_blocked {s : St} {t : Tid} (h : BlockedAt s t (s.pc t)) : ¬ Enabled s t := by
  rw [not_enabled_iff]
  intro ch
  unfold step
  cases hp : s.pc t <;> rw [hp] at h <;> simp only [BlockedAt] at h
  all_goals first
    | exact h.elim
    | (simp [stepPC]; done)
    | (simp_all [stepPC]; done)
    | skip
  case mStream sid => simp [stepPC, h.1, h.2.1, h.2.2, pick_nil]
  case aSel c => simp [stepPC, h.1, h.2.1, h.2.2, pick_nil]
  case aPrevSel c q => simp [stepPC, h.1, h.2.1, h.2.2, pick_nil]
  case sSel => simp [stepPC, h.1, h.2.1, h.2.2, pick_nil]

theorem stuck_of_blocked {s : St} (h : ∀ t, BlockedAt s t (s.pc t)) : Stuck s :=
  fun t => not_enabled_of_blocked (h t)

instance (s : St) (t : Tid) (p : PC) : Decidable (BlockedAt s t p) := by
  cases p <;> simp only [BlockedAt] <;> infer_instance

/-! ### counting -/

theorem nodup_subset_length {l1 l2 : List Nat} (h1 : l1.Nodup) (hs : ∀ x ∈ l1, x ∈ l2) : l1.length ≤ l2.length := by
  induction l1 generalizing l2 with
  | nil => simp
  | cons a l ih =>
    have ha : a ∈ l2 := hs a (by simp)
    have hnd := List.nodup_cons.1 h1
    have hsub : ∀ x ∈ l, x ∈ l2.erase a := by
      intro x hx
      have hxa : x ≠ a := fun h => hnd.1 (h ▸ hx)
      exact (List.mem_erase_of_ne hxa).2 (hs x (by simp [hx]))
    have := ih hnd.2 hsub
    rw [List.length_erase_of_mem ha] at this
    have hpos : 0 < l2.length := List.length_pos_of_mem ha
    simp only [List.length_cons]
    omega

theorem nodup_lt_of_missing {c f : List Nat} {m : Nat} (hc : c.Nodup) (hsub : ∀ x ∈ c, x ∈ f) (hm : m ∈ f)
    (hmc : m ∉ c) : c.length < f.length := by
  have hsub' : ∀ x ∈ c, x ∈ f.erase m := by
    intro x hx
    have : x ≠ m := fun h => hmc (h ▸ hx)
    exact (List.mem_erase_of_ne this).2 (hsub x hx)
  have := nodup_subset_length hc hsub'
  rw [List.length_erase_of_mem hm] at this
  have hpos : 0 < f.length := List.length_pos_of_mem hm
  omega

theorem exists_not_mem_of_length_lt {c f : List Nat} (hf : f.Nodup) (h : c.length < f.length) : ∃ x ∈ f, x ∉ c := by
  apply Classical.byContradiction
  intro hne
  have hsub : ∀ x ∈ f, x ∈ c := by
    intro x hx
    apply Classical.byContradiction
    intro hxc
    exact hne ⟨x, hx, hxc⟩
  have := nodup_subset_length hf hsub
  omega

theorem made_of_mgrPre {s : St} (hs : Safe s) {u : Tid} {m : Sid} (hu : mgrPre (s.pc u) = some m) :
    (s.sh.strm m).made = true := by
  have hpub : (s.sh.strm m).pub = true := by
    apply hs.loc.pubAt u m
    cases hq : s.pc u <;> rw [hq] at hu <;> simp [mgrPre, mgrSid] at hu <;> first
      | (simp only [sidOf]; exact congrArg some hu)
      | (simp only [sidOf]; exact congrArg some hu.2)
      | (simp only [sidOf]; exact hu)
  exact (hs.loc.flags m).2.2 hpub

theorem tokPc_pos {p : PC} (h : tokPc p ≠ 0) : (∃ b, p = .rTok b) ∨ (∃ x k, p = .xTok x k) ∨ ∃ x b, p = .mSendCancelTok x b := by
  cases p <;> simp [tokPc] at h
  · exact Or.inl ⟨_, rfl⟩
  · exact Or.inr (Or.inl ⟨_, _, rfl⟩)
  · exact Or.inr (Or.inr ⟨_, _, rfl⟩)

theorem sfin_of_blocked_tok {s : St} {t : Tid} (hb : BlockedAt s t (s.pc t)) (h : tokPc (s.pc t) ≠ 0) : s.sh.sfin = true := by
  rcases tokPc_pos h with ⟨b, hp⟩ | ⟨x, k, hp⟩ | ⟨x, b, hp⟩ <;> rw [hp] at hb <;> exact hb

/-- manageStream is not left waiting for a token that never comes -/
theorem no_wait_token {s : St} {f c ab : List Sid} (hs : Safe s) (ha : Acc s f c ab) (hst : Stuck s) (hq : EnvQuiet s)
    {u : Tid} {m : Sid} (hm : mgrPre (s.pc u) = some m) (hsf : s.sh.sfin = false) (hmt : tokPc (s.pc mgrTid) = 0) : False := by
  have hrt : tokPc (s.pc readerTid) = 0 := by
    cases hx : tokPc (s.pc readerTid) with
    | zero => rfl
    | succ n =>
      have := sfin_of_blocked_tok (blocked_of_not_enabled (hst readerTid)) (by rw [hx]; simp)
      rw [hsf] at this; cases this
  have hT : tokT s = 0 := by
    unfold tokT
    rw [hsf, hq.1, hrt, hmt]; rfl
  have h1 := ha.t.a1
  rw [hT] at h1
  have hmade := made_of_mgrPre hs hm
  have hmf : m ∈ f := (ha.t.a2.2 m).2 (hq.2.1 m hmade)
  have hsub : ∀ x ∈ c, x ∈ f := fun x hx => (ha.t.a2.2 x).2 (hq.2.1 x (ha.b.a3.2 x hx))
  have := nodup_lt_of_missing ha.b.a3.1 hsub hmf (fun h => ha.b.b3 m h u hm)
  omega

theorem fin_of_pub {s : St} (hs : Safe s) (hq : EnvQuiet s) {x : Sid} (h : (s.sh.strm x).pub = true) :
    (s.sh.strm x).fin = true ∧ (s.sh.strm x).term = true := by
  have hf := hq.2.1 x ((hs.loc.flags x).2.2 h)
  exact ⟨hf, (hs.loc.flags x).1 hf⟩

/-- the stream manager is idle: where can a blocked manageStreams be, if it is not blocked sending a
    token itself -/
theorem stuck_mgr {s : St} {f c ab : List Sid} (hs : Safe s) (hl : Lx s) (ha : Acc s f c ab) (hst : Stuck s)
    (hq : EnvQuiet s) (hself : tokPc (s.pc mgrTid) = 0) :
    (s.pc mgrTid = .mTop ∧ s.sh.streamsCh = none ∧ s.sh.term = false) ∨ ∃ b, s.pc mgrTid = .done b := by
  have hb := blocked_of_not_enabled (hst mgrTid)
  have hrole := (hs.typ mgrTid).1
  have hpre : ∀ m, mgrPre (s.pc mgrTid) = some m → s.sh.sfin = false → False :=
    fun m hm hsf => no_wait_token hs ha hst hq hm hsf hself
  cases hpc : s.pc mgrTid <;> rw [hpc] at hb hrole hself hpre <;> simp only [BlockedAt] at hb
  all_goals first
    | exact hb.elim
    | (have := hrole _ rfl; simp [tidRole, readerTid, mgrTid] at this; done)
    | (simp [tokPc] at hself; done)
    | skip
  case done b => exact Or.inr ⟨b, rfl⟩
  case mTop => exact Or.inl ⟨rfl, hb.1, hb.2⟩
  case mStream m => exact (hpre m rfl hb.2.1).elim
  case mRecv m rel => exact (hpre m rfl hb).elim
  case mRel =>
    have := hs.sem.held mgrTid (by rw [hpc]; rfl)
    rw [hb] at this; cases this

/-- … and the reader -/
theorem stuck_reader {s : St} (hs : Safe s) (hst : Stuck s) (hq : EnvQuiet s) (hrt : tokPc (s.pc readerTid) = 0) :
    s.pc readerTid = .rRead ∨ (∃ p, s.pc readerTid = .rOffered p ∧ s.sh.pkts = some p ∧ s.sh.term = false) ∨
    (∃ p c, s.pc readerTid = .rWait p c ∧ s.sh.sbufClosed = false) ∨ ∃ b, s.pc readerTid = .done b := by
  have hb := blocked_of_not_enabled (hst readerTid)
  have hrole := (hs.typ readerTid).1
  cases hpc : s.pc readerTid <;> rw [hpc] at hb hrole hrt <;> simp only [BlockedAt] at hb
  all_goals first
    | exact hb.elim
    | (have := hrole _ rfl; simp [tidRole, readerTid, mgrTid] at this; done)
    | (simp [tokPc] at hrt; done)
    | skip
  case done b => exact Or.inr (Or.inr (Or.inr ⟨b, rfl⟩))
  case rRead => exact Or.inl rfl
  case rOffered p => exact Or.inr (Or.inl ⟨p, rfl, hb.1, hb.2⟩)
  case rWait p c => exact Or.inr (Or.inr (Or.inl ⟨p, c, rfl, hb.1⟩))
  case rPut c =>
    have := (fin_of_pub hs hq (hs.loc.pubAt readerTid c (by rw [hpc]; rfl))).2
    rw [hb] at this; cases this
  case rQueue p =>
    exfalso
    cases hx : s.sh.pkts with
    | none => exact hb.1 hx
    | some q => have := hs.pk.owner q hx; rw [hpc] at this; cases this
  case rPdone =>
    exfalso
    have hw : rdWaiting s := by
      refine ⟨by rw [hpc]; rfl, ?_⟩
      cases hx : s.sh.pkts with
      | none => rfl
      | some q => have := hs.pk.owner q hx; rw [hpc] at this; cases this
    obtain ⟨u, hu⟩ := hs.pk.coming hw hb
    have hbu := blocked_of_not_enabled (hst u)
    cases hpu : s.pc u <;> rw [hpu] at hu hbu <;> simp [isGot] at hu
    simp only [BlockedAt] at hbu
    rw [hb] at hbu; cases hbu

/-- … and a caller -/
theorem stuck_caller {s : St} (hs : Safe s) (hl : Lx s) (hst : Stuck s) (hq : EnvQuiet s) {t : Tid} (ht : 2 ≤ t) :
    s.pc t = .idle ∨ (∃ b, s.pc t = .done b) ∨ (s.pc t = .sSel ∧ s.sh.pkts = none) ∨
    (∃ c, s.pc t = .aSel c ∧ s.sh.sem = true) ∨
    (∃ k y, s.pc t = .nOffer k y ∧ s.sh.streamsCh ≠ none ∧ s.sh.term = false) ∨
    (∃ k y, s.pc t = .nOffered k y ∧ s.sh.streamsCh = some y ∧ s.sh.term = false) ∨
    (isExit (s.pc t) = true ∧ s.sh.term = true) := by
  have hb := blocked_of_not_enabled (hst t)
  have hrole := (hs.typ t).1
  have hcl : tidRole t = .cl := by
    unfold tidRole readerTid mgrTid
    rw [if_neg (by somega), if_neg (by somega)]
  rw [hcl] at hrole
  cases hpc : s.pc t <;> rw [hpc] at hb hrole <;> simp only [BlockedAt] at hb
  all_goals first
    | exact hb.elim
    | (have := hrole _ rfl; simp at this; done)
    | skip
  case idle => exact Or.inl rfl
  case done b => exact Or.inr (Or.inl ⟨b, rfl⟩)
  case sSel => exact Or.inr (Or.inr (Or.inl ⟨rfl, hb.2.2⟩))
  case aSel c => exact Or.inr (Or.inr (Or.inr (Or.inl ⟨c, rfl, hb.2.2⟩)))
  case nOffer k y => exact Or.inr (Or.inr (Or.inr (Or.inr (Or.inl ⟨k, y, rfl, hb.1, hb.2⟩))))
  case nOffered k y => exact Or.inr (Or.inr (Or.inr (Or.inr (Or.inr (Or.inl ⟨k, y, rfl, hb.1, hb.2⟩)))))
  case cWaitStream | cWaitRead | cWaitTport =>
    exact Or.inr (Or.inr (Or.inr (Or.inr (Or.inr (Or.inr ⟨rfl, hl.exitTerm t (by rw [hpc]; rfl)⟩)))))
  case xTok x k =>
    have := hrole _ rfl
    cases k <;> simp [CK.role] at this
  case aPrevSel k q =>
    have := (fin_of_pub hs hq (hs.loc.pubAt t q (by rw [hpc]; rfl))).1
    rw [hb.2.2] at this; cases this
  case sGot q =>
    have := (hs.pk.got t (by rw [hpc]; rfl)).1
    rw [hb] at this; cases this
  case aFailRel | sFailRel =>
    have := hs.sem.held t (by rw [hpc]; rfl)
    rw [hb] at this; cases this

theorem tid_cases (t : Tid) : t = readerTid ∨ t = mgrTid ∨ 2 ≤ t := by
  unfold readerTid mgrTid; somega

theorem made_of_fin {s : St} (hs : Safe s) {x : Sid} (h : (s.sh.strm x).fin = true) : (s.sh.strm x).made = true :=
  (hs.loc.flags x).2.2 ((hs.loc.flags x).2.1 ((hs.loc.flags x).1 h))

/-- 3a: nothing inside the manager prevents the next stream (stated for the invariants; see
    `Props/ManagerSys.lean`) -/
theorem ready_of_stuck {s : St} {f c ab : List Sid} (hs : Safe s) (hl : Lx s) (ha : Acc s f c ab) (hst : Stuck s)
    (hq : EnvQuiet s) (hterm : s.sh.term = false) (hself : tokPc (s.pc mgrTid) = 0) :
    s.pc mgrTid = .mTop ∧ s.sh.sfin = false ∧ s.sh.streamsCh = none ∧
    (s.pc readerTid = .rRead ∨ (∃ p, s.pc readerTid = .rOffered p) ∨ ∃ p c, s.pc readerTid = .rWait p c) ∧
    (∀ t, 2 ≤ t → s.pc t = .idle ∨ (∃ b, s.pc t = .done b) ∨ s.pc t = .sSel ∨ ∃ c, s.pc t = .aSel c) ∧
    (s.sh.sem = true ↔ ∃ t, s.pc t = .sSel) ∧ (∀ t c, s.pc t = .aSel c → s.sh.sem = true) := by
  have hmg : s.pc mgrTid = .mTop ∧ s.sh.streamsCh = none := by
    rcases stuck_mgr hs hl ha hst hq hself with h | ⟨b, hb⟩
    · exact ⟨h.1, h.2.1⟩
    · have := (hl.mdone b hb).1; rw [hterm] at this; cases this
  have hcall : ∀ t, 2 ≤ t → s.pc t = .idle ∨ (∃ b, s.pc t = .done b) ∨ (s.pc t = .sSel ∧ s.sh.pkts = none) ∨
      ∃ c, s.pc t = .aSel c ∧ s.sh.sem = true := by
    intro t ht
    rcases stuck_caller hs hl hst hq ht with h | h | h | h | ⟨k, y, -, h, -⟩ | ⟨k, y, -, h, -⟩ | ⟨-, h⟩
    · exact Or.inl h
    · exact Or.inr (Or.inl h)
    · exact Or.inr (Or.inr (Or.inl h))
    · exact Or.inr (Or.inr (Or.inr h))
    · exact absurd hmg.2 h
    · rw [hmg.2] at h; cases h
    · rw [hterm] at h; cases h
  have hsfin : s.sh.sfin = false := by
    cases hx : s.sh.sfin with
    | false => rfl
    | true =>
      exfalso
      have hT : 1 ≤ tokT s := by unfold tokT; rw [hx]; simp; omega
      have h1 := ha.t.a1
      obtain ⟨x, hxf, hxc⟩ := exists_not_mem_of_length_lt (c := c) ha.t.a2.1 (by omega)
      have hmade := made_of_fin hs ((ha.t.a2.2 x).1 hxf)
      rcases ha.b.d1 x hmade with h | ⟨u, hu⟩ | h | ⟨u, hu1, hu2⟩
      · exact hxc h
      · have := mgrTid_of_mgrPre hs.typ hu
        subst this
        rw [hmg.1] at hu; cases hu
      · have := ha.b.e1 x h; rw [hterm] at this; cases this
      · have hu2' : 2 ≤ u := by
          apply tid_of_cl hs.typ
          cases hp : s.pc u <;> rw [hp] at hu1 <;> simp [nSid] at hu1 <;> rfl
        rcases stuck_caller hs hl hst hq hu2' with h | ⟨b, h⟩ | ⟨h, -⟩ | ⟨k, h, -⟩ | ⟨k, y, h, h', -⟩ | ⟨k, y, h, h', -⟩ | ⟨h, h'⟩
        · rw [h] at hu1; cases hu1
        · rw [h] at hu1; cases hu1
        · rw [h] at hu1; cases hu1
        · rw [h] at hu1; cases hu1
        · exact h' hmg.2
        · rw [hmg.2] at h'; cases h'
        · rw [hterm] at h'; cases h'
  have hrt : tokPc (s.pc readerTid) = 0 := by
    cases hx : tokPc (s.pc readerTid) with
    | zero => rfl
    | succ n =>
      have := sfin_of_blocked_tok (blocked_of_not_enabled (hst readerTid)) (by rw [hx]; simp)
      rw [hsfin] at this; cases this
  have hrd : s.pc readerTid = .rRead ∨ (∃ p, s.pc readerTid = .rOffered p) ∨ ∃ p c, s.pc readerTid = .rWait p c := by
    rcases stuck_reader hs hst hq hrt with h | ⟨p, h, -⟩ | ⟨p, c, h, -⟩ | ⟨b, h⟩
    · exact Or.inl h
    · exact Or.inr (Or.inl ⟨p, h⟩)
    · exact Or.inr (Or.inr ⟨p, c, h⟩)
    · have := (hl.rdone b h).1; rw [hterm] at this; cases this
  refine ⟨hmg.1, hsfin, hmg.2, hrd, ?_, ?_, ?_⟩
  · intro t ht
    rcases hcall t ht with h | h | ⟨h, -⟩ | ⟨k, h, -⟩
    · exact Or.inl h
    · exact Or.inr (Or.inl h)
    · exact Or.inr (Or.inr (Or.inl h))
    · exact Or.inr (Or.inr (Or.inr ⟨k, h⟩))
  · constructor
    · intro hsem
      obtain ⟨u, hu⟩ := hs.sem.free hsem hterm
      rcases tid_cases u with rfl | rfl | h2
      · exfalso
        rcases hrd with h | ⟨p, h⟩ | ⟨p, c, h⟩ <;> rw [h] at hu <;> cases hu
      · rw [hmg.1] at hu; cases hu
      · rcases hcall u h2 with h | ⟨b, h⟩ | ⟨h, -⟩ | ⟨k, h, -⟩
        · rw [h] at hu; cases hu
        · rw [h] at hu; cases hu
        · exact ⟨u, h⟩
        · rw [h] at hu; cases hu
    · rintro ⟨u, hu⟩
      exact hs.sem.held u (by rw [hu]; rfl)
  · intro t k ht
    have hb := blocked_of_not_enabled (hst t)
    rw [ht] at hb
    exact hb.2.2

/-- 3b: Close completes -/
theorem closed_of_stuck {s : St} {f c ab : List Sid} (hs : Safe s) (hl : Lx s) (ha : Acc s f c ab) (hst : Stuck s)
    (hq : EnvQuiet s) (hterm : s.sh.term = true) (hrt : tokPc (s.pc readerTid) = 0) (hself : tokPc (s.pc mgrTid) = 0) :
    s.sh.readDone = true ∧ s.sh.streamDone = true ∧ s.sh.tportSet = true ∧ s.sh.closes = 1 ∧
    (∃ b, s.pc readerTid = .done b) ∧ (∃ b, s.pc mgrTid = .done b) ∧
    ∀ t, s.pc t ≠ .cWaitStream ∧ s.pc t ≠ .cWaitRead ∧ s.pc t ≠ .cWaitTport := by
  have htm : s.sh.closes = 1 ∧ s.sh.tportSet = true ∧ s.sh.sbufClosed = true := by
    rcases hs.tm.done hterm with ⟨u, hu⟩ | h
    · exfalso
      have hb := blocked_of_not_enabled (hst u)
      cases hp : s.pc u <;> rw [hp] at hu hb <;> simp [inTm] at hu <;> exact hb
    · exact h
  have hrd : ∃ b, s.pc readerTid = .done b := by
    rcases stuck_reader hs hst hq hrt with h | ⟨p, -, -, h⟩ | ⟨p, c, -, h⟩ | h
    · exact absurd h (hq.2.2 (by rw [htm.1]; exact Nat.one_pos))
    · rw [hterm] at h; cases h
    · rw [htm.2.2] at h; cases h
    · exact h
  have hmg : ∃ b, s.pc mgrTid = .done b := by
    rcases stuck_mgr hs hl ha hst hq hself with ⟨-, -, h⟩ | h
    · rw [hterm] at h; cases h
    · exact h
  obtain ⟨b1, h1⟩ := hrd
  obtain ⟨b2, h2⟩ := hmg
  have hrdone := (hl.rdone b1 h1).2
  have hsdone := (hl.mdone b2 h2).2
  refine ⟨hrdone, hsdone, htm.2.1, htm.1, ⟨b1, h1⟩, ⟨b2, h2⟩, ?_⟩
  intro t
  have hb := blocked_of_not_enabled (hst t)
  refine ⟨?_, ?_, ?_⟩ <;> intro hp <;> rw [hp] at hb <;> simp only [BlockedAt] at hb
  · rw [hsdone] at hb; cases hb
  · rw [hrdone] at hb; cases hb
  · rw [htm.2.1] at hb; cases hb

end Drpc.Manager.Sys
