import Drpc.Chan
/-
  Invariant of the Chan model (Drpc/Chan.lean) and its preservation by every atomic step
  (same shape as Lemmas/Signal.lean).
-/
namespace Drpc.Chan
open Drpc.Signal (Ch Tid chClosed)

@[grind =] theorem pc_setPc (s : State) (t u : Tid) (p : PC) :
    (s.setPc t p).pc u = if u = t then p else s.pc u := rfl

attribute [grind] holds ranF pastStore postDo retDo closer sender getOf waitsOn isPanic closedBy closeDone
  inF isDStore closeFirst closeSecond freshFirst isFreshCh afterDo chClosed upd Op.isClose Op.isSend

structure Inv (s : State) : Prop where
  mutex1 : ∀ t, holds (s.pc t) = true → s.mu = some t
  mutex2 : ∀ t, s.mu = some t → holds (s.pc t) = true
  dn : s.done = true → s.ch ≠ .none
  uniq : ∀ t u, ranF (s.pc t) = true → ranF (s.pc u) = true → t = u
  past : ∀ t, pastStore (s.pc t) = true → s.done = true
  pre : ∀ t, inF (s.pc t) = true → s.done = false
  pd : ∀ t, postDo (s.pc t) = true → s.done = true
  st : ∀ t, isDStore (s.pc t) = true → s.ch ≠ .none
  gt : ∀ t c, getOf (s.pc t) = some c → c = s.ch
  wt : ∀ t c, waitsOn (s.pc t) = some c → c = s.ch
  clF : ∀ t, closeFirst (s.pc t) = true → s.ch = .sentinel
  cd : ∀ t, closeSecond (s.pc t) = true → chClosed s.closes s.ch = true
  cl2 : ∀ c, 0 < s.closes c → s.done = true ∧ s.ch = .fresh c
  frF : ∀ t, freshFirst (s.pc t) = true → isFreshCh s.ch = true

theorem inv_init : Inv init := by
  constructor <;> simp [init, holds, ranF, pastStore, postDo, getOf, waitsOn, inF, isDStore, closeFirst, closeSecond, freshFirst]

theorem ranF_cases (p : PC) : ranF p = true → (holds p = true ∧ inF p = true) ∨ pastStore p = true := by
  cases p <;> simp [ranF, holds, pastStore, inF]
theorem inF_holds (p : PC) : inF p = true → holds p = true ∧ pastStore p = false ∧ postDo p = false := by
  cases p <;> simp [ranF, holds, pastStore, inF, postDo]
theorem pastStore_ranF (p : PC) : pastStore p = true → ranF p = true := by
  cases p <;> simp [ranF, pastStore]
theorem isDStore_inF (p : PC) : isDStore p = true → inF p = true := by
  cases p <;> simp [isDStore, inF]
theorem closeFirst_ranF (p : PC) : closeFirst p = true → ranF p = true := by
  cases p <;> simp [closeFirst, ranF] <;> (intros; simp_all)
theorem freshFirst_ranF (p : PC) : freshFirst p = true → ranF p = true := by
  cases p <;> simp [freshFirst, ranF] <;> (intros; simp_all)
theorem closeSecond_postDo (p : PC) : closeSecond p = true → postDo p = true := by
  cases p <;> simp [closeSecond, postDo]
theorem getOf_postDo (p : PC) (c : Ch) : getOf p = some c → postDo p = true := by
  cases p <;> simp [getOf, postDo]
theorem waitsOn_postDo (p : PC) (c : Ch) : waitsOn p = some c → postDo p = true := by
  cases p <;> simp [waitsOn, postDo]

macro "chan_inv_case" : tactic => `(tactic| (
  constructor <;> (intros; (try simp only [State.setPc, State.isClosed, runF] at *) <;>
    first | done | grind [ranF_cases, inF_holds, pastStore_ranF, isDStore_inF, closeFirst_ranF, freshFirst_ranF, closeSecond_postDo,
      getOf_postDo, waitsOn_postDo])))

macro "chan_step_tac" : tactic => `(tactic| (
  intro s' hs
  unfold step at hs
  simp only [*] at hs
  try simp only [closeStep, sendStep, fullStep, recvStep, recvWake, fullRecv] at hs
  repeat' split at hs
  all_goals (try (simp only [Option.some.injEq, reduceCtorEq] at hs))
  all_goals (try subst hs)
  all_goals chan_inv_case))

theorem inv_call (s : State) (t : Tid) (op : Op) (h : Inv s) (hi : s.pc t = .idle) :
    Inv (s.setPc t (.start op)) := by
  have a1 := h.mutex2 t
  simp only [hi] at a1
  obtain ⟨h1, h2, h3, h4, h5, h6, h7, h8, h9, h10, h11, h12, h13, h14⟩ := h
  chan_inv_case

theorem step_start_close (s : State) (t : Tid)  (h : Inv s) (hp : s.pc t = .start .close) :
    ∀ s', step s t = some s' → Inv s' := by
  have a_mutex1 := h.mutex1 t
  have a_mutex2 := h.mutex2 t
  have a_uniq := h.uniq t
  have a_past := h.past t
  have a_pre := h.pre t
  have a_pd := h.pd t
  have a_st := h.st t
  have a_gt := h.gt t
  have a_wt := h.wt t
  have a_clF := h.clF t
  have a_cd := h.cd t
  have a_frF := h.frF t
  simp only [hp] at a_mutex1 a_mutex2 a_uniq a_past a_pre a_pd a_st a_gt a_wt a_clF a_cd a_frF
  obtain ⟨h1, h2, h3, h4, h5, h6, h7, h8, h9, h10, h11, h12, h13, h14⟩ := h
  chan_step_tac

theorem step_start_make (s : State) (t : Tid) (n : Nat) (h : Inv s) (hp : s.pc t = .start (.make n)) :
    ∀ s', step s t = some s' → Inv s' := by
  have a_mutex1 := h.mutex1 t
  have a_mutex2 := h.mutex2 t
  have a_uniq := h.uniq t
  have a_past := h.past t
  have a_pre := h.pre t
  have a_pd := h.pd t
  have a_st := h.st t
  have a_gt := h.gt t
  have a_wt := h.wt t
  have a_clF := h.clF t
  have a_cd := h.cd t
  have a_frF := h.frF t
  simp only [hp] at a_mutex1 a_mutex2 a_uniq a_past a_pre a_pd a_st a_gt a_wt a_clF a_cd a_frF
  obtain ⟨h1, h2, h3, h4, h5, h6, h7, h8, h9, h10, h11, h12, h13, h14⟩ := h
  chan_step_tac

theorem step_start_get (s : State) (t : Tid)  (h : Inv s) (hp : s.pc t = .start .get) :
    ∀ s', step s t = some s' → Inv s' := by
  have a_mutex1 := h.mutex1 t
  have a_mutex2 := h.mutex2 t
  have a_uniq := h.uniq t
  have a_past := h.past t
  have a_pre := h.pre t
  have a_pd := h.pd t
  have a_st := h.st t
  have a_gt := h.gt t
  have a_wt := h.wt t
  have a_clF := h.clF t
  have a_cd := h.cd t
  have a_frF := h.frF t
  simp only [hp] at a_mutex1 a_mutex2 a_uniq a_past a_pre a_pd a_st a_gt a_wt a_clF a_cd a_frF
  obtain ⟨h1, h2, h3, h4, h5, h6, h7, h8, h9, h10, h11, h12, h13, h14⟩ := h
  chan_step_tac

theorem step_start_send (s : State) (t : Tid)  (h : Inv s) (hp : s.pc t = .start .send) :
    ∀ s', step s t = some s' → Inv s' := by
  have a_mutex1 := h.mutex1 t
  have a_mutex2 := h.mutex2 t
  have a_uniq := h.uniq t
  have a_past := h.past t
  have a_pre := h.pre t
  have a_pd := h.pd t
  have a_st := h.st t
  have a_gt := h.gt t
  have a_wt := h.wt t
  have a_clF := h.clF t
  have a_cd := h.cd t
  have a_frF := h.frF t
  simp only [hp] at a_mutex1 a_mutex2 a_uniq a_past a_pre a_pd a_st a_gt a_wt a_clF a_cd a_frF
  obtain ⟨h1, h2, h3, h4, h5, h6, h7, h8, h9, h10, h11, h12, h13, h14⟩ := h
  chan_step_tac

theorem step_start_recv (s : State) (t : Tid)  (h : Inv s) (hp : s.pc t = .start .recv) :
    ∀ s', step s t = some s' → Inv s' := by
  have a_mutex1 := h.mutex1 t
  have a_mutex2 := h.mutex2 t
  have a_uniq := h.uniq t
  have a_past := h.past t
  have a_pre := h.pre t
  have a_pd := h.pd t
  have a_st := h.st t
  have a_gt := h.gt t
  have a_wt := h.wt t
  have a_clF := h.clF t
  have a_cd := h.cd t
  have a_frF := h.frF t
  simp only [hp] at a_mutex1 a_mutex2 a_uniq a_past a_pre a_pd a_st a_gt a_wt a_clF a_cd a_frF
  obtain ⟨h1, h2, h3, h4, h5, h6, h7, h8, h9, h10, h11, h12, h13, h14⟩ := h
  chan_step_tac

theorem step_start_full (s : State) (t : Tid)  (h : Inv s) (hp : s.pc t = .start .full) :
    ∀ s', step s t = some s' → Inv s' := by
  have a_mutex1 := h.mutex1 t
  have a_mutex2 := h.mutex2 t
  have a_uniq := h.uniq t
  have a_past := h.past t
  have a_pre := h.pre t
  have a_pd := h.pd t
  have a_st := h.st t
  have a_gt := h.gt t
  have a_wt := h.wt t
  have a_clF := h.clF t
  have a_cd := h.cd t
  have a_frF := h.frF t
  simp only [hp] at a_mutex1 a_mutex2 a_uniq a_past a_pre a_pd a_st a_gt a_wt a_clF a_cd a_frF
  obtain ⟨h1, h2, h3, h4, h5, h6, h7, h8, h9, h10, h11, h12, h13, h14⟩ := h
  chan_step_tac

theorem step_start (s : State) (t : Tid) (op : _) (h : Inv s) (hp : s.pc t = .start op) :
    ∀ s', step s t = some s' → Inv s' := by
  cases op with
  | close => exact step_start_close s t h hp
  | make n => exact step_start_make s t n h hp
  | get => exact step_start_get s t h hp
  | send => exact step_start_send s t h hp
  | recv => exact step_start_recv s t h hp
  | full => exact step_start_full s t h hp

theorem step_dLock (s : State) (t : Tid) (op : _) (h : Inv s) (hp : s.pc t = .dLock op) :
    ∀ s', step s t = some s' → Inv s' := by
  have a_mutex1 := h.mutex1 t
  have a_mutex2 := h.mutex2 t
  have a_uniq := h.uniq t
  have a_past := h.past t
  have a_pre := h.pre t
  have a_pd := h.pd t
  have a_st := h.st t
  have a_gt := h.gt t
  have a_wt := h.wt t
  have a_clF := h.clF t
  have a_cd := h.cd t
  have a_frF := h.frF t
  simp only [hp] at a_mutex1 a_mutex2 a_uniq a_past a_pre a_pd a_st a_gt a_wt a_clF a_cd a_frF
  obtain ⟨h1, h2, h3, h4, h5, h6, h7, h8, h9, h10, h11, h12, h13, h14⟩ := h
  chan_step_tac

theorem step_dRead (s : State) (t : Tid) (op : _) (h : Inv s) (hp : s.pc t = .dRead op) :
    ∀ s', step s t = some s' → Inv s' := by
  have a_mutex1 := h.mutex1 t
  have a_mutex2 := h.mutex2 t
  have a_uniq := h.uniq t
  have a_past := h.past t
  have a_pre := h.pre t
  have a_pd := h.pd t
  have a_st := h.st t
  have a_gt := h.gt t
  have a_wt := h.wt t
  have a_clF := h.clF t
  have a_cd := h.cd t
  have a_frF := h.frF t
  simp only [hp] at a_mutex1 a_mutex2 a_uniq a_past a_pre a_pd a_st a_gt a_wt a_clF a_cd a_frF
  obtain ⟨h1, h2, h3, h4, h5, h6, h7, h8, h9, h10, h11, h12, h13, h14⟩ := h
  chan_step_tac

theorem step_dF_close (s : State) (t : Tid)  (h : Inv s) (hp : s.pc t = .dF .close) :
    ∀ s', step s t = some s' → Inv s' := by
  have a_mutex1 := h.mutex1 t
  have a_mutex2 := h.mutex2 t
  have a_uniq := h.uniq t
  have a_past := h.past t
  have a_pre := h.pre t
  have a_pd := h.pd t
  have a_st := h.st t
  have a_gt := h.gt t
  have a_wt := h.wt t
  have a_clF := h.clF t
  have a_cd := h.cd t
  have a_frF := h.frF t
  simp only [hp] at a_mutex1 a_mutex2 a_uniq a_past a_pre a_pd a_st a_gt a_wt a_clF a_cd a_frF
  obtain ⟨h1, h2, h3, h4, h5, h6, h7, h8, h9, h10, h11, h12, h13, h14⟩ := h
  chan_step_tac

theorem step_dF_make (s : State) (t : Tid) (n : Nat) (h : Inv s) (hp : s.pc t = .dF (.make n)) :
    ∀ s', step s t = some s' → Inv s' := by
  have a_mutex1 := h.mutex1 t
  have a_mutex2 := h.mutex2 t
  have a_uniq := h.uniq t
  have a_past := h.past t
  have a_pre := h.pre t
  have a_pd := h.pd t
  have a_st := h.st t
  have a_gt := h.gt t
  have a_wt := h.wt t
  have a_clF := h.clF t
  have a_cd := h.cd t
  have a_frF := h.frF t
  simp only [hp] at a_mutex1 a_mutex2 a_uniq a_past a_pre a_pd a_st a_gt a_wt a_clF a_cd a_frF
  obtain ⟨h1, h2, h3, h4, h5, h6, h7, h8, h9, h10, h11, h12, h13, h14⟩ := h
  chan_step_tac

theorem step_dF_get (s : State) (t : Tid)  (h : Inv s) (hp : s.pc t = .dF .get) :
    ∀ s', step s t = some s' → Inv s' := by
  have a_mutex1 := h.mutex1 t
  have a_mutex2 := h.mutex2 t
  have a_uniq := h.uniq t
  have a_past := h.past t
  have a_pre := h.pre t
  have a_pd := h.pd t
  have a_st := h.st t
  have a_gt := h.gt t
  have a_wt := h.wt t
  have a_clF := h.clF t
  have a_cd := h.cd t
  have a_frF := h.frF t
  simp only [hp] at a_mutex1 a_mutex2 a_uniq a_past a_pre a_pd a_st a_gt a_wt a_clF a_cd a_frF
  obtain ⟨h1, h2, h3, h4, h5, h6, h7, h8, h9, h10, h11, h12, h13, h14⟩ := h
  chan_step_tac

theorem step_dF_send (s : State) (t : Tid)  (h : Inv s) (hp : s.pc t = .dF .send) :
    ∀ s', step s t = some s' → Inv s' := by
  have a_mutex1 := h.mutex1 t
  have a_mutex2 := h.mutex2 t
  have a_uniq := h.uniq t
  have a_past := h.past t
  have a_pre := h.pre t
  have a_pd := h.pd t
  have a_st := h.st t
  have a_gt := h.gt t
  have a_wt := h.wt t
  have a_clF := h.clF t
  have a_cd := h.cd t
  have a_frF := h.frF t
  simp only [hp] at a_mutex1 a_mutex2 a_uniq a_past a_pre a_pd a_st a_gt a_wt a_clF a_cd a_frF
  obtain ⟨h1, h2, h3, h4, h5, h6, h7, h8, h9, h10, h11, h12, h13, h14⟩ := h
  chan_step_tac

theorem step_dF_recv (s : State) (t : Tid)  (h : Inv s) (hp : s.pc t = .dF .recv) :
    ∀ s', step s t = some s' → Inv s' := by
  have a_mutex1 := h.mutex1 t
  have a_mutex2 := h.mutex2 t
  have a_uniq := h.uniq t
  have a_past := h.past t
  have a_pre := h.pre t
  have a_pd := h.pd t
  have a_st := h.st t
  have a_gt := h.gt t
  have a_wt := h.wt t
  have a_clF := h.clF t
  have a_cd := h.cd t
  have a_frF := h.frF t
  simp only [hp] at a_mutex1 a_mutex2 a_uniq a_past a_pre a_pd a_st a_gt a_wt a_clF a_cd a_frF
  obtain ⟨h1, h2, h3, h4, h5, h6, h7, h8, h9, h10, h11, h12, h13, h14⟩ := h
  chan_step_tac

theorem step_dF_full (s : State) (t : Tid)  (h : Inv s) (hp : s.pc t = .dF .full) :
    ∀ s', step s t = some s' → Inv s' := by
  have a_mutex1 := h.mutex1 t
  have a_mutex2 := h.mutex2 t
  have a_uniq := h.uniq t
  have a_past := h.past t
  have a_pre := h.pre t
  have a_pd := h.pd t
  have a_st := h.st t
  have a_gt := h.gt t
  have a_wt := h.wt t
  have a_clF := h.clF t
  have a_cd := h.cd t
  have a_frF := h.frF t
  simp only [hp] at a_mutex1 a_mutex2 a_uniq a_past a_pre a_pd a_st a_gt a_wt a_clF a_cd a_frF
  obtain ⟨h1, h2, h3, h4, h5, h6, h7, h8, h9, h10, h11, h12, h13, h14⟩ := h
  chan_step_tac

theorem step_dF (s : State) (t : Tid) (op : _) (h : Inv s) (hp : s.pc t = .dF op) :
    ∀ s', step s t = some s' → Inv s' := by
  cases op with
  | close => exact step_dF_close s t h hp
  | make n => exact step_dF_make s t n h hp
  | get => exact step_dF_get s t h hp
  | send => exact step_dF_send s t h hp
  | recv => exact step_dF_recv s t h hp
  | full => exact step_dF_full s t h hp

theorem step_dStore (s : State) (t : Tid) (op : _) (h : Inv s) (hp : s.pc t = .dStore op) :
    ∀ s', step s t = some s' → Inv s' := by
  have a_mutex1 := h.mutex1 t
  have a_mutex2 := h.mutex2 t
  have a_uniq := h.uniq t
  have a_past := h.past t
  have a_pre := h.pre t
  have a_pd := h.pd t
  have a_st := h.st t
  have a_gt := h.gt t
  have a_wt := h.wt t
  have a_clF := h.clF t
  have a_cd := h.cd t
  have a_frF := h.frF t
  simp only [hp] at a_mutex1 a_mutex2 a_uniq a_past a_pre a_pd a_st a_gt a_wt a_clF a_cd a_frF
  obtain ⟨h1, h2, h3, h4, h5, h6, h7, h8, h9, h10, h11, h12, h13, h14⟩ := h
  chan_step_tac

theorem step_dUnlock_close (s : State) (t : Tid)  (first : _) (h : Inv s) (hp : s.pc t = .dUnlock .close first) :
    ∀ s', step s t = some s' → Inv s' := by
  have a_mutex1 := h.mutex1 t
  have a_mutex2 := h.mutex2 t
  have a_uniq := h.uniq t
  have a_past := h.past t
  have a_pre := h.pre t
  have a_pd := h.pd t
  have a_st := h.st t
  have a_gt := h.gt t
  have a_wt := h.wt t
  have a_clF := h.clF t
  have a_cd := h.cd t
  have a_frF := h.frF t
  simp only [hp] at a_mutex1 a_mutex2 a_uniq a_past a_pre a_pd a_st a_gt a_wt a_clF a_cd a_frF
  obtain ⟨h1, h2, h3, h4, h5, h6, h7, h8, h9, h10, h11, h12, h13, h14⟩ := h
  chan_step_tac

theorem step_dUnlock_make (s : State) (t : Tid) (n : Nat) (first : _) (h : Inv s) (hp : s.pc t = .dUnlock (.make n) first) :
    ∀ s', step s t = some s' → Inv s' := by
  have a_mutex1 := h.mutex1 t
  have a_mutex2 := h.mutex2 t
  have a_uniq := h.uniq t
  have a_past := h.past t
  have a_pre := h.pre t
  have a_pd := h.pd t
  have a_st := h.st t
  have a_gt := h.gt t
  have a_wt := h.wt t
  have a_clF := h.clF t
  have a_cd := h.cd t
  have a_frF := h.frF t
  simp only [hp] at a_mutex1 a_mutex2 a_uniq a_past a_pre a_pd a_st a_gt a_wt a_clF a_cd a_frF
  obtain ⟨h1, h2, h3, h4, h5, h6, h7, h8, h9, h10, h11, h12, h13, h14⟩ := h
  chan_step_tac

theorem step_dUnlock_get (s : State) (t : Tid)  (first : _) (h : Inv s) (hp : s.pc t = .dUnlock .get first) :
    ∀ s', step s t = some s' → Inv s' := by
  have a_mutex1 := h.mutex1 t
  have a_mutex2 := h.mutex2 t
  have a_uniq := h.uniq t
  have a_past := h.past t
  have a_pre := h.pre t
  have a_pd := h.pd t
  have a_st := h.st t
  have a_gt := h.gt t
  have a_wt := h.wt t
  have a_clF := h.clF t
  have a_cd := h.cd t
  have a_frF := h.frF t
  simp only [hp] at a_mutex1 a_mutex2 a_uniq a_past a_pre a_pd a_st a_gt a_wt a_clF a_cd a_frF
  obtain ⟨h1, h2, h3, h4, h5, h6, h7, h8, h9, h10, h11, h12, h13, h14⟩ := h
  chan_step_tac

theorem step_dUnlock_send (s : State) (t : Tid)  (first : _) (h : Inv s) (hp : s.pc t = .dUnlock .send first) :
    ∀ s', step s t = some s' → Inv s' := by
  have a_mutex1 := h.mutex1 t
  have a_mutex2 := h.mutex2 t
  have a_uniq := h.uniq t
  have a_past := h.past t
  have a_pre := h.pre t
  have a_pd := h.pd t
  have a_st := h.st t
  have a_gt := h.gt t
  have a_wt := h.wt t
  have a_clF := h.clF t
  have a_cd := h.cd t
  have a_frF := h.frF t
  simp only [hp] at a_mutex1 a_mutex2 a_uniq a_past a_pre a_pd a_st a_gt a_wt a_clF a_cd a_frF
  obtain ⟨h1, h2, h3, h4, h5, h6, h7, h8, h9, h10, h11, h12, h13, h14⟩ := h
  chan_step_tac

theorem step_dUnlock_recv (s : State) (t : Tid)  (first : _) (h : Inv s) (hp : s.pc t = .dUnlock .recv first) :
    ∀ s', step s t = some s' → Inv s' := by
  have a_mutex1 := h.mutex1 t
  have a_mutex2 := h.mutex2 t
  have a_uniq := h.uniq t
  have a_past := h.past t
  have a_pre := h.pre t
  have a_pd := h.pd t
  have a_st := h.st t
  have a_gt := h.gt t
  have a_wt := h.wt t
  have a_clF := h.clF t
  have a_cd := h.cd t
  have a_frF := h.frF t
  simp only [hp] at a_mutex1 a_mutex2 a_uniq a_past a_pre a_pd a_st a_gt a_wt a_clF a_cd a_frF
  obtain ⟨h1, h2, h3, h4, h5, h6, h7, h8, h9, h10, h11, h12, h13, h14⟩ := h
  chan_step_tac

theorem step_dUnlock_full (s : State) (t : Tid)  (first : _) (h : Inv s) (hp : s.pc t = .dUnlock .full first) :
    ∀ s', step s t = some s' → Inv s' := by
  have a_mutex1 := h.mutex1 t
  have a_mutex2 := h.mutex2 t
  have a_uniq := h.uniq t
  have a_past := h.past t
  have a_pre := h.pre t
  have a_pd := h.pd t
  have a_st := h.st t
  have a_gt := h.gt t
  have a_wt := h.wt t
  have a_clF := h.clF t
  have a_cd := h.cd t
  have a_frF := h.frF t
  simp only [hp] at a_mutex1 a_mutex2 a_uniq a_past a_pre a_pd a_st a_gt a_wt a_clF a_cd a_frF
  obtain ⟨h1, h2, h3, h4, h5, h6, h7, h8, h9, h10, h11, h12, h13, h14⟩ := h
  chan_step_tac

theorem step_dUnlock (s : State) (t : Tid) (op : _) (first : _) (h : Inv s) (hp : s.pc t = .dUnlock op first) :
    ∀ s', step s t = some s' → Inv s' := by
  cases op with
  | close => exact step_dUnlock_close s t first h hp
  | make n => exact step_dUnlock_make s t n first h hp
  | get => exact step_dUnlock_get s t first h hp
  | send => exact step_dUnlock_send s t first h hp
  | recv => exact step_dUnlock_recv s t first h hp
  | full => exact step_dUnlock_full s t first h hp

theorem step_cClose (s : State) (t : Tid)  (h : Inv s) (hp : s.pc t = .cClose ) :
    ∀ s', step s t = some s' → Inv s' := by
  have a_mutex1 := h.mutex1 t
  have a_mutex2 := h.mutex2 t
  have a_uniq := h.uniq t
  have a_past := h.past t
  have a_pre := h.pre t
  have a_pd := h.pd t
  have a_st := h.st t
  have a_gt := h.gt t
  have a_wt := h.wt t
  have a_clF := h.clF t
  have a_cd := h.cd t
  have a_frF := h.frF t
  simp only [hp] at a_mutex1 a_mutex2 a_uniq a_past a_pre a_pd a_st a_gt a_wt a_clF a_cd a_frF
  obtain ⟨h1, h2, h3, h4, h5, h6, h7, h8, h9, h10, h11, h12, h13, h14⟩ := h
  chan_step_tac

theorem step_cGet (s : State) (t : Tid) (first : _) (h : Inv s) (hp : s.pc t = .cGet first) :
    ∀ s', step s t = some s' → Inv s' := by
  have a_mutex1 := h.mutex1 t
  have a_mutex2 := h.mutex2 t
  have a_uniq := h.uniq t
  have a_past := h.past t
  have a_pre := h.pre t
  have a_pd := h.pd t
  have a_st := h.st t
  have a_gt := h.gt t
  have a_wt := h.wt t
  have a_clF := h.clF t
  have a_cd := h.cd t
  have a_frF := h.frF t
  simp only [hp] at a_mutex1 a_mutex2 a_uniq a_past a_pre a_pd a_st a_gt a_wt a_clF a_cd a_frF
  obtain ⟨h1, h2, h3, h4, h5, h6, h7, h8, h9, h10, h11, h12, h13, h14⟩ := h
  chan_step_tac

theorem step_cSend (s : State) (t : Tid) (first : _) (h : Inv s) (hp : s.pc t = .cSend first) :
    ∀ s', step s t = some s' → Inv s' := by
  have a_mutex1 := h.mutex1 t
  have a_mutex2 := h.mutex2 t
  have a_uniq := h.uniq t
  have a_past := h.past t
  have a_pre := h.pre t
  have a_pd := h.pd t
  have a_st := h.st t
  have a_gt := h.gt t
  have a_wt := h.wt t
  have a_clF := h.clF t
  have a_cd := h.cd t
  have a_frF := h.frF t
  simp only [hp] at a_mutex1 a_mutex2 a_uniq a_past a_pre a_pd a_st a_gt a_wt a_clF a_cd a_frF
  obtain ⟨h1, h2, h3, h4, h5, h6, h7, h8, h9, h10, h11, h12, h13, h14⟩ := h
  chan_step_tac

theorem step_cRecv (s : State) (t : Tid) (first : _) (h : Inv s) (hp : s.pc t = .cRecv first) :
    ∀ s', step s t = some s' → Inv s' := by
  have a_mutex1 := h.mutex1 t
  have a_mutex2 := h.mutex2 t
  have a_uniq := h.uniq t
  have a_past := h.past t
  have a_pre := h.pre t
  have a_pd := h.pd t
  have a_st := h.st t
  have a_gt := h.gt t
  have a_wt := h.wt t
  have a_clF := h.clF t
  have a_cd := h.cd t
  have a_frF := h.frF t
  simp only [hp] at a_mutex1 a_mutex2 a_uniq a_past a_pre a_pd a_st a_gt a_wt a_clF a_cd a_frF
  obtain ⟨h1, h2, h3, h4, h5, h6, h7, h8, h9, h10, h11, h12, h13, h14⟩ := h
  chan_step_tac

theorem step_cRecvW (s : State) (t : Tid) (first : _) (c : _) (h : Inv s) (hp : s.pc t = .cRecvW first c) :
    ∀ s', step s t = some s' → Inv s' := by
  have a_mutex1 := h.mutex1 t
  have a_mutex2 := h.mutex2 t
  have a_uniq := h.uniq t
  have a_past := h.past t
  have a_pre := h.pre t
  have a_pd := h.pd t
  have a_st := h.st t
  have a_gt := h.gt t
  have a_wt := h.wt t
  have a_clF := h.clF t
  have a_cd := h.cd t
  have a_frF := h.frF t
  simp only [hp] at a_mutex1 a_mutex2 a_uniq a_past a_pre a_pd a_st a_gt a_wt a_clF a_cd a_frF
  obtain ⟨h1, h2, h3, h4, h5, h6, h7, h8, h9, h10, h11, h12, h13, h14⟩ := h
  chan_step_tac

theorem step_cFull (s : State) (t : Tid) (first : _) (h : Inv s) (hp : s.pc t = .cFull first) :
    ∀ s', step s t = some s' → Inv s' := by
  have a_mutex1 := h.mutex1 t
  have a_mutex2 := h.mutex2 t
  have a_uniq := h.uniq t
  have a_past := h.past t
  have a_pre := h.pre t
  have a_pd := h.pd t
  have a_st := h.st t
  have a_gt := h.gt t
  have a_wt := h.wt t
  have a_clF := h.clF t
  have a_cd := h.cd t
  have a_frF := h.frF t
  simp only [hp] at a_mutex1 a_mutex2 a_uniq a_past a_pre a_pd a_st a_gt a_wt a_clF a_cd a_frF
  obtain ⟨h1, h2, h3, h4, h5, h6, h7, h8, h9, h10, h11, h12, h13, h14⟩ := h
  chan_step_tac

theorem step_cFullRecv (s : State) (t : Tid) (first : _) (c : _) (h : Inv s) (hp : s.pc t = .cFullRecv first c) :
    ∀ s', step s t = some s' → Inv s' := by
  have a_mutex1 := h.mutex1 t
  have a_mutex2 := h.mutex2 t
  have a_uniq := h.uniq t
  have a_past := h.past t
  have a_pre := h.pre t
  have a_pd := h.pd t
  have a_st := h.st t
  have a_gt := h.gt t
  have a_wt := h.wt t
  have a_clF := h.clF t
  have a_cd := h.cd t
  have a_frF := h.frF t
  simp only [hp] at a_mutex1 a_mutex2 a_uniq a_past a_pre a_pd a_st a_gt a_wt a_clF a_cd a_frF
  obtain ⟨h1, h2, h3, h4, h5, h6, h7, h8, h9, h10, h11, h12, h13, h14⟩ := h
  chan_step_tac

theorem inv_step (s s' : State) (t : Tid) (h : Inv s) (hs : step s t = some s') : Inv s' := by
  cases hp : s.pc t with
  | idle  => simp [step, hp] at hs
  | start op => exact step_start s t op h hp s' hs
  | panicked op first => simp [step, hp] at hs
  | dLock op => exact step_dLock s t op h hp s' hs
  | dRead op => exact step_dRead s t op h hp s' hs
  | dF op => exact step_dF s t op h hp s' hs
  | dStore op => exact step_dStore s t op h hp s' hs
  | dUnlock op first => exact step_dUnlock s t op first h hp s' hs
  | cClose  => exact step_cClose s t  h hp s' hs
  | cGet first => exact step_cGet s t first h hp s' hs
  | cSend first => exact step_cSend s t first h hp s' hs
  | cRecv first => exact step_cRecv s t first h hp s' hs
  | cRecvW first c => exact step_cRecvW s t first c h hp s' hs
  | cFull first => exact step_cFull s t first h hp s' hs
  | cFullRecv first c => exact step_cFullRecv s t first c h hp s' hs
  | doneClose first => simp [step, hp] at hs
  | doneMake first => simp [step, hp] at hs
  | doneGet first c => simp [step, hp] at hs
  | doneSend first => simp [step, hp] at hs
  | doneRecv first => simp [step, hp] at hs
  | doneFull first b => simp [step, hp] at hs

theorem reach_inv (s : State) (h : Reach s) : Inv s := by
  induction h with
  | init => exact inv_init
  | call s t op _ hi ih => exact inv_call s t op ih hi
  | step s s' t _ hs ih => exact inv_step s s' t ih hs

end Drpc.Chan
