import Drpc.Lemmas.Frame
import Drpc.Wire.Split
/-
  Round trip of the frame codec, facts about `splitFrames`.
-/
namespace Drpc

theorem appendVarint_length_pos (x : U64) : 1 ≤ (appendVarint x).length := by
  rw [appendVarint]; split <;> simp

theorem appendVarint_ne_nil (x : U64) : appendVarint x ≠ [] := by
  intro h; have := appendVarint_length_pos x; rw [h] at this; simp at this

theorem frame_roundtrip_aux (fr : Frame) (rest : Bytes)
    (hk : fr.kind.toNat < 64) (hl : fr.data.length < 2^64) :
    parseFrame (appendFrame fr ++ rest) = .ok rest fr := by
  have h1 := appendVarint_length_pos fr.sid
  have h2 := appendVarint_length_pos fr.mid
  have h3 := appendVarint_length_pos (BitVec.ofNat 64 fr.data.length)
  have key : appendFrame fr ++ rest = controlByte fr :: (appendVarint fr.sid ++ (appendVarint fr.mid ++
      (appendVarint (BitVec.ofNat 64 fr.data.length) ++ (fr.data ++ rest)))) := by
    simp [appendFrame]
  rw [key]
  unfold parseFrame
  rw [if_neg (by simp; omega)]
  have hn : (BitVec.ofNat 64 fr.data.length).toNat = fr.data.length := by
    simp [BitVec.toNat_ofNat]; omega
  simp only [varint_roundtrip, hn]
  rw [if_neg (by simp), if_neg (by simp)]
  congr 1
  · simp
  · cases fr with
    | mk data sid mid kind done control =>
      simp only [controlByte] at *
      simp [kind_controlByte_aux kind hk done control, done_controlByte_aux kind hk done control,
        ctl_controlByte_aux kind hk done control]

/-! ### splitFrames -/

theorem splitFrames_concat (sid mid : U64) (kind : Byte) (control : Bool) (m : Nat) (data : Bytes) :
    ((splitFrames sid mid kind control m data).map (·.data)).flatten = data := by
  induction data using splitFrames.induct (m := m) with
  | case1 data h ih =>
    rw [splitFrames]; simp only [h, and_self, ↓reduceDIte, List.map_cons, List.flatten_cons, ih]
    exact List.take_append_drop m data
  | case2 data h =>
    rw [splitFrames]; simp [h]

theorem splitFrames_ne_nil (sid mid : U64) (kind : Byte) (control : Bool) (m : Nat) (data : Bytes) :
    splitFrames sid mid kind control m data ≠ [] := by
  rw [splitFrames]; split <;> simp

theorem splitFrames_header (sid mid : U64) (kind : Byte) (control : Bool) (m : Nat) (data : Bytes) :
    ∀ fr ∈ splitFrames sid mid kind control m data,
      fr.sid = sid ∧ fr.mid = mid ∧ fr.kind = kind ∧ fr.control = control := by
  induction data using splitFrames.induct (m := m) with
  | case1 data h ih =>
    rw [splitFrames]; simp only [h, and_self, ↓reduceDIte, List.mem_cons]
    intro fr hfr
    rcases hfr with rfl | hfr
    · simp
    · exact ih fr hfr
  | case2 data h =>
    rw [splitFrames]; simp [h]

/-- only the last frame is `done`, and it is -/
theorem splitFrames_done (sid mid : U64) (kind : Byte) (control : Bool) (m : Nat) (data : Bytes) :
    ∃ pre last, splitFrames sid mid kind control m data = pre ++ [last] ∧ last.done = true ∧
      ∀ fr ∈ pre, fr.done = false := by
  induction data using splitFrames.induct (m := m) with
  | case1 data h ih =>
    obtain ⟨pre, last, e, hl, hp⟩ := ih
    rw [splitFrames]; simp only [h, and_self, ↓reduceDIte]
    refine ⟨_ :: pre, last, by rw [e]; rfl, hl, ?_⟩
    intro fr hfr
    simp only [List.mem_cons] at hfr
    rcases hfr with rfl | hfr
    · rfl
    · exact hp fr hfr
  | case2 data h =>
    rw [splitFrames]; simp only [h, ↓reduceDIte]
    exact ⟨[], _, rfl, rfl, by simp⟩

/-- with a positive split size every frame carries at most `m` bytes, and all but the last exactly `m` -/
theorem splitFrames_sizes (sid mid : U64) (kind : Byte) (control : Bool) (m : Nat) (hm : 0 < m) (data : Bytes) :
    ∀ fr ∈ splitFrames sid mid kind control m data,
      fr.data.length ≤ m ∧ (fr.done = false → fr.data.length = m) := by
  induction data using splitFrames.induct (m := m) with
  | case1 data h ih =>
    rw [splitFrames]; simp only [h, and_self, ↓reduceDIte, List.mem_cons]
    intro fr hfr
    rcases hfr with rfl | hfr
    · simp [List.length_take]; omega
    · exact ih fr hfr
  | case2 data h =>
    rw [splitFrames]; simp only [h, ↓reduceDIte, List.mem_singleton]
    intro fr hfr; subst hfr
    simp; omega

/-- split size 0 (Go: negative `n`) never splits -/
theorem splitFrames_zero (sid mid : U64) (kind : Byte) (control : Bool) (data : Bytes) :
    splitFrames sid mid kind control 0 data =
      [{ data := data, sid := sid, mid := mid, kind := kind, control := control, done := true }] := by
  rw [splitFrames]; simp

end Drpc
