import Drpc.Lemmas.Chan
/- Consequences of the Chan invariant that need the reachability relation: existence of the first
   caller and of the closer, stability of the channel, and the absence of panics when at most one
   Close call is ever made (and no Send/Full is combined with it). -/
set_option linter.unusedSimpArgs false
namespace Drpc.Chan
open Drpc.Signal (Ch Tid chClosed)

@[simp] theorem runF_pc (s : State) (op : Op) : (runF s op).pc = s.pc := by cases op <;> rfl
@[simp] theorem runF_done (s : State) (op : Op) : (runF s op).done = s.done := by cases op <;> rfl
@[simp] theorem runF_mu (s : State) (op : Op) : (runF s op).mu = s.mu := by cases op <;> rfl
@[simp] theorem runF_closes (s : State) (op : Op) : (runF s op).closes = s.closes := by cases op <;> rfl

/-- unfold one step into its cases -/
macro "chan_unfold" hs:ident : tactic => `(tactic| (
  unfold step at $hs:ident
  split at $hs:ident
  all_goals (try simp only [closeStep, sendStep, fullStep, recvStep, recvWake, fullRecv] at $hs:ident)
  all_goals (repeat' split at $hs:ident)
  all_goals (try (simp only [Option.some.injEq, reduceCtorEq] at $hs:ident))
  all_goals (try subst $hs:ident)))

/-- a step of `t` changes only `t`'s program counter -/
theorem step_pc_other (s s' : State) (t u : Tid) (hs : step s t = some s') (hu : u ≠ t) : s'.pc u = s.pc u := by
  chan_unfold hs
  all_goals (simp [State.setPc, hu])

theorem done_mono (s s' : State) (t : Tid) (hs : step s t = some s') (h0 : s.done = true) : s'.done = true := by
  chan_unfold hs
  all_goals (first | (rename_i op _; cases op <;> simp_all [State.setPc, runF]) | simp_all [State.setPc, runF])

/-- once `done` is set, no step replaces the channel, changes a capacity or makes another channel -/
theorem ch_stable (s s' : State) (t : Tid) (h : Inv s) (hs : step s t = some s') (h0 : s.done = true) :
    s'.ch = s.ch ∧ s'.cap = s.cap ∧ s'.nextCh = s.nextCh := by
  have hp := h.pre t
  chan_unfold hs
  all_goals (simp_all [State.setPc, inF])

theorem closes_mono (s s' : State) (t : Tid) (hs : step s t = some s') (c : Nat) : s.closes c ≤ s'.closes c := by
  chan_unfold hs
  all_goals (simp only [State.setPc, runF_closes, upd])
  all_goals (try split)
  all_goals (try subst_vars)
  all_goals (try omega)

theorem past_step (s s' : State) (t : Tid) (hs : step s t = some s')
    (hp : pastStore (s.pc t) = true) : pastStore (s'.pc t) = true := by
  chan_unfold hs
  all_goals (first | (rename_i op _ _; cases op <;> simp_all [State.setPc, pastStore, afterDo]) | simp_all [State.setPc, pastStore, afterDo])

theorem done_rise (s s' : State) (t : Tid) (hs : step s t = some s')
    (h0 : s.done = false) (h1 : s'.done = true) : pastStore (s'.pc t) = true := by
  chan_unfold hs
  all_goals (first | (rename_i op _; cases op <;> simp_all [State.setPc, pastStore, runF]) | simp_all [State.setPc, pastStore, runF])

/-- once `done` is set some thread is (or was) the first caller -/
theorem ex_first (s : State) (h : Reach s) : s.done = true → ∃ w, pastStore (s.pc w) = true := by
  induction h with
  | init => simp [init]
  | call s t op hr hi ih =>
    intro he
    obtain ⟨w, hw⟩ := ih he
    refine ⟨w, ?_⟩
    have : w ≠ t := by intro h; subst h; simp [hi, pastStore] at hw
    simp [State.setPc, this, hw]
  | step s s' t hr hs ih =>
    intro he'
    by_cases he : s.done = true
    · obtain ⟨w, hw⟩ := ih he
      by_cases hwt : w = t
      · subst hwt; exact ⟨w, past_step s s' w hs hw⟩
      · exact ⟨w, by rw [step_pc_other s s' t w hs hwt]; exact hw⟩
    · exact ⟨t, done_rise s s' t hs (by simpa using he) he'⟩

theorem closedBy_step (s s' : State) (t : Tid) (hs : step s t = some s')
    (hp : closedBy (s.pc t) = true) : closedBy (s'.pc t) = true := by
  chan_unfold hs
  all_goals (first | (rename_i op _ _; cases op <;> simp_all [State.setPc, closedBy, afterDo, Op.isClose]) | simp_all [State.setPc, closedBy, afterDo, Op.isClose])

theorem closed_rise (s s' : State) (t : Tid) (h : Inv s) (hs : step s t = some s')
    (h0 : chClosed s.closes s.ch = false) (h1 : chClosed s'.closes s'.ch = true) : closedBy (s'.pc t) = true := by
  have hp := h.pre t
  have hc := h.cl2
  chan_unfold hs
  all_goals (try (simp only [State.setPc] at h1; rw [h0] at h1; cases h1))
  all_goals (try (simp only [State.setPc, ↓reduceIte, closedBy]; done))
  -- what is left: f() of the first caller
  all_goals first
    | (rename_i op _
       have hd : s.done = false := hp (by simp [*, inF])
       cases op <;> simp [State.setPc, closedBy, runF, Op.isClose] at h1 ⊢ <;>
         (simp only [chClosed, decide_eq_true_eq] at h1; have := (hc _ h1).1; rw [hd] at this; cases this))
    | (simp_all [chClosed])

/-- a closed channel has been made closed by some Close call -/
theorem ex_closer (s : State) (h : Reach s) : chClosed s.closes s.ch = true → ∃ w, closedBy (s.pc w) = true := by
  induction h with
  | init => simp [init, chClosed]
  | call s t op hr hi ih =>
    intro he
    obtain ⟨w, hw⟩ := ih (by simpa [State.setPc] using he)
    refine ⟨w, ?_⟩
    have : w ≠ t := by intro h; subst h; simp [hi, closedBy] at hw
    simp [State.setPc, this, hw]
  | step s s' t hr hs ih =>
    intro he'
    by_cases he : chClosed s.closes s.ch = true
    · obtain ⟨w, hw⟩ := ih he
      by_cases hwt : w = t
      · subst hwt; exact ⟨w, closedBy_step s s' w hs hw⟩
      · exact ⟨w, by rw [step_pc_other s s' t w hs hwt]; exact hw⟩
    · exact ⟨t, closed_rise s s' t (reach_inv s hr) hs (by simpa using he) he'⟩


/-! ### at most one Close call, and no Send/Full together with it -/

/-- "at most one Close call ever, and Send/Full never combined with Close" as a property of a state
    (calls never disappear from a state, so it speaks about the whole history) -/
def SingleCloser (s : State) : Prop :=
  (∀ t u, closer (s.pc t) = true → closer (s.pc u) = true → t = u) ∧
  (∀ t u, closer (s.pc t) = true → sender (s.pc u) = true → False)

structure Good (s : State) : Prop where
  nopanic : ∀ t, isPanic (s.pc t) = false
  cl1 : ∀ c, s.closes c ≤ 1
  sc : s.sentCloses = 0

theorem closer_step (s s' : State) (t : Tid) (hs : step s t = some s') : closer (s'.pc t) = closer (s.pc t) := by
  chan_unfold hs
  all_goals (first
    | (rename_i op first _; cases op <;> cases first <;> simp_all [State.setPc, closer, afterDo, Op.isClose]; done)
    | (rename_i op _; cases op <;> simp_all [State.setPc, closer, afterDo, Op.isClose]; done)
    | (rename_i op _ _; cases op <;> simp_all [State.setPc, closer, afterDo, Op.isClose]; done)
    | (simp_all [State.setPc, closer, afterDo, Op.isClose]))

theorem sender_step (s s' : State) (t : Tid) (hs : step s t = some s') : sender (s'.pc t) = sender (s.pc t) := by
  chan_unfold hs
  all_goals (first
    | (rename_i op first _; cases op <;> cases first <;> simp_all [State.setPc, sender, afterDo, Op.isSend]; done)
    | (rename_i op _; cases op <;> simp_all [State.setPc, sender, afterDo, Op.isSend]; done)
    | (rename_i op _ _; cases op <;> simp_all [State.setPc, sender, afterDo, Op.isSend]; done)
    | (simp_all [State.setPc, sender, afterDo, Op.isSend]))

theorem single_closer_back (s s' : State) (t : Tid) (hs : step s t = some s') (H : SingleCloser s') :
    SingleCloser s := by
  have pcs : ∀ u, closer (s'.pc u) = closer (s.pc u) ∧ sender (s'.pc u) = sender (s.pc u) := by
    intro u
    by_cases hu : u = t
    · subst hu; exact ⟨closer_step s s' u hs, sender_step s s' u hs⟩
    · rw [step_pc_other s s' t u hs hu]; exact ⟨rfl, rfl⟩
  refine ⟨fun a b ha hb => H.1 a b ?_ ?_, fun a b ha hb => H.2 a b ?_ ?_⟩
  · rw [(pcs a).1]; exact ha
  · rw [(pcs b).1]; exact hb
  · rw [(pcs a).1]; exact ha
  · rw [(pcs b).2]; exact hb

theorem single_closer_back_call (s : State) (t : Tid) (op : Op) (hi : s.pc t = .idle)
    (H : SingleCloser (s.setPc t (.start op))) : SingleCloser s := by
  have pcs : ∀ u, closer (s.pc u) = true → closer ((s.setPc t (.start op)).pc u) = true := by
    intro u hu
    by_cases h : u = t
    · subst h; simp [hi, closer] at hu
    · simpa [State.setPc, h] using hu
  have pss : ∀ u, sender (s.pc u) = true → sender ((s.setPc t (.start op)).pc u) = true := by
    intro u hu
    by_cases h : u = t
    · subst h; simp [hi, sender] at hu
    · simpa [State.setPc, h] using hu
  exact ⟨fun a b ha hb => H.1 a b (pcs a ha) (pcs b hb), fun a b ha hb => H.2 a b (pcs a ha) (pss b hb)⟩

theorem closedBy_closer (p : PC) : closedBy p = true → closer p = true := by
  cases p <;> simp [closedBy, closer] <;> (intros; simp_all)

theorem panic_origin (s s' : State) (t : Tid) (hs : step s t = some s') (hp' : isPanic (s'.pc t) = true) :
    (s.pc t = .cClose ∧ (chClosed s.closes s.ch = true ∨ s.ch = .none)) ∨
    (sender (s.pc t) = true ∧ chClosed s.closes s.ch = true) := by
  chan_unfold hs
  all_goals (first
    | (rename_i op first _; cases op <;> cases first <;> simp_all [State.setPc, isPanic, afterDo]; done)
    | (rename_i op _; cases op <;> simp_all [State.setPc, isPanic, afterDo]; done)
    | (rename_i op _ _; cases op <;> simp_all [State.setPc, isPanic, afterDo]; done)
    | (simp_all [State.setPc, isPanic, sender, chClosed]; try omega))

theorem closes_change (s s' : State) (t : Tid) (hs : step s t = some s') (c : Nat)
    (hc : s'.closes c ≠ s.closes c) : s.pc t = .cClose ∧ s.ch = .fresh c ∧ s'.closes c = s.closes c + 1 := by
  chan_unfold hs
  all_goals (simp only [State.setPc, runF_closes, ne_eq, not_true_eq_false] at hc)
  all_goals (simp only [upd] at hc ⊢; split at hc <;> simp_all [State.setPc, upd])

theorem sent_change (s s' : State) (t : Tid) (hs : step s t = some s')
    (hc : s'.sentCloses ≠ s.sentCloses) : s.pc t = .cClose ∧ s.ch = .sentinel := by
  chan_unfold hs
  all_goals (first
    | (rename_i op _; cases op <;> simp_all [State.setPc, runF]; done)
    | (simp_all [State.setPc]))

theorem good_step (s s' : State) (t : Tid) (inv : Inv s)
    (exc : chClosed s.closes s.ch = true → ∃ w, closedBy (s.pc w) = true)
    (H : SingleCloser s) (g : Good s) (hs : step s t = some s') : Good s' := by
  -- a closed channel has a closer `w`; the stepping thread cannot be a second closer or a sender
  have key : chClosed s.closes s.ch = true → (closer (s.pc t) = true → closedBy (s.pc t) = true) ∧
      sender (s.pc t) = false := by
    intro hc
    obtain ⟨w, hw⟩ := exc hc
    have hwc := closedBy_closer _ hw
    refine ⟨fun ht => ?_, ?_⟩
    · have := H.1 t w ht hwc; subst this; exact hw
    · cases hsd : sender (s.pc t) with
      | false => rfl
      | true => exact (H.2 w t hwc hsd).elim
  -- a thread at cClose never sees a closed or nil channel
  have atClose : s.pc t = .cClose → chClosed s.closes s.ch = false ∧ s.ch ≠ .none := by
    intro hp
    refine ⟨?_, inv.dn (inv.pd t (by simp [hp, postDo]))⟩
    cases hc : chClosed s.closes s.ch with
    | false => rfl
    | true => have := (key hc).1 (by simp [hp, closer]); simp [hp, closedBy] at this
  refine ⟨fun u => ?_, fun c => ?_, ?_⟩
  · by_cases hu : u = t
    · subst hu
      cases hp' : isPanic (s'.pc u) with
      | false => rfl
      | true =>
        exfalso
        rcases panic_origin s s' u hs hp' with ⟨h1, h2⟩ | ⟨h1, h2⟩
        · have := atClose h1; rcases h2 with h2 | h2
          · rw [this.1] at h2; cases h2
          · exact this.2 h2
        · have := (key h2).2; rw [h1] at this; cases this
    · rw [step_pc_other s s' t u hs hu]; exact g.nopanic u
  · by_cases hc : s'.closes c = s.closes c
    · rw [hc]; exact g.cl1 c
    · obtain ⟨h1, h2, h3⟩ := closes_change s s' t hs c hc
      have := (atClose h1).1
      rw [h2] at this
      simp only [chClosed, decide_eq_false_iff_not, Nat.not_lt, Nat.le_zero_eq] at this
      omega
  · by_cases hc : s'.sentCloses = s.sentCloses
    · rw [hc]; exact g.sc
    · obtain ⟨h1, h2⟩ := sent_change s s' t hs hc
      have := (atClose h1).1
      rw [h2] at this; simp [chClosed] at this

theorem good_init : Good init := by
  constructor <;> simp [init, isPanic]

/-- with at most one Close call (and no Send/Full next to it) nothing ever panics, no channel is
    closed twice and the pre-closed sentinel is never closed -/
theorem good_of_single_closer (s : State) (h : Reach s) (H : SingleCloser s) : Good s := by
  induction h with
  | init => exact good_init
  | call s t op hr hi ih =>
    have g := ih (single_closer_back_call s t op hi H)
    refine ⟨fun u => ?_, g.cl1, g.sc⟩
    by_cases hu : u = t
    · subst hu; simp [State.setPc, isPanic]
    · simpa [State.setPc, hu] using g.nopanic u
  | step s s' t hr hs ih =>
    have H0 := single_closer_back s s' t hs H
    exact good_step s s' t (reach_inv s hr) (ex_closer s hr) H0 (ih H0) hs

theorem reach_exec (s : State) (h : Reach s) (as : List Act) : Reach (exec s as) := by
  induction as generalizing s with
  | nil => exact h
  | cons a as ih =>
    cases a with
    | call t c =>
      simp only [exec]
      split
      · exact ih _ (Reach.call s t c h (by assumption))
      · exact ih _ h
    | step t =>
      simp only [exec]
      split
      · exact ih _ (Reach.step s _ t h (by assumption))
      · exact ih _ h

end Drpc.Chan
