import Drpc.Lemmas.Chan
/- Consequences of the Chan invariant that need the reachability relation: existence of the first
   caller and of the closer, stability of the channel, and the absence of panics when at most one
   Close call is ever made (and no Send/Full is combined with it). -/
set_option linter.unusedSimpArgs false
namespace Drpc.Chan
open Drpc.Signal (Ch Tid chClosed)

@[simp] theorem runF_pc (s : State) (op : Op) : (runF s op).pc = s.pc := by cases op <;> rfl
@[simp] theorem runF_done (s : State) (op : Op) : (runF s op).done = s.done := by cases op <;> rfl
@[simp] theorem runF_mu (s : State) (op : Op) : (runF s op).mu = s.mu := by cases op <;> rfl
@[simp] theorem runF_closes (s : State) (op : Op) : (runF s op).closes = s.closes := by cases op <;> rfl

/-- unfold one step into its cases -/
macro "chan_unfold" hs:ident : tactic => `(tactic| (
  unfold step at $hs:ident
  split at $hs:ident
  all_goals (try simp only [closeStep, sendStep, fullStep, recvStep, recvWake, fullRecv] at $hs:ident)
  all_goals (repeat' split at $hs:ident)
  all_goals (try (simp only [Option.some.injEq, reduceCtorEq] at $hs:ident))
  all_goals (try subst $hs:ident)))

/-- a step of `t` changes only `t`'s program counter -/
theorem step_pc_other (s s' : State) (t u : Tid) (hs : step s t = some s') (hu : u ≠ t) : s'.pc u = s.pc u := by
  chan_unfold hs
  all_goals (simp [State.setPc, hu])

theorem done_mono (s s' : State) (t : Tid) (hs : step s t = some s') (h0 : s.done = true) : s'.done = true := by
  chan_unfold hs
  all_goals (first | (rename_i op _; cases op <;> simp_all [State.setPc, runF]) | simp_all [State.setPc, runF])

/-- once `done` is set, no step replaces the channel, changes a capacity or makes another channel -/
theorem ch_stable (s s' : State) (t : Tid) (h : Inv s) (hs : step s t = some s') (h0 : s.done = true) :
    s'.ch = s.ch ∧ s'.cap = s.cap ∧ s'.nextCh = s.nextCh := by
  have hp := h.pre t
  chan_unfold hs
  all_goals (simp_all [State.setPc, inF])

theorem closes_mono (s s' : State) (t : Tid) (hs : step s t = some s') (c : Nat) : s.closes c ≤ s'.closes c := by
  chan_unfold hs
  all_goals (simp only [State.setPc, runF_closes, upd])
  all_goals (try split)
  all_goals (try subst_vars)
  all_goals (try omega)

theorem past_step (s s' : State) (t : Tid) (hs : step s t = some s')
    (hp : pastStore (s.pc t) = true) : pastStore (s'.pc t) = true := by
  chan_unfold hs
  all_goals (first | (rename_i op _ _; cases op <;> simp_all [State.setPc, pastStore, afterDo]) | simp_all [State.setPc, pastStore, afterDo])

theorem done_rise (s s' : State) (t : Tid) (hs : step s t = some s')
    (h0 : s.done = false) (h1 : s'.done = true) : pastStore (s'.pc t) = true := by
  chan_unfold hs
  all_goals (first | (rename_i op _; cases op <;> simp_all [State.setPc, pastStore, runF]) | simp_all [State.setPc, pastStore, runF])

/-- once `done` is set some thread is (or was) the first caller -/
theorem ex_first (s : State) (h : Reach s) : s.done = true → ∃ w, pastStore (s.pc w) = true := by
  induction h with
  | init => simp [init]
  | call s t op hr hi ih =>
    intro he
    obtain ⟨w, hw⟩ := ih he
    refine ⟨w, ?_⟩
    have : w ≠ t := by intro h; subst h; simp [hi, pastStore] at hw
    simp [State.setPc, this, hw]
  | step s s' t hr hs ih =>
    intro he'
    by_cases he : s.done = true
    · obtain ⟨w, hw⟩ := ih he
      by_cases hwt : w = t
      · subst hwt; exact ⟨w, past_step s s' w hs hw⟩
      · exact ⟨w, by rw [step_pc_other s s' t w hs hwt]; exact hw⟩
    · exact ⟨t, done_rise s s' t hs (by simpa using he) he'⟩

theorem closedBy_step (s s' : State) (t : Tid) (hs : step s t = some s')
    (hp : closedBy (s.pc t) = true) : closedBy (s'.pc t) = true := by
  chan_unfold hs
  all_goals (first | (rename_i op _ _; cases op <;> simp_all [State.setPc, closedBy, afterDo, Op.isClose]) | simp_all [State.setPc, closedBy, afterDo, Op.isClose])

theorem closed_rise (s s' : State) (t : Tid) (h : Inv s) (hs : step s t = some s')
    (h0 : chClosed s.closes s.ch = false) (h1 : chClosed s'.closes s'.ch = true) : closedBy (s'.pc t) = true := by
  have hp := h.pre t
  have hc := h.cl2
  chan_unfold hs
  all_goals (try (simp only [State.setPc] at h1; rw [h0] at h1; cases h1))
  all_goals (try (simp only [State.setPc, ↓reduceIte, closedBy]; done))
  -- what is left: f() of the first caller
  all_goals first
    | (rename_i op _
       have hd : s.done = false := hp (by simp [*, inF])
       cases op <;> simp [State.setPc, closedBy, runF, Op.isClose] at h1 ⊢ <;>
         (simp only [chClosed, decide_eq_true_eq] at h1; have := (hc _ h1).1; rw [hd] at this; cases this))
    | (simp_all [chClosed])

/-- a closed channel has been made closed by some Close call -/
theorem ex_closer (s : State) (h : Reach s) : chClosed s.closes s.ch = true → ∃ w, closedBy (s.pc w) = true := by
  induction h with
  | init => simp [init, chClosed]
  | call s t op hr hi ih =>
    intro he
    obtain ⟨w, hw⟩ := ih (by simpa [State.setPc] using he)
    refine ⟨w, ?_⟩
    have : w ≠ t := by intro h; subst h; simp [hi, closedBy] at hw
    simp [State.setPc, this, hw]
  | step s s' t hr hs ih =>
    intro he'
    by_cases he : chClosed s.closes s.ch = true
    · obtain ⟨w, hw⟩ := ih he
      by_cases hwt : w = t
      · subst hwt; exact ⟨w, closedBy_step s s' w hs hw⟩
      · exact ⟨w, by rw [step_pc_other s s' t w hs hwt]; exact hw⟩
    · exact ⟨t, closed_rise s s' t (reach_inv s hr) hs (by simpa using he) he'⟩

theorem reach_exec (s : State) (h : Reach s) (as : List Act) : Reach (exec s as) := by
  induction as generalizing s with
  | nil => exact h
  | cons a as ih =>
    cases a with
    | call t c =>
      simp only [exec]
      split
      · exact ih _ (Reach.call s t c h (by assumption))
      · exact ih _ h
    | step t =>
      simp only [exec]
      split
      · exact ih _ (Reach.step s _ t h (by assumption))
      · exact ih _ h

end Drpc.Chan
