import Drpc.Lemmas.ManagerSysProfiles
/-
  The fin flag of a stream: stable along every step of an execution without re-used ids, and already set when
  `waitForPreviousStream` reports `prev.done` for it.
-/
set_option linter.unusedSimpArgs false
set_option linter.unusedVariables false
namespace Drpc.Manager.Sys
open Drpc.Manager

/-- one thread step keeps every set fin flag (the only step that could clear one, `.nNew` re-creating the
    record of an id, is excluded by `FreshStep`: the record of an unused id has no flag set) -/
theorem fin_stable_step {soft : Bool} {s s' : St} {t : Tid} {ch : Nat} (h : ReachF soft s)
    (hs : step s t ch = some s') (hf : FreshStep s t) {p : Sid} (hp : (s.sh.strm p).fin = true) :
    (s'.sh.strm p).fin = true := by
  obtain ⟨sh', p', htr, rfl⟩ := step_tr hs
  exact (tr_le (safe_reachF h).loc rfl hf htr).fin p hp

theorem fin_stable_env {s s' : St} {e : Env} (hs : envStep s e = some s') {p : Sid}
    (hp : (s.sh.strm p).fin = true) : (s'.sh.strm p).fin = true := by
  obtain ⟨t, sh', p', htr, rfl⟩ := env_tr hs
  exact (etr_le htr).fin p hp

/-- the only step that reaches `.aEvPrevDone c p` has seen `prev.IsFinished()` / `<-prev.Finished()` -/
theorem tr_to_prevDone {s : St} {t : Tid} {q : PC} {sh' : Sh} {p' : PC} {c : Call} {p : Sid}
    (h : Tr s t q sh' p') (hp' : p' = .aEvPrevDone c p) : (s.sh.strm p).fin = true ∧ sh' = s.sh := by
  cases h
  all_goals first
    | (cases hp'; done)
    | (exfalso; revert hp'; rename_i k; cases k <;> simp [afterTerminate]; done)
    | (exfalso; revert hp'; rename_i k _; cases k <;> simp [afterTerminate]; done)
    | (exfalso; revert hp'; rename_i k _; rename_i r; cases k <;> simp [afterCancel]; done)
    | skip
  case aPrevChkFin c' q' hfin => cases hp'; exact ⟨hfin, rfl⟩
  case aPrevSelFin c' q' hfin => cases hp'; exact ⟨hfin, rfl⟩
  case nEvRetract k sid => exfalso; revert hp'; cases k <;> simp [failHolding]

theorem pcEv_prevDone {q : PC} {p : Sid} (h : pcEv q = some (.prevDone p)) : ∃ c, q = .aEvPrevDone c p := by
  cases q <;> simp [pcEv] at h
  case rDisp pk c => split at h <;> (try split at h) <;> cases h
  case aEvPrevDone c x => subst h; exact ⟨c, rfl⟩

/-- `prev.done p` is reported, and about to be reported, only for a finished stream -/
structure PrevFin (s : St) : Prop where
  atEv : ∀ t c p, s.pc t = .aEvPrevDone c p → (s.sh.strm p).fin = true
  inTrace : ∀ p, Ev.prevDone p ∈ s.sh.trace → (s.sh.strm p).fin = true

theorem prevFin_reachF {soft : Bool} {s : St} (h : ReachF soft s) : PrevFin s := by
  induction h with
  | init =>
    refine ⟨?_, ?_⟩
    · intro t c p hp
      rcases init_pc soft t with h | h | h <;> rw [h] at hp <;> cases hp
    · intro p hp; cases hp
  | @step s0 s1 t ch hr hs hf ih =>
    obtain ⟨sh', p', htr, rfl⟩ := step_tr hs
    have hle := tr_le (safe_reachF hr).loc rfl hf htr
    refine ⟨?_, ?_⟩
    · intro u c p hu
      rw [upd_pc] at hu
      split at hu
      · obtain ⟨hfin, rfl⟩ := tr_to_prevDone htr hu
        exact hfin
      · exact hle.fin p (ih.atEv u c p hu)
    · intro p hp
      simp only [upd_sh] at hp ⊢
      rw [tr_trace htr, List.mem_append] at hp
      rcases hp with hp | hp
      · exact hle.fin p (ih.inTrace p hp)
      · cases he : pcEv (s0.pc t) with
        | none => rw [he] at hp; cases hp
        | some e =>
          rw [he] at hp
          simp only [Option.toList, List.mem_singleton] at hp
          subst hp
          obtain ⟨c, hc⟩ := pcEv_prevDone he
          exact hle.fin p (ih.atEv t c p hc)
  | @env s0 s1 e hr hs _ ih =>
    obtain ⟨t, sh', p', htr, rfl⟩ := env_tr hs
    have hle := etr_le htr
    refine ⟨?_, ?_⟩
    · intro u c p hu
      apply hle.fin p
      rw [upd_pc] at hu
      split at hu
      · rename_i hut
        subst hut
        cases htr <;> first | (cases hu; done) | exact ih.atEv _ c p hu
      · exact ih.atEv u c p hu
    · intro p hp
      simp only [upd_sh] at hp ⊢
      rw [etr_trace htr] at hp
      exact hle.fin p (ih.inTrace p hp)

end Drpc.Manager.Sys
