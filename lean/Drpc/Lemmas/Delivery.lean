import Drpc.Lemmas.Reader
import Drpc.Lemmas.Roundtrip
/-
  Helper lemmas for C01 / C05 (pure data path): what `SplitN` + `AppendFrame` put on the wire is
  exactly what `drain` (the reader's parse-and-reassemble loop) gives back.

  * `assemble_fresh_*`, `assemble_same_*`: `assembleStep` on the first / a following frame of a packet
  * `drain_split_cont`, `drain_split_fresh`: one packet (any payload, any split size), one frame at
    a time by `splitFrames.induct`, reader state generalised
  * `encodeAll`, `Sendable`, `endId`, `drain_encodeAll`: a batch of packets followed by arbitrary bytes
  * `assemble_emit_done`, `CompletedBy`, `drain_emitted_done`: packets are only emitted at done frames
  * `drain_cut`: cutting an accepted stream anywhere yields a prefix and no ProtocolError
-/
namespace Drpc

theorem idLess_false_of_idLe {rid : U64 × U64} {s m : U64} (h : idLe rid (s, m)) :
    idLess s m rid.1 rid.2 = false := by
  cases hb : idLess s m rid.1 rid.2 with
  | false => rfl
  | true =>
    have := (idLess_iff s m rid.1 rid.2).mp hb
    unfold idLe idLt at *; simp at *; omega

theorem idLe_refl (a : U64 × U64) : idLe a a := Or.inr ⟨rfl, rfl⟩

theorem assemble_fresh_cont {mx : Nat} {rid : U64 × U64} {fr : Frame}
    (hle : idLe rid (fr.sid, fr.mid)) (hsz : fr.data.length ≤ mx) (hd : fr.done = false) :
    assembleStep mx rid none fr = .cont (fr.sid, fr.mid) ⟨fr.data, fr.kind, fr.control⟩ := by
  unfold assembleStep
  simp [idLess_false_of_idLe hle, hd, Nat.not_lt.mpr hsz]

theorem assemble_fresh_emit {mx : Nat} {rid : U64 × U64} {fr : Frame}
    (hle : idLe rid (fr.sid, fr.mid)) (hsz : fr.data.length ≤ mx) (hd : fr.done = true) :
    assembleStep mx rid none fr =
      .emit ⟨fr.data, fr.sid, fr.mid, fr.kind, fr.control⟩ (fr.sid, fr.mid + 1#64) := by
  unfold assembleStep
  simp [idLess_false_of_idLe hle, hd, Nat.not_lt.mpr hsz]

theorem assemble_same_cont {mx : Nat} {rid : U64 × U64} {c : Cur} {fr : Frame}
    (hid : rid = (fr.sid, fr.mid)) (hk : fr.kind = c.kind) (hsz : (c.data ++ fr.data).length ≤ mx) (hd : fr.done = false) :
    assembleStep mx rid (some c) fr =
      .cont (fr.sid, fr.mid) ⟨c.data ++ fr.data, c.kind, c.control || fr.control⟩ := by
  subst hid
  unfold assembleStep
  have hl : idLess fr.sid fr.mid fr.sid fr.mid = false := idLess_false_of_idLe (idLe_refl _)
  have hsz' : ¬ (mx < c.data.length + fr.data.length) := by simpa using Nat.not_lt.mpr hsz
  simp [hl, hk, hd, hsz']

theorem assemble_same_emit {mx : Nat} {rid : U64 × U64} {c : Cur} {fr : Frame}
    (hid : rid = (fr.sid, fr.mid)) (hk : fr.kind = c.kind) (hsz : (c.data ++ fr.data).length ≤ mx) (hd : fr.done = true) :
    assembleStep mx rid (some c) fr =
      .emit ⟨c.data ++ fr.data, fr.sid, fr.mid, c.kind, c.control || fr.control⟩
        (fr.sid, fr.mid + 1#64) := by
  subst hid
  unfold assembleStep
  have hl : idLess fr.sid fr.mid fr.sid fr.mid = false := idLess_false_of_idLe (idLe_refl _)
  have hsz' : ¬ (mx < c.data.length + fr.data.length) := by simpa using Nat.not_lt.mpr hsz
  simp [hl, hk, hd, hsz']

/-- continuation of a packet whose first frames (payload `pre`) were already consumed -/
theorem drain_split_cont (mx : Nat) (sid mid : U64) (kind : Byte) (control : Bool) (m : Nat)
    (hk : kind.toNat < 64) (data : Bytes) :
    ∀ (pre rest : Bytes), data.length < 2^64 → (pre ++ data).length ≤ mx →
    drain mx (sid, mid) (some ⟨pre, kind, control⟩)
        ((splitFrames sid mid kind control m data).flatMap appendFrame ++ rest) =
      (⟨pre ++ data, sid, mid, kind, control⟩ :: (drain mx (sid, mid + 1#64) none rest).1,
        (drain mx (sid, mid + 1#64) none rest).2) := by
  induction data using splitFrames.induct (m := m) with
  | case1 data h ih =>
    intro pre rest hl hmx
    rw [splitFrames]
    simp only [h, and_self, ↓reduceDIte, List.flatMap_cons, List.append_assoc]
    have hlt : (List.take m data).length ≤ data.length := by simp [List.length_take]; omega
    rw [drain_ok (frame_roundtrip_aux _ _ hk (by simp only; omega))]
    rw [assemble_same_cont (rid := (sid, mid)) (c := ⟨pre, kind, control⟩) rfl rfl
      (by simp only [List.length_append] at hmx ⊢; omega) rfl]
    simp only [Bool.or_self]
    have := ih (pre ++ List.take m data) rest (by simp [List.length_drop]; omega)
      (by simpa [List.append_assoc, List.take_append_drop] using hmx)
    simpa [List.append_assoc, List.take_append_drop] using this
  | case2 data h =>
    intro pre rest hl hmx
    rw [splitFrames]
    simp only [h, ↓reduceDIte, List.flatMap_cons, List.flatMap_nil, List.append_nil]
    rw [drain_ok (frame_roundtrip_aux _ _ hk hl)]
    rw [assemble_same_emit (rid := (sid, mid)) (c := ⟨pre, kind, control⟩) rfl rfl hmx rfl]
    simp only [Bool.or_self]

/-- a whole packet arriving at a reader that is between packets -/
theorem drain_split_fresh (mx : Nat) (rid : U64 × U64) (sid mid : U64) (kind : Byte) (control : Bool)
    (m : Nat) (hk : kind.toNat < 64) (data rest : Bytes) (hl : data.length < 2^64)
    (hmx : data.length ≤ mx) (hle : idLe rid (sid, mid)) :
    drain mx rid none ((splitFrames sid mid kind control m data).flatMap appendFrame ++ rest) =
      (⟨data, sid, mid, kind, control⟩ :: (drain mx (sid, mid + 1#64) none rest).1,
        (drain mx (sid, mid + 1#64) none rest).2) := by
  rw [splitFrames]
  split
  · rename_i h
    simp only [List.flatMap_cons, List.append_assoc]
    have hlt : (List.take m data).length ≤ data.length := by simp [List.length_take]; omega
    rw [drain_ok (frame_roundtrip_aux _ _ hk (by simp only; omega))]
    rw [assemble_fresh_cont (by exact hle) (by simp only; omega) rfl]
    simp only
    have := drain_split_cont mx sid mid kind control m hk (data.drop m) (data.take m) rest
      (by simp [List.length_drop]; omega) (by simpa [List.take_append_drop] using hmx)
    simpa [List.take_append_drop] using this
  · simp only [List.flatMap_cons, List.flatMap_nil, List.append_nil]
    rw [drain_ok (frame_roundtrip_aux _ _ hk hl)]
    rw [assemble_fresh_emit (by exact hle) hmx rfl]

/-! ### a batch of packets -/

/-- what `n` packets put on the wire: each is split (`SplitN` with split size `n`), every frame is
    appended to the stream (`AppendFrame`) -/
def encodeAll (n : Int) (pkts : List Packet) : Bytes :=
  (pkts.flatMap (splitN · n)).flatMap appendFrame

theorem encodeAll_nil (n : Int) : encodeAll n [] = [] := rfl

theorem encodeAll_cons (n : Int) (p : Packet) (ps : List Packet) :
    encodeAll n (p :: ps) = (splitN p n).flatMap appendFrame ++ encodeAll n ps := by
  simp [encodeAll, List.flatMap_cons, List.flatMap_append]

theorem encodeAll_append (n : Int) (a b : List Packet) :
    encodeAll n (a ++ b) = encodeAll n a ++ encodeAll n b := by
  simp [encodeAll, List.flatMap_append]

/-- The ids a sender may use towards a reader whose watermark is `rid`: the first is not below the
    watermark and they strictly increase (lexicographically, as unsigned numbers — `ID.Less`).
    No condition on message id 2^64−1 is needed: after it the reader's watermark wraps to (sid, 0)
    (C09 `ids_wrap_counterexample`), but a strictly larger id then has a larger stream id, which is
    still not below the wrapped watermark. -/
def Sendable (rid : U64 × U64) (pkts : List Packet) : Prop :=
  (∀ p ∈ pkts.head?, idLe rid (p.sid, p.mid)) ∧
  List.Pairwise (fun a b => idLt (a.sid, a.mid) (b.sid, b.mid)) pkts

instance (a b : U64 × U64) : Decidable (idLt a b) := by unfold idLt; exact inferInstance
instance (a b : U64 × U64) : Decidable (idLe a b) := by unfold idLe; exact inferInstance
instance (rid : U64 × U64) (pkts : List Packet) : Decidable (Sendable rid pkts) := by
  unfold Sendable; exact inferInstance

/-- the reader's watermark after the batch: the id after the last packet -/
def endId (rid : U64 × U64) (pkts : List Packet) : U64 × U64 :=
  match pkts.getLast? with
  | none => rid
  | some p => (p.sid, p.mid + 1#64)

theorem endId_nil (rid : U64 × U64) : endId rid [] = rid := rfl

theorem endId_cons (rid : U64 × U64) (p : Packet) (ps : List Packet) :
    endId rid (p :: ps) = endId (p.sid, p.mid + 1#64) ps := by
  cases ps with
  | nil => rfl
  | cons q qs =>
    simp only [endId, List.getLast?_cons_cons]
    cases hg : (q :: qs).getLast? with
    | none => simp at hg
    | some r => rfl

/-- no-wrap successor (with `endId`: the watermark after a batch whose last message id is not 2^64−1
    is the numeric successor of that id) -/
theorem toNat_succ_of_ne_max {x : U64} (h : x.toNat ≠ 2^64 - 1) : (x + 1#64).toNat = x.toNat + 1 := by
  have := x.isLt
  simp only [BitVec.toNat_add, BitVec.toNat_ofNat]
  omega

theorem sendable_cons {rid : U64 × U64} {p : Packet} {ps : List Packet}
    (h : Sendable rid (p :: ps)) :
    idLe rid (p.sid, p.mid) ∧ Sendable (p.sid, p.mid + 1#64) ps := by
  obtain ⟨h1, h2⟩ := h
  rw [List.pairwise_cons] at h2
  refine ⟨h1 p (by simp), ?_, h2.2⟩
  intro q hq
  have hq' : q ∈ ps := List.mem_of_mem_head? hq
  have := h2.1 q hq'
  have hp := p.mid.isLt
  have hq2 := q.mid.isLt
  unfold idLe idLt at *
  simp only [BitVec.toNat_add, BitVec.toNat_ofNat] at this ⊢
  omega

theorem drain_encodeAll (mx : Nat) (n : Int) : ∀ (pkts : List Packet) (rid : U64 × U64) (rest : Bytes),
    Sendable rid pkts →
    (∀ p ∈ pkts, p.kind.toNat < 64) → (∀ p ∈ pkts, p.data.length < 2^64) →
    (∀ p ∈ pkts, p.data.length ≤ mx) →
    drain mx rid none (encodeAll n pkts ++ rest) =
      (pkts ++ (drain mx (endId rid pkts) none rest).1, (drain mx (endId rid pkts) none rest).2) := by
  intro pkts
  induction pkts with
  | nil => intro rid rest _ _ _ _; simp [encodeAll_nil, endId_nil]
  | cons p ps ih =>
    intro rid rest hs hk hl hmx
    obtain ⟨hle, hs'⟩ := sendable_cons hs
    rw [encodeAll_cons, List.append_assoc, endId_cons]
    unfold splitN
    rw [drain_split_fresh mx rid p.sid p.mid p.kind p.control _ (hk p (by simp)) p.data _
      (hl p (by simp)) (hmx p (by simp)) hle]
    rw [ih _ rest hs' (fun q hq => hk q (by simp [hq])) (fun q hq => hl q (by simp [hq]))
      (fun q hq => hmx q (by simp [hq]))]
    cases p; rfl


/-! ### emission only at done frames; cutting a stream -/


/-- a packet is only ever emitted by a frame marked done; its id is that frame's id and its
    payload ends with that frame's payload -/
theorem assemble_emit_done {mx rid cur fr pkt rid'} (h : assembleStep mx rid cur fr = .emit pkt rid') :
    fr.done = true ∧ pkt.sid = fr.sid ∧ pkt.mid = fr.mid ∧ ∃ d, pkt.data = d ++ fr.data := by
  unfold assembleStep at h
  split at h
  · cases h
  · simp only [] at h
    split at h
    · cases h
    · split at h
      · cases h
      · split at h
        · rename_i hd
          cases h; exact ⟨hd, rfl, rfl, _, rfl⟩
        · cases h

/-- `q` was completed by a done frame that is present in the byte string `p`: some suffix of `p`
    starts with a frame marked done that carries `q`'s id and the tail of `q`'s payload -/
def CompletedBy (q : Packet) (p : Bytes) : Prop :=
  ∃ (pre s rem : Bytes) (fr : Frame) (d : Bytes), p = pre ++ s ∧ parseFrame s = .ok rem fr ∧
    fr.done = true ∧ q.sid = fr.sid ∧ q.mid = fr.mid ∧ q.data = d ++ fr.data

theorem CompletedBy.lift {q : Packet} {rem : Bytes} (pp : Bytes) (h : CompletedBy q rem) :
    CompletedBy q (pp ++ rem) := by
  obtain ⟨pre, s, rem', fr', d, e, h⟩ := h
  exact ⟨pp ++ pre, s, rem', fr', d, by rw [e, List.append_assoc], h⟩

/-- every packet `drain` returns was completed by a done frame that is present in the input -/
theorem drain_emitted_done (mx : Nat) : ∀ (n : Nat) (p : Bytes) (rid : U64 × U64) (cur : Option Cur),
    p.length ≤ n → ∀ q ∈ (drain mx rid cur p).1, CompletedBy q p := by
  intro n
  induction n with
  | zero =>
    intro p rid cur hn
    have : p = [] := List.length_eq_zero_iff.mp (by omega)
    subst this
    have hs : parseFrame ([] : Bytes) = .short := by simp [parseFrame]
    simp [drain_short hs]
  | succ n ih =>
    intro p rid cur hn
    cases hp : parseFrame p with
    | short => simp [drain_short hp]
    | err => simp [drain_err hp]
    | panic => exact absurd hp (parse_no_panic p)
    | ok rem fr =>
      have hlen := parse_ok_length hp
      obtain ⟨pp, hpp, _, _⟩ := parse_ok_prefix hp
      rw [drain_ok hp]
      cases hs : assembleStep mx rid cur fr with
      | error => simp
      | cont rid' c =>
        simp only
        intro q hq
        rw [hpp]
        exact (ih rem rid' (some c) (by omega) q hq).lift pp
      | emit pkt rid' =>
        simp only
        intro q hq
        simp only [List.mem_cons] at hq
        rcases hq with rfl | hq
        · obtain ⟨h1, h2, h3, d, h4⟩ := assemble_emit_done hs
          exact ⟨[], p, rem, fr, d, rfl, hp, h1, h2, h3, h4⟩
        · rw [hpp]
          exact (ih rem rid' none (by omega) q hq).lift pp

/-- A stream that the reader accepts (no error, nothing oversized left over) is also accepted when
    cut anywhere: the cut stream yields a prefix of the packets and ends "need more data" with a
    partial frame below the early-overflow threshold — so the reader then reports the transport's
    own error, never a ProtocolError. -/
theorem drain_cut (mx final : Nat) (a b : Bytes) (rid : U64 × U64) (cur : Option Cur)
    {pk : List Packet} {rid' : U64 × U64} {cur' : Option Cur} {r' : Bytes}
    (h : drain mx rid cur (a ++ b) = (pk, .stuck rid' cur' r')) (hr : r'.length ≤ mx + maxHeader) :
    (∃ more, pk = (drain mx rid cur a).1 ++ more) ∧
    refEnd mx final (drain mx rid cur a).2 = .transport final := by
  rw [drain_append mx b _ a rid cur (Nat.le_refl _)] at h
  cases hd : drain mx rid cur a with
  | mk pk1 e1 =>
    rw [hd] at h
    cases e1 with
    | failed => simp [extendDrain] at h
    | stuck rid1 cur1 r1 =>
      have hs1 := drain_stuck_short mx _ _ _ _ _ _ _ _ (Nat.le_refl _) hd
      simp only [extendDrain, Prod.mk.injEq] at h
      obtain ⟨h1, h2⟩ := h
      refine ⟨⟨_, h1.symm⟩, ?_⟩
      simp only [refEnd]
      rw [if_neg]
      intro hbig
      cases hp : parseFrame (r1 ++ b) with
      | short =>
        rw [drain_short hp] at h2
        simp only [DrainEnd.stuck.injEq] at h2
        have : (r1 ++ b).length = r'.length := by rw [h2.2.2]
        simp at this; omega
      | err => rw [drain_err hp] at h2; cases h2
      | panic => exact absurd hp (parse_no_panic _)
      | ok rem fr =>
        have hb := short_prefix_bound hs1 hp
        by_cases hov : fr.data.length > mx
        · rw [drain_ok hp, assemble_oversize hov] at h2; cases h2
        · unfold maxHeader at hbig; omega

end Drpc
