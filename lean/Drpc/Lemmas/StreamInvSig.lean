import Drpc.Lemmas.StreamInv
/-
  Invariants of the atomic-step stream model, part 2: the signals (`send`, `recv`, `term`, `fin`,
  the context signal and the `fin` token), "finished is final" (the store-buffering argument of
  DESIGN C07 / A.6) and "terminated and idle implies finished".
-/
namespace Drpc.Stream
attribute [local simp] firstSec flushSec getInflight getOnce relSh Option.join_eq_some_iff Option.join_eq_none_iff

/-! ### classifiers -/

/-- has read `term` set in `checkFinished` (and possibly `write.held = 0`) -/
def atCf23 : PC → Bool
  | .cf2 _ | .cf3 _ => true
  | _ => false
/-- has read `term` set and `write.held = 0` in `checkFinished`; next: read `read.held`, `fin.Set` -/
def atCf3 : PC → Bool
  | .cf3 _ => true
  | _ => false
/-- a terminal call that holds `s.mu` and has found the stream not terminated, before it owns
    `s.write` with `held = 1` -/
def preW : PC → Bool
  | .lockWmu _ | .heldWmu _ => true
  | _ => false

/-- program counters from which the thread will still append a frame or start / complete a
    transport write whatever the signals say: a transport write in flight, the unchecked write
    section of a terminal call (`sendPacketLocked`), and everything of a terminal call between its
    decision to terminate (under `s.mu`, stream not terminated) and that section. -/
def danger : PC → Bool
  | .lockWmu _ | .heldWmu _ | .unlockMu _ | .writing .. => true
  | .pre c | .hPClose c | .tSet _ c | .tClose _ c => wCall c
  | .cf1 k | .cf2 k | .cf3 k | .cfEnd k => kW k
  | .frame sec => !sec.checks
  | .flush sec => sec.flush.isUnchecked
  | _ => false

/-- still has to run (the rest of) a `checkFinished` after the last change of `term`, `write.held`
    or `read.held` it is responsible for -/
def obligated : PC → Bool
  | .marshal .. | .unlockMu _ | .frame _ | .writing .. | .flush _ | .ret .. | .unlockW .. => true
  | .chkTerm c => c.isSendCancel
  | .pre c | .hPClose c | .tSet _ c => wCall c
  | .tClose .. => true
  | .cf1 _ | .cf2 _ | .cf3 _ => true
  | .cfEnd k => kW k
  | .get _ | .unmarshal .. | .pdone _ | .relR _ | .unlockR _ => true
  | _ => false

/-- the complement of `danger`: from here the thread appends no frame and starts no transport write
    unless it first reads `send` and `term` unset -/
def harmless (p : PC) : Bool := !danger p

gen_ctor_simp atCf23
gen_ctor_simp atCf3
gen_ctor_simp preW
gen_ctor_simp danger
gen_ctor_simp obligated

@[simp] theorem atCf23_afterTerm (c : Call) : atCf23 (afterTerm c) = false := by cases c <;> rfl
@[simp] theorem atCf3_afterTerm (c : Call) : atCf3 (afterTerm c) = false := by cases c <;> rfl
@[simp] theorem preW_afterTerm (c : Call) : preW (afterTerm c) = false := by cases c <;> rfl
@[simp] theorem danger_afterTerm (c : Call) : danger (afterTerm c) = wCall c := by cases c <;> rfl
@[simp] theorem obligated_afterTerm (c : Call) : obligated (afterTerm c) = wCall c := by cases c <;> rfl

theorem atCf3_atCf23 (p : PC) (h : atCf3 p = true) : atCf23 p = true := by cases p <;> simp_all
theorem preW_holdsMu (p : PC) (h : preW p = true) : holdsMu p = true := by cases p <;> simp_all
theorem danger_cases (p : PC) (h : danger p = true) : wHeldSec p = true ∨ preW p = true := by
  cases p <;> simp_all
theorem wHeldSec_obligated (p : PC) (h : wHeldSec p = true) : obligated p = true := by
  cases p <;> simp_all
theorem rHeldSec_obligated (p : PC) (h : rHeldSec p = true) : obligated p = true := by
  cases p <;> simp_all

/-! ### generic: two-thread exclusion, existence of a witness -/

theorem excl_step {c1 c2 : PC → Bool} {s : St} {t : Tid} {sh' : Sh} {p' : PC}
    (ih : ∀ a b, c1 (s.pc a) = true → c2 (s.pc b) = true → False)
    (h1 : c1 p' = true → c1 (s.pc t) = true ∨ NoOther c2 s t)
    (h2 : c2 p' = true → c2 (s.pc t) = true ∨ NoOther c1 s t)
    (h3 : c1 p' = true → c2 p' = true → False) :
    ∀ a b, c1 ((s.upd t sh' p').pc a) = true → c2 ((s.upd t sh' p').pc b) = true → False := by
  intro a b ha hb
  by_cases hat : a = t <;> by_cases hbt : b = t
  · subst hat; subst hbt; rw [upd_pc_self] at ha hb; exact h3 ha hb
  · subst hat; rw [upd_pc_self] at ha; rw [upd_pc_ne _ _ _ _ _ hbt] at hb
    rcases h1 ha with h | h
    · exact ih _ _ h hb
    · rw [h b hbt] at hb; cases hb
  · subst hbt; rw [upd_pc_self] at hb; rw [upd_pc_ne _ _ _ _ _ hat] at ha
    rcases h2 hb with h | h
    · exact ih _ _ ha h
    · rw [h a hat] at ha; cases ha
  · rw [upd_pc_ne _ _ _ _ _ hat] at ha; rw [upd_pc_ne _ _ _ _ _ hbt] at hb; exact ih _ _ ha hb

/-- `P sh → ∃ u, cls (pc u)` -/
theorem ex_step {cls : PC → Bool} {P : Sh → Prop} {s : St} {t : Tid} {sh' : Sh} {p' : PC}
    (ih : P s.sh → ∃ u, cls (s.pc u) = true)
    (h : P sh' → cls p' = true ∨ (∃ u, u ≠ t ∧ cls (s.pc u) = true) ∨ (P s.sh ∧ cls (s.pc t) = false)) :
    P (s.upd t sh' p').sh → ∃ u, cls ((s.upd t sh' p').pc u) = true := by
  intro hP
  rw [upd_sh] at hP
  rcases h hP with h | ⟨u, hu, hc⟩ | ⟨h1, h2⟩
  · exact ⟨t, by simpa using h⟩
  · exact ⟨u, by rw [upd_pc_ne _ _ _ _ _ hu]; exact hc⟩
  · obtain ⟨u, hc⟩ := ih h1
    have hu : u ≠ t := by intro e; subst e; rw [h2] at hc; cases hc
    exact ⟨u, by rw [upd_pc_ne _ _ _ _ _ hu]; exact hc⟩

/-! ### signals -/

theorem step_termSR {s s' : St} {t : Tid} (h : step s t = some s')
    (ih : s.sh.term.isSome = true → s.sh.send.isSome = true ∧ s.sh.recv.isSome = true) :
    s'.sh.term.isSome = true → s'.sh.send.isSome = true ∧ s'.sh.recv.isSome = true := by
  unfold step at h
  pc_cases s t hp =>
    step_explode h hp
    all_goals (simp (config := { contextual := true }) [*])
    all_goals (cases hT : s.sh.term <;> simp_all)

theorem step_cf23 {s s' : St} {t : Tid} (h : step s t = some s')
    (ih : ∀ u, atCf23 (s.pc u) = true → s.sh.term.isSome = true) :
    ∀ u, atCf23 (s'.pc u) = true → s'.sh.term.isSome = true := by
  have iht := ih t
  unfold step at h
  pc_cases s t hp =>
    rw [hp] at iht
    step_explode h hp
    all_goals (simp at iht)
    all_goals (refine loc_step (Q := fun sh => sh.term.isSome = true) ih ?_ ?_)
    all_goals (simp [*])

theorem step_finTerm {s s' : St} {t : Tid} (h : step s t = some s')
    (h23 : ∀ u, atCf23 (s.pc u) = true → s.sh.term.isSome = true)
    (ih : s.sh.fin = true → s.sh.term.isSome = true) :
    s'.sh.fin = true → s'.sh.term.isSome = true := by
  have h23t := h23 t
  unfold step at h
  pc_cases s t hp =>
    rw [hp] at h23t
    step_explode h hp
    all_goals (simp at h23t)
    all_goals (simp (config := { contextual := true }) [*])
    all_goals (cases hf : s.sh.fin <;> simp_all)

theorem step_ctx {s s' : St} {t : Tid} (h : step s t = some s')
    (ih : s.sh.ctxDone = s.sh.fin ∧ s.sh.finTokens = if s.sh.fin then 1 else 0) :
    s'.sh.ctxDone = s'.sh.fin ∧ s'.sh.finTokens = if s'.sh.fin then 1 else 0 := by
  obtain ⟨ih1, ih2⟩ := ih
  unfold step at h
  pc_cases s t hp =>
    step_explode h hp
    all_goals (simp [*])
    all_goals (try (cases hf : s.sh.fin <;> simp_all))

theorem step_preW {s s' : St} {t : Tid} (h : step s t = some s')
    (hmu : LockInv (·.mu) holdsMu s)
    (ih : ∀ u, preW (s.pc u) = true → s.sh.term = none) :
    ∀ u, preW (s'.pc u) = true → s'.sh.term = none := by
  have iht := ih t
  have hoth : holdsMu (s.pc t) = true → NoOther preW s t := fun h1 => (hmu.others h1).mono preW_holdsMu
  unfold step at h
  pc_cases s t hp =>
    rw [hp] at iht hoth
    step_explode h hp
    all_goals (simp at iht hoth)
    all_goals (refine loc_step (Q := fun sh => sh.term = none) ih ?_ ?_)
    all_goals (simp [*])

/-! ### finished is final -/

theorem no_danger_of_idle {s : St} (hw1 : ∀ u, wHeldSec (s.pc u) = true → s.sh.wHeld = true)
    (hpre : ∀ u, preW (s.pc u) = true → s.sh.term = none)
    (h1 : s.sh.wHeld = false) (h2 : s.sh.term.isSome = true) (t : Tid) : NoOther danger s t := by
  intro u _
  cases hd : danger (s.pc u) with
  | false => rfl
  | true =>
    rcases danger_cases _ hd with h | h
    · have := hw1 u h; rw [h1] at this; cases this
    · have := hpre u h; rw [this] at h2; cases h2

theorem step_excl {s s' : St} {t : Tid} (h : step s t = some s')
    (ok : ∀ u, pcOK (s.pc u) = true)
    (hw1 : ∀ u, wHeldSec (s.pc u) = true → s.sh.wHeld = true)
    (hpre : ∀ u, preW (s.pc u) = true → s.sh.term = none)
    (h23 : ∀ u, atCf23 (s.pc u) = true → s.sh.term.isSome = true)
    (ih : ∀ a b, atCf3 (s.pc a) = true → danger (s.pc b) = true → False) :
    ∀ a b, atCf3 (s'.pc a) = true → danger (s'.pc b) = true → False := by
  have okt := ok t
  have hw1t := hw1 t
  have hx1 : s.sh.wHeld = false → s.sh.term.isSome = true → NoOther danger s t :=
    fun h1 h2 => no_danger_of_idle hw1 hpre h1 h2 t
  have hx2 : s.sh.term = none → NoOther atCf3 s t := by
    intro h1 u _
    cases hc : atCf3 (s.pc u) with
    | false => rfl
    | true => have := h23 u (atCf3_atCf23 _ hc); rw [h1] at this; cases this
  have h23t := h23 t
  unfold step at h
  pc_cases s t hp =>
    rw [hp] at okt hw1t h23t
    step_explode h hp
    all_goals (simp at okt hw1t h23t)
    all_goals (refine excl_step ih ?_ ?_ ?_)
    all_goals (simp (config := { contextual := true }) [*])
    all_goals (try grind)

theorem step_dangerFin {s s' : St} {t : Tid} (h : step s t = some s')
    (ok : ∀ u, pcOK (s.pc u) = true)
    (hft : s.sh.fin = true → s.sh.term.isSome = true)
    (hex : ∀ a b, atCf3 (s.pc a) = true → danger (s.pc b) = true → False)
    (ih : ∀ u, danger (s.pc u) = true → s.sh.fin = false) :
    ∀ u, danger (s'.pc u) = true → s'.sh.fin = false := by
  have okt := ok t
  have iht := ih t
  have hext := hex t t
  have hx3 : atCf3 (s.pc t) = true → NoOther danger s t := by
    intro h1 u _
    cases hc : danger (s.pc u) with
    | false => rfl
    | true => exact (hex t u h1 hc).elim
  have hft' : s.sh.term = none → s.sh.fin = false := by
    intro h1; cases hf : s.sh.fin with
    | false => rfl
    | true => have := hft hf; rw [h1] at this; cases this
  unfold step at h
  pc_cases s t hp =>
    rw [hp] at okt iht hext hx3
    step_explode h hp
    all_goals (simp at okt iht hext hx3)
    all_goals (refine loc_step (Q := fun sh => sh.fin = false) ih ?_ ?_)
    all_goals (simp (config := { contextual := true }) [*])
    all_goals (try grind)

theorem step_obligated {s s' : St} {t : Tid} (h : step s t = some s')
    (hw2 : FlagInv (·.wHeld) (·.w) wHeldSec s)
    (hr2 : FlagInv (·.rHeld) (·.r) rHeldSec s)
    (ih : (s.sh.term.isSome = true ∧ s.sh.fin = false) → ∃ u, obligated (s.pc u) = true) :
    (s'.sh.term.isSome = true ∧ s'.sh.fin = false) → ∃ u, obligated (s'.pc u) = true := by
  have hxw : s.sh.wHeld = true → wHeldSec (s.pc t) = true ∨ ∃ u, u ≠ t ∧ obligated (s.pc u) = true := by
    intro h1; obtain ⟨u, _, hu⟩ := hw2 h1
    by_cases e : u = t
    · subst e; exact .inl hu
    · exact .inr ⟨u, e, wHeldSec_obligated _ hu⟩
  have hxr : s.sh.rHeld = true → rHeldSec (s.pc t) = true ∨ ∃ u, u ≠ t ∧ obligated (s.pc u) = true := by
    intro h1; obtain ⟨u, _, hu⟩ := hr2 h1
    by_cases e : u = t
    · subst e; exact .inl hu
    · exact .inr ⟨u, e, rHeldSec_obligated _ hu⟩
  unfold step at h
  pc_cases s t hp =>
    rw [hp] at hxw hxr
    step_explode h hp
    all_goals (simp at hxw hxr)
    all_goals (refine ex_step (P := fun sh => sh.term.isSome = true ∧ sh.fin = false) ih ?_)
    all_goals (simp (config := { contextual := true }) [*])
    all_goals (try grind)

/-! ### environment steps -/

theorem env_cf23 {s s' : St} {e : Env} (h : envStep s e = some s')
    (ih : ∀ u, atCf23 (s.pc u) = true → s.sh.term.isSome = true) :
    ∀ u, atCf23 (s'.pc u) = true → s'.sh.term.isSome = true := by
  env_cases h with t hp hi =>
    refine loc_step (Q := fun sh => sh.term.isSome = true) ih ?_ ?_ <;> simp

theorem env_preW {s s' : St} {e : Env} (h : envStep s e = some s')
    (ih : ∀ u, preW (s.pc u) = true → s.sh.term = none) :
    ∀ u, preW (s'.pc u) = true → s'.sh.term = none := by
  env_cases h with t hp hi =>
    refine loc_step (Q := fun sh => sh.term = none) ih ?_ ?_ <;> simp

theorem env_excl {s s' : St} {e : Env} (h : envStep s e = some s')
    (ih : ∀ a b, atCf3 (s.pc a) = true → danger (s.pc b) = true → False) :
    ∀ a b, atCf3 (s'.pc a) = true → danger (s'.pc b) = true → False := by
  env_cases h with t hp hi =>
    refine excl_step ih ?_ ?_ ?_ <;> simp [hp]

theorem env_dangerFin {s s' : St} {e : Env} (h : envStep s e = some s')
    (ih : ∀ u, danger (s.pc u) = true → s.sh.fin = false) :
    ∀ u, danger (s'.pc u) = true → s'.sh.fin = false := by
  env_cases h with t hp hi =>
    have iht := ih t
    rw [hp] at iht
    simp at iht
    refine loc_step (Q := fun sh => sh.fin = false) ih ?_ ?_ <;> simp [*]

theorem env_obligated {s s' : St} {e : Env} (h : envStep s e = some s')
    (ih : (s.sh.term.isSome = true ∧ s.sh.fin = false) → ∃ u, obligated (s.pc u) = true) :
    (s'.sh.term.isSome = true ∧ s'.sh.fin = false) → ∃ u, obligated (s'.pc u) = true := by
  env_cases h with t hp hi =>
    refine ex_step (P := fun sh => sh.term.isSome = true ∧ sh.fin = false) ih ?_
    simp

/-- environment steps never touch a signal -/
theorem env_signals {s s' : St} {e : Env} (h : envStep s e = some s') :
    s'.sh.send = s.sh.send ∧ s'.sh.recv = s.sh.recv ∧ s'.sh.term = s.sh.term ∧ s'.sh.fin = s.sh.fin ∧
    s'.sh.cancel = s.sh.cancel ∧ s'.sh.ctxDone = s.sh.ctxDone ∧ s'.sh.finTokens = s.sh.finTokens := by
  env_cases h with t hp hi => simp

/-! ### all of it, in every reachable state -/

structure Sigs (s : St) : Prop where
  /-- terminated implies both directions closed -/
  termSR : s.sh.term.isSome = true → s.sh.send.isSome = true ∧ s.sh.recv.isSome = true
  cf23 : ∀ u, atCf23 (s.pc u) = true → s.sh.term.isSome = true
  /-- finished implies terminated -/
  finTerm : s.sh.fin = true → s.sh.term.isSome = true
  /-- the stream context is done exactly when the stream is finished, and the `fin` token was sent
      exactly once iff so -/
  ctx : s.sh.ctxDone = s.sh.fin ∧ s.sh.finTokens = if s.sh.fin then 1 else 0
  preW : ∀ u, preW (s.pc u) = true → s.sh.term = none
  excl : ∀ a b, atCf3 (s.pc a) = true → danger (s.pc b) = true → False
  /-- finished is final -/
  dangerFin : ∀ u, danger (s.pc u) = true → s.sh.fin = false
  /-- terminated and not finished: somebody still has to run `checkFinished` -/
  obligated : (s.sh.term.isSome = true ∧ s.sh.fin = false) → ∃ u, obligated (s.pc u) = true

theorem Sigs.init (o : Opts) : Sigs { opts := o } := by
  constructor <;> simp

theorem Sigs.step {s s' : St} {t : Tid} (h : step s t = some s') (l : Locks s) (i : Sigs s) : Sigs s' :=
  { termSR := step_termSR h i.termSR
    cf23 := step_cf23 h i.cf23
    finTerm := step_finTerm h i.cf23 i.finTerm
    ctx := step_ctx h i.ctx
    preW := step_preW h l.mu i.preW
    excl := step_excl h l.ok l.wHeld1 i.preW i.cf23 i.excl
    dangerFin := step_dangerFin h l.ok i.finTerm i.excl i.dangerFin
    obligated := step_obligated h l.wHeld2 l.rHeld2 i.obligated }

theorem Sigs.env {s s' : St} {e : Env} (h : envStep s e = some s') (i : Sigs s) : Sigs s' := by
  obtain ⟨h1, h2, h3, h4, h5, h6, h7⟩ := env_signals h
  exact
  { termSR := by rw [h1, h2, h3]; exact i.termSR
    cf23 := env_cf23 h i.cf23
    finTerm := by rw [h3, h4]; exact i.finTerm
    ctx := by rw [h4, h6, h7]; exact i.ctx
    preW := env_preW h i.preW
    excl := env_excl h i.excl
    dangerFin := env_dangerFin h i.dangerFin
    obligated := env_obligated h i.obligated }

theorem Sigs.spawn {s : St} {t : Tid} {c : Call} (hd : ∃ r, s.pc t = .done r) (i : Sigs s) :
    Sigs (s.setPc t (.start c)) := by
  obtain ⟨r, hp⟩ := hd
  rw [setPc_eq_upd]
  exact
  { termSR := by simpa using i.termSR
    cf23 := loc_step (Q := fun sh => sh.term.isSome = true) i.cf23 (by simp) (by simp)
    finTerm := by simpa using i.finTerm
    ctx := by simpa using i.ctx
    preW := loc_step (Q := fun sh => sh.term = none) i.preW (by simp) (by simp)
    excl := excl_step i.excl (by simp) (by simp) (by simp)
    dangerFin := loc_step (Q := fun sh => sh.fin = false) i.dangerFin (by simp) (by simp)
    obligated := ex_step (P := fun sh => sh.term.isSome = true ∧ sh.fin = false) i.obligated
      (by simp (config := { contextual := true }) [hp]) }

theorem reach_sigs {s : St} (h : Reach s) : Sigs s := by
  induction h with
  | init o => exact Sigs.init o
  | step hr hs ih => exact ih.step hs (reach_locks hr)
  | env _ he ih => exact ih.env he
  | spawn _ hd ih => exact ih.spawn hd

end Drpc.Stream
