import Drpc.Lemmas.ManagerSysLive
/-
  manageStream's own fin-token send.  Since fix 110f4d6 (soft cancel releases the semaphore only after
  `<-m.sfin`) manageStream holds the stream semaphore for as long as it works on a stream, in both cancel
  modes; so, on a manager that is not terminated, no other stream can owe or have sent a token when
  manageStream sends the token of its own stream: the channel is empty.
-/
set_option linter.unusedSimpArgs false
set_option linter.unusedVariables false
namespace Drpc.Manager.Sys
open Drpc.Manager

theorem holds_of_live {s : St} {u : Tid} {x : Sid} (h1 : nSid (s.pc u) = some x)
    (h2 : ∀ k y, s.pc u = .nOffered k y → s.sh.streamsCh = some y) : holds s.sh (s.pc u) = true := by
  cases hp : s.pc u <;> rw [hp] at h1 <;> simp [nSid] at h1 <;> try rfl
  rename_i k y
  simp [holds, h2 k y hp]

/-- while manageStream works on a stream (before it has received a token) it holds the semaphore -/
theorem holds_of_mgrPre {s : St} (hs : Safe s) {u : Tid} {m : Sid} (h : mgrPre (s.pc u) = some m)
    (hr : ∀ sid, s.pc u ≠ .mRecv sid false) : holds s.sh (s.pc u) = true := by
  have hu := mgrTid_of_mgrPre hs.typ h
  subst hu
  have hrole := (hs.typ mgrTid).1
  cases hp : s.pc mgrTid <;> rw [hp] at h hrole hr <;> simp [mgrPre, mgrSid] at h <;> try rfl
  case xCancel x k | xTok x k =>
    cases k <;> simp_all [holds, CK.hold, CK.role]
  case mRecv x rel =>
    cases rel
    · exact absurd rfl (hr x)
    · rfl
  all_goals (rename_i k; cases k <;> simp_all [holds, TK.hold, TK.sid?])

/-- on a manager that is not terminated, manageStream's own fin-token send finds the channel empty -/
theorem token_send_free {s : St} {f c ab : List Sid} (hs : Safe s) (ha : Acc s f c ab)
    (hterm : s.sh.term = false) (htok : tokPc (s.pc mgrTid) ≠ 0) : s.sh.sfin = false := by
  have hrole := (hs.typ mgrTid).1
  obtain ⟨x, hpre, hhold⟩ : ∃ x, mgrPre (s.pc mgrTid) = some x ∧ holds s.sh (s.pc mgrTid) = true := by
    rcases tokPc_pos htok with ⟨b, hp⟩ | ⟨x, k, hp⟩ | ⟨x, b, hp⟩
    · rw [hp] at hrole; have := hrole _ rfl; simp [tidRole, readerTid, mgrTid] at this
    · rw [hp] at hrole
      have hkr : k.role = .mg := by
        have := hrole _ rfl
        simpa [tidRole, readerTid, mgrTid] using this.symm
      have hpre : mgrPre (s.pc mgrTid) = some x := by rw [hp]; simp [mgrPre, mgrSid, hkr]
      exact ⟨x, hpre, holds_of_mgrPre hs hpre (by intro sid h; rw [hp] at h; cases h)⟩
    · have hpre : mgrPre (s.pc mgrTid) = some x := by rw [hp]; rfl
      exact ⟨x, hpre, by rw [hp]; rfl⟩
  cases hsf : s.sh.sfin with
  | false => rfl
  | true =>
    exfalso
    have hT : 2 ≤ tokT s := by
      have h1 : 1 ≤ tokPc (s.pc mgrTid) := Nat.pos_of_ne_zero htok
      unfold tokT
      rw [hsf]; simp; omega
    have h1 := ha.t.a1
    have hsub : ∀ z ∈ f, z ∈ c ++ [x] := by
      intro z hz
      have hmade := made_of_fin hs ((ha.t.a2.2 z).1 hz)
      rcases ha.b.d1 z hmade with h | ⟨u, hu⟩ | h | ⟨u, hu1, hu2⟩
      · simp [h]
      · have := mgrTid_of_mgrPre hs.typ hu
        subst this
        rw [hpre] at hu; cases hu; simp
      · have := ha.b.e1 z h; rw [hterm] at this; cases this
      · exfalso
        have := hs.sem.uniq u mgrTid (holds_of_live hu1 hu2) hhold
        subst this
        rcases tokPc_pos htok with ⟨b, hp⟩ | ⟨x', k, hp⟩ | ⟨x', b, hp⟩ <;> rw [hp] at hu1 <;> cases hu1
    have := nodup_subset_length ha.t.a2.1 hsub
    simp only [List.length_append, List.length_singleton] at this
    omega

end Drpc.Manager.Sys
