import Drpc.Lemmas.HttpGrpcWeb
import Drpc.Lemmas.HttpUnescape
/- Lemmas about the Twirp stream, the status table, the request size rules and the protocol table. -/
namespace Drpc.Http
open Drpc

/-! ### Twirp: one buffered response -/

theorem runSends_tw_closed (json stop : Bool) : ∀ (msgs : List Bytes) (st : TwirpSt),
    st.sendErr = some .eof → (runSends (twSend json) stop st msgs).2.1 = st := by
  intro msgs
  induction msgs with
  | nil => intro st _; simp [runSends]
  | cons m msgs ih =>
    intro st h
    have e : twSend json st m = (.eof, st) := by simp [twSend, h]
    simp only [runSends, e]
    cases stop with
    | true => simp
    | false => simp [ih st h]

/-- after the handler's sends the buffered response is the FIRST message; later sends never
    overwrite it -/
theorem runSends_tw_response (json stop : Bool) (m : Bytes) (msgs : List Bytes) :
    (runSends (twSend json) stop {} (m :: msgs)).2.1.response = marshal json m := by
  have e : twSend json {} m = (.ok, { response := marshal json m, sendErr := some .eof }) := by
    simp [twSend]
  simp only [runSends, e]
  rw [runSends_tw_closed json stop msgs _ rfl]

theorem runSends_tw_nil (json stop : Bool) :
    (runSends (twSend json) stop {} []).2.1.response = [] := by simp [runSends]

/-- acknowledgements: the first send is accepted, every later one gets io.EOF -/
theorem runSends_tw_acks_closed (json : Bool) : ∀ (msgs : List Bytes) (st : TwirpSt),
    st.sendErr = some .eof →
    (runSends (twSend json) false st msgs).1 = msgs.map (fun _ => SendR.eof) := by
  intro msgs
  induction msgs with
  | nil => intro st _; simp [runSends]
  | cons m msgs ih =>
    intro st h
    have e : twSend json st m = (.eof, st) := by simp [twSend, h]
    simp [runSends, e, ih st h]

theorem lookupB_mem : ∀ (table : List (Bytes × Nat)) (k : Bytes) (v : Nat),
    lookupB k table = some v → (k, v) ∈ table := by
  intro table
  induction table with
  | nil => intro k v h; simp [lookupB] at h
  | cons kv table ih =>
    intro k v h
    obtain ⟨k', v'⟩ := kv
    simp only [lookupB] at h
    split at h
    · rename_i hk; cases h; subst hk; simp
    · have := ih k v h; simp [this]

theorem statusIn_cases (table : List (Bytes × Nat)) (code : Bytes) :
    statusIn table code = 500 ∨ ((code, statusIn table code) ∈ table) := by
  unfold statusIn
  cases h : lookupB code table with
  | none => simp
  | some s =>
    by_cases h0 : s = 0
    · simp [h0]
    · simp only [h0, if_false]; exact Or.inr (lookupB_mem _ _ _ h)

theorem table_no_200 : ∀ kv ∈ twirpStatus, kv.2 ≠ 200 := by decide

theorem statusOf_ne_200 (code : Bytes) : statusOf code ≠ 200 := by
  rcases statusIn_cases twirpStatus code with h | h
  · unfold statusOf; omega
  · exact table_no_200 _ h

/-! ### request size rules -/

theorem twirpRead_ok {mx : Nat} {body d : Bytes} {a : Nat}
    (h : twirpReadP mx (mx + 1) body = (.ok d, a)) : d = body ∧ body.length ≤ mx := by
  unfold twirpReadP at h
  simp only at h
  split at h
  · cases h
  · rename_i hle
    simp only [List.length_take] at hle
    have hlen : body.length ≤ mx := by omega
    simp only [Prod.mk.injEq, ReadR.ok.injEq] at h
    rw [← h.1]
    exact ⟨List.take_of_length_le (by omega), hlen⟩

theorem twirpRead_oversize {mx : Nat} {body : Bytes} (h : body.length > mx) :
    (twirpReadP mx (mx + 1) body).1 = .tooLarge := by
  unfold twirpReadP
  have : (body.take (mx + 1)).length > mx := by simp [List.length_take]; omega
  simp only []
  rw [if_pos this]

theorem twirpRead_alloc (mx : Nat) (body : Bytes) : (twirpReadP mx (mx + 1) body).2 ≤ mx + 1 := by
  unfold twirpReadP
  simp only
  split <;> simp [List.length_take] <;> omega

/-- the reader before the repair (`LimitReader(r, maxSize)`): a body one byte over the limit is
    accepted, minus its last byte -/
theorem twirpRead_old_truncates {mx : Nat} {body : Bytes} (h : body.length = mx + 1) :
    (twirpReadP mx mx body).1 = .ok (body.take mx) ∧ body.take mx ≠ body := by
  unfold twirpReadP
  have h1 : ¬ ((body.take mx).length > mx) := by simp [List.length_take]; omega
  simp only [h1, if_false, true_and]
  intro e
  have := congrArg List.length e
  simp [List.length_take] at this; omega

/-- unfolding of `grpcReadP` on a stream with a complete header (the declared size stays opaque) -/
theorem grpcReadP_cons5 (mx : Nat) (f x y z w : Byte) (rest : Bytes) :
    grpcReadP mx (f :: x :: y :: z :: w :: rest) =
      if u32 x y z w > mx then (.tooLarge, 5)
      else if rest.length < u32 x y z w then (.unexpectedEOF, 5 + u32 x y z w)
      else (.ok (rest.take (u32 x y z w)), 5 + u32 x y z w) := rfl

theorem grpcRead_ok {mx : Nat} {r d : Bytes} {a : Nat} (h : grpcReadP mx r = (.ok d, a)) :
    ∃ f x y z w rest, r = f :: x :: y :: z :: w :: rest ∧ u32 x y z w = d.length ∧
      d = rest.take d.length ∧ d.length ≤ rest.length ∧ d.length ≤ mx ∧ a = 5 + d.length := by
  match r, h with
  | [], h => simp [grpcReadP] at h
  | [_], h => simp [grpcReadP] at h
  | [_, _], h => simp [grpcReadP] at h
  | [_, _, _], h => simp [grpcReadP] at h
  | [_, _, _, _], h => simp [grpcReadP] at h
  | f :: x :: y :: z :: w :: rest, h =>
    rw [grpcReadP_cons5] at h
    generalize hn : u32 x y z w = n at h
    split at h
    · cases h
    · split at h
      · cases h
      · rename_i h1 h2
        simp only [Prod.mk.injEq, ReadR.ok.injEq] at h
        have hl : d.length = n := by rw [← h.1]; simp [List.length_take]; omega
        refine ⟨f, x, y, z, w, rest, rfl, ?_⟩
        rw [hn]
        refine ⟨hl.symm, ?_, by omega, by omega, by omega⟩
        rw [hl]; exact h.1.symm

theorem grpcRead_alloc (mx : Nat) (r : Bytes) : (grpcReadP mx r).2 ≤ 5 + mx := by
  match r with
  | [] => simp [grpcReadP]
  | [_] => simp [grpcReadP]
  | [_, _] => simp [grpcReadP]
  | [_, _, _] => simp [grpcReadP]
  | [_, _, _, _] => simp [grpcReadP]
  | f :: x :: y :: z :: w :: rest =>
    rw [grpcReadP_cons5]
    generalize u32 x y z w = n
    split
    · simp
    · split <;> simp <;> omega

/-- a declared size over the limit is rejected after allocating the 5 header bytes only -/
theorem grpcRead_oversize (mx : Nat) (f x y z w : Byte) (rest : Bytes) (h : u32 x y z w > mx) :
    grpcReadP mx (f :: x :: y :: z :: w :: rest) = (.tooLarge, 5) := by
  rw [grpcReadP_cons5, if_pos h]

/-! ### protocol choice -/

theorem lookup_mem {α : Type} : ∀ (table : List (String × α)) (k : String) (v : α),
    lookup k table = some v → (k, v) ∈ table := by
  intro table
  induction table with
  | nil => intro k v h; simp [lookup] at h
  | cons kv table ih =>
    intro k v h
    obtain ⟨k', v'⟩ := kv
    simp only [lookup] at h
    split at h
    · rename_i hk; cases h; subst hk; simp
    · have := ih k v h; simp [this]

theorem lookup_none {α : Type} : ∀ (table : List (String × α)) (k : String),
    lookup k table = none → ∀ kv ∈ table, kv.1 ≠ k := by
  intro table
  induction table with
  | nil => intro k _ kv h; simp at h
  | cons kv table ih =>
    intro k h x hx
    obtain ⟨k', v'⟩ := kv
    simp only [lookup] at h
    split at h
    · cases h
    · rename_i hk
      rcases List.mem_cons.1 hx with rfl | hx
      · exact hk
      · exact ih k h x hx

end Drpc.Http
