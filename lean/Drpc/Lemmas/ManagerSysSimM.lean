import Drpc.Lemmas.ManagerSysSimDef
/-
  Simulation, part "manageStream": the stream being managed was offered, is not retracted and its fin
  token is not reported yet; it is not the stream a creator is offering right now (`SimM`).
-/
set_option linter.unusedSimpArgs false
set_option linter.unusedVariables false
namespace Drpc.Manager.Sys
open Drpc.Manager

theorem simM_frame {s : St} {t : Tid} {sh' : Sh} {p' : PC} {ps ps' : PS} (hi : SimM s ps)
    (hps : ∀ u sid, mgrSid (s.pc u) = some sid → sid ∈ ps.offered ∧ sid ∉ ps.retracted ∧ sid ∉ ps.sfin →
      sid ∈ ps'.offered ∧ sid ∉ ps'.retracted ∧ sid ∉ ps'.sfin)
    (hch : sh'.streamsCh = s.sh.streamsCh)
    (hm : ∀ sid, mgrSid p' = some sid → mgrSid (s.pc t) = some sid)
    (ho : ∀ x, holds s.sh p' = true → offSid p' = some x → ∀ a, mgrSid (s.pc a) ≠ some x) :
    SimM (s.upd t sh' p') ps' := by
  have hmg : ∀ u sid, mgrSid ((s.upd t sh' p').pc u) = some sid → mgrSid (s.pc u) = some sid := by
    intro u sid h
    rw [upd_pc] at h
    split at h
    · subst_vars; exact hm sid h
    · exact h
  refine ⟨?_, ?_⟩
  · intro u sid h
    exact hps u sid (hmg u sid h) (hi.mf u sid (hmg u sid h))
  · intro a b sid ha hb
    have ha' := hmg a sid ha
    simp only [upd_sh] at hb
    rw [holds_congr hch, upd_pc] at hb
    rw [upd_pc]
    split
    · rename_i hbt
      rw [if_pos hbt] at hb
      subst hbt
      intro hx
      exact ho sid hb hx a ha'
    · rename_i hbt
      rw [if_neg hbt] at hb
      exact hi.m3 a b sid ha' hb

theorem mgrSid_afterTerminate (k : TK) : mgrSid (afterTerminate k) = k.sid? := by cases k <;> rfl
theorem mgrSid_afterCancel {r : Bool} {k : CK} {sid : Sid} (h : k.sidOk sid = true) :
    mgrSid (afterCancel r k) = mgrSid (.xCancel sid k) := by
  cases k <;> cases r <;> simp_all [afterCancel, mgrSid, CK.role, CK.sidOk, TK.sid?]
theorem mgrSid_failHolding (c : Call) : mgrSid (failHolding c) = none := by cases c <;> rfl
theorem offSid_afterTerminate (k : TK) : offSid (afterTerminate k) = none := by cases k <;> rfl
theorem offSid_afterCancel (r : Bool) (k : CK) : offSid (afterCancel r k) = none := by cases k <;> cases r <;> rfl
theorem offSid_failHolding (c : Call) : offSid (failHolding c) = none := by cases c <;> rfl

theorem mgrTid_of_mgrSid {s : St} (hty : Typ s) {t : Tid} {sid : Sid} (h : mgrSid (s.pc t) = some sid) : t = mgrTid := by
  apply tid_of_mg hty
  cases hp : s.pc t <;> rw [hp] at h <;> simp [mgrSid] at h <;> try rfl
  all_goals first
    | (simp only [pcRole]; exact congrArg some h.1)
    | (rename_i k; cases k <;> simp_all [TK.sid?, pcRole, TK.role])

/-- manageStream has no stream any more -/
theorem simM_idle {s' : St} {ps' : PS} (h : ∀ u, mgrSid (s'.pc u) = none) : SimM s' ps' := by
  refine ⟨?_, ?_⟩
  · intro u sid hu; rw [h u] at hu; cases hu
  · intro a b sid ha; rw [h a] at ha; cases ha

theorem simM_tr {s : St} {t : Tid} {p : PC} {sh' : Sh} {p' : PC} {ps ps' : PS} (hs : Safe s) (hv : Inv ps)
    (hss : SimS s ps) (hi : SimM s ps) (hp : s.pc t = p) (h : Tr s t p sh' p') (hn : psNext ps p = some ps') :
    SimM (s.upd t sh' p') ps' := by
  have hwf := (hs.typ t).2
  rw [hp] at hwf
  cases h
  case rDeliver h1 h2 =>
    ps_cases_deliver hn h1 h2
    exact simM_frame hi (fun _ _ _ h => h) rfl (by intro x h; cases h) (by intro x h1 h2; cases h2)
  case rDrop h1 h2 =>
    ps_cases_drop hn h1 h2
    exact simM_frame hi (fun _ _ _ h => h) rfl (by intro x h; cases h) (by intro x h1 h2; cases h2)
  case rNewer h1 =>
    ps_cases_newer hn h1
    exact simM_frame hi (fun _ _ _ h => h) rfl (by intro x h; cases h) (by intro x h1 h2; cases h2)
  all_goals ps_cases hn
  all_goals
    first
    | exact simM_frame hi (fun _ _ _ h => h) rfl
        (by intro x h; rw [hp]; first
          | (cases h; done)
          | exact h
          | (simp only [mgrSid, mgrSid_afterTerminate, mgrSid_failHolding, CK.role, TK.sid?, if_true, reduceCtorEq] at h ⊢; first | exact h | (cases h; done))
          | (rw [mgrSid_afterCancel (by simpa [wfPC] using hwf)] at h; exact h))
        (by intro x h1 h2; first
          | (cases h2; done)
          | (simp only [offSid_afterTerminate, offSid_afterCancel, offSid_failHolding, reduceCtorEq] at h2; done))
    | skip
  case tSetAlready.refl k _ | tSbuf.refl k =>
    exact simM_frame hi (fun _ _ _ h => h) rfl (by intro x h; rw [hp]; rw [mgrSid_afterTerminate] at h; exact h)
      (by intro x h1 h2; rw [offSid_afterTerminate] at h2; cases h2)
  case mTopTake.refl sid hsid =>
    obtain ⟨a, c, hc⟩ := hs.sem.chOffer sid hsid
    have hha : holds s.sh (s.pc a) = true := by rw [hc]; simp [holds, hsid]
    have hf := hss.hf a hha
    rw [hc] at hf
    have ht : t = mgrTid := tid_of_mg hs.typ (by rw [hp]; rfl)
    have hs' := sem_tr hs.sem hs.loc (hp ▸ hs.typ t) hp (Tr.mTopTake hsid)
    refine ⟨?_, ?_⟩
    · intro u x hu
      have hu' : u = t := by
        rw [upd_pc] at hu
        split at hu
        · assumption
        · exact (mgrTid_of_mgrSid hs.typ hu).trans ht.symm
      subst hu'
      simp only [upd_pc_self, mgrSid, Option.some.injEq] at hu
      subst hu
      exact ⟨hf.2.2.2.1, hf.2.2.2.2.1, hf.2.2.2.2.2⟩
    · intro a' b x ha hb
      have hb' : b = t := hs'.uniq b t hb (by simp [holds])
      subst hb'
      simp [offSid]
  case mEvSfinRel.isTrue.refl sid hg | mEvSfinTop.isTrue.refl sid hg =>
    have ht : t = mgrTid := tid_of_mg hs.typ (by rw [hp]; rfl)
    apply simM_idle
    intro u
    rw [upd_pc]
    split
    · rfl
    · rename_i hne
      cases hx : mgrSid (s.pc u) with
      | none => rfl
      | some x => exact absurd ((mgrTid_of_mgrSid hs.typ hx).trans ht.symm) hne
  case nEvOffer.isTrue.refl c sid hg =>
    refine simM_frame hi (fun _ x _ h => ⟨by simp [h.1], h.2.1, h.2.2⟩) rfl (by intro x h; cases h) ?_
    intro x h1 h2 a ha
    simp only [offSid, Option.some.injEq] at h2
    subst h2
    exact hg.2.2.2.2 (hi.mf a _ ha).1
  case nOfferRetract.refl c sid _ =>
    refine simM_frame hi (fun _ _ _ h => h) rfl (by intro x h; cases h) ?_
    intro x h1 h2 a ha
    exact hi.m3 a t x ha (by rw [hp]; rfl) (by rw [hp]; exact h2)
  case nEvRetract.isTrue.refl c sid hg =>
    have hne : ∀ a x, mgrSid (s.pc a) = some x → x ≠ sid := by
      intro a x ha hx
      subst hx
      exact hi.m3 a t x ha (by rw [hp]; rfl) (by rw [hp]; rfl)
    refine simM_frame hi ?_ rfl (by intro x h; rw [mgrSid_failHolding] at h; cases h)
      (by intro x h1 h2; rw [offSid_failHolding] at h2; cases h2)
    intro a x ha h
    refine ⟨h.1, ?_, h.2.2⟩
    simp only [List.mem_append, List.mem_singleton, not_or]
    exact ⟨h.2.1, hne a x ha⟩
  case nOfferOffer.refl c sid hnone =>
    have hs' := sem_tr hs.sem hs.loc (hp ▸ hs.typ t) hp (Tr.nOfferOffer (c := c) hnone)
    have hcl : 2 ≤ t := tid_of_cl hs.typ (by rw [hp]; rfl)
    refine ⟨?_, ?_⟩
    · intro u x hu
      rw [upd_pc] at hu
      split at hu
      · cases hu
      · exact hi.mf u x hu
    · intro a b x ha hb
      have hb' : b = t := hs'.uniq b t hb (by simp [holds])
      subst hb'
      have ha' : mgrSid (s.pc a) = some x := by
        rw [upd_pc] at ha
        split at ha
        · cases ha
        · exact ha
      rw [upd_pc_self]
      intro hx
      simp only [offSid, Option.some.injEq] at hx
      subst hx
      exact hi.m3 a b _ ha' (by rw [hp]; rfl) (by rw [hp]; rfl)
  case nOfferedRetract.refl c sid hsome _ =>
    have hs' := sem_tr hs.sem hs.loc (hp ▸ hs.typ t) hp (Tr.nOfferedRetract (c := c) hsome (by assumption))
    refine ⟨?_, ?_⟩
    · intro u x hu
      rw [upd_pc] at hu
      split at hu
      · cases hu
      · exact hi.mf u x hu
    · intro a b x ha hb
      have hb' : b = t := hs'.uniq b t hb (by simp [holds])
      subst hb'
      have ha' : mgrSid (s.pc a) = some x := by
        rw [upd_pc] at ha
        split at ha
        · cases ha
        · exact ha
      rw [upd_pc_self]
      intro hx
      simp only [offSid, Option.some.injEq] at hx
      subst hx
      exact hi.m3 a b _ ha' (by rw [hp]; simp [holds, hsome]) (by rw [hp]; rfl)

theorem simM_etr {s : St} {t : Tid} {sh' : Sh} {p' : PC} {ps : PS} (hi : SimM s ps) (h : ETr s t sh' p') :
    SimM (s.upd t sh' p') ps := by
  cases h
  all_goals
    first
    | exact simM_frame hi (fun _ _ _ h => h) rfl (by intro x h; first | exact h | (cases h; done)) (by intro x h1 h2; first | (cases h2; done) | (intro a ha; exact hi.m3 a readerTid x ha h1 h2))
    | skip

end Drpc.Manager.Sys
