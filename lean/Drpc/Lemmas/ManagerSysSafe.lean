import Drpc.Lemmas.ManagerSysPk
/-
  `Safe s`: the safety invariants of the manager model together; they hold in every state reachable
  without re-using a stream id (`safe_reachF`).
-/
namespace Drpc.Manager.Sys
open Drpc.Manager

structure Safe (s : St) : Prop where
  typ : Typ s
  tm : Tm s
  loc : Loc s
  sem : Sem s
  pk : Pk s

theorem safe_init (soft : Bool) : Safe { sh := { soft := soft } } :=
  ⟨typ_init soft, tm_init soft, loc_init soft, sem_init soft, pk_init soft⟩

theorem safe_tr {s : St} {t : Tid} {sh' : Sh} {p' : PC} (hi : Safe s) (hf : FreshStep s t)
    (h : Tr s t (s.pc t) sh' p') : Safe (s.upd t sh' p') :=
  ⟨typ_upd hi.typ (typ_tr (hi.typ t) h), tm_tr hi.tm rfl h, loc_tr hi.loc (hi.typ t) rfl hf h,
   sem_tr hi.sem hi.loc (hi.typ t) rfl h, pk_tr hi.pk hi.sem hi.typ rfl h⟩

theorem safe_etr {s : St} {t : Tid} {sh' : Sh} {p' : PC} (hi : Safe s) (h : ETr s t sh' p') :
    Safe (s.upd t sh' p') :=
  ⟨typ_upd hi.typ (typ_etr hi.typ h), tm_etr hi.tm h, loc_etr hi.loc h, sem_etr hi.sem h, pk_etr hi.pk h⟩

theorem safe_reachF {soft : Bool} {s : St} (h : ReachF soft s) : Safe s := by
  induction h with
  | init => exact safe_init soft
  | step t ch _ hs hf ih =>
    obtain ⟨sh', p', htr, rfl⟩ := step_tr hs
    exact safe_tr ih hf htr
  | env e _ hs _ ih =>
    obtain ⟨t, sh', p', htr, rfl⟩ := env_tr hs
    exact safe_etr ih htr

end Drpc.Manager.Sys
