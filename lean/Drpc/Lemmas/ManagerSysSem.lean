import Drpc.Lemmas.ManagerSysLoc
/-
  The stream semaphore: who holds it (`holds`), that the holder is unique, that the semaphore is
  taken exactly while somebody holds it (except on a terminated manager, where NewClientStream returns
  without releasing it when its offer is retracted), and the hand-over through `m.streams`.
-/
set_option linter.unusedSimpArgs false
namespace Drpc.Manager.Sys
open Drpc.Manager

def TK.hold : TK → Bool
  | .mgrHard _ | .mgrSoft _ => true
  | _ => false

def CK.hold : CK → Bool
  | .mgrTerm _ | .mgrHard _ | .mgrSoft _ => true
  | _ => false

/-- the thread at this program counter holds the stream semaphore: a caller from its successful
    `m.sem.Get() <- struct{}{}` until it has released it or its stream has been taken from `m.streams`
    (`.nOffered`: the offer is still in the channel); manageStream from taking the stream until its
    `m.sem.Recv()` -/
def holds (sh : Sh) : PC → Bool
  | .aEvAcq _ | .aPrev _ | .aEvPrevNone _ | .aPrevChk .. | .aPrevSel .. | .aEvPrevDone .. | .aFailEvRel | .aFailRel
  | .aGot _ | .sSel | .sGot _ | .sFailEvRel | .sFailRel | .nNew .. | .nEvBegin .. | .nSet .. | .nEvEnd ..
  | .nEvOffer .. | .nOffer .. | .nEvRetract .. => true
  | .nOffered _ sid => sh.streamsCh == some sid
  | .mStream _ | .mEvRel | .mRel | .mSendCancel _ | .mSendCancelTok .. | .mSoftAfter .. => true
  | .mRecv _ rel | .mEvSfin _ rel => rel
  | .xCancel _ k | .xTok _ k => k.hold
  | .tSet k | .tEvTerm k | .tEvClose k | .tClose k | .tTport k | .tSbuf k => k.hold
  | _ => false

theorem holds_congr {sh sh' : Sh} (h : sh'.streamsCh = sh.streamsCh) (p : PC) : holds sh' p = holds sh p := by
  cases p <;> simp [holds, h]

theorem holds_afterTerminate (sh : Sh) (k : TK) : holds sh (afterTerminate k) = k.hold := by cases k <;> rfl
theorem holds_afterCancel (sh : Sh) (r : Bool) (k : CK) : holds sh (afterCancel r k) = k.hold := by
  cases k <;> cases r <;> rfl

structure Sem (s : St) : Prop where
  uniq : ∀ t u, holds s.sh (s.pc t) = true → holds s.sh (s.pc u) = true → t = u
  held : ∀ t, holds s.sh (s.pc t) = true → s.sh.sem = true
  free : s.sh.sem = true → s.sh.term = false → ∃ t, holds s.sh (s.pc t) = true
  chOwner : ∀ sid, s.sh.streamsCh = some sid → ∀ u, holds s.sh (s.pc u) = true → ∃ c, s.pc u = .nOffered c sid
  chOffer : ∀ sid, s.sh.streamsCh = some sid → ∃ t c, s.pc t = .nOffered c sid

theorem sem_init (soft : Bool) : Sem { sh := { soft := soft } } := by
  have hp : ∀ t, holds ({ soft := soft } : Sh) (({ sh := { soft := soft } } : St).pc t) = false := by
    intro t
    show holds _ (if t = 0 then .rTop else if t = 1 then .mTop else .idle) = false
    split
    · rfl
    · split <;> rfl
  refine ⟨?_, ?_, ?_, ?_, ?_⟩
  · intro t u h; rw [hp t] at h; cases h
  · intro t h; rw [hp t] at h; cases h
  · intro h; cases h
  · intro sid h; cases h
  · intro sid h; cases h

/-- a step of a thread that neither touches the semaphore nor `m.streams`, and does not change whether
    the thread holds the semaphore -/
theorem sem_frame {s : St} {t : Tid} {sh' : Sh} {p' : PC} (hi : Sem s)
    (hch : sh'.streamsCh = s.sh.streamsCh) (hsem : sh'.sem = s.sh.sem) (hterm : sh'.term = false → s.sh.term = false)
    (hh : holds s.sh p' = holds s.sh (s.pc t))
    (hoff : ∀ c sid, s.pc t = .nOffered c sid → s.sh.streamsCh = some sid → p' = .nOffered c sid) :
    Sem (s.upd t sh' p') := by
  have hpc : ∀ u, holds sh' ((s.upd t sh' p').pc u) = holds s.sh (s.pc u) := by
    intro u
    rw [holds_congr hch, upd_pc]
    split
    · subst_vars; exact hh
    · rfl
  refine ⟨?_, ?_, ?_, ?_, ?_⟩
  · intro a b ha hb
    simp only [upd_sh] at ha hb
    rw [hpc] at ha hb
    exact hi.uniq a b ha hb
  · intro a ha
    simp only [upd_sh] at ha ⊢
    rw [hpc] at ha
    rw [hsem]; exact hi.held a ha
  · intro h1 h2
    simp only [upd_sh] at h1 h2 ⊢
    obtain ⟨a, ha⟩ := hi.free (hsem ▸ h1) (hterm h2)
    exact ⟨a, by rw [hpc]; exact ha⟩
  · intro sid hs u hu
    simp only [upd_sh] at hs hu
    rw [hch] at hs
    rw [hpc] at hu
    obtain ⟨c, hc⟩ := hi.chOwner sid hs u hu
    refine ⟨c, ?_⟩
    rw [upd_pc]
    split
    · subst_vars; exact hoff c sid hc hs
    · exact hc
  · intro sid hs
    simp only [upd_sh] at hs
    rw [hch] at hs
    obtain ⟨a, c, hc⟩ := hi.chOffer sid hs
    refine ⟨a, c, ?_⟩
    rw [upd_pc]
    split
    · subst_vars; exact hoff c sid hc hs
    · exact hc

theorem not_offered_of_holds_ne {s : St} (hi : Sem s) {t : Tid} (hh : holds s.sh (s.pc t) = true)
    (hn : ∀ c sid, s.pc t ≠ .nOffered c sid) : s.sh.streamsCh = none := by
  cases hs : s.sh.streamsCh with
  | none => rfl
  | some sid =>
    obtain ⟨c, hc⟩ := hi.chOwner sid hs t hh
    exact absurd hc (hn c sid)

/-- the holder stops holding: it releases the semaphore, or (terminated manager) returns without -/
theorem sem_leave {s : St} {t : Tid} {sh' : Sh} {p' : PC} (hi : Sem s) (hh : holds s.sh (s.pc t) = true)
    (hn : ∀ c sid, s.pc t ≠ .nOffered c sid) (hch : sh'.streamsCh = s.sh.streamsCh)
    (hp' : holds s.sh p' = false) (hr : sh'.sem = false ∨ sh'.term = true) : Sem (s.upd t sh' p') := by
  have hnone := not_offered_of_holds_ne hi hh hn
  have hpc : ∀ u, holds sh' ((s.upd t sh' p').pc u) = false := by
    intro u
    rw [holds_congr hch, upd_pc]
    split
    · exact hp'
    · rename_i hne
      cases hx : holds s.sh (s.pc u) with
      | false => rfl
      | true => exact absurd (hi.uniq u t hx hh) hne
  refine ⟨?_, ?_, ?_, ?_, ?_⟩
  · intro a b ha; simp only [upd_sh] at ha; rw [hpc] at ha; cases ha
  · intro a ha; simp only [upd_sh] at ha; rw [hpc] at ha; cases ha
  · intro h1 h2
    simp only [upd_sh] at h1 h2
    rcases hr with hr | hr
    · rw [hr] at h1; cases h1
    · rw [hr] at h2; cases h2
  · intro sid hs; simp only [upd_sh] at hs; rw [hch, hnone] at hs; cases hs
  · intro sid hs; simp only [upd_sh] at hs; rw [hch, hnone] at hs; cases hs

/-- the semaphore is acquired -/
theorem sem_enter {s : St} {t : Tid} {sh' : Sh} {p' : PC} (hi : Sem s) (hfree : s.sh.sem = false)
    (hch : sh'.streamsCh = s.sh.streamsCh) (hp' : holds s.sh p' = true) (hn : ∀ c sid, p' ≠ .nOffered c sid)
    (hs : sh'.sem = true) : Sem (s.upd t sh' p') := by
  have hno : ∀ u, holds s.sh (s.pc u) = false := by
    intro u
    cases hx : holds s.sh (s.pc u) with
    | false => rfl
    | true => have := hi.held u hx; rw [hfree] at this; cases this
  have hnone : s.sh.streamsCh = none := by
    cases hs : s.sh.streamsCh with
    | none => rfl
    | some sid =>
      obtain ⟨a, c, hc⟩ := hi.chOffer sid hs
      have := hno a
      rw [hc] at this
      simp [holds, hs] at this
  have hpc : ∀ u, holds sh' ((s.upd t sh' p').pc u) = true ↔ u = t := by
    intro u
    rw [holds_congr hch, upd_pc]
    split
    · subst_vars; simp [hp']
    · rename_i hne; simp [hno u, hne]
  refine ⟨?_, ?_, ?_, ?_, ?_⟩
  · intro a b ha hb; simp only [upd_sh] at ha hb; rw [(hpc a).1 ha, (hpc b).1 hb]
  · intro a _; exact hs
  · intro _ _; exact ⟨t, (hpc t).2 rfl⟩
  · intro sid hs; simp only [upd_sh] at hs; rw [hch, hnone] at hs; cases hs
  · intro sid hs; simp only [upd_sh] at hs; rw [hch, hnone] at hs; cases hs

theorem holds_indep {sh sh' : Sh} {p : PC} (h : ∀ c x, p ≠ .nOffered c x) : holds sh' p = holds sh p := by
  cases p <;> simp_all [holds]

theorem holds_none {sh : Sh} {p : PC} (h : holds { sh with streamsCh := none } p = true) :
    holds sh p = true ∧ ∀ c x, p ≠ .nOffered c x := by
  cases p <;> simp_all [holds]

/-- after the step exactly thread `t` holds the semaphore -/
theorem sem_only {s : St} {t : Tid} {sh' : Sh} {p' : PC}
    (honly : ∀ u, holds sh' ((s.upd t sh' p').pc u) = true ↔ u = t) (hsem : sh'.sem = true)
    (hch : ∀ sid, sh'.streamsCh = some sid → ∃ c, p' = .nOffered c sid) : Sem (s.upd t sh' p') := by
  refine ⟨?_, ?_, ?_, ?_, ?_⟩
  · intro a b ha hb; simp only [upd_sh] at ha hb; rw [(honly a).1 ha, (honly b).1 hb]
  · intro _ _; exact hsem
  · intro _ _; exact ⟨t, (honly t).2 rfl⟩
  · intro sid hs u hu
    simp only [upd_sh] at hs hu
    rw [(honly u).1 hu, upd_pc_self]
    exact hch sid hs
  · intro sid hs
    simp only [upd_sh] at hs
    obtain ⟨c, hc⟩ := hch sid hs
    exact ⟨t, c, by rw [upd_pc_self]; exact hc⟩

theorem sem_tr {s : St} {t : Tid} {p : PC} {sh' : Sh} {p' : PC} (hi : Sem s) (hl : Loc s) (hty : okAt t p)
    (hp : s.pc t = p) (h : Tr s t p sh' p') : Sem (s.upd t sh' p') := by
  cases h
  all_goals
    first
    | exact sem_frame hi rfl rfl (fun h => h) (by rw [hp]; first | rfl | exact holds_afterTerminate _ _ | exact holds_afterCancel _ _ _)
        (by intro c sid h; rw [hp] at h; cases h)
    | exact sem_frame hi rfl rfl (fun h => by cases h) (by rw [hp]; rfl) (by intro c sid h; rw [hp] at h; cases h)
    | exact sem_leave hi (by rw [hp]; rfl) (by intro c sid h; rw [hp] at h; cases h) rfl rfl (Or.inl rfl)
    | skip
  case aSelAcq c hfree =>
    exact sem_enter hi hfree rfl rfl (by intro c sid h; cases h) rfl
  case aGotClose => exact absurd hty.2 (by simp [wfPC])
  case nOfferedTaken c sid hne =>
    refine sem_frame hi rfl rfl (fun h => h) ?_ ?_
    · rw [hp]; simp [holds, hne]
    · intro c' sid' h hs; rw [hp] at h; cases h; exact absurd hs hne
  case nEvRetract c sid =>
    cases c
    · exact sem_leave hi (by rw [hp]; rfl) (by intro c sid h; rw [hp] at h; cases h) rfl rfl
        (Or.inr (hl.retr t _ _ hp))
    · exact sem_frame hi rfl rfl (fun h => h) (by rw [hp]; rfl) (by intro c sid h; rw [hp] at h; cases h)
    · exact absurd hty.2 (by simp [wfPC])
  case mTopTake sid hs =>
    obtain ⟨a, c, hc⟩ := hi.chOffer sid hs
    have hsem := hi.held a (by rw [hc]; simp [holds, hs])
    refine sem_only ?_ hsem (by intro x hx; cases hx)
    intro u
    rw [upd_pc]
    split
    · subst_vars; simp [holds]
    · rename_i hne
      simp only [hne, iff_false, Bool.not_eq_true]
      cases hx : holds { s.sh with streamsCh := none } (s.pc u) with
      | false => rfl
      | true =>
        obtain ⟨h1, h2⟩ := holds_none hx
        obtain ⟨c', hc'⟩ := hi.chOwner sid hs u h1
        exact absurd hc' (h2 c' sid)
  case nOfferOffer c sid hs =>
    have hht : holds s.sh (s.pc t) = true := by rw [hp]; rfl
    refine sem_only ?_ (hi.held t hht) (by intro x hx; cases hx; exact ⟨c, rfl⟩)
    intro u
    rw [upd_pc]
    split
    · subst_vars; simp [holds]
    · rename_i hne
      simp only [hne, iff_false, Bool.not_eq_true]
      cases hx : holds { s.sh with streamsCh := some sid } (s.pc u) with
      | false => rfl
      | true =>
        exfalso
        by_cases hoff : ∃ c' x, s.pc u = .nOffered c' x
        · obtain ⟨c', x, hpu⟩ := hoff
          rw [hpu] at hx
          simp only [holds, beq_iff_eq, Option.some.injEq] at hx
          subst hx
          have h1 := (hl.own u sid (by rw [hpu]; rfl)).2
          have h2 := (hl.own t sid (by rw [hp]; rfl)).2
          exact hne (h1.symm.trans h2)
        · have hn : ∀ c' x, s.pc u ≠ .nOffered c' x := fun c' x h => hoff ⟨c', x, h⟩
          rw [holds_indep (sh := s.sh) hn] at hx
          exact hne (hi.uniq u t hx hht)
  case nOfferedRetract c sid hs _ =>
    have hht : holds s.sh (s.pc t) = true := by rw [hp]; simp [holds, hs]
    refine sem_only ?_ (hi.held t hht) (by intro x hx; cases hx)
    intro u
    rw [upd_pc]
    split
    · subst_vars; simp [holds]
    · rename_i hne
      simp only [hne, iff_false, Bool.not_eq_true]
      cases hx : holds { s.sh with streamsCh := none } (s.pc u) with
      | false => rfl
      | true => exact absurd (hi.uniq u t (holds_none hx).1 hht) hne

theorem sem_etr {s : St} {t : Tid} {sh' : Sh} {p' : PC} (hi : Sem s) (h : ETr s t sh' p') : Sem (s.upd t sh' p') := by
  cases h
  all_goals
    first
    | exact sem_frame hi rfl rfl (fun h => h) rfl (fun _ _ h _ => h)
    | exact sem_frame hi rfl rfl (fun h => h) (by simp [*, holds, TK.hold]) (by intro c sid h; simp_all)
    | skip

/-! ### Part 2 (b), (c) -/

theorem blocked_release_never_of_sem {s : St} (hi : Sem s) {t : Tid}
    (h : s.pc t = .mRel ∨ s.pc t = .aFailRel ∨ s.pc t = .sFailRel) :
    s.sh.sem = true := by
  apply hi.held t
  rcases h with h | h | h <;> rw [h] <;> rfl

end Drpc.Manager.Sys
