import Drpc.Wire.Spec
import Drpc.Lemmas.Frame
/-
  Agreement of the shift-and-mask model (`readVarint`, `parseFrame`) with the arithmetic
  reference decoder (`Spec.readVarint`, `Spec.decode`).
-/
namespace Drpc

theorem spec_ctl : ∀ c : BitVec 8, kindOfControl c = Spec.kind c ∧ doneOfControl c = Spec.done c ∧ ctlOfControl c = Spec.control c := by decide

theorem zext_and_127 (x : Byte) : (x.zeroExtend 64 &&& 127#64) = BitVec.ofNat 64 (x.toNat % 128) := by
  apply BitVec.eq_of_toNat_eq
  simp [BitVec.toNat_and, BitVec.toNat_setWidth]
  have : (127:Nat) = 2^7 - 1 := by decide
  rw [this, Nat.and_two_pow_sub_one_eq_mod]
  have := x.isLt
  omega

theorem ofNat_digit (a m s : Nat) (ha : a < 128) :
    (BitVec.ofNat 64 (a + 128 * m)) <<< s = ((BitVec.ofNat 64 a) <<< s) ||| ((BitVec.ofNat 64 m) <<< (s + 7)) := by
  have h : a + 128 * m = m <<< 7 ||| a := by
    rw [← Nat.shiftLeft_add_eq_or_of_lt (by simpa using ha)]
    simp [Nat.shiftLeft_eq]; omega
  rw [h]
  apply BitVec.eq_of_getLsbD_eq
  intro i hi
  simp only [BitVec.getLsbD_shiftLeft, BitVec.getLsbD_or, BitVec.getLsbD_ofNat, Nat.testBit_or, Nat.testBit_shiftLeft]
  by_cases h1 : i < s
  · have : i < s + 7 := by omega
    simp [h1, this]
  · by_cases h2 : i < s + 7
    · have h3 : ¬ (i - s ≥ 7) := by omega
      simp [h1, h2, h3, hi]
    · have h3 : i - s ≥ 7 := by omega
      have e : i - s - 7 = i - (s + 7) := by omega
      have ha' : a.testBit (i - s) = false := by
        apply Nat.testBit_lt_two_pow
        calc a < 2^7 := by simpa using ha
          _ ≤ 2^(i-s) := Nat.pow_le_pow_right (by decide) h3
      have g1 : i - s < 64 := by omega
      have g2 : i - (s + 7) < 64 := by omega
      simp [h1, h2, h3, hi, e, ha', g1, g2]

end Drpc

namespace Drpc
open Spec in
theorem readVarintAux_spec (n : Nat) : ∀ (k : Nat) (acc : U64) (b : Bytes),
    readVarintAux n (7*k) acc b =
      (let pre := b.takeWhile (fun x => 128 ≤ x.toNat)
       if n ≤ pre.length then VR.tooLong else
       match b.drop pre.length with
       | [] => VR.short
       | last :: rem => VR.ok rem (acc ||| ((BitVec.ofNat 64 (leValue (pre ++ [last]))) <<< (7*k)))) := by
  induction n with
  | zero => intro k acc b; simp [readVarintAux]
  | succ n ih =>
    intro k acc b
    cases b with
    | nil => simp [readVarintAux]
    | cons x xs =>
      by_cases hx : x.toNat < 128
      · have hx' : ¬ (128 ≤ x.toNat) := by omega
        simp [readVarintAux, hx, List.takeWhile_cons, hx', leValue, zext_and_127]
      · have hx' : 128 ≤ x.toNat := by omega
        simp only [readVarintAux, hx, ↓reduceIte, List.takeWhile_cons, hx', decide_true,
          List.length_cons, List.drop_succ_cons, Nat.add_le_add_iff_right]
        rw [show 7 * k + 7 = 7 * (k+1) by omega, ih (k+1)]
        simp only []
        split
        · rfl
        · split
          · rfl
          · congr 1
            simp only [List.cons_append, leValue]
            rw [ofNat_digit _ _ _ (Nat.mod_lt _ (by decide)), zext_and_127, BitVec.or_assoc]
            rfl

theorem readVarint_spec (b : Bytes) : readVarint b = Spec.readVarint b := by
  show readVarintAux 10 (7*0) 0#64 b = _
  rw [readVarintAux_spec]
  unfold Spec.readVarint
  simp only []
  split
  · rfl
  · cases hd : List.drop (List.takeWhile (fun x => decide (128 ≤ BitVec.toNat x)) b).length b <;> simp

theorem parseFrame_spec (b : Bytes) : parseFrame b = Spec.decode b := by
  unfold parseFrame Spec.decode
  split
  · rfl
  · cases b with
    | nil => rename_i h; simp at h
    | cons c r0 =>
      simp only [← readVarint_spec]
      cases readVarint r0 with
      | short => rfl
      | tooLong => rfl
      | ok r1 sid =>
        simp only
        cases readVarint r1 with
        | short => rfl
        | tooLong => rfl
        | ok r2 mid =>
          simp only
          cases readVarint r2 with
          | short => rfl
          | tooLong => rfl
          | ok r3 len =>
            simp only
            have := spec_ctl c
            by_cases h : len.toNat > r3.length
            · have h' : r3.length < len.toNat := h
              simp [h, h']
            · have h' : ¬ r3.length < len.toNat := h
              simp [h, h', this.1, this.2.1, this.2.2]
end Drpc
