import Drpc.Lemmas.ManagerSysTyping
/-
  `Manager.terminate`: the term signal is set once, by one thread, which then reports, closes the
  transport once, sets the tport signal and closes the stream buffer (`Tm s`, preserved by every step).
-/
set_option linter.unusedSimpArgs false
namespace Drpc.Manager.Sys
open Drpc.Manager

/-- inside the body of `terminate` (after winning `m.sigs.term.Set`) -/
def inTm : PC → Bool
  | .tEvTerm _ | .tEvClose _ | .tClose _ | .tTport _ | .tSbuf _ => true
  | _ => false

/-- what the thread inside `terminate` has done so far -/
def tmFacts (sh : Sh) : PC → Prop
  | .tEvTerm _ | .tEvClose _ | .tClose _ => sh.closes = 0 ∧ sh.tportSet = false ∧ sh.sbufClosed = false
  | .tTport _ => sh.closes = 1 ∧ sh.tportSet = false ∧ sh.sbufClosed = false
  | .tSbuf _ => sh.closes = 1 ∧ sh.tportSet = true ∧ sh.sbufClosed = false
  | _ => True

structure Tm (s : St) : Prop where
  uniq : ∀ t u, inTm (s.pc t) = true → inTm (s.pc u) = true → t = u
  none : s.sh.term = false →
    (∀ t, inTm (s.pc t) = false) ∧ s.sh.closes = 0 ∧ s.sh.tportSet = false ∧ s.sh.sbufClosed = false
  at_ : ∀ t, tmFacts s.sh (s.pc t)
  done : s.sh.term = true →
    (∃ t, inTm (s.pc t) = true) ∨ (s.sh.closes = 1 ∧ s.sh.tportSet = true ∧ s.sh.sbufClosed = true)

theorem inTm_afterTerminate (k : TK) : inTm (afterTerminate k) = false := by cases k <;> rfl
theorem inTm_afterCancel (r : Bool) (k : CK) : inTm (afterCancel r k) = false := by cases k <;> cases r <;> rfl
theorem inTm_failHolding (c : Call) : inTm (failHolding c) = false := by cases c <;> rfl

theorem tmFacts_congr {sh sh' : Sh} (h2 : sh'.closes = sh.closes) (h3 : sh'.tportSet = sh.tportSet)
    (h4 : sh'.sbufClosed = sh.sbufClosed) (p : PC) : tmFacts sh' p ↔ tmFacts sh p := by
  cases p <;> simp [tmFacts, h2, h3, h4]

theorem tmFacts_of_not_inTm {sh : Sh} {p : PC} (h : inTm p = false) : tmFacts sh p := by
  cases p <;> simp_all [tmFacts, inTm]

theorem tm_init (soft : Bool) : Tm { sh := { soft := soft } } := by
  have hp : ∀ t, inTm (({ sh := { soft := soft } } : St).pc t) = false := by
    intro t
    show inTm (if t = 0 then .rTop else if t = 1 then .mTop else .idle) = false
    split
    · rfl
    · split <;> rfl
  refine ⟨?_, ?_, ?_, ?_⟩
  · intro t u h; rw [hp t] at h; cases h
  · intro _; exact ⟨hp, rfl, rfl, rfl⟩
  · intro t; exact tmFacts_of_not_inTm (hp t)
  · intro h; cases h

/-- a step that neither touches the termination state nor enters / leaves the body of `terminate` -/
theorem tm_frame {s : St} {t : Tid} {sh' : Sh} {p' : PC} (hi : Tm s) (hp : inTm (s.pc t) = false)
    (hp' : inTm p' = false) (h1 : sh'.term = s.sh.term) (h2 : sh'.closes = s.sh.closes)
    (h3 : sh'.tportSet = s.sh.tportSet) (h4 : sh'.sbufClosed = s.sh.sbufClosed) : Tm (s.upd t sh' p') := by
  have hpc : ∀ u, inTm ((s.upd t sh' p').pc u) = inTm (s.pc u) := by
    intro u
    rw [upd_pc]
    split
    · subst_vars; rw [hp, hp']
    · rfl
  refine ⟨?_, ?_, ?_, ?_⟩
  · intro a b ha hb
    rw [hpc] at ha hb
    exact hi.uniq a b ha hb
  · intro ht
    simp only [upd_sh, h1, h2, h3, h4] at ht ⊢
    obtain ⟨n1, n2⟩ := hi.none ht
    exact ⟨fun u => by rw [hpc]; exact n1 u, n2⟩
  · intro u
    simp only [upd_sh]
    rw [tmFacts_congr h2 h3 h4, upd_pc]
    split
    · exact tmFacts_of_not_inTm hp'
    · exact hi.at_ u
  · intro ht
    simp only [upd_sh, h1, h2, h3, h4] at ht ⊢
    rcases hi.done ht with ⟨u, hu⟩ | hd
    · exact Or.inl ⟨u, by rw [hpc]; exact hu⟩
    · exact Or.inr hd

theorem tm_term_of_in {s : St} (hi : Tm s) {t : Tid} (h : inTm (s.pc t) = true) : s.sh.term = true := by
  cases ht : s.sh.term with
  | true => rfl
  | false => have := (hi.none ht).1 t; rw [h] at this; cases this

/-- a step inside the body of `terminate` -/
theorem tm_body {s : St} {t : Tid} {sh' : Sh} {p' : PC} (hi : Tm s) (hp : inTm (s.pc t) = true)
    (hp' : inTm p' = true) (h1 : sh'.term = s.sh.term) (hf : tmFacts sh' p') : Tm (s.upd t sh' p') := by
  have hterm := tm_term_of_in hi hp
  have hpc : ∀ u, inTm ((s.upd t sh' p').pc u) = true ↔ u = t := by
    intro u
    rw [upd_pc]
    split
    · subst_vars; simp [hp']
    · rename_i hne
      constructor
      · intro hu; exact absurd (hi.uniq u t hu hp) hne
      · intro hu; exact absurd hu hne
  refine ⟨?_, ?_, ?_, ?_⟩
  · intro a b ha hb
    rw [(hpc a).1 ha, (hpc b).1 hb]
  · intro ht
    simp only [upd_sh, h1, hterm] at ht
    cases ht
  · intro u
    simp only [upd_sh]
    by_cases hu : u = t
    · subst hu; rw [upd_pc_self]; exact hf
    · apply tmFacts_of_not_inTm
      cases hx : inTm ((s.upd t sh' p').pc u) with
      | false => rfl
      | true => exact absurd ((hpc u).1 hx) hu
  · intro _
    exact Or.inl ⟨t, (hpc t).2 rfl⟩

theorem tm_tr {s : St} {t : Tid} {p : PC} {sh' : Sh} {p' : PC} (hi : Tm s) (hp : s.pc t = p)
    (h : Tr s t p sh' p') : Tm (s.upd t sh' p') := by
  cases h
  all_goals
    first
    | exact tm_frame hi (by rw [hp]; rfl) (by first | rfl | exact inTm_afterTerminate _ | exact inTm_afterCancel _ _ | exact inTm_failHolding _) rfl rfl rfl rfl
    | skip
  case tSetFirst k ht =>
    obtain ⟨n1, n2, n3, n4⟩ := hi.none ht
    have hpc : ∀ u, inTm ((s.upd t { s.sh with term := true } (.tEvTerm k)).pc u) = true ↔ u = t := by
      intro u
      rw [upd_pc]
      split
      · subst_vars; simp [inTm]
      · rename_i hne; simp [n1 u, hne]
    refine ⟨?_, ?_, ?_, ?_⟩
    · intro a b ha hb; rw [(hpc a).1 ha, (hpc b).1 hb]
    · intro h; cases h
    · intro u
      by_cases hu : u = t
      · subst hu; rw [upd_pc_self]; exact ⟨n2, n3, n4⟩
      · apply tmFacts_of_not_inTm
        cases hx : inTm ((s.upd t { s.sh with term := true } (.tEvTerm k)).pc u) with
        | false => rfl
        | true => exact absurd ((hpc u).1 hx) hu
    · intro _; exact Or.inl ⟨t, (hpc t).2 rfl⟩
  case tEvTerm k =>
    have := hi.at_ t; rw [hp] at this
    exact tm_body hi (by rw [hp]; rfl) rfl rfl this
  case tEvClose k =>
    have := hi.at_ t; rw [hp] at this
    exact tm_body hi (by rw [hp]; rfl) rfl rfl this
  case tClose k =>
    have := hi.at_ t; rw [hp] at this
    exact tm_body hi (by rw [hp]; rfl) rfl rfl ⟨by show s.sh.closes + 1 = 1; rw [this.1], this.2.1, this.2.2⟩
  case tTport k =>
    have := hi.at_ t; rw [hp] at this
    exact tm_body hi (by rw [hp]; rfl) rfl rfl ⟨this.1, rfl, this.2.2⟩
  case tSbuf k =>
    have hf := hi.at_ t; rw [hp] at hf
    have hin : inTm (s.pc t) = true := by rw [hp]; rfl
    have hterm := tm_term_of_in hi hin
    have hpc : ∀ u, inTm ((s.upd t { s.sh with sbufClosed := true } (afterTerminate k)).pc u) = false := by
      intro u
      rw [upd_pc]
      split
      · exact inTm_afterTerminate k
      · rename_i hne
        cases hx : inTm (s.pc u) with
        | false => rfl
        | true => exact absurd (hi.uniq u t hx hin) hne
    refine ⟨?_, ?_, ?_, ?_⟩
    · intro a b ha; rw [hpc a] at ha; cases ha
    · intro h; simp only [upd_sh] at h; rw [hterm] at h; cases h
    · intro u; exact tmFacts_of_not_inTm (hpc u)
    · intro _; exact Or.inr ⟨hf.1, hf.2.1, rfl⟩

theorem tm_etr {s : St} {t : Tid} {sh' : Sh} {p' : PC} (hi : Tm s) (h : ETr s t sh' p') : Tm (s.upd t sh' p') := by
  cases h
  case spawnClose | spawnCall | arrive | readErr | consume =>
    exact tm_frame hi (by simp [*, inTm]) rfl rfl rfl rfl rfl
  all_goals
    cases hx : inTm (s.pc readerTid) with
    | false => exact tm_frame hi hx hx rfl rfl rfl rfl
    | true => exact tm_body hi hx hx rfl (by have := hi.at_ readerTid; exact (tmFacts_congr rfl rfl rfl _).2 this)

theorem terminate_once_of_tm {s : St} (hi : Tm s) : s.sh.closes ≤ 1 := by
  cases ht : s.sh.term with
  | false => rw [(hi.none ht).2.1]; exact Nat.zero_le _
  | true =>
    rcases hi.done ht with ⟨u, hu⟩ | hd
    · have := hi.at_ u
      cases hpc : s.pc u <;> rw [hpc] at hu this <;> simp [inTm] at hu <;> simp only [tmFacts] at this <;> omega
    · omega

end Drpc.Manager.Sys
