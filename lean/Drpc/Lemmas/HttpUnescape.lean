import Drpc.Http.Unescape
/- Lemmas about the percent-decoding model: the Go loop equals the RFC 3986 reference decoder,
   never panics, and inverts every escaper that escapes at least the percent sign and the equals sign. -/
namespace Drpc.Http
open Drpc PercentRef

theorem unhexDigit_ref : ∀ v : Byte, unhexDigit v = (hexdig v).map (BitVec.ofNat 8) := by decide

theorem hexdig_lt : ∀ v : Byte, ∀ a, hexdig v = some a → a < 16 := by
  intro v a h
  unfold hexdig at h
  simp only at h
  split at h
  · cases h; omega
  · split at h
    · cases h; omega
    · split at h
      · cases h; omega
      · cases h

theorem combine : ∀ a b : Fin 16, (0#8 + BitVec.ofNat 8 a.val * 16#8) + BitVec.ofNat 8 b.val * 1#8 = BitVec.ofNat 8 (16 * a.val + b.val) := by decide

/-- the two `unhex` calls compute `16*hi + lo` exactly when both octets are HEXDIG -/
theorem unhex2 (h l : Byte) :
    (match unhex 0#8 h 16#8 with
     | none => none
     | some c1 => unhex c1 l 1#8) =
    (match hexdig h, hexdig l with
     | some a, some b => some (BitVec.ofNat 8 (16 * a + b))
     | _, _ => none) := by
  simp only [unhex, unhexDigit_ref]
  cases ha : hexdig h with
  | none => simp
  | some a =>
    cases hb : hexdig l with
    | none => simp
    | some b =>
      have := combine ⟨a, hexdig_lt h a ha⟩ ⟨b, hexdig_lt l b hb⟩
      simpa using this

def pre (acc : Bytes) : UR → UR
  | .ok t => .ok (acc ++ t)
  | r => r

theorem pre_prepend (acc : Bytes) (c : Byte) (r : UR) : pre acc (prepend c r) = pre (acc ++ [c]) r := by
  cases r <;> simp [pre, prepend]

theorem decode_cons_ne (c : Byte) (rest : Bytes) (h : ¬ c = pct) :
    decode (c :: rest) = prepend c (decode rest) := by
  conv => lhs; unfold decode
  simp only [h, if_false]

theorem loop_eq_ref (s : Bytes) : ∀ fuel i acc, i ≤ s.length → s.length - i < fuel →
    unescapeLoop s fuel i acc = pre acc (decode (s.drop i)) := by
  intro fuel
  induction fuel with
  | zero => intro i acc _ h; omega
  | succ fuel ih =>
    intro i acc hi hf
    unfold unescapeLoop
    by_cases hlt : i < s.length
    · simp only [hlt, if_true]
      rw [List.getElem?_eq_getElem hlt]
      simp only
      rw [List.drop_eq_getElem_cons hlt]
      by_cases hc : s[i] = pct
      · simp only [hc, if_true]
        by_cases he : i + 2 ≥ s.length
        · simp only [he, if_true]
          have : (s.drop (i+1)).length < 2 := by simp; omega
          unfold decode
          simp only [if_true]
          match hd : s.drop (i+1), this with
          | [], _ => simp [pre]
          | [_], _ => simp [pre]
        · simp only [he, if_false]
          have h1 : i + 1 < s.length := by omega
          have h2 : i + 2 < s.length := by omega
          rw [List.getElem?_eq_getElem h1, List.getElem?_eq_getElem h2]
          simp only
          rw [List.drop_eq_getElem_cons h1, List.drop_eq_getElem_cons h2]
          conv => rhs; unfold decode
          simp only [if_true]
          have key := unhex2 s[i+1] s[i+2]
          cases h16 : unhex 0#8 s[i+1] 16#8 with
          | none =>
            rw [h16] at key
            simp only at key
            cases ha : hexdig s[i+1] with
            | none => simp [pre]
            | some a =>
              cases hb : hexdig s[i+2] with
              | none => simp [pre]
              | some b => rw [ha, hb] at key; cases key
          | some c1 =>
            rw [h16] at key
            simp only at key
            cases h1' : unhex c1 s[i+2] 1#8 with
            | none =>
              rw [h1'] at key
              simp only [h1']
              cases ha : hexdig s[i+1] with
              | none => simp [pre]
              | some a =>
                cases hb : hexdig s[i+2] with
                | none => simp [pre]
                | some b => rw [ha, hb] at key; cases key
            | some c2 =>
              rw [h1'] at key
              simp only [h1']
              cases ha : hexdig s[i+1] with
              | none => rw [ha] at key; simp at key
              | some a =>
                cases hb : hexdig s[i+2] with
                | none => rw [ha, hb] at key; simp at key
                | some b =>
                  rw [ha, hb] at key
                  simp only [Option.some.injEq] at key
                  simp only
                  rw [ih (i+3) _ (by omega) (by omega), pre_prepend, key]
      · simp only [hc, if_false]
        rw [ih (i+1) _ (by omega) (by omega), decode_cons_ne _ _ hc, pre_prepend]
    · have : i = s.length := by omega
      subst this
      simp [pre, decode]

theorem decode_no_pct : ∀ s : Bytes, s.count pct = 0 → decode s = .ok s := by
  intro s
  induction s with
  | nil => intro _; simp [decode]
  | cons c rest ih =>
    intro h
    have hc : ¬ c = pct := by
      intro e; subst e; simp at h
    have hr : rest.count pct = 0 := by
      rw [List.count_cons] at h; omega
    rw [decode_cons_ne _ _ hc, ih hr]; rfl

theorem pre_nil (r : UR) : pre [] r = r := by cases r <;> simp [pre]

/-- the loop never runs out of fuel and never indexes out of range -/
theorem unescape_eq_decode (s : Bytes) : unescape s = decode s := by
  unfold unescape unescapeG
  by_cases h0 : s.count pct = 0
  · simp only [h0, if_true]; rw [decode_no_pct s h0]
  · simp only [h0, if_false, if_true]
    have hg : ((decide ((s.length : Int) - 2 * (s.count pct : Int) > 0)) &&
        !growOk ((s.length : Int) - 2 * (s.count pct : Int))) = false := by
      simp only [growOk, Bool.and_eq_false_iff, decide_eq_false_iff_not, Bool.not_eq_false',
        decide_eq_true_eq]
      omega
    simp only [hg]
    rw [loop_eq_ref s _ 0 [] (by omega) (by omega)]
    simp [pre_nil]

theorem decode_ne_panic : ∀ s : Bytes, decode s ≠ .panic := by
  intro s
  induction s using decode.induct with
  | case1 => simp [decode]
  | case2 h l rest a b ha hb ih =>
    rw [decode]; simp only [if_true, ha, hb]
    cases hd : decode rest <;> simp_all [prepend]
  | case3 h l rest hn =>
    rw [decode]; simp
  | case4 rest hn =>
    rw [decode]; simp; exact hn
  | case5 c rest hc ih =>
    rw [decode_cons_ne _ _ hc]
    cases hd : decode rest <;> simp_all [prepend]

theorem hexdig_upper : ∀ a : Fin 16, hexdig (hexUpper a.val) = some a.val := by decide
theorem hexdig_lower : ∀ a : Fin 16, hexdig (hexLower a.val) = some a.val := by decide
theorem upper_ne : ∀ a : Fin 16, hexUpper a.val ≠ eqs ∧ hexUpper a.val ≠ pct := by decide
theorem lower_ne : ∀ a : Fin 16, hexLower a.val ≠ eqs ∧ hexLower a.val ≠ pct := by decide

def hexOf (upper : Bool) (n : Nat) : Byte := if upper then hexUpper n else hexLower n

theorem hexdig_hexOf (u : Bool) (n : Nat) (h : n < 16) : hexdig (hexOf u n) = some n := by
  cases u
  · exact hexdig_lower ⟨n, h⟩
  · exact hexdig_upper ⟨n, h⟩

theorem hexOf_ne (u : Bool) (n : Nat) (h : n < 16) : ¬ hexOf u n = eqs := by
  cases u
  · exact (lower_ne ⟨n, h⟩).1
  · exact (upper_ne ⟨n, h⟩).1

theorem escapeWith_cons (p : Byte → Bool) (u : Bool) (c : Byte) (rest : Bytes) :
    escapeWith p u (c :: rest) =
      if p c then pct :: hexOf u (c.toNat / 16) :: hexOf u (c.toNat % 16) :: escapeWith p u rest
      else c :: escapeWith p u rest := by
  simp [escapeWith, hexOf]

/-- the reference decoder inverts every escaper that escapes at least '%' -/
theorem decode_escape (p : Byte → Bool) (hp : p pct = true) (u : Bool) (s rest : Bytes) :
    decode (escapeWith p u s ++ rest) = pre s (decode rest) := by
  induction s with
  | nil => simp [escapeWith, pre_nil]
  | cons c s ih =>
    have hc := c.isLt
    rw [escapeWith_cons]
    by_cases hpc : p c = true
    · simp only [hpc, if_true, List.cons_append]
      conv => lhs; unfold decode
      simp only [if_true, hexdig_hexOf u _ (show c.toNat / 16 < 16 by omega),
        hexdig_hexOf u _ (show c.toNat % 16 < 16 by omega)]
      rw [ih]
      have e : BitVec.ofNat 8 (16 * (c.toNat / 16) + c.toNat % 16) = c := by
        have : 16 * (c.toNat / 16) + c.toNat % 16 = c.toNat := by omega
        rw [this]; simp
      rw [e]
      cases decode rest <;> simp [pre, prepend]
    · have hne : ¬ c = pct := by intro e; subst e; exact hpc hp
      have hpc' : p c = false := by simpa using hpc
      simp only [hpc', Bool.false_eq_true, if_false, List.cons_append]
      rw [decode_cons_ne _ _ hne, ih]
      cases decode rest <;> simp [pre, prepend]

theorem indexByte_escape (p : Byte → Bool) (hp : p eqs = true) (u : Bool) (s rest : Bytes) :
    indexByte eqs (escapeWith p u s ++ eqs :: rest) = some (escapeWith p u s).length := by
  induction s with
  | nil => simp [escapeWith, indexByte]
  | cons c s ih =>
    have hc := c.isLt
    rw [escapeWith_cons]
    by_cases hpc : p c = true
    · simp only [hpc, if_true, List.cons_append, indexByte]
      have h0 : ¬ pct = eqs := by decide
      simp only [h0, if_false, hexOf_ne u _ (show c.toNat / 16 < 16 by omega),
        hexOf_ne u _ (show c.toNat % 16 < 16 by omega), ih]
      simp
    · have hne : ¬ c = eqs := by intro e; subst e; exact hpc hp
      have hpc' : p c = false := by simpa using hpc
      simp only [hpc', Bool.false_eq_true, if_false, List.cons_append, indexByte, hne, ih]
      simp

theorem indexByte_le : ∀ (b : Byte) (s : Bytes) (i : Nat), indexByte b s = some i → i < s.length := by
  intro b s
  induction s with
  | nil => intro i h; simp [indexByte] at h
  | cons c s ih =>
    intro i h
    simp only [indexByte] at h
    split at h
    · cases h; simp
    · cases hr : indexByte b s with
      | none => rw [hr] at h; simp at h
      | some j => rw [hr] at h; simp at h; have := ih j hr; simp; omega

theorem buildEntry_escape (p : Byte → Bool) (hp1 : p pct = true) (hp2 : p eqs = true) (u : Bool)
    (key value : Bytes) :
    buildEntry (escapeWith p u key ++ eqs :: escapeWith p u value) = .ok key value := by
  unfold buildEntry
  rw [indexByte_escape p hp2]
  simp only
  have hlen : ¬ ((escapeWith p u key).length + 1 > (escapeWith p u key ++ eqs :: escapeWith p u value).length) := by
    simp
  simp only [hlen, if_false]
  have hd : (escapeWith p u key ++ eqs :: escapeWith p u value).drop ((escapeWith p u key).length + 1)
      = escapeWith p u value := by
    rw [List.drop_append]; simp
  have ht : (escapeWith p u key ++ eqs :: escapeWith p u value).take (escapeWith p u key).length
      = escapeWith p u key := by
    rw [List.take_append]; simp
  rw [hd, ht, unescape_eq_decode, unescape_eq_decode]
  have h1 := decode_escape p hp1 u value []
  have h2 := decode_escape p hp1 u key []
  simp only [List.append_nil] at h1 h2
  rw [h1, h2]
  simp [decode, pre]

theorem unescape_ne_panic (s : Bytes) : unescape s ≠ .panic := by
  rw [unescape_eq_decode]; exact decode_ne_panic s

theorem buildEntry_ne_panic (e : Bytes) : buildEntry e ≠ .panic := by
  unfold buildEntry
  cases hi : indexByte eqs e with
  | none =>
    simp only
    have := unescape_ne_panic e
    cases hu : unescape e <;> simp_all
  | some idx =>
    simp only
    have hlt := indexByte_le _ _ _ hi
    have : ¬ (idx + 1 > e.length) := by omega
    simp only [this, if_false]
    have h1 := unescape_ne_panic (e.drop (idx + 1))
    have h2 := unescape_ne_panic (e.take idx)
    cases hu : unescape (e.drop (idx + 1)) <;> simp_all
    cases hv : unescape (e.take idx) <;> simp_all

theorem buildContext_ne_panic (es : List Bytes) : buildContext es ≠ .panic := by
  induction es with
  | nil => simp [buildContext]
  | cons e es ih =>
    unfold buildContext
    have := buildEntry_ne_panic e
    cases he : buildEntry e <;> simp_all
    cases hc : buildContext es <;> simp_all

theorem decode_len : ∀ (s t : Bytes), decode s = .ok t → t.length ≤ s.length := by
  intro s
  induction s using decode.induct with
  | case1 => intro t h; simp [decode] at h; subst h; simp
  | case2 h l rest a b ha hb ih =>
    intro t ht
    rw [decode] at ht; simp only [if_true, ha, hb] at ht
    cases hd : decode rest with
    | ok t' => rw [hd] at ht; simp [prepend] at ht; subst ht; have := ih t' hd; simp; omega
    | ends => rw [hd] at ht; simp [prepend] at ht
    | hex => rw [hd] at ht; simp [prepend] at ht
    | panic => rw [hd] at ht; simp [prepend] at ht
  | case3 h l rest hn => intro t ht; rw [decode] at ht; simp at ht
  | case4 rest hn =>
    intro t ht
    unfold decode at ht
    simp only [if_true] at ht
    cases ht
  | case5 c rest hc ih =>
    intro t ht
    rw [decode_cons_ne _ _ hc] at ht
    cases hd : decode rest with
    | ok t' => rw [hd] at ht; simp [prepend] at ht; subst ht; have := ih t' hd; simp; omega
    | ends => rw [hd] at ht; simp [prepend] at ht
    | hex => rw [hd] at ht; simp [prepend] at ht
    | panic => rw [hd] at ht; simp [prepend] at ht

end Drpc.Http
