import Drpc.Lemmas.StreamSend
/-
  The write section of a MsgSend ends with `rawFlushLocked` exactly when the stream is not in
  ManualFlush mode: tracking of the section's `flush` mode from the call to the recorded result.
-/
namespace Drpc.Stream
attribute [local simp] firstSec flushSec getInflight getOnce relSh Option.join_eq_some_iff Option.join_eq_none_iff
  inflightFrames

/-- the write section a thread is in, after the message id has been taken -/
def inSec : PC → Option WSec
  | .frame sec | .writing sec _ | .flush sec | .ret sec _ | .unlockW sec _ => some sec
  | _ => none

/-- before that: a MsgSend carries the section with the flush mode the options dictate -/
def pcOK4 (o : Opts) : PC → Bool
  | .lockW c sec | .heldW c sec | .marshal c sec => !c.isMsgSend || (sec.flush.isChecked == !o.manualFlush)
  | _ => true

gen_ctor_simp inSec
@[simp] theorem inSec_afterTerm (c : Call) : inSec (afterTerm c) = none := by cases c <;> rfl
theorem pcOK4_afterTerm (o : Opts) (c : Call) : pcOK4 o (afterTerm c) = true := by cases c <;> rfl
theorem inSec_holdsW (p : PC) (sec : WSec) (h : inSec p = some sec) : holdsW p = true := by
  cases p <;> simp_all

theorem step_pcOK4 {s s' : St} {t : Tid} (h : step s t = some s')
    (ih : ∀ u, pcOK4 s.opts (s.pc u) = true) : ∀ u, pcOK4 s'.opts (s'.pc u) = true := by
  have iht := ih t
  unfold step at h
  pc_cases s t hp =>
    rw [hp] at iht
    step_explode h hp
    all_goals (simp only [upd_opts])
    all_goals (refine all_step ih ?_)
    all_goals (simp [↓pcOK4_afterTerm, pcOK4] at iht ⊢)
    all_goals (try simp_all)

theorem env_pcOK4 {s s' : St} {e : Env} (h : envStep s e = some s')
    (ih : ∀ u, pcOK4 s.opts (s.pc u) = true) : ∀ u, pcOK4 s'.opts (s'.pc u) = true := by
  env_cases h with t hp hi =>
    have iht := ih t
    rw [hp] at iht
    simp only [upd_opts]
    refine all_step ih ?_
    simp [pcOK4] at iht ⊢
    try simp_all

theorem reach_pcOK4 {s : St} (h : Reach s) : ∀ u, pcOK4 s.opts (s.pc u) = true := by
  induction h with
  | init o => intro u; rfl
  | step _ hs ih => exact step_pcOK4 hs ih
  | env _ he ih => exact env_pcOK4 he ih
  | spawn _ hd ih => rw [setPc_eq_upd]; simp only [upd_opts]; exact all_step ih (by simp [pcOK4])

/-- how a step moves the thread with respect to its write section -/
theorem step_sec {s s' : St} {t : Tid} (h : step s t = some s') (ok3 : pcOK3 (s.pc t) = true)
    (ok4 : pcOK4 s.opts (s.pc t) = true) :
    (inSec (s'.pc t) = none ∧ s'.sh.started = s.sh.started ∧ s'.sh.mid = s.sh.mid) ∨
    (∃ sec sec', inSec (s.pc t) = some sec ∧ inSec (s'.pc t) = some sec' ∧ sec'.checks = sec.checks ∧
      sec'.flush = sec.flush ∧ s'.sh.started = s.sh.started ∧ s'.sh.mid = s.sh.mid) ∨
    (holdsW (s.pc t) = true ∧ ∃ sec', inSec (s'.pc t) = some sec' ∧
      (sec'.checks = false ∨ ∃ rec, s'.sh.started = s.sh.started ++ [rec] ∧ rec.mid = s'.sh.mid ∧
        (rec.call.isMsgSend = true → sec'.flush.isChecked = !s.opts.manualFlush))) := by
  unfold step at h
  pc_cases s t hp =>
    rw [hp] at ok3 ok4
    step_explode h hp
    all_goals (simp [pcOK4] at ok3 ok4)
    all_goals (simp [*])
    all_goals (try simp_all)

theorem env_inSec {s s' : St} {e : Env} (h : envStep s e = some s') :
    ∀ u sec, inSec (s'.pc u) = some sec → inSec (s.pc u) = some sec := by
  env_cases h with t hp hi =>
    intro u sec
    rcases upd_pc_cases s t u _ _ with ⟨rfl, h1⟩ | ⟨_, h1⟩ <;> rw [h1]
    · simp [hp]
    · exact id

theorem isChecked_decide (f : FlushMode) : decide (f = .checked) = f.isChecked := by cases f <;> rfl

structure MsgFlush (s : St) : Prop where
  sf : ∀ u sec, inSec (s.pc u) = some sec → sec.checks = true → ∃ r, s.sh.started.getLast? = some r ∧
    r.mid = s.sh.mid ∧ (r.call.isMsgSend = true → sec.flush.isChecked = !s.opts.manualFlush)
  retsLe : ∀ x ∈ s.sh.sendRets, x.2.1.toNat ≤ s.sh.midN
  /-- the recorded flag of a MsgSend's result: flushed iff not ManualFlush -/
  retsF : ∀ x ∈ s.sh.sendRets, ∀ r ∈ s.sh.started, r.mid = x.2.1 → r.call.isMsgSend = true →
    x.2.2.2 = !s.opts.manualFlush

theorem MsgFlush.init (o : Opts) : MsgFlush { opts := o } := by
  constructor <;> simp

theorem MsgFlush.step {s s' : St} {t : Tid} (h : step s t = some s') (l : Locks s) (w : Wire s) (m : Msgs s)
    (ok3 : ∀ u, pcOK3 (s.pc u) = true) (ok5 : ∀ u, pcOK5 (s.pc u) = true) (ok4 : ∀ u, pcOK4 s.opts (s.pc u) = true)
    (hnw : s'.sh.midN < 2^64) (i : MsgFlush s) : MsgFlush s' := by
  have hother : ∀ u, u ≠ t → s'.pc u = s.pc u := fun u hu => step_pc_other hu h
  have hopts := step_opts h
  have hnw0 := Nat.lt_of_le_of_lt (step_midN_le h) hnw
  have hmidN : s.sh.mid.toNat = s.sh.midN := by rw [w.midEq, ofNat_toNat_of_lt hnw0]
  refine { sf := ?_, retsLe := ?_, retsF := ?_ }
  · intro u sec hu hck
    rw [hopts]
    by_cases hut : u = t
    · subst hut
      rcases step_sec h (ok3 u) (ok4 u) with ⟨h1, _, _⟩ | ⟨sec0, sec1, h1, h2, h3, h4, h5, h6⟩ |
          ⟨_, sec1, h2, h3⟩
      · rw [h1] at hu; cases hu
      · rw [h2] at hu; cases hu
        rw [h5, h6, h4]
        exact i.sf u sec0 h1 (h3 ▸ hck)
      · rw [h2] at hu; cases hu
        rcases h3 with h3 | ⟨rec, h5, h6, h7⟩
        · rw [h3] at hck; cases hck
        · exact ⟨rec, by rw [h5]; simp, h6, h7⟩
    · rw [hother u hut] at hu
      have hwu := inSec_holdsW _ _ hu
      rcases step_sec h (ok3 t) (ok4 t) with ⟨_, h5, h6⟩ | ⟨_, _, _, _, _, _, h5, h6⟩ | ⟨hwt, _⟩
      · rw [h5, h6]; exact i.sf u sec hu hck
      · rw [h5, h6]; exact i.sf u sec hu hck
      · exact absurd (l.w.unique hwu hwt) hut
  · intro x hx
    rcases step_shape2 h l (ok3 t) (ok5 t) with ⟨_, _, _, h4, _, _, _, _, _, h10⟩ |
        ⟨_, _, _, h10, _, h4, _⟩ | ⟨_, _, _, _, _, _, h4, _, _, h10, _⟩
    · rw [h4]
      rcases h10 with h10 | ⟨sec, r, _, _, h10⟩
      · rw [h10] at hx; exact i.retsLe x hx
      · rw [h10, List.mem_append, List.mem_singleton] at hx
        rcases hx with hx | rfl
        · exact i.retsLe x hx
        · simp [hmidN]
    · rw [h10] at hx; rw [h4]; have := i.retsLe x hx; omega
    · rw [h10] at hx; rw [h4]; exact i.retsLe x hx
  · intro x hx r hr hm hms
    rw [hopts]
    rcases step_shape2 h l (ok3 t) (ok5 t) with ⟨_, _, _, _, h5, _, _, _, _, h10⟩ |
        ⟨_, _, _, h10, _, _, _, _, rec, h5, hrm, _⟩ | ⟨_, _, _, _, _, _, _, h5, _, h10, _⟩
    · rw [h5] at hr
      rcases h10 with h10 | ⟨sec, r', hp, hck, h10⟩
      · rw [h10] at hx; exact i.retsF x hx r hr hm hms
      · rw [h10, List.mem_append, List.mem_singleton] at hx
        rcases hx with hx | rfl
        · exact i.retsF x hx r hr hm hms
        · obtain ⟨r0, hl0, hm0, hf0⟩ := i.sf t sec (by simp [hp]) hck
          have : r = r0 := pairwise_mid_inj m.sInc hr (List.mem_of_getLast? hl0) (hm.trans hm0.symm)
          subst this
          simp only [isChecked_decide]
          exact hf0 hms
    · rw [h10] at hx
      rw [h5, List.mem_append, List.mem_singleton] at hr
      rcases hr with hr | rfl
      · exact i.retsF x hx r hr hm hms
      · exfalso
        have hle := i.retsLe x hx
        rw [← hm, hrm, w.midEq, ← BitVec.ofNat_add, ofNat_toNat_of_lt] at hle
        · omega
        · have := step_midN_le h
          rcases step_shape2 h l (ok3 t) (ok5 t) with ⟨_, _, _, _, h5', _⟩ | ⟨_, _, _, _, _, h4, _⟩ | ⟨_, _, _, _, _, _, _, h5', _⟩
          · rw [h5'] at h5; simp at h5
          · omega
          · rw [h5'] at h5; simp at h5
    · rw [h10] at hx; rw [h5] at hr; exact i.retsF x hx r hr hm hms

theorem MsgFlush.env {s s' : St} {e : Env} (h : envStep s e = some s') (l : Locks s)
    (hb : s.sh.inflight.isSome = true → s.sh.wbuf = []) (i : MsgFlush s) : MsgFlush s' := by
  obtain ⟨_, h3, h4, h5, h10, _⟩ := env_shape2 h l hb
  have hopts : s'.opts = s.opts := (env_mid h).2.2.2
  refine { sf := ?_, retsLe := ?_, retsF := ?_ }
  · intro u sec hu hck
    rw [h5, h3, hopts]; exact i.sf u sec (env_inSec h u sec hu) hck
  · rw [h10, h4]; exact i.retsLe
  · rw [h10, h5, hopts]; exact i.retsF

theorem MsgFlush.spawn {s : St} {t : Tid} {c : Call} (_hd : ∃ r, s.pc t = .done r) (i : MsgFlush s) :
    MsgFlush (s.setPc t (.start c)) := by
  rw [setPc_eq_upd]
  refine { sf := ?_, retsLe := by simpa using i.retsLe, retsF := by simpa using i.retsF }
  intro u sec hu hck
  rcases upd_pc_cases s t u s.sh (.start c) with ⟨_, h1⟩ | ⟨_, h1⟩ <;> rw [h1] at hu
  · simp at hu
  · simpa using i.sf u sec hu hck

theorem reach_msgFlush {s : St} (h : Reach s) : s.sh.midN < 2^64 → MsgFlush s := by
  induction h with
  | init o => intro _; exact MsgFlush.init o
  | step hr hs ih =>
    intro hnw
    have hnw0 := Nat.lt_of_le_of_lt (step_midN_le hs) hnw
    exact (ih hnw0).step hs (reach_locks hr) (reach_wire hr) (reach_msgs hr hnw0) (reach_pcOK3 hr)
      (reach_pcOK5 hr) (reach_pcOK4 hr) hnw
  | env hr he ih =>
    intro hnw
    have hnw0 : _ < 2^64 := (env_mid he).2.1 ▸ hnw
    exact (ih hnw0).env he (reach_locks hr) (reach_inflightBuf hr)
  | spawn _ hd ih =>
    intro hnw
    exact (ih (by simpa using hnw)).spawn hd

/-! ### a concrete run: a MsgSend that returns nil -/

namespace SendEx

def f : Frame := ⟨[7#8], 1, 1, 2, true, false⟩
theorem frames : framesOf { wsize := 0, sid := 1#64 } 1#64 2#8 [7#8] = [f] := by
  simp [framesOf, splitSize, f]
  rw [splitFrames]; simp

macro "run" : tactic => `(tactic|
  repeat (rw [runSolo_succ]; simp (config := { maxSteps := 400000 }) [step, stepPC, afterTerm, flushSec, kindMessage, frames, bufBytes]))

def rec1 : Started := ⟨1, 2, [7#8], [f], .msgSend [7#8]⟩
def sec : WSec := { frames := [], checks := true, flush := .checked, recvAfter := none }
def g0 : St := { opts := { wsize := 0 } }
/-- `MsgSend [7]` with writer threshold 0: parked in the transport write of its one frame -/
def g1 : St := g0.upd 0 { w := some 0, wHeld := true, once := some none, mid := 1, wFlag := true, inflight := some (0, [f]), hist := [f], midN := 1, started := [rec1] } (.writing sec false)
/-- … the write succeeded -/
def g2 : St := g0.upd 0 { w := some 0, wHeld := true, once := some none, mid := 1, wire := [[f]], hist := [f], midN := 1, started := [rec1] } (.flush sec)
/-- … and MsgSend returned nil -/
def g3 : St := g0.upd 0 { once := some none, mid := 1, wire := [[f]], hist := [f], midN := 1, started := [rec1], sendRets := [(0, 1, .nil, true)] } (.done .nil)

theorem g01 : call g0 0 (.msgSend [7#8]) = g1 := by
  unfold g1 g0 call sec rec1; run
theorem g12 : envStep g1 (.release none) = some g2 := by
  simp [envStep, g1, g2, sec]
theorem g23 : runSolo 64 g2 0 = g3 := by
  unfold g2 g3 g0 sec; run

end SendEx

end Drpc.Stream
