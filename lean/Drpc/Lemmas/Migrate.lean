import Drpc.Migrate
/-
  Lemmas about §1 of the drpcmigrate model: one conn.Read, the generic read-until-error loop,
  prefixConn (io.MultiReader over bytes.Reader and the conn), io.ReadFull.
-/
namespace Drpc.Migrate

theorem clamp_bounds (w n a : Nat) (hn : 1 ≤ n) (ha : 1 ≤ a) : 1 ≤ clamp w n a ∧ clamp w n a ≤ n ∧ clamp w n a ≤ a := by
  unfold clamp; omega

/-- what one `conn.Read` of n ≥ 1 bytes does -/
theorem Conn.read_spec (chunk : Nat → Nat) (c : Conn) (n : Nat) (hn : 1 ≤ n) :
    c.data = (c.read chunk n).1 ++ (c.read chunk n).2.2.data ∧
    (c.read chunk n).2.2.final = c.final ∧ (c.read chunk n).2.2.attached = c.attached ∧
    (c.read chunk n).1.length ≤ n ∧
    (c.data ≠ [] → 1 ≤ (c.read chunk n).1.length) ∧
    ((c.read chunk n).2.1 = none → 1 ≤ (c.read chunk n).1.length) ∧
    (∀ e, (c.read chunk n).2.1 = some e → e = c.final ∧ (c.read chunk n).2.2.data = []) := by
  unfold Conn.read
  by_cases h0 : c.data = []
  · simp [h0]
  · have hn0 : n ≠ 0 := by omega
    have hl : 1 ≤ c.data.length := by
      cases hd : c.data with
      | nil => exact absurd hd h0
      | cons _ _ => simp
    have hb := clamp_bounds (chunk c.step) n c.data.length hn hl
    simp only [h0, hn0, ↓reduceIte]
    refine ⟨by simp, trivial, trivial, ?_, ?_, ?_, ?_⟩
    · simp [List.length_take]; omega
    · intro _; simp [List.length_take]; omega
    · intro _; simp [List.length_take]; omega
    · intro e he
      split at he
      · rename_i hc; cases he; exact ⟨rfl, hc.1⟩
      · cases he


/-- A reader that loses `μ` on every successful read, whose reads are a decomposition of `content`
    and whose first error is `fin` at exhaustion, yields exactly `content` and ends with `fin`. -/
theorem drainWith_spec {σ : Type} (rd : σ → Nat → Bytes × RdErr × σ) (sz : Nat → Nat)
    (content : σ → Bytes) (fin μ : σ → Nat)
    (h : ∀ s n, 1 ≤ n → content s = (rd s n).1 ++ content (rd s n).2.2 ∧ fin (rd s n).2.2 = fin s ∧
        ((rd s n).2.1 = none → μ (rd s n).2.2 < μ s) ∧
        (∀ e, (rd s n).2.1 = some e → e = fin s ∧ content (rd s n).2.2 = [])) :
    ∀ fuel i s, μ s < fuel →
      (drainWith rd sz fuel i s).1.flatten = content s ∧ (drainWith rd sz fuel i s).2 = some (fin s) := by
  intro fuel
  induction fuel with
  | zero => intro i s hs; omega
  | succ f ih =>
    intro i s hs
    have hn : 1 ≤ max 1 (sz i) := by omega
    obtain ⟨h1, h2, h3, h4⟩ := h s (max 1 (sz i)) hn
    unfold drainWith
    simp only []
    cases he : (rd s (max 1 (sz i))).2.1 with
    | some e =>
      obtain ⟨e1, e2⟩ := h4 e he
      simp only []
      refine ⟨?_, by rw [e1]⟩
      rw [h1, e2]; simp
    | none =>
      have hlt := h3 he
      obtain ⟨i1, i2⟩ := ih (i + 1) (rd s (max 1 (sz i))).2.2 (by omega)
      simp only []
      refine ⟨?_, by rw [i2, h2]⟩
      rw [List.flatten_cons, i1, ← h1]

/-- the unread content of a prefixConn -/
def PrefixConn.content (pc : PrefixConn) : Bytes := pc.pre.getD [] ++ (if pc.live then pc.conn.data else [])
def PrefixConn.fin (pc : PrefixConn) : Nat := if pc.live then pc.conn.final else 0

theorem PrefixConn.read_spec (chunk : Nat → Nat) (pc : PrefixConn) (n : Nat) (hn : 1 ≤ n) :
    pc.content = (pc.read chunk n).1 ++ (pc.read chunk n).2.2.content ∧
    (pc.read chunk n).2.2.fin = pc.fin ∧
    ((pc.read chunk n).2.1 = none → (pc.read chunk n).2.2.content.length < pc.content.length) ∧
    (∀ e, (pc.read chunk n).2.1 = some e → e = pc.fin ∧ (pc.read chunk n).2.2.content = []) := by
  obtain ⟨pre, live, conn⟩ := pc
  have key : ∀ (pre : Option Bytes), pre.getD [] = [] → 
      (PrefixConn.mk pre live conn).content = ((PrefixConn.mk none live conn).read chunk n).1 ++ ((PrefixConn.mk none live conn).read chunk n).2.2.content ∧
      ((PrefixConn.mk none live conn).read chunk n).2.2.fin = (PrefixConn.mk pre live conn).fin ∧
      (((PrefixConn.mk none live conn).read chunk n).2.1 = none → ((PrefixConn.mk none live conn).read chunk n).2.2.content.length < (PrefixConn.mk pre live conn).content.length) ∧
      (∀ e, ((PrefixConn.mk none live conn).read chunk n).2.1 = some e → e = (PrefixConn.mk pre live conn).fin ∧ ((PrefixConn.mk none live conn).read chunk n).2.2.content = []) := by
    intro pre hp
    obtain ⟨c1, c2, c3, c4, c5, c6, c7⟩ := Conn.read_spec chunk conn n hn
    cases live with
    | false => simp [PrefixConn.read, PrefixConn.content, PrefixConn.fin, hp]
    | true =>
      simp only [PrefixConn.read, PrefixConn.content, PrefixConn.fin, hp, ↓reduceIte, List.nil_append, Option.getD_none]
      cases he : (conn.read chunk n).2.1 with
      | none =>
        have := c6 he
        refine ⟨by simpa using c1, by simp [c2], ?_, by simp⟩
        intro _
        simp only [bne_iff_ne, ne_eq, reduceCtorEq, not_false_eq_true, ↓reduceIte]
        have hl := congrArg List.length c1
        simp only [List.length_append] at hl
        omega
      | some e =>
        obtain ⟨e1, e2⟩ := c7 e he
        subst e1
        refine ⟨?_, ?_, by simp, ?_⟩
        · by_cases h0 : conn.final = 0 <;> simp [h0, e2] <;> (rw [e2] at c1; simpa using c1)
        · by_cases h0 : conn.final = 0 <;> simp [h0, c2]
        · intro e' he'; cases he'
          by_cases h0 : conn.final = 0 <;> simp [h0, e2]
  cases pre with
  | none => exact key none rfl
  | some p =>
    cases p with
    | nil =>
      have := key (some []) rfl
      simpa [PrefixConn.read] using this
    | cons b bs =>
      simp only [PrefixConn.read, PrefixConn.content, PrefixConn.fin, Option.getD_some]
      refine ⟨?_, rfl, ?_, by simp⟩
      · cases live <;> simp [← List.append_assoc, List.take_append_drop]
      · intro _
        cases live <;> simp <;> omega


theorem PrefixConn.readAll_spec (chunk sz : Nat → Nat) (pc : PrefixConn) (hl : pc.live = true) :
    (pc.readAll chunk sz).1.flatten = pc.pre.getD [] ++ pc.conn.data ∧ (pc.readAll chunk sz).2 = some pc.conn.final := by
  have := drainWith_spec (PrefixConn.read chunk) sz PrefixConn.content PrefixConn.fin (fun p => p.content.length)
    (fun s n hn => PrefixConn.read_spec chunk s n hn) (pc.remaining + 1) 0 pc
    (by simp [PrefixConn.content, PrefixConn.remaining, hl])
  simpa [PrefixConn.readAll, PrefixConn.content, PrefixConn.fin, hl] using this

theorem Conn.readAll_spec (chunk sz : Nat → Nat) (c : Conn) :
    (c.readAll chunk sz).1.flatten = c.data ∧ (c.readAll chunk sz).2 = some c.final := by
  have := drainWith_spec (Conn.read chunk) sz Conn.data Conn.final (fun c => c.data.length)
    (fun s n hn => by
      obtain ⟨c1, c2, _, _, _, c6, c7⟩ := Conn.read_spec chunk s n hn
      refine ⟨c1, c2, ?_, c7⟩
      intro he
      have := c6 he
      have hl := congrArg List.length c1
      simp only [List.length_append] at hl
      omega)
    (c.data.length + 1) 0 c (by simp)
  simpa [Conn.readAll] using this

/-- the boundary between the replayed prefix and the connection's own bytes is a read boundary -/
theorem PrefixConn.reads_split (chunk sz : Nat → Nat) :
    ∀ (fuel i : Nat) (p : Bytes) (c : Conn), p.length + c.data.length < fuel →
      ∃ a b, (drainWith (PrefixConn.read chunk) sz fuel i { pre := some p, live := true, conn := c }).1 = a ++ b ∧
        a.flatten = p ∧ b.flatten = c.data := by
  intro fuel
  induction fuel with
  | zero => intro i p c h; omega
  | succ f ih =>
    intro i p c h
    cases p with
    | nil =>
      refine ⟨[], _, (List.nil_append _).symm, rfl, ?_⟩
      have := drainWith_spec (PrefixConn.read chunk) sz PrefixConn.content PrefixConn.fin (fun p => p.content.length)
        (fun s n hn => PrefixConn.read_spec chunk s n hn) (f + 1) i { pre := some [], live := true, conn := c }
        (by simpa [PrefixConn.content] using h)
      simpa [PrefixConn.content] using this.1
    | cons x xs =>
      have hn : 1 ≤ max 1 (sz i) := by omega
      obtain ⟨a, b, e1, e2, e3⟩ := ih (i + 1) ((x :: xs).drop (max 1 (sz i))) c (by
        simp only [List.length_drop, List.length_cons] at *; omega)
      refine ⟨(x :: xs).take (max 1 (sz i)) :: a, b, ?_, ?_, e3⟩
      · rw [drainWith]
        simp only [PrefixConn.read, List.cons_append]
        rw [e1]
      · rw [List.flatten_cons, e2, List.take_append_drop]

theorem readFullAux_ok (chunk : Nat → Nat) : ∀ (fuel need : Nat) (c : Conn) (acc : Bytes),
    need ≤ fuel → need ≤ c.data.length →
    (readFullAux chunk fuel need c acc).1 = true ∧
    (readFullAux chunk fuel need c acc).2.1 = acc ++ c.data.take need ∧
    (readFullAux chunk fuel need c acc).2.2.data = c.data.drop need ∧
    (readFullAux chunk fuel need c acc).2.2.final = c.final ∧
    (readFullAux chunk fuel need c acc).2.2.attached = c.attached := by
  intro fuel
  induction fuel with
  | zero =>
    intro need c acc h1 h2
    have : need = 0 := by omega
    subst this
    simp [readFullAux]
  | succ f ih =>
    intro need c acc h1 h2
    cases need with
    | zero => simp [readFullAux]
    | succ k =>
      obtain ⟨c1, c2, c3, c4, c5, c6, c7⟩ := Conn.read_spec chunk c (k + 1) (by omega)
      have hne : c.data ≠ [] := by intro h0; rw [h0] at h2; simp at h2
      have hpos := c5 hne
      rw [readFullAux]
      generalize c.read chunk (k + 1) = r at *
      obtain ⟨out, err, c'⟩ := r
      simp only at *
      have hlen := congrArg List.length c1
      simp only [List.length_append] at hlen
      by_cases hfull : k + 1 ≤ out.length
      · simp only [hfull, ↓reduceIte]
        have heq : out.length = k + 1 := by omega
        refine ⟨trivial, ?_, ?_, c2, c3⟩
        · rw [c1, ← heq, List.take_left]
        · rw [c1, ← heq, List.drop_left]
      · simp only [hfull, ↓reduceIte]
        cases err with
        | some e =>
          exfalso
          have := (c7 e rfl).2
          rw [this] at hlen
          simp at hlen
          omega
        | none =>
          simp only []
          obtain ⟨i1, i2, i3, i4, i5⟩ := ih (k + 1 - out.length) c' (acc ++ out) (by omega) (by omega)
          refine ⟨i1, ?_, ?_, by rw [i4, c2], by rw [i5, c3]⟩
          · rw [i2, c1, List.take_append, List.take_of_length_le c4, List.append_assoc]
          · rw [i3, c1, List.drop_append, List.drop_of_length_le c4]
            simp

theorem readFullAux_short (chunk : Nat → Nat) : ∀ (fuel need : Nat) (c : Conn) (acc : Bytes),
    need ≤ fuel → c.data.length < need → (readFullAux chunk fuel need c acc).1 = false := by
  intro fuel
  induction fuel with
  | zero => intro need c acc h1 h2; omega
  | succ f ih =>
    intro need c acc h1 h2
    cases need with
    | zero => omega
    | succ k =>
      obtain ⟨c1, c2, c3, c4, c5, c6, c7⟩ := Conn.read_spec chunk c (k + 1) (by omega)
      have hlen := congrArg List.length c1
      simp only [List.length_append] at hlen
      rw [readFullAux]
      have hfull : ¬ (k + 1 ≤ (c.read chunk (k + 1)).1.length) := by omega
      simp only [hfull, ↓reduceIte]
      cases he : (c.read chunk (k + 1)).2.1 with
      | some e => rfl
      | none =>
        have := c6 he
        exact ih _ _ _ (by omega) (by omega)

end Drpc.Migrate
