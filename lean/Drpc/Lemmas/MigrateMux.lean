import Drpc.Migrate
/-
  Projection lemmas for the state updates of the ListenMux transition system (generated boilerplate),
  and the three inductive invariants behind the C16 routing theorems.
-/
set_option linter.unusedSimpArgs false
namespace Drpc.Migrate.Mux

@[simp, grind =] theorem setConn_conn (s : State) (c : Cid) (p : ConnPC) (u : Nat) : (s.setConn c p).conn u = if u = c then p else s.conn u := rfl
@[simp, grind =] theorem setConn_mdone (s : State) (c : Cid) (p : ConnPC) : (s.setConn c p).mdone = s.mdone := rfl
@[simp, grind =] theorem setConn_merr (s : State) (c : Cid) (p : ConnPC) : (s.setConn c p).merr = s.merr := rfl
@[simp, grind =] theorem setConn_baseAlive (s : State) (c : Cid) (p : ConnPC) : (s.setConn c p).baseAlive = s.baseAlive := rfl
@[simp, grind =] theorem setConn_routes (s : State) (c : Cid) (p : ConnPC) : (s.setConn c p).routes = s.routes := rfl
@[simp, grind =] theorem setConn_nextLid (s : State) (c : Cid) (p : ConnPC) : (s.setConn c p).nextLid = s.nextLid := rfl
@[simp, grind =] theorem setConn_ldone (s : State) (c : Cid) (p : ConnPC) : (s.setConn c p).ldone = s.ldone := rfl
@[simp, grind =] theorem setConn_lerr (s : State) (c : Cid) (p : ConnPC) : (s.setConn c p).lerr = s.lerr := rfl
@[simp, grind =] theorem setConn_mon (s : State) (c : Cid) (p : ConnPC) : (s.setConn c p).mon = s.mon := rfl
@[simp, grind =] theorem setConn_run (s : State) (c : Cid) (p : ConnPC) : (s.setConn c p).run = s.run := rfl
@[simp, grind =] theorem setConn_cdata (s : State) (c : Cid) (p : ConnPC) : (s.setConn c p).cdata = s.cdata := rfl
@[simp, grind =] theorem setConn_ccloses (s : State) (c : Cid) (p : ConnPC) : (s.setConn c p).ccloses = s.ccloses := rfl
@[simp, grind =] theorem setConn_acc (s : State) (c : Cid) (p : ConnPC) : (s.setConn c p).acc = s.acc := rfl
@[simp, grind =] theorem setConn_accepted (s : State) (c : Cid) (p : ConnPC) : (s.setConn c p).accepted = s.accepted := rfl
@[simp, grind =] theorem setConn_closedLog (s : State) (c : Cid) (p : ConnPC) : (s.setConn c p).closedLog = s.closedLog := rfl
@[simp, grind =] theorem setConn_panics (s : State) (c : Cid) (p : ConnPC) : (s.setConn c p).panics = s.panics := rfl
@[simp, grind =] theorem setAcc_acc (s : State) (t : Tid) (p : AccPC) (u : Nat) : (s.setAcc t p).acc u = if u = t then p else s.acc u := rfl
@[simp, grind =] theorem setAcc_mdone (s : State) (t : Tid) (p : AccPC) : (s.setAcc t p).mdone = s.mdone := rfl
@[simp, grind =] theorem setAcc_merr (s : State) (t : Tid) (p : AccPC) : (s.setAcc t p).merr = s.merr := rfl
@[simp, grind =] theorem setAcc_baseAlive (s : State) (t : Tid) (p : AccPC) : (s.setAcc t p).baseAlive = s.baseAlive := rfl
@[simp, grind =] theorem setAcc_routes (s : State) (t : Tid) (p : AccPC) : (s.setAcc t p).routes = s.routes := rfl
@[simp, grind =] theorem setAcc_nextLid (s : State) (t : Tid) (p : AccPC) : (s.setAcc t p).nextLid = s.nextLid := rfl
@[simp, grind =] theorem setAcc_ldone (s : State) (t : Tid) (p : AccPC) : (s.setAcc t p).ldone = s.ldone := rfl
@[simp, grind =] theorem setAcc_lerr (s : State) (t : Tid) (p : AccPC) : (s.setAcc t p).lerr = s.lerr := rfl
@[simp, grind =] theorem setAcc_mon (s : State) (t : Tid) (p : AccPC) : (s.setAcc t p).mon = s.mon := rfl
@[simp, grind =] theorem setAcc_run (s : State) (t : Tid) (p : AccPC) : (s.setAcc t p).run = s.run := rfl
@[simp, grind =] theorem setAcc_conn (s : State) (t : Tid) (p : AccPC) : (s.setAcc t p).conn = s.conn := rfl
@[simp, grind =] theorem setAcc_cdata (s : State) (t : Tid) (p : AccPC) : (s.setAcc t p).cdata = s.cdata := rfl
@[simp, grind =] theorem setAcc_ccloses (s : State) (t : Tid) (p : AccPC) : (s.setAcc t p).ccloses = s.ccloses := rfl
@[simp, grind =] theorem setAcc_accepted (s : State) (t : Tid) (p : AccPC) : (s.setAcc t p).accepted = s.accepted := rfl
@[simp, grind =] theorem setAcc_closedLog (s : State) (t : Tid) (p : AccPC) : (s.setAcc t p).closedLog = s.closedLog := rfl
@[simp, grind =] theorem setAcc_panics (s : State) (t : Tid) (p : AccPC) : (s.setAcc t p).panics = s.panics := rfl
@[simp, grind =] theorem setMon_mon (s : State) (l : Lid) (p : MonPC) (u : Nat) : (s.setMon l p).mon u = if u = l then p else s.mon u := rfl
@[simp, grind =] theorem setMon_mdone (s : State) (l : Lid) (p : MonPC) : (s.setMon l p).mdone = s.mdone := rfl
@[simp, grind =] theorem setMon_merr (s : State) (l : Lid) (p : MonPC) : (s.setMon l p).merr = s.merr := rfl
@[simp, grind =] theorem setMon_baseAlive (s : State) (l : Lid) (p : MonPC) : (s.setMon l p).baseAlive = s.baseAlive := rfl
@[simp, grind =] theorem setMon_routes (s : State) (l : Lid) (p : MonPC) : (s.setMon l p).routes = s.routes := rfl
@[simp, grind =] theorem setMon_nextLid (s : State) (l : Lid) (p : MonPC) : (s.setMon l p).nextLid = s.nextLid := rfl
@[simp, grind =] theorem setMon_ldone (s : State) (l : Lid) (p : MonPC) : (s.setMon l p).ldone = s.ldone := rfl
@[simp, grind =] theorem setMon_lerr (s : State) (l : Lid) (p : MonPC) : (s.setMon l p).lerr = s.lerr := rfl
@[simp, grind =] theorem setMon_run (s : State) (l : Lid) (p : MonPC) : (s.setMon l p).run = s.run := rfl
@[simp, grind =] theorem setMon_conn (s : State) (l : Lid) (p : MonPC) : (s.setMon l p).conn = s.conn := rfl
@[simp, grind =] theorem setMon_cdata (s : State) (l : Lid) (p : MonPC) : (s.setMon l p).cdata = s.cdata := rfl
@[simp, grind =] theorem setMon_ccloses (s : State) (l : Lid) (p : MonPC) : (s.setMon l p).ccloses = s.ccloses := rfl
@[simp, grind =] theorem setMon_acc (s : State) (l : Lid) (p : MonPC) : (s.setMon l p).acc = s.acc := rfl
@[simp, grind =] theorem setMon_accepted (s : State) (l : Lid) (p : MonPC) : (s.setMon l p).accepted = s.accepted := rfl
@[simp, grind =] theorem setMon_closedLog (s : State) (l : Lid) (p : MonPC) : (s.setMon l p).closedLog = s.closedLog := rfl
@[simp, grind =] theorem setMon_panics (s : State) (l : Lid) (p : MonPC) : (s.setMon l p).panics = s.panics := rfl
@[simp, grind =] theorem closeLis_ldone (s : State) (l : Lid) (e : LErr) (u : Lid) : (s.closeLis l e).ldone u = if u = l then true else s.ldone u := by
  unfold State.closeLis; split <;> simp <;> (intro h; subst h; assumption)
@[simp, grind =] theorem closeLis_lerr (s : State) (l : Lid) (e : LErr) (u : Lid) : (s.closeLis l e).lerr u = if u = l ∧ s.ldone l = false then some e else s.lerr u := by
  unfold State.closeLis; split <;> simp_all
@[simp, grind =] theorem closeLis_mdone (s : State) (l : Lid) (e : LErr) : (s.closeLis l e).mdone = s.mdone := by
  unfold State.closeLis; split <;> rfl
@[simp, grind =] theorem closeLis_merr (s : State) (l : Lid) (e : LErr) : (s.closeLis l e).merr = s.merr := by
  unfold State.closeLis; split <;> rfl
@[simp, grind =] theorem closeLis_baseAlive (s : State) (l : Lid) (e : LErr) : (s.closeLis l e).baseAlive = s.baseAlive := by
  unfold State.closeLis; split <;> rfl
@[simp, grind =] theorem closeLis_routes (s : State) (l : Lid) (e : LErr) : (s.closeLis l e).routes = s.routes := by
  unfold State.closeLis; split <;> rfl
@[simp, grind =] theorem closeLis_nextLid (s : State) (l : Lid) (e : LErr) : (s.closeLis l e).nextLid = s.nextLid := by
  unfold State.closeLis; split <;> rfl
@[simp, grind =] theorem closeLis_mon (s : State) (l : Lid) (e : LErr) : (s.closeLis l e).mon = s.mon := by
  unfold State.closeLis; split <;> rfl
@[simp, grind =] theorem closeLis_run (s : State) (l : Lid) (e : LErr) : (s.closeLis l e).run = s.run := by
  unfold State.closeLis; split <;> rfl
@[simp, grind =] theorem closeLis_conn (s : State) (l : Lid) (e : LErr) : (s.closeLis l e).conn = s.conn := by
  unfold State.closeLis; split <;> rfl
@[simp, grind =] theorem closeLis_cdata (s : State) (l : Lid) (e : LErr) : (s.closeLis l e).cdata = s.cdata := by
  unfold State.closeLis; split <;> rfl
@[simp, grind =] theorem closeLis_ccloses (s : State) (l : Lid) (e : LErr) : (s.closeLis l e).ccloses = s.ccloses := by
  unfold State.closeLis; split <;> rfl
@[simp, grind =] theorem closeLis_acc (s : State) (l : Lid) (e : LErr) : (s.closeLis l e).acc = s.acc := by
  unfold State.closeLis; split <;> rfl
@[simp, grind =] theorem closeLis_accepted (s : State) (l : Lid) (e : LErr) : (s.closeLis l e).accepted = s.accepted := by
  unfold State.closeLis; split <;> rfl
@[simp, grind =] theorem closeLis_closedLog (s : State) (l : Lid) (e : LErr) : (s.closeLis l e).closedLog = s.closedLog := by
  unfold State.closeLis; split <;> rfl
@[simp, grind =] theorem closeLis_panics (s : State) (l : Lid) (e : LErr) : (s.closeLis l e).panics = s.panics := by
  unfold State.closeLis; split <;> rfl

/-! ### invariant 1: every connection has at most one fate, and exactly one once routeConn returned -/

def connFinished : ConnPC → Bool | .finished => true | _ => false
attribute [grind] connFinished

/-- how often connection `c` was returned by an Accept / closed by the mux -/
def deliveries (s : State) (c : Cid) : Nat := (s.accepted.map (·.2.1)).count c
def closes (s : State) (c : Cid) : Nat := s.closedLog.count c

def InvCount (s : State) : Prop :=
  ∀ c, deliveries s c + closes s c = if connFinished (s.conn c) then 1 else 0

theorem invCount_init : InvCount init := by
  intro c; simp [init, deliveries, closes, connFinished]

theorem invCount_step (N : Nat) (s s' : State) (l : Label) (hi : InvCount s) (hs : step N s l = some s') : InvCount s' := by
  intro c
  have hc := hi c
  cases l <;> simp only [step] at hs <;> repeat' (split at hs)
  all_goals first
    | (cases hs; done)
    | (cases hs
       simp only [deliveries, closes, setConn_conn, setConn_accepted, setConn_closedLog, setAcc_conn, setAcc_accepted,
         setAcc_closedLog, setMon_conn, setMon_accepted, setMon_closedLog, closeLis_conn, closeLis_accepted,
         closeLis_closedLog, List.map_append, List.count_append, List.map_cons, List.map_nil, List.count_singleton] at hc ⊢
       grind)

/-! ### invariant 2: routes, and where a connection is sent -/

def monPrefix : MonPC → Option Bytes
  | .absent => none
  | .select p | .delete p | .finished p => some p
attribute [grind] monPrefix

/-- the listener a connection is offered to / was delivered to is the right one: wrapped connections go to
    the default listener (0), raw ones to a listener created by `Route(p)` with `p` = their first N bytes -/
def rightListener (N : Nat) (s : State) (c : Cid) (lid : Lid) (w : Bool) : Prop :=
  lid < s.nextLid ∧
  (w = true → lid = 0) ∧
  (w = false → 0 < lid ∧ monPrefix (s.mon lid) = some ((s.cdata c).take N) ∧ N ≤ (s.cdata c).length)

structure InvRoute (N : Nat) (s : State) : Prop where
  nextPos : 0 < s.nextLid
  keys : ∀ p l, (p, l) ∈ s.routes → p.length = N ∧ 0 < l ∧ l < s.nextLid ∧ monPrefix (s.mon l) = some p
  lookupLen : ∀ c, s.conn c = .lookup → N ≤ (s.cdata c).length
  sending : ∀ c lid w, s.conn c = .sending lid w → rightListener N s c lid w
  accepted : ∀ lid c w, (lid, c, w) ∈ s.accepted → s.conn c = .finished ∧ rightListener N s c lid w

theorem lookupRoute_mem {rs : List (Bytes × Lid)} {k : Bytes} {l : Lid} (h : lookupRoute rs k = some l) : (k, l) ∈ rs := by
  induction rs with
  | nil => simp [lookupRoute] at h
  | cons r rs ih =>
    obtain ⟨p, l'⟩ := r
    simp only [lookupRoute] at h
    split at h
    · rename_i hp; cases h; subst hp; simp
    · exact List.mem_cons_of_mem _ (ih h)

theorem lookupRoute_none {rs : List (Bytes × Lid)} {k : Bytes} (h : lookupRoute rs k = none) : ∀ l, (k, l) ∉ rs := by
  induction rs with
  | nil => simp
  | cons r rs ih =>
    obtain ⟨p, l'⟩ := r
    simp only [lookupRoute] at h
    split at h
    · cases h
    · rename_i hp
      intro l hm
      simp only [List.mem_cons, Prod.mk.injEq] at hm
      rcases hm with ⟨h1, _⟩ | hm
      · exact hp h1.symm
      · exact ih h l hm

theorem invRoute_init (N : Nat) : InvRoute N init := by
  constructor <;> simp [init]


theorem invRoute_route (N : Nat) (s s' : State) (p : _) (hi : InvRoute N s) (hs : step N s (.route p) = some s') : InvRoute N s' := by
  obtain ⟨nextPos, keys, lookupLen, sending, accepted⟩ := hi
  simp only [step] at hs
  repeat' (split at hs)
  all_goals try (cases hs; done)
  all_goals cases hs
  all_goals constructor
  all_goals try (simp only [setConn_nextLid, setAcc_nextLid, setMon_nextLid, closeLis_nextLid]; first | assumption | omega)
  all_goals try (simp only [rightListener, setConn_conn, setConn_mdone, setConn_merr, setConn_baseAlive, setConn_routes, setConn_nextLid, setConn_ldone, setConn_lerr, setConn_mon, setConn_run, setConn_cdata, setConn_ccloses, setConn_acc, setConn_accepted, setConn_closedLog, setConn_panics, setAcc_acc, setAcc_mdone, setAcc_merr, setAcc_baseAlive, setAcc_routes, setAcc_nextLid, setAcc_ldone, setAcc_lerr, setAcc_mon, setAcc_run, setAcc_conn, setAcc_cdata, setAcc_ccloses, setAcc_accepted, setAcc_closedLog, setAcc_panics, setMon_mon, setMon_mdone, setMon_merr, setMon_baseAlive, setMon_routes, setMon_nextLid, setMon_ldone, setMon_lerr, setMon_run, setMon_conn, setMon_cdata, setMon_ccloses, setMon_acc, setMon_accepted, setMon_closedLog, setMon_panics, closeLis_ldone, closeLis_lerr, closeLis_mdone, closeLis_merr, closeLis_baseAlive, closeLis_routes, closeLis_nextLid, closeLis_mon, closeLis_run, closeLis_conn, closeLis_cdata, closeLis_ccloses, closeLis_acc, closeLis_accepted, closeLis_closedLog, closeLis_panics] at *; intros; grind)

theorem invRoute_acceptCall (N : Nat) (s s' : State) (t : _) (lid : _) (hi : InvRoute N s) (hs : step N s (.acceptCall t lid) = some s') : InvRoute N s' := by
  obtain ⟨nextPos, keys, lookupLen, sending, accepted⟩ := hi
  simp only [step] at hs
  repeat' (split at hs)
  all_goals try (cases hs; done)
  all_goals cases hs
  all_goals constructor
  all_goals try (simp only [setConn_nextLid, setAcc_nextLid, setMon_nextLid, closeLis_nextLid]; first | assumption | omega)
  all_goals try (simp only [rightListener, setConn_conn, setConn_mdone, setConn_merr, setConn_baseAlive, setConn_routes, setConn_nextLid, setConn_ldone, setConn_lerr, setConn_mon, setConn_run, setConn_cdata, setConn_ccloses, setConn_acc, setConn_accepted, setConn_closedLog, setConn_panics, setAcc_acc, setAcc_mdone, setAcc_merr, setAcc_baseAlive, setAcc_routes, setAcc_nextLid, setAcc_ldone, setAcc_lerr, setAcc_mon, setAcc_run, setAcc_conn, setAcc_cdata, setAcc_ccloses, setAcc_accepted, setAcc_closedLog, setAcc_panics, setMon_mon, setMon_mdone, setMon_merr, setMon_baseAlive, setMon_routes, setMon_nextLid, setMon_ldone, setMon_lerr, setMon_run, setMon_conn, setMon_cdata, setMon_ccloses, setMon_acc, setMon_accepted, setMon_closedLog, setMon_panics, closeLis_ldone, closeLis_lerr, closeLis_mdone, closeLis_merr, closeLis_baseAlive, closeLis_routes, closeLis_nextLid, closeLis_mon, closeLis_run, closeLis_conn, closeLis_cdata, closeLis_ccloses, closeLis_acc, closeLis_accepted, closeLis_closedLog, closeLis_panics] at *; intros; grind)

theorem invRoute_closeCall (N : Nat) (s s' : State) (lid : _) (hi : InvRoute N s) (hs : step N s (.closeCall lid) = some s') : InvRoute N s' := by
  obtain ⟨nextPos, keys, lookupLen, sending, accepted⟩ := hi
  simp only [step] at hs
  repeat' (split at hs)
  all_goals try (cases hs; done)
  all_goals cases hs
  all_goals constructor
  all_goals try (simp only [setConn_nextLid, setAcc_nextLid, setMon_nextLid, closeLis_nextLid]; first | assumption | omega)
  all_goals try (simp only [rightListener, setConn_conn, setConn_mdone, setConn_merr, setConn_baseAlive, setConn_routes, setConn_nextLid, setConn_ldone, setConn_lerr, setConn_mon, setConn_run, setConn_cdata, setConn_ccloses, setConn_acc, setConn_accepted, setConn_closedLog, setConn_panics, setAcc_acc, setAcc_mdone, setAcc_merr, setAcc_baseAlive, setAcc_routes, setAcc_nextLid, setAcc_ldone, setAcc_lerr, setAcc_mon, setAcc_run, setAcc_conn, setAcc_cdata, setAcc_ccloses, setAcc_accepted, setAcc_closedLog, setAcc_panics, setMon_mon, setMon_mdone, setMon_merr, setMon_baseAlive, setMon_routes, setMon_nextLid, setMon_ldone, setMon_lerr, setMon_run, setMon_conn, setMon_cdata, setMon_ccloses, setMon_acc, setMon_accepted, setMon_closedLog, setMon_panics, closeLis_ldone, closeLis_lerr, closeLis_mdone, closeLis_merr, closeLis_baseAlive, closeLis_routes, closeLis_nextLid, closeLis_mon, closeLis_run, closeLis_conn, closeLis_cdata, closeLis_ccloses, closeLis_acc, closeLis_accepted, closeLis_closedLog, closeLis_panics] at *; intros; grind)

theorem invRoute_cancel (N : Nat) (s s' : State)  (hi : InvRoute N s) (hs : step N s (.cancel ) = some s') : InvRoute N s' := by
  obtain ⟨nextPos, keys, lookupLen, sending, accepted⟩ := hi
  simp only [step] at hs
  repeat' (split at hs)
  all_goals try (cases hs; done)
  all_goals cases hs
  all_goals constructor
  all_goals try (simp only [setConn_nextLid, setAcc_nextLid, setMon_nextLid, closeLis_nextLid]; first | assumption | omega)
  all_goals try (simp only [rightListener, setConn_conn, setConn_mdone, setConn_merr, setConn_baseAlive, setConn_routes, setConn_nextLid, setConn_ldone, setConn_lerr, setConn_mon, setConn_run, setConn_cdata, setConn_ccloses, setConn_acc, setConn_accepted, setConn_closedLog, setConn_panics, setAcc_acc, setAcc_mdone, setAcc_merr, setAcc_baseAlive, setAcc_routes, setAcc_nextLid, setAcc_ldone, setAcc_lerr, setAcc_mon, setAcc_run, setAcc_conn, setAcc_cdata, setAcc_ccloses, setAcc_accepted, setAcc_closedLog, setAcc_panics, setMon_mon, setMon_mdone, setMon_merr, setMon_baseAlive, setMon_routes, setMon_nextLid, setMon_ldone, setMon_lerr, setMon_run, setMon_conn, setMon_cdata, setMon_ccloses, setMon_acc, setMon_accepted, setMon_closedLog, setMon_panics, closeLis_ldone, closeLis_lerr, closeLis_mdone, closeLis_merr, closeLis_baseAlive, closeLis_routes, closeLis_nextLid, closeLis_mon, closeLis_run, closeLis_conn, closeLis_cdata, closeLis_ccloses, closeLis_acc, closeLis_accepted, closeLis_closedLog, closeLis_panics] at *; intros; grind)

theorem invRoute_baseFail (N : Nat) (s s' : State) (tag : _) (hi : InvRoute N s) (hs : step N s (.baseFail tag) = some s') : InvRoute N s' := by
  obtain ⟨nextPos, keys, lookupLen, sending, accepted⟩ := hi
  simp only [step] at hs
  repeat' (split at hs)
  all_goals try (cases hs; done)
  all_goals cases hs
  all_goals constructor
  all_goals try (simp only [setConn_nextLid, setAcc_nextLid, setMon_nextLid, closeLis_nextLid]; first | assumption | omega)
  all_goals try (simp only [rightListener, setConn_conn, setConn_mdone, setConn_merr, setConn_baseAlive, setConn_routes, setConn_nextLid, setConn_ldone, setConn_lerr, setConn_mon, setConn_run, setConn_cdata, setConn_ccloses, setConn_acc, setConn_accepted, setConn_closedLog, setConn_panics, setAcc_acc, setAcc_mdone, setAcc_merr, setAcc_baseAlive, setAcc_routes, setAcc_nextLid, setAcc_ldone, setAcc_lerr, setAcc_mon, setAcc_run, setAcc_conn, setAcc_cdata, setAcc_ccloses, setAcc_accepted, setAcc_closedLog, setAcc_panics, setMon_mon, setMon_mdone, setMon_merr, setMon_baseAlive, setMon_routes, setMon_nextLid, setMon_ldone, setMon_lerr, setMon_run, setMon_conn, setMon_cdata, setMon_ccloses, setMon_acc, setMon_accepted, setMon_closedLog, setMon_panics, closeLis_ldone, closeLis_lerr, closeLis_mdone, closeLis_merr, closeLis_baseAlive, closeLis_routes, closeLis_nextLid, closeLis_mon, closeLis_run, closeLis_conn, closeLis_cdata, closeLis_ccloses, closeLis_acc, closeLis_accepted, closeLis_closedLog, closeLis_panics] at *; intros; grind)

theorem invRoute_baseConn (N : Nat) (s s' : State) (c : _) (hi : InvRoute N s) (hs : step N s (.baseConn c) = some s') : InvRoute N s' := by
  obtain ⟨nextPos, keys, lookupLen, sending, accepted⟩ := hi
  simp only [step] at hs
  repeat' (split at hs)
  all_goals try (cases hs; done)
  all_goals cases hs
  all_goals constructor
  all_goals try (simp only [setConn_nextLid, setAcc_nextLid, setMon_nextLid, closeLis_nextLid]; first | assumption | omega)
  all_goals try (simp only [rightListener, setConn_conn, setConn_mdone, setConn_merr, setConn_baseAlive, setConn_routes, setConn_nextLid, setConn_ldone, setConn_lerr, setConn_mon, setConn_run, setConn_cdata, setConn_ccloses, setConn_acc, setConn_accepted, setConn_closedLog, setConn_panics, setAcc_acc, setAcc_mdone, setAcc_merr, setAcc_baseAlive, setAcc_routes, setAcc_nextLid, setAcc_ldone, setAcc_lerr, setAcc_mon, setAcc_run, setAcc_conn, setAcc_cdata, setAcc_ccloses, setAcc_accepted, setAcc_closedLog, setAcc_panics, setMon_mon, setMon_mdone, setMon_merr, setMon_baseAlive, setMon_routes, setMon_nextLid, setMon_ldone, setMon_lerr, setMon_run, setMon_conn, setMon_cdata, setMon_ccloses, setMon_acc, setMon_accepted, setMon_closedLog, setMon_panics, closeLis_ldone, closeLis_lerr, closeLis_mdone, closeLis_merr, closeLis_baseAlive, closeLis_routes, closeLis_nextLid, closeLis_mon, closeLis_run, closeLis_conn, closeLis_cdata, closeLis_ccloses, closeLis_acc, closeLis_accepted, closeLis_closedLog, closeLis_panics] at *; intros; grind)

theorem invRoute_clientData (N : Nat) (s s' : State) (c : _) (b : _) (hi : InvRoute N s) (hs : step N s (.clientData c b) = some s') : InvRoute N s' := by
  obtain ⟨nextPos, keys, lookupLen, sending, accepted⟩ := hi
  simp only [step] at hs
  repeat' (split at hs)
  all_goals try (cases hs; done)
  all_goals cases hs
  all_goals constructor
  all_goals try (simp only [setConn_nextLid, setAcc_nextLid, setMon_nextLid, closeLis_nextLid]; first | assumption | omega)
  all_goals try (simp only [rightListener, setConn_conn, setConn_mdone, setConn_merr, setConn_baseAlive, setConn_routes, setConn_nextLid, setConn_ldone, setConn_lerr, setConn_mon, setConn_run, setConn_cdata, setConn_ccloses, setConn_acc, setConn_accepted, setConn_closedLog, setConn_panics, setAcc_acc, setAcc_mdone, setAcc_merr, setAcc_baseAlive, setAcc_routes, setAcc_nextLid, setAcc_ldone, setAcc_lerr, setAcc_mon, setAcc_run, setAcc_conn, setAcc_cdata, setAcc_ccloses, setAcc_accepted, setAcc_closedLog, setAcc_panics, setMon_mon, setMon_mdone, setMon_merr, setMon_baseAlive, setMon_routes, setMon_nextLid, setMon_ldone, setMon_lerr, setMon_run, setMon_conn, setMon_cdata, setMon_ccloses, setMon_acc, setMon_accepted, setMon_closedLog, setMon_panics, closeLis_ldone, closeLis_lerr, closeLis_mdone, closeLis_merr, closeLis_baseAlive, closeLis_routes, closeLis_nextLid, closeLis_mon, closeLis_run, closeLis_conn, closeLis_cdata, closeLis_ccloses, closeLis_acc, closeLis_accepted, closeLis_closedLog, closeLis_panics] at *; intros; grind)

theorem invRoute_clientClose (N : Nat) (s s' : State) (c : _) (hi : InvRoute N s) (hs : step N s (.clientClose c) = some s') : InvRoute N s' := by
  obtain ⟨nextPos, keys, lookupLen, sending, accepted⟩ := hi
  simp only [step] at hs
  repeat' (split at hs)
  all_goals try (cases hs; done)
  all_goals cases hs
  all_goals constructor
  all_goals try (simp only [setConn_nextLid, setAcc_nextLid, setMon_nextLid, closeLis_nextLid]; first | assumption | omega)
  all_goals try (simp only [rightListener, setConn_conn, setConn_mdone, setConn_merr, setConn_baseAlive, setConn_routes, setConn_nextLid, setConn_ldone, setConn_lerr, setConn_mon, setConn_run, setConn_cdata, setConn_ccloses, setConn_acc, setConn_accepted, setConn_closedLog, setConn_panics, setAcc_acc, setAcc_mdone, setAcc_merr, setAcc_baseAlive, setAcc_routes, setAcc_nextLid, setAcc_ldone, setAcc_lerr, setAcc_mon, setAcc_run, setAcc_conn, setAcc_cdata, setAcc_ccloses, setAcc_accepted, setAcc_closedLog, setAcc_panics, setMon_mon, setMon_mdone, setMon_merr, setMon_baseAlive, setMon_routes, setMon_nextLid, setMon_ldone, setMon_lerr, setMon_run, setMon_conn, setMon_cdata, setMon_ccloses, setMon_acc, setMon_accepted, setMon_closedLog, setMon_panics, closeLis_ldone, closeLis_lerr, closeLis_mdone, closeLis_merr, closeLis_baseAlive, closeLis_routes, closeLis_nextLid, closeLis_mon, closeLis_run, closeLis_conn, closeLis_cdata, closeLis_ccloses, closeLis_acc, closeLis_accepted, closeLis_closedLog, closeLis_panics] at *; intros; grind)

theorem invRoute_readDone (N : Nat) (s s' : State) (c : _) (hi : InvRoute N s) (hs : step N s (.readDone c) = some s') : InvRoute N s' := by
  obtain ⟨nextPos, keys, lookupLen, sending, accepted⟩ := hi
  simp only [step] at hs
  repeat' (split at hs)
  all_goals try (cases hs; done)
  all_goals cases hs
  all_goals constructor
  all_goals try (simp only [setConn_nextLid, setAcc_nextLid, setMon_nextLid, closeLis_nextLid]; first | assumption | omega)
  all_goals try (simp only [rightListener, setConn_conn, setConn_mdone, setConn_merr, setConn_baseAlive, setConn_routes, setConn_nextLid, setConn_ldone, setConn_lerr, setConn_mon, setConn_run, setConn_cdata, setConn_ccloses, setConn_acc, setConn_accepted, setConn_closedLog, setConn_panics, setAcc_acc, setAcc_mdone, setAcc_merr, setAcc_baseAlive, setAcc_routes, setAcc_nextLid, setAcc_ldone, setAcc_lerr, setAcc_mon, setAcc_run, setAcc_conn, setAcc_cdata, setAcc_ccloses, setAcc_accepted, setAcc_closedLog, setAcc_panics, setMon_mon, setMon_mdone, setMon_merr, setMon_baseAlive, setMon_routes, setMon_nextLid, setMon_ldone, setMon_lerr, setMon_run, setMon_conn, setMon_cdata, setMon_ccloses, setMon_acc, setMon_accepted, setMon_closedLog, setMon_panics, closeLis_ldone, closeLis_lerr, closeLis_mdone, closeLis_merr, closeLis_baseAlive, closeLis_routes, closeLis_nextLid, closeLis_mon, closeLis_run, closeLis_conn, closeLis_cdata, closeLis_ccloses, closeLis_acc, closeLis_accepted, closeLis_closedLog, closeLis_panics] at *; intros; grind)

theorem invRoute_lookup (N : Nat) (s s' : State) (c : _) (hi : InvRoute N s) (hs : step N s (.lookup c) = some s') : InvRoute N s' := by
  obtain ⟨nextPos, keys, lookupLen, sending, accepted⟩ := hi
  simp only [step] at hs
  repeat' (split at hs)
  all_goals try (cases hs; done)
  all_goals cases hs
  all_goals constructor
  all_goals try (simp only [setConn_nextLid, setAcc_nextLid, setMon_nextLid, closeLis_nextLid]; first | assumption | omega)
  all_goals try (simp only [rightListener, setConn_conn, setConn_mdone, setConn_merr, setConn_baseAlive, setConn_routes, setConn_nextLid, setConn_ldone, setConn_lerr, setConn_mon, setConn_run, setConn_cdata, setConn_ccloses, setConn_acc, setConn_accepted, setConn_closedLog, setConn_panics, setAcc_acc, setAcc_mdone, setAcc_merr, setAcc_baseAlive, setAcc_routes, setAcc_nextLid, setAcc_ldone, setAcc_lerr, setAcc_mon, setAcc_run, setAcc_conn, setAcc_cdata, setAcc_ccloses, setAcc_accepted, setAcc_closedLog, setAcc_panics, setMon_mon, setMon_mdone, setMon_merr, setMon_baseAlive, setMon_routes, setMon_nextLid, setMon_ldone, setMon_lerr, setMon_run, setMon_conn, setMon_cdata, setMon_ccloses, setMon_acc, setMon_accepted, setMon_closedLog, setMon_panics, closeLis_ldone, closeLis_lerr, closeLis_mdone, closeLis_merr, closeLis_baseAlive, closeLis_routes, closeLis_nextLid, closeLis_mon, closeLis_run, closeLis_conn, closeLis_cdata, closeLis_ccloses, closeLis_acc, closeLis_accepted, closeLis_closedLog, closeLis_panics] at *; intros; grind)
  rename_i hl
  have hk := keys _ _ (lookupRoute_mem hl)
  have hlen := lookupLen c
  simp only [rightListener, setConn_conn, setConn_mdone, setConn_merr, setConn_baseAlive, setConn_routes, setConn_nextLid, setConn_ldone, setConn_lerr, setConn_mon, setConn_run, setConn_cdata, setConn_ccloses, setConn_acc, setConn_accepted, setConn_closedLog, setConn_panics, setAcc_acc, setAcc_mdone, setAcc_merr, setAcc_baseAlive, setAcc_routes, setAcc_nextLid, setAcc_ldone, setAcc_lerr, setAcc_mon, setAcc_run, setAcc_conn, setAcc_cdata, setAcc_ccloses, setAcc_accepted, setAcc_closedLog, setAcc_panics, setMon_mon, setMon_mdone, setMon_merr, setMon_baseAlive, setMon_routes, setMon_nextLid, setMon_ldone, setMon_lerr, setMon_run, setMon_conn, setMon_cdata, setMon_ccloses, setMon_acc, setMon_accepted, setMon_closedLog, setMon_panics, closeLis_ldone, closeLis_lerr, closeLis_mdone, closeLis_merr, closeLis_baseAlive, closeLis_routes, closeLis_nextLid, closeLis_mon, closeLis_run, closeLis_conn, closeLis_cdata, closeLis_ccloses, closeLis_acc, closeLis_accepted, closeLis_closedLog, closeLis_panics] at *
  intros; grind

theorem invRoute_connClose (N : Nat) (s s' : State) (c : _) (hi : InvRoute N s) (hs : step N s (.connClose c) = some s') : InvRoute N s' := by
  obtain ⟨nextPos, keys, lookupLen, sending, accepted⟩ := hi
  simp only [step] at hs
  repeat' (split at hs)
  all_goals try (cases hs; done)
  all_goals cases hs
  all_goals constructor
  all_goals try (simp only [setConn_nextLid, setAcc_nextLid, setMon_nextLid, closeLis_nextLid]; first | assumption | omega)
  all_goals try (simp only [rightListener, setConn_conn, setConn_mdone, setConn_merr, setConn_baseAlive, setConn_routes, setConn_nextLid, setConn_ldone, setConn_lerr, setConn_mon, setConn_run, setConn_cdata, setConn_ccloses, setConn_acc, setConn_accepted, setConn_closedLog, setConn_panics, setAcc_acc, setAcc_mdone, setAcc_merr, setAcc_baseAlive, setAcc_routes, setAcc_nextLid, setAcc_ldone, setAcc_lerr, setAcc_mon, setAcc_run, setAcc_conn, setAcc_cdata, setAcc_ccloses, setAcc_accepted, setAcc_closedLog, setAcc_panics, setMon_mon, setMon_mdone, setMon_merr, setMon_baseAlive, setMon_routes, setMon_nextLid, setMon_ldone, setMon_lerr, setMon_run, setMon_conn, setMon_cdata, setMon_ccloses, setMon_acc, setMon_accepted, setMon_closedLog, setMon_panics, closeLis_ldone, closeLis_lerr, closeLis_mdone, closeLis_merr, closeLis_baseAlive, closeLis_routes, closeLis_nextLid, closeLis_mon, closeLis_run, closeLis_conn, closeLis_cdata, closeLis_ccloses, closeLis_acc, closeLis_accepted, closeLis_closedLog, closeLis_panics] at *; intros; grind)

theorem invRoute_deliver (N : Nat) (s s' : State) (c : _) (t : _) (hi : InvRoute N s) (hs : step N s (.deliver c t) = some s') : InvRoute N s' := by
  obtain ⟨nextPos, keys, lookupLen, sending, accepted⟩ := hi
  simp only [step] at hs
  repeat' (split at hs)
  all_goals try (cases hs; done)
  all_goals cases hs
  all_goals constructor
  all_goals try (simp only [setConn_nextLid, setAcc_nextLid, setMon_nextLid, closeLis_nextLid]; first | assumption | omega)
  all_goals try (simp only [rightListener, setConn_conn, setConn_mdone, setConn_merr, setConn_baseAlive, setConn_routes, setConn_nextLid, setConn_ldone, setConn_lerr, setConn_mon, setConn_run, setConn_cdata, setConn_ccloses, setConn_acc, setConn_accepted, setConn_closedLog, setConn_panics, setAcc_acc, setAcc_mdone, setAcc_merr, setAcc_baseAlive, setAcc_routes, setAcc_nextLid, setAcc_ldone, setAcc_lerr, setAcc_mon, setAcc_run, setAcc_conn, setAcc_cdata, setAcc_ccloses, setAcc_accepted, setAcc_closedLog, setAcc_panics, setMon_mon, setMon_mdone, setMon_merr, setMon_baseAlive, setMon_routes, setMon_nextLid, setMon_ldone, setMon_lerr, setMon_run, setMon_conn, setMon_cdata, setMon_ccloses, setMon_acc, setMon_accepted, setMon_closedLog, setMon_panics, closeLis_ldone, closeLis_lerr, closeLis_mdone, closeLis_merr, closeLis_baseAlive, closeLis_routes, closeLis_nextLid, closeLis_mon, closeLis_run, closeLis_conn, closeLis_cdata, closeLis_ccloses, closeLis_acc, closeLis_accepted, closeLis_closedLog, closeLis_panics] at *; intros; grind)

theorem invRoute_accCheck (N : Nat) (s s' : State) (t : _) (hi : InvRoute N s) (hs : step N s (.accCheck t) = some s') : InvRoute N s' := by
  obtain ⟨nextPos, keys, lookupLen, sending, accepted⟩ := hi
  simp only [step] at hs
  repeat' (split at hs)
  all_goals try (cases hs; done)
  all_goals cases hs
  all_goals constructor
  all_goals try (simp only [setConn_nextLid, setAcc_nextLid, setMon_nextLid, closeLis_nextLid]; first | assumption | omega)
  all_goals try (simp only [rightListener, setConn_conn, setConn_mdone, setConn_merr, setConn_baseAlive, setConn_routes, setConn_nextLid, setConn_ldone, setConn_lerr, setConn_mon, setConn_run, setConn_cdata, setConn_ccloses, setConn_acc, setConn_accepted, setConn_closedLog, setConn_panics, setAcc_acc, setAcc_mdone, setAcc_merr, setAcc_baseAlive, setAcc_routes, setAcc_nextLid, setAcc_ldone, setAcc_lerr, setAcc_mon, setAcc_run, setAcc_conn, setAcc_cdata, setAcc_ccloses, setAcc_accepted, setAcc_closedLog, setAcc_panics, setMon_mon, setMon_mdone, setMon_merr, setMon_baseAlive, setMon_routes, setMon_nextLid, setMon_ldone, setMon_lerr, setMon_run, setMon_conn, setMon_cdata, setMon_ccloses, setMon_acc, setMon_accepted, setMon_closedLog, setMon_panics, closeLis_ldone, closeLis_lerr, closeLis_mdone, closeLis_merr, closeLis_baseAlive, closeLis_routes, closeLis_nextLid, closeLis_mon, closeLis_run, closeLis_conn, closeLis_cdata, closeLis_ccloses, closeLis_acc, closeLis_accepted, closeLis_closedLog, closeLis_panics] at *; intros; grind)

theorem invRoute_accDone (N : Nat) (s s' : State) (t : _) (hi : InvRoute N s) (hs : step N s (.accDone t) = some s') : InvRoute N s' := by
  obtain ⟨nextPos, keys, lookupLen, sending, accepted⟩ := hi
  simp only [step] at hs
  repeat' (split at hs)
  all_goals try (cases hs; done)
  all_goals cases hs
  all_goals constructor
  all_goals try (simp only [setConn_nextLid, setAcc_nextLid, setMon_nextLid, closeLis_nextLid]; first | assumption | omega)
  all_goals try (simp only [rightListener, setConn_conn, setConn_mdone, setConn_merr, setConn_baseAlive, setConn_routes, setConn_nextLid, setConn_ldone, setConn_lerr, setConn_mon, setConn_run, setConn_cdata, setConn_ccloses, setConn_acc, setConn_accepted, setConn_closedLog, setConn_panics, setAcc_acc, setAcc_mdone, setAcc_merr, setAcc_baseAlive, setAcc_routes, setAcc_nextLid, setAcc_ldone, setAcc_lerr, setAcc_mon, setAcc_run, setAcc_conn, setAcc_cdata, setAcc_ccloses, setAcc_accepted, setAcc_closedLog, setAcc_panics, setMon_mon, setMon_mdone, setMon_merr, setMon_baseAlive, setMon_routes, setMon_nextLid, setMon_ldone, setMon_lerr, setMon_run, setMon_conn, setMon_cdata, setMon_ccloses, setMon_acc, setMon_accepted, setMon_closedLog, setMon_panics, closeLis_ldone, closeLis_lerr, closeLis_mdone, closeLis_merr, closeLis_baseAlive, closeLis_routes, closeLis_nextLid, closeLis_mon, closeLis_run, closeLis_conn, closeLis_cdata, closeLis_ccloses, closeLis_acc, closeLis_accepted, closeLis_closedLog, closeLis_panics] at *; intros; grind)

theorem invRoute_monFire (N : Nat) (s s' : State) (lid : _) (hi : InvRoute N s) (hs : step N s (.monFire lid) = some s') : InvRoute N s' := by
  obtain ⟨nextPos, keys, lookupLen, sending, accepted⟩ := hi
  simp only [step] at hs
  repeat' (split at hs)
  all_goals try (cases hs; done)
  all_goals cases hs
  all_goals constructor
  all_goals try (simp only [setConn_nextLid, setAcc_nextLid, setMon_nextLid, closeLis_nextLid]; first | assumption | omega)
  all_goals try (simp only [rightListener, setConn_conn, setConn_mdone, setConn_merr, setConn_baseAlive, setConn_routes, setConn_nextLid, setConn_ldone, setConn_lerr, setConn_mon, setConn_run, setConn_cdata, setConn_ccloses, setConn_acc, setConn_accepted, setConn_closedLog, setConn_panics, setAcc_acc, setAcc_mdone, setAcc_merr, setAcc_baseAlive, setAcc_routes, setAcc_nextLid, setAcc_ldone, setAcc_lerr, setAcc_mon, setAcc_run, setAcc_conn, setAcc_cdata, setAcc_ccloses, setAcc_accepted, setAcc_closedLog, setAcc_panics, setMon_mon, setMon_mdone, setMon_merr, setMon_baseAlive, setMon_routes, setMon_nextLid, setMon_ldone, setMon_lerr, setMon_run, setMon_conn, setMon_cdata, setMon_ccloses, setMon_acc, setMon_accepted, setMon_closedLog, setMon_panics, closeLis_ldone, closeLis_lerr, closeLis_mdone, closeLis_merr, closeLis_baseAlive, closeLis_routes, closeLis_nextLid, closeLis_mon, closeLis_run, closeLis_conn, closeLis_cdata, closeLis_ccloses, closeLis_acc, closeLis_accepted, closeLis_closedLog, closeLis_panics] at *; intros; grind)

theorem invRoute_monDelete (N : Nat) (s s' : State) (lid : _) (hi : InvRoute N s) (hs : step N s (.monDelete lid) = some s') : InvRoute N s' := by
  obtain ⟨nextPos, keys, lookupLen, sending, accepted⟩ := hi
  simp only [step] at hs
  repeat' (split at hs)
  all_goals try (cases hs; done)
  all_goals cases hs
  all_goals constructor
  all_goals try (simp only [setConn_nextLid, setAcc_nextLid, setMon_nextLid, closeLis_nextLid]; first | assumption | omega)
  all_goals try (simp only [rightListener, setConn_conn, setConn_mdone, setConn_merr, setConn_baseAlive, setConn_routes, setConn_nextLid, setConn_ldone, setConn_lerr, setConn_mon, setConn_run, setConn_cdata, setConn_ccloses, setConn_acc, setConn_accepted, setConn_closedLog, setConn_panics, setAcc_acc, setAcc_mdone, setAcc_merr, setAcc_baseAlive, setAcc_routes, setAcc_nextLid, setAcc_ldone, setAcc_lerr, setAcc_mon, setAcc_run, setAcc_conn, setAcc_cdata, setAcc_ccloses, setAcc_accepted, setAcc_closedLog, setAcc_panics, setMon_mon, setMon_mdone, setMon_merr, setMon_baseAlive, setMon_routes, setMon_nextLid, setMon_ldone, setMon_lerr, setMon_run, setMon_conn, setMon_cdata, setMon_ccloses, setMon_acc, setMon_accepted, setMon_closedLog, setMon_panics, closeLis_ldone, closeLis_lerr, closeLis_mdone, closeLis_merr, closeLis_baseAlive, closeLis_routes, closeLis_nextLid, closeLis_mon, closeLis_run, closeLis_conn, closeLis_cdata, closeLis_ccloses, closeLis_acc, closeLis_accepted, closeLis_closedLog, closeLis_panics] at *; intros; grind)

theorem invRoute_runStep (N : Nat) (s s' : State)  (hi : InvRoute N s) (hs : step N s (.runStep ) = some s') : InvRoute N s' := by
  obtain ⟨nextPos, keys, lookupLen, sending, accepted⟩ := hi
  simp only [step] at hs
  repeat' (split at hs)
  all_goals try (cases hs; done)
  all_goals cases hs
  all_goals constructor
  all_goals try (simp only [setConn_nextLid, setAcc_nextLid, setMon_nextLid, closeLis_nextLid]; first | assumption | omega)
  all_goals try (simp only [rightListener, setConn_conn, setConn_mdone, setConn_merr, setConn_baseAlive, setConn_routes, setConn_nextLid, setConn_ldone, setConn_lerr, setConn_mon, setConn_run, setConn_cdata, setConn_ccloses, setConn_acc, setConn_accepted, setConn_closedLog, setConn_panics, setAcc_acc, setAcc_mdone, setAcc_merr, setAcc_baseAlive, setAcc_routes, setAcc_nextLid, setAcc_ldone, setAcc_lerr, setAcc_mon, setAcc_run, setAcc_conn, setAcc_cdata, setAcc_ccloses, setAcc_accepted, setAcc_closedLog, setAcc_panics, setMon_mon, setMon_mdone, setMon_merr, setMon_baseAlive, setMon_routes, setMon_nextLid, setMon_ldone, setMon_lerr, setMon_run, setMon_conn, setMon_cdata, setMon_ccloses, setMon_acc, setMon_accepted, setMon_closedLog, setMon_panics, closeLis_ldone, closeLis_lerr, closeLis_mdone, closeLis_merr, closeLis_baseAlive, closeLis_routes, closeLis_nextLid, closeLis_mon, closeLis_run, closeLis_conn, closeLis_cdata, closeLis_ccloses, closeLis_acc, closeLis_accepted, closeLis_closedLog, closeLis_panics] at *; intros; grind)

theorem invRoute_step (N : Nat) (s s' : State) (l : Label) (hi : InvRoute N s) (hs : step N s l = some s') : InvRoute N s' := by
  cases l with
  | route p => exact invRoute_route N s s' p hi hs
  | acceptCall t lid => exact invRoute_acceptCall N s s' t lid hi hs
  | closeCall lid => exact invRoute_closeCall N s s' lid hi hs
  | cancel => exact invRoute_cancel N s s' hi hs
  | baseFail tag => exact invRoute_baseFail N s s' tag hi hs
  | baseConn c => exact invRoute_baseConn N s s' c hi hs
  | clientData c b => exact invRoute_clientData N s s' c b hi hs
  | clientClose c => exact invRoute_clientClose N s s' c hi hs
  | readDone c => exact invRoute_readDone N s s' c hi hs
  | lookup c => exact invRoute_lookup N s s' c hi hs
  | connClose c => exact invRoute_connClose N s s' c hi hs
  | deliver c t => exact invRoute_deliver N s s' c t hi hs
  | accCheck t => exact invRoute_accCheck N s s' t hi hs
  | accDone t => exact invRoute_accDone N s s' t hi hs
  | monFire lid => exact invRoute_monFire N s s' lid hi hs
  | monDelete lid => exact invRoute_monDelete N s s' lid hi hs
  | runStep => exact invRoute_runStep N s s' hi hs

/-! ### invariant 3: what keeps listeners from staying open after the mux stopped -/

def monSel : MonPC → Bool | .select _ => true | _ => false
def runPastClose : RunPC → Bool | .waitDef | .returned _ => true | _ => false
/-- the listener a pending Accept is waiting on -/
def accOn : AccPC → Option Lid | .check l | .wait l => some l | _ => none
attribute [grind] monSel runPastClose accOn

structure InvStop (s : State) : Prop where
  nextPos : 0 < s.nextLid
  routesRange : ∀ p l, (p, l) ∈ s.routes → 0 < l ∧ l < s.nextLid
  monDone : ∀ l, 0 < l → l < s.nextLid → monSel (s.mon l) = true ∨ s.ldone l = true
  doneErr : ∀ l, s.ldone l = true → (s.lerr l).isSome = true
  runRoutes : ∀ ls, s.run = .waitRoutes ls → ∀ l, l ∈ ls → 0 < l ∧ l < s.nextLid
  runDef : runPastClose s.run = true → s.ldone 0 = true
  accLid : ∀ t l, accOn (s.acc t) = some l → l < s.nextLid
  sendLid : ∀ c lid w, s.conn c = .sending lid w → lid < s.nextLid

theorem invStop_init : InvStop init := by
  constructor <;> simp [init, runPastClose, accOn]
  intro l h1 h2; subst h2; exact absurd h1 (Nat.lt_irrefl 0)

theorem invStop_route (N : Nat) (s s' : State) (p : _) (hi : InvStop s) (hs : step N s (.route p) = some s') : InvStop s' := by
  obtain ⟨nextPos, routesRange, monDone, doneErr, runRoutes, runDef, accLid, sendLid⟩ := hi
  simp only [step] at hs
  repeat' (split at hs)
  all_goals try (cases hs; done)
  all_goals cases hs
  all_goals constructor
  all_goals try ((try simp only [setConn_conn, setConn_mdone, setConn_merr, setConn_baseAlive, setConn_routes, setConn_nextLid, setConn_ldone, setConn_lerr, setConn_mon, setConn_run, setConn_cdata, setConn_ccloses, setConn_acc, setConn_accepted, setConn_closedLog, setConn_panics, setAcc_acc, setAcc_mdone, setAcc_merr, setAcc_baseAlive, setAcc_routes, setAcc_nextLid, setAcc_ldone, setAcc_lerr, setAcc_mon, setAcc_run, setAcc_conn, setAcc_cdata, setAcc_ccloses, setAcc_accepted, setAcc_closedLog, setAcc_panics, setMon_mon, setMon_mdone, setMon_merr, setMon_baseAlive, setMon_routes, setMon_nextLid, setMon_ldone, setMon_lerr, setMon_run, setMon_conn, setMon_cdata, setMon_ccloses, setMon_acc, setMon_accepted, setMon_closedLog, setMon_panics, closeLis_ldone, closeLis_lerr, closeLis_mdone, closeLis_merr, closeLis_baseAlive, closeLis_routes, closeLis_nextLid, closeLis_mon, closeLis_run, closeLis_conn, closeLis_cdata, closeLis_ccloses, closeLis_acc, closeLis_accepted, closeLis_closedLog, closeLis_panics] at *); intros; grind)

theorem invStop_acceptCall (N : Nat) (s s' : State) (t : _) (lid : _) (hi : InvStop s) (hs : step N s (.acceptCall t lid) = some s') : InvStop s' := by
  obtain ⟨nextPos, routesRange, monDone, doneErr, runRoutes, runDef, accLid, sendLid⟩ := hi
  simp only [step] at hs
  repeat' (split at hs)
  all_goals try (cases hs; done)
  all_goals cases hs
  all_goals constructor
  all_goals try ((try simp only [setConn_conn, setConn_mdone, setConn_merr, setConn_baseAlive, setConn_routes, setConn_nextLid, setConn_ldone, setConn_lerr, setConn_mon, setConn_run, setConn_cdata, setConn_ccloses, setConn_acc, setConn_accepted, setConn_closedLog, setConn_panics, setAcc_acc, setAcc_mdone, setAcc_merr, setAcc_baseAlive, setAcc_routes, setAcc_nextLid, setAcc_ldone, setAcc_lerr, setAcc_mon, setAcc_run, setAcc_conn, setAcc_cdata, setAcc_ccloses, setAcc_accepted, setAcc_closedLog, setAcc_panics, setMon_mon, setMon_mdone, setMon_merr, setMon_baseAlive, setMon_routes, setMon_nextLid, setMon_ldone, setMon_lerr, setMon_run, setMon_conn, setMon_cdata, setMon_ccloses, setMon_acc, setMon_accepted, setMon_closedLog, setMon_panics, closeLis_ldone, closeLis_lerr, closeLis_mdone, closeLis_merr, closeLis_baseAlive, closeLis_routes, closeLis_nextLid, closeLis_mon, closeLis_run, closeLis_conn, closeLis_cdata, closeLis_ccloses, closeLis_acc, closeLis_accepted, closeLis_closedLog, closeLis_panics] at *); intros; grind)

theorem invStop_closeCall (N : Nat) (s s' : State) (lid : _) (hi : InvStop s) (hs : step N s (.closeCall lid) = some s') : InvStop s' := by
  obtain ⟨nextPos, routesRange, monDone, doneErr, runRoutes, runDef, accLid, sendLid⟩ := hi
  simp only [step] at hs
  repeat' (split at hs)
  all_goals try (cases hs; done)
  all_goals cases hs
  all_goals constructor
  all_goals try ((try simp only [setConn_conn, setConn_mdone, setConn_merr, setConn_baseAlive, setConn_routes, setConn_nextLid, setConn_ldone, setConn_lerr, setConn_mon, setConn_run, setConn_cdata, setConn_ccloses, setConn_acc, setConn_accepted, setConn_closedLog, setConn_panics, setAcc_acc, setAcc_mdone, setAcc_merr, setAcc_baseAlive, setAcc_routes, setAcc_nextLid, setAcc_ldone, setAcc_lerr, setAcc_mon, setAcc_run, setAcc_conn, setAcc_cdata, setAcc_ccloses, setAcc_accepted, setAcc_closedLog, setAcc_panics, setMon_mon, setMon_mdone, setMon_merr, setMon_baseAlive, setMon_routes, setMon_nextLid, setMon_ldone, setMon_lerr, setMon_run, setMon_conn, setMon_cdata, setMon_ccloses, setMon_acc, setMon_accepted, setMon_closedLog, setMon_panics, closeLis_ldone, closeLis_lerr, closeLis_mdone, closeLis_merr, closeLis_baseAlive, closeLis_routes, closeLis_nextLid, closeLis_mon, closeLis_run, closeLis_conn, closeLis_cdata, closeLis_ccloses, closeLis_acc, closeLis_accepted, closeLis_closedLog, closeLis_panics] at *); intros; grind)

theorem invStop_cancel (N : Nat) (s s' : State)  (hi : InvStop s) (hs : step N s (.cancel ) = some s') : InvStop s' := by
  obtain ⟨nextPos, routesRange, monDone, doneErr, runRoutes, runDef, accLid, sendLid⟩ := hi
  simp only [step] at hs
  repeat' (split at hs)
  all_goals try (cases hs; done)
  all_goals cases hs
  all_goals constructor
  all_goals try ((try simp only [setConn_conn, setConn_mdone, setConn_merr, setConn_baseAlive, setConn_routes, setConn_nextLid, setConn_ldone, setConn_lerr, setConn_mon, setConn_run, setConn_cdata, setConn_ccloses, setConn_acc, setConn_accepted, setConn_closedLog, setConn_panics, setAcc_acc, setAcc_mdone, setAcc_merr, setAcc_baseAlive, setAcc_routes, setAcc_nextLid, setAcc_ldone, setAcc_lerr, setAcc_mon, setAcc_run, setAcc_conn, setAcc_cdata, setAcc_ccloses, setAcc_accepted, setAcc_closedLog, setAcc_panics, setMon_mon, setMon_mdone, setMon_merr, setMon_baseAlive, setMon_routes, setMon_nextLid, setMon_ldone, setMon_lerr, setMon_run, setMon_conn, setMon_cdata, setMon_ccloses, setMon_acc, setMon_accepted, setMon_closedLog, setMon_panics, closeLis_ldone, closeLis_lerr, closeLis_mdone, closeLis_merr, closeLis_baseAlive, closeLis_routes, closeLis_nextLid, closeLis_mon, closeLis_run, closeLis_conn, closeLis_cdata, closeLis_ccloses, closeLis_acc, closeLis_accepted, closeLis_closedLog, closeLis_panics] at *); intros; grind)

theorem invStop_baseFail (N : Nat) (s s' : State) (tag : _) (hi : InvStop s) (hs : step N s (.baseFail tag) = some s') : InvStop s' := by
  obtain ⟨nextPos, routesRange, monDone, doneErr, runRoutes, runDef, accLid, sendLid⟩ := hi
  simp only [step] at hs
  repeat' (split at hs)
  all_goals try (cases hs; done)
  all_goals cases hs
  all_goals constructor
  all_goals try ((try simp only [setConn_conn, setConn_mdone, setConn_merr, setConn_baseAlive, setConn_routes, setConn_nextLid, setConn_ldone, setConn_lerr, setConn_mon, setConn_run, setConn_cdata, setConn_ccloses, setConn_acc, setConn_accepted, setConn_closedLog, setConn_panics, setAcc_acc, setAcc_mdone, setAcc_merr, setAcc_baseAlive, setAcc_routes, setAcc_nextLid, setAcc_ldone, setAcc_lerr, setAcc_mon, setAcc_run, setAcc_conn, setAcc_cdata, setAcc_ccloses, setAcc_accepted, setAcc_closedLog, setAcc_panics, setMon_mon, setMon_mdone, setMon_merr, setMon_baseAlive, setMon_routes, setMon_nextLid, setMon_ldone, setMon_lerr, setMon_run, setMon_conn, setMon_cdata, setMon_ccloses, setMon_acc, setMon_accepted, setMon_closedLog, setMon_panics, closeLis_ldone, closeLis_lerr, closeLis_mdone, closeLis_merr, closeLis_baseAlive, closeLis_routes, closeLis_nextLid, closeLis_mon, closeLis_run, closeLis_conn, closeLis_cdata, closeLis_ccloses, closeLis_acc, closeLis_accepted, closeLis_closedLog, closeLis_panics] at *); intros; grind)

theorem invStop_baseConn (N : Nat) (s s' : State) (c : _) (hi : InvStop s) (hs : step N s (.baseConn c) = some s') : InvStop s' := by
  obtain ⟨nextPos, routesRange, monDone, doneErr, runRoutes, runDef, accLid, sendLid⟩ := hi
  simp only [step] at hs
  repeat' (split at hs)
  all_goals try (cases hs; done)
  all_goals cases hs
  all_goals constructor
  all_goals try ((try simp only [setConn_conn, setConn_mdone, setConn_merr, setConn_baseAlive, setConn_routes, setConn_nextLid, setConn_ldone, setConn_lerr, setConn_mon, setConn_run, setConn_cdata, setConn_ccloses, setConn_acc, setConn_accepted, setConn_closedLog, setConn_panics, setAcc_acc, setAcc_mdone, setAcc_merr, setAcc_baseAlive, setAcc_routes, setAcc_nextLid, setAcc_ldone, setAcc_lerr, setAcc_mon, setAcc_run, setAcc_conn, setAcc_cdata, setAcc_ccloses, setAcc_accepted, setAcc_closedLog, setAcc_panics, setMon_mon, setMon_mdone, setMon_merr, setMon_baseAlive, setMon_routes, setMon_nextLid, setMon_ldone, setMon_lerr, setMon_run, setMon_conn, setMon_cdata, setMon_ccloses, setMon_acc, setMon_accepted, setMon_closedLog, setMon_panics, closeLis_ldone, closeLis_lerr, closeLis_mdone, closeLis_merr, closeLis_baseAlive, closeLis_routes, closeLis_nextLid, closeLis_mon, closeLis_run, closeLis_conn, closeLis_cdata, closeLis_ccloses, closeLis_acc, closeLis_accepted, closeLis_closedLog, closeLis_panics] at *); intros; grind)

theorem invStop_clientData (N : Nat) (s s' : State) (c : _) (b : _) (hi : InvStop s) (hs : step N s (.clientData c b) = some s') : InvStop s' := by
  obtain ⟨nextPos, routesRange, monDone, doneErr, runRoutes, runDef, accLid, sendLid⟩ := hi
  simp only [step] at hs
  repeat' (split at hs)
  all_goals try (cases hs; done)
  all_goals cases hs
  all_goals constructor
  all_goals try ((try simp only [setConn_conn, setConn_mdone, setConn_merr, setConn_baseAlive, setConn_routes, setConn_nextLid, setConn_ldone, setConn_lerr, setConn_mon, setConn_run, setConn_cdata, setConn_ccloses, setConn_acc, setConn_accepted, setConn_closedLog, setConn_panics, setAcc_acc, setAcc_mdone, setAcc_merr, setAcc_baseAlive, setAcc_routes, setAcc_nextLid, setAcc_ldone, setAcc_lerr, setAcc_mon, setAcc_run, setAcc_conn, setAcc_cdata, setAcc_ccloses, setAcc_accepted, setAcc_closedLog, setAcc_panics, setMon_mon, setMon_mdone, setMon_merr, setMon_baseAlive, setMon_routes, setMon_nextLid, setMon_ldone, setMon_lerr, setMon_run, setMon_conn, setMon_cdata, setMon_ccloses, setMon_acc, setMon_accepted, setMon_closedLog, setMon_panics, closeLis_ldone, closeLis_lerr, closeLis_mdone, closeLis_merr, closeLis_baseAlive, closeLis_routes, closeLis_nextLid, closeLis_mon, closeLis_run, closeLis_conn, closeLis_cdata, closeLis_ccloses, closeLis_acc, closeLis_accepted, closeLis_closedLog, closeLis_panics] at *); intros; grind)

theorem invStop_clientClose (N : Nat) (s s' : State) (c : _) (hi : InvStop s) (hs : step N s (.clientClose c) = some s') : InvStop s' := by
  obtain ⟨nextPos, routesRange, monDone, doneErr, runRoutes, runDef, accLid, sendLid⟩ := hi
  simp only [step] at hs
  repeat' (split at hs)
  all_goals try (cases hs; done)
  all_goals cases hs
  all_goals constructor
  all_goals try ((try simp only [setConn_conn, setConn_mdone, setConn_merr, setConn_baseAlive, setConn_routes, setConn_nextLid, setConn_ldone, setConn_lerr, setConn_mon, setConn_run, setConn_cdata, setConn_ccloses, setConn_acc, setConn_accepted, setConn_closedLog, setConn_panics, setAcc_acc, setAcc_mdone, setAcc_merr, setAcc_baseAlive, setAcc_routes, setAcc_nextLid, setAcc_ldone, setAcc_lerr, setAcc_mon, setAcc_run, setAcc_conn, setAcc_cdata, setAcc_ccloses, setAcc_accepted, setAcc_closedLog, setAcc_panics, setMon_mon, setMon_mdone, setMon_merr, setMon_baseAlive, setMon_routes, setMon_nextLid, setMon_ldone, setMon_lerr, setMon_run, setMon_conn, setMon_cdata, setMon_ccloses, setMon_acc, setMon_accepted, setMon_closedLog, setMon_panics, closeLis_ldone, closeLis_lerr, closeLis_mdone, closeLis_merr, closeLis_baseAlive, closeLis_routes, closeLis_nextLid, closeLis_mon, closeLis_run, closeLis_conn, closeLis_cdata, closeLis_ccloses, closeLis_acc, closeLis_accepted, closeLis_closedLog, closeLis_panics] at *); intros; grind)

theorem invStop_readDone (N : Nat) (s s' : State) (c : _) (hi : InvStop s) (hs : step N s (.readDone c) = some s') : InvStop s' := by
  obtain ⟨nextPos, routesRange, monDone, doneErr, runRoutes, runDef, accLid, sendLid⟩ := hi
  simp only [step] at hs
  repeat' (split at hs)
  all_goals try (cases hs; done)
  all_goals cases hs
  all_goals constructor
  all_goals try ((try simp only [setConn_conn, setConn_mdone, setConn_merr, setConn_baseAlive, setConn_routes, setConn_nextLid, setConn_ldone, setConn_lerr, setConn_mon, setConn_run, setConn_cdata, setConn_ccloses, setConn_acc, setConn_accepted, setConn_closedLog, setConn_panics, setAcc_acc, setAcc_mdone, setAcc_merr, setAcc_baseAlive, setAcc_routes, setAcc_nextLid, setAcc_ldone, setAcc_lerr, setAcc_mon, setAcc_run, setAcc_conn, setAcc_cdata, setAcc_ccloses, setAcc_accepted, setAcc_closedLog, setAcc_panics, setMon_mon, setMon_mdone, setMon_merr, setMon_baseAlive, setMon_routes, setMon_nextLid, setMon_ldone, setMon_lerr, setMon_run, setMon_conn, setMon_cdata, setMon_ccloses, setMon_acc, setMon_accepted, setMon_closedLog, setMon_panics, closeLis_ldone, closeLis_lerr, closeLis_mdone, closeLis_merr, closeLis_baseAlive, closeLis_routes, closeLis_nextLid, closeLis_mon, closeLis_run, closeLis_conn, closeLis_cdata, closeLis_ccloses, closeLis_acc, closeLis_accepted, closeLis_closedLog, closeLis_panics] at *); intros; grind)

theorem invStop_lookup (N : Nat) (s s' : State) (c : _) (hi : InvStop s) (hs : step N s (.lookup c) = some s') : InvStop s' := by
  obtain ⟨nextPos, routesRange, monDone, doneErr, runRoutes, runDef, accLid, sendLid⟩ := hi
  simp only [step] at hs
  repeat' (split at hs)
  all_goals try (cases hs; done)
  all_goals cases hs
  all_goals constructor
  all_goals try ((try simp only [setConn_conn, setConn_mdone, setConn_merr, setConn_baseAlive, setConn_routes, setConn_nextLid, setConn_ldone, setConn_lerr, setConn_mon, setConn_run, setConn_cdata, setConn_ccloses, setConn_acc, setConn_accepted, setConn_closedLog, setConn_panics, setAcc_acc, setAcc_mdone, setAcc_merr, setAcc_baseAlive, setAcc_routes, setAcc_nextLid, setAcc_ldone, setAcc_lerr, setAcc_mon, setAcc_run, setAcc_conn, setAcc_cdata, setAcc_ccloses, setAcc_accepted, setAcc_closedLog, setAcc_panics, setMon_mon, setMon_mdone, setMon_merr, setMon_baseAlive, setMon_routes, setMon_nextLid, setMon_ldone, setMon_lerr, setMon_run, setMon_conn, setMon_cdata, setMon_ccloses, setMon_acc, setMon_accepted, setMon_closedLog, setMon_panics, closeLis_ldone, closeLis_lerr, closeLis_mdone, closeLis_merr, closeLis_baseAlive, closeLis_routes, closeLis_nextLid, closeLis_mon, closeLis_run, closeLis_conn, closeLis_cdata, closeLis_ccloses, closeLis_acc, closeLis_accepted, closeLis_closedLog, closeLis_panics] at *); intros; grind)
  rename_i hl
  have hk := routesRange _ _ (lookupRoute_mem hl)
  simp only [setConn_conn, setConn_mdone, setConn_merr, setConn_baseAlive, setConn_routes, setConn_nextLid, setConn_ldone, setConn_lerr, setConn_mon, setConn_run, setConn_cdata, setConn_ccloses, setConn_acc, setConn_accepted, setConn_closedLog, setConn_panics, setAcc_acc, setAcc_mdone, setAcc_merr, setAcc_baseAlive, setAcc_routes, setAcc_nextLid, setAcc_ldone, setAcc_lerr, setAcc_mon, setAcc_run, setAcc_conn, setAcc_cdata, setAcc_ccloses, setAcc_accepted, setAcc_closedLog, setAcc_panics, setMon_mon, setMon_mdone, setMon_merr, setMon_baseAlive, setMon_routes, setMon_nextLid, setMon_ldone, setMon_lerr, setMon_run, setMon_conn, setMon_cdata, setMon_ccloses, setMon_acc, setMon_accepted, setMon_closedLog, setMon_panics, closeLis_ldone, closeLis_lerr, closeLis_mdone, closeLis_merr, closeLis_baseAlive, closeLis_routes, closeLis_nextLid, closeLis_mon, closeLis_run, closeLis_conn, closeLis_cdata, closeLis_ccloses, closeLis_acc, closeLis_accepted, closeLis_closedLog, closeLis_panics] at *
  intros; grind

theorem invStop_connClose (N : Nat) (s s' : State) (c : _) (hi : InvStop s) (hs : step N s (.connClose c) = some s') : InvStop s' := by
  obtain ⟨nextPos, routesRange, monDone, doneErr, runRoutes, runDef, accLid, sendLid⟩ := hi
  simp only [step] at hs
  repeat' (split at hs)
  all_goals try (cases hs; done)
  all_goals cases hs
  all_goals constructor
  all_goals try ((try simp only [setConn_conn, setConn_mdone, setConn_merr, setConn_baseAlive, setConn_routes, setConn_nextLid, setConn_ldone, setConn_lerr, setConn_mon, setConn_run, setConn_cdata, setConn_ccloses, setConn_acc, setConn_accepted, setConn_closedLog, setConn_panics, setAcc_acc, setAcc_mdone, setAcc_merr, setAcc_baseAlive, setAcc_routes, setAcc_nextLid, setAcc_ldone, setAcc_lerr, setAcc_mon, setAcc_run, setAcc_conn, setAcc_cdata, setAcc_ccloses, setAcc_accepted, setAcc_closedLog, setAcc_panics, setMon_mon, setMon_mdone, setMon_merr, setMon_baseAlive, setMon_routes, setMon_nextLid, setMon_ldone, setMon_lerr, setMon_run, setMon_conn, setMon_cdata, setMon_ccloses, setMon_acc, setMon_accepted, setMon_closedLog, setMon_panics, closeLis_ldone, closeLis_lerr, closeLis_mdone, closeLis_merr, closeLis_baseAlive, closeLis_routes, closeLis_nextLid, closeLis_mon, closeLis_run, closeLis_conn, closeLis_cdata, closeLis_ccloses, closeLis_acc, closeLis_accepted, closeLis_closedLog, closeLis_panics] at *); intros; grind)

theorem invStop_deliver (N : Nat) (s s' : State) (c : _) (t : _) (hi : InvStop s) (hs : step N s (.deliver c t) = some s') : InvStop s' := by
  obtain ⟨nextPos, routesRange, monDone, doneErr, runRoutes, runDef, accLid, sendLid⟩ := hi
  simp only [step] at hs
  repeat' (split at hs)
  all_goals try (cases hs; done)
  all_goals cases hs
  all_goals constructor
  all_goals try ((try simp only [setConn_conn, setConn_mdone, setConn_merr, setConn_baseAlive, setConn_routes, setConn_nextLid, setConn_ldone, setConn_lerr, setConn_mon, setConn_run, setConn_cdata, setConn_ccloses, setConn_acc, setConn_accepted, setConn_closedLog, setConn_panics, setAcc_acc, setAcc_mdone, setAcc_merr, setAcc_baseAlive, setAcc_routes, setAcc_nextLid, setAcc_ldone, setAcc_lerr, setAcc_mon, setAcc_run, setAcc_conn, setAcc_cdata, setAcc_ccloses, setAcc_accepted, setAcc_closedLog, setAcc_panics, setMon_mon, setMon_mdone, setMon_merr, setMon_baseAlive, setMon_routes, setMon_nextLid, setMon_ldone, setMon_lerr, setMon_run, setMon_conn, setMon_cdata, setMon_ccloses, setMon_acc, setMon_accepted, setMon_closedLog, setMon_panics, closeLis_ldone, closeLis_lerr, closeLis_mdone, closeLis_merr, closeLis_baseAlive, closeLis_routes, closeLis_nextLid, closeLis_mon, closeLis_run, closeLis_conn, closeLis_cdata, closeLis_ccloses, closeLis_acc, closeLis_accepted, closeLis_closedLog, closeLis_panics] at *); intros; grind)

theorem invStop_accCheck (N : Nat) (s s' : State) (t : _) (hi : InvStop s) (hs : step N s (.accCheck t) = some s') : InvStop s' := by
  obtain ⟨nextPos, routesRange, monDone, doneErr, runRoutes, runDef, accLid, sendLid⟩ := hi
  simp only [step] at hs
  repeat' (split at hs)
  all_goals try (cases hs; done)
  all_goals cases hs
  all_goals constructor
  all_goals try ((try simp only [setConn_conn, setConn_mdone, setConn_merr, setConn_baseAlive, setConn_routes, setConn_nextLid, setConn_ldone, setConn_lerr, setConn_mon, setConn_run, setConn_cdata, setConn_ccloses, setConn_acc, setConn_accepted, setConn_closedLog, setConn_panics, setAcc_acc, setAcc_mdone, setAcc_merr, setAcc_baseAlive, setAcc_routes, setAcc_nextLid, setAcc_ldone, setAcc_lerr, setAcc_mon, setAcc_run, setAcc_conn, setAcc_cdata, setAcc_ccloses, setAcc_accepted, setAcc_closedLog, setAcc_panics, setMon_mon, setMon_mdone, setMon_merr, setMon_baseAlive, setMon_routes, setMon_nextLid, setMon_ldone, setMon_lerr, setMon_run, setMon_conn, setMon_cdata, setMon_ccloses, setMon_acc, setMon_accepted, setMon_closedLog, setMon_panics, closeLis_ldone, closeLis_lerr, closeLis_mdone, closeLis_merr, closeLis_baseAlive, closeLis_routes, closeLis_nextLid, closeLis_mon, closeLis_run, closeLis_conn, closeLis_cdata, closeLis_ccloses, closeLis_acc, closeLis_accepted, closeLis_closedLog, closeLis_panics] at *); intros; grind)

theorem invStop_accDone (N : Nat) (s s' : State) (t : _) (hi : InvStop s) (hs : step N s (.accDone t) = some s') : InvStop s' := by
  obtain ⟨nextPos, routesRange, monDone, doneErr, runRoutes, runDef, accLid, sendLid⟩ := hi
  simp only [step] at hs
  repeat' (split at hs)
  all_goals try (cases hs; done)
  all_goals cases hs
  all_goals constructor
  all_goals try ((try simp only [setConn_conn, setConn_mdone, setConn_merr, setConn_baseAlive, setConn_routes, setConn_nextLid, setConn_ldone, setConn_lerr, setConn_mon, setConn_run, setConn_cdata, setConn_ccloses, setConn_acc, setConn_accepted, setConn_closedLog, setConn_panics, setAcc_acc, setAcc_mdone, setAcc_merr, setAcc_baseAlive, setAcc_routes, setAcc_nextLid, setAcc_ldone, setAcc_lerr, setAcc_mon, setAcc_run, setAcc_conn, setAcc_cdata, setAcc_ccloses, setAcc_accepted, setAcc_closedLog, setAcc_panics, setMon_mon, setMon_mdone, setMon_merr, setMon_baseAlive, setMon_routes, setMon_nextLid, setMon_ldone, setMon_lerr, setMon_run, setMon_conn, setMon_cdata, setMon_ccloses, setMon_acc, setMon_accepted, setMon_closedLog, setMon_panics, closeLis_ldone, closeLis_lerr, closeLis_mdone, closeLis_merr, closeLis_baseAlive, closeLis_routes, closeLis_nextLid, closeLis_mon, closeLis_run, closeLis_conn, closeLis_cdata, closeLis_ccloses, closeLis_acc, closeLis_accepted, closeLis_closedLog, closeLis_panics] at *); intros; grind)

theorem invStop_monFire (N : Nat) (s s' : State) (lid : _) (hi : InvStop s) (hs : step N s (.monFire lid) = some s') : InvStop s' := by
  obtain ⟨nextPos, routesRange, monDone, doneErr, runRoutes, runDef, accLid, sendLid⟩ := hi
  simp only [step] at hs
  repeat' (split at hs)
  all_goals try (cases hs; done)
  all_goals cases hs
  all_goals constructor
  all_goals try ((try simp only [setConn_conn, setConn_mdone, setConn_merr, setConn_baseAlive, setConn_routes, setConn_nextLid, setConn_ldone, setConn_lerr, setConn_mon, setConn_run, setConn_cdata, setConn_ccloses, setConn_acc, setConn_accepted, setConn_closedLog, setConn_panics, setAcc_acc, setAcc_mdone, setAcc_merr, setAcc_baseAlive, setAcc_routes, setAcc_nextLid, setAcc_ldone, setAcc_lerr, setAcc_mon, setAcc_run, setAcc_conn, setAcc_cdata, setAcc_ccloses, setAcc_accepted, setAcc_closedLog, setAcc_panics, setMon_mon, setMon_mdone, setMon_merr, setMon_baseAlive, setMon_routes, setMon_nextLid, setMon_ldone, setMon_lerr, setMon_run, setMon_conn, setMon_cdata, setMon_ccloses, setMon_acc, setMon_accepted, setMon_closedLog, setMon_panics, closeLis_ldone, closeLis_lerr, closeLis_mdone, closeLis_merr, closeLis_baseAlive, closeLis_routes, closeLis_nextLid, closeLis_mon, closeLis_run, closeLis_conn, closeLis_cdata, closeLis_ccloses, closeLis_acc, closeLis_accepted, closeLis_closedLog, closeLis_panics] at *); intros; grind)

theorem invStop_monDelete (N : Nat) (s s' : State) (lid : _) (hi : InvStop s) (hs : step N s (.monDelete lid) = some s') : InvStop s' := by
  obtain ⟨nextPos, routesRange, monDone, doneErr, runRoutes, runDef, accLid, sendLid⟩ := hi
  simp only [step] at hs
  repeat' (split at hs)
  all_goals try (cases hs; done)
  all_goals cases hs
  all_goals constructor
  all_goals try ((try simp only [setConn_conn, setConn_mdone, setConn_merr, setConn_baseAlive, setConn_routes, setConn_nextLid, setConn_ldone, setConn_lerr, setConn_mon, setConn_run, setConn_cdata, setConn_ccloses, setConn_acc, setConn_accepted, setConn_closedLog, setConn_panics, setAcc_acc, setAcc_mdone, setAcc_merr, setAcc_baseAlive, setAcc_routes, setAcc_nextLid, setAcc_ldone, setAcc_lerr, setAcc_mon, setAcc_run, setAcc_conn, setAcc_cdata, setAcc_ccloses, setAcc_accepted, setAcc_closedLog, setAcc_panics, setMon_mon, setMon_mdone, setMon_merr, setMon_baseAlive, setMon_routes, setMon_nextLid, setMon_ldone, setMon_lerr, setMon_run, setMon_conn, setMon_cdata, setMon_ccloses, setMon_acc, setMon_accepted, setMon_closedLog, setMon_panics, closeLis_ldone, closeLis_lerr, closeLis_mdone, closeLis_merr, closeLis_baseAlive, closeLis_routes, closeLis_nextLid, closeLis_mon, closeLis_run, closeLis_conn, closeLis_cdata, closeLis_ccloses, closeLis_acc, closeLis_accepted, closeLis_closedLog, closeLis_panics] at *); intros; grind)

theorem invStop_runStep (N : Nat) (s s' : State)  (hi : InvStop s) (hs : step N s (.runStep ) = some s') : InvStop s' := by
  obtain ⟨nextPos, routesRange, monDone, doneErr, runRoutes, runDef, accLid, sendLid⟩ := hi
  simp only [step] at hs
  repeat' (split at hs)
  all_goals try (cases hs; done)
  all_goals cases hs
  all_goals constructor
  all_goals try ((try simp only [setConn_conn, setConn_mdone, setConn_merr, setConn_baseAlive, setConn_routes, setConn_nextLid, setConn_ldone, setConn_lerr, setConn_mon, setConn_run, setConn_cdata, setConn_ccloses, setConn_acc, setConn_accepted, setConn_closedLog, setConn_panics, setAcc_acc, setAcc_mdone, setAcc_merr, setAcc_baseAlive, setAcc_routes, setAcc_nextLid, setAcc_ldone, setAcc_lerr, setAcc_mon, setAcc_run, setAcc_conn, setAcc_cdata, setAcc_ccloses, setAcc_accepted, setAcc_closedLog, setAcc_panics, setMon_mon, setMon_mdone, setMon_merr, setMon_baseAlive, setMon_routes, setMon_nextLid, setMon_ldone, setMon_lerr, setMon_run, setMon_conn, setMon_cdata, setMon_ccloses, setMon_acc, setMon_accepted, setMon_closedLog, setMon_panics, closeLis_ldone, closeLis_lerr, closeLis_mdone, closeLis_merr, closeLis_baseAlive, closeLis_routes, closeLis_nextLid, closeLis_mon, closeLis_run, closeLis_conn, closeLis_cdata, closeLis_ccloses, closeLis_acc, closeLis_accepted, closeLis_closedLog, closeLis_panics] at *); intros; grind)

theorem invStop_step (N : Nat) (s s' : State) (l : Label) (hi : InvStop s) (hs : step N s l = some s') : InvStop s' := by
  cases l with
  | route p => exact invStop_route N s s' p hi hs
  | acceptCall t lid => exact invStop_acceptCall N s s' t lid hi hs
  | closeCall lid => exact invStop_closeCall N s s' lid hi hs
  | cancel => exact invStop_cancel N s s' hi hs
  | baseFail tag => exact invStop_baseFail N s s' tag hi hs
  | baseConn c => exact invStop_baseConn N s s' c hi hs
  | clientData c b => exact invStop_clientData N s s' c b hi hs
  | clientClose c => exact invStop_clientClose N s s' c hi hs
  | readDone c => exact invStop_readDone N s s' c hi hs
  | lookup c => exact invStop_lookup N s s' c hi hs
  | connClose c => exact invStop_connClose N s s' c hi hs
  | deliver c t => exact invStop_deliver N s s' c t hi hs
  | accCheck t => exact invStop_accCheck N s s' t hi hs
  | accDone t => exact invStop_accDone N s s' t hi hs
  | monFire lid => exact invStop_monFire N s s' lid hi hs
  | monDelete lid => exact invStop_monDelete N s s' lid hi hs
  | runStep => exact invStop_runStep N s s' hi hs

theorem inv_reachable (N : Nat) (s : State) (h : Reachable N s) : InvCount s ∧ InvRoute N s ∧ InvStop s := by
  induction h with
  | init => exact ⟨invCount_init, invRoute_init N, invStop_init⟩
  | step l _ hs ih => exact ⟨invCount_step N _ _ l ih.1 hs, invRoute_step N _ _ l ih.2.1 hs, invStop_step N _ _ l ih.2.2 hs⟩

/-- In a quiescent state of a stopped mux every listener is closed with an error set, no Accept is
    pending, no connection is parked in routeConn's look-up or select, and Run has returned. -/
theorem stopped_quiescent (N : Nat) (s : State) (hi : InvStop s) (hd : s.mdone = true) (hq : Quiescent N s) :
    (∀ l, l < s.nextLid → s.ldone l = true ∧ (s.lerr l).isSome = true) ∧
    (∀ t, accOn (s.acc t) = none) ∧
    (∀ c lid w, s.conn c ≠ .sending lid w) ∧ (∀ c, s.conn c ≠ .lookup) ∧
    (∃ e, s.run = .returned e) := by
  obtain ⟨nextPos, routesRange, monDone, doneErr, runRoutes, runDef, accLid, sendLid⟩ := hi
  have hmon : ∀ l, 0 < l → l < s.nextLid → s.ldone l = true := by
    intro l h0 h1
    rcases monDone l h0 h1 with h | h
    · have := hq (.monFire l) rfl
      cases hm : s.mon l with
      | select p => simp [step, hm, hd] at this
      | absent => simp [hm, monSel] at h
      | delete p => simp [hm, monSel] at h
      | finished p => simp [hm, monSel] at h
    · exact h
  have hrun : ∃ e, s.run = .returned e := by
    have := hq .runStep rfl
    cases hr : s.run with
    | waitDone => simp [step, hr, hd] at this
    | lock => simp [step, hr] at this
    | waitRoutes ls =>
      cases ls with
      | nil => simp [step, hr] at this
      | cons l ls =>
        have hl := runRoutes _ hr l (by simp)
        simp [step, hr, hmon l hl.1 hl.2] at this
    | closeDef => simp [step, hr] at this
    | waitDef => simp [step, hr, runDef (by simp [hr, runPastClose])] at this
    | returned e => exact ⟨e, rfl⟩
  obtain ⟨e, hr⟩ := hrun
  have h0 : s.ldone 0 = true := runDef (by simp [hr, runPastClose])
  have hall : ∀ l, l < s.nextLid → s.ldone l = true := by
    intro l hl
    cases l with
    | zero => exact h0
    | succ k => exact hmon _ (Nat.succ_pos k) hl
  refine ⟨fun l hl => ⟨hall l hl, doneErr l (hall l hl)⟩, ?_, ?_, ?_, ⟨e, hr⟩⟩
  · intro t
    cases ha : s.acc t with
    | check lid => have := hq (.accCheck t) rfl; simp [step, ha] at this; split at this <;> simp at this
    | wait lid =>
      have := hq (.accDone t) rfl
      have hl := accLid t lid (by simp [ha, accOn])
      simp [step, ha, hall lid hl] at this
    | idle => rfl
    | retErr _ _ => rfl
    | retConn _ _ _ => rfl
  · intro c lid w hc
    have := hq (.connClose c) rfl
    simp [step, hc, hall lid (sendLid c lid w hc)] at this
  · intro c hc
    have := hq (.lookup c) rfl
    simp only [step, State.muHeld, hr, hc] at this
    simp only [Bool.false_eq_true, ↓reduceIte] at this
    split at this <;> cases this

/-- run a schedule of labels (used to exhibit concrete reachable states) -/
def mrun (n : Nat) : List Label → State → Option State
  | [], s => some s
  | l :: ls, s => (step n s l).bind (mrun n ls)

theorem mrun_reachable (n : Nat) (ls : List Label) :
    ∀ s s', Reachable n s → mrun n ls s = some s' → Reachable n s' := by
  induction ls with
  | nil => intro s s' h e; cases e; exact h
  | cons l ls ih =>
    intro s s' h e
    simp only [mrun] at e
    cases hs : step n s l with
    | none => rw [hs] at e; cases e
    | some s1 => rw [hs] at e; exact ih s1 s' (Reachable.step l h hs) e

end Drpc.Migrate.Mux
