import Drpc.Conn.Request
import Drpc.Props.C01
import Drpc.Props.C11
/-
  Helper lemmas for Props/Request.lean (one whole client request, sequential level): glue between
  the sender model (Drpc/Conn/Request.lean), the wire delivery theorems (Props/C01) and the accept loop
  theorems (Props/C11).

  * `streamWrites_*`, `mem_streamWrites*`: ids / contents of the packets a stream emits
  * `callsPackets`, `callsPackets_sendable`, `calls_delivery`: several calls with increasing stream ids
    are `Sendable` towards a fresh reader, hence delivered intact (`delivery_any_chunking`)
  * `accept_newStream`: the accept loop on skipped packets ++ the packets of `doNewStream` ++ rest
    (`client_metadata_arrives` + nothing inherited from packets for other ids)
  * `serve_attempts`: the serve loop over any sequence of complete / opened / abandoned calls
  * `Attempt.Within`, `attempts_delivery`: the reader on such a sequence
  * `encodeAllFast_eq`: the driver's linear-time sender computes `encodeAll`
-/
namespace Drpc.Conn
open Drpc Drpc.Metadata
open Drpc.Props.C09 (observed)

/-! ### `streamWrites` -/

theorem streamWrites_append (sid : U64) (a b : List Write) : ∀ (mid : U64),
    streamWrites sid mid (a ++ b) =
      streamWrites sid mid a ++ streamWrites sid (mid + BitVec.ofNat 64 a.length) b := by
  induction a with
  | nil => intro mid; simp [streamWrites]
  | cons w ws ih =>
    intro mid
    simp only [List.cons_append, streamWrites, ih, List.length_cons, List.cons.injEq, true_and]
    congr 2
    rw [BitVec.add_assoc]
    congr 1
    apply BitVec.eq_of_toNat_eq
    simp [BitVec.toNat_add, Nat.add_comm]

theorem streamWrites_length (sid : U64) (ws : List Write) : ∀ mid, (streamWrites sid mid ws).length = ws.length := by
  induction ws with
  | nil => intro; rfl
  | cons w ws ih => intro mid; simp [streamWrites, ih]

/-- every packet of the writes carries the stream's id and the kind / flag / payload of one of the writes -/
theorem mem_streamWrites_write {sid : U64} {ws : List Write} : ∀ {mid : U64} {p : Packet},
    p ∈ streamWrites sid mid ws →
    p.sid = sid ∧ ∃ w ∈ ws, p.kind = w.kind ∧ p.control = w.control ∧ p.data = w.data := by
  induction ws with
  | nil => intro mid p h; simp [streamWrites] at h
  | cons w ws ih =>
    intro mid p h
    simp only [streamWrites, List.mem_cons] at h
    rcases h with rfl | h
    · exact ⟨rfl, w, by simp, rfl, rfl, rfl⟩
    · obtain ⟨h1, w', hw', h3⟩ := ih h
      exact ⟨h1, w', by simp [hw'], h3⟩

/-- … and, as long as the counter does not wrap, a message id above the counter -/
theorem mem_streamWrites_mid {sid : U64} {ws : List Write} : ∀ {mid : U64} {p : Packet},
    mid.toNat + ws.length < 2 ^ 64 → p ∈ streamWrites sid mid ws → mid.toNat < p.mid.toNat := by
  induction ws with
  | nil => intro mid p _ h; simp [streamWrites] at h
  | cons w ws ih =>
    intro mid p hl h
    simp only [List.length_cons] at hl
    have hs : (mid + 1#64).toNat = mid.toNat + 1 := by
      simp only [BitVec.toNat_add, BitVec.toNat_ofNat]; omega
    simp only [streamWrites, List.mem_cons] at h
    rcases h with rfl | h
    · simp only [hs]; omega
    · have := ih (by omega) h
      omega

theorem mem_streamWrites {sid : U64} {ws : List Write} {mid : U64} {p : Packet}
    (hl : mid.toNat + ws.length < 2 ^ 64) (h : p ∈ streamWrites sid mid ws) :
    p.sid = sid ∧ mid.toNat < p.mid.toNat ∧ ∃ w ∈ ws, p.kind = w.kind ∧ p.control = w.control ∧ p.data = w.data :=
  ⟨(mem_streamWrites_write h).1, mem_streamWrites_mid hl h, (mem_streamWrites_write h).2⟩

theorem streamWrites_pairwise (sid : U64) (ws : List Write) : ∀ (mid : U64),
    mid.toNat + ws.length < 2 ^ 64 →
    List.Pairwise (fun a b => idLt (a.sid, a.mid) (b.sid, b.mid)) (streamWrites sid mid ws) := by
  induction ws with
  | nil => intro mid _; simp [streamWrites]
  | cons w ws ih =>
    intro mid hl
    simp only [List.length_cons] at hl
    have hs : (mid + 1#64).toNat = mid.toNat + 1 := by
      simp only [BitVec.toNat_add, BitVec.toNat_ofNat]; omega
    simp only [streamWrites, List.pairwise_cons]
    refine ⟨?_, ih _ (by omega)⟩
    intro q hq
    obtain ⟨h1, h2, _⟩ := mem_streamWrites (by omega) hq
    exact Or.inr ⟨by simp only [h1], h2⟩


/-! ### several calls on one connection, generically: a call = the stream id it got and its writes -/

def callsPackets (cs : List (U64 × List Write)) : List Packet :=
  cs.flatMap fun c => streamWrites c.1 0#64 c.2

theorem callsPackets_cons (c : U64 × List Write) (cs : List (U64 × List Write)) :
    callsPackets (c :: cs) = streamWrites c.1 0#64 c.2 ++ callsPackets cs := by
  simp [callsPackets]

theorem mem_callsPackets {cs : List (U64 × List Write)} {p : Packet}
    (hlen : ∀ c ∈ cs, c.2.length < 2 ^ 64) (h : p ∈ callsPackets cs) :
    ∃ c ∈ cs, p.sid = c.1 ∧ 0 < p.mid.toNat ∧ ∃ w ∈ c.2, p.kind = w.kind ∧ p.control = w.control ∧ p.data = w.data := by
  simp only [callsPackets, List.mem_flatMap] at h
  obtain ⟨c, hc, hp⟩ := h
  have := mem_streamWrites (mid := 0#64) (by simpa using hlen c hc) hp
  exact ⟨c, hc, this.1, by simpa using this.2.1, this.2.2⟩

/-- stream ids at least 1 and strictly increasing from call to call, fewer than 2^64 writes per call:
    the ids of all packets are sendable towards a fresh reader -/
theorem callsPackets_sendable (cs : List (U64 × List Write))
    (hsid : ∀ c ∈ cs, 1 ≤ c.1.toNat)
    (hinc : cs.Pairwise (fun a b => a.1.toNat < b.1.toNat))
    (hlen : ∀ c ∈ cs, c.2.length < 2 ^ 64) :
    Sendable (1#64, 1#64) (callsPackets cs) := by
  constructor
  · intro p hp
    obtain ⟨c, hc, h1, h2, _⟩ := mem_callsPackets hlen (List.mem_of_mem_head? hp)
    have := hsid c hc
    unfold idLe idLt
    simp only [h1, BitVec.toNat_ofNat]
    omega
  · induction cs with
    | nil => simp [callsPackets]
    | cons c cs ih =>
      rw [callsPackets_cons, List.pairwise_append]
      rw [List.pairwise_cons] at hinc
      refine ⟨streamWrites_pairwise _ _ _ (by simpa using hlen c (by simp)),
        ih (fun x hx => hsid x (by simp [hx])) hinc.2 (fun x hx => hlen x (by simp [hx])), ?_⟩
      intro a ha b hb
      obtain ⟨ha1, _⟩ := mem_streamWrites (mid := 0#64) (by simpa using hlen c (by simp)) ha
      obtain ⟨c', hc', hb1, _⟩ := mem_callsPackets (fun x hx => hlen x (by simp [hx])) hb
      have := hinc.1 c' hc'
      exact Or.inl (by simp only [ha1, hb1]; exact this)

/-- the reader returns exactly the packets of all the calls, whatever the split size and chunking -/
theorem calls_delivery (mx final : Nat) (choose : Nat → Nat) (n : Int) (cs : List (U64 × List Write))
    (hmx : mx < 2 ^ 64)
    (hsid : ∀ c ∈ cs, 1 ≤ c.1.toNat)
    (hinc : cs.Pairwise (fun a b => a.1.toNat < b.1.toNat))
    (hlen : ∀ c ∈ cs, c.2.length < 2 ^ 64)
    (hw : ∀ c ∈ cs, ∀ w ∈ c.2, w.kind.toNat < 64 ∧ w.data.length ≤ mx) :
    observed (readAll mx choose final (encodeAll n (callsPackets cs))) = (callsPackets cs, .transport final) := by
  have key : ∀ p ∈ callsPackets cs, p.kind.toNat < 64 ∧ p.data.length ≤ mx := by
    intro p hp
    obtain ⟨c, hc, _, _, w, hw', hk, _, hd⟩ := mem_callsPackets hlen hp
    rw [hk, hd]; exact hw c hc w hw'
  exact Props.C01.delivery_any_chunking mx final choose n _ (callsPackets_sendable cs hsid hinc hlen)
    (fun p hp => (key p hp).1) (fun p hp => by have := (key p hp).2; omega) (fun p hp => (key p hp).2)


/-! ### the accept loop on the packets of a call -/

open Drpc.Props.C11 (scopedMeta)

theorem hasMeta_iff (md : Pairs) : hasMeta md = true ↔ md ≠ [] := by
  unfold hasMeta
  rw [decide_eq_true_iff, gt_iff_lt, List.length_pos_iff, ne_eq, ne_eq, encode_eq_nil_iff]

theorem hasMeta_nil : hasMeta [] = false := by decide

theorem hasMeta_of_ne {md : Pairs} (h : md ≠ []) : hasMeta md = true := (hasMeta_iff md).mpr h

theorem addPairs_none (md : Pairs) : addPairs none md = if md = [] then none else some md := by
  unfold addPairs; split <;> simp

theorem invokeMid_eq (md : Pairs) : invokeMid md = if md = [] then 1#64 else 2#64 := by
  unfold invokeMid
  by_cases h : md = []
  · subst h; simp [hasMeta_nil]
  · simp [h, hasMeta_of_ne h]

/-- what `NewServerStream` sees of the packets of `doNewStream` -/
theorem toServer_newStream (sid mid : U64) (rpc : Bytes) (md : Pairs) :
    (streamWrites sid mid (newStreamWrites rpc md)).map toServer =
      (if encode md = [] then [] else [⟨kindInvokeMetadata, sid, encode md⟩]) ++ [⟨kindInvoke, sid, rpc⟩] := by
  by_cases h : md = []
  · subst h
    simp [newStreamWrites, metaWrites, hasMeta_nil, streamWrites, toServer, encode, Stream.kindInvoke, kindInvoke]
  · have he : ¬ encode md = [] := fun e => h ((encode_eq_nil_iff md).mp e)
    simp [newStreamWrites, metaWrites, hasMeta_of_ne h, streamWrites, toServer, he, Stream.kindInvoke,
      Stream.kindInvokeMetadata, kindInvoke, kindInvokeMetadata]

theorem scopedMeta_other (junk : List Pkt) (sid : U64)
    (hother : ∀ p ∈ junk, p.kind = kindInvokeMetadata → p.sid ≠ sid) : scopedMeta junk sid = none := by
  unfold scopedMeta
  cases h : lastMeta junk with
  | none => rfl
  | some p =>
    have ⟨hm, hk⟩ := lastMeta_mem h
    simp [hother p hm hk]

/-- The accept loop on: anything that is not an invoke (`junk`: leftovers of earlier calls, metadata of
    calls given up, all for other stream ids), then the packets of `doNewStream` for (sid, rpc, md), then
    `rest`: the stream is created for `sid` and `rpc` with exactly `md` and `rest` is left over. -/
theorem accept_newStream (junk rest : List Pkt) (sid mid : U64) (rpc : Bytes) (md : Pairs)
    (hq : Quiet junk) (hother : ∀ p ∈ junk, p.kind = kindInvokeMetadata → p.sid ≠ sid) (hfit : Fits md) :
    newServerStream none (junk ++ (streamWrites sid mid (newStreamWrites rpc md)).map toServer ++ rest)
      = .stream sid rpc (addPairs none md) rest := by
  rw [toServer_newStream]
  have := Props.C11.client_metadata_arrives junk sid md rpc rest hfit hq
  simp only [List.append_assoc, List.cons_append, List.nil_append] at this ⊢
  rw [this, scopedMeta_other junk sid hother, addPairs_none]


/-! ### leftovers: packets the accept loop skips -/

/-- a write the accept loop skips: not an invoke, and decodable if it is metadata -/
def Write.Skipped (w : Write) : Prop :=
  w.kind.toNat ≠ kindInvoke ∧ (w.kind.toNat = kindInvokeMetadata → ∃ m, decode w.data = .ok m)

theorem quiet_streamWrites (sid mid : U64) (ws : List Write) (h : ∀ w ∈ ws, w.Skipped) :
    Quiet ((streamWrites sid mid ws).map toServer) := by
  intro p hp
  obtain ⟨q, hq, rfl⟩ := List.mem_map.mp hp
  obtain ⟨_, w, hw, hk, _, hd⟩ := mem_streamWrites_write hq
  simp only [toServer, hk, hd]
  exact h w hw

theorem sid_streamWrites {sid mid : U64} {ws : List Write} {p : Pkt}
    (hp : p ∈ (streamWrites sid mid ws).map toServer) : p.sid = sid := by
  obtain ⟨q, hq, rfl⟩ := List.mem_map.mp hp
  exact (mem_streamWrites_write hq).1

theorem skipped_bodyWrites (data : Bytes) : ∀ w ∈ bodyWrites data, w.Skipped := by
  intro w hw
  simp only [bodyWrites, List.mem_cons, List.not_mem_nil, or_false] at hw
  rcases hw with rfl | rfl
  · exact ⟨by show Stream.kindMessage.toNat ≠ kindInvoke; decide,
      fun h => absurd h (by show ¬ Stream.kindMessage.toNat = kindInvokeMetadata; decide)⟩
  · exact ⟨by show Stream.kindCloseSend.toNat ≠ kindInvoke; decide,
      fun h => absurd h (by show ¬ Stream.kindCloseSend.toNat = kindInvokeMetadata; decide)⟩

theorem skipped_abandonedWrites (md : Pairs) (cancel : Bool) (hfit : Fits md) :
    ∀ w ∈ abandonedWrites md cancel, w.Skipped := by
  intro w hw
  simp only [abandonedWrites, metaWrites, List.mem_append] at hw
  rcases hw with hw | hw
  · split at hw
    · simp only [List.mem_cons, List.not_mem_nil, or_false] at hw
      subst hw
      exact ⟨by show Stream.kindInvokeMetadata.toNat ≠ kindInvoke; decide,
        fun _ => ⟨md, Props.C11.decode_encode md hfit⟩⟩
    · cases hw
  · split at hw
    · simp only [List.mem_cons, List.not_mem_nil, or_false] at hw
      subst hw
      exact ⟨by show Stream.kindCancel.toNat ≠ kindInvoke; decide,
        fun h => absurd h (by show ¬ Stream.kindCancel.toNat = kindInvokeMetadata; decide)⟩
    · cases hw

/-- nothing but skipped packets: the accept loop keeps waiting -/
theorem serve_quiet (junk : List Pkt) (hq : Quiet junk) : serve junk = [.waiting] := by
  obtain ⟨mt, id, e⟩ := serverLoop_quiet_skip none junk [] [] 0#64 hq
  have hp : newServerStream none junk = .pending := by
    unfold newServerStream
    rw [List.append_nil] at e
    rw [e]; rfl
  rw [serve]
  split <;> simp_all

/-! ### a unary call = the packets of `doNewStream` followed by the message and the close-send -/

theorem newStreamWrites_length (rpc : Bytes) (md : Pairs) :
    BitVec.ofNat 64 (newStreamWrites rpc md).length = invokeMid md := by
  unfold newStreamWrites metaWrites invokeMid
  cases hasMeta md <;> rfl

theorem invokePackets_eq (sid : U64) (rpc : Bytes) (md : Pairs) (data : Bytes) :
    invokePackets sid rpc md data = newStreamPackets sid rpc md ++ bodyPackets sid md data := by
  unfold invokePackets invokeWrites newStreamPackets bodyPackets
  rw [streamWrites_append, newStreamWrites_length, BitVec.zero_add]

theorem bodyPackets_eq (sid : U64) (md : Pairs) (data : Bytes) :
    bodyPackets sid md data =
      [⟨data, sid, invokeMid md + 1#64, Stream.kindMessage, false⟩,
       ⟨[], sid, invokeMid md + 1#64 + 1#64, Stream.kindCloseSend, false⟩] := rfl

/-! ### the serve loop over a sequence of attempts -/

theorem attemptsPackets_cons (a : Attempt) (as : List Attempt) :
    attemptsPackets (a :: as) = a.packets ++ attemptsPackets as := by
  simp [attemptsPackets]

theorem attemptsPackets_eq_calls (as : List Attempt) :
    attemptsPackets as = callsPackets (as.map fun a => (a.sid, a.writes)) := by
  unfold attemptsPackets callsPackets
  rw [List.flatMap_map]; rfl

theorem serve_attempts (as : List Attempt)
    (hinc : as.Pairwise (fun a b => a.sid.toNat < b.sid.toNat)) (hfit : ∀ a ∈ as, Fits a.md) :
    ∀ (junk : List Pkt), Quiet junk → (∀ p ∈ junk, ∀ a ∈ as, p.sid.toNat < a.sid.toNat) →
    serve (junk ++ (attemptsPackets as).map toServer) = as.filterMap Attempt.served? ++ [.waiting] := by
  induction as with
  | nil => intro junk hq _; simpa [attemptsPackets] using serve_quiet junk hq
  | cons a as ih =>
    intro junk hq hlt
    rw [List.pairwise_cons] at hinc
    have ih' := ih hinc.2 (fun x hx => hfit x (by simp [hx]))
    have hother : ∀ p ∈ junk, p.kind = kindInvokeMetadata → p.sid ≠ a.sid := by
      intro p hp _ e
      have := hlt p hp a (by simp)
      rw [e] at this; omega
    have hfa := hfit a (by simp)
    rw [attemptsPackets_cons, List.map_append]
    cases a with
    | unary r =>
      simp only [Attempt.packets, Attempt.sid, Attempt.writes, Attempt.md] at hother hfa ⊢
      have e := invokePackets_eq r.sid r.rpc r.md r.data
      unfold invokePackets at e
      rw [e, List.map_append]
      have acc := accept_newStream junk
        ((bodyPackets r.sid r.md r.data).map toServer ++ (attemptsPackets as).map toServer)
        r.sid 0#64 r.rpc r.md hq hother hfa
      simp only [newStreamPackets, List.append_assoc] at acc ⊢
      unfold bodyPackets at acc ⊢
      rw [serve_cons acc, ih' _ (quiet_streamWrites _ _ _ (skipped_bodyWrites r.data))]
      · simp [Attempt.served?, Request.served]
      · intro p hp b hb
        rw [sid_streamWrites hp]
        exact hinc.1 b hb
    | opened sid rpc md =>
      simp only [Attempt.packets, Attempt.sid, Attempt.writes, Attempt.md] at hother hfa ⊢
      have acc := accept_newStream junk ((attemptsPackets as).map toServer) sid 0#64 rpc md hq hother hfa
      have := ih' [] (by intro p hp; cases hp) (by intro p hp; cases hp)
      simp only [List.append_assoc, List.nil_append] at acc this ⊢
      rw [serve_cons acc, this]
      simp [Attempt.served?]
    | abandoned sid md cancel =>
      simp only [Attempt.packets, Attempt.sid, Attempt.writes, Attempt.md] at hfa ⊢
      rw [← List.append_assoc, ih']
      · rw [List.filterMap_cons]; rfl
      · intro p hp
        rcases List.mem_append.mp hp with hp | hp
        · exact hq p hp
        · exact quiet_streamWrites _ _ _ (skipped_abandonedWrites md cancel hfa) p hp
      · intro p hp b hb
        rcases List.mem_append.mp hp with hp | hp
        · exact hlt p hp b (by simp [hb])
        · rw [sid_streamWrites hp]
          exact hinc.1 b hb


/-! ### the reader on a sequence of attempts -/

/-- every payload of the attempt is within the reader's maximum packet size `mx` -/
def Attempt.Within (mx : Nat) (a : Attempt) : Prop :=
  (encode a.md).length ≤ mx ∧
  match a with
  | .unary r => r.rpc.length ≤ mx ∧ r.data.length ≤ mx
  | .opened _ rpc _ => rpc.length ≤ mx
  | .abandoned _ _ _ => True

theorem mem_metaWrites {md : Pairs} {w : Write} (h : w ∈ metaWrites md) :
    w = ⟨Stream.kindInvokeMetadata, false, encode md⟩ := by
  unfold metaWrites at h
  split at h
  · simpa using h
  · cases h

theorem metaWrites_length (md : Pairs) : (metaWrites md).length ≤ 1 := by
  unfold metaWrites; split <;> simp

theorem writes_length (a : Attempt) : a.writes.length ≤ 4 := by
  have := metaWrites_length a.md
  cases a with
  | unary r =>
    simp only [Attempt.writes, Attempt.md, invokeWrites, newStreamWrites, bodyWrites, List.length_append,
      List.length_cons, List.length_nil] at this ⊢
    omega
  | opened sid rpc md =>
    simp only [Attempt.writes, Attempt.md, newStreamWrites, List.length_append, List.length_cons,
      List.length_nil] at this ⊢
    omega
  | abandoned sid md cancel =>
    simp only [Attempt.writes, Attempt.md, abandonedWrites, List.length_append] at this ⊢
    split <;> simp <;> omega

theorem writes_ok {mx : Nat} {a : Attempt} (h : a.Within mx) :
    ∀ w ∈ a.writes, w.kind.toNat < 64 ∧ w.data.length ≤ mx := by
  intro w hw
  obtain ⟨hmd, h⟩ := h
  have hm : ∀ {md : Pairs}, (encode md).length ≤ mx → w ∈ metaWrites md → w.kind.toNat < 64 ∧ w.data.length ≤ mx := by
    intro md hl hw
    rw [mem_metaWrites hw]
    exact ⟨by show Stream.kindInvokeMetadata.toNat < 64; decide, hl⟩
  cases a with
  | unary r =>
    simp only [Attempt.writes, Attempt.md, invokeWrites, newStreamWrites, bodyWrites, List.mem_append,
      List.mem_cons, List.not_mem_nil, or_false] at hw hmd h
    rcases hw with (hw | rfl) | rfl | rfl
    · exact hm hmd hw
    · exact ⟨by show Stream.kindInvoke.toNat < 64; decide, h.1⟩
    · exact ⟨by show Stream.kindMessage.toNat < 64; decide, h.2⟩
    · exact ⟨by show Stream.kindCloseSend.toNat < 64; decide, by simp⟩
  | opened sid rpc md =>
    simp only [Attempt.writes, Attempt.md, newStreamWrites, List.mem_append, List.mem_cons,
      List.not_mem_nil, or_false] at hw hmd h
    rcases hw with hw | rfl
    · exact hm hmd hw
    · exact ⟨by show Stream.kindInvoke.toNat < 64; decide, h⟩
  | abandoned sid md cancel =>
    simp only [Attempt.writes, Attempt.md, abandonedWrites, List.mem_append] at hw hmd
    rcases hw with hw | hw
    · exact hm hmd hw
    · split at hw
      · simp only [List.mem_cons, List.not_mem_nil, or_false] at hw
        subst hw
        exact ⟨by show Stream.kindCancel.toNat < 64; decide, by simp⟩
      · cases hw

/-- the reader returns exactly the packets of all the attempts -/
theorem attempts_delivery (mx final : Nat) (choose : Nat → Nat) (n : Int) (as : List Attempt)
    (hmx : mx < 2 ^ 64)
    (hsid : ∀ a ∈ as, 1 ≤ a.sid.toNat)
    (hinc : as.Pairwise (fun a b => a.sid.toNat < b.sid.toNat))
    (hw : ∀ a ∈ as, a.Within mx) :
    observed (readAll mx choose final (encodeAll n (attemptsPackets as))) =
      (attemptsPackets as, .transport final) := by
  rw [attemptsPackets_eq_calls]
  apply calls_delivery mx final choose n _ hmx
  · intro c hc
    obtain ⟨a, ha, rfl⟩ := List.mem_map.mp hc
    exact hsid a ha
  · rw [List.pairwise_map]; exact hinc
  · intro c hc
    obtain ⟨a, ha, rfl⟩ := List.mem_map.mp hc
    have := writes_length a
    show a.writes.length < 2 ^ 64
    omega
  · intro c hc
    obtain ⟨a, ha, rfl⟩ := List.mem_map.mp hc
    exact writes_ok (hw a ha)

theorem encodeAll_flatMap {α : Type} (n : Int) (f : α → List Packet) (l : List α) :
    encodeAll n (l.flatMap f) = l.flatMap fun x => encodeAll n (f x) := by
  induction l with
  | nil => rfl
  | cons x xs ih => simp only [List.flatMap_cons, encodeAll_append, ih]

theorem connPackets_eq_attempts (reqs : List Request) :
    connPackets reqs = attemptsPackets (reqs.map Attempt.unary) := by
  unfold connPackets attemptsPackets
  rw [List.flatMap_map]; rfl

/-- a usable bound for the size hypothesis on the metadata packet: at most 33 bytes of framing per entry -/
theorem encode_length_le (md : Pairs) :
    (encode md).length ≤ (md.map fun kv => kv.1.length + kv.2.length + 33).sum := by
  induction md with
  | nil => simp [encode]
  | cons kv md ih =>
    obtain ⟨k, v⟩ := kv
    simp only [encode, List.length_append, List.map_cons, List.sum_cons]
    have := appendVarint_length_le (BitVec.ofNat 64 (entryBody k v).length)
    rw [appendEntry_eq, List.length_cons, List.length_append]
    have := entryBody_length k v
    have := appendVarint_length_le (BitVec.ofNat 64 k.length)
    have := appendVarint_length_le (BitVec.ofNat 64 v.length)
    omega

/-! ### concrete values for the non-vacuity examples of Props/Request.lean -/

/-- {01: 02, 01: 03}: a duplicate key (two writes of the same key) -/
def exMdX : Pairs := [([1#8], [2#8]), ([1#8], [3#8])]
def exMdY : Pairs := [([5#8], [])]

theorem exFitsX : Fits exMdX := by
  intro kv h; simp [exMdX] at h; rcases h with h | h <;> subst h <;> decide
theorem exFitsY : Fits exMdY := by
  intro kv h; simp [exMdY] at h; subst h; decide
theorem exFitsNil : Fits [] := by intro kv h; cases h
theorem exSizeX : (encode exMdX).length ≤ 100 := Nat.le_trans (encode_length_le _) (by decide)
theorem exSizeY : (encode exMdY).length ≤ 100 := Nat.le_trans (encode_length_le _) (by decide)

/-! ### the driver's linear-time sender is the model's -/

theorem splitFramesFast_eq (sid mid : U64) (kind : Byte) (control : Bool) (m : Nat) (data : Bytes) :
    splitFramesFast sid mid kind control m data = splitFrames sid mid kind control m data := by
  induction data using splitFrames.induct (m := m) with
  | case1 data h ih =>
    have h' : data.drop m ≠ [] ∧ m > 0 := ⟨by rw [ne_eq, List.drop_eq_nil_iff]; omega, h.2⟩
    rw [splitFrames, splitFramesFast, dif_pos h, dif_pos h', ih]
  | case2 data h =>
    have h' : ¬ (data.drop m ≠ [] ∧ m > 0) := by
      rw [ne_eq, List.drop_eq_nil_iff]; omega
    rw [splitFrames, splitFramesFast, dif_neg h, dif_neg h']

theorem encodeAllFast_eq (n : Int) (pkts : List Packet) : encodeAllFast n pkts = encodeAll n pkts := by
  unfold encodeAllFast encodeAll splitN
  simp only [splitFramesFast_eq]

end Drpc.Conn
